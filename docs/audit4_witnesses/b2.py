import gens as G
from oracle_util import *
from protocol import from_real, to_real
from scoda.sequences.sequence import Sequence
from scoda.sequences.relative_sequence import RelativeSequence
t = [G.pm(WAIT,0,5), G.pm(ON,0,None,note=60,vel=64), G.pm(WAIT,0,12), G.pm(OFF,0,None,note=60), G.pm(WAIT,0,7)]
s = Sequence(relative_sequence=RelativeSequence(messages=[to_real(p) for p in t]))
s.scale(2)
out = [from_real(m) for m in s.rel._messages]
print("notes", notes_of(rel_timed(t)[0]), "dur", rel_timed(t)[1], "-> scale(2):", notes_of(rel_timed(out)[0]), "dur", rel_timed(out)[1], " (x2 exactly would be [(0,60,10,34,64)] dur 48)")
