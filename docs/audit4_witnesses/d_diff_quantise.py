"""differential old (f7c79e5 reverted) vs new quantise"""
import sys, os, json, random, subprocess
sys.path.insert(0, "/root/work/audit4/verif_D/harness")
os.environ.setdefault("SCODA_REPO", "/root/work/audit4/src/d_new")
import gens as G
from protocol import pm, ON, OFF, CC, PC, KEYSIG, INTERNAL
sys.path.insert(0, "/root/work/audit4/verif_D/harness/props")
W = os.path.join(os.path.dirname(os.path.abspath(__file__)), "d_worker.py")
OLD, NEW = "/root/work/audit4/src/d2_f7c79e5", "/root/work/audit4/src/d_new"

def run(src, op, ins):
    r = subprocess.run(["/venv/bin/python", W, op], input=json.dumps(ins), capture_output=True, text=True, env=dict(os.environ, SCODA_REPO=src))
    if r.returncode: raise SystemExit(r.stderr[-3000:])
    return json.loads(r.stdout)

def on_before_off(a):
    hits = set()
    for i, m in enumerate(a):
        if m[0] == ON:
            for n in a[i + 1:]:
                if n[2] != m[2]: break
                if n[0] == OFF and (n[1], n[3]) == (m[1], m[3]): hits.add((m[1], m[3], m[2]))
    return hits

STEPS = [[24, 12, 6, 16, 8, 4], [12], [4], [2, 3], [5, 7], [16, 24], [3], [24], [6, 4], [7], [2], [8, 8, 12], [9, 6, 9, 4], None]
rng = random.Random(int(sys.argv[1]) if len(sys.argv) > 1 else 1)
N = int(sys.argv[2]) if len(sys.argv) > 2 else 4000
cases = []
for i in range(N):
    a, notes = G.gen_wf_abs(rng, channels=(0, 1, 2))
    a = [list(m) for m in a]
    kind = "canonical"
    r = rng.random()
    if notes and rng.random() < 0.4:
        for _ in range(rng.randint(1, 3)):
            nt = rng.choice(notes); t = rng.choice([nt[2], nt[2] + nt[3]])
            a.append(list(rng.choice([G.pm(CC, nt[0], t, vel=64, ctl=7), G.pm(PC, nt[0], t, prog=3), G.pm(KEYSIG, nt[0], t, key=2), G.pm(INTERNAL, None, t)])))
        a.sort(key=lambda m: (m[2], -1 if m[1] is None else m[1], m[0], -1 if m[3] is None else m[3]))
    if r < 0.5:
        a = [list(m) for m in G.shuffle_ties(rng, [tuple(m) for m in a])]
        kind = "ties-shuffled"
    elif r < 0.6 and a:
        # zero-length note (on then off on one tick) of a fresh key
        t = rng.randrange(0, 200); a2 = [m for m in a]
        a2.append(list(G.pm(ON, 0, t, note=99, vel=50))); a2.append(list(G.pm(OFF, 0, t, note=99)))
        a2.sort(key=lambda m: m[2])  # stable: on before off
        a = a2; kind = "zero-length-note"
    elif r < 0.7:
        rng.shuffle(a); kind = "time-unsorted"
    cases.append({"abs": a, "steps": rng.choice(STEPS), "kind": kind, "d41": bool(on_before_off([tuple(m) for m in a]))})
o = run(OLD, "quantise", cases); n = run(NEW, "quantise", cases)
stats = {}
first = {}
for c, x, y in zip(cases, o, n):
    k = (c["kind"], "on-before-off" if c["d41"] else "no-on-before-off", "DIFF" if x != y else "same")
    stats[k] = stats.get(k, 0) + 1
    if x != y and k not in first: first[k] = (c, x, y)
for k in sorted(stats): print(k, stats[k])
for k, (c, x, y) in first.items():
    print("\nFIRST", k); print(" in ", json.dumps(c)); print(" old", json.dumps(x)); print(" new", json.dumps(y))
json.dump({str(k): v for k, v in first.items()}, open(os.path.join(os.path.dirname(W), "d_diff_quantise_first.json"), "w"))
