"""Audit round 4, C7: the concrete inputs of the new non-vacuity examples (lean/SCoda/Props/Examples4*.lean) run on the real library,
compared with what the Lean examples evaluate."""
import logging, tempfile, os
logging.disable(logging.CRITICAL)
from scoda.sequences.absolute_sequence import AbsoluteSequence
from scoda.sequences.relative_sequence import RelativeSequence
from scoda.sequences.sequence import Sequence
from scoda.elements.message import Message
from scoda.enumerations.message_type import MessageType as T
from scoda.misc.music_theory import Key
from scoda.tokenisation.notelike_tokenisation import MultiTrackLargeVocabularyNotelikeTokeniser as Tok

ok_all = True
def check(name, real, lean):
    global ok_all
    ok = real == lean
    ok_all &= ok
    print(f"{name}\n   real: {real}\n   lean: {lean}\n   {'MATCH' if ok else 'MISMATCH'}")

def on(n, v=64, ch=0, t=None): return Message(message_type=T.NOTE_ON, channel=ch, note=n, velocity=v, time=t)
def off(n, ch=0, t=None): return Message(message_type=T.NOTE_OFF, channel=ch, note=n, time=t)
def wait(t, ch=0): return Message(message_type=T.WAIT, channel=ch, time=t)
def ts(n, d): return Message(message_type=T.TIME_SIGNATURE, numerator=n, denominator=d)
def ks(k): return Message(message_type=T.KEY_SIGNATURE, key=k)
def rel(evts):
    r = RelativeSequence()
    for e in evts:
        r.add_message(e)
    return Sequence(relative_sequence=r)
def notes(seq):
    op, out = {}, []
    for m in seq.abs._messages:
        if m.message_type == T.NOTE_ON: op.setdefault((m.channel, m.note), []).append((m.time, m.velocity))
        elif m.message_type == T.NOTE_OFF and op.get((m.channel, m.note)):
            t, v = op[(m.channel, m.note)].pop(0); out.append((m.channel, m.note, t, m.time, v))
    return sorted(out, key=lambda x: (x[2], x[1]))

def rel_notes(seq):
    """notes read off the relative view in list order (the semantics of Model/Roll.lean `notesOf (eventsRel …)`)"""
    t, op, out = 0, {}, []
    for m in seq.rel._messages:
        if m.message_type == T.WAIT: t += m.time
        elif m.message_type == T.NOTE_ON: op.setdefault((m.channel, m.note), []).append((t, m.velocity))
        elif m.message_type == T.NOTE_OFF and op.get((m.channel, m.note)):
            a, v = op[(m.channel, m.note)].pop(0); out.append((m.channel, m.note, a, t, v))
    return out

# Examples4d: C05s aS (steps [6,4]) and aD (steps [6]), stored order with note-on before note-off on tick 50
def quant(evts, steps):
    a = AbsoluteSequence()
    for ty, n, v, t in evts:
        a._messages.append(Message(message_type=ty, note=n, velocity=v, time=t))   # stored order as given
    a.quantise(steps)
    return [(m.message_type.name, m.note, m.velocity, m.time) for m in a._messages]
ON, OFF = T.NOTE_ON, T.NOTE_OFF
aS = [(ON, 60, 64, 0), (ON, 64, 80, 7), (OFF, 64, None, 21), (ON, 60, 70, 50), (OFF, 60, None, 50), (ON, 64, 90, 60), (OFF, 64, None, 80), (OFF, 60, None, 100)]
check("Examples4d.aS_q (C05s.survives_partial)", quant(aS, [6, 4]),
      [("NOTE_ON", 60, 64, 0), ("NOTE_ON", 64, 80, 6), ("NOTE_OFF", 64, None, 20), ("NOTE_OFF", 60, None, 48), ("NOTE_ON", 60, 70, 48),
       ("NOTE_ON", 64, 90, 60), ("NOTE_OFF", 64, None, 80), ("NOTE_OFF", 60, None, 100)])
aD = [(ON, 60, 64, 0), (ON, 64, 80, 28), (OFF, 64, None, 29), (ON, 60, 70, 50), (OFF, 60, None, 50), (ON, 64, 90, 60), (OFF, 64, None, 80), (OFF, 60, None, 100)]
check("Examples4d.aD_q (C05s.dropped_partial)", quant(aD, [6]),
      [("NOTE_ON", 60, 64, 0), ("NOTE_OFF", 60, None, 48), ("NOTE_ON", 60, 70, 48), ("NOTE_ON", 64, 90, 60), ("NOTE_OFF", 64, None, 78),
       ("NOTE_OFF", 60, None, 102)])

# Examples4c: TokTie.tokenise_eq, two stateful calls
tk = Tok(num_tracks=1, velocity_bins=1)
bar1 = rel([ts(3, 4), on(60), wait(12), off(60), wait(60)])
bar2 = rel([ts(2, 4), on(62), wait(12), off(62), wait(6), on(64), wait(24), off(64)])
sd = {}
t1 = tk.tokenise([bar1], state_dict=sd)
d1 = dict(sd)
t2 = tk.tokenise([bar2], state_dict=sd)
check("Examples4c.call1 (first call, state returned)", (t1, d1),
      (["tsg_06_08", "trk_00-pit_060-val_12-vel_127", "rst_24", "rst_24", "rst_24", "bar"],
       {"cur_time": 72, "cur_time_bar": 0, "cur_time_signature_numerator": 3, "cur_time_signature_denominator": 4,
        "cur_bar_capacity_remaining": 72, "prv_track": 0, "prv_value": 12, "prv_velocity": 127}))
check("Examples4c.ex_tokenise_eq (second call, d = some d1)", (t2, sd),
      (["tsg_04_08", "trk_00-pit_062-val_12-vel_127", "rst_16", "rst_02", "trk_00-pit_064-val_24-vel_127", "rst_24", "rst_06", "bar"],
       {"cur_time": 120, "cur_time_bar": 0, "cur_time_signature_numerator": 2, "cur_time_signature_denominator": 4,
        "cur_bar_capacity_remaining": 48, "prv_track": 0, "prv_value": 24, "prv_velocity": 127}))

# Examples4c: Defs.detokenise_strings_partial with two tsg_ tokens
seqs = Tok(num_tracks=1, velocity_bins=1).detokenise(
    ["tsg_06_08", "trk_00-pit_060-val_12-vel_127", "rst_24", "bar", "tsg_04_08", "trk_00-pit_062-val_04-vel_127", "bar"])
real = [[(m.message_type.name, m.time, m.note if m.note is not None else -1, m.numerator if m.numerator is not None else -1)
         for m in q.abs._messages] for q in seqs]
check("Examples4c detokenise with tsg_06_08 / tsg_04_08", real,
      [[("TIME_SIGNATURE", 0, -1, 3), ("NOTE_ON", 0, 60, -1), ("NOTE_OFF", 12, 60, -1), ("INTERNAL", 72, -1, -1), ("TIME_SIGNATURE", 72, -1, 2),
        ("NOTE_ON", 72, 62, -1), ("NOTE_OFF", 76, 62, -1), ("INTERNAL", 120, -1, -1)]])

# Examples4: C12c / C12n, trkA + trkB through a real file
trkA = rel([ts(3, 4), ks(Key.D), Message(message_type=T.CONTROL_CHANGE, control=64, velocity=100), on(60, 90, 0), wait(24), off(60, 0),
            on(62, 80, 1), wait(12), off(62, 1), ts(4, 4), ks(Key.E), on(65, 70, 0), wait(12), off(65, 0)])
trkB = rel([on(64, 70, 1), wait(36, 1), off(64, 1)])
d = tempfile.mkdtemp(); p = os.path.join(d, "x.mid")
Sequence.sequences_save([trkA, trkB], p)
loaded = Sequence.sequences_load(p)
check("Examples4 save/load notes (C12c.save_load_notes_gen)", [notes(s) for s in loaded],
      [[(0, 60, 0, 24, 90), (0, 62, 24, 36, 80), (0, 65, 36, 48, 70)], [(0, 64, 0, 36, 70)]])
sig = [(m.time, m.numerator if m.numerator is not None else -1, m.denominator if m.denominator is not None else -1,
        list(Key).index(m.key) if m.key is not None else -1) for m in loaded[0].abs._messages if m.message_type in (T.TIME_SIGNATURE, T.KEY_SIGNATURE)]
check("Examples4.loaded0 (signatures of loaded sequence 0; C12n.*_in_forceX)", sorted(sig), sorted([(0, -1, -1, 2), (0, 3, 4, -1), (36, -1, -1, 4), (36, 4, 4, -1)]))

# Examples4b: C09n.sound_exact_boundary' on metaZ / sideZ
metaZ = rel([ts(3, 4), on(67), off(67), on(60), wait(72), ks(Key.G), wait(24), off(60), wait(10), on(62), off(62), wait(38), ts(2, 4), wait(48), ts(4, 4)])
sideZ = rel([wait(80), on(48, 64, 1), wait(70), off(48, 1), wait(100)])
tb = Sequence.sequences_split_bars([metaZ, sideZ], meta_track_index=0, quantise_note_lengths=False)
real = []
for bars in tb:
    sigs = [(b.time_signature_numerator, b.time_signature_denominator) for b in bars]
    t0, ns = 0, []
    for b in bars:
        ns += [(c, n, a + t0, e + t0, v) for (c, n, a, e, v) in rel_notes(b.sequence)]
        t0 += b.sequence.get_sequence_duration() if False else int(24 * 4 * b.time_signature_numerator / b.time_signature_denominator)
    real.append((sigs, sorted(ns, key=lambda x: (x[2], x[3], x[1]))))
lean = [([(3, 4), (3, 4), (2, 4), (4, 4)], [(0, 67, 0, 0, 64), (0, 60, 0, 72, 64), (0, 60, 72, 96, 64), (0, 62, 106, 106, 64)]),
        ([(3, 4), (3, 4), (2, 4), (4, 4)], [(1, 48, 80, 144, 64), (1, 48, 144, 150, 64)])]
check("Examples4b split bars of metaZ / sideZ (C09n.sound_exact_boundary')", real, lean)

print("\nALL MATCH" if ok_all else "\nSOME MISMATCH")
