#!/bin/sh
# both.sh bN script.py : run the script against /repo and against the mutant source
echo "--- /repo"; PYTHONPATH=/repo:/root/work/audit4/verif_B/harness SCODA_REPO=/repo /venv/bin/python "$2" 2>&1 | tail -${3:-12}
echo "--- $1"; PYTHONPATH=/root/work/audit4/src/$1:/root/work/audit4/verif_B/harness SCODA_REPO=/root/work/audit4/src/$1 /venv/bin/python "$2" 2>&1 | tail -${3:-12}
