"""AbsTie2.quantise_eq / quantiseNoteLengths_eq / cutoff_eq carry `refs.Nodup` (every message its own object).
Excluded point reachable through the public AbsoluteSequence.merge([b, b]) / merge([b]) (objects are shared, not copied).
What does the real code do there?"""
from scoda.sequences.absolute_sequence import AbsoluteSequence
from scoda.sequences.sequence import Sequence
from scoda.elements.message import Message, MessageType

def mk(evts):
    a = AbsoluteSequence()
    for ty, t, n in evts:
        a.add_message(Message(message_type=ty, time=t, note=n, velocity=64 if ty == MessageType.NOTE_ON else None))
    return a

def show(a):
    return [(m.message_type.name, m.time, m.note) for m in a._messages]

ON, OFF = MessageType.NOTE_ON, MessageType.NOTE_OFF
# 1. same objects twice in one list
b = mk([(ON, 5, 60), (OFF, 9, 60)])
a = AbsoluteSequence()
a.merge([b, b])
print("merged twice  :", show(a), "distinct objects:", len({id(m) for m in a._messages}))
try:
    a.quantise([4])
    print("quantise([4]) :", show(a))
except Exception as e:
    print("quantise raised", type(e).__name__, e)
print("b afterwards  :", show(b), "(b was not quantised by the caller)")

# 2. value-level expectation: the same VALUES as distinct objects
c = mk([(ON, 5, 60), (OFF, 9, 60), (ON, 5, 60), (OFF, 9, 60)])
c.quantise([4])
print("distinct objs :", show(c))

# 3. Sequence level: does merge share objects with its argument after the call?
s, t = Sequence(), Sequence()
t.add_absolute_message(Message(message_type=ON, time=5, note=60, velocity=64))
t.add_absolute_message(Message(message_type=OFF, time=9, note=60))
s.merge([t])
ids_s = {id(m) for m in s.abs._messages} | {id(m) for m in s.rel._messages}
ids_t = {id(m) for m in t.abs._messages} | {id(m) for m in t.rel._messages}
print("Sequence.merge shares objects with argument:", bool(ids_s & ids_t))
