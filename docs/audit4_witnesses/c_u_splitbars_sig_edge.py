import signal, sys
from scoda.sequences.sequence import Sequence
from scoda.elements.message import Message
from scoda.enumerations.message_type import MessageType as T
def build(n,d):
    s=Sequence()
    s.add_absolute_message(Message(message_type=T.TIME_SIGNATURE, time=0, numerator=n, denominator=d))
    s.add_absolute_message(Message(message_type=T.NOTE_ON, channel=0, time=0, note=60, velocity=90))
    s.add_absolute_message(Message(message_type=T.NOTE_OFF, channel=0, time=48, note=60))
    return s
class TO(Exception): pass
def h(*a): raise TO()
signal.signal(signal.SIGALRM,h)
for n,d in [(4,0),(0,4),(-3,4),(3,-4),(4,4)]:
    signal.alarm(5)
    try:
        tb=Sequence.sequences_split_bars([build(n,d)],0,False)
        r=[(b.time_signature_numerator,b.time_signature_denominator,b.sequence.get_sequence_duration() if hasattr(b.sequence,'get_sequence_duration') else None) for b in tb[0]]
    except TO: r='TIMEOUT (5s) - no termination'
    except Exception as e: r='!'+type(e).__name__+': '+str(e)[:80]
    signal.alarm(0)
    print((n,d), r)
