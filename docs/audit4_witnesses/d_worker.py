"""worker: SCODA_REPO=<src> python d_worker.py <op> < inputs.json > outputs.json ; runs real scoda code from that source."""
import sys, os, json, copy, pickle
sys.path.insert(0, "/root/work/audit4/verif_D/harness")
from protocol import to_real, from_real, pm
import scoda.sequences.absolute_sequence as _m
assert _m.__file__.startswith(os.environ["SCODA_REPO"]), _m.__file__
from scoda.sequences.absolute_sequence import AbsoluteSequence
from scoda.sequences.sequence import Sequence
from scoda.enumerations.message_type import MessageType

def plain(ms): return [list(from_real(m)) for m in ms]

def op_quantise(inp):
    seq = AbsoluteSequence(messages=[to_real(tuple(m)) for m in inp["abs"]])
    try:
        seq.quantise(None if inp["steps"] is None else list(inp["steps"]))
    except Exception as e:
        return {"err": type(e).__name__}
    return {"out": plain(seq._messages)}

def op_quantise_wrap(inp):
    s = Sequence()
    for m in inp["abs"]:
        s.add_absolute_message(to_real(tuple(m)))
    pre = inp.get("pre")
    if pre == "rel": s.rel
    try:
        s.quantise(None if inp["steps"] is None else list(inp["steps"]))
    except Exception as e:
        return {"err": type(e).__name__}
    r = {"flags": [s._abs_stale, s._rel_stale], "abs": plain(s._abs._messages)}
    r["rel"] = plain(s.rel._messages)
    return r

def op_interleaved(inp):
    seq = AbsoluteSequence(messages=[to_real(tuple(m)) for m in inp["abs"]])
    try:
        r = seq.get_interleaved_message_pairings(**inp.get("kw", {}))
    except Exception as e:
        return {"err": type(e).__name__}
    return {"out": [[c, plain(p)] for c, p in r]}

def op_equals(inp):
    a = AbsoluteSequence(messages=[to_real(tuple(m)) for m in inp["a"]])
    b = AbsoluteSequence(messages=[to_real(tuple(m)) for m in inp["b"]])
    try:
        return {"out": a.equals(b, **inp.get("kw", {}))}
    except Exception as e:
        return {"err": type(e).__name__}

def op_tok(inp):
    import hashlib
    sys.path.insert(0, "/root/work/audit4/verif_D/harness")
    import pyimpl as P
    from scoda.tokenisation.notelike_tokenisation import MultiTrackLargeVocabularyNotelikeTokeniser as Tk
    kw = dict(inp["cfg"])
    for k in ("pitch_range", "time_signature_range"):
        if k in kw: kw[k] = tuple(kw[k])
    us, uv = kw.get("step_sizes"), kw.get("note_values")
    try:
        tk = Tk(**kw)
    except Exception as e:
        return {"construct_err": type(e).__name__}
    r = {"size": tk.dictionary_size, "n": len(tk.dictionary), "steps": list(tk.step_sizes), "values": list(tk.note_values),
         "dict_sha": hashlib.sha256(json.dumps(list(tk.dictionary.items())).encode()).hexdigest()[:16],
         "user_steps_after": us, "user_values_after": uv, "steps_is_user": tk.step_sizes is us, "values_is_user": tk.note_values is uv}
    outs = []
    for tracks in inp.get("pieces", []):
        try:
            toks = tk.tokenise([P.seq_of_rel([tuple(m) for m in t]) for t in tracks])
            ids = tk.encode(toks)
            outs.append({"toks": toks, "ids": ids})
        except Exception as e:
            outs.append({"err": type(e).__name__ + ":" + str(e)[:60]})
    r["pieces"] = outs
    return r

def op_bar(inp):
    sys.path.insert(0, "/root/work/audit4/verif_D/harness")
    import pyimpl as P
    from scoda.elements.bar import Bar
    kw = {} if inp.get("dch", "absent") == "absent" else {"default_channel": inp["dch"]}
    try:
        b = Bar(P.seq_of_rel([tuple(m) for m in inp["rel"]]), inp["n"], inp["d"], None, **kw)
    except Exception as e:
        return {"err": type(e).__name__}
    r = {"bar": plain(b.sequence.rel._messages), "flags": [b.sequence._abs_stale, b.sequence._rel_stale], "attrs": sorted(k for k in vars(b) if k != "default_channel")}
    try:
        c = b.copy()
        r["copy"] = plain(c.sequence.rel._messages); r["copy_abs"] = plain(c.sequence.abs._messages)
    except Exception as e:
        r["copy_err"] = type(e).__name__
    return r

OPS = {k[3:]: v for k, v in globals().items() if k.startswith("op_")}
if __name__ == "__main__":
    op = OPS[sys.argv[1]]
    ins = json.load(sys.stdin)
    json.dump([op(i) for i in ins], sys.stdout)
