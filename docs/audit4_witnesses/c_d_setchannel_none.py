"""C04e.history_inv_strict: Legal puts no restriction on setChannel c; c = None (Lean pyNone = -1) and c = -1 on the real Sequence."""
from scoda.elements.message import Message
from scoda.enumerations.message_type import MessageType as T
from scoda.sequences.sequence import Sequence
def r0():
    s = Sequence()
    for m in [Message(message_type=T.NOTE_ON, channel=0, note=60, velocity=64), Message(message_type=T.WAIT, channel=0, time=10),
              Message(message_type=T.NOTE_OFF, channel=0, note=60), Message(message_type=T.WAIT, channel=0, time=14),
              Message(message_type=T.NOTE_ON, channel=0, note=62, velocity=64), Message(message_type=T.WAIT, channel=0, time=25),
              Message(message_type=T.NOTE_OFF, channel=0, note=62)]:
        s.add_relative_message(m)
    return s
def dump(ms): return [(m.message_type.value, m.channel, m.time, m.note) for m in ms]
for c in (None, -1):
    for hist in (["set", "abs", "rel"], ["set", "pad", "abs"], ["set", "abs", "pairings"], ["set", "abs", "quantise", "rel"], ["set", "merge", "rel"]):
        s = r0()
        try:
            for op in hist:
                if op == "set": s.set_channel(c)
                elif op == "abs": a = dump(s.abs._messages)
                elif op == "rel": r = dump(s.rel._messages)
                elif op == "pad": s.pad(96)
                elif op == "pairings": p = s.get_message_pairings()
                elif op == "quantise": s.quantise()
                elif op == "merge": s.merge([r0()])
            print(c, hist, "ok", dump(s.abs._messages)[:3], "...", dump(s.rel._messages)[-2:])
        except Exception as e:
            print(c, hist, "raised", type(e).__name__, e)
