"""quantise() on the repo's own MIDI fixtures, old (f7c79e5 reverted) vs new. usage: SCODA_REPO=<src> python d_quantise_realfiles.py  -> prints a digest per file/track"""
import sys, os, glob, hashlib, json
sys.path.insert(0, os.environ["SCODA_REPO"])
from scoda.sequences.sequence import Sequence
from scoda.enumerations.message_type import MessageType as T
import scoda.sequences.absolute_sequence as m
print("source:", m.__file__, file=sys.stderr)
for f in sorted(glob.glob("/repo/test/res/**/*.mid*", recursive=True)):
    try:
        seqs = Sequence.sequences_load(file_path=f)
    except Exception as e:
        print(os.path.basename(f), "load:", type(e).__name__); continue
    for i, s in enumerate(seqs):
        ab = s.abs._messages
        zero = 0; onb4off = 0
        opened = {}
        for j, x in enumerate(ab):
            if x.message_type == T.NOTE_ON: opened[(x.channel, x.note)] = x.time
            elif x.message_type == T.NOTE_OFF:
                t0 = opened.pop((x.channel, x.note), None)
                if t0 is not None and t0 == x.time: zero += 1
        for j, x in enumerate(ab):
            if x.message_type == T.NOTE_ON:
                for y in ab[j + 1:]:
                    if y.time != x.time: break
                    if y.message_type == T.NOTE_OFF and (y.channel, y.note) == (x.channel, x.note): onb4off += 1
        unsorted_ties = [ (x.time, -1 if x.channel is None else x.channel, x.message_type, x.note) for x in ab ]
        for steps in (None, [12], [4]):
            c = s.copy(); c.quantise(steps)
            out = [(x.message_type.value, x.channel, x.time, x.note, x.velocity) for x in c.abs._messages]
            ons = sum(1 for x in out if x[0] == "note_on"); offs = sum(1 for x in out if x[0] == "note_off")
            print(json.dumps([os.path.basename(f), i, steps, len(ab), "zero-length", zero, "on-before-off-same-tick", onb4off, "out on/off", ons, offs, hashlib.sha256(json.dumps(out).encode()).hexdigest()[:12]]))
