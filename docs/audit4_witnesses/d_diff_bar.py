"""differential old (f9ef398 reverted) vs new: Bar(...) and Bar.copy() with default_channel not passed / 0 / other"""
import sys, os, json, random, subprocess
sys.path.insert(0, "/root/work/audit4/verif_D/harness")
os.environ.setdefault("SCODA_REPO", "/root/work/audit4/src/d_new")
import gens as G
from protocol import TIMESIG
W = os.path.join(os.path.dirname(os.path.abspath(__file__)), "d_worker.py")
OLD, NEW = "/root/work/audit4/src/d2_f9ef398", "/root/work/audit4/src/d_new"
def run(src, op, ins):
    r = subprocess.run(["/venv/bin/python", W, op], input=json.dumps(ins), capture_output=True, text=True, env=dict(os.environ, SCODA_REPO=src))
    if r.returncode: raise SystemExit(r.stderr[-3000:])
    return json.loads(r.stdout)
rng = random.Random(1); cases = []
for i in range(3000):
    n, d = rng.choice([(4, 4), (3, 4), (6, 8), (2, 2), (5, 8), (1, 4)]); cap = 96 * n // d
    target = rng.choice([0, cap // 2, cap - 1, cap, cap + 1])
    chans = rng.choice([(0,), (1,), (0, 1, 2)])
    rel, notes = G.gen_wf_rel(rng, max_tick=max(1, target), max_dur=max(1, target // 2), channels=chans)
    if rng.random() < .6: rel = [m for m in rel if m[0] != TIMESIG]
    cases.append({"rel": [list(m) for m in rel], "n": n, "d": d, "dch": rng.choice(["absent", "absent", 0, 0, None, chans[0], 5])})
o = run(OLD, "bar", cases); n_ = run(NEW, "bar", cases)
stats = {}; first = {}
for c, x, y in zip(cases, o, n_):
    cls = "dch:absent/0" if c["dch"] in ("absent", 0) else "dch:None" if c["dch"] is None else "dch:other"
    k = (cls, "same" if x == y else "DIFF")
    stats[k] = stats.get(k, 0) + 1
    if x != y and k not in first: first[k] = (c, {kk: x.get(kk) for kk in ("copy", "err", "copy_err")}, {kk: y.get(kk) for kk in ("copy", "err", "copy_err")})
for k in sorted(stats): print(k, stats[k])
for k, v in first.items(): print("FIRST", k, json.dumps(v)[:900])
