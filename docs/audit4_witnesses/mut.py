#!/venv/bin/python
"""mut.py bN relpath 'old' 'new' -- Cxx [Cyy ...]
make scratch source bN (fresh copy of /repo/scoda), replace `old` by `new` (exactly one occurrence) in scoda/<relpath>,
save the diff, run the checks with SCODA_REPO and summarise.  Several edits: repeat relpath old new before `--`."""
import json
import os
import shutil
import subprocess
import sys

V = "/root/work/audit4/verif_B"
args = sys.argv[1:]
name = args[0]
sep = args.index("--")
edits = args[1:sep]
props = args[sep + 1:]
src = f"/root/work/audit4/src/{name}"
if edits:
    if os.path.exists(src):
        shutil.rmtree(src)
    os.makedirs(src)
    shutil.copytree("/repo/scoda", src + "/scoda", ignore=shutil.ignore_patterns("__pycache__"))
difftext = ""
for i in range(0, len(edits), 3):
    rel, old, new = edits[i:i + 3]
    p = f"{src}/scoda/{rel}"
    s = open(p).read()
    assert s.count(old) == 1, (rel, old, s.count(old))
    open(p, "w").write(s.replace(old, new))
    difftext += subprocess.run(["diff", "-u", f"/repo/scoda/{rel}", p], capture_output=True, text=True).stdout
os.makedirs(f"{V}/docs/audit4_witnesses", exist_ok=True)
if edits:
    open(f"{V}/docs/audit4_witnesses/{name}.diff", "w").write(difftext)
    print(difftext)
base = {}
for pr in props:
    e = json.load(open(f"/root/work/audit4/B_runs/base/ev/{pr}.json"))
    base[pr] = {k: v for k, v in e["coverage"]["distribution"].items() if k.startswith("known:")}
for pr in props:
    r = subprocess.run(["./check", pr, "--tier", "quick", "--no-build"], cwd=V, capture_output=True, text=True,
                       env=dict(os.environ, SCODA_REPO=src))
    out = r.stdout + r.stderr
    os.makedirs(f"/root/work/audit4/B_runs/{name}", exist_ok=True)
    open(f"/root/work/audit4/B_runs/{name}/{pr}.out", "w").write(out)
    print(f"=== {pr} exit={r.returncode}")
    for line in out.split("\n"):
        if line.startswith("VIOLATION") or line.startswith("  clause") or "clause " in line[:12] or line.startswith("ERROR") or "Traceback" in line:
            print("   ", line[:400])
        elif line.startswith("KNOWN-FINDING"):
            print("   ", line[:60])
    try:
        e = json.load(open(f"{V}/evidence/scratch/{pr}.json"))
        shutil.copy(f"{V}/evidence/scratch/{pr}.json", f"/root/work/audit4/B_runs/{name}/{pr}.json")
        now = {k: v for k, v in e["coverage"]["distribution"].items() if k.startswith("known:")}
        for k in sorted(set(now) | set(base[pr])):
            if now.get(k, 0) != base[pr].get(k, 0):
                print(f"    {k}: base {base[pr].get(k, 0)} -> mutant {now.get(k, 0)}")
        for v in (e.get("violations") if isinstance(e.get("violations"), list) else [])[:4]:
            print("    violation:", json.dumps(v, default=str)[:600])
    except Exception as ex:
        print("    (no evidence)", ex)
subprocess.run(["/venv/bin/python", "tools/gen_lean.py"], cwd=V, capture_output=True)
