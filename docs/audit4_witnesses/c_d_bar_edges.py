"""C10 barCopy_equal domain edges: n = 0, empty sequence, matching TS on another channel, key given, zero-length content."""
from scoda.elements.bar import Bar
from scoda.elements.message import Message
from scoda.enumerations.message_type import MessageType as T
from scoda.sequences.sequence import Sequence
from scoda.misc.music_theory import Key
def seq(msgs):
    s = Sequence()
    for m in msgs: s.add_relative_message(m)
    return s
def timed(b):
    t = 0; ev = []
    for m in b.sequence.rel._messages:
        if m.message_type == T.WAIT: t += m.time
        else: ev.append((t,) + tuple(v for k, v in m.__dict__.items() if k != "time"))
    return ev, t
cases = {
 "n=0,d=4 empty": ([], 0, 4, None, 3),
 "n=0,d=4 note0": ([Message(message_type=T.NOTE_ON, channel=2, note=60, velocity=9), Message(message_type=T.NOTE_OFF, channel=2, note=60)], 0, 4, None, 3),
 "4/4 TS on ch5, dch 3": ([Message(message_type=T.TIME_SIGNATURE, channel=5, numerator=4, denominator=4), Message(message_type=T.WAIT, time=10)], 4, 4, None, 3),
 "3/7 key": ([Message(message_type=T.KEY_SIGNATURE, channel=1, key=Key.C), Message(message_type=T.WAIT, time=5), Message(message_type=T.KEY_SIGNATURE, channel=1, key=Key.C)], 3, 7, Key.G, 2),
 "1/128": ([], 1, 128, None, 7),
}
for name, (msgs, n, d, key, dch) in cases.items():
    try:
        b = Bar(seq(msgs), n, d, key, default_channel=dch)
    except Exception as e:
        print(name, "ctor raised", type(e).__name__, e); continue
    try:
        c = b.copy()
    except Exception as e:
        print(name, "COPY raised", type(e).__name__, e); continue
    print(name, "equal timed events+dur:", timed(b) == timed(c), "attrs:", (c.time_signature_numerator, c.time_signature_denominator, c.key_signature, c.default_channel) == (n, d, key, dch), timed(b))
