"""C05s.dropped_statement_false (cxD, steps [6]) and survives_statement_false (cxS, steps [6,4]) have no replay note.
Lean: quantiseS [6] cxD = [on60 v50 @0, off60 @30, on60 v64 @30, off60 @60]; quantiseS [6,4] cxS = cxS."""
import logging; logging.disable(logging.CRITICAL)
from scoda.sequences.absolute_sequence import AbsoluteSequence
from scoda.elements.message import Message, MessageType as T
def run(evts, steps):
    a = AbsoluteSequence()
    for ty, t, v in evts:
        a.add_message(Message(message_type=ty, time=t, note=60, velocity=v))
    a.quantise(steps)
    return [(m.message_type.name, m.time, m.velocity) for m in a._messages]
print("cxD [6]  :", run([(T.NOTE_ON, 0, 50), (T.NOTE_OFF, 29, None), (T.NOTE_ON, 29, 64), (T.NOTE_OFF, 60, 0)], [6]))
print("cxS [6,4]:", run([(T.NOTE_ON, 0, 50), (T.NOTE_OFF, 100, None), (T.NOTE_ON, 100, 64), (T.NOTE_OFF, 200, 0)], [6, 4]))
# C03f.nozero_needs_sigsPos: silent piece, signature 0/4
from scoda.sequences.sequence import Sequence
from scoda.sequences.relative_sequence import RelativeSequence
r = RelativeSequence(); r.add_message(Message(message_type=T.TIME_SIGNATURE, numerator=0, denominator=4))
try:
    tb = Sequence.sequences_split_bars([Sequence(relative_sequence=r)], meta_track_index=0, quantise_note_lengths=False)
    print("0/4 silent:", [[(b.time_signature_numerator, b.time_signature_denominator, b.sequence.get_sequence_duration()) for b in bs] for bs in tb])
except Exception as e:
    print("0/4 silent raises", type(e).__name__, e)
