"""C10 / R7 / D37: Bar(...) with default_channel in {None,0,3,15,16,-1}, and copy()."""
from scoda.elements.bar import Bar
from scoda.elements.message import Message
from scoda.enumerations.message_type import MessageType as T
from scoda.sequences.sequence import Sequence
from scoda.settings.settings import PPQN
print("PPQN", PPQN)
def mk():
    s = Sequence()
    for m in [Message(message_type=T.NOTE_ON, channel=3, note=60, velocity=64), Message(message_type=T.WAIT, channel=3, time=24),
              Message(message_type=T.NOTE_OFF, channel=3, note=60)]:
        s.add_relative_message(m)
    return s
def dump(b):
    return [tuple(m.__dict__.values()) for m in b.sequence.rel.messages] if hasattr(b.sequence.rel, "messages") else [tuple(m.__dict__.values()) for m in b.sequence.rel._messages]
for dch in ["absent", None, 0, 3, 15, 16, -1]:
    kw = {} if dch == "absent" else {"default_channel": dch}
    b = Bar(mk(), 4, 4, None, **kw)
    c = b.copy()
    db, dc = dump(b), dump(c)
    print("dch", dch, "bar.default_channel", b.default_channel, "copy.default_channel", c.default_channel,
          "head ch bar/copy", db[0][1], dc[0][1], "same events", db == dc,
          "seq ==", c.sequence == b.sequence, "bar ==", c == b)
print("--- raw dumps for dch=0 and dch=-1")
for dch in [0, -1]:
    b = Bar(mk(), 4, 4, None, default_channel=dch); c = b.copy()
    print("bar ", dump(b)); print("copy", dump(c))
