"""C10Ch.bar_copy_ch excluded point (n, d) = (pyNone, pyNone) = (-1, -1), and n<0 / d<0 in general: real Bar + copy."""
from scoda.elements.bar import Bar
from scoda.elements.message import Message
from scoda.enumerations.message_type import MessageType as T
from scoda.sequences.sequence import Sequence
def timed(b):
    t = 0; ev = []
    for m in b.sequence.rel._messages:
        if m.message_type == T.WAIT: t += m.time
        else: ev.append((t, m.message_type.value, m.channel, m.note, m.numerator, m.denominator))
    return ev, t
for n, d in [(-1, -1), (-4, -4), (-1, 200), (4, -4)]:
    s = Sequence(); s.add_relative_message(Message(message_type=T.NOTE_ON, channel=3, note=60, velocity=64)); s.add_relative_message(Message(message_type=T.WAIT, time=24)); s.add_relative_message(Message(message_type=T.NOTE_OFF, channel=3, note=60))
    try:
        b = Bar(s, n, d, None, default_channel=3); c = b.copy()
        print((n, d), "accepted:", timed(b), "| copy equal:", timed(b) == timed(c))
    except Exception as e:
        print((n, d), "raised", type(e).__name__, e)
