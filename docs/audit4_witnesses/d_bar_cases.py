"""Bar.copy after f9ef398: old (reverted) vs new. usage: SCODA_REPO=<src> python d_bar_cases.py [pickle-out|pickle-in file]"""
import sys, os, pickle, copy
sys.path.insert(0, os.environ["SCODA_REPO"])
from scoda.elements.bar import Bar
from scoda.elements.track import Track
from scoda.elements.composition import Composition
from scoda.sequences.sequence import Sequence
from scoda.elements.message import Message
from scoda.enumerations.message_type import MessageType as T
import scoda.elements.bar as bm
print("source:", bm.__file__)
def seq(ch=3):
    s = Sequence()
    s.add_relative_message(Message(message_type=T.NOTE_ON, channel=ch, note=60, velocity=64))
    s.add_relative_message(Message(message_type=T.WAIT, channel=ch, time=24))
    s.add_relative_message(Message(message_type=T.NOTE_OFF, channel=ch, note=60))
    return s
def ev(b): return [(m.message_type.value, m.channel, m.time, m.note, m.numerator, m.denominator) for m in b.sequence.rel._messages]
def trial(label, f):
    try: print(f"{label:62}", f())
    except Exception as e: print(f"{label:62} RAISES {type(e).__name__}: {e}")
if len(sys.argv) > 2 and sys.argv[1] == "pickle-out":
    pickle.dump(Bar(seq(0), 4, 4), open(sys.argv[2], "wb")); print("pickled"); sys.exit()
if len(sys.argv) > 2 and sys.argv[1] == "pickle-in":
    b = pickle.load(open(sys.argv[2], "rb"))
    trial("copy() of a Bar pickled by the previous version", lambda: ev(b.copy())[:1])
    trial("Track([b]).copy() of that bar", lambda: len(Track([b]).copy().bars))
    sys.exit()
b = Bar(seq(3), 4, 4, None, default_channel=3)
trial("D37: copy == original events (dch=3)", lambda: ev(b.copy()) == ev(b))
trial("  copy.sequence == bar.sequence", lambda: b.copy().sequence == b.sequence)
trial("deepcopy keeps events", lambda: ev(copy.deepcopy(b)) == ev(b))
trial("pickle round trip then copy", lambda: ev(pickle.loads(pickle.dumps(b)).copy()) == ev(b))
trial("Track.copy / Composition.copy keep TS channel", lambda: (ev(Track([b]).copy().bars[0])[0], ev(Composition([Track([b])]).copy().tracks[0].bars[0])[0]))
# a bar with a past: set_channel moves EVERY message incl. the leading time signature
b2 = Bar(seq(0), 4, 4); b2.sequence.set_channel(5)
trial("bar.sequence.set_channel(5) then copy: events equal?", lambda: (ev(b2.copy()) == ev(b2), ev(b2)[0], ev(b2.copy())[0]))
b3 = Bar(seq(3), 4, 4, None, default_channel=3); b3.sequence.set_channel(0)
trial("Bar(dch=3); set_channel(0); copy: events equal?", lambda: (ev(b3.copy()) == ev(b3), ev(b3)[0], ev(b3.copy())[0]))
# default_channel=None
b4 = Bar(seq(3), 4, 4, None, default_channel=None)
trial("default_channel=None: copy events equal?", lambda: (ev(b4.copy()) == ev(b4), ev(b4)[0], ev(b4.copy())[0]))
# subclass with the pre-fix constructor signature
class MyBar(Bar):
    def __init__(self, sequence, numerator, denominator, key=None):
        super().__init__(sequence, numerator, denominator, key)
trial("subclass with 4-argument __init__: copy()", lambda: type(MyBar(seq(0), 4, 4).copy()).__name__)
# object without the attribute
nb = Bar.__new__(Bar); nb.sequence = Bar(seq(0), 4, 4).sequence; nb.time_signature_numerator = 4; nb.time_signature_denominator = 4; nb.key_signature = None
trial("Bar.__new__ + the four documented attributes: copy()", lambda: ev(nb.copy())[:1])
# bars from sequences_split_bars carry the attribute?
s = Sequence(); s.add_relative_message(Message(message_type=T.TIME_SIGNATURE, channel=2, numerator=4, denominator=4))
for m in seq(2).rel._messages: s.add_relative_message(m)
s.add_relative_message(Message(message_type=T.WAIT, channel=2, time=72))
bars = Sequence.sequences_split_bars([s], 0)[0]
trial("split_bars bar: default_channel, TS channel, copy equal", lambda: (getattr(bars[0], "default_channel", "MISSING"), ev(bars[0])[0], ev(bars[0].copy()) == ev(bars[0])))
