"""C05s.* carry `WF (sortAbs a)` (note-ons/offs of each key alternate in the CANONICAL order) and `OkAbs (sortAbs a)`.
Property C05 text has no such input condition ("After quantising with any list of step sizes ...").
Run the real AbsoluteSequence.quantise at excluded points (zero-length notes, re-triggered notes, orphan offs) and judge
the property text: no exception; every event on grid; moved <= max step; on/off pair with positive duration; no overlap."""
import itertools, random, logging
logging.disable(logging.CRITICAL)
from scoda.sequences.absolute_sequence import AbsoluteSequence
from scoda.elements.message import Message, MessageType as T

def mk(evts):
    a = AbsoluteSequence()
    for ty, t, n in evts:
        a.add_message(Message(message_type=ty, time=t, note=n, velocity=64 if ty == T.NOTE_ON else None))
    return a

def notes(msgs):
    open_, out, bad = {}, [], []
    for ty, t, n in msgs:
        if ty == 'NOTE_ON':
            if n in open_: bad.append(('retrigger', n, t))
            open_[n] = t
        elif ty == 'NOTE_OFF':
            if n not in open_: bad.append(('orphan off', n, t))
            else: out.append((n, open_.pop(n), t))
    for n, t in open_.items(): bad.append(('unclosed', n, t))
    return out, bad

def judge(evts, steps):
    a = mk(evts)
    try:
        a.quantise(steps)
    except Exception as e:
        return [('RAISES', type(e).__name__, str(e))]
    res = [(m.message_type.name, m.time, m.note) for m in a._messages]
    v = []
    for ty, t, n in res:
        if not any(t % s == 0 for s in steps): v.append(('offgrid', ty, t, n))
    ns, bad = notes(res)
    v += bad
    for n, on, off in ns:
        if not on < off: v.append(('nonpositive', n, on, off))
    return v

random.seed(4)
seen = {}
for trial in range(60000):
    k = random.randint(1, 5)
    evts = [(random.choice([T.NOTE_ON, T.NOTE_OFF]), random.randint(0, 14), random.choice([60, 61])) for _ in range(k)]
    steps = random.choice([[4], [3], [4, 6], [2]])
    v = judge(evts, steps)
    if v:
        key = v[0][0] if v[0][0] != 'RAISES' else ('RAISES', v[0][1])
        if key not in seen:
            seen[key] = ([(ty.name, t, n) for ty, t, n in evts], steps, v)
for k, (e, s, v) in seen.items():
    print(k, '\n   input', e, 'steps', s, '\n   ->', v)
