import sys, subprocess
sys.path.insert(0, "/root/work/audit3/verif/harness")
import pyimpl as P, gens as G
from scoda.sequences.sequence import Sequence
from scoda.elements.message import Message
from scoda.enumerations.message_type import MessageType as T
from scoda.misc.music_theory import Key
KEYS=list(Key)
# real code: meta sequence built through the absolute view, same-tick key signatures inserted in non-canonical order
s = Sequence()
s.add_absolute_message(Message(message_type=T.KEY_SIGNATURE, channel=1, time=0, key=KEYS[1]))
s.add_absolute_message(Message(message_type=T.KEY_SIGNATURE, channel=0, time=0, key=KEYS[2]))
s.add_absolute_message(Message(message_type=T.NOTE_ON, channel=0, time=0, note=60, velocity=90))
s.add_absolute_message(Message(message_type=T.NOTE_OFF, channel=0, time=288, note=60))
print("abs order:", [(m.message_type.name, m.channel, m.key) for m in s.abs._messages])
relmsgs = [(m.message_type.name, m.channel, m.time, m.key) for m in s.copy().rel._messages]
print("rel of copy:", relmsgs)
bars = Sequence.sequences_split_bars([s], 0, quantise_note_lengths=False)[0]
print("REAL bars keys:", [b.key_signature for b in bars])
# the model: splitBars on the relative view (what the theorem's RHS computes)
rel = [G.pm(G.KEYSIG, 1, None, key=1), G.pm(G.KEYSIG, 0, None, key=2), G.pm(G.ON, 0, None, note=60, vel=90), G.pm(G.WAIT, 0, 288), G.pm(G.OFF, 0, None, note=60)]
words, py = P.op_splitBars(0, False, [rel])
print("REAL from rel-only state:", py()[:400] if callable(py) else py)
import protocol
print(" ".join(words))
