from scoda.sequences.sequence import Sequence
from scoda.elements.message import Message
from scoda.enumerations.message_type import MessageType as T
from scoda.misc.music_theory import Key
KEYS=list(Key)
print(KEYS[:4])
def build():
    s = Sequence()
    s.add_absolute_message(Message(message_type=T.KEY_SIGNATURE, channel=1, time=0, key=KEYS[1]))
    s.add_absolute_message(Message(message_type=T.KEY_SIGNATURE, channel=0, time=0, key=KEYS[2]))
    s.add_absolute_message(Message(message_type=T.NOTE_ON, channel=0, time=0, note=60, velocity=90))
    s.add_absolute_message(Message(message_type=T.NOTE_OFF, channel=0, time=288, note=60))
    return s
s = build()
print("abs order:", [(m.message_type.name, m.channel, m.time, m.key) for m in s.abs._messages])
relmsgs = [(m.message_type.name, m.channel, m.time, m.key) for m in s.copy().rel._messages]
print("rel of copy:", relmsgs)
bars = Sequence.sequences_split_bars([build()], 0, quantise_note_lengths=False)[0]
print("REAL bars keys (abs-built):", [b.key_signature for b in bars])
from scoda.sequences.relative_sequence import RelativeSequence
r = RelativeSequence()
for m in s.copy().rel._messages:
    r._messages.append(m.copy() if hasattr(m,'copy') else m)
s2 = Sequence(relative_sequence=r)
bars = Sequence.sequences_split_bars([s2], 0, quantise_note_lengths=False)[0]
print("REAL bars keys (rel-given):", [b.key_signature for b in bars])
