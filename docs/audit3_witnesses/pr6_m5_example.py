import tempfile, os
from scoda.sequences.sequence import Sequence
from scoda.sequences.relative_sequence import RelativeSequence
from scoda.elements.message import Message
from scoda.enumerations.message_type import MessageType as T
from scoda.misc.music_theory import Key
import mido
KEYS=list(Key)
def mk(msgs):
    r = RelativeSequence()
    for m in msgs: r._messages.append(m)
    return Sequence(relative_sequence=r)
M=lambda **k: Message(**k)
on=lambda n,v,c=0: M(message_type=T.NOTE_ON, channel=c, note=n, velocity=v)
off=lambda n,c=0: M(message_type=T.NOTE_OFF, channel=c, note=n)
w=lambda t,c=0: M(message_type=T.WAIT, channel=c, time=t)
exA=[M(message_type=T.TIME_SIGNATURE, numerator=3, denominator=4), M(message_type=T.KEY_SIGNATURE, key=KEYS[2]), M(message_type=T.CONTROL_CHANGE, control=64, velocity=100),
     on(60,None), w(24), off(60), on(62,80), w(12), off(62)]
exB=[on(64,70,1), w(36,1), off(64,1)]
d=tempfile.mkdtemp(); p=os.path.join(d,"x.mid")
Sequence.sequences_save([mk(exA), mk(exB)], p)
mf=mido.MidiFile(p)
for t in mf.tracks:
    print([ (m.type, m.time, getattr(m,'channel',None), getattr(m,'note',None), getattr(m,'velocity',None), getattr(m,'numerator',None), getattr(m,'denominator',None), getattr(m,'key',None), getattr(m,'control',None), getattr(m,'value',None)) for m in t])
out=Sequence.sequences_load(file_path=p)
for s in out:
    print([(m.message_type.name, m.time, m.note, m.velocity) for m in s.abs._messages])
