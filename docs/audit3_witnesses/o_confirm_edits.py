import sys, os, tempfile, logging
which, repo = sys.argv[1], sys.argv[2]
sys.path.insert(0, repo)
logging.disable(logging.CRITICAL)
from scoda.sequences.sequence import Sequence
from scoda.sequences.relative_sequence import RelativeSequence
from scoda.elements.message import Message
from scoda.enumerations.message_type import MessageType as T
from scoda.misc.music_theory import Key
from scoda.tokenisation.notelike_tokenisation import MultiTrackLargeVocabularyNotelikeTokeniser as Tk
def rel(msgs): return Sequence(relative_sequence=RelativeSequence(messages=msgs))
M=Message
def notes(s): return [(m.message_type.value, m.time, m.note) for m in s.abs._messages if m.message_type in (T.NOTE_ON,T.NOTE_OFF)]
if which=="E2":
    s=rel([M(message_type=T.WAIT,time=10), M(message_type=T.PROGRAM_CHANGE,program=5), M(message_type=T.NOTE_ON,note=60,velocity=64),
           M(message_type=T.WAIT,time=10), M(message_type=T.NOTE_OFF,note=60)])
    fd,p=tempfile.mkstemp(suffix=".mid"); os.close(fd)
    Sequence.sequences_save([s],p); l=Sequence.sequences_load(file_path=p); os.unlink(p)
    print("saved", notes(s), "loaded", notes(l[0]))
elif which=="E3":
    s=rel([M(message_type=T.TIME_SIGNATURE,numerator=4,denominator=4), M(message_type=T.NOTE_ON,note=60,velocity=64), M(message_type=T.WAIT,time=24), M(message_type=T.NOTE_OFF,note=60), M(message_type=T.WAIT,time=72),
           M(message_type=T.TIME_SIGNATURE,numerator=3,denominator=4), M(message_type=T.NOTE_ON,note=62,velocity=64), M(message_type=T.WAIT,time=24), M(message_type=T.NOTE_OFF,note=62)])
    tk=Tk(num_tracks=1); toks=tk.tokenise([s]); out=tk.detokenise(tk.decode(tk.encode(toks)))
    print(toks); print("sigs out:", [(m.time,m.numerator,m.denominator) for m in out[0].abs._messages if m.message_type==T.TIME_SIGNATURE], "(in: (0,4,4),(96,3,4))")
elif which=="E10":
    s=rel([M(message_type=T.NOTE_ON,note=107,velocity=64), M(message_type=T.WAIT,time=24), M(message_type=T.NOTE_OFF,note=107), M(message_type=T.KEY_SIGNATURE,key=Key.C), M(message_type=T.WAIT,time=24)])
    f=s.transpose(2); print("flag",f,"keys",[m.key for m in s.rel._messages if m.message_type==T.KEY_SIGNATURE],"(expected D)")
elif which=="E5":
    import mido
    mf=mido.MidiFile(); mf.ticks_per_beat=24; tr=mido.MidiTrack(); tr.append(mido.MetaMessage("key_signature",key="Am",time=0))
    tr.append(mido.Message("note_on",note=60,velocity=64,time=0)); tr.append(mido.Message("note_off",note=60,velocity=0,time=24)); mf.tracks.append(tr)
    fd,p=tempfile.mkstemp(suffix=".mid"); os.close(fd); mf.save(p); l=Sequence.sequences_load(file_path=p); os.unlink(p)
    print("file key Am (no accidentals) loaded as", [m.key for m in l[0].abs._messages if m.message_type==T.KEY_SIGNATURE])
elif which=="E6":
    tk=Tk(num_tracks=1, step_sizes=[2,4,8,48], note_values=[24])
    s=rel([M(message_type=T.TIME_SIGNATURE,numerator=4,denominator=4), M(message_type=T.WAIT,time=48), M(message_type=T.NOTE_ON,note=60,velocity=64), M(message_type=T.WAIT,time=24), M(message_type=T.NOTE_OFF,note=60)])
    toks=tk.tokenise([s]); print(toks, "missing:", [t for t in toks if t not in tk.dictionary])
elif which=="E7":
    s=rel([M(message_type=T.NOTE_ON,note=60,velocity=64), M(message_type=T.WAIT,time=48), M(message_type=T.NOTE_OFF,note=60)])
    s.cutoff(24, 6); print("cutoff(24,6):", notes(s), "(expected off at 6)")
elif which=="E4":
    for kw in (dict(step_sizes=[4,4,8]), dict(note_values=[12,12,24])):
        tk=Tk(num_tracks=1, pitch_range=(60,60), **kw); d=tk.dictionary
        print(kw, "dictionary_size", tk.dictionary_size, "entries", len(d), "ids consecutive:", sorted(d.values())==list(range(len(d))))
        try: print("  decode(size-1):", tk.decode([tk.dictionary_size-1]))
        except Exception as e: print("  decode(size-1) raises", type(e).__name__)
