import sys
sys.path.insert(0, sys.argv[1])
from scoda.sequences.sequence import Sequence
from scoda.sequences.relative_sequence import RelativeSequence
from scoda.elements.message import Message
from scoda.enumerations.message_type import MessageType as T
from scoda.misc.music_theory import Key
r = RelativeSequence()
r.add_message(Message(message_type=T.KEY_SIGNATURE, key=Key.G))
r.add_message(Message(message_type=T.KEY_SIGNATURE, key=Key.D))
r.add_message(Message(message_type=T.NOTE_ON, note=60, velocity=90))
r.add_message(Message(message_type=T.WAIT, time=96*3))
r.add_message(Message(message_type=T.NOTE_OFF, note=60))
bars = Sequence.sequences_split_bars([Sequence(relative_sequence=r)], 0, quantise_note_lengths=False)[0]
print([(b.time_signature_numerator, b.time_signature_denominator, b.key_signature) for b in bars])
