from scoda.sequences.sequence import Sequence
from scoda.sequences.relative_sequence import RelativeSequence
from scoda.elements.message import Message
from scoda.enumerations.message_type import MessageType as T
from scoda.misc.music_theory import Key
KEYS=list(Key)
def build():
    s = Sequence()
    s.add_absolute_message(Message(message_type=T.NOTE_ON, channel=1, time=0, note=60, velocity=90))
    s.add_absolute_message(Message(message_type=T.TIME_SIGNATURE, channel=0, time=0, numerator=3, denominator=4))
    s.add_absolute_message(Message(message_type=T.KEY_SIGNATURE, channel=0, time=0, key=KEYS[2]))
    s.add_absolute_message(Message(message_type=T.NOTE_OFF, channel=1, time=100, note=60))
    s.add_absolute_message(Message(message_type=T.NOTE_ON, channel=0, time=100, note=62, velocity=80))
    s.add_absolute_message(Message(message_type=T.NOTE_OFF, channel=0, time=120, note=62))
    return s
def other():
    r = RelativeSequence()
    for m in [Message(message_type=T.NOTE_ON, channel=1, note=64, velocity=80), Message(message_type=T.WAIT, channel=1, time=30), Message(message_type=T.NOTE_OFF, channel=1, note=64)]:
        r._messages.append(m)
    return Sequence(relative_sequence=r)
s = build()
print("abs order:", [(m.message_type.name, m.channel, m.time) for m in s.abs._messages])
def dur(b): return sum(m.time for m in b.sequence.rel._messages if m.message_type == T.WAIT)
tb = Sequence.sequences_split_bars([build(), other()], 0, True)
print("abs-built:", [[(b.time_signature_numerator, b.time_signature_denominator, b.key_signature.name if b.key_signature else None, dur(b)) for b in bars] for bars in tb])
r = RelativeSequence()
for m in build().rel._messages: r._messages.append(m)
tb2 = Sequence.sequences_split_bars([Sequence(relative_sequence=r), other()], 0, True)
print("rel-given:", [[(b.time_signature_numerator, b.time_signature_denominator, b.key_signature.name if b.key_signature else None, dur(b)) for b in bars] for bars in tb2])
same = [[[ (m.message_type.name, m.channel, m.time, m.note) for m in b.sequence.rel._messages] for b in bars] for bars in tb] == [[[ (m.message_type.name, m.channel, m.time, m.note) for m in b.sequence.rel._messages] for b in bars] for bars in tb2]
print("bars identical:", same)
