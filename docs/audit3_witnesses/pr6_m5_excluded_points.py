import tempfile, os, traceback
from scoda.sequences.sequence import Sequence
from scoda.sequences.relative_sequence import RelativeSequence
from scoda.elements.message import Message
from scoda.enumerations.message_type import MessageType as T
from scoda.misc.music_theory import Key
import mido
KEYS=list(Key)
def mk(msgs):
    r = RelativeSequence()
    for m in msgs: r._messages.append(m)
    return Sequence(relative_sequence=r)
def show(s):
    return [(m.message_type.name, m.channel, m.time, m.note, m.velocity, m.numerator, m.denominator, m.key.name if m.key is not None else None, m.control) for m in s.rel._messages]
def rt(name, msgs):
    print("==", name)
    d = tempfile.mkdtemp(); p = os.path.join(d, "x.mid")
    try:
        Sequence.sequences_save([mk(msgs)], p)
    except Exception as ex:
        print("  SAVE raised", type(ex).__name__, ex); return
    mf = mido.MidiFile(p)
    print("  mido:", [str(m) for m in mf.tracks[0]], "tpb", mf.ticks_per_beat)
    try:
        out = Sequence.sequences_load(file_path=p)
    except Exception as ex:
        print("  LOAD raised", type(ex).__name__, ex); return
    for s in out: print("  loaded:", show(s))
M=lambda **k: Message(**k)
on=lambda n,v,c=0: M(message_type=T.NOTE_ON, channel=c, note=n, velocity=v)
off=lambda n,c=0: M(message_type=T.NOTE_OFF, channel=c, note=n)
w=lambda t,c=0: M(message_type=T.WAIT, channel=c, time=t)
rt("plain", [on(60,90), w(24), off(60)])
rt("vel0 note-on", [on(60,0), w(24), off(60), on(62,80), w(24), off(62)])
rt("vel None", [on(60,None), w(24), off(60)])
for k in KEYS:
    rt("key "+k.name, [M(message_type=T.KEY_SIGNATURE, key=k), on(60,90), w(24), off(60)])
rt("key None", [M(message_type=T.KEY_SIGNATURE, key=None), on(60,90), w(24), off(60)])
rt("ts 3/4", [M(message_type=T.TIME_SIGNATURE, numerator=3, denominator=4), on(60,90), w(24), off(60)])
rt("ts 4/3", [M(message_type=T.TIME_SIGNATURE, numerator=4, denominator=3), on(60,90), w(24), off(60)])
rt("ts 5/6", [M(message_type=T.TIME_SIGNATURE, numerator=5, denominator=6), on(60,90), w(24), off(60)])
rt("ts 0/4", [M(message_type=T.TIME_SIGNATURE, numerator=0, denominator=4), on(60,90), w(24), off(60)])
rt("ts 300/4", [M(message_type=T.TIME_SIGNATURE, numerator=300, denominator=4), on(60,90), w(24), off(60)])
rt("ts None", [M(message_type=T.TIME_SIGNATURE), on(60,90), w(24), off(60)])
rt("cc", [M(message_type=T.CONTROL_CHANGE, control=64, velocity=100), on(60,90), w(24), off(60)])
rt("cc None val", [M(message_type=T.CONTROL_CHANGE, control=64), on(60,90), w(24), off(60)])
rt("note 128", [on(128,90), w(24), off(128)])
rt("vel 128", [on(60,128), w(24), off(60)])
rt("program change", [M(message_type=T.PROGRAM_CHANGE, program=5), on(60,90), w(24), off(60)])
rt("big wait", [on(60,90), w(300000000), off(60)])
rt("trailing wait", [on(60,90), w(24), off(60), w(48)])
