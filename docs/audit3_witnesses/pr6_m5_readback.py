# ReadBack assumption, replayed: written mido object vs mido.MidiFile(path) after save, on random in-domain messages
import tempfile, os, random
import mido
from scoda.settings.settings import PPQN
ATTRS = ["type","time","channel","note","velocity","numerator","denominator","key","control","value"]
KEYS = ["C","G","D","A","E","B","F#","C#","F","Bb","Eb","Ab","Db","Gb","Cb"]
def view(m): return tuple(getattr(m,a,None) for a in ATTRS)
random.seed(7)
bad = 0; n = 0
for trial in range(300):
    mf = mido.MidiFile(); mf.ticks_per_beat = PPQN
    for _ in range(random.randint(1,3)):
        t = mido.MidiTrack()
        for _ in range(random.randint(0,12)):
            k = random.randint(0,4); tm = random.choice([0,0,1,5,24,127,128,16383,16384,2097151,2097152, 268435455, 300000000])
            if k==0: t.append(mido.Message("note_on", note=random.choice([0,1,60,126,127]), velocity=random.choice([0,1,64,127]), time=tm))
            elif k==1: t.append(mido.Message("note_off", note=random.choice([0,60,127]), velocity=0, time=tm))
            elif k==2: t.append(mido.MetaMessage("time_signature", numerator=random.choice([0,1,3,4,12,255]), denominator=random.choice([1,2,4,8,16,32,64,128,2**20]), time=tm))
            elif k==3: t.append(mido.MetaMessage("key_signature", key=random.choice(KEYS), time=tm))
            else: t.append(mido.Message("control_change", channel=0, control=random.choice([0,64,127]), value=random.choice([0,100,127]), time=tm))
        mf.tracks.append(t)
    d = tempfile.mkdtemp(); p = os.path.join(d,"x.mid")
    written = [[view(m) for m in t] for t in mf.tracks]
    try:
        mf.save(p)
    except Exception as ex:
        print("save raised", type(ex).__name__, ex, [w for t in written for w in t if w[0]=="time_signature"][:3]); bad += 1; continue
    rd = mido.MidiFile(p)
    n += 1
    ok = rd.ticks_per_beat == mf.ticks_per_beat and len(rd.tracks)==len(written)
    for t, w in zip(rd.tracks, written):
        r = [view(m) for m in t]
        if not (r[:-1] == w and r[-1][0]=="end_of_track" and len(r)==len(w)+1):
            ok = False; print("DIFF", w, r)
        if r[-1][1] != 0: print("eot time", r[-1][1])
    if not ok: bad += 1
print("files", n, "bad", bad)
