/-
  Line-protocol driver for the identity correspondence of C16 (`SCoda/Model/HeapOps.lean`).
  Run:  lake env lean --run HeapDriver.lean < requests > answers      (imports Model only)

  One request per line, one answer line per request:

    hist <nSeq> <seqSpec>*  <tables>  <nOps> <op>*

  seqSpec   R <msgs> | A <msgs> | B <msgs> <msgs>     a `Sequence` built from a relative view, from an
                                                      absolute view, or from both (abs first)
  msgs      <n> <msg>*            msg = ty ch time note vel ctl prog num den key   (`N` = None)
  tables    the value oracle, replayed from what the harness recorded on the real objects; every table is
            keyed by the message VALUES the call read (the tag is ignored):
              <n> (<msgs> <msgs>)*              to_absolute_sequence : source values → values of the new messages
              <n> (<msgs> <msgs>)*              to_relative_sequence
              <n> (<msgs> <msgs>)*              in-place edits       : values before → values after, by position
              <n> (<msgs> <items>)*             re-built lists       : values before → items
              <n> (<msgs> <nats>)*              in-place re-ordering : values before → positions
              <n> (<msgs> <n> <items>*)*        split                : values before → pieces
              <n> (<msgs> <0|1 msg>)*           pad                  : values before → appended WAIT
              <n> (<msgs> <0|1 msg>)*           pad inside `Bar(…)`  : values before → appended WAIT
              <n> (<msgs> num den key)*         bar signature        : values of the piece → scalars
            items = <n> (K <pos> | F <msg>)*.  A missing key means: keep everything / no change.
  op        see `pop` below (names of `HOp`, positional arguments, tags are 0)

  Answer: the caller's environment after the history, every identity renamed to its first occurrence
  (per kind) in a pre-order walk of the roots — root by root: a `Sequence` visits `_abs` then `_rel`, a view
  its messages in order, a bar its sequence, a track its bars, a composition its tracks:

    <root>;<root>;…|<cell>=<content> …

  The harness prints the same from the real objects with `id()` renamed the same way; equal lines mean
  equal identity structure (sharing, freshness) AND equal message values and flags.
-/
import SCoda.Model.HeapOps

open SCoda SCoda.HeapOps

/-! ### word parser (as in Driver.lean) -/

abbrev P := StateT (List String) (Except String)

def word : P String := do
  match (← get) with
  | [] => throw "eof"
  | w :: ws => set ws; pure w

def pint : P Int := do
  let w ← word
  if w == "N" then pure pyNone else
  match w.toInt? with
  | some v => pure v
  | none => throw s!"bad int {w}"

def pnat : P Nat := do
  let v ← pint
  if v < 0 then throw "negative" else pure v.toNat

def pbool : P Bool := do pure ((← pint) != 0)

def many {α} (p : P α) : P (List α) := do
  let n ← pnat
  let rec go : Nat → List α → P (List α)
    | 0, acc => pure acc.reverse
    | k + 1, acc => do let x ← p; go k (x :: acc)
  go n []

def msg : P Msg := do
  let ty ← pnat
  let ch ← pint; let time ← pint; let note ← pint; let vel ← pint; let ctl ← pint
  let prog ← pint; let num ← pint; let den ← pint; let key ← pint
  match MType.ofNat? ty with
  | some t => pure { ty := t, ch, time, note, vel, ctl, prog, num, den, key }
  | none => throw "bad type"

def msgs : P (List Msg) := many msg
def nats : P (List Nat) := many pnat

def item : P Item := do
  let w ← word
  if w == "K" then Item.keep <$> pnat
  else if w == "F" then Item.fresh <$> msg
  else throw s!"bad item {w}"

def optNat : P (Option Nat) := do
  let v ← pint
  pure (if v < 0 then none else some v.toNat)

/-! ### the replayed oracle -/

def lookupD {β} (t : List (List Msg × β)) (k : List Msg) (d : β) : β :=
  match t.find? (fun e => e.1 == k) with
  | some e => e.2
  | none => d

def pair {α β} (p : P α) (q : P β) : P (α × β) := do let a ← p; let b ← q; pure (a, b)

def orc : P Orc := do
  let tA ← many (pair msgs msgs)
  let tR ← many (pair msgs msgs)
  let tE ← many (pair msgs msgs)
  let tP ← many (pair msgs (many item))
  let tS ← many (pair msgs nats)
  let tSp ← many (pair msgs (many (many item)))
  let tPad ← many (pair msgs (do let b ← pbool; if b then some <$> msg else pure none))
  let tBarPad ← many (pair msgs (do let b ← pbool; if b then some <$> msg else pure none))
  let tSig ← many (pair msgs (do let a ← pint; let b ← pint; let c ← pint; pure (a, b, c)))
  pure {
    toAbs := fun v => lookupD tA v v
    toRel := fun v => lookupD tR v v
    edit := fun _ v => lookupD tE v v
    plan := fun _ v => lookupD tP v ((List.range v.length).map Item.keep)
    perm := fun _ v => lookupD tS v (List.range v.length)
    splitPlan := fun _ v => lookupD tSp v [(List.range v.length).map Item.keep]
    padMsg := fun _ v => lookupD tPad v none
    barPadMsg := fun _ v => lookupD tBarPad v none
    barSig := fun _ v => lookupD tSig v (4, 4, pyNone)
    program := fun _ _ => pyNone
    tsMsg := fun n d => { ty := .timeSignature, ch := 0, num := n, den := d } }

/-! ### initial objects -/

def mkView (h : Heap) (ms : List Msg) : Heap × Nat :=
  let a := newMsgs h ms
  a.1.newLst a.2

def seqSpec (st : Heap × List Cell) : P (Heap × List Cell) := do
  let w ← word
  if w == "R" then
    let v := mkView st.1 (← msgs)
    let s := seqInit v.1 none (some v.2)
    pure (s.1, st.2 ++ [(.seq, s.2)])
  else if w == "A" then
    let v := mkView st.1 (← msgs)
    let s := seqInit v.1 (some v.2) none
    pure (s.1, st.2 ++ [(.seq, s.2)])
  else if w == "B" then
    let va := mkView st.1 (← msgs)
    let vr := mkView va.1 (← msgs)
    let s := seqInit vr.1 (some va.2) (some vr.2)
    pure (s.1, st.2 ++ [(.seq, s.2)])
  else throw s!"bad sequence spec {w}"

/-! ### operations -/

def pop : P HOp := do
  let w ← word
  match w with
  | "msgCopy" => pure (.msgCopy (← pnat))
  | "seqCopy" => pure (.seqCopy (← pnat))
  | "barCopy" => pure (.barCopy (← pnat) 0)
  | "trkCopy" => pure (.trkCopy (← pnat) 0)
  | "cmpCopy" => pure (.cmpCopy (← pnat) 0)
  | "split" => pure (.split (← pnat) 0)
  | "splitBars" => do let is ← nats; let m ← pnat; let q ← pbool; let f ← pnat; pure (.splitBars is m q 0 f)
  | "cmpFromSequences" => do let is ← nats; let m ← pnat; let f ← pnat; pure (.cmpFromSequences is m 0 f)
  | "barSeq" => pure (.barSeq (← pnat))
  | "trkBars" => pure (.trkBars (← pnat))
  | "cmpTrks" => pure (.cmpTrks (← pnat))
  | "absMsgs" => pure (.absMsgs (← pnat))
  | "relMsgs" => pure (.relMsgs (← pnat))
  | "newMsg" => pure (.newMsg (← msg))
  | "newSeq" => pure .newSeq
  | "mkBar" => do let i ← pnat; let n ← pint; let d ← pint; let k ← pint; pure (.mkBar i n d k 0)
  | "mkTrk" => do let is ← nats; let n ← pint; pure (.mkTrk is n 0)
  | "mkCmp" => pure (.mkCmp (← nats))
  | "readAbs" => pure (.readAbs (← pnat))
  | "readRel" => pure (.readRel (← pnat))
  | "refresh" => pure (.refresh (← pnat))
  | "pairings" => pure (.pairings (← pnat) 0)
  | "equals" => do let i ← pnat; let j ← pnat; pure (.equals i j 0)
  | "setChannel" => do let i ← pnat; let c ← pint; pure (.setChannel i c)
  | "transpose" => do let i ← pnat; let sh ← pbool; pure (.transpose i 0 sh)
  | "scaleUp" => do let i ← pnat; let qa ← pbool; pure (.scaleUp i 0 qa)
  | "scaleDown" => do let i ← pnat; let mi ← optNat; let f ← pnat; let qa ← pbool; pure (.scaleDown i mi 0 f qa)
  | "iterEditRel" => pure (.iterEditRel (← pnat) 0)
  | "iterEditAbs" => pure (.iterEditAbs (← pnat) 0)
  | "editMsg" => do let i ← pnat; let m ← msg; pure (.editMsg i m)
  | "quantise" => pure (.quantise (← pnat) 0)
  | "quantiseNoteLengths" => pure (.quantiseNoteLengths (← pnat) 0)
  | "cutoff" => pure (.cutoff (← pnat) 0)
  | "quantiseAndNormalise" => pure (.quantiseAndNormalise (← pnat) 0)
  | "barTranspose" => do let i ← pnat; let sh ← pbool; let k ← pint; pure (.barTranspose i 0 sh k)
  | "normalise" => pure (.normalise (← pnat) 0)
  | "pad" => pure (.pad (← pnat) 0)
  | "addAbs" => do let i ← pnat; let j ← pnat; let k ← pnat; pure (.addAbs i j k)
  | "addRel" => do let i ← pnat; let j ← pnat; let k ← optNat; pure (.addRel i j k)
  | "overwriteAbs" => do let i ← pnat; let js ← nats; pure (.overwriteAbs i js 0)
  | "overwriteRel" => do let i ← pnat; let js ← nats; pure (.overwriteRel i js)
  | "concatenate" => do let i ← pnat; let js ← nats; pure (.concatenate i js)
  | "merge" => do let i ← pnat; let js ← nats; pure (.merge i js 0)
  | "barsToSequence" => pure (.barsToSequence (← nats))
  | "trkToSequence" => pure (.trkToSequence (← pnat))
  | _ => throw s!"unknown op {w}"

/-! ### canonical dump -/

def kindTag : Kind → String
  | .msg => "M" | .lst => "L" | .seq => "S" | .bar => "B" | .trk => "T" | .cmp => "C"

def pInt (v : Int) : String := if v == pyNone then "N" else toString v

def pMsg (m : Msg) : String :=
  ",".intercalate [toString m.ty.rank, pInt m.ch, pInt m.time, pInt m.note, pInt m.vel, pInt m.ctl,
                   pInt m.prog, pInt m.num, pInt m.den, pInt m.key]

/-- first-occurrence numbering of the cells, per kind -/
def number (cells : List Cell) : List (Cell × Nat) :=
  let step := fun (acc : List (Cell × Nat)) (c : Cell) =>
    if acc.any (fun e => e.1 == c) then acc
    else acc ++ [(c, (acc.filter (fun e => e.1.1 == c.1)).length)]
  cells.foldl step []

def nameOf (tbl : List (Cell × Nat)) (c : Cell) : String :=
  match tbl.find? (fun e => e.1 == c) with
  | some e => kindTag c.1 ++ toString e.2
  | none => kindTag c.1 ++ "?"

def optName (tbl : List (Cell × Nat)) : Option Nat → String
  | none => "-"
  | some l => nameOf tbl (.lst, l)

def content (h : Heap) (tbl : List (Cell × Nat)) (c : Cell) : String :=
  match h.get c with
  | .msg m => "(" ++ pMsg m ++ ")"
  | .lst ids => "[" ++ ",".intercalate (ids.map (fun i => nameOf tbl (.msg, i))) ++ "]"
  | .seq s => "{" ++ optName tbl s.abs ++ "," ++ optName tbl s.rel ++ "," ++ (if s.absStale then "1" else "0") ++ ","
      ++ (if s.relStale then "1" else "0") ++ "}"
  | .bar b => "{" ++ nameOf tbl (.seq, b.seq) ++ "," ++ pInt b.num ++ "," ++ pInt b.den ++ "," ++ pInt b.key ++ "}"
  | .trk t => "[" ++ ",".intercalate (t.bars.map (fun b => nameOf tbl (.bar, b))) ++ "]"
  | .cmp ts => "[" ++ ",".intercalate (ts.map (fun t => nameOf tbl (.trk, t))) ++ "]"

def dump (st : Heap × List Cell) : String :=
  let cells := reachAll st.1 st.2
  let tbl := number cells
  ";".intercalate (st.2.map (nameOf tbl)) ++ "|" ++
    " ".intercalate (tbl.map (fun e => nameOf tbl e.1 ++ "=" ++ content st.1 tbl e.1))

/-! ### requests -/

def hist : P String := do
  let n ← pnat
  let rec seqs : Nat → Heap × List Cell → P (Heap × List Cell)
    | 0, st => pure st
    | k + 1, st => do let st' ← seqSpec st; seqs k st'
  let st ← seqs n (Heap.empty, [])
  let o ← orc
  let ops ← many pop
  pure (dump (run o ops st))

def handle (line : String) : String :=
  let ws := (line.splitOn " ").filter (· ≠ "")
  match ws with
  | [] => "ERR empty"
  | "hist" :: rest =>
    match (hist.run rest) with
    | .ok (out, []) => "OK " ++ out
    | .ok (_, extra) => s!"ERR trailing {extra.length}"
    | .error e => "ERR " ++ e
  | op :: _ => s!"ERR unknown request {op}"

partial def loop (stdin : IO.FS.Stream) (stdout : IO.FS.Stream) : IO Unit := do
  let line ← stdin.getLine
  if line.isEmpty then return
  let line := line.trimAsciiEnd.toString
  if line.isEmpty then loop stdin stdout else
  stdout.putStrLn (handle line)
  loop stdin stdout

def main : IO Unit := do
  let stdin ← IO.getStdin
  let stdout ← IO.getStdout
  loop stdin stdout
  stdout.flush
