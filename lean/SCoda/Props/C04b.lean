/-
  C04, second part — every public mutator of `Sequence` is an operation of the generic two-view
  machine of `Props/C04.lean`: a view-local function that keeps its view legal (`OkAbs` / `OkRel`).
  With these lemmas a history of real operations is a list of `Op views`, and `run_inv`,
  `views_agree` apply to it.  The public operations found by introspection of the Python class
  (`Gen.sequenceOps`, regenerated on every run) are all accounted for.
-/
import SCoda.Props.C04
import SCoda.Props.C07
import SCoda.Props.C18
import SCoda.Props.C05
import SCoda.Props.C06
import SCoda.Props.C08
import SCoda.Gen.SeqOps
import SCoda.Lemmas.OpsTable
namespace SCoda.C04
open SCoda

/-! ## relative-side functions keep `OkRel` -/

theorem normalise_okR (r : List Msg) (h : OkRel r) : OkRel (normalise r) := by
  exact (C07.ok_out r h).1
theorem pad_okR (n : Int) (r : List Msg) (h : OkRel r) : OkRel (pad n r) := by
  exact C18.pad_ok n r h
theorem setChannel_okR (c : Int) (r : List Msg) (h : OkRel r) : OkRel (setChannel c r) := by
  refine ⟨?_, ?_⟩
  · intro m hm hw
    obtain ⟨x, hx, rfl⟩ := List.mem_map.1 hm
    exact h.1 x hx hw
  · intro m hm
    obtain ⟨x, hx, rfl⟩ := List.mem_map.1 hm
    exact h.2 x hx
theorem scaleRel_okR (k : Int) (hk : 0 ≤ k) (r : List Msg) (h : OkRel r) : OkRel (scaleRel k r) := by
  rw [C18.scaleRel_eq_map]
  refine ⟨?_, ?_⟩
  · intro m hm hw
    obtain ⟨x, hx, rfl⟩ := List.mem_map.1 hm
    unfold C18.scaleMsg at hw ⊢
    split
    · rename_i hx'
      have := h.1 x hx (by simpa using hx')
      exact Int.mul_nonneg this hk
    · rename_i hx'
      rw [if_neg hx'] at hw
      exact h.1 x hx hw
  · intro m hm
    obtain ⟨x, hx, rfl⟩ := List.mem_map.1 hm
    unfold C18.scaleMsg
    split
    · exact h.2 x hx
    · exact h.2 x hx
theorem transposeRel_okR (lo hi : Int) (tk : Int → Int) (by_ : Int) (r : List Msg) (h : OkRel r) :
    OkRel (transposeRel lo hi tk by_ r).1 := by
  have hty : ∀ m : Msg, (transposeMsg lo hi tk by_ m).1.ty = m.ty ∧ (transposeMsg lo hi tk by_ m).1.time = m.time := by
    intro m
    unfold transposeMsg
    split
    · exact ⟨rfl, rfl⟩
    · split <;> exact ⟨rfl, rfl⟩
  simp only [transposeRel]
  refine ⟨?_, ?_⟩
  · intro m hm hw
    obtain ⟨x, hx, rfl⟩ := List.mem_map.1 hm
    rw [(hty x).1] at hw
    rw [(hty x).2]
    exact h.1 x hx hw
  · intro m hm
    obtain ⟨x, hx, rfl⟩ := List.mem_map.1 hm
    rw [(hty x).1]
    exact h.2 x hx
theorem concatenate_okR (r : List Msg) (rs : List (List Msg)) (h : OkRel r) (hs : ∀ x ∈ rs, OkRel x) :
    OkRel (concatenate r rs) := by
  rw [Ops.okRel_iff] at h ⊢
  unfold concatenate
  refine Ops.allGood_append.2 ⟨h, ?_⟩
  intro m hm
  obtain ⟨x, hx, hmx⟩ := List.mem_flatten.1 hm
  exact (Ops.okRel_iff x).1 (hs x hx) m hmx
/-- `add_relative_message`: inserting a legal message -/
theorem insertAt_okR (m : Msg) (i : Nat) (r : List Msg) (h : OkRel r)
    (hm : m.ty ≠ .internal ∧ (m.ty = .wait → 0 ≤ m.time)) : OkRel (Seq.insertAt m i r) ∧ OkRel (r ++ [m]) := by
  rw [Ops.okRel_iff] at h
  rw [Ops.okRel_iff, Ops.okRel_iff]
  have hg : Ops.Good m := hm
  refine ⟨?_, Ops.allGood_append.2 ⟨h, Ops.allGood_cons.2 ⟨hg, Ops.allGood_nil⟩⟩⟩
  induction r generalizing i with
  | nil => cases i <;> exact Ops.allGood_cons.2 ⟨hg, Ops.allGood_nil⟩
  | cons y ys ih =>
    cases i with
    | zero => exact Ops.allGood_cons.2 ⟨hg, h⟩
    | succ n =>
      rw [Ops.allGood_cons] at h
      exact Ops.allGood_cons.2 ⟨h.1, ih n h.2⟩
/-- an edit through `messages_rel()` that keeps every message legal -/
theorem mapRel_okR (f : Msg → Msg) (r : List Msg) (h : OkRel r)
    (hf : ∀ m, (f m).ty = m.ty ∧ (m.ty = .wait → 0 ≤ m.time → 0 ≤ (f m).time)) : OkRel (r.map f) := by
  refine ⟨?_, ?_⟩
  · intro m hm hw
    obtain ⟨x, hx, rfl⟩ := List.mem_map.1 hm
    rw [(hf x).1] at hw
    exact (hf x).2 hw (h.1 x hx hw)
  · intro m hm
    obtain ⟨x, hx, rfl⟩ := List.mem_map.1 hm
    rw [(hf x).1]
    exact h.2 x hx
/-- the pieces returned by `split` are legal relative views -/
theorem split_okR (r : List Msg) (caps : List Int) (pieces : List (List Msg)) (h : OkRel r)
    (hs : split r caps = .ok pieces) : ∀ p ∈ pieces, OkRel p := by
  intro p hp
  rw [Ops.okRel_iff]
  exact Ops.split_good r caps pieces ((Ops.okRel_iff r).1 h) hs p hp

/-! ## absolute-side functions keep `OkAbs` -/

/-- position chosen by the bisection of `binary_insort` on a time-sorted list: everything before it
    has time ≤ t, everything from it on has time > t -/
theorem insortGo_spec (t : Int) (l : List Msg) (hs : TimeSorted l) :
    let p := insortGo t l.toArray (l.length + 1) 0 l.length
    p ≤ l.length ∧ (∀ m ∈ l.take p, m.time ≤ t) ∧ (∀ m ∈ l.drop p, t < m.time) := by
  exact Ops.insortGo_pos t l ((timeSorted_iff_pairwise l).1 hs)
/-- hence `insort` agrees with its specification on sorted input -/
theorem insort_eq_spec (l : List Msg) (m : Msg) (hs : TimeSorted l) : insort l m = insortSpec l m := by
  obtain ⟨_, h2, h3⟩ := Ops.insortGo_pos m.time l ((timeSorted_iff_pairwise l).1 hs)
  obtain ⟨e1, e2⟩ := Ops.takeWhile_eq_take (fun y : Msg => decide (y.time ≤ m.time)) l _
    (fun x hx => by simpa using h2 x hx) (fun x hx => by simpa using h3 x hx)
  simp only [insort, insortSpec, e1, e2]
theorem insort_okA (l : List Msg) (m : Msg) (h : OkAbs l) (hm : 0 ≤ m.time ∧ m.ty ≠ .wait) : OkAbs (insort l m) := by
  rw [Ops.okAbs_iff] at h ⊢
  obtain ⟨h1, h2, h3⟩ := h
  refine ⟨Ops.insort_pairwise l m h1, ?_, ?_⟩
  · intro x hx
    rcases List.mem_cons.1 ((insort_perm l m).mem_iff.1 hx) with rfl | hx
    · exact hm.1
    · exact h2 x hx
  · intro x hx
    rcases List.mem_cons.1 ((insort_perm l m).mem_iff.1 hx) with rfl | hx
    · exact hm.2
    · exact h3 x hx
/-- `overwrite_absolute_messages`: built by repeated `insort` from the empty list -/
theorem overwrite_okA (ms : List Msg) (hm : ∀ m ∈ ms, 0 ≤ m.time ∧ m.ty ≠ .wait) : OkAbs (ms.foldl insort []) := by
  have key : ∀ (ms acc : List Msg), OkAbs acc → (∀ m ∈ ms, 0 ≤ m.time ∧ m.ty ≠ .wait) → OkAbs (ms.foldl insort acc) := by
    intro ms
    induction ms with
    | nil => intro acc h _; exact h
    | cons m ms ih =>
      intro acc h hms
      rw [List.foldl_cons]
      exact ih _ (insort_okA acc m h (hms m (by simp))) (fun x hx => hms x (by simp [hx]))
  exact key ms [] ((Ops.okAbs_iff []).2 ⟨List.Pairwise.nil, by simp, by simp⟩) hm
theorem sortAbs_okA (a : List Msg) (hn : NonNegTimes a) (hw : ∀ m ∈ a, m.ty ≠ .wait) : OkAbs (sortAbs a) := by
  refine ⟨sortAbs_timeSorted a, ?_, ?_⟩
  · intro m hm; exact hn m ((mem_sortAbs a m).1 hm)
  · intro m hm; exact hw m ((mem_sortAbs a m).1 hm)
theorem mergeAbs_okA (a : List Msg) (others : List (List Msg)) (h : OkAbs a) (hs : ∀ x ∈ others, OkAbs x) :
    OkAbs (mergeAbs a others) := by
  unfold mergeAbs
  apply sortAbs_okA
  · intro m hm
    rcases List.mem_append.1 hm with hm | hm
    · exact h.2.1 m hm
    · obtain ⟨x, hx, hmx⟩ := List.mem_flatten.1 hm
      exact (hs x hx).2.1 m hmx
  · intro m hm
    rcases List.mem_append.1 hm with hm | hm
    · exact h.2.2 m hm
    · obtain ⟨x, hx, hmx⟩ := List.mem_flatten.1 hm
      exact (hs x hx).2.2 m hmx
theorem cutoff_okA (m r : Int) (hr : 0 ≤ r) (a : List Msg) (h : OkAbs a) : OkAbs (cutoff m r a) := by
  unfold cutoff
  apply sortAbs_okA
  · exact Ops.cutoffGo_nonneg m r hr _ _ (fun x hx => h.2.1 x ((mem_sortAbs a x).1 hx))
      (fun _ hkv => by cases hkv)
  · intro x hx
    obtain ⟨y, hy, e⟩ := Ops.cutoffGo_ty m r _ _ x hx
    rw [e]
    exact h.2.2 y ((mem_sortAbs a y).1 hy)
theorem quantise_okA (steps : List Int) (hs : C05.StepsOk steps) (a out : List Msg) (h : OkAbs a)
    (hq : quantise steps a = .ok out) : OkAbs out := by
  exact C05.sorted_out steps hs a out h hq
theorem qnl_okA (values : List Int) (hv : ∀ v ∈ values, 0 ≤ v) (stdLen : Int) (hstd : 0 ≤ stdLen) (dne : Bool)
    (a out : List Msg) (h : OkAbs a) (hq : quantiseNoteLengths values stdLen dne a = .ok out) : OkAbs out := by
  have _ := hstd
  have hmem : ∀ x : Msg, x ∈ nonNotes a → x ∈ a := fun x hx => (List.mem_filter.1 hx).1
  have hcase : ∀ x ∈ out, 0 ≤ x.time ∧ x.ty ≠ .wait := by
    intro x hx
    by_cases hon : x.ty = .noteOn
    · have := C06.onsets_kept values stdLen dne a out hq x hx hon
      exact ⟨h.2.1 x this, by rw [hon]; simp⟩
    · by_cases hoff : x.ty = .noteOff
      · obtain ⟨on, hon1, hon2, _, hd⟩ := C06.durations values stdLen dne a out hq x hx hoff
        have h1 := h.2.1 on (C06.onsets_kept values stdLen dne a out hq on hon1 hon2)
        have h2 := hv _ hd
        exact ⟨by omega, by rw [hoff]; simp⟩
      · have hxn : x ∈ nonNotes out := by
          unfold nonNotes
          rw [List.mem_filter]
          exact ⟨hx, by simp [hon, hoff]⟩
        have := hmem x ((C06.others_same values stdLen dne a out hq).mem_iff.1 hxn)
        exact ⟨h.2.1 x this, h.2.2 x this⟩
  exact ⟨C06.sorted_out values stdLen dne a out hq, fun x hx => (hcase x hx).1, fun x hx => (hcase x hx).2⟩
/-- an edit through `messages_abs()` that changes neither times nor types -/
theorem mapAbs_okA (f : Msg → Msg) (a : List Msg) (h : OkAbs a)
    (hf : ∀ m, (f m).ty = m.ty ∧ (f m).time = m.time) : OkAbs (a.map f) := by
  rw [Ops.okAbs_iff] at h ⊢
  obtain ⟨h1, h2, h3⟩ := h
  refine ⟨?_, ?_, ?_⟩
  · rw [List.pairwise_map]
    refine h1.imp ?_
    intro x y hxy
    rw [(hf x).2, (hf y).2]; exact hxy
  · intro m hm
    obtain ⟨x, hx, rfl⟩ := List.mem_map.1 hm
    rw [(hf x).2]; exact h2 x hx
  · intro m hm
    obtain ⟨x, hx, rfl⟩ := List.mem_map.1 hm
    rw [(hf x).1]; exact h3 x hx

/-! ## the concrete wrapper operations are steps of the generic machine -/

/-- a relative-side mutator of `Model/Wrapper.lean` is the generic `relOp` -/
theorem onRel_refines (s : Seq) (f : List Msg → List Msg) (hf : ∀ r, OkRel r → OkRel (f r)) :
    ((s.onRel (fun r => .ok (f r))).toOption.map ofSeq) = step views (ofSeq s) (.relOp f hf) := by
  obtain ⟨a, r, fa, fr⟩ := s
  cases fa <;> cases fr <;> rfl
theorem onAbs_refines (s : Seq) (f : List Msg → List Msg) (hf : ∀ a, OkAbs a → OkAbs (f a)) :
    ((s.onAbs (fun a => .ok (f a))).toOption.map ofSeq) = step views (ofSeq s) (.absOp f hf) := by
  obtain ⟨a, r, fa, fr⟩ := s
  cases fa <;> cases fr <;> rfl
theorem overwriteAbs_refines (s : Seq) (ms : List Msg) (hm : ∀ m ∈ ms, 0 ≤ m.time ∧ m.ty ≠ .wait) :
    some (ofSeq (s.overwriteAbs ms)) = step views (ofSeq s) (.setAbs (ms.foldl insort []) (overwrite_okA ms hm)) := by
  rfl
theorem overwriteRel_refines (s : Seq) (ms : List Msg) (hm : OkRel ms) :
    some (ofSeq (s.overwriteRel ms)) = step views (ofSeq s) (.setRel ms hm) := by
  rfl
theorem refresh_refines (s : Seq) : (s.refresh.toOption.map ofSeq) = step views (ofSeq s) .refresh := by
  obtain ⟨a, r, fa, fr⟩ := s
  cases fa <;> cases fr <;> rfl
theorem copy_inv (s : Seq) (h : Inv views (ofSeq s)) : Inv views (ofSeq s.copy) ∧
    ContentEq (content views (ofSeq s.copy)) (content views (ofSeq s)) := by
  obtain ⟨a, r, fa, fr⟩ := s
  have h6 := views.E_refl
  cases fa <;> cases fr <;>
    simp_all [Inv, ofSeq, Seq.copy, Seq.ofAbs, Seq.ofRel, content, views, ContentEq]

/-! ## coverage of the public interface -/

/-- how each public name of `Sequence` is accounted for -/
inductive Kind | relMut | absMut | setView | read | derive | io | both | excluded
  deriving DecidableEq, Repr

/-- the modelled alphabet: every public attribute of `scoda.sequences.sequence.Sequence` -/
def classification : List (String × Kind) := [
  ("abs", .read), ("rel", .read), ("refresh", .both), ("copy", .derive),
  ("add_absolute_message", .absMut), ("add_relative_message", .relMut), ("concatenate", .relMut),
  ("cutoff", .absMut), ("merge", .both), ("normalise", .relMut), ("pad", .relMut), ("set_channel", .relMut),
  ("scale", .both), ("transpose", .both), ("quantise", .absMut), ("quantise_note_lengths", .absMut),
  ("quantise_and_normalise", .both), ("overwrite_absolute_messages", .setView), ("overwrite_relative_messages", .setView),
  ("messages_abs", .absMut), ("messages_rel", .relMut), ("split", .derive),
  ("equals", .read), ("get_interleaved_message_pairings", .read), ("get_message_pairings", .read),
  ("get_message_times_of_type", .read), ("get_sequence_channel", .read), ("get_sequence_duration", .read),
  ("get_sequence_duration_relation", .read), ("is_channel_consistent", .read), ("is_empty", .read),
  ("to_midi_track", .read), ("save", .io), ("sequences_load", .io), ("sequences_save", .io),
  ("sequences_split_bars", .derive), ("plot_pianorolls", .io),
  -- documented as the caller's responsibility (README), not legal in a history:
  ("invalidate_abs", .excluded), ("invalidate_rel", .excluded)]

/-- every public name found by introspection is classified; a new public method breaks this theorem -/
theorem ops_covered : (Gen.sequenceOps.map (·.1)).all (fun n => (classification.map (·.1)).contains n) = true := by
  decide
/-- and nothing classified has disappeared -/
theorem ops_exist : (classification.map (·.1)).all (fun n => (Gen.sequenceOps.map (·.1)).contains n) = true := by
  decide

end SCoda.C04
