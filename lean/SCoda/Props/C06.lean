/-
  C06 — note-length quantisation yields only allowed durations and never moves onsets.
  `quantiseNoteLengths values stdLen dne a` models `AbsoluteSequence.quantise_note_lengths`:
  sort, pair the notes per channel (`pairingsSorted`), treat every pairing `[on, off]` locally
  (`qnlChannel`), rebuild the list from the pairings plus the non-note messages, sort.
-/
import SCoda.Model.Quantise
import SCoda.Model.Roll
import SCoda.Lemmas.NoteLengths
namespace SCoda.C06
open SCoda

/-- the allowed durations that fit a note starting at `onT` and ending at `offT` whose key's next note
    starts at `nextOn`: not past the next onset, and (with `dne`, "do not extend") not longer than the note -/
def fits (dne : Bool) (onT offT : Int) (nextOn : Option Int) (x : Int) : Prop :=
  (∀ nt ∈ nextOn, onT + x ≤ nt) ∧ (dne = true → x ≤ offT - onT)

/-- the two filters of lines 331-351 (with Python's `list.remove` semantics on duplicates) keep
    exactly the allowed values that fit -/
theorem validDurations_spec (values : List Int) (dne : Bool) (onT offT : Int) (nextOn : Option Int) (x : Int) :
    x ∈ validDurations values dne onT offT nextOn ↔ x ∈ values ∧ fits dne onT offT nextOn x := by
  unfold fits
  exact NL.mem_validDurations values dne onT offT nextOn x

/-- `nearest`: an element of the list at minimal distance -/
theorem nearest_spec (t : Int) (valid : List Int) (h : valid ≠ []) :
    ∃ v, nearest t valid = .ok v ∧ v ∈ valid ∧ ∀ w ∈ valid, (v - t).natAbs ≤ (w - t).natAbs :=
  NL.nearest_spec t valid h

/-- every pairing is a note-on followed by one note-off -/
def TwoEl (ps : List Pairing) : Prop := ∀ p ∈ ps, ∃ on off, p = [on, off]

/-- **the local rule** for one channel: same number of pairings out as in; pairing `i` is either removed
    (`[]`) — exactly when no allowed duration fits — or keeps its note-on untouched and gets a note-off
    whose distance to the note-on is an allowed duration that fits and is closest to the original duration -/
theorem qnlChannel_spec (values : List Int) (dne : Bool) (ps : List Pairing) (h2 : TwoEl ps) :
    ∃ out, qnlChannel values dne ps = .ok out ∧ out.length = ps.length
      ∧ ∀ i on off, ps[i]? = some [on, off] →
          let nx := nextOnset ps i on.note
          let cur := off.time - on.time
          (out[i]? = some [] ∧ ∀ x ∈ values, ¬ fits dne on.time off.time nx x)
          ∨ (∃ x, out[i]? = some [on, { off with time := on.time + x }] ∧ x ∈ values ∧ fits dne on.time off.time nx x
               ∧ ∀ y ∈ values, fits dne on.time off.time nx y → (x - cur).natAbs ≤ (y - cur).natAbs) := by
  refine ⟨_, NL.qnlChannel_eq values dne ps h2, by simp, ?_⟩
  intro i on off hi
  have hout : (ps.zipIdx.map (NL.stepOne values dne ps))[i]? = some (NL.stepOne values dne ps ([on, off], i)) := by
    simp [List.getElem?_zipIdx, hi]
  simp only [hout]
  simp only [NL.stepOne]
  split
  · rename_i h0
    left
    refine ⟨rfl, ?_⟩
    intro x hx hf
    have hm := (validDurations_spec values dne on.time off.time (nextOnset ps i on.note) x).2 ⟨hx, hf⟩
    have : validDurations values dne on.time off.time (nextOnset ps i on.note) = [] := by
      simpa using h0
    rw [this] at hm
    simp at hm
  · rename_i hne
    right
    have hne' : validDurations values dne on.time off.time (nextOnset ps i on.note) ≠ [] := by
      intro h0; rw [h0] at hne; simp at hne
    obtain ⟨v, hv, hmem, hmin⟩ := nearest_spec (off.time - on.time) _ hne'
    have hvf := (validDurations_spec values dne on.time off.time (nextOnset ps i on.note) v).1 hmem
    refine ⟨v, ?_, hvf.1, hvf.2, ?_⟩
    · simp only [hv]
      have : off.time + (v - (off.time - on.time)) = on.time + v := by omega
      rw [this]
    · intro y hy hfy
      exact hmin y ((validDurations_spec values dne on.time off.time (nextOnset ps i on.note) y).2 ⟨hy, hfy⟩)

/-- the note pairings of any list are two-element pairings (imputation closes every note-on) -/
theorem pairings_twoEl (stdLen : Int) (a : List Msg) :
    ∀ c ∈ pairingsSorted notePairTypes stdLen true a, TwoEl c.2 := by
  intro c hc p hp
  obtain ⟨on, off, h, _⟩ := NL.pairings_good stdLen a c hc p hp
  exact ⟨on, off, h⟩

/-- note-length quantisation never fails -/
theorem total (values : List Int) (stdLen : Int) (dne : Bool) (a : List Msg) :
    ∃ out, quantiseNoteLengths values stdLen dne a = .ok out :=
  ⟨_, NL.quantise_eq values stdLen dne a⟩

/-- what a message of the note part looks like: a note-on of the input or the re-timed note-off of its pairing -/
private theorem mem_notes (values : List Int) (stdLen : Int) (dne : Bool) (a : List Msg) (m : Msg)
    (hm : m ∈ (pairingsSorted notePairTypes stdLen true (sortAbs a)).flatMap (NL.chanOut values dne)) :
    ∃ (on off : Msg) (x : Int), x ∈ values ∧ on.ty = .noteOn ∧ off.ty = .noteOff ∧ off.nkey = on.nkey ∧ on ∈ a
      ∧ on ∈ (pairingsSorted notePairTypes stdLen true (sortAbs a)).flatMap (NL.chanOut values dne)
      ∧ (m = on ∨ m = { off with time := on.time + x }) := by
  obtain ⟨c, hc, hmc⟩ := List.mem_flatMap.1 hm
  obtain ⟨on, off, x, h1, h2, h3, h4, h5, h6, h7⟩ :=
    NL.mem_chanOut values dne (sortAbs a) c (NL.pairings_good stdLen (sortAbs a) c hc) m hmc
  exact ⟨on, off, x, h1, h2, h3, h4, (mem_sortAbs a on).1 h5, List.mem_flatMap.2 ⟨c, hc, h6⟩, h7⟩

private theorem out_eq (values : List Int) (stdLen : Int) (dne : Bool) (a out : List Msg)
    (h : quantiseNoteLengths values stdLen dne a = .ok out) :
    out = sortAbs ((pairingsSorted notePairTypes stdLen true (sortAbs a)).flatMap (NL.chanOut values dne)
        ++ (sortAbs a).filter (fun m => m.ty != .noteOn && m.ty != .noteOff)) := by
  rw [NL.quantise_eq] at h
  exact (Except.ok.inj h).symm

/-- every non-note event is untouched -/
theorem others_same (values : List Int) (stdLen : Int) (dne : Bool) (a out : List Msg)
    (h : quantiseNoteLengths values stdLen dne a = .ok out) :
    (nonNotes out).Perm (nonNotes a) := by
  rw [out_eq values stdLen dne a out h]
  unfold nonNotes
  refine ((sortAbs_perm _).filter _).trans ?_
  rw [List.filter_append, List.filter_filter]
  have h0 : List.filter (fun m => m.ty != .noteOn && m.ty != .noteOff)
      ((pairingsSorted notePairTypes stdLen true (sortAbs a)).flatMap (NL.chanOut values dne)) = [] := by
    rw [List.filter_eq_nil_iff]
    intro m hm
    obtain ⟨on, off, x, _, h2, h3, _, _, _, h7⟩ := mem_notes values stdLen dne a m hm
    rcases h7 with rfl | rfl
    · simp [h2]
    · simp [h3]
  rw [h0, List.nil_append]
  simp only [Bool.and_self]
  exact (sortAbs_perm a).filter _

/-- onsets are never moved and no note-on is invented: every note-on of the result is a note-on of
    the input, unchanged (pitch, channel, velocity, time) -/
theorem onsets_kept (values : List Int) (stdLen : Int) (dne : Bool) (a out : List Msg)
    (h : quantiseNoteLengths values stdLen dne a = .ok out) :
    ∀ m ∈ out, m.ty = .noteOn → m ∈ a := by
  rw [out_eq values stdLen dne a out h]
  intro m hm hty
  rcases List.mem_append.1 ((mem_sortAbs _ m).1 hm) with hm | hm
  · obtain ⟨on, off, x, _, _, h3, _, h5, _, h7⟩ := mem_notes values stdLen dne a m hm
    rcases h7 with rfl | rfl
    · exact h5
    · simp [h3] at hty
  · simp [hty] at hm

/-- every note-off of the result belongs to a kept note: its distance to that note's note-on is an allowed duration -/
theorem durations (values : List Int) (stdLen : Int) (dne : Bool) (a out : List Msg)
    (h : quantiseNoteLengths values stdLen dne a = .ok out) :
    ∀ m ∈ out, m.ty = .noteOff → ∃ on ∈ out, on.ty = .noteOn ∧ on.nkey = m.nkey ∧ (m.time - on.time) ∈ values := by
  rw [out_eq values stdLen dne a out h]
  intro m hm hty
  rcases List.mem_append.1 ((mem_sortAbs _ m).1 hm) with hm | hm
  · obtain ⟨on, off, x, h1, h2, h3, h4, _, h6, h7⟩ := mem_notes values stdLen dne a m hm
    rcases h7 with rfl | rfl
    · rw [h2] at hty; cases hty
    · refine ⟨on, (mem_sortAbs _ on).2 (List.mem_append_left _ h6), h2, ?_, ?_⟩
      · rw [← h4]; rfl
      · have : on.time + x - on.time = x := by omega
        simpa [this] using h1
  · simp [hty] at hm

/-- the result is time-sorted -/
theorem sorted_out (values : List Int) (stdLen : Int) (dne : Bool) (a out : List Msg)
    (h : quantiseNoteLengths values stdLen dne a = .ok out) : TimeSorted out := by
  rw [out_eq values stdLen dne a out h]
  exact sortAbs_timeSorted _

/-! non-vacuity -/
def ex : List Msg := [Msg.mkOn 0 60 64 0, Msg.mkOff 0 60 10, Msg.mkOn 0 60 70 12, Msg.mkOff 0 60 40, Msg.mkInternal 0 48]
example : quantiseNoteLengths [6, 12, 24] 24 false ex =
    .ok [Msg.mkOn 0 60 64 0, Msg.mkOff 0 60 12, Msg.mkOn 0 60 70 12, Msg.mkOff 0 60 36, Msg.mkInternal 0 48] := by
  rfl
example : quantiseNoteLengths [24] 24 true ex = .ok [Msg.mkOn 0 60 70 12, Msg.mkOff 0 60 36, Msg.mkInternal 0 48] := by
  rfl

end SCoda.C06
