/-
  Audit round 4, item C7 (non-vacuity), part 1: C12c / C12n.

  For every theorem listed there with ≥ 3 hypotheses and no (or only a trivial) example, a concrete NON-TRIVIAL input that
  satisfies ALL hypotheses together, and the conclusion obtained / evaluated on it.  No new property is claimed here.
-/
import SCoda.Props.C12c
namespace SCoda.Examples4
open SCoda SCoda.C13 SCoda.C13b SCoda.C12n SCoda.C12c SCoda.WrapTie SCoda.MidoCodecL SCoda.E2E

/-! ## C12c.save_load_sounding_gen / save_load_notes_gen, C12n.save_load_*_signature_in_forceX -/

/-- track 0: 3/4 in D (key index 2), a control change, a note on channel 0 over [0,24), a note on channel 1 over [24,36),
    then 4/4 in E (key index 4) at tick 36 and a third note over [36,48) -/
def trkA : List Msg :=
  [Msg.mkTimeSig 0 3 4 pyNone, { ty := .keySignature, key := 2 }, { ty := .controlChange, ctl := 64, vel := 100 },
   Msg.mkOn 0 60 90 pyNone, Msg.mkWait 0 24, Msg.mkOff 0 60 pyNone, Msg.mkOn 1 62 80 pyNone, Msg.mkWait 0 12, Msg.mkOff 1 62 pyNone,
   Msg.mkTimeSig 0 4 4 pyNone, { ty := .keySignature, key := 4 }, Msg.mkOn 0 65 70 pyNone, Msg.mkWait 0 12, Msg.mkOff 0 65 pyNone]
/-- track 1: one note on channel 1 -/
def trkB : List Msg := [Msg.mkOn 1 64 70 pyNone, Msg.mkWait 1 36, Msg.mkOff 1 64 pyNone]

theorem trkA_savedX : SavedX trkA :=
  ⟨⟨by unfold NonNegWaits; decide, by decide⟩, by decide, by decide, by unfold C15.PosDur; decide, by decide, by decide, by unfold C15.PosDur; decide⟩

theorem trkB_savedX : SavedX trkB :=
  ⟨⟨by unfold NonNegWaits; decide, by decide⟩, by decide, by decide, by unfold C15.PosDur; decide, by decide, by decide, by unfold C15.PosDur; decide⟩

theorem trks_savedX : ∀ r ∈ [trkA, trkB], SavedX r := by
  intro r hr
  simp only [List.mem_cons, List.not_mem_nil, or_false] at hr
  rcases hr with rfl | rfl
  · exact trkA_savedX
  · exact trkB_savedX

theorem trks_keysOk : ∀ r ∈ [trkA, trkB], KeysOk r := by unfold KeysOk; decide

/-- the input is not `Saved` (two channels in `trkA`): it is in the widened class only -/
example : ¬ Saved trkA := by
  intro h
  obtain ⟨c, hc⟩ := h.oneCh
  have h0 := hc (Msg.mkOn 0 60 90 pyNone) (by simp [trkA]) (Or.inl rfl)
  have h1 := hc (Msg.mkOn 1 62 80 pyNone) (by simp [trkA]) (Or.inl rfl)
  simp only [Msg.mkOn] at h0 h1
  omega

/-- all five hypotheses of `C12c.save_load_sounding_gen` together (ppqn 24; `readRels` of the two fresh sequences; `SavedX`;
    `KeysOk` with two key signatures; non-empty), and its conclusion on this input -/
theorem ex_save_load_sounding_gen :
    ∃ f written, Gen.Static.sequencesSave genEnv [Seq.ofRel trkA, Seq.ofRel trkB] () = .ok f ∧ midiFileSave genEnv.ppqn f = .ok written ∧
      ∀ read, ReadBack written read →
        ∃ out, Gen.Static.sequencesLoad genEnv (some read) none none none 0 = .ok out ∧ out.length = [trkA, trkB].length ∧
          ∀ (i : Nat) (r : List Msg) (s s' : Seq) (a : List Msg), [trkA, trkB][i]? = some r → out[i]? = some s → s.readAbs = Except.ok (s', a) →
            ∀ p t, SoundingAt (eventsAbs a) (0, p) t ↔ ∃ c, SoundingAt (eventsRel r) (c, p) t :=
  save_load_sounding_gen genEnv (by decide) [Seq.ofRel trkA, Seq.ofRel trkB] [trkA, trkB] rfl trks_savedX trks_keysOk (by simp)

/-- all five hypotheses of `C12c.save_load_notes_gen` together -/
theorem ex_save_load_notes_gen :
    ∃ f written, Gen.Static.sequencesSave genEnv [Seq.ofRel trkA, Seq.ofRel trkB] () = .ok f ∧ midiFileSave genEnv.ppqn f = .ok written ∧
      ∀ read, ReadBack written read → ∀ out, Gen.Static.sequencesLoad genEnv (some read) none none none 0 = .ok out →
        ∀ (i : Nat) (r : List Msg) (s s' : Seq) (a : List Msg), [trkA, trkB][i]? = some r → out[i]? = some s → s.readAbs = Except.ok (s', a) →
          (notesOf (eventsAbs a)).Perm ((notesOf (eventsRel r)).map (fun n => { n with ch := 0 })) :=
  save_load_notes_gen genEnv (by decide) [Seq.ofRel trkA, Seq.ofRel trkB] [trkA, trkB] rfl trks_savedX trks_keysOk

set_option maxRecDepth 100000 in
/-- the conclusion evaluated by the kernel through the whole translated chain (save, `midiFileSave`, mido's `end_of_track`, load):
    the notes of the two loaded sequences are those saved, on channel 0 -/
example :
    (fun (out : List Seq) => out.map (fun (s : Seq) => notesOf (eventsAbs s.abs))) <$>
    (do let f ← Gen.Static.sequencesSave genEnv [Seq.ofRel trkA, Seq.ofRel trkB] ()
        let written ← midiFileSave genEnv.ppqn f
        Gen.Static.sequencesLoad genEnv (some (readBack0 written)) none none none 0) =
    .ok [[{ ch := 0, pitch := 60, on := 0, off := 24, vel := 90 }, { ch := 0, pitch := 62, on := 24, off := 36, vel := 80 },
          { ch := 0, pitch := 65, on := 36, off := 48, vel := 70 }],
         [{ ch := 0, pitch := 64, on := 0, off := 36, vel := 70 }]] := by decide +kernel

example : (notesOf (eventsRel trkA)).map (fun n => { n with ch := 0 }) =
    [{ ch := 0, pitch := 60, on := 0, off := 24, vel := 90 }, { ch := 0, pitch := 62, on := 24, off := 36, vel := 80 },
     { ch := 0, pitch := 65, on := 36, off := 48, vel := 70 }] := by decide

/-! ### the signatures in force (7 hypotheses each), on an input WITH signatures -/

theorem trks_ts_present : ∀ r ∈ [trkA, trkB], ∀ m ∈ r, m.ty = .timeSignature → (m.num, m.den) ≠ (pyNone, pyNone) := by decide
theorem trks_ks_present : ∀ r ∈ [trkA, trkB], ∀ m ∈ r, m.ty = .keySignature → m.key ≠ pyNone := by decide

set_option maxRecDepth 100000 in
/-- the absolute view of loaded sequence 0: both time signatures and both key signatures are there (time, numerator, denominator, key) -/
theorem loaded0 :
    (fun (out : List Seq) => (out.map (fun (s : Seq) => (s.abs.filter (fun m => m.ty == .timeSignature || m.ty == .keySignature)).map
      (fun m => (m.time, m.num, m.den, m.key))))) <$> saveLoad 24 [trkA, trkB] =
    .ok [[(0, -1, -1, 2), (0, 3, 4, -1), (36, -1, -1, 4), (36, 4, 4, -1)], []] := by
  decide +kernel

/-- all seven hypotheses of `C12n.save_load_time_signature_in_forceX` together on the input with two time signatures, at every
    tick `t ≥ 0`, for whatever the load returns -/
theorem ex_time_signature_in_forceX (out : List Seq) (h : saveLoad 24 [trkA, trkB] = .ok out)
    (s s' : Seq) (a : List Msg) (ho : out[0]? = some s) (ha : s.readAbs = Except.ok (s', a)) (t : Int) (ht : 0 ≤ t) :
    (latest .timeSignature (eventsAbs a) t).map tsVal
      = (latest .timeSignature (dfltSig .timeSignature ++ [trkA, trkB].flatMap eventsRel) t).map tsVal :=
  save_load_time_signature_in_forceX 24 (by decide) [trkA, trkB] trks_savedX trks_ts_present out h s s' a ho ha t ht

theorem ex_key_signature_in_forceX (out : List Seq) (h : saveLoad 24 [trkA, trkB] = .ok out)
    (s s' : Seq) (a : List Msg) (ho : out[0]? = some s) (ha : s.readAbs = Except.ok (s', a)) (t : Int) :
    (latest .keySignature (eventsAbs a) t).map keyVal
      = (latest .keySignature (dfltSig .keySignature ++ [trkA, trkB].flatMap eventsRel) t).map keyVal :=
  save_load_key_signature_in_forceX 24 (by decide) [trkA, trkB] trks_savedX trks_ks_present out h s s' a ho ha t

/-- the load of the example, its first sequence, the absolute view read from it -/
def firstAbs : Except Err (List Msg) := do
  let out ← saveLoad 24 [trkA, trkB]
  match out[0]? with
  | some s => (·.2) <$> s.readAbs
  | none => .error .indexError

set_option maxRecDepth 100000 in
/-- the left-hand sides evaluated on what the model loads: they agree with the right-hand sides below -/
theorem firstAbs_inforce :
    (fun a => ((latest .timeSignature (eventsAbs a) 10).map tsVal, (latest .timeSignature (eventsAbs a) 40).map tsVal,
               (latest .keySignature (eventsAbs a) 10).map keyVal, (latest .keySignature (eventsAbs a) 40).map keyVal)) <$> firstAbs
      = .ok (some (3, 4), some (4, 4), some 2, some 4) := by decide +kernel

/-- the existential hypotheses (`h`, `ho`, `ha`) are met: the load succeeds with a first sequence whose absolute view reads -/
theorem ex_forceX_inhabited : ∃ out s s' a, saveLoad 24 [trkA, trkB] = .ok out ∧ out[0]? = some s ∧ s.readAbs = Except.ok (s', a) := by
  have h := firstAbs_inforce
  unfold firstAbs at h
  cases hsl : saveLoad 24 [trkA, trkB] with
  | error x => rw [hsl] at h; cases h
  | ok out =>
    rw [hsl] at h
    simp only [WrapTie.ok_bind] at h
    cases ho : out[0]? with
    | none => rw [ho] at h; cases h
    | some s =>
      rw [ho] at h
      dsimp only at h
      cases hra : s.readAbs with
      | error x => rw [hra] at h; cases h
      | ok p => exact ⟨out, s, p.1, p.2, rfl, ho, hra⟩

/-- the right-hand side evaluated: 3/4 in force at tick 10, 4/4 at tick 40; key 2 at tick 10, key 4 at tick 40; the two differ,
    so the statement is exercised on a change of signature -/
example : ((latest .timeSignature (dfltSig .timeSignature ++ [trkA, trkB].flatMap eventsRel) 10).map tsVal,
           (latest .timeSignature (dfltSig .timeSignature ++ [trkA, trkB].flatMap eventsRel) 40).map tsVal,
           (latest .keySignature (dfltSig .keySignature ++ [trkA, trkB].flatMap eventsRel) 10).map keyVal,
           (latest .keySignature (dfltSig .keySignature ++ [trkA, trkB].flatMap eventsRel) 40).map keyVal)
    = (some (3, 4), some (4, 4), some 2, some 4) := by decide +kernel

end SCoda.Examples4

