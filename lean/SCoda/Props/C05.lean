/-
  C05 — quantise puts every event on the grid and keeps every note well-formed.
  `quantise steps a` is the fold model of `AbsoluteSequence.quantise` (after the repairs D10/D11).
-/
import SCoda.Model.Quantise
import SCoda.Model.Roll
import SCoda.Lemmas.Quantise
namespace SCoda.C05
open SCoda

/-- the largest step size -/
def maxStep : List Int → Int
  | [] => 0
  | s :: ss => max s (maxStep ss)

def StepsOk (steps : List Int) : Prop := steps ≠ [] ∧ ∀ s ∈ steps, 0 < s

/-- `find_minimal_distance`: the returned index is in range and minimises the distance (first such index) -/
theorem fmd_spec (e : Int) (coll : List Int) (h : coll ≠ []) :
    ∃ v, coll[findMinimalDistance e coll]? = some v ∧ ∀ w ∈ coll, (v - e).natAbs ≤ (w - e).natAbs :=
  Q.fmd_spec' e coll h

theorem le_maxStep {steps : List Int} {s : Int} (h : s ∈ steps) : s ≤ maxStep steps := by
  induction steps with
  | nil => cases h
  | cons x xs ih =>
    simp only [maxStep]
    rcases List.mem_cons.1 h with rfl | h
    · omega
    · have := ih h; omega

/-- every candidate position of a tick lies on the grid and within one (own) step of the tick -/
theorem candidates_spec (steps : List Int) (hs : StepsOk steps) (t : Int) :
    ∀ p ∈ possiblePositions steps t, (∃ s ∈ steps, p % s = 0) ∧ (p - t).natAbs ≤ (maxStep steps).toNat := by
  intro p hp
  obtain ⟨s, hs1, hp⟩ := Q.mem_possiblePositions hp
  obtain ⟨h1, h2, _⟩ := Q.cand_props (hs.2 s hs1) hp
  have := le_maxStep hs1
  exact ⟨⟨s, hs1, h1⟩, by omega⟩

/-- quantise never fails on a well-formed time-sorted input (the Python code's dictionary look-ups
    `message_timings[key][1]` and `.pop(key)` cannot raise) -/
theorem total (steps : List Int) (hs : StepsOk steps) (a : List Msg) (hok : OkAbs a) (hwf : WF a) :
    ∃ out, quantise steps a = .ok out := by
  have _ := hok
  exact Q.quantise_total hs.1 hwf

/-- **on the grid**: every remaining event lies on a tick divisible by at least one step size -/
theorem on_grid (steps : List Int) (hs : StepsOk steps) (a out : List Msg) (h : quantise steps a = .ok out) :
    ∀ m ∈ out, ∃ s ∈ steps, m.time % s = 0 := by
  intro m hm
  exact (Q.quantise_times (T := fun p => ∃ s ∈ steps, p % s = 0)
    (fun m _ p hp => (candidates_spec steps hs m.time p hp).1) h m hm).1

/-- the result is time-sorted with non-negative ticks -/
theorem sorted_out (steps : List Int) (hs : StepsOk steps) (a out : List Msg) (hok : OkAbs a)
    (h : quantise steps a = .ok out) : OkAbs out := by
  obtain ⟨_, _, _, _, hout⟩ := Q.quantise_ok h
  have key := Q.quantise_times (T := fun p => 0 ≤ p) (fun m hm p hp => by
    obtain ⟨s, hs1, hp⟩ := Q.mem_possiblePositions hp
    exact (Q.cand_props (hs.2 s hs1) hp).2.2 (hok.2.1 m hm)) h
  refine ⟨?_, fun m hm => (key m hm).1, ?_⟩
  · rw [hout]; exact sortAbs_timeSorted _
  · intro m hm hw
    rcases (key m hm).2 with h1 | ⟨m0, hm0, h1⟩
    · rw [hw] at h1; cases h1
    · exact hok.2.2 m0 hm0 (by rw [← h1, hw])

/-- **bounded displacement** (well-formed input): every remaining message is an input message whose
    time moved by at most the largest step size, everything else about it unchanged -/
theorem displacement (steps : List Int) (hs : StepsOk steps) (a out : List Msg) (hok : OkAbs a) (hwf : WF a)
    (h : quantise steps a = .ok out) :
    ∀ m' ∈ out, ∃ m ∈ a, m' = { m with time := m'.time } ∧ (m'.time - m.time).natAbs ≤ (maxStep steps).toNat := by
  have _ := hok
  obtain ⟨h1, h2⟩ := Q.quantise_wf_core hs.1 hwf h
  intro m' hm'
  have hc : Q.Cand steps a m' := by
    by_cases hn : Q.IsNoteTy m'
    · exact Q.altT_P out _ (h1 m'.nkey) m' hm' rfl hn
    · exact h2 m' hm' hn
  obtain ⟨m, hm, he, hp⟩ := hc
  exact ⟨m, hm, he, (candidates_spec steps hs m.time _ hp).2⟩

/-- **non-note events are all kept** (only their time changes) -/
theorem others_kept (steps : List Int) (hs : StepsOk steps) (a out : List Msg) (h : quantise steps a = .ok out) :
    ((nonNotes out).map (fun m => { m with time := 0 })).Perm ((nonNotes a).map (fun m => { m with time := 0 })) := by
  have _ := hs
  exact Q.quantise_nonNotes h

/-- note-ons and note-offs still pair one-to-one per channel and pitch: the output is well-formed … -/
theorem wf_out (steps : List Int) (hs : StepsOk steps) (a out : List Msg) (hok : OkAbs a) (hwf : WF a)
    (h : quantise steps a = .ok out) : WF out := by
  have _ := hok
  intro k
  exact Q.altT_altFrom out _ ((Q.quantise_wf_core hs.1 hwf h).1 k)

/-- … every note has positive duration, and notes of one channel and pitch do not overlap (the next
    note-on of a key is not before the previous note-off) -/
theorem positive_durations (steps : List Int) (hs : StepsOk steps) (a out : List Msg) (hok : OkAbs a) (hwf : WF a)
    (h : quantise steps a = .ok out) :
    ∀ n ∈ notesOf out, n.on < n.off := by
  have _ := hok
  have h1 := (Q.quantise_wf_core hs.1 hwf h).1
  exact Q.notes_pos out [] (fun k => ⟨_, h1 k⟩) (fun o ho => by cases ho)

/-! non-vacuity: the D11 shape (two interleaved notes collapsing) and the D10 shape (same pitch on two channels) -/
def ex1 : List Msg := [Msg.mkOn 0 60 64 7, Msg.mkOn 0 62 64 7, Msg.mkOff 0 60 8, Msg.mkOff 0 62 8,
                       { ty := .controlChange, ch := 0, time := 30, vel := 1, ctl := 1 }]
example : quantise [12] ex1 = .ok [{ ty := .controlChange, ch := 0, time := 24, vel := 1, ctl := 1 }] := by
  rfl
def ex2 : List Msg := [Msg.mkOn 0 60 64 0, Msg.mkOn 1 60 64 0, Msg.mkOff 0 60 24, Msg.mkOff 1 60 24]
example : quantise [12] ex2 = .ok ex2 := by
  rfl
example : StepsOk [24, 12, 6, 16, 8, 4] := by
  refine ⟨by simp, ?_⟩
  intro s hs'
  simp at hs'
  omega

end SCoda.C05
