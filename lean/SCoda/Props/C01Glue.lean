/-
  C01 glue: the events `extract` hands to the tokeniser core satisfy the hypothesis `EvsOk` of the
  simulation theorem, so `roundtrip` applies to what `tokenise` actually computes for a list of tracks.
-/
import SCoda.Props.C01
import SCoda.Props.Glue
namespace SCoda.C01
open SCoda

theorem extract_evsOk (c : Cfg) (tracks : List (List Msg)) (hlen : tracks.length = c.numTracks)
    (hok : ∀ t ∈ tracks, OkRel t)
    (hts : ∀ t ∈ tracks, ∀ m ∈ t, m.ty = .timeSignature → 0 < m.den ∧ 0 < m.num) :
    EvsOk c 0 0 (extract c.ppqn tracks) := by
  refine ⟨?_, ?_, ?_, ?_⟩
  · intro ev hev m hm
    have := Glue.extract_channels c.ppqn tracks ev hev m hm
    rw [hlen] at this
    exact this
  · exact Glue.extract_ordered c.ppqn tracks hok
  · intro ev hev m hm
    have := Glue.extract_nonneg c.ppqn tracks hok ev hev m hm
    omega
  · intro ev hev m hm hty
    obtain ⟨t, ht, m0, hm0, hty0, hnum, hden⟩ := Glue.extract_timesig c.ppqn tracks ev hev m hm hty
    have := hts t ht m0 hm0 hty0
    rw [← hnum, ← hden]
    exact this

/-- **C01 for tracks**: whenever `tokenise` accepts a list of tracks (from the initial state), running
    `detokenise` on the emitted tokens succeeds and — time-signature messages aside — emits exactly the
    specification log of the extracted events: every note at its onset with its duration and binned
    velocity on its track, and every bar end of the grid. -/
theorem roundtrip_tracks (c : Cfg) (hc : CfgOk c) (hn : 0 < c.numTracks) (tracks : List (List Msg))
    (hlen : tracks.length = c.numTracks) (hok : ∀ t ∈ tracks, OkRel t)
    (hts : ∀ t ∈ tracks, ∀ m ∈ t, m.ty = .timeSignature → 0 < m.den ∧ 0 < m.num)
    (toks : List Tok) (st' : TokSt)
    (h : tokeniseCore c (TokSt.init c) (extract c.ppqn tracks) = .ok (toks, st')) :
    ∃ d log, dfold c (DetokSt.init c) toks = .ok (d, log)
      ∧ detokenise c toks = .ok d.seqs
      ∧ log.filter notTsig = (specLog c (TokSt.init c) (extract c.ppqn tracks)).2 :=
  roundtrip c hc hn _ toks st' (extract_evsOk c tracks hlen hok hts) h

end SCoda.C01
