/-
  C11 — tick values stay integers: the theorems that close audit item A10.

  1. defaults (replaces the vacuous `C11.defaults_int_typed`): over the *data* the translator emits
     (`Gen/SettingsTyped.lean`: every evaluated default with the Python type it had), and against the
     kernel's own evaluation of the PyNum transcription of the Python functions that compute them.
  2. tokens: every token `tokeniseCore` emits renders its numeric fields as plain decimal integers, and those
     fields read back as the model's Int ticks.
  3. (below) the PyNum sites; 4. the typing's least fixpoint.
-/
import SCoda.Gen.Settings
import SCoda.Gen.SettingsTyped
import SCoda.Model.PyNumSites
import SCoda.Lemmas.C11L
import SCoda.Lemmas.C11LNum
namespace SCoda.C11d
open SCoda SCoda.C11L

/-! ## 1. the evaluated defaults are int-typed (audit A10, clause 3 of C11) -/

/-- Every default step size, default note value and velocity bin (for 1..64 bins) that Python computed had
    type `int` — decided by Lean over the per-element type flags the translator records — and the flagged
    values are exactly the lists the models use.  Closes A10 (`defaults_int_typed` was `true = true`). -/
theorem defaults_int_typed_data :
    (∀ p ∈ Gen.defaultStepSizesTyped, p.2 = true)
    ∧ (∀ p ∈ Gen.defaultStepSizesShift1Typed, p.2 = true)
    ∧ (∀ p ∈ Gen.defaultNoteValuesTyped, p.2 = true)
    ∧ (∀ row ∈ Gen.velocityBinsTableTyped, ∀ p ∈ row.2, p.2 = true)
    ∧ Gen.defaultStepSizesTyped.map (·.1) = Gen.defaultStepSizes
    ∧ Gen.defaultStepSizesShift1Typed.map (·.1) = Gen.defaultStepSizesShift1
    ∧ Gen.defaultNoteValuesTyped.map (·.1) = Gen.defaultNoteValues
    ∧ Gen.velocityBinsTableTyped.map (fun r => (r.1, r.2.map (·.1))) = Gen.velocityBinsTable := by
  decide +kernel

/-- the statement is about data: a table with one float-typed element is rejected -/
example : ¬ (∀ p ∈ [((24 : Int), true), (16, false)], p.2 = true) := by decide

/-- Execution-level cross-check: the operator-by-operator PyNum transcription of `get_default_step_sizes`,
    `get_default_note_values` and `get_velocity_bins` (`Model/PyNumSites.lean`, util.py:25-34, 103-198),
    evaluated by the kernel under Python's numeric-tower typing rules on the generated settings, yields the
    same values *and the same types* as the real functions reported.  Closes A10 (an execution statement
    for the defaults: Lean's model of the arithmetic agrees with Python's run). -/
theorem defaults_agree_with_numeric_tower :
    (getDefaultStepSizesPy 10 Gen.ppqn 0 0).map (·.map PyNum.tag) = some Gen.defaultStepSizesTyped
    ∧ (getDefaultStepSizesPy 10 Gen.ppqn 0 1).map (·.map PyNum.tag) = some Gen.defaultStepSizesShift1Typed
    ∧ (getDefaultNoteValuesPy 10 Gen.ppqn Gen.noteValueUpperBound Gen.noteValueLowerBound Gen.validTuplets
          Gen.dottedIterations.toNat).map (·.map PyNum.tag) = some Gen.defaultNoteValuesTyped
    ∧ Gen.velocityBinsTableTyped.all
          (fun r => (getVelocityBinsPy Gen.velocityMax r.1).map PyNum.tag == r.2) = true := by
  decide +kernel

/-- the transcription does notice a float: the same tuplet expression without its `int(…)`
    (util.py:171) is float-typed -/
example : (PyNum.truediv (PyNum.mul (.int 24) (.int 2)) (.int 3)).isInt = false := by decide
example : (tupletPy (.int 24) (.int 3) (.int 2)) = .int 16 := by decide +kernel

/-! ## 2. tokens render ticks as integers -/

/-- the numeric parameters of the configuration are non-negative (true of every configuration the
    constructor accepts in practice; a negative step would be rendered `rst_-3`) -/
structure CfgNonneg (c : Cfg) : Prop where
  steps : ∀ v ∈ c.steps, 0 ≤ v
  values : ∀ v ∈ c.values, 0 ≤ v
  bins : ∀ v ∈ c.bins, 0 ≤ v
  pitchLo : 0 ≤ c.pitchLo
  tsLo : 0 ≤ c.tsLo
  defNum : 0 ≤ c.defNum

/-- `ch` is the channel of a note-on event of the input -/
def IsChannel (evs : List (Int × Pairing)) (ch : Int) : Prop :=
  ∃ ev ∈ evs, ∃ m rest, ev.2 = m :: rest ∧ m.ty = .noteOn ∧ m.ch = ch

/-- `v` is the tick distance between a note-on of the input and the message paired with it -/
def IsNoteLength (evs : List (Int × Pairing)) (v : Int) : Prop :=
  ∃ ev ∈ evs, ∃ m off r, ev.2 = m :: off :: r ∧ m.ty = .noteOn ∧ v = off.time - m.time

/-- the note-on events carry non-negative channels (input-level; MIDI channels are 0..15) -/
def ChannelsNonneg (evs : List (Int × Pairing)) : Prop :=
  ∀ ev ∈ evs, ∀ m rest, ev.2 = m :: rest → m.ty = .noteOn → 0 ≤ m.ch

theorem evOk (evs : List (Int × Pairing)) :
    ∀ ev ∈ evs, EvOk (IsChannel evs) (IsNoteLength evs) ev := by
  intro ev hev m rest hm hty
  refine ⟨⟨ev, hev, m, rest, hm, hty, rfl⟩, ?_⟩
  intro off r hr
  exact ⟨ev, hev, m, off, r, by rw [hm, hr], hty, rfl⟩

/-- **The link between token fields and model ticks.**  Every token emitted by `tokeniseCore` (any
    configuration, any carried state, any events) has the shape `Emit`: a rest carries one of the configured
    Int step sizes, a value field is the Int tick distance of a note pairing of the input and one of the
    configured Int note values, a velocity field is a configured Int bin, a track field is an input channel,
    pitch and signature numerator lie in the configured Int ranges.  No hypothesis beyond the run being
    accepted.  Closes A10 (tokens). -/
theorem emitted_fields_are_model_ticks (c : Cfg) (st st' : TokSt) (evs : List (Int × Pairing))
    (toks : List Tok) (hok : tokeniseCore c st evs = .ok (toks, st')) :
    ∀ t ∈ toks, Emit c (IsChannel evs) (IsNoteLength evs) t :=
  tokeniseCore_emits c _ _ st st' evs toks (evOk evs) hok

theorem emit_nonneg {c : Cfg} (h : CfgNonneg c) {evs : List (Int × Pairing)} (hch : ChannelsNonneg evs)
    {t : Tok} (he : Emit c (IsChannel evs) (IsNoteLength evs) t) : Nonneg t := by
  have hchan : ∀ ch, IsChannel evs ch → 0 ≤ ch := by
    rintro ch ⟨ev, hev, m, rest, hm, hty, rfl⟩
    exact hch ev hev m rest hm hty
  intro x hx
  cases t with
  | pad => cases hx
  | sta => cases hx
  | sto => cases hx
  | bar => cases hx
  | rest v => simp [ints] at hx; subst hx; exact h.steps _ he
  | trk ch => simp [ints] at hx; subst hx; exact hchan _ he
  | val v => simp [ints] at hx; subst hx; exact h.values _ he.1
  | vel w => simp [ints] at hx; subst hx; exact h.bins _ he
  | note t p v w =>
    obtain ⟨h1, h2, _, h4, h5⟩ := he
    simp only [ints, List.mem_append, Option.mem_toList, List.mem_singleton] at hx
    rcases hx with ((hx | hx) | hx) | hx
    · exact hchan _ (h1 x hx)
    · subst hx; exact Int.le_trans h.pitchLo h2
    · exact h.values _ (h4 x hx).1
    · exact h.bins _ (h5 x hx)
  | tsig n d =>
    obtain ⟨h1, _, h3⟩ := he
    simp [ints] at hx
    rcases hx with rfl | rfl
    · exact Int.le_trans h.tsLo h1
    · rw [h3]; exact h.defNum

/-- **Every token that embeds a tick value renders it as an integer.**  For every token `t` emitted by
    `tokeniseCore` — any carried state, any events with non-negative channels, any configuration with
    non-negative parameters — splitting the text `render t` at '-' and then at '_' gives fields each of which
    is a generated prefix or a non-empty string of decimal digits (no '.', no exponent, no sign), and
    reading the fields back with `String.toNat?` gives exactly the token's Int fields, in order.
    Closes A10 ("every token renders ticks as integers" had no theorem). -/
theorem tokens_render_integers (c : Cfg) (hc : CfgNonneg c) (st st' : TokSt) (evs : List (Int × Pairing))
    (toks : List Tok) (hch : ChannelsNonneg evs) (hok : tokeniseCore c st evs = .ok (toks, st')) :
    ∀ t ∈ toks,
      (∀ f ∈ fieldsOf (render t), f ∈ prefixValues ∨ (f ≠ "" ∧ f.all Char.isDigit = true))
      ∧ (fieldsOf (render t)).filterMap String.toNat? = (ints t).map Int.toNat
      ∧ (∀ x ∈ ints t, 0 ≤ x) := by
  intro t ht
  have hn : Nonneg t := emit_nonneg hc hch (emitted_fields_are_model_ticks c st st' evs toks hok t ht)
  refine ⟨?_, ?_, hn⟩
  · intro f hf
    rw [fieldsOf_render t hn] at hf
    obtain ⟨g, hg, hfg⟩ := List.mem_flatten.1 hf
    rcases groups_fields t g hg f hfg with hp | ⟨wv, hwv, rfl⟩
    · exact Or.inl hp
    · have h0 := widths_nonneg hn wv hwv
      exact Or.inr ⟨zpad_ne_empty _ _ h0, zpad_all_digits _ _ h0⟩
  · rw [fieldsOf_render t hn, groups_toNat t hn]

/-- Without any hypothesis, for *any* token whatsoever: the text consists of decimal digits, the two
    separators, a minus sign, and characters of the generated prefixes, which are letters — in particular it
    never contains '.', '+' or a digit-adjacent exponent.  (This is the part that is true by the typing of
    `Tok`, whose fields are `Int`; the content of C11 for tokens is `tokens_render_integers` together with
    the float-taint typing, which covers the Python values formatted into the f-strings.)  A10. -/
theorem render_has_no_float_syntax (t : Tok) :
    ∀ ch ∈ (render t).toList, ch.isDigit = true ∨ ch = '-' ∨ ch = '_' ∨ ch.isAlpha = true := by
  intro ch hch
  rcases render_chars t ch hch with h | h | h | ⟨p, hp, hx⟩
  · exact Or.inl h
  · exact Or.inr (Or.inl h)
  · exact Or.inr (Or.inr (Or.inl h))
  · have hal : ∀ p ∈ prefixValues, ∀ ch ∈ p.toList, ch.isAlpha = true := by decide
    exact Or.inr (Or.inr (Or.inr (hal p hp ch hx)))

/-! non-vacuity: a concrete configuration and input satisfy the hypotheses; the conclusion evaluated -/

def exCfg : Cfg := { steps := [2, 3, 4, 6, 12, 24], values := [4, 6, 12], bins := [63, 127], numTracks := 2,
                     pitchLo := 60, pitchHi := 72 }
def exEvs : List (Int × Pairing) :=
  [(0, [Msg.mkOn 1 60 100 0, Msg.mkOff 1 60 12]), (0, [Msg.mkTimeSig 0 3 4 0]),
   (1, [Msg.mkOn 0 64 50 18, Msg.mkOff 0 64 24])]

example : CfgNonneg exCfg := by
  constructor <;> decide
example : ChannelsNonneg exEvs := by
  intro ev hev m rest hm hty
  simp only [exEvs, List.mem_cons, List.not_mem_nil, or_false] at hev
  rcases hev with rfl | rfl | rfl <;> simp at hm <;> obtain ⟨rfl, _⟩ := hm <;> simp [Msg.mkOn, Msg.mkTimeSig] at hty ⊢
example : (tokeniseCore exCfg (TokSt.init exCfg) exEvs).toOption.map (·.1.map render)
    = some ["trk_01-pit_060-val_12-vel_127", "tsg_06_08", "rst_12", "rst_06", "trk_00-pit_064-val_06-vel_063",
            "rst_24", "rst_24", "rst_06", "bar"] := by decide +kernel
example : fieldsOf (render (.note (some 1) 60 (some 12) (some 127)))
    = ["trk", "01", "pit", "060", "val", "12", "vel", "127"] := by
  rw [fieldsOf_render _ (by decide)]; decide
/-- a negative field is outside the digit statement: `rst_-3` splits into `rst`, ``, `3` -/
example : render (.rest (-3)) = "rst_-3" := by decide

/-! ## 3. the float sites: Python's numeric tower gives an int, and which int

  Every `…Py` term is the operator-by-operator transcription of the cited Python expression
  (`Model/PyNum.lean`, `Model/PyNumSites.lean`).  `PyNum` idealises a float as an exact rational; that is
  exact for the capacities with `PPQN = 24` and for power-of-two denominators (replayed on the real code for
  all numerators/denominators ≤ 128), and is an idealisation elsewhere — see the notes at `load_site`
  and `eighth_scaling_site`. -/

/-- `int(a / d)` of a true quotient of ints is division *truncated toward zero*, for every sign of `a` and
    `d ≠ 0` (`d = 0` raises in Python).  It is the floor division the Lean models write only for a
    non-negative or exact quotient.  A10 (replaces the `cases x <;> rfl` lemma `pyint_int`). -/
theorem int_of_quotient_truncates (a d : Int) (hd : d ≠ 0) :
    PyNum.pyint (PyNum.truediv (.int a) (.int d)) = .int (a.tdiv d) :=
  pyint_trunc a d hd _ rfl

example : PyNum.pyint (PyNum.truediv (.int (-7)) (.int 2)) = .int (-3) := by
  rw [int_of_quotient_truncates _ _ (by decide)]; decide
example : (-7 : Int) / 2 = -4 := by decide

/-- **Capacities, all signs.**  The three capacity expressions — bar.py:26 `int(n * PPQN / (d / 4))`,
    sequence.py:510 `int(PPQN * (n / (d / 4)))`, notelike_tokenisation.py:94/226/256/319/363/414
    `int(ppqn * 4 * n / d)` — are int-typed and equal the truncated quotient, for all ints with `d ≠ 0`.  A10. -/
theorem capacity_sites (n ppqn d : Int) (hd : d ≠ 0) :
    barCapacityPy n ppqn d = .int ((n * ppqn * 4).tdiv d)
    ∧ splitBarLenPy n ppqn d = .int ((n * ppqn * 4).tdiv d)
    ∧ tokCapacityPy n ppqn d = .int ((ppqn * 4 * n).tdiv d) :=
  ⟨barCapacityPy_trunc n ppqn d hd, splitBarLenPy_trunc n ppqn d hd, tokCapacityPy_trunc n ppqn d hd⟩

example : barCapacityPy (-1) 24 128 = .int 0 ∧ tokCapacityPy 3 24 (-4) = .int (-72) := by
  rw [(capacity_sites (-1) 24 128 (by decide)).1, (capacity_sites 3 24 (-4) (by decide)).2.2]; decide

/-- **Capacities equal the models' floor-division formulas** on the domain of the operations: positive
    denominator and `n * ppqn ≥ 0` (`hn` is needed: see `capacity_eq_model_statement_false`; `hd` excludes
    Python's ZeroDivisionError and negative denominators, which no time signature has).  A10. -/
theorem capacity_sites_eq_model (c : Cfg) (n ppqn d : Int) (hn : 0 ≤ n * ppqn) (hd : 0 < d) :
    barCapacityPy n ppqn d = .int (barCapacity ppqn n d)
    ∧ splitBarLenPy n ppqn d = .int (barCapacity ppqn n d)
    ∧ (ppqn = c.ppqn → tokCapacityPy n ppqn d = .int (c.capacity n d)) := by
  have h4 : 0 ≤ n * ppqn * 4 := by omega
  obtain ⟨h1, h2, h3⟩ := capacity_sites n ppqn d (by omega)
  refine ⟨?_, ?_, ?_⟩
  · rw [h1, Int.tdiv_eq_ediv_of_nonneg h4]; rfl
  · rw [h2, Int.tdiv_eq_ediv_of_nonneg h4]; rfl
  · rintro rfl
    have h5 : 0 ≤ c.ppqn * 4 * n := by rw [show c.ppqn * 4 * n = n * c.ppqn * 4 by ring]; exact h4
    rw [h3, Int.tdiv_eq_ediv_of_nonneg h5]; rfl

example : 0 ≤ (6 : Int) * 24 ∧ (0 : Int) < 8 := by decide
example : barCapacityPy 6 24 8 = .int 72 := by
  rw [(capacity_sites_eq_model { steps := [], values := [], bins := [] } 6 24 8 (by decide) (by decide)).1]; decide

/-- the same without the sign hypothesis — FALSE: Python truncates, the model floors -/
def capacity_eq_model_statement : Prop :=
  ∀ n ppqn d : Int, 0 < d → barCapacityPy n ppqn d = .int (barCapacity ppqn n d)

/-- counter-example `n = -1`, `PPQN = 24`, `d = 128`: `int(-24 / 32.0) = int(-0.75) = 0`, `(-96) // 128 = -1`.
    Replayed on /repo: `int(-1*24/(128/4)) == 0`, `(-1*24*4)//128 == -1`; `Bar(Sequence(), -1, 128)` is accepted
    (capacity 0) while the model's `mkBar` rejects it (`0 > -1`): a model artefact outside the domain
    (Model/Bar.lean:20 floors, bar.py:26 truncates), not a defect — numerators are positive. -/
theorem capacity_eq_model_statement_false : ¬ capacity_eq_model_statement := by
  intro h
  have h1 := h (-1) 24 128 (by decide)
  rw [(capacity_sites (-1) 24 128 (by decide)).1] at h1
  exact absurd h1 (by decide)

/-- **Pad amount** (relative_sequence.py:175-194, called from bar.py:33 with the capacity): with the `int(…)`
    of bar.py:26 the appended wait `padding_length - current_length` is int-typed and is the model's
    `capacity - Σ waits`; with the unguarded capacity (defect D9, now repaired) it is a float for every
    input — the PyNum model does see that defect.  A10. -/
theorem pad_amount_site (n ppqn d : Int) (hd : d ≠ 0) (waits : List Int) :
    padAmountPy (barCapacityPy n ppqn d) waits = .int ((n * ppqn * 4).tdiv d - waits.sum)
    ∧ (padAmountPy (barCapacityUnguardedPy n ppqn d) waits).isInt = false := by
  constructor
  · rw [padAmountPy, (capacity_sites n ppqn d hd).1, currentLengthPy_eq]; rfl
  · rw [padAmountPy, currentLengthPy_eq]; rfl

example : padAmountPy (barCapacityPy 4 24 4) [24, 12] = .int 60 := by
  rw [(pad_amount_site 4 24 4 (by decide) [24, 12]).1]; decide

/-- **Eighth scaling** (notelike_tokenisation.py:215-219): `float(n * (D / d)).is_integer()` is the model's
    divisibility test `(n * D) % d = 0`, and then `int(scaled)` is the model's `n * D / d` — any signs,
    `d ≠ 0`.  (Idealisation: in IEEE arithmetic `49 * (8 / 49) = 7.999999999999999`, so the real tokeniser
    rejects a 49/49 signature that the model accepts; exact for power-of-two denominators.)  A10. -/
theorem eighth_scaling_site (n D d : Int) (hd : d ≠ 0) :
    eighthIsIntegerPy n D d = decide ((n * D) % d = 0)
    ∧ ((n * D) % d = 0 → eighthIntPy n D d = .int (n * D / d)) :=
  ⟨eighthIsIntegerPy_eq n D d hd, eighthIntPy_eq n D d hd⟩

example : eighthIsIntegerPy 3 8 4 = true ∧ eighthIntPy 3 8 4 = .int 6 := by
  rw [(eighth_scaling_site 3 8 4 (by decide)).1, (eighth_scaling_site 3 8 4 (by decide)).2 (by decide)]; decide
example : eighthIsIntegerPy 3 8 16 = false := by
  rw [(eighth_scaling_site 3 8 16 (by decide)).1]; decide

/-- **Halving a simplifiable signature** (notelike_tokenisation.py:322-326): under the code's own guard
    `a % 2 == 0`, `int(a / 2)` is the model's `a / 2`; without the guard it is the truncated quotient.  A10. -/
theorem half_site (a : Int) : halfPy a = .int (a.tdiv 2) ∧ (a % 2 = 0 → halfPy a = .int (a / 2)) :=
  ⟨halfPy_trunc a, halfPy_eq a⟩

example : halfPy 6 = .int 3 ∧ halfPy (-3) = .int (-1) := by
  rw [(half_site 6).2 (by decide), (half_site (-3)).1]; decide

/-- **MIDI load** (midi_file.py:56, 70, 83-84): the running point in time is a float after the first message,
    and `round(…)` returns the int the model computes, `roundHalfEven (Σ deltas * PPQN / filePPQ)` —
    for exact arithmetic.  (Idealisation, replayed on /repo: with 480 ticks per beat the real loader puts a
    message at file tick 70 at time 3 when it is reached by 70 deltas of 1 (float sum 3.4999999999999956) and at
    time 4 when reached by deltas 69+1; the model says 4 in both cases.  Both are ints.  Exact whenever
    `PPQN / filePPQ` is a dyadic rational, e.g. filePPQ = 24·2^k.)  `filePpq = 0` raises in Python.  A10. -/
theorem load_site (ppqn filePpq : Int) (deltas : List Int) :
    loadTimePy ppqn filePpq deltas
        = .int (roundHalfEven ((deltas.sum : Rat) * (ppqn : Rat) / (filePpq : Rat)))
    ∧ (deltas ≠ [] → (loadPointPy ppqn filePpq deltas).isInt = false) := by
  refine ⟨loadTimePy_eq ppqn filePpq deltas, fun h => ?_⟩
  cases deltas with
  | nil => exact absurd rfl h
  | cons t ts => exact loadPointPy_float ppqn filePpq t ts

example : loadTimePy 24 480 [69, 1] = .int 4 := by rw [(load_site 24 480 [69, 1]).1]; decide +kernel

/-- **MIDI save / cap message** (midi_track.py:32-57 `int(time_buffer)`, relative_sequence.py:55-67
    `int(current_point_in_time)`): a sum of int ticks is an int, and `int(…)` leaves it unchanged.  A10. -/
theorem save_site (times : List Int) : saveTimePy times = .int times.sum := saveTimePy_eq times

example : saveTimePy [0, 12, 0, 36] = .int 48 := by rw [save_site]; decide

/-- **`get_note_durations`** (util.py:122-151) on int arguments: every element is int-typed, the list is the
    integer computation `getNoteDurations`, and — independently of the fuel — its elements are exactly
    `trunc(ub * base / 2^j)` for `2^j ≤ ub` followed by `trunc(base / 2^j)` for `j ≥ 1`, `2^j ≤ lb`.
    The loop variable `i` is a float from the second iteration on (`i /= 2`); it is `int(…)` that keeps the
    appended values ints.  Holds for every sign of `base`.  A10. -/
theorem note_durations_site (fuel : Nat) (ub lb base : Int) :
    getNoteDurationsPy fuel (.int ub) (.int lb) (.int base)
        = (getNoteDurations fuel ub lb base).map (·.map PyNum.int)
    ∧ (∀ l, getNoteDurations fuel ub lb base = some l → ∀ x, x ∈ l ↔
          (∃ j, (2 : Int) ^ j ≤ ub ∧ x = (ub * base).tdiv (2 ^ j))
          ∨ (∃ j, 1 ≤ j ∧ (2 : Int) ^ j ≤ lb ∧ x = base.tdiv (2 ^ j)))
    ∧ (1 ≤ fuel → ub < 2 ^ (fuel - 1) → lb < 2 ^ fuel → (getNoteDurations fuel ub lb base).isSome = true) := by
  refine ⟨getNoteDurationsPy_eq fuel ub lb base, ?_, ?_⟩
  · intro l hl x
    unfold getNoteDurations at hl
    cases ha : noteDurUp base ub fuel 0 with
    | none => rw [ha] at hl; cases hl
    | some a =>
      cases hb : noteDurDown base lb fuel 1 with
      | none => rw [ha, hb] at hl; cases hl
      | some b =>
        rw [ha, hb] at hl; cases hl
        rw [List.mem_append, mem_noteDurUp base ub fuel 0 a ha x, mem_noteDurDown base lb fuel 1 b hb x]
        simp
  · intro hf hub hlb
    have h1 := noteDurUp_isSome base ub fuel 0 hf (by simpa using hub)
    have h2 := noteDurDown_isSome base lb fuel 1 hf (by rw [show 1 + fuel - 1 = fuel by omega]; exact hlb)
    unfold getNoteDurations
    cases ha : noteDurUp base ub fuel 0 <;> cases hb : noteDurDown base lb fuel 1 <;> simp_all

example : (1 : Nat) ≤ 4 ∧ (1 : Int) < 2 ^ (4 - 1) ∧ (4 : Int) < 2 ^ 4 := by decide
example : getNoteDurationsPy 4 (.int 1) (.int 4) (.int 24) = some [.int 24, .int 12, .int 6] := by
  rw [(note_durations_site 4 1 4 24).1]; decide
example : getNoteDurations 4 1 4 24 = some [24, 12, 6] := by decide
example : getNoteDurations 4 2 8 24 = some [48, 24, 12, 6, 3] := by decide

/-- **`get_tuplet_durations`** (util.py:171 `int((nd * rd) / rn)`) and **`get_dotted_note_durations`**
    (util.py:194-196): on int durations every appended value is int-typed; a tuplet is the truncated
    quotient `(nd * rd) tdiv rn` (`rn ≠ 0`; `rn = 0` raises), a dotted value is kept exactly when
    `2^(it+1)` divides `nd * (2^(it+2) - 1)` and is then that exact quotient.  A10. -/
theorem tuplet_dotted_sites (nds : List Int) (rn rd : Int) (hrn : rn ≠ 0) (iterations : Nat) :
    getTupletDurationsPy (nds.map PyNum.int) (.int rn) (.int rd)
        = (nds.map fun nd => (nd * rd).tdiv rn).map PyNum.int
    ∧ getDottedNoteDurationsPy (nds.map PyNum.int) iterations
        = (getDottedNoteDurations nds iterations).map PyNum.int :=
  ⟨getTupletDurationsPy_eq nds rn rd hrn, getDottedNoteDurationsPy_eq nds iterations⟩

example : getTupletDurationsPy [.int 24, .int 12, .int 6] (.int 3) (.int 2) = [.int 16, .int 8, .int 4] := by
  rw [show [PyNum.int 24, .int 12, .int 6] = [24, 12, 6].map PyNum.int from rfl,
    (tuplet_dotted_sites [24, 12, 6] 3 2 (by decide) 0).1]; decide
example : getDottedNoteDurations [24, 12, 6, 3] 2 = [36, 18, 9, 42, 21] := by decide

/-! ## 4. the typing is sound for its *least* solution -/

open SCoda.Gen SCoda.C11

/-- **Soundness skeleton of the float-taint typing.**  For any facts `fns` and *any* certificate
    (`ff`, and the `cert` fields) that is closed under the typing rules: a sink that is not maybe-float under
    the certificate is not maybe-float in the least solution of the rules (`MaybeFloat`, defined inductively
    from the rules alone, without reference to any certificate).  A10 (`least_le_cert` was unused). -/
theorem typing_sound_for_least_solution (fns : List TaintFn) (ff : List Nat)
    (hclosed : fns.all (closedFn ff) = true) (fn : TaintFn) (s : String × TaintInfo)
    (hclean : infoTainted fn.cert ff s.2 = false) : ¬ MaybeFloat fns fn s.2 := by
  intro h
  rw [maybeFloat_le_cert fns ff hclosed fn s.2 h] at hclean
  cases hclean

/-- **No float reaches a tick — in the least solution**, for the current source: no sink of any function of
    the modelled files (tick stores, `time=` arguments, arguments of library functions, values returned by the
    duration helpers, ticks formatted into tokens) is maybe-float in the least solution of the typing rules
    over the regenerated facts.  The generated certificate is used only as a witness.  A10. -/
theorem no_float_reaches_a_tick_least :
    ∀ fn ∈ taintFns, ∀ s ∈ fn.sinks, ¬ MaybeFloat taintFns fn s.2 := by
  intro fn hfn s hs
  apply typing_sound_for_least_solution taintFns taintFloatFns cert_closed fn s
  have h1 := List.all_eq_true.1 no_float_reaches_a_tick fn hfn
  have h2 := List.all_eq_true.1 h1 s hs
  simpa using h2

/-- the same for the executable iteration (`C11.varStep`, `C11.iter`; `n` local rounds per function, `m`
    global rounds over the set of float-returning functions), at every stage — through `C11.least_le_cert` -/
theorem no_float_reaches_a_tick_iterative (n m : Nat) :
    ∀ fn ∈ taintFns, ∀ s ∈ fn.sinks,
      infoTainted (fnVars n (leastFns n m taintFns) fn) (leastFns n m taintFns) s.2 = false := by
  intro fn hfn s hs
  have hff := leastFns_le_cert n m taintFns taintFloatFns cert_closed
  have hv := fnVars_le_cert n _ taintFloatFns hff fn (List.all_eq_true.1 cert_closed fn hfn)
  cases h : infoTainted (fnVars n (leastFns n m taintFns) fn) (leastFns n m taintFns) s.2 with
  | false => rfl
  | true =>
    have h1 := List.all_eq_true.1 (List.all_eq_true.1 no_float_reaches_a_tick fn hfn) s hs
    rw [infoTainted_mono s.2 hv hff h] at h1
    cases h1

/-- the least solution is not empty: a function whose return expression contains a true division is
    derivably float-returning (so the rules do fire on the generated facts) -/
example : ∃ f, Derivable taintFns (.ret f) := by
  have h : ∃ fn ∈ taintFns, ∃ r ∈ fn.returns, r.2.1 = true := by decide +kernel
  obtain ⟨fn, hfn, r, hr, hn⟩ := h
  exact ⟨fn.name, Derivable.retNode hfn hr hn⟩

/-- and the soundness skeleton rejects a tainted sink: toy facts, one function `x = 1 / 2; m.time = x` -/
example :
    let fn : TaintFn := { qual := "toy", name := 0, assigns := [(1, ([], true, []))],
                          sinks := [("m.time = x", ([1], false, []))], returns := [], cert := [1] }
    MaybeFloat [fn] fn ([1], false, []) :=
  Or.inr (Or.inl ⟨1, by simp, Derivable.assignNode (a := (1, ([], true, []))) (by simp) (by simp) rfl⟩)

end SCoda.C11d
