/-
  Audit round 4, item C7 (non-vacuity), part 2: `C09n.sound_exact_boundary'` on an input WITH signatures.
-/
import SCoda.Props.C09n
import SCoda.Props.Strong589B
namespace SCoda.Examples4b
open SCoda SCoda.SplitL SCoda.SB SCoda.BarL SCoda.Strong589 SCoda.Strong589L SCoda.Strong589LT SCoda.Strong589LB SCoda.C09n


/-- a meta track WITH signatures: 3/4 at tick 0, 2/4 at tick 144, 4/4 at tick 192 (all on bar starts of the grid they induce:
    0, 72, 144, 192, 288), a key change at tick 72, a zero-length note AT TICK 0 (allowed by `NoZeroOnGrid'`, excluded by the old
    `NoZeroOnGrid`), a note over [0,96) crossing the bar line 72, and a zero-length note at tick 106 (inside bar 1, off the grid) -/
def metaZ : List Msg :=
  [Msg.mkTimeSig 0 3 4 pyNone, Msg.mkOn 0 67 64 pyNone, Msg.mkOff 0 67 pyNone, Msg.mkOn 0 60 64 pyNone, Msg.mkWait 0 72, ksMsg 1,
   Msg.mkWait 0 24, Msg.mkOff 0 60 pyNone, Msg.mkWait 0 10, Msg.mkOn 0 62 64 pyNone, Msg.mkOff 0 62 pyNone, Msg.mkWait 0 38,
   Msg.mkTimeSig 0 2 4 pyNone, Msg.mkWait 0 48, Msg.mkTimeSig 0 4 4 pyNone]
/-- a side track: a note over [80,150) crossing the bar line 144, where the signature changes -/
def sideZ : List Msg := [Msg.mkWait 0 80, Msg.mkOn 1 48 64 pyNone, Msg.mkWait 0 70, Msg.mkOff 1 48 pyNone, Msg.mkWait 0 100]

example : (sigsOf metaZ).map (fun m => (m.time, m.num, m.den)) = [(0, 3, 4), (144, 2, 4), (192, 4, 4)]
    ∧ (List.range 5).map (gridStart 24 (sigsOf metaZ)) = [0, 72, 144, 192, 288] := by decide +kernel

theorem metaZ_pos : PosBars 24 (sigsOf metaZ) := by decide +kernel
theorem metaZ_distinct : DistinctTicks (sigsOf metaZ) := by decide +kernel
theorem metaZ_aligned : ∀ m ∈ sigsOf metaZ, OnGrid 24 (sigsOf metaZ) m.time :=
  (alignedIn_of_B 24 (sigsOf metaZ) [] (by decide +kernel)).1
theorem metaZ_wf : WF metaZ := wf_of_keys _ (by decide)
theorem sideZ_wf : WF sideZ := wf_of_keys _ (by decide)
theorem metaZ_waits : NonNegWaits metaZ := by unfold NonNegWaits; decide
theorem sideZ_waits : NonNegWaits sideZ := by unfold NonNegWaits; decide
theorem metaZ_nozero : NoZeroOnGrid' 24 (sigsOf metaZ) metaZ := noZeroOnGrid'_of_B _ _ _ metaZ_pos (by decide +kernel)
theorem sideZ_nozero : NoZeroOnGrid' 24 (sigsOf metaZ) sideZ := noZeroOnGrid'_of_B _ _ _ metaZ_pos (by decide +kernel)

/-- the hypothesis `hz` is exercised: the track has two zero-length notes, one on the bar start 0 -/
example : (notesOf (eventsRel metaZ)).filter (fun n => n.on == n.off) = [⟨0, 67, 0, 0, 64⟩, ⟨0, 62, 106, 106, 64⟩]
    ∧ ¬ NoZeroOnGrid 24 (sigsOf metaZ) metaZ := by
  refine ⟨by decide +kernel, fun h => ?_⟩
  exact h ⟨0, 67, 0, 0, 64⟩ (by decide +kernel) rfl ⟨0, rfl⟩

theorem splitZ_ok : isOk (splitBars 24 vals [metaZ, sideZ] 0 false) = true ∧ (outOf (splitBars 24 vals [metaZ, sideZ] 0 false)).length = 2 := by
  decide +kernel

/-- **all nine hypotheses of `C09n.sound_exact_boundary'` together, `sigsOf ≠ []`**: the split succeeds, and for the meta track and
    for the side track the bars laid end to end sound exactly what the track sounds -/
theorem ex_sound_exact_boundary' : sigsOf metaZ ≠ [] ∧
    ∃ tb b0 b1, splitBars 24 vals [metaZ, sideZ] 0 false = .ok tb ∧ tb[0]? = some b0 ∧ tb[1]? = some b1 ∧
      (∀ k tick, SoundingAt (eventsRel (barsToSeq b0)) k tick ↔ SoundingAt (eventsRel metaZ) k tick) ∧
      (∀ k tick, SoundingAt (eventsRel (barsToSeq b1)) k tick ↔ SoundingAt (eventsRel sideZ) k tick) := by
  refine ⟨by decide +kernel, ?_⟩
  obtain ⟨h1, h2⟩ := splitZ_ok
  cases h : splitBars 24 vals [metaZ, sideZ] 0 false with
  | error x => rw [h] at h1; cases h1
  | ok tb =>
    rw [h] at h2
    simp only [outOf] at h2
    match tb, h2, h with
    | [b0, b1], _, h =>
      refine ⟨_, b0, b1, rfl, rfl, rfl, ?_, ?_⟩
      · exact fun k tick => sound_exact_boundary' 24 vals [metaZ, sideZ] 0 _ h metaZ rfl metaZ_pos metaZ_distinct metaZ_aligned
          0 metaZ b0 rfl rfl metaZ_waits metaZ_wf metaZ_nozero k tick
      · exact fun k tick => sound_exact_boundary' 24 vals [metaZ, sideZ] 0 _ h metaZ rfl metaZ_pos metaZ_distinct metaZ_aligned
          1 sideZ b1 rfl rfl sideZ_waits sideZ_wf sideZ_nozero k tick

/-- the conclusion evaluated: bars of 3/4, 3/4, 2/4, 4/4; the notes of the bars laid end to end are the track's notes cut at the
    bar lines 72 (meta track) and 144 (side track); both zero-length notes survive -/
example : (outOf (splitBars 24 vals [metaZ, sideZ] 0 false)).map (fun bs => (bs.map (fun b => (b.num, b.den)), notesOf (eventsRel (barsToSeq bs))))
    = [([(3, 4), (3, 4), (2, 4), (4, 4)], [⟨0, 67, 0, 0, 64⟩, ⟨0, 60, 0, 72, 64⟩, ⟨0, 60, 72, 96, 64⟩, ⟨0, 62, 106, 106, 64⟩]),
       ([(3, 4), (3, 4), (2, 4), (4, 4)], [⟨1, 48, 80, 144, 64⟩, ⟨1, 48, 144, 150, 64⟩])] := by decide +kernel

end SCoda.Examples4b


