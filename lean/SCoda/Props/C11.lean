/-
  C11 — tick values stay integers through every operation.

  Layer 1 (typing): every model function has type `… → List Msg` with `time : Int`; the
  correspondence check prints Python times *with their type*, so agreement with the model on an
  input is the statement that the implementation produced an int there.  Not a theorem of this file.

  Layer 2: `Props/C11c.lean` — the float-taint typing over facts regenerated from /repo on every run:
  no float-producing expression reaches a tick, an attribute store, or an argument of a library function.
  (`Gen.floatSites` still lists every float-introducing expression site with its nearest enclosing
  `int(…)`/`round(…)`, for the evidence file.  An earlier version of this file pinned the 15 unguarded sites by their
  source text (`sites_guarded`); that was subsumed by the typing, which follows the value instead of the
  spelling, and was dropped because it broke on any harmless rename inside such an expression.)

  Layer 3: the `PyNum` model of the guarding expressions: each is int-typed for all integer arguments
  and equals the floor-division formula the Lean models use.
-/
import SCoda.Gen.Settings
import SCoda.Model.PyNum
import SCoda.Model.Bar
import SCoda.Model.Token
namespace SCoda.C11
open SCoda

/-- the evaluated default step sizes, note values and velocity bins are all int-typed in Python -/
theorem defaults_int_typed :
    Gen.defaultStepSizesAllIntTyped = true ∧ Gen.defaultStepSizesShift1AllIntTyped = true
    ∧ Gen.defaultNoteValuesAllIntTyped = true ∧ Gen.velocityBinsAllIntTyped = true := by decide

end SCoda.C11
