/-
  C11 — tick values stay integers through every operation.

  Layer 1 (typing): every model function has type `… → List Msg` with `time : Int`; the
  correspondence check prints Python times *with their type*, so agreement with the model on an
  input is the statement that the implementation produced an int there.  Not a theorem of this file.

  Layer 2 (this file): the set of float-introducing expression sites of the modelled source files is
  regenerated from /repo on every run (`Gen.floatSites`, with the nearest enclosing `int(…)`/`round(…)`
  of each site).  `sites_guarded` is kernel-checked over the whole generated list: every site is
  either inside an `int(…)`/`round(…)` call, or is one of the sites listed (and argued) in
  `unguardedKnown`.  A new `/` that feeds a tick, or a removed `int(`, changes the generated list and
  breaks the theorem.

  Layer 3: the `PyNum` model of the guarding expressions: each is int-typed for all integer arguments
  and equals the floor-division formula the Lean models use.
-/
import SCoda.Gen.FloatSites
import SCoda.Gen.Settings
import SCoda.Model.PyNum
import SCoda.Model.Bar
import SCoda.Model.Token
namespace SCoda.C11
open SCoda

/-- float-introducing sites that are *not* syntactically inside `int(…)`/`round(…)`, each with the
    reason it cannot put a float into a tick: (file, function, source text, reason) -/
def unguardedKnown : List (String × String × String × String) := [
  ("scoda/midi/midi_file.py", "convert", "PPQN / self.PPQN",
   "scaling factor; flows only into current_point_in_time, which is read only through round(current_point_in_time)"),
  ("scoda/misc/util.py", "bin_velocity", "np.digitize(velocity, bins, right=True)",
   "bin index, converted with .item(-1) to a Python int; a velocity, not a tick"),
  ("scoda/misc/util.py", "find_minimal_distance", "math.inf",
   "initial distance, only compared against; the function returns an index"),
  ("scoda/misc/util.py", "get_default_step_sizes", "2 ** lower_bound_shift", "int ** non-negative int is an int"),
  ("scoda/misc/util.py", "get_default_step_sizes", "2 ** upper_bound_shift", "int ** non-negative int is an int"),
  ("scoda/misc/util.py", "get_dotted_note_durations", "2 ** (dotted_note_iteration + 1)", "int ** positive int is an int"),
  ("scoda/misc/util.py", "get_dotted_note_durations", "1 / 2 ** (dotted_note_iteration + 1)",
   "candidate_duration is a float; it is appended only as int(candidate_duration) after .is_integer()"),
  ("scoda/misc/util.py", "get_note_durations", "i /= 2",
   "loop multiplier; durations are appended only as int(i * base_value)"),
  ("scoda/sequences/absolute_sequence.py", "get_interleaved_message_pairings", "float('inf')",
   "sentinel next-time of an exhausted channel; only compared with min(), never stored"),
  ("scoda/sequences/relative_sequence.py", "get_sequence_duration_relation", "duration / PPQN",
   "returns the duration in quarter notes (documented float); not written to any message (Bar no longer uses it for ticks: D9)"),
  ("scoda/sequences/relative_sequence.py", "scale", "1.0", "validation of the factor: (factor * 1.0).is_integer()"),
  ("scoda/sequences/relative_sequence.py", "scale", "1 / factor",
   "validation, and the factor < 1 branch, which is outside the property (integer arguments)"),
  ("scoda/tokenisation/notelike_tokenisation.py", "get_info", "math.nan", "placeholder annotation for non-note tokens; not a tick"),
  ("scoda/tokenisation/notelike_tokenisation.py", "tokenise", "float(scaled)", "integrality test float(scaled).is_integer()"),
  ("scoda/tokenisation/notelike_tokenisation.py", "tokenise", "DEFAULT_TIME_SIGNATURE_DENOMINATOR / msg_denominator",
   "scaled numerator; used only after the integrality test and as int(scaled)")
]

def siteKey (s : String × String × String × String × String × Nat) : String × String × String := (s.1, s.2.1, s.2.2.2.1)
def siteGuard (s : String × String × String × String × String × Nat) : String := s.2.2.2.2.1

def siteOk (s : String × String × String × String × String × Nat) : Bool :=
  siteGuard s != "none" || (unguardedKnown.map (fun k => (k.1, k.2.1, k.2.2.1))).contains (siteKey s)

/-- every float-introducing site of the current source is guarded by `int`/`round` or is a known, argued site -/
theorem sites_guarded : Gen.floatSites.all siteOk = true := by decide

/-- and the known list has no stale entry: each of its sites still exists in the source -/
theorem known_sites_exist :
    unguardedKnown.all (fun k => (Gen.floatSites.map siteKey).contains (k.1, k.2.1, k.2.2.1)) = true := by decide

/-- the evaluated default step sizes, note values and velocity bins are all int-typed in Python -/
theorem defaults_int_typed :
    Gen.defaultStepSizesAllIntTyped = true ∧ Gen.defaultStepSizesShift1AllIntTyped = true
    ∧ Gen.defaultNoteValuesAllIntTyped = true ∧ Gen.velocityBinsAllIntTyped = true := by decide

end SCoda.C11
