/-
  Glue in front of the tokeniser core: `extract` (set_channel per track, merge, normalise,
  time-interleaved pairing) hands the core events that satisfy the hypotheses the core theorems
  (C01 `EvsOk`, C02 `ChannelsOk`) assume.
-/
import SCoda.Model.Extract
import SCoda.Model.Roll
import SCoda.Lemmas.GlueAux
import SCoda.Lemmas.GluePair
namespace SCoda.Glue
open SCoda SCoda.GlueAux SCoda.GluePair

/-- the head message of every event is a message of the final absolute list -/
theorem extract_head_mem (ppqn : Int) (tracks : List (List Msg)) :
    ∀ ev ∈ extract ppqn tracks, ∀ m ∈ ev.2.head?, m ∈ final tracks := by
  intro ev hev m hm
  rw [extract_eq] at hev
  obtain ⟨q, hq, heq⟩ := interleaved_mem _ _ _ ev hev
  obtain ⟨x, hx, hxs⟩ := hq.head
  rw [heq, closeUnclosed_head, hx] at hm
  simp at hm; subst hm
  exact (mem_sortAbs _ _).1 hxs

/-- every event's head message sits on the channel of one of the tracks -/
theorem extract_channels (ppqn : Int) (tracks : List (List Msg)) :
    ∀ ev ∈ extract ppqn tracks, ∀ m ∈ ev.2.head?, 0 ≤ m.ch ∧ m.ch < (tracks.length : Int) := by
  intro ev hev m hm
  obtain ⟨i, hi, hch, _⟩ := final_src tracks m (extract_head_mem ppqn tracks ev hev m hm)
  rw [hch]
  omega

/-- events come out ordered by the onset of their head message -/
theorem extract_ordered (ppqn : Int) (tracks : List (List Msg)) (h : ∀ t ∈ tracks, OkRel t) :
    List.Pairwise (fun a b => ∀ x ∈ a.2.head?, ∀ y ∈ b.2.head?, x.time ≤ y.time) (extract ppqn tracks) := by
  have _ := h  -- not needed: the pairing code sorts its input itself
  rw [extract_eq]
  exact interleaved_sorted _ _ _

/-- no event lies before tick 0 -/
theorem extract_nonneg (ppqn : Int) (tracks : List (List Msg)) (h : ∀ t ∈ tracks, OkRel t) :
    ∀ ev ∈ extract ppqn tracks, ∀ m ∈ ev.2.head?, 0 ≤ m.time := by
  have _ := h  -- not needed: `normalise` only emits positive waits
  intro ev hev m hm
  exact final_nonneg tracks m (extract_head_mem ppqn tracks ev hev m hm)

/-- a time-signature event handed to the core is one of the input's time-signature messages (same
    numerator and denominator) -/
theorem extract_timesig (ppqn : Int) (tracks : List (List Msg)) :
    ∀ ev ∈ extract ppqn tracks, ∀ m ∈ ev.2.head?, m.ty = .timeSignature →
      ∃ t ∈ tracks, ∃ m0 ∈ t, m0.ty = .timeSignature ∧ m0.num = m.num ∧ m0.den = m.den := by
  intro ev hev m hm hty
  obtain ⟨_, _, _, t, ht, m0, hm0, hts⟩ :=
    final_src tracks m (extract_head_mem ppqn tracks ev hev m hm)
  exact ⟨t, ht, m0, hm0, hts hty⟩

/-- every event is a non-empty pairing whose head is a note-on (followed by its note-off, on the same
    channel and pitch, not earlier than the note-on), a time signature, or an INTERNAL message -/
theorem extract_shape (ppqn : Int) (hp : 0 ≤ ppqn) (tracks : List (List Msg)) (h : ∀ t ∈ tracks, OkRel t) :
    ∀ ev ∈ extract ppqn tracks,
      (∃ on off, ev.2 = [on, off] ∧ on.ty = .noteOn ∧ off.ty = .noteOff ∧ off.nkey = on.nkey ∧ on.time ≤ off.time)
      ∨ (∃ m, ev.2 = [m] ∧ (m.ty = .timeSignature ∨ m.ty = .internal)) := by
  have _ := h  -- not needed: the pairing code sorts its input itself
  intro ev hev
  rw [extract_eq] at hev
  obtain ⟨q, hq, heq⟩ := interleaved_mem _ _ _ ev hev
  rcases closeUnclosed_good ppqn hp hq with ⟨m, h1, _, h3, h4, h5⟩ | ⟨on, off, h1, _, h3⟩
  · right
    refine ⟨m, by rw [heq, h1], ?_⟩
    simp only [extractTypes, List.mem_cons, List.not_mem_nil, or_false] at h3
    rcases h3 with h3 | h3 | h3 | h3
    · exact absurd h3 h5
    · exact absurd h3 h4
    · exact Or.inl h3
    · exact Or.inr h3
  · left
    exact ⟨on, off, by rw [heq, h1], h3⟩

/-! non-vacuity -/
example : (extract 24 [[Msg.mkOn 0 60 64 pyNone, Msg.mkWait 0 24, Msg.mkOff 0 60 pyNone],
                        [Msg.mkWait 5 12, Msg.mkOn 5 48 30 pyNone, Msg.mkWait 5 24, Msg.mkOff 5 48 pyNone]]).length = 2 := by
  decide

end SCoda.Glue
