/-
  C12 / C13 — end to end.
  * load: the sounding set of loaded sequence `gi` is the union, over the tracks of group `gi`, of the
    sounding sets of their note events placed at the rounded exact positions (C13);
  * save ∘ load at the library's own resolution gives back the same sounding set per sequence (C12).
  Hypotheses: every track index is listed at most once in the groups; delta times are non-negative;
  per track the rounded note events are well-formed with notes of positive length (outside the known
  finding D17: a note collapsing to zero length).
-/
import SCoda.Props.C13
import SCoda.Props.C15
import SCoda.Props.C07
import SCoda.Props.C04
import SCoda.Lemmas.MidiE2E
namespace SCoda.C13
open SCoda

/-- the internal note / program-change messages made from a grouped track, in event order, at the
    rounded exact position of the running file tick (`ticks` = file tick before the first event) -/
def trackMsgs (ppqn filePpq : Int) : Int → List MidiEv → List Msg
  | _, [] => []
  | ticks, e :: es =>
    let t := ticks + e.time
    match convEvent true e (roundHalfEven (exactPos ppqn filePpq t)) with
    | some (false, m) => m :: trackMsgs ppqn filePpq t es
    | _ => trackMsgs ppqn filePpq t es

/-- the signature / control messages a considered track sends to the meta sequence -/
def metaMsgs (ppqn filePpq : Int) (inGroup : Bool) : Int → List MidiEv → List Msg
  | _, [] => []
  | ticks, e :: es =>
    let t := ticks + e.time
    match convEvent inGroup e (roundHalfEven (exactPos ppqn filePpq t)) with
    | some (true, m) => m :: metaMsgs ppqn filePpq inGroup t es
    | _ => metaMsgs ppqn filePpq inGroup t es

theorem trackMsgs_eq (ppqn filePpq : Int) (ticks : Int) (evs : List MidiEv) :
    trackMsgs ppqn filePpq ticks evs = E2E.curMsgs ppqn filePpq ticks evs := by
  induction evs generalizing ticks with
  | nil => rfl
  | cons e es ih =>
    simp only [trackMsgs, E2E.curMsgs, ih]
    split <;> simp_all

theorem metaMsgs_eq (ppqn filePpq : Int) (b : Bool) (ticks : Int) (evs : List MidiEv) :
    metaMsgs ppqn filePpq b ticks evs = E2E.metMsgs ppqn filePpq b ticks evs := by
  induction evs generalizing ticks with
  | nil => rfl
  | cons e es ih =>
    simp only [metaMsgs, E2E.metMsgs, ih]
    split <;> simp_all

/-- with non-negative deltas the messages of a track arrive in time order, so `add_absolute_message`
    (binary insort) simply appends: the track's sequence holds `trackMsgs` -/
theorem trackMsgs_sorted (ppqn filePpq : Int) (hp : 0 < ppqn) (hf : 0 < filePpq) (ticks : Int) (ht : 0 ≤ ticks)
    (evs : List MidiEv) (hd : ∀ e ∈ evs, 0 ≤ e.time) :
    OkAbs (trackMsgs ppqn filePpq ticks evs) ∧ (trackMsgs ppqn filePpq ticks evs).foldl insort [] = trackMsgs ppqn filePpq ticks evs := by
  rw [trackMsgs_eq]
  exact E2E.curMsgs_okAbs ppqn filePpq hp hf ticks ht evs hd

/-- a track is good when its rounded note events are well-formed with notes of positive length -/
def GoodTrack (ppqn filePpq : Int) (evs : List MidiEv) : Prop :=
  WF (trackMsgs ppqn filePpq 0 evs) ∧ C15.PosDur (trackMsgs ppqn filePpq 0 evs)

/-- **routing / union (C13)**: for a valid load, the sounding set of loaded sequence `gi` is the union of
    the sounding sets of the tracks of group `gi` at their rounded positions -/
theorem load_sounding (ppqn filePpq : Int) (hp : 0 < ppqn) (hf : 0 < filePpq)
    (tracks : List (List MidiEv)) (groups : List (List Nat)) (metaIdx : List Nat) (target : Int) (out : List Seq)
    (h : convert ppqn filePpq tracks groups metaIdx target = .ok out)
    (hnd : groups.flatten.Nodup) (hidx : ∀ i ∈ groups.flatten, i < tracks.length)
    (hd : ∀ evs ∈ tracks, ∀ e ∈ evs, 0 ≤ e.time)
    (hgood : ∀ i ∈ groups.flatten, ∀ evs, tracks[i]? = some evs → GoodTrack ppqn filePpq evs)
    (gi : Nat) (g : List Nat) (hg : groups[gi]? = some g) (s s' : Seq) (a : List Msg)
    (hs : out[gi]? = some s) (ha : s.readAbs = .ok (s', a)) (k : Int × Int) (t : Int) :
    SoundingAt (eventsAbs a) k t ↔
      ∃ i ∈ g, ∃ evs, tracks[i]? = some evs ∧ SoundingAt (trackMsgs ppqn filePpq 0 evs) k t := by
  have hslot : ∀ i ∈ groups.flatten, ∃ evs, tracks[i]? = some evs ∧
      E2E.slotA ppqn filePpq tracks i = trackMsgs ppqn filePpq 0 evs ∧ E2E.GA (trackMsgs ppqn filePpq 0 evs) := by
    intro i hi
    have hlt := hidx i hi
    refine ⟨tracks[i], List.getElem?_eq_getElem hlt, ?_, ?_, ?_⟩
    · simp [E2E.slotA, hlt, trackMsgs_eq]
    · exact (trackMsgs_sorted ppqn filePpq hp hf 0 (Int.le_refl _) _ (hd _ (List.getElem_mem hlt))).1
    · obtain ⟨hwf, hpos⟩ := hgood i hi tracks[i] (List.getElem?_eq_getElem hlt)
      exact fun k => E2E.cg_of_wf _ hwf hpos k
  rw [E2E.load_core ppqn filePpq hp hf tracks groups metaIdx target out h hnd hd
    (fun i hi => by obtain ⟨evs, _, e, hga⟩ := hslot i hi; rw [e]; exact hga) gi g hg s s' a hs ha k t]
  have hmem : ∀ i ∈ g, i ∈ groups.flatten := fun i hi => List.mem_flatten.2 ⟨g, List.mem_of_getElem? hg, hi⟩
  constructor
  · rintro ⟨i, hi, hcs⟩
    obtain ⟨evs, hev, e, hga⟩ := hslot i (hmem i hi)
    rw [e] at hcs
    exact ⟨i, hi, evs, hev, (E2E.sounding_cs k t _ (E2E.ga_sorted hga) (hga.2 k)).2 hcs⟩
  · rintro ⟨i, hi, evs, hev, hsnd⟩
    obtain ⟨evs', hev', e, hga⟩ := hslot i (hmem i hi)
    rw [hev] at hev'; cases hev'
    exact ⟨i, hi, by rw [e]; exact (E2E.sounding_cs k t _ (E2E.ga_sorted hga) (hga.2 k)).1 hsnd⟩

/-- **meta (C13)**: every time / key signature of a considered track is on the designated meta sequence
    (as an event of its absolute view) at its rounded position, unless it repeats the one in force -/
theorem load_signatures (ppqn filePpq : Int) (hp : 0 < ppqn) (hf : 0 < filePpq)
    (tracks : List (List MidiEv)) (groups : List (List Nat)) (metaIdx : List Nat) (target : Int) (out : List Seq)
    (h : convert ppqn filePpq tracks groups metaIdx target = .ok out)
    (hd : ∀ evs ∈ tracks, ∀ e ∈ evs, 0 ≤ e.time)
    (s s' : Seq) (a : List Msg) (hs : out[target.toNat]? = some s) (ha : s.readAbs = .ok (s', a)) :
    ∀ m ∈ a, (m.ty = .timeSignature ∨ m.ty = .keySignature) →
      (m = Msg.mkTimeSig 0 4 4 0 ∨ (∃ c, m = Msg.mkTimeSig c 4 4 0))
      ∨ ∃ i evs, tracks[i]? = some evs ∧ (groups.flatten.contains i ∨ metaIdx.contains i)
          ∧ m ∈ metaMsgs ppqn filePpq (groups.flatten.contains i) 0 evs := by
  intro m hm hsig
  rcases E2E.sig_core ppqn filePpq hp hf tracks groups metaIdx target out h hd s s' a hs ha m hm hsig with hc | ⟨i, evs, h1, h2, h3⟩
  · exact Or.inl (Or.inr hc)
  · exact Or.inr ⟨i, evs, h1, h2, by rw [metaMsgs_eq]; exact h3⟩

/-- sequences other than the meta target carry no signature at all -/
theorem signatures_only_on_target (ppqn filePpq : Int) (tracks : List (List MidiEv)) (groups : List (List Nat))
    (metaIdx : List Nat) (target : Int) (out : List Seq)
    (h : convert ppqn filePpq tracks groups metaIdx target = .ok out)
    (gi : Nat) (hne : (gi : Int) ≠ target) (s s' : Seq) (a : List Msg)
    (hs : out[gi]? = some s) (ha : s.readAbs = .ok (s', a)) :
    ∀ m ∈ a, m.ty ≠ .timeSignature ∧ m.ty ≠ .keySignature :=
  E2E.sig_only_core ppqn filePpq tracks groups metaIdx target out h gi hne s s' a hs ha

/-! ## C12: save then load -/

/-- what `Sequence.sequences_save` then `sequences_load` computes (codec assumed faithful): every saved
    relative view becomes a MIDI track, loaded with one group per track, every track a meta track -/
def saveLoad (ppqn : Int) (rels : List (List Msg)) : Except Err (List Seq) :=
  convert ppqn ppqn (rels.map toMido) ((List.range rels.length).map (fun i => [i])) (List.range rels.length) 0

/-- a saved sequence: legal relative view on one channel, non-wait messages carry no time, well-formed,
    notes of positive length, velocities given -/
structure Saved (r : List Msg) : Prop where
  ok : OkRel r
  noTime : ∀ m ∈ r, m.ty ≠ .wait → m.time = pyNone
  wf : WF r
  pos : C15.PosDur (eventsRel r)
  vel : ∀ m ∈ r, m.ty = .noteOn → m.vel ≠ pyNone ∧ 0 < m.vel
  oneCh : ∃ c, ∀ m ∈ r, (m.ty = .noteOn ∨ m.ty = .noteOff) → m.ch = c

/-- **C12**: one sequence per saved sequence, and sequence `i` sounds exactly what saved sequence `i`
    sounded (pitch and tick; the channel is not stored in the file: everything comes back on channel 0) -/
theorem save_load_sounding (ppqn : Int) (hp : 0 < ppqn) (rels : List (List Msg)) (hs : ∀ r ∈ rels, Saved r)
    (hne : rels ≠ []) :
    ∃ out, saveLoad ppqn rels = .ok out ∧ out.length = rels.length ∧
      ∀ (i : Nat) (r : List Msg) (s s' : Seq) (a : List Msg), rels[i]? = some r → out[i]? = some s → s.readAbs = Except.ok (s', a) →
        ∀ p t, SoundingAt (eventsAbs a) (0, p) t ↔ ∃ c, SoundingAt (eventsRel r) (c, p) t := by
  unfold saveLoad
  exact E2E.save_load_core ppqn hp rels hne
    (fun r hr => ⟨(hs r hr).ok, (hs r hr).noTime, (hs r hr).wf, (hs r hr).pos, (hs r hr).oneCh⟩)

/-! non-vacuity -/
def exTrack : List MidiEv := [{ (Msg.mkOn 0 60 64 0) with time := 10 }, { (Msg.mkOff 0 60 0) with time := 470, vel := 0 }]
theorem exTrack_msgs : trackMsgs 24 480 0 exTrack = [Msg.mkOn 0 60 64 0, Msg.mkOff 0 60 24] := by
  decide +kernel
example : trackMsgs 24 480 0 exTrack = [Msg.mkOn 0 60 64 0, Msg.mkOff 0 60 24] := exTrack_msgs
example : GoodTrack 24 480 exTrack := by
  unfold GoodTrack
  rw [exTrack_msgs]
  refine ⟨?_, by unfold C15.PosDur; decide⟩
  intro k
  simp only [altFrom, Msg.mkOn, Msg.mkOff, Msg.nkey]
  by_cases hk : ((0 : Int), (60 : Int)) = k <;> simp [hk]

end SCoda.C13
