/-
  C13 / C12 — closing audit items A7 (C13) and A8 (C12).
  * meta routing COMPLETENESS: at every tick the time / key signature in force on the loaded meta
    sequence is the one in force among the signature events of the considered tracks (4/4 by default),
    for arbitrary resolution, grouping (overlapping groups included), meta-track selection and target;
  * routing for arbitrary groupings: a track goes to its FIRST group only (known finding D20); the
    property's union statement is kept as `routing_union_statement`, refuted, and proved under `Nodup`;
  * `GoodTrack = WF ∧ PosDur` replaced by the counting predicate `NotesClosed` (overlapping same-key notes
    allowed); for files with unclosed / orphan notes the loader's answer is stated on the normalised track;
  * every outcome of `convert`: empty group ↦ IndexError, else bad target ↦ ValueError, else success;
  * C12: notes-level round trip (`notesOf` permutation) and signatures in force without any
    tick-distinctness hypothesis; the 15-key table round trip and the parser are in the second half.
-/
import SCoda.Props.C12b
import SCoda.Lemmas.MidiL2
import SCoda.Model.MidiParse
namespace SCoda.C13b
open SCoda SCoda.C13 SCoda.MergeL SCoda.E2E SCoda.MidiL

/-! ## independent specifications -/

/-- the time / key signature events of one track, each stamped with the rounded exact position of its
    running file tick (`ticks` = file tick before the first event); all other fields are the event's own -/
def sigEvents (ppqn filePpq : Int) : Int → List MidiEv → List Msg
  | _, [] => []
  | ticks, e :: es =>
    let t := ticks + e.time
    if e.ty = .timeSignature ∨ e.ty = .keySignature then
      { e with time := roundHalfEven (exactPos ppqn filePpq t) } :: sigEvents ppqn filePpq t es
    else sigEvents ppqn filePpq t es

/-- a track is considered when it is listed in some group or as a meta track (midi_file.py:63) -/
def considered (groups : List (List Nat)) (metaIdx : List Nat) (i : Nat) : Bool :=
  groups.any (·.contains i) || metaIdx.contains i

/-- the signature events of the file the loader has to honour: considered tracks in file order, each
    track's events in track order.  `latest` takes the greatest tick and, on equal ticks, the later
    event of this list — the tick-ordered (stable) union of the tracks' signature events. -/
def fileSigs (ppqn filePpq : Int) (tracks : List (List MidiEv)) (groups : List (List Nat)) (metaIdx : List Nat) :
    List Msg :=
  (tracks.zipIdx.filter (fun p => considered groups metaIdx p.2)).flatMap (fun p => sigEvents ppqn filePpq 0 p.1)

/-- what a time signature says / what a key signature says -/
def tsVal (m : Msg) : Int × Int := (m.num, m.den)
def keyVal (m : Msg) : Int := m.key

/-- what `parse_mido_message` guarantees of time-signature events (`MidiParse.parse_domain`): a meta message
    has no channel, and numerator / denominator are present (`None` is the model's out-of-band `-1`) -/
def TsDomain (evs : List MidiEv) : Prop :=
  ∀ e ∈ evs, e.ty = .timeSignature → e.ch = pyNone ∧ (e.num, e.den) ≠ (pyNone, pyNone)

/-- what `parse_mido_message` guarantees of key-signature events: no channel, key present -/
def KsDomain (evs : List MidiEv) : Prop :=
  ∀ e ∈ evs, e.ty = .keySignature → e.ch = pyNone ∧ e.key ≠ pyNone

/-- group `gi` is the first group that lists track `i` -/
def FirstGroup (groups : List (List Nat)) (i gi : Nat) : Prop :=
  (∃ g, groups[gi]? = some g ∧ i ∈ g) ∧ ∀ j g', j < gi → groups[j]? = some g' → i ∉ g'

/-- the weakest condition on a track's note events the union theorem needs: per key, up to every tick there
    are at most as many note-offs as there are note-ons strictly before that tick (no orphan note-off, no
    note of length zero), and in total as many note-offs as note-ons (no unclosed note).  Overlapping /
    nested notes of one key are allowed; the predicate is invariant under permutation. -/
def NotesClosed (E : List Msg) : Prop :=
  ∀ k : Int × Int, (∀ s : Int, offs k (upTo s E) ≤ ons k (before s E)) ∧ ons k E = offs k E

/-- per-track `normalise()` followed by reading `abs` (midi_file.py:130-131) -/
def normTrack (x : List Msg) : List Msg := toAbs (normalise (toRel x))

/-! ### the specifications agree with the lemma-side definitions -/

theorem sigEvents_eq (ppqn filePpq : Int) (evs : List MidiEv) : ∀ ticks,
    sigEvents ppqn filePpq ticks evs = L2.sigEvs ppqn filePpq ticks evs := by
  induction evs with
  | nil => intro ticks; rfl
  | cons e es ih => intro ticks; simp only [sigEvents, L2.sigEvs, ih]

theorem considered_eq (groups : List (List Nat)) (metaIdx : List Nat) (i : Nat) :
    considered groups metaIdx i = L2.consid groups metaIdx i := by
  unfold considered L2.consid
  rw [firstGroupOf_isSome]
  congr 1
  rw [Bool.eq_iff_iff]
  simp [List.mem_flatten]

theorem fileSigs_eq (ppqn filePpq : Int) (tracks : List (List MidiEv)) (groups : List (List Nat)) (metaIdx : List Nat) :
    fileSigs ppqn filePpq tracks groups metaIdx = L2.fileSigsL ppqn filePpq groups metaIdx tracks.zipIdx := by
  unfold fileSigs L2.fileSigsL
  have hfun : (fun p : List MidiEv × Nat => sigEvents ppqn filePpq 0 p.1)
      = (fun p => L2.sigEvs ppqn filePpq 0 p.1) := by
    funext p; exact sigEvents_eq ppqn filePpq p.1 0
  rw [hfun]
  generalize tracks.zipIdx = tz
  induction tz with
  | nil => rfl
  | cons p ps ih =>
    simp only [List.filter_cons, List.flatMap_cons, ← considered_eq] at ih ⊢
    split
    · simp only [List.flatMap_cons, ih]
    · simp only [ih, List.nil_append]

theorem firstGroup_iff (groups : List (List Nat)) (i gi : Nat) :
    (∃ pos, firstGroupOf groups i = some (gi, pos)) ↔ FirstGroup groups i gi := by
  constructor
  · rintro ⟨pos, h⟩
    obtain ⟨g, h1, h2, _, h4⟩ := (L2.firstGroupOf_iff groups i gi pos).1 h
    exact ⟨⟨g, h1, h2⟩, h4⟩
  · rintro ⟨⟨g, h1, h2⟩, h4⟩
    exact ⟨g.idxOf i, (L2.firstGroupOf_iff groups i gi _).2 ⟨g, h1, h2, rfl, h4⟩⟩

theorem fileSigs_nonneg (ppqn filePpq : Int) (hp : 0 < ppqn) (hf : 0 < filePpq) (tracks : List (List MidiEv))
    (groups : List (List Nat)) (metaIdx : List Nat) (hd : ∀ evs ∈ tracks, ∀ e ∈ evs, 0 ≤ e.time) :
    ∀ m ∈ fileSigs ppqn filePpq tracks groups metaIdx, 0 ≤ m.time := by
  rw [fileSigs_eq]
  exact fun m hm => (L2.fileSigsL_src ppqn filePpq hp hf tracks groups metaIdx hd m hm).1

/-! ## A7 (a): completeness of the meta routing, as the signature in force -/

/-- **time signature in force** (closes A7a; C13 "all time signatures of the considered tracks on the
    designated meta sequence", C12 clause 3): for ANY resolution, grouping, meta-track selection and valid
    target, at every tick `t ≥ 0` the time signature in force on the loaded meta sequence is the one in force
    in the tick-ordered union of the considered tracks' time-signature events, 4/4 when there is none yet. -/
theorem load_time_signature_in_force (ppqn filePpq : Int) (hp : 0 < ppqn) (hf : 0 < filePpq)
    (tracks : List (List MidiEv)) (groups : List (List Nat)) (metaIdx : List Nat) (target : Int) (out : List Seq)
    (h : convert ppqn filePpq tracks groups metaIdx target = .ok out)
    (hd : ∀ evs ∈ tracks, ∀ e ∈ evs, 0 ≤ e.time) (hdom : ∀ evs ∈ tracks, TsDomain evs)
    (s s' : Seq) (a : List Msg) (hs : out[target.toNat]? = some s) (ha : s.readAbs = .ok (s', a))
    (t : Int) (ht : 0 ≤ t) :
    (latest .timeSignature (eventsAbs a) t).map tsVal
      = (latest .timeSignature (dfltSig .timeSignature ++ fileSigs ppqn filePpq tracks groups metaIdx) t).map tsVal := by
  have hcore := L2.inforce_load_ts ppqn filePpq hp hf tracks groups metaIdx target out h hd hdom s s' a hs ha t ht
  rw [← fileSigs_eq] at hcore
  have hd0 : cand .timeSignature t (Msg.mkTimeSig 0 4 4 0) = true := by simp [cand, Msg.mkTimeSig, ht]
  have hR : latestL .timeSignature (dfltSig .timeSignature ++ fileSigs ppqn filePpq tracks groups metaIdx) t
      = (latestL .timeSignature (fileSigs ppqn filePpq tracks groups metaIdx) t).or (some (Msg.mkTimeSig 0 4 4 0)) :=
    latestL_cons _ t _ _ hd0 (fun m hm _ => fileSigs_nonneg ppqn filePpq hp hf tracks groups metaIdx hd m hm)
  show (latestL .timeSignature (eventsAbs a) t).map tsv = (latestL .timeSignature _ t).map tsv
  rw [hR, map_or_some, hcore]
  rfl

/-- **key signature in force** (closes A7a): the same for key signatures (no key when the file has none yet) -/
theorem load_key_signature_in_force (ppqn filePpq : Int) (hp : 0 < ppqn) (hf : 0 < filePpq)
    (tracks : List (List MidiEv)) (groups : List (List Nat)) (metaIdx : List Nat) (target : Int) (out : List Seq)
    (h : convert ppqn filePpq tracks groups metaIdx target = .ok out)
    (hd : ∀ evs ∈ tracks, ∀ e ∈ evs, 0 ≤ e.time) (hdom : ∀ evs ∈ tracks, KsDomain evs)
    (s s' : Seq) (a : List Msg) (hs : out[target.toNat]? = some s) (ha : s.readAbs = .ok (s', a)) (t : Int) :
    (latest .keySignature (eventsAbs a) t).map keyVal
      = (latest .keySignature (dfltSig .keySignature ++ fileSigs ppqn filePpq tracks groups metaIdx) t).map keyVal := by
  have hcore := L2.inforce_load_ks ppqn filePpq hp hf tracks groups metaIdx target out h hd hdom s s' a hs ha t
  rw [← fileSigs_eq] at hcore
  exact hcore

/-! ### the same statements without the parser's domain conditions: false of the (wider) model -/

/-- the absolute view of loaded sequence `gi`, if the conversion succeeds (for kernel evaluation) -/
def loadedAbs (ppqn filePpq : Int) (tracks : List (List MidiEv)) (groups : List (List Nat)) (metaIdx : List Nat)
    (target : Int) (gi : Nat) : Option (List Msg) :=
  match convert ppqn filePpq tracks groups metaIdx target with
  | .ok out =>
    match out[gi]? with
    | some s =>
      match s.readAbs with
      | .ok (_, a) => some a
      | .error _ => none
    | none => none
  | .error _ => none

theorem loadedAbs_map {β} (ppqn filePpq : Int) (tracks : List (List MidiEv)) (groups : List (List Nat))
    (metaIdx : List Nat) (target : Int) (gi : Nat) (f : List Msg → β) (v : β)
    (h : (loadedAbs ppqn filePpq tracks groups metaIdx target gi).map f = some v) :
    ∃ out s s' a, convert ppqn filePpq tracks groups metaIdx target = .ok out ∧ out[gi]? = some s
      ∧ s.readAbs = .ok (s', a) ∧ f a = v := by
  unfold loadedAbs at h
  cases hc : convert ppqn filePpq tracks groups metaIdx target with
  | error e => rw [hc] at h; simp at h
  | ok out =>
    rw [hc] at h
    simp only at h
    cases ho : out[gi]? with
    | none => rw [ho] at h; simp at h
    | some s =>
      rw [ho] at h
      simp only at h
      cases hr : s.readAbs with
      | error e => rw [hr] at h; simp at h
      | ok p =>
        obtain ⟨s', a⟩ := p
        rw [hr] at h
        simp only [Option.map_some, Option.some.injEq] at h
        exact ⟨out, s, s', a, rfl, ho, hr, h⟩

/-- `load_time_signature_in_force` for ARBITRARY model events (no `TsDomain`).  FALSE for the model: `MidiEv`
    is wider than what `parse_mido_message` can produce — a time-signature event may carry a channel, and
    `AbsoluteSequence.sort` orders equal ticks by channel first, so two time signatures on one tick with
    channels 1 and 0 swap.  Not reachable in the library (a mido `MetaMessage` has no channel;
    `parse_domain`); see `load_time_signature_in_force_statement_false`. -/
def load_time_signature_in_force_statement : Prop :=
  ∀ (ppqn filePpq : Int) (_hp : 0 < ppqn) (_hf : 0 < filePpq)
    (tracks : List (List MidiEv)) (groups : List (List Nat)) (metaIdx : List Nat) (target : Int) (out : List Seq)
    (_h : convert ppqn filePpq tracks groups metaIdx target = .ok out)
    (_hd : ∀ evs ∈ tracks, ∀ e ∈ evs, 0 ≤ e.time)
    (s s' : Seq) (a : List Msg) (_hs : out[target.toNat]? = some s) (_ha : s.readAbs = .ok (s', a))
    (t : Int) (_ht : 0 ≤ t),
    (latest .timeSignature (eventsAbs a) t).map tsVal
      = (latest .timeSignature (dfltSig .timeSignature ++ fileSigs ppqn filePpq tracks groups metaIdx) t).map tsVal

def cexTs : List (List MidiEv) :=
  [[{ ty := .timeSignature, ch := 1, time := 0, num := 3, den := 4 },
    { ty := .timeSignature, ch := 0, time := 0, num := 6, den := 8 }]]

theorem cexTs_loaded : (loadedAbs 24 24 cexTs [[0]] [] 0 0).map
    (fun a => (latest .timeSignature (eventsAbs a) 0).map tsVal) = some (some (3, 4)) := by decide +kernel

theorem load_time_signature_in_force_statement_false : ¬ load_time_signature_in_force_statement := by
  intro hst
  obtain ⟨out, s, s', a, hc, ho, hr, hv⟩ := loadedAbs_map 24 24 cexTs [[0]] [] 0 0 _ _ cexTs_loaded
  have := hst 24 24 (by decide) (by decide) cexTs [[0]] [] 0 out hc (by decide) s s' a ho hr 0 (by decide)
  rw [hv] at this
  revert this
  decide +kernel

/-- the same for key signatures: a key-signature event whose key is the model's `None` (`-1`) repeats the
    initial state of `normalise` and is dropped.  Not reachable: `KeyKeyMapping[...]` is a `Key` or a `KeyError`. -/
def load_key_signature_in_force_statement : Prop :=
  ∀ (ppqn filePpq : Int) (_hp : 0 < ppqn) (_hf : 0 < filePpq)
    (tracks : List (List MidiEv)) (groups : List (List Nat)) (metaIdx : List Nat) (target : Int) (out : List Seq)
    (_h : convert ppqn filePpq tracks groups metaIdx target = .ok out)
    (_hd : ∀ evs ∈ tracks, ∀ e ∈ evs, 0 ≤ e.time)
    (s s' : Seq) (a : List Msg) (_hs : out[target.toNat]? = some s) (_ha : s.readAbs = .ok (s', a)) (t : Int),
    (latest .keySignature (eventsAbs a) t).map keyVal
      = (latest .keySignature (dfltSig .keySignature ++ fileSigs ppqn filePpq tracks groups metaIdx) t).map keyVal

def cexKs : List (List MidiEv) := [[{ ty := .keySignature, ch := pyNone, time := 0, key := pyNone }]]

theorem cexKs_loaded : (loadedAbs 24 24 cexKs [[0]] [] 0 0).map
    (fun a => (latest .keySignature (eventsAbs a) 0).map keyVal) = some none := by decide +kernel

theorem load_key_signature_in_force_statement_false : ¬ load_key_signature_in_force_statement := by
  intro hst
  obtain ⟨out, s, s', a, hc, ho, hr, hv⟩ := loadedAbs_map 24 24 cexKs [[0]] [] 0 0 _ _ cexKs_loaded
  have := hst 24 24 (by decide) (by decide) cexKs [[0]] [] 0 out hc (by decide) s s' a ho hr 0
  rw [hv] at this
  revert this
  decide +kernel

/-! ## A7 (b), (c): routing for arbitrary groupings, with the counting predicate -/

theorem notesClosed_of_goodTrack (ppqn filePpq : Int) (evs : List MidiEv) (h : GoodTrack ppqn filePpq evs) :
    NotesClosed (trackMsgs ppqn filePpq 0 evs) :=
  fun k => cg_of_wf _ h.1 h.2 k

theorem slot_ga (ppqn filePpq : Int) (hp : 0 < ppqn) (hf : 0 < filePpq) (tracks : List (List MidiEv))
    (hd : ∀ evs ∈ tracks, ∀ e ∈ evs, 0 ≤ e.time) (i : Nat)
    (hc : ∀ evs, tracks[i]? = some evs → NotesClosed (trackMsgs ppqn filePpq 0 evs)) :
    GA (slotA ppqn filePpq tracks i) := by
  refine ⟨L2.slotA_okAbs ppqn filePpq hp hf tracks hd i, ?_⟩
  cases hti : tracks[i]? with
  | none => simp only [slotA, hti, Option.getD_none, curMsgs]; exact L2.ga_nil.2
  | some evs =>
    have := hc evs hti
    rw [trackMsgs_eq] at this
    simp only [slotA, hti, Option.getD_some]
    exact this

/-- **routing, first group** (closes A7b and A7c; what the code does, for ARBITRARY groupings): the sounding
    set of loaded sequence `gi` is the union of the sounding sets — at the rounded positions — of the
    tracks whose FIRST group is `gi`.  Tracks need only be `NotesClosed` (overlapping notes allowed). -/
theorem routing_first_group (ppqn filePpq : Int) (hp : 0 < ppqn) (hf : 0 < filePpq)
    (tracks : List (List MidiEv)) (groups : List (List Nat)) (metaIdx : List Nat) (target : Int) (out : List Seq)
    (h : convert ppqn filePpq tracks groups metaIdx target = .ok out)
    (hd : ∀ evs ∈ tracks, ∀ e ∈ evs, 0 ≤ e.time)
    (hclosed : ∀ i ∈ groups.flatten, ∀ evs, tracks[i]? = some evs → NotesClosed (trackMsgs ppqn filePpq 0 evs))
    (gi : Nat) (g : List Nat) (hg : groups[gi]? = some g) (s s' : Seq) (a : List Msg)
    (hs : out[gi]? = some s) (ha : s.readAbs = .ok (s', a)) (k : Int × Int) (t : Int) :
    SoundingAt (eventsAbs a) k t ↔
      ∃ i evs, tracks[i]? = some evs ∧ FirstGroup groups i gi ∧ SoundingAt (trackMsgs ppqn filePpq 0 evs) k t := by
  have hGA : ∀ i ∈ groups.flatten, GA (slotA ppqn filePpq tracks i) :=
    fun i hi => slot_ga ppqn filePpq hp hf tracks hd i (hclosed i hi)
  rw [L2.loadG_core ppqn filePpq hp hf tracks groups metaIdx target out h hd
    (fun i hi => (V_ga _ (hGA i hi)).1) gi g hg s s' a hs ha k t]
  constructor
  · rintro ⟨i, pos, hfg, hcs⟩
    have hfg' : FirstGroup groups i gi := (firstGroup_iff groups i gi).1 ⟨pos, hfg⟩
    obtain ⟨⟨g', hg', hig⟩, _⟩ := hfg'
    have hi : i ∈ groups.flatten := List.mem_flatten.2 ⟨g', List.mem_of_getElem? hg', hig⟩
    have hga := hGA i hi
    have hcs' := ((V_ga _ hga).2 k t).1 hcs
    cases hti : tracks[i]? with
    | none =>
      simp [slotA, hti, curMsgs, CS, upTo, ons, offs] at hcs'
    | some evs =>
      refine ⟨i, evs, hti, (firstGroup_iff groups i gi).1 ⟨pos, hfg⟩, ?_⟩
      have e : slotA ppqn filePpq tracks i = trackMsgs ppqn filePpq 0 evs := by simp [slotA, hti, trackMsgs_eq]
      rw [← e]
      exact (sounding_cs k t _ (ga_sorted hga) (hga.2 k)).2 hcs'
  · rintro ⟨i, evs, hti, hfg, hsnd⟩
    obtain ⟨pos, hpos⟩ := (firstGroup_iff groups i gi).2 hfg
    obtain ⟨⟨g', hg', hig⟩, _⟩ := hfg
    have hi : i ∈ groups.flatten := List.mem_flatten.2 ⟨g', List.mem_of_getElem? hg', hig⟩
    have hga := hGA i hi
    have e : slotA ppqn filePpq tracks i = trackMsgs ppqn filePpq 0 evs := by simp [slotA, hti, trackMsgs_eq]
    refine ⟨i, pos, hpos, ((V_ga _ hga).2 k t).2 ?_⟩
    rw [e] at hga ⊢
    exact (sounding_cs k t _ (ga_sorted hga) (hga.2 k)).1 hsnd

/-- **routing, any file** (closes A7b for files with unclosed / orphan notes): every track is normalised
    on its own before the group merge (midi_file.py:130-131).  If the normalised tracks are `NotesClosed`
    (e.g. no note collapses to length zero, D17), the sounding set of loaded sequence `gi` is the union of
    the sounding sets of the *normalised* tracks whose first group is `gi`. -/
theorem routing_normalised (ppqn filePpq : Int) (hp : 0 < ppqn) (hf : 0 < filePpq)
    (tracks : List (List MidiEv)) (groups : List (List Nat)) (metaIdx : List Nat) (target : Int) (out : List Seq)
    (h : convert ppqn filePpq tracks groups metaIdx target = .ok out)
    (hd : ∀ evs ∈ tracks, ∀ e ∈ evs, 0 ≤ e.time)
    (hclosed : ∀ i ∈ groups.flatten, ∀ evs, tracks[i]? = some evs →
      NotesClosed (normTrack (trackMsgs ppqn filePpq 0 evs)))
    (gi : Nat) (g : List Nat) (hg : groups[gi]? = some g) (s s' : Seq) (a : List Msg)
    (hs : out[gi]? = some s) (ha : s.readAbs = .ok (s', a)) (k : Int × Int) (t : Int) :
    SoundingAt (eventsAbs a) k t ↔
      ∃ i evs, tracks[i]? = some evs ∧ FirstGroup groups i gi
        ∧ SoundingAt (eventsAbs (normTrack (trackMsgs ppqn filePpq 0 evs))) k t := by
  have hVnil : GA (V []) := (V_ga [] L2.ga_nil).1
  have hok : ∀ x, OkAbs x → OkAbs (V x) := by
    intro x hx
    exact C04.toAbs_ok _ (C07.ok_out _ (C04.toRel_ok x hx)).1
  have hGA : ∀ i ∈ groups.flatten, GA (V (slotA ppqn filePpq tracks i)) := by
    intro i hi
    cases hti : tracks[i]? with
    | none => simpa [slotA, hti, curMsgs] using hVnil
    | some evs =>
      have e : slotA ppqn filePpq tracks i = trackMsgs ppqn filePpq 0 evs := by simp [slotA, hti, trackMsgs_eq]
      rw [e]
      refine ⟨hok _ ?_, hclosed i hi evs hti⟩
      rw [← e]; exact L2.slotA_okAbs ppqn filePpq hp hf tracks hd i
  rw [L2.loadG_core ppqn filePpq hp hf tracks groups metaIdx target out h hd hGA gi g hg s s' a hs ha k t]
  constructor
  · rintro ⟨i, pos, hfg, hcs⟩
    have hfg' : FirstGroup groups i gi := (firstGroup_iff groups i gi).1 ⟨pos, hfg⟩
    obtain ⟨⟨g', hg', hig⟩, _⟩ := hfg'
    have hi : i ∈ groups.flatten := List.mem_flatten.2 ⟨g', List.mem_of_getElem? hg', hig⟩
    cases hti : tracks[i]? with
    | none =>
      have e : slotA ppqn filePpq tracks i = [] := by simp [slotA, hti, curMsgs]
      rw [e] at hcs
      have := ((V_ga [] L2.ga_nil).2 k t).1 hcs
      simp [CS, upTo, ons, offs] at this
    | some evs =>
      have e : slotA ppqn filePpq tracks i = trackMsgs ppqn filePpq 0 evs := by simp [slotA, hti, trackMsgs_eq]
      refine ⟨i, evs, hti, (firstGroup_iff groups i gi).1 ⟨pos, hfg⟩, ?_⟩
      have hga := hGA i hi
      rw [e] at hga hcs
      exact (ga_sounding hga k t).2 hcs
  · rintro ⟨i, evs, hti, hfg, hsnd⟩
    obtain ⟨pos, hpos⟩ := (firstGroup_iff groups i gi).2 hfg
    obtain ⟨⟨g', hg', hig⟩, _⟩ := hfg
    have hi : i ∈ groups.flatten := List.mem_flatten.2 ⟨g', List.mem_of_getElem? hg', hig⟩
    have e : slotA ppqn filePpq tracks i = trackMsgs ppqn filePpq 0 evs := by simp [slotA, hti, trackMsgs_eq]
    have hga := hGA i hi
    refine ⟨i, pos, hpos, ?_⟩
    rw [e] at hga ⊢
    exact (ga_sounding hga k t).1 hsnd


/-- every note is eventually closed: per key the saturating depth counter (`Roll.depth`) ends at 0.  Orphan
    note-offs (ignored by the counter) and overlapping notes are allowed, unclosed notes are not. -/
def AllClosed (E : List Msg) : Prop := ∀ k : Int × Int, depth k E 0 = 0

theorem trackMsgs_noInternal (ppqn filePpq : Int) (hp : 0 < ppqn) (hf : 0 < filePpq) (evs : List MidiEv)
    (hd : ∀ e ∈ evs, 0 ≤ e.time) : eventsAbs (trackMsgs ppqn filePpq 0 evs) = trackMsgs ppqn filePpq 0 evs := by
  unfold eventsAbs
  rw [List.filter_eq_self]
  intro m hm
  rw [trackMsgs_eq] at hm
  have := ((curMsgs_bounds ppqn filePpq hp hf evs 0 hd).2 m hm).2
  rcases this with h | h | h <;> simp [h]

/-- **routing, files with orphan note-offs** (closes A7b, "directly of the raw track where true"): if in every
    grouped track every note is eventually closed (`AllClosed`: orphan note-offs and overlaps allowed) and the
    per-track normalisation leaves no zero-length note (`NotesClosed` of the normalised track, D17), the
    sounding set of loaded sequence `gi` is the union of the RAW tracks' sounding sets (saturating counter) -/
theorem routing_orphans (ppqn filePpq : Int) (hp : 0 < ppqn) (hf : 0 < filePpq)
    (tracks : List (List MidiEv)) (groups : List (List Nat)) (metaIdx : List Nat) (target : Int) (out : List Seq)
    (h : convert ppqn filePpq tracks groups metaIdx target = .ok out)
    (hd : ∀ evs ∈ tracks, ∀ e ∈ evs, 0 ≤ e.time)
    (hclosed : ∀ i ∈ groups.flatten, ∀ evs, tracks[i]? = some evs →
      AllClosed (trackMsgs ppqn filePpq 0 evs) ∧ NotesClosed (normTrack (trackMsgs ppqn filePpq 0 evs)))
    (gi : Nat) (g : List Nat) (hg : groups[gi]? = some g) (s s' : Seq) (a : List Msg)
    (hs : out[gi]? = some s) (ha : s.readAbs = .ok (s', a)) (k : Int × Int) (t : Int) :
    SoundingAt (eventsAbs a) k t ↔
      ∃ i evs, tracks[i]? = some evs ∧ FirstGroup groups i gi ∧ SoundingAt (trackMsgs ppqn filePpq 0 evs) k t := by
  rw [routing_normalised ppqn filePpq hp hf tracks groups metaIdx target out h hd
    (fun i hi evs hev => (hclosed i hi evs hev).2) gi g hg s s' a hs ha k t]
  have key : ∀ i evs, tracks[i]? = some evs → FirstGroup groups i gi →
      (SoundingAt (eventsAbs (normTrack (trackMsgs ppqn filePpq 0 evs))) k t
        ↔ SoundingAt (trackMsgs ppqn filePpq 0 evs) k t) := by
    intro i evs hev hfg
    obtain ⟨⟨g', hg', hig⟩, _⟩ := hfg
    have hi : i ∈ groups.flatten := List.mem_flatten.2 ⟨g', List.mem_of_getElem? hg', hig⟩
    obtain ⟨c1, c2⟩ := hclosed i hi evs hev
    have hde : ∀ e ∈ evs, 0 ≤ e.time := hd evs (List.mem_of_getElem? hev)
    have hok : OkAbs (trackMsgs ppqn filePpq 0 evs) :=
      (trackMsgs_sorted ppqn filePpq hp hf 0 (Int.le_refl _) evs hde).1
    have := L2.V_sounding _ hok c1 c2 k t
    rw [trackMsgs_noInternal ppqn filePpq hp hf evs hde] at this
    exact this
  constructor
  · rintro ⟨i, evs, hev, hfg, hsnd⟩
    exact ⟨i, evs, hev, hfg, (key i evs hev hfg).1 hsnd⟩
  · rintro ⟨i, evs, hev, hfg, hsnd⟩
    exact ⟨i, evs, hev, hfg, (key i evs hev hfg).2 hsnd⟩

/-- `routing_first_group` without any condition on the notes of the file.  FALSE for the model and for the
    real library (known finding D17, replayed): a note whose note-on and note-off round to the same tick is
    re-sorted to off-before-on in the group merge and swallows the next note of its key. -/
def routing_first_group_statement : Prop :=
  ∀ (ppqn filePpq : Int) (_hp : 0 < ppqn) (_hf : 0 < filePpq)
    (tracks : List (List MidiEv)) (groups : List (List Nat)) (metaIdx : List Nat) (target : Int) (out : List Seq)
    (_h : convert ppqn filePpq tracks groups metaIdx target = .ok out)
    (_hd : ∀ evs ∈ tracks, ∀ e ∈ evs, 0 ≤ e.time)
    (gi : Nat) (g : List Nat) (_hg : groups[gi]? = some g) (s s' : Seq) (a : List Msg)
    (_hs : out[gi]? = some s) (_ha : s.readAbs = .ok (s', a)) (k : Int × Int) (t : Int),
    SoundingAt (eventsAbs a) k t ↔
      ∃ i evs, tracks[i]? = some evs ∧ FirstGroup groups i gi ∧ SoundingAt (trackMsgs ppqn filePpq 0 evs) k t

/-- D17's recorded example: note 63 on@1 off@1, then note 63 on@8 off@32 -/
def cexD17 : List (List MidiEv) :=
  [[{ (Msg.mkOn 0 63 64 0) with time := 1 }, { (Msg.mkOff 0 63 0) with time := 0, vel := 0 },
    { (Msg.mkOn 0 63 64 0) with time := 7 }, { (Msg.mkOff 0 63 0) with time := 24, vel := 0 }]]

theorem cexD17_loaded : (loadedAbs 24 24 cexD17 [[0]] [] 0 0).map
    (fun a => decide (0 < depth (0, 63) ((eventsAbs a).filter (fun m => decide (m.time ≤ 10))) 0)) = some false := by
  decide +kernel

theorem cexD17_raw : SoundingAt (trackMsgs 24 24 0 cexD17[0]) (0, 63) 10 := by
  have e : trackMsgs 24 24 0 cexD17[0]
      = [Msg.mkOn 0 63 64 1, Msg.mkOff 0 63 1, Msg.mkOn 0 63 64 8, Msg.mkOff 0 63 32] := by decide +kernel
  rw [e]
  unfold SoundingAt
  decide

theorem routing_first_group_statement_false : ¬ routing_first_group_statement := by
  intro hst
  obtain ⟨out, s, s', a, hc, ho, hr, hv⟩ := loadedAbs_map 24 24 cexD17 [[0]] [] 0 0 _ _ cexD17_loaded
  have := (hst 24 24 (by decide) (by decide) cexD17 [[0]] [] 0 out hc (by decide) 0 [0] rfl s s' a ho hr (0, 63) 10).2
    ⟨0, cexD17[0], rfl, ⟨⟨[0], rfl, by simp⟩, fun j g' hj => by omega⟩, cexD17_raw⟩
  have hv' : ¬ SoundingAt (eventsAbs a) (0, 63) 10 := by
    unfold SoundingAt
    simpa using hv
  exact hv' this

/-! ### the property's union statement: false for overlapping groups (known finding D20) -/

/-- **routing / union** (the statement as requested by C13, `C13.load_sounding` without its `Nodup`
    hypothesis): the sounding set of loaded sequence `gi` is the union of ALL tracks listed in group `gi`.
    FALSE for the model — and for the real library (D20, replayed): a track listed in two groups is
    routed to its first group only (`next(array for array in track_indices if i in array)`,
    midi_file.py:72), see `routing_union_statement_false`. -/
def routing_union_statement : Prop :=
  ∀ (ppqn filePpq : Int) (_hp : 0 < ppqn) (_hf : 0 < filePpq)
    (tracks : List (List MidiEv)) (groups : List (List Nat)) (metaIdx : List Nat) (target : Int) (out : List Seq)
    (_h : convert ppqn filePpq tracks groups metaIdx target = .ok out)
    (_hidx : ∀ i ∈ groups.flatten, i < tracks.length)
    (_hd : ∀ evs ∈ tracks, ∀ e ∈ evs, 0 ≤ e.time)
    (_hgood : ∀ i ∈ groups.flatten, ∀ evs, tracks[i]? = some evs → GoodTrack ppqn filePpq evs)
    (gi : Nat) (g : List Nat) (_hg : groups[gi]? = some g) (s s' : Seq) (a : List Msg)
    (_hs : out[gi]? = some s) (_ha : s.readAbs = .ok (s', a)) (k : Int × Int) (t : Int),
    SoundingAt (eventsAbs a) k t ↔
      ∃ i ∈ g, ∃ evs, tracks[i]? = some evs ∧ SoundingAt (trackMsgs ppqn filePpq 0 evs) k t

/-- the witness: two one-note tracks, groups `[[0], [0, 1]]` -/
def cexTracks : List (List MidiEv) :=
  [[{ (Msg.mkOn 0 60 64 0) with time := 0 }, { (Msg.mkOff 0 60 0) with time := 24, vel := 0 }],
   [{ (Msg.mkOn 0 62 64 0) with time := 0 }, { (Msg.mkOff 0 62 0) with time := 24, vel := 0 }]]
def cexGroups : List (List Nat) := [[0], [0, 1]]

theorem cex_msgs0 : trackMsgs 24 24 0 cexTracks[0] = [Msg.mkOn 0 60 64 0, Msg.mkOff 0 60 24] := by decide +kernel
theorem cex_msgs1 : trackMsgs 24 24 0 cexTracks[1] = [Msg.mkOn 0 62 64 0, Msg.mkOff 0 62 24] := by decide +kernel

theorem goodTrack_one (ppqn filePpq : Int) (evs : List MidiEv) (c p v t0 t1 : Int) (hlt : t0 < t1)
    (h : trackMsgs ppqn filePpq 0 evs = [Msg.mkOn c p v t0, Msg.mkOff c p t1]) : GoodTrack ppqn filePpq evs := by
  unfold GoodTrack
  rw [h]
  refine ⟨?_, ?_⟩
  · intro k
    simp only [altFrom, Msg.mkOn, Msg.mkOff, Msg.nkey]
    by_cases hk : (c, p) = k <;> simp [hk]
  · intro n hn
    simp [notesOf, notesGo, Msg.mkOn, Msg.mkOff, Msg.nkey] at hn
    subst hn
    exact hlt

theorem cex_good : ∀ i ∈ cexGroups.flatten, ∀ evs, cexTracks[i]? = some evs → GoodTrack 24 24 evs := by
  intro i hi evs hev
  simp only [cexGroups, List.flatten_cons, List.flatten_nil, List.append_nil, List.cons_append, List.nil_append,
    List.mem_cons, List.not_mem_nil, or_false] at hi
  rcases hi with rfl | rfl | rfl
  · simp only [cexTracks, List.getElem?_cons_zero, Option.some.injEq] at hev
    subst hev
    exact goodTrack_one 24 24 _ 0 60 64 0 24 (by decide) cex_msgs0
  · simp only [cexTracks, List.getElem?_cons_zero, Option.some.injEq] at hev
    subst hev
    exact goodTrack_one 24 24 _ 0 60 64 0 24 (by decide) cex_msgs0
  · simp only [cexTracks, List.getElem?_cons_succ, List.getElem?_cons_zero, Option.some.injEq] at hev
    subst hev
    exact goodTrack_one 24 24 _ 0 62 64 0 24 (by decide) cex_msgs1

theorem cex_hd : ∀ evs ∈ cexTracks, ∀ e ∈ evs, 0 ≤ e.time := by decide

theorem routing_union_statement_false : ¬ routing_union_statement := by
  intro hst
  obtain ⟨out, hconv, hlen, hread⟩ := L2.convertG_total 24 24 (by decide) (by decide) cexTracks cexGroups [] 0 cex_hd
    (by decide) (by decide) (by decide)
  obtain ⟨s, s', a, hs, ha⟩ := hread 1 (by decide)
  have hu := hst 24 24 (by decide) (by decide) cexTracks cexGroups [] 0 out hconv (by decide) cex_hd cex_good
    1 [0, 1] rfl s s' a hs ha (0, 60) 0
  have hf := routing_first_group 24 24 (by decide) (by decide) cexTracks cexGroups [] 0 out hconv cex_hd
    (fun i hi evs hev => notesClosed_of_goodTrack 24 24 evs (cex_good i hi evs hev))
    1 [0, 1] rfl s s' a hs ha (0, 60) 0
  have hsnd : SoundingAt (eventsAbs a) (0, 60) 0 := by
    apply hu.2
    refine ⟨0, by simp, cexTracks[0], rfl, ?_⟩
    rw [cex_msgs0]
    unfold SoundingAt
    decide
  obtain ⟨i, evs, hev, hfg, hs1⟩ := hf.1 hsnd
  have hi : i = 0 ∨ i = 1 := by
    rcases Nat.lt_or_ge i 2 with h | h
    · omega
    · rw [List.getElem?_eq_none (by simpa [cexTracks] using h)] at hev; simp at hev
  rcases hi with rfl | rfl
  · exact hfg.2 0 [0] (by decide) rfl (by simp)
  · have : evs = cexTracks[1] := by simpa [cexTracks] using hev.symm
    subst this
    rw [cex_msgs1] at hs1
    revert hs1
    unfold SoundingAt
    decide

/-- **routing / union** under the hypothesis that makes it true: every track index is listed at most once
    (then "first group" is "the group").  Tracks need only be `NotesClosed` (closes A7b / A7c). -/
theorem routing_union_partial (ppqn filePpq : Int) (hp : 0 < ppqn) (hf : 0 < filePpq)
    (tracks : List (List MidiEv)) (groups : List (List Nat)) (metaIdx : List Nat) (target : Int) (out : List Seq)
    (h : convert ppqn filePpq tracks groups metaIdx target = .ok out)
    (hnd : groups.flatten.Nodup)
    (hd : ∀ evs ∈ tracks, ∀ e ∈ evs, 0 ≤ e.time)
    (hclosed : ∀ i ∈ groups.flatten, ∀ evs, tracks[i]? = some evs → NotesClosed (trackMsgs ppqn filePpq 0 evs))
    (gi : Nat) (g : List Nat) (hg : groups[gi]? = some g) (s s' : Seq) (a : List Msg)
    (hs : out[gi]? = some s) (ha : s.readAbs = .ok (s', a)) (k : Int × Int) (t : Int) :
    SoundingAt (eventsAbs a) k t ↔
      ∃ i ∈ g, ∃ evs, tracks[i]? = some evs ∧ SoundingAt (trackMsgs ppqn filePpq 0 evs) k t := by
  rw [routing_first_group ppqn filePpq hp hf tracks groups metaIdx target out h hd hclosed gi g hg s s' a hs ha k t]
  constructor
  · rintro ⟨i, evs, hev, ⟨⟨g', hg', hig⟩, _⟩, hsnd⟩
    rw [hg] at hg'; cases hg'
    exact ⟨i, hig, evs, hev, hsnd⟩
  · rintro ⟨i, hig, evs, hev, hsnd⟩
    refine ⟨i, evs, hev, ⟨⟨g, hg, hig⟩, ?_⟩, hsnd⟩
    intro j g' hj hg' hig'
    obtain ⟨pa, hpa⟩ := List.getElem?_of_mem hig
    obtain ⟨pb, hpb⟩ := List.getElem?_of_mem hig'
    have := (nodup_idx groups hnd gi j g g' pa pb i hg hg' hpa hpb).1
    omega

/-! ## A7 (f): every outcome of `convert` -/

/-- **empty group** (closes A7f): a group without tracks is an `IndexError` (`sequences_to_merge[0]`,
    midi_file.py:132), whatever the tracks, meta tracks and target -/
theorem empty_group_error (ppqn filePpq : Int) (tracks : List (List MidiEv)) (groups : List (List Nat))
    (metaIdx : List Nat) (target : Int) (hg : ∃ g ∈ groups, g = []) :
    convert ppqn filePpq tracks groups metaIdx target = .error .indexError :=
  (L2.convert_outcome ppqn filePpq tracks groups metaIdx target).1 hg

/-- **invalid meta target** (closes A7f; strengthens `C13.bad_target`): with all groups non-empty, a meta
    target outside `0 .. len(groups) - 1` is exactly the `ValueError` of midi_file.py:136-137 — for any
    tracks (no assumption on delta times) and any meta-track selection -/
theorem bad_target_exact (ppqn filePpq : Int) (tracks : List (List MidiEv)) (groups : List (List Nat))
    (metaIdx : List Nat) (target : Int) (hg : ∀ g ∈ groups, g ≠ [])
    (ht : target < 0 ∨ (groups.length : Int) ≤ target) :
    convert ppqn filePpq tracks groups metaIdx target = .error .valueError :=
  (L2.convert_outcome ppqn filePpq tracks groups metaIdx target).2.1 hg ht

/-- **success** (closes A7f / A7h "totality"): with all groups non-empty and a valid target the conversion
    succeeds and returns one sequence per group — the theorems above are not vacuous -/
theorem convert_succeeds (ppqn filePpq : Int) (tracks : List (List MidiEv)) (groups : List (List Nat))
    (metaIdx : List Nat) (target : Int) (hg : ∀ g ∈ groups, g ≠ [])
    (ht0 : 0 ≤ target) (ht1 : target < (groups.length : Int)) :
    ∃ out, convert ppqn filePpq tracks groups metaIdx target = .ok out ∧ out.length = groups.length :=
  (L2.convert_outcome ppqn filePpq tracks groups metaIdx target).2.2 hg ht0 ht1


/-! ## A8: C12, save then load -/

/-- **C12, notes** (closes A8b): the notes of loaded sequence `i` — pitch, onset, offset, velocity — are
    exactly the notes of saved sequence `i`, every one relabelled to channel 0 (the file does not store the
    channel), as a multiset (`notesOf` lists notes in note-off order, which a stable sort may permute on
    equal ticks).  `Saved` carves out, by input-level predicates, cross-channel same-pitch overlap (D21:
    `oneCh`) and zero-length notes (D17: `pos`). -/
theorem save_load_notes (ppqn : Int) (hp : 0 < ppqn) (rels : List (List Msg)) (hs : ∀ r ∈ rels, Saved r)
    (out : List Seq) (h : saveLoad ppqn rels = .ok out)
    (i : Nat) (r : List Msg) (s s' : Seq) (a : List Msg) (hr : rels[i]? = some r) (ho : out[i]? = some s)
    (ha : s.readAbs = Except.ok (s', a)) :
    (notesOf (eventsAbs a)).Perm ((notesOf (eventsRel r)).map (fun n => { n with ch := 0 })) := by
  unfold saveLoad at h
  have hproj := L2.saved_proj ppqn hp rels (fun r hr => saved_savedC r (hs r hr)) out h i r s s' a hr ho ha
  have h1 := L2.notesOf_perm_of_proj (eventsAbs a) ((eventsRel r).filterMap noteOf)
    (fun k => by rw [P_eventsAbs]; exact hproj k)
  have hS := hs r (List.mem_of_getElem? hr)
  obtain ⟨c0, hc0⟩ := hS.oneCh
  have hch : ∀ m ∈ eventsRel r, (m.ty = .noteOn ∨ m.ty = .noteOff) → m.ch = c0 := by
    intro e he hty
    obtain ⟨m, hm, t0, rfl⟩ := eventsRelGo_src r 0 e he
    exact hc0 m hm hty
  have hvel : ∀ m ∈ eventsRel r, m.ty = .noteOn → m.vel ≠ pyNone := by
    intro e he hty
    obtain ⟨m, hm, t0, rfl⟩ := eventsRelGo_src r 0 e he
    exact (hS.vel m hm hty).1
  have h2 := L2.notesGo_noteOf c0 (eventsRel r) [] hch hvel (by simp)
  simp only [List.filterMap_nil] at h2
  unfold notesOf at h1 ⊢
  rw [h2] at h1
  exact h1

/-- `save_load_notes` for well-formed sequences with velocities, WITHOUT the two carve-outs of `Saved`
    (`oneCh`: notes on one channel; `pos`: no zero-length note).  FALSE for the model and for the real library
    (both replayed): D21 — the file stores no channel, so same-pitch notes on two channels fuse — and D17's
    mechanism at equal resolution — a zero-length note swallows the next note of its pitch. -/
def save_load_notes_statement : Prop :=
  ∀ (ppqn : Int) (_hp : 0 < ppqn) (rels : List (List Msg))
    (_hs : ∀ r ∈ rels, OkRel r ∧ (∀ m ∈ r, m.ty ≠ .wait → m.time = pyNone) ∧ WF r
      ∧ ∀ m ∈ r, m.ty = .noteOn → m.vel ≠ pyNone ∧ 0 < m.vel)
    (out : List Seq) (_h : saveLoad ppqn rels = .ok out)
    (i : Nat) (r : List Msg) (s s' : Seq) (a : List Msg) (_hr : rels[i]? = some r) (_ho : out[i]? = some s)
    (_ha : s.readAbs = Except.ok (s', a)),
    (notesOf (eventsAbs a)).Perm ((notesOf (eventsRel r)).map (fun n => { n with ch := 0 }))

/-- D21's recorded example: pitch 60 on channel 0 over [0,24) and on channel 1 over [12,36) -/
def cexD21 : List (List Msg) :=
  [[Msg.mkOn 0 60 64 pyNone, Msg.mkWait 0 12, Msg.mkOn 1 60 80 pyNone, Msg.mkWait 0 12, Msg.mkOff 0 60 pyNone,
    Msg.mkWait 0 12, Msg.mkOff 1 60 pyNone]]
/-- the zero-length class: pitch 60 over [0,0), then pitch 60 over [6,18) -/
def cexZero : List (List Msg) :=
  [[Msg.mkOn 0 60 64 pyNone, Msg.mkOff 0 60 pyNone, Msg.mkWait 0 6, Msg.mkOn 0 60 70 pyNone, Msg.mkWait 0 12,
    Msg.mkOff 0 60 pyNone]]

theorem cexD21_loaded : (loadedAbs 24 24 (cexD21.map toMido) [[0]] [0] 0 0).map (fun a => notesOf (eventsAbs a))
    = some [{ ch := 0, pitch := 60, on := 0, off := 36, vel := 64 }] := by decide +kernel
theorem cexZero_loaded : (loadedAbs 24 24 (cexZero.map toMido) [[0]] [0] 0 0).map (fun a => notesOf (eventsAbs a))
    = some [] := by decide +kernel

theorem cex_wf (p : Int) (l : List Msg) (h : ∀ k, k ≠ ((0 : Int), p) → k ≠ ((1 : Int), p) → altFrom k false l)
    (h0 : altFrom (0, p) false l) (h1 : altFrom (1, p) false l) : WF l := by
  intro k
  by_cases e0 : k = (0, p)
  · subst e0; exact h0
  · by_cases e1 : k = (1, p)
    · subst e1; exact h1
    · exact h k e0 e1

theorem save_load_notes_statement_false : ¬ save_load_notes_statement := by
  intro hst
  obtain ⟨out, s, s', a, hc, ho, hr, hv⟩ := loadedAbs_map 24 24 (cexD21.map toMido) [[0]] [0] 0 0 _ _ cexD21_loaded
  have hs : ∀ r ∈ cexD21, OkRel r ∧ (∀ m ∈ r, m.ty ≠ .wait → m.time = pyNone) ∧ WF r
      ∧ ∀ m ∈ r, m.ty = .noteOn → m.vel ≠ pyNone ∧ 0 < m.vel := by
    intro r hr'
    simp only [cexD21, List.mem_cons, List.not_mem_nil, or_false] at hr'
    subst hr'
    refine ⟨⟨by simp [NonNegWaits, Msg.mkOn, Msg.mkOff, Msg.mkWait], by simp [Msg.mkOn, Msg.mkOff, Msg.mkWait]⟩,
      by simp [Msg.mkOn, Msg.mkOff, Msg.mkWait], ?_, by simp [Msg.mkOn, Msg.mkOff, Msg.mkWait, pyNone]⟩
    apply cex_wf 60
    · intro k e0 e1
      simp only [altFrom, Msg.mkOn, Msg.mkOff, Msg.mkWait, Msg.nkey]
      simp [Ne.symm e0, Ne.symm e1]
    · simp [altFrom, Msg.mkOn, Msg.mkOff, Msg.mkWait, Msg.nkey]
    · simp [altFrom, Msg.mkOn, Msg.mkOff, Msg.mkWait, Msg.nkey]
  have := hst 24 (by decide) cexD21 hs out hc 0 _ s s' a rfl ho hr
  rw [hv] at this
  have hl := this.length_eq
  revert hl
  decide

/-- the zero-length witness refutes the statement as well: the loaded sequence has no note at all, the saved
    one has two -/
example : (loadedAbs 24 24 (cexZero.map toMido) [[0]] [0] 0 0).map (fun a => (notesOf (eventsAbs a)).length) = some 0
    ∧ (notesOf (eventsRel cexZero[0])).length = 2 := by
  refine ⟨?_, by decide⟩
  have := congrArg (Option.map List.length) cexZero_loaded
  simpa [Option.map_map, Function.comp_def] using this

/-- **C12, time signature in force** (closes A8c): no hypothesis on signature ticks at all — two saved
    sequences that each start with 4/4 at tick 0 are covered, and so are disagreeing signatures on one tick
    (the later sequence wins, as `latest` says).  Only requirement beyond `Saved`: a saved time signature
    carries a numerator or a denominator. -/
theorem save_load_time_signature_in_force (ppqn : Int) (hp : 0 < ppqn) (rels : List (List Msg))
    (hs : ∀ r ∈ rels, Saved r)
    (hpresent : ∀ r ∈ rels, ∀ m ∈ r, m.ty = .timeSignature → (m.num, m.den) ≠ (pyNone, pyNone))
    (out : List Seq) (h : saveLoad ppqn rels = .ok out)
    (s s' : Seq) (a : List Msg) (ho : out[0]? = some s) (ha : s.readAbs = Except.ok (s', a))
    (t : Int) (ht : 0 ≤ t) :
    (latest .timeSignature (eventsAbs a) t).map tsVal
      = (latest .timeSignature (dfltSig .timeSignature ++ rels.flatMap eventsRel) t).map tsVal := by
  unfold saveLoad at h
  have hS := fun r hr => saved_savedC r (hs r hr)
  obtain ⟨_, hd⟩ := savedC_tracks ppqn hp rels hS
  have hdom : ∀ evs ∈ rels.map toMido, L2.TsDomain evs := by
    intro evs hevs e he hty
    obtain ⟨r, hr, rfl⟩ := List.mem_map.1 hevs
    obtain ⟨hc, m, hm, h1, h2, h3, _⟩ := L2.toMidoGo_sig r 0 e he (Or.inl hty)
    refine ⟨hc, ?_⟩
    rw [← h2, ← h3]
    exact hpresent r hr m hm (h1.trans hty)
  have hcore := L2.inforce_load_ts ppqn ppqn hp hp _ _ _ 0 out h hd hdom s s' a ho ha t ht
  rw [L2.fileSigsL_saved ppqn hp rels (fun r hr => ⟨(hS r hr).1.1, (hS r hr).2.1⟩),
    L2.latestL_saved _ (Or.inl rfl)] at hcore
  have hd0 : cand .timeSignature t (Msg.mkTimeSig 0 4 4 0) = true := by simp [cand, Msg.mkTimeSig, ht]
  have hR : latestL .timeSignature (dfltSig .timeSignature ++ rels.flatMap eventsRel) t
      = (latestL .timeSignature (rels.flatMap eventsRel) t).or (some (Msg.mkTimeSig 0 4 4 0)) :=
    latestL_cons _ t _ _ hd0 (fun m hm _ => events_nonneg rels (fun r hr => (hS r hr).1.1) m hm)
  show (latestL .timeSignature (eventsAbs a) t).map tsv = (latestL .timeSignature _ t).map tsv
  rw [hR, map_or_some, hcore]
  cases latestL .timeSignature (rels.flatMap eventsRel) t <;> rfl

/-- **C12, key signature in force** (closes A8c): the same for key signatures; a saved key signature
    carries a key -/
theorem save_load_key_signature_in_force (ppqn : Int) (hp : 0 < ppqn) (rels : List (List Msg))
    (hs : ∀ r ∈ rels, Saved r)
    (hpresent : ∀ r ∈ rels, ∀ m ∈ r, m.ty = .keySignature → m.key ≠ pyNone)
    (out : List Seq) (h : saveLoad ppqn rels = .ok out)
    (s s' : Seq) (a : List Msg) (ho : out[0]? = some s) (ha : s.readAbs = Except.ok (s', a)) (t : Int) :
    (latest .keySignature (eventsAbs a) t).map keyVal
      = (latest .keySignature (dfltSig .keySignature ++ rels.flatMap eventsRel) t).map keyVal := by
  unfold saveLoad at h
  have hS := fun r hr => saved_savedC r (hs r hr)
  obtain ⟨_, hd⟩ := savedC_tracks ppqn hp rels hS
  have hdom : ∀ evs ∈ rels.map toMido, L2.KsDomain evs := by
    intro evs hevs e he hty
    obtain ⟨r, hr, rfl⟩ := List.mem_map.1 hevs
    obtain ⟨hc, m, hm, h1, _, _, h4⟩ := L2.toMidoGo_sig r 0 e he (Or.inr hty)
    refine ⟨hc, ?_⟩
    rw [← h4]
    exact hpresent r hr m hm (h1.trans hty)
  have hcore := L2.inforce_load_ks ppqn ppqn hp hp _ _ _ 0 out h hd hdom s s' a ho ha t
  rw [L2.fileSigsL_saved ppqn hp rels (fun r hr => ⟨(hS r hr).1.1, (hS r hr).2.1⟩),
    L2.latestL_saved _ (Or.inr rfl)] at hcore
  show (latestL .keySignature (eventsAbs a) t).map ksv = (latestL .keySignature (rels.flatMap eventsRel) t).map ksv
  rw [hcore]
  cases latestL .keySignature (rels.flatMap eventsRel) t <;> rfl


/-- **C12, success** (closes A8f and the "premise `readAbs = .ok`" remark): saving and loading a non-empty list
    of ANY sequences succeeds and returns one sequence per saved sequence (no `Saved` needed) … -/
theorem save_load_succeeds (ppqn : Int) (rels : List (List Msg)) (hne : rels ≠ []) :
    ∃ out, saveLoad ppqn rels = .ok out ∧ out.length = rels.length := by
  have hlen : 0 < rels.length := List.length_pos_iff.2 hne
  obtain ⟨out, h1, h2⟩ := convert_succeeds ppqn ppqn (rels.map toMido) ((List.range rels.length).map (fun i => [i]))
    (List.range rels.length) 0 (by
      intro g hg
      obtain ⟨i, _, rfl⟩ := List.mem_map.1 hg
      simp) (Int.le_refl _) (by simp; omega)
  exact ⟨out, h1, by simpa using h2⟩

/-- … while the empty list is rejected with the `ValueError` of midi_file.py:136 (meta target 0 of no
    sequences; replayed: `sequences_save([])` then `sequences_load` raises "Invalid meta track index") -/
theorem save_load_empty (ppqn : Int) : saveLoad ppqn [] = .error .valueError :=
  bad_target_exact ppqn ppqn [] [] [] 0 (by simp) (by simp)

/-! ## A8 (d), A7 (e): the parser — the 15 keys through the table, note-on with velocity 0 -/

/-- **15-key round trip through the tables** (closes A8d): for every key index `i < 15`, the name the saver
    writes for key `i` (`Key.value`, `Gen.keyValues`) is mapped back to `i` by `MusicMapping.KeyKeyMapping`
    (`Gen.keyKeyMapping`).  Both tables are regenerated from the source on every run. -/
theorem key_table_round_trip :
    ∀ i : Nat, i < 15 → (Gen.keyValues[i]?).bind (fun nm => Gen.keyKeyMapping.lookup nm) = some (i : Int) := by
  decide

/-- there are exactly fifteen keys -/
theorem key_count : Gen.keyValues.length = 15 ∧ Gen.keyNames.length = 15 := by decide

/-- every key the parser can produce is one of the fifteen -/
theorem key_table_range : ∀ p ∈ Gen.keyKeyMapping, 0 ≤ p.2 ∧ p.2 < 15 := by decide

theorem lookup_mem {α β} [BEq α] [LawfulBEq α] (l : List (α × β)) (a : α) (b : β) (h : l.lookup a = some b) :
    (a, b) ∈ l := by
  induction l with
  | nil => simp at h
  | cons p ps ih =>
    obtain ⟨x, y⟩ := p
    simp only [List.lookup_cons] at h
    split at h
    · rename_i heq
      have : a = x := by simpa using heq
      simp only [Option.some.injEq] at h
      subst h; subst this
      exact List.mem_cons_self
    · exact List.mem_cons_of_mem _ (ih h)

/-- **a saved key signature parses to the same key** (closes A8d, C12 "all fifteen keys"): the message
    `to_mido_track` writes for key `k` is parsed by `parse_mido_message` into a key signature with key `k`,
    no channel, and the same delta time — for each of the fifteen keys -/
theorem saved_key_parses (k : Int) (hk : 0 ≤ k ∧ k < 15) (t : Int) :
    ∃ mm, savedKeyMsg k t = some mm
      ∧ parseMido mm = .ok { ty := .keySignature, ch := pyNone, time := t, key := k } := by
  have hlt : k.toNat < 15 := by omega
  have hrt := key_table_round_trip k.toNat hlt
  have hkk : ((k.toNat : Nat) : Int) = k := by omega
  cases hv : Gen.keyValues[k.toNat]? with
  | none => rw [hv] at hrt; simp at hrt
  | some nm =>
    rw [hv] at hrt
    simp only [Option.bind_some] at hrt
    rw [hkk] at hrt
    refine ⟨{ type := .keySignature, time := t, key := nm }, ?_, ?_⟩
    · simp [savedKeyMsg, keyName, hk.1, hv]
    · simp [parseMido, hrt]

/-- **note-on with velocity 0 is a note-off** (closes A7e; midi_message.py:37): the parser turns it into a
    `NOTE_OFF` of the same pitch, channel and delta time … -/
theorem parse_note_on_zero (m : MidoMsg) (h : m.type = .noteOn) (hv : m.velocity = 0) :
    parseMido m = .ok { ty := .noteOff, ch := m.channel.getD pyNone, time := m.time, note := m.note, vel := 0 } := by
  cases hc : m.channel <;> simp [parseMido, h, hv, hc]

/-- … which the loader then routes as a note-off of its track (nothing in `convert` looks at the velocity of
    a note-off), while a positive velocity gives a note-on with that velocity -/
theorem note_on_zero_loads_as_off (m : MidoMsg) (h : m.type = .noteOn) (hv : m.velocity = 0) (rt : Int) :
    ∃ e, parseMido m = .ok e ∧
      convEvent true e rt = some (false, Msg.mkOff (if e.ch == pyNone then 0 else e.ch) m.note rt) := by
  refine ⟨_, parse_note_on_zero m h hv, ?_⟩
  simp [convEvent]

theorem parse_note_on_pos (m : MidoMsg) (h : m.type = .noteOn) (hv : 0 < m.velocity) :
    parseMido m = .ok { ty := .noteOn, ch := m.channel.getD pyNone, time := m.time, note := m.note,
                        vel := m.velocity } := by
  cases hc : m.channel <;> simp [parseMido, h, hv, hc]

/-- **the parser establishes the domain conditions** of `load_time_signature_in_force` /
    `load_key_signature_in_force`: for meta messages without a channel (every mido `MetaMessage`) and a
    non-negative numerator, every parsed track satisfies `TsDomain` and `KsDomain` -/
theorem parse_domain (ms : List MidoMsg) :
    ∀ evs, parseTrack ms = .ok evs →
      (∀ m ∈ ms, (m.type = .timeSignature ∨ m.type = .keySignature) → m.channel = none) →
      (∀ m ∈ ms, m.type = .timeSignature → 0 ≤ m.numerator) →
      TsDomain evs ∧ KsDomain evs := by
  induction ms with
  | nil =>
    intro evs h _ _
    simp only [parseTrack, Except.ok.injEq] at h
    subst h
    exact ⟨by simp [TsDomain], by simp [KsDomain]⟩
  | cons m ms ih =>
    intro evs h hch hnum
    simp only [parseTrack] at h
    split at h
    · simp at h
    · rename_i e he
      split at h
      · simp at h
      · rename_i es hes
        simp only [Except.ok.injEq] at h
        subst h
        obtain ⟨i1, i2⟩ := ih es hes (fun x hx => hch x (List.mem_cons_of_mem _ hx))
          (fun x hx => hnum x (List.mem_cons_of_mem _ hx))
        have hm1 := hch m List.mem_cons_self
        have hm2 := hnum m List.mem_cons_self
        have hhead : (e.ty = .timeSignature → e.ch = pyNone ∧ (e.num, e.den) ≠ (pyNone, pyNone))
            ∧ (e.ty = .keySignature → e.ch = pyNone ∧ e.key ≠ pyNone) := by
          unfold parseMido at he
          simp only at he
          split at he
          · simp only [Except.ok.injEq] at he; subst he; simp
          · split at he
            · simp only [Except.ok.injEq] at he; subst he; simp
            · split at he
              · rename_i hts
                simp only [Except.ok.injEq] at he; subst he
                have := hm1 (Or.inl hts)
                have := hm2 hts
                simp only [true_implies, reduceCtorEq, false_implies, and_true]
                refine ⟨by simp [*], ?_⟩
                intro hp
                simp only [Prod.mk.injEq, pyNone] at hp
                omega
              · split at he
                · rename_i hks
                  split at he
                  · rename_i k hk
                    simp only [Except.ok.injEq] at he; subst he
                    have := hm1 (Or.inr hks)
                    have hr := key_table_range _ (lookup_mem _ _ _ hk)
                    simp only [reduceCtorEq, false_implies, true_implies, true_and]
                    refine ⟨by simp [*], ?_⟩
                    simp only [pyNone]
                    omega
                  · simp at he
                · split at he
                  · simp only [Except.ok.injEq] at he; subst he; simp
                  · split at he
                    · simp only [Except.ok.injEq] at he; subst he; simp
                    · simp only [Except.ok.injEq] at he; subst he; simp
        refine ⟨?_, ?_⟩
        · intro x hx hty
          rcases List.mem_cons.1 hx with rfl | hx
          · exact hhead.1 hty
          · exact i1 x hx hty
        · intro x hx hty
          rcases List.mem_cons.1 hx with rfl | hx
          · exact hhead.2 hty
          · exact i2 x hx hty


theorem parse_time (ms : List MidoMsg) : ∀ evs, parseTrack ms = .ok evs → ∀ e ∈ evs, ∃ m ∈ ms, e.time = m.time := by
  induction ms with
  | nil =>
    intro evs h e he
    simp only [parseTrack, Except.ok.injEq] at h
    subst h; simp at he
  | cons m ms ih =>
    intro evs h e he
    simp only [parseTrack] at h
    split at h
    · simp at h
    · rename_i e0 he0
      split at h
      · simp at h
      · rename_i es hes
        simp only [Except.ok.injEq] at h
        subst h
        rcases List.mem_cons.1 he with rfl | he
        · refine ⟨m, List.mem_cons_self, ?_⟩
          unfold parseMido at he0
          simp only at he0
          repeat' split at he0
          all_goals first
            | (simp only [Except.ok.injEq] at he0; subst he0; rfl)
            | (simp at he0)
        · obtain ⟨m', hm', h'⟩ := ih es hes e he
          exact ⟨m', List.mem_cons_of_mem _ hm', h'⟩

/-- **signatures in force, from the mido file** (closes A7a at the level of the file; composes the parser with
    the loader): for ANY mido file — meta messages carry no channel, delta times and numerators are
    non-negative, every key name is known — any resolution, grouping, meta selection and valid target, the time
    signature and the key signature in force on the loaded meta sequence are those of the file -/
theorem load_signatures_in_force_file (ppqn filePpq : Int) (hp : 0 < ppqn) (hf : 0 < filePpq)
    (file : List (List MidoMsg)) (tracks : List (List MidiEv))
    (hparse : file.length = tracks.length ∧
      ∀ (i : Nat) (ms : List MidoMsg) (evs : List MidiEv), file[i]? = some ms → tracks[i]? = some evs → parseTrack ms = .ok evs)
    (hdelta : ∀ ms ∈ file, ∀ m ∈ ms, 0 ≤ m.time)
    (hmeta : ∀ ms ∈ file, ∀ m ∈ ms, (m.type = .timeSignature ∨ m.type = .keySignature) → m.channel = none)
    (hnum : ∀ ms ∈ file, ∀ m ∈ ms, m.type = .timeSignature → 0 ≤ m.numerator)
    (groups : List (List Nat)) (metaIdx : List Nat) (target : Int) (out : List Seq)
    (h : convert ppqn filePpq tracks groups metaIdx target = .ok out)
    (s s' : Seq) (a : List Msg) (hs : out[target.toNat]? = some s) (ha : s.readAbs = .ok (s', a)) (t : Int) (ht : 0 ≤ t) :
    (latest .timeSignature (eventsAbs a) t).map tsVal
        = (latest .timeSignature (dfltSig .timeSignature ++ fileSigs ppqn filePpq tracks groups metaIdx) t).map tsVal
    ∧ (latest .keySignature (eventsAbs a) t).map keyVal
        = (latest .keySignature (dfltSig .keySignature ++ fileSigs ppqn filePpq tracks groups metaIdx) t).map keyVal := by
  have hsrc : ∀ evs ∈ tracks, ∃ ms ∈ file, parseTrack ms = .ok evs := by
    intro evs hevs
    obtain ⟨i, hi⟩ := List.getElem?_of_mem hevs
    have hlt : i < file.length := by
      rcases Nat.lt_or_ge i tracks.length with h' | h'
      · rw [hparse.1]; exact h'
      · rw [List.getElem?_eq_none h'] at hi; simp at hi
    exact ⟨file[i], List.getElem_mem hlt, hparse.2 i file[i] evs (List.getElem?_eq_getElem hlt) hi⟩
  have hd : ∀ evs ∈ tracks, ∀ e ∈ evs, 0 ≤ e.time := by
    intro evs hevs e he
    obtain ⟨ms, hms, hp'⟩ := hsrc evs hevs
    obtain ⟨m, hm, ht'⟩ := parse_time ms evs hp' e he
    rw [ht']; exact hdelta ms hms m hm
  have hdom : ∀ evs ∈ tracks, TsDomain evs ∧ KsDomain evs := by
    intro evs hevs
    obtain ⟨ms, hms, hp'⟩ := hsrc evs hevs
    exact parse_domain ms evs hp' (hmeta ms hms) (hnum ms hms)
  exact ⟨load_time_signature_in_force ppqn filePpq hp hf tracks groups metaIdx target out h hd
      (fun evs hevs => (hdom evs hevs).1) s s' a hs ha t ht,
    load_key_signature_in_force ppqn filePpq hp hf tracks groups metaIdx target out h hd
      (fun evs hevs => (hdom evs hevs).2) s s' a hs ha t⟩

/-! ## non-vacuity: one concrete file for the C13 theorems, one saved composition for the C12 theorems -/

/-- a file at 480 ticks per beat: track 0 holds a 3/4 at tick 0 and two OVERLAPPING notes of pitch 60 (not
    `WF`, but `NotesClosed`); track 1 a 6/8 on the same tick 0, a key signature and one note; track 2 (meta
    only) a 4/4 and a key change at file tick 960 -/
def exFile : List (List MidiEv) :=
  [[{ ty := .timeSignature, ch := pyNone, time := 0, num := 3, den := 4 },
    { (Msg.mkOn 0 60 64 0) with time := 0 }, { (Msg.mkOn 0 60 70 0) with time := 100 },
    { (Msg.mkOff 0 60 0) with time := 100, vel := 0 }, { (Msg.mkOff 0 60 0) with time := 200, vel := 0 }],
   [{ ty := .timeSignature, ch := pyNone, time := 0, num := 6, den := 8 },
    { ty := .keySignature, ch := pyNone, time := 0, key := 9 },
    { (Msg.mkOn 1 62 80 0) with time := 10 }, { (Msg.mkOff 1 62 0) with time := 470, vel := 0 }],
   [{ ty := .timeSignature, ch := pyNone, time := 960, num := 4, den := 4 },
    { ty := .keySignature, ch := pyNone, time := 0, key := 6 }]]
/-- overlapping groups: track 1 is listed in both, track 0 in the second only -/
def exGroups : List (List Nat) := [[1], [0, 1]]

theorem exFile_hd : ∀ evs ∈ exFile, ∀ e ∈ evs, 0 ≤ e.time := by decide
theorem exFile_ts : ∀ evs ∈ exFile, TsDomain evs := by unfold TsDomain; decide
theorem exFile_ks : ∀ evs ∈ exFile, KsDomain evs := by unfold KsDomain; decide
theorem exFile_msgs0 : trackMsgs 24 480 0 exFile[0]
    = [Msg.mkOn 0 60 64 0, Msg.mkOn 0 60 70 5, Msg.mkOff 0 60 10, Msg.mkOff 0 60 20] := by decide +kernel
theorem exFile_msgs1 : trackMsgs 24 480 0 exFile[1] = [Msg.mkOn 1 62 80 0, Msg.mkOff 1 62 24] := by decide +kernel
theorem exFile_sigs : fileSigs 24 480 exFile exGroups [2]
    = [{ ty := .timeSignature, ch := pyNone, time := 0, num := 3, den := 4 },
       { ty := .timeSignature, ch := pyNone, time := 0, num := 6, den := 8 },
       { ty := .keySignature, ch := pyNone, time := 0, key := 9 },
       { ty := .timeSignature, ch := pyNone, time := 48, num := 4, den := 4 },
       { ty := .keySignature, ch := pyNone, time := 48, key := 6 }] := by decide +kernel

/-- a list whose notes are all of one key is `NotesClosed` as soon as that key is -/
theorem notesClosed_one_key (E : List Msg) (k0 : Int × Int) (hall : ∀ m ∈ E, m.nkey = k0)
    (h : (∀ s : Int, offs k0 (upTo s E) ≤ ons k0 (before s E)) ∧ ons k0 E = offs k0 E) : NotesClosed E := by
  intro k
  by_cases hk : k = k0
  · subst hk; exact h
  · have h1 : ∀ l : List Msg, (∀ m ∈ l, m.nkey = k0) → ons k l = 0 ∧ offs k l = 0 := by
      intro l hl
      constructor
      · unfold ons; rw [List.countP_eq_zero]; intro m hm; simp [isOnK, hl m hm, Ne.symm hk]
      · unfold offs; rw [List.countP_eq_zero]; intro m hm; simp [isOffK, hl m hm, Ne.symm hk]
    refine ⟨fun s => ?_, ?_⟩
    · have := (h1 (upTo s E) (fun m hm => hall m (List.mem_filter.1 hm).1)).2
      omega
    · rw [(h1 _ hall).1, (h1 _ hall).2]

/-- the overlapping track is `NotesClosed` (and not `WF`: the second note-on comes while the first sounds) -/
theorem exFile_closed0 : NotesClosed (trackMsgs 24 480 0 exFile[0]) := by
  rw [exFile_msgs0]
  apply notesClosed_one_key _ (0, 60) (by decide)
  refine ⟨fun s => ?_, by decide⟩
  simp only [upTo, before, List.filter_cons, List.filter_nil, Msg.mkOn, Msg.mkOff]
  by_cases h1 : (0:Int) ≤ s <;> by_cases h2 : (5:Int) ≤ s <;> by_cases h3 : (10:Int) ≤ s <;> by_cases h4 : (20:Int) ≤ s <;>
  by_cases g1 : (0:Int) < s <;> by_cases g2 : (5:Int) < s <;> by_cases g3 : (10:Int) < s <;> by_cases g4 : (20:Int) < s <;>
    first | omega | (simp [h1, h2, h3, h4, g1, g2, g3, g4, ons, offs, isOnK, isOffK, Msg.nkey])

example : ¬ WF (trackMsgs 24 480 0 exFile[0]) := by
  rw [exFile_msgs0]
  intro h
  have := h (0, 60)
  simp [altFrom, Msg.mkOn, Msg.mkOff, Msg.nkey] at this

theorem exFile_closed : ∀ i ∈ exGroups.flatten, ∀ evs, exFile[i]? = some evs → NotesClosed (trackMsgs 24 480 0 evs) := by
  intro i hi evs hev
  have hi' : i = 0 ∨ i = 1 := by
    simp only [exGroups, List.flatten_cons, List.flatten_nil, List.append_nil, List.cons_append, List.nil_append,
      List.mem_cons, List.not_mem_nil, or_false] at hi
    omega
  rcases hi' with rfl | rfl
  · have : evs = exFile[0] := by simpa [exFile] using hev.symm
    subst this; exact exFile_closed0
  · have : evs = exFile[1] := by simpa [exFile] using hev.symm
    subst this
    exact notesClosed_of_goodTrack 24 480 _ (goodTrack_one 24 480 _ 1 62 80 0 24 (by decide) exFile_msgs1)

/-- all hypotheses of `load_time_signature_in_force`, `load_key_signature_in_force`, `routing_first_group`
    hold for `exFile`, overlapping groups, meta track 2, target 1 — and the conversion succeeds -/
example : (∃ out, convert 24 480 exFile exGroups [2] 1 = .ok out ∧ out.length = 2)
    ∧ (∀ evs ∈ exFile, ∀ e ∈ evs, 0 ≤ e.time) ∧ (∀ evs ∈ exFile, TsDomain evs) ∧ (∀ evs ∈ exFile, KsDomain evs)
    ∧ (∀ i ∈ exGroups.flatten, ∀ evs, exFile[i]? = some evs → NotesClosed (trackMsgs 24 480 0 evs)) :=
  ⟨convert_succeeds 24 480 exFile exGroups [2] 1 (by decide) (by decide) (by decide),
    exFile_hd, exFile_ts, exFile_ks, exFile_closed⟩

/-- the conclusions, evaluated: two signatures share tick 0 — the later track's 6/8 is in force there, the
    meta track's 4/4 from tick 48 (file tick 960); key B♭ (9) from tick 0, F♯ (6) from tick 48 -/
example : ((latest .timeSignature (dfltSig .timeSignature ++ fileSigs 24 480 exFile exGroups [2]) 0).map tsVal,
           (latest .timeSignature (dfltSig .timeSignature ++ fileSigs 24 480 exFile exGroups [2]) 47).map tsVal,
           (latest .timeSignature (dfltSig .timeSignature ++ fileSigs 24 480 exFile exGroups [2]) 48).map tsVal,
           (latest .keySignature (dfltSig .keySignature ++ fileSigs 24 480 exFile exGroups [2]) 10).map keyVal,
           (latest .keySignature (dfltSig .keySignature ++ fileSigs 24 480 exFile exGroups [2]) 100).map keyVal)
    = (some (6, 8), some (6, 8), some (4, 4), some 9, some 6) := by
  rw [exFile_sigs]; decide

/-- the loaded meta sequence itself, evaluated by the kernel: the same answers -/
def exLoaded : Option (List (Option (Int × Int)) × List (Option Int)) :=
  match convert 24 480 exFile exGroups [2] 1 with
  | .ok out => match out[1]? with
    | some s => match s.readAbs with
      | .ok (_, a) => some ([0, 47, 48].map (fun t => (latest .timeSignature (eventsAbs a) t).map tsVal),
                            [10, 100].map (fun t => (latest .keySignature (eventsAbs a) t).map keyVal))
      | .error _ => none
    | none => none
  | .error _ => none

example : exLoaded = some ([some (6, 8), some (6, 8), some (4, 4)], [some 9, some 6]) := by decide +kernel

/-- first-group routing on `exFile`: track 1 is listed in both groups but FirstGroup says group 0 -/
example : FirstGroup exGroups 1 0 ∧ ¬ FirstGroup exGroups 1 1 ∧ FirstGroup exGroups 0 1 := by
  refine ⟨⟨⟨[1], rfl, by simp⟩, fun j g' hj => by omega⟩, ?_, ⟨⟨[0, 1], rfl, by simp⟩, ?_⟩⟩
  · intro h
    exact h.2 0 [1] (by decide) rfl (by simp)
  · intro j g' hj hg'
    have : j = 0 := by omega
    subst this
    simp [exGroups] at hg'
    subst hg'
    simp

/-- `routing_union_partial`: the same file with disjoint groups -/
example : ([[1], [0]] : List (List Nat)).flatten.Nodup := by decide

/-- `empty_group_error`, `bad_target_exact`, `convert_succeeds` on concrete groupings -/
example : convert 24 480 exFile [[0], []] [2] 0 = .error .indexError :=
  empty_group_error 24 480 exFile [[0], []] [2] 0 ⟨[], by simp, rfl⟩
example : convert 24 480 exFile exGroups [2] 2 = .error .valueError :=
  bad_target_exact 24 480 exFile exGroups [2] 2 (by decide) (by decide)
example : convert 24 480 exFile exGroups [2] (-1) = .error .valueError :=
  bad_target_exact 24 480 exFile exGroups [2] (-1) (by decide) (by decide)

/-- a track with an unclosed and an orphan note is not `NotesClosed`, its normalisation is
    (`routing_normalised` applies, `routing_first_group` does not) -/
def exRagged : List Msg := [Msg.mkOff 0 60 0, Msg.mkOn 0 60 64 5, Msg.mkOff 0 60 10, Msg.mkOn 0 61 64 12]
example : normTrack exRagged = [Msg.mkOn 0 60 64 5, Msg.mkOff 0 60 10, Msg.mkInternal 0 12] := by decide +kernel
example : ¬ NotesClosed exRagged := by
  intro h
  have := (h (0, 60)).2
  revert this
  decide
example : NotesClosed (normTrack exRagged) := by
  have e : normTrack exRagged = [Msg.mkOn 0 60 64 5, Msg.mkOff 0 60 10, Msg.mkInternal 0 12] := by decide +kernel
  rw [e]
  intro k
  apply cg_of_wf
  · intro k'
    simp only [altFrom, Msg.mkOn, Msg.mkOff, Msg.mkInternal, Msg.nkey]
    by_cases hk : ((0 : Int), (60 : Int)) = k' <;> simp [hk]
  · unfold C15.PosDur; decide

/-- `routing_orphans`: a track with an orphan note-off (tick 0) and two overlapping notes is `AllClosed`, its
    normalisation `NotesClosed`, although the track itself is not `NotesClosed` -/
def exOrphan : List Msg := [Msg.mkOff 0 60 0, Msg.mkOn 0 60 64 5, Msg.mkOn 0 60 70 8, Msg.mkOff 0 60 10, Msg.mkOff 0 60 20]
example : AllClosed exOrphan := by
  intro k
  simp only [exOrphan, depth, Msg.mkOn, Msg.mkOff, Msg.nkey]
  by_cases hk : ((0 : Int), (60 : Int)) = k <;> simp [hk]
example : ¬ NotesClosed exOrphan := by
  intro h
  have := (h (0, 60)).2
  revert this
  decide
example : NotesClosed (normTrack exOrphan) := by
  have e : normTrack exOrphan = [Msg.mkOn 0 60 64 5, Msg.mkOff 0 60 20] := by decide +kernel
  rw [e]
  intro k
  apply cg_of_wf
  · intro k'
    simp only [altFrom, Msg.mkOn, Msg.mkOff, Msg.nkey]
    by_cases hk : ((0 : Int), (60 : Int)) = k' <;> simp [hk]
  · unfold C15.PosDur; decide

/-- C12: two saved sequences that BOTH start with 4/4 at tick 0 (the case `hdist` excluded), the second
    changing to 3/4 and to key 8 at tick 24 -/
def exSaved : List (List Msg) :=
  [[Msg.mkTimeSig 0 4 4 pyNone, Msg.mkOn 0 60 64 pyNone, Msg.mkWait 0 24, Msg.mkOff 0 60 pyNone],
   [Msg.mkTimeSig 0 4 4 pyNone, Msg.mkWait 0 12, Msg.mkOn 0 62 100 pyNone, Msg.mkWait 0 12,
    Msg.mkTimeSig 0 3 4 pyNone, { ty := .keySignature, key := 8 }, Msg.mkOff 0 62 pyNone]]

theorem exSaved_saved : ∀ r ∈ exSaved, Saved r := by
  intro r hr
  simp only [exSaved, List.mem_cons, List.not_mem_nil, or_false] at hr
  rcases hr with rfl | rfl
  · refine ⟨⟨?_, ?_⟩, ?_, ?_, by unfold C15.PosDur; decide, ?_, ⟨0, ?_⟩⟩
    · simp [NonNegWaits, Msg.mkOn, Msg.mkOff, Msg.mkWait, Msg.mkTimeSig]
    · simp [Msg.mkOn, Msg.mkOff, Msg.mkWait, Msg.mkTimeSig]
    · simp [Msg.mkOn, Msg.mkOff, Msg.mkWait, Msg.mkTimeSig]
    · intro k
      simp only [altFrom, Msg.mkOn, Msg.mkOff, Msg.mkWait, Msg.mkTimeSig, Msg.nkey]
      by_cases hk : ((0 : Int), (60 : Int)) = k <;> simp [hk]
    · simp [Msg.mkOn, Msg.mkOff, Msg.mkWait, Msg.mkTimeSig, pyNone]
    · simp [Msg.mkOn, Msg.mkOff, Msg.mkWait, Msg.mkTimeSig]
  · refine ⟨⟨?_, ?_⟩, ?_, ?_, by unfold C15.PosDur; decide, ?_, ⟨0, ?_⟩⟩
    · simp [NonNegWaits, Msg.mkOn, Msg.mkOff, Msg.mkWait, Msg.mkTimeSig]
    · simp [Msg.mkOn, Msg.mkOff, Msg.mkWait, Msg.mkTimeSig]
    · simp [Msg.mkOn, Msg.mkOff, Msg.mkWait, Msg.mkTimeSig]
    · intro k
      simp only [altFrom, Msg.mkOn, Msg.mkOff, Msg.mkWait, Msg.mkTimeSig, Msg.nkey]
      by_cases hk : ((0 : Int), (62 : Int)) = k <;> simp [hk]
    · simp [Msg.mkOn, Msg.mkOff, Msg.mkWait, Msg.mkTimeSig, pyNone]
    · simp [Msg.mkOn, Msg.mkOff, Msg.mkWait, Msg.mkTimeSig]

/-- all hypotheses of `save_load_notes` / `save_load_time_signature_in_force` / `save_load_key_signature_in_force`
    hold for `exSaved`; the old `hdist` does not (two time signatures on tick 0) -/
example : (∀ r ∈ exSaved, Saved r)
    ∧ (∀ r ∈ exSaved, ∀ m ∈ r, m.ty = .timeSignature → (m.num, m.den) ≠ (pyNone, pyNone))
    ∧ (∀ r ∈ exSaved, ∀ m ∈ r, m.ty = .keySignature → m.key ≠ pyNone)
    ∧ ¬ (((exSaved.flatMap eventsRel).filter (fun m => m.ty == MType.timeSignature)).map (fun m => m.time)).Nodup :=
  ⟨exSaved_saved, by decide, by decide, by decide⟩

/-- and the round trip, evaluated by the kernel: notes and signatures in force come back -/
def exSavedLoaded : Option (List (List Note) × List (Option (Int × Int)) × Option Int) :=
  match saveLoad 24 exSaved with
  | .ok out =>
    match out.mapM (fun s => match s.readAbs with | .ok (_, a) => some (eventsAbs a) | .error _ => none) with
    | some as =>
      some (as.map notesOf,
        [0, 23, 24].map (fun t => (latest .timeSignature (as.headD []) t).map tsVal),
        (latest .keySignature (as.headD []) 30).map keyVal)
    | none => none
  | .error _ => none

example : exSavedLoaded = some ([[{ ch := 0, pitch := 60, on := 0, off := 24, vel := 64 }],
                                  [{ ch := 0, pitch := 62, on := 12, off := 24, vel := 100 }]],
                                 [some (4, 4), some (4, 4), some (3, 4)], some 8) := by decide +kernel

/-- the parser theorems on concrete messages: a `note_on` with velocity 0 on channel 3, and key "Bb" (9) -/
example : (parseMido { type := .noteOn, time := 7, channel := some 3, note := 60, velocity := 0 }).toOption
    = some { ty := .noteOff, ch := 3, time := 7, note := 60, vel := 0 } := by decide
example : savedKeyMsg 9 5 = some { type := .keySignature, time := 5, key := "Bb" }
    ∧ (parseMido { type := .keySignature, time := 5, key := "Bb" }).toOption
      = some { ty := .keySignature, ch := pyNone, time := 5, key := 9 } := by decide
example : (match parseMido { type := .keySignature, key := "H" } with | .error .keyError => true | _ => false) = true := by
  decide

end SCoda.C13b
