/-
  C04 over the generated wrapper WITHOUT fallback on the hand model (audit round 3, item R7, last bullet).

  `Props/C04d.lean` runs a history through the statement-by-statement translation of sequence.py
  (`Gen/WrapFns.lean`), but `C04d.genRun` silently executes the hand model's `exec` wherever
  `C04d.genExec` is `none`: `history_inv_gen` would still be provable if `genExec` were `none` for
  every operation.  Here:

  * `genExec2` adds the translated `Sequence.equals` (`Gen.Wrap.equals`, tie `WrapTie.equals_eq`);
  * `hasGen` is the decidable, input-level list of alphabet entries that have a translated
    counterpart, and `genExec2_isSome` says `genExec2` is defined EXACTLY there, for every state;
  * `genExec_total_statement` ("every entry has a translated counterpart") is FALSE and is kept as
    such, with the exact list of the three entries that have none and why;
  * `genRunStrict` uses only `genExec2` (it answers `none` at the first entry without translation):
    `history_inv_strict`, `history_readable_strict`, `views_agree_after_strict` are C04 with every
    step a translated method.
-/
import SCoda.Props.C04d
import SCoda.Props.AbsTie2
namespace SCoda.C04e
open SCoda SCoda.C04c SCoda.C04d

/-! ## the translated step, with `equals` -/

/-- the operation as the translated source executes it: `C04d.genExec`, plus `Sequence.equals`
    (sequence.py:159, translated as `Gen.Wrap.equals`; the flags are handed on in the order of the
    signature).  `none` exactly where `hasGen` is `false` (`genExec2_isSome`). -/
def genExec2 (e : Env) (s : Seq) : PubOp → Option (Except Err Seq)
  | .equals fl t => some ((·.1) <$> Gen.Wrap.equals e s t fl.ignoreCh fl.ignoreTs fl.ignoreKs fl.ignoreVel)
  | op => genExec e s op

/-- the alphabet entries that are whole-method calls of `Sequence` with a statement-by-statement
    translation in `Gen/WrapFns.lean`: everything except `editAbsFirst`, `editRelFirst`, `pairings`
    (see `genExec2_total_statement_false` for why those three have none) -/
def hasGen : PubOp → Bool
  | .editAbsFirst _ => false
  | .editRelFirst _ => false
  | .pairings => false
  | _ => true

/-- the entries covered by the original `C04d.genExec`: as `hasGen`, and not `equals` -/
def hasGen1 : PubOp → Bool
  | .equals _ _ => false
  | op => hasGen op

/-- **`genExec2` is defined exactly on the `hasGen` entries** — for every environment and state, so
    whether a step is a translated step depends on the operation only, never on the run. -/
theorem genExec2_isSome (e : Env) (s : Seq) (op : PubOp) : (genExec2 e s op).isSome = hasGen op := by
  cases op <;> rfl

/-- the original `C04d.genExec` is defined exactly on the `hasGen1` entries (no `equals`) -/
theorem genExec_isSome (e : Env) (s : Seq) (op : PubOp) : (genExec e s op).isSome = hasGen1 op := by
  cases op <;> rfl

/-- every `hasGen` entry has a translated step -/
theorem genExec2_total (e : Env) (s : Seq) (op : PubOp) (h : hasGen op = true) :
    ∃ r, genExec2 e s op = some r := by
  rw [← genExec2_isSome e s op] at h
  exact Option.isSome_iff_exists.1 h

/-- every entry without a translated step is one of the three listed ones -/
theorem hasGen_false_iff (op : PubOp) :
    hasGen op = false ↔ (∃ f, op = .editAbsFirst f) ∨ (∃ f, op = .editRelFirst f) ∨ op = .pairings := by
  cases op <;> simp [hasGen]

/-- **every translated step, `equals` included, is the step `exec` of the model** — same new state
    or same error (`C04d.genExec_eq` for the 22 older entries, `WrapTie.equals_eq` for `equals`). -/
theorem genExec2_eq (e : Env) (s : Seq) (op : PubOp) (r : Except Err Seq) (h : genExec2 e s op = some r) :
    r = exec e s op := by
  cases op
  case equals fl t =>
    simp only [genExec2, Option.some.injEq] at h
    subst h
    rw [WrapTie.equals_eq]
    cases fl
    simp only [exec]
    cases Seq.equalsSeq e _ s t <;> rfl
  all_goals exact genExec_eq e s _ r h

/-! ## the full statement is false: the entries without a translated counterpart -/

/-- "every entry of the alphabet is executed by a translated method" for the original `genExec` -/
def genExec_total_statement : Prop := ∀ (e : Env) (s : Seq) (op : PubOp), (C04d.genExec e s op).isSome

/-- the same for `genExec2` (with `equals`) -/
def genExec2_total_statement : Prop := ∀ (e : Env) (s : Seq) (op : PubOp), (genExec2 e s op).isSome

/-- FALSE (witness `pairings`; also `equals`, `editAbsFirst`, `editRelFirst`): see the list below. -/
theorem genExec_total_statement_false : ¬ genExec_total_statement := by
  intro h
  have := h e0 Seq.new .pairings
  simp [genExec_isSome, hasGen1, hasGen] at this

/-- FALSE.  **The alphabet entries WITHOUT a translated counterpart are exactly these three**
    (`hasGen_false_iff`, `genExec2_isSome`); a history containing one of them is outside
    `history_inv_strict` and is covered by `C04c.history_inv` (hand model + sampled
    correspondence `Driver.seqOp`) only:

    * `editAbsFirst f`, `editRelFirst f`: not a method call.  The consumer abandons the generator
      `messages_abs()` / `messages_rel()` (sequence.py:177-190, 192-205: `try: for message in
      self.abs._messages: self.invalidate_rel(); yield message  finally: self.invalidate_rel()`)
      after the first yielded message (harness/pyimpl.py:314-322: `for m in gen: …; e(m); break`,
      `gen.close()`).  The translator renders a generator method as "the consumer edits every
      yielded message with `f` and runs the iterator to its end" (tools/py2lean_wrap.py:14-16,
      391-400 `try/finally`: body then finally block, 409-422: `for x in … do … out := out ++ [f x]`),
      i.e. `Gen.Wrap.messagesAbs e s f` IS `editAbs f`; there is no translated term for the
      abandoned iteration (body once, then the `finally` block).
    * `pairings`: `Sequence.get_message_pairings` (sequence.py:306-325) is not in the wrapper
      translator's method list (tools/py2lean_wrap.py:42-56, `WrapTie.translated_covered`): it
      builds a dict of `ReadOnlyMessage` wrappers, outside the translated subset.  Its only effect
      on the state is that of `self.abs.get_message_pairings(…)` (sequence.py:316,
      absolute_sequence.py:387), a method of `AbsoluteSequence`, which IS translated, over the
      typed heap, in `Gen/AbsFns2.lean` (`Gen.Abs2.getMessagePairings`, ties
      `AbsTie2.pairings_eq` / `AbsTie2.pairings_init`) — not at the wrapper level.
      `pairings_gen_state` below composes that tie with `exec … .pairings`. -/
theorem genExec2_total_statement_false : ¬ genExec2_total_statement := by
  intro h
  have := h e0 Seq.new .pairings
  simp [genExec2_isSome, hasGen] at this

/-- what holds instead (`_partial`): on the decidable set `hasGen` the translated step exists and is
    the model's step -/
theorem genExec2_total_partial (e : Env) (s : Seq) (op : PubOp) (h : hasGen op = true) :
    genExec2 e s op = some (exec e s op) := by
  obtain ⟨r, hr⟩ := genExec2_total e s op h
  rw [hr, genExec2_eq e s op r hr]

/-- `pairings`, the one state-changing entry outside the wrapper translation: the state `exec`
    stores is the one the TRANSLATED `AbsoluteSequence.get_message_pairings` (Gen/AbsFns2.lean, typed
    heap) leaves — the absolute view `a` that was read, every message its own object, `_messages`
    re-sorted in place; the references it returns, read through the final heap, are the stored view.
    Any `message_types`, `standard_length`, `impute_notes`.  Side condition as in `AbsTie2`: no
    message has channel `None` (what `Message.__init__` guarantees). -/
theorem pairings_gen_state (e : Env) (s p : Seq) (a : List Msg) (types : Option (List MType)) (std : Int)
    (impute : Bool) (hs : s.readAbs = .ok (p, a)) (hc : AbsTie2.HeapChOk a) :
    ∃ h' refs mp, Gen.Abs2.getMessagePairings a (AbsTie2L.refsOf a) types std impute = .ok (h', refs, mp) ∧
      exec e s .pairings = .ok { p with abs := AbsTie2L.deref h' refs } := by
  obtain ⟨h', mp, h1, h2, _⟩ := AbsTie2.pairings_init a types std impute hc
  refine ⟨h', _, mp, h1, ?_⟩
  simp only [exec, hs, h2]
  rfl

/-! ## histories with no fallback -/

/-- a history executed by the translated methods ONLY: `none` as soon as an operation has no
    translated counterpart, `some (.error err)` when a translated operation raises -/
def genRunStrict (e : Env) (s : Seq) : List PubOp → Option (Except Err Seq)
  | [] => some (.ok s)
  | op :: ops => match genExec2 e s op with
    | none => none
    | some (.ok s') => genRunStrict e s' ops
    | some (.error err) => some (.error err)

/-- on histories of translated entries the strict run is defined and is the model's run -/
theorem genRunStrict_eq (e : Env) (ops : List PubOp) : ∀ (s : Seq), (∀ op ∈ ops, hasGen op = true) →
    genRunStrict e s ops = some (run e s ops) := by
  induction ops with
  | nil => intro s _; rfl
  | cons op ops ih =>
    intro s hg
    have h1 := genExec2_total_partial e s op (hg op List.mem_cons_self)
    simp only [genRunStrict, run, h1]
    cases exec e s op with
    | error x => rfl
    | ok s' => exact ih s' (fun o ho => hg o (List.mem_cons_of_mem _ ho))

/-- the strict run never completes a history that contains an entry without a translated
    counterpart: there is no fallback (it ends in `none`, or earlier in an error) -/
theorem genRunStrict_none (e : Env) (ops : List PubOp) : ∀ (s : Seq), (∃ op ∈ ops, hasGen op = false) →
    ∀ s', genRunStrict e s ops ≠ some (.ok s') := by
  induction ops with
  | nil => intro s ⟨_, h, _⟩; cases h
  | cons op ops ih =>
    intro s ⟨o, ho, hf⟩ s'
    simp only [genRunStrict]
    cases hg : genExec2 e s op with
    | none => simp
    | some r =>
      cases r with
      | error x => simp
      | ok s1 =>
        rcases List.mem_cons.1 ho with rfl | ho'
        · have := genExec2_isSome e s o
          rw [hg, hf] at this
          cases this
        · exact ih s1 ⟨o, ho', hf⟩ s'

/-- the strict run is defined exactly on histories of translated entries that do not raise earlier;
    in particular `none` always points at an entry of the three-element list -/
theorem genRunStrict_eq_none (e : Env) (ops : List PubOp) (s : Seq) (h : genRunStrict e s ops = none) :
    ∃ op ∈ ops, hasGen op = false := by
  apply Classical.byContradiction
  intro hc
  have hall : ∀ op ∈ ops, hasGen op = true := by
    intro op hop
    cases hh : hasGen op with
    | true => rfl
    | false => exact absurd ⟨op, hop, hh⟩ hc
  rw [genRunStrict_eq e ops s hall] at h
  cases h

/-- on histories of translated entries `C04d.genRun` never takes its fallback: it is the strict run -/
theorem genRun_uses_gen (e : Env) (ops : List PubOp) (s : Seq) (hg : ∀ op ∈ ops, hasGen op = true) :
    genRunStrict e s ops = some (genRun e s ops) := by
  rw [genRun_eq]; exact genRunStrict_eq e ops s hg

/-- **C04 for the translated source with no fallback on the model: every step is a translated
    method.**  From a state satisfying the invariant, any legal history over the translated entries
    (`hasGen`: all of the alphabet except `editAbsFirst`, `editRelFirst`, `pairings`), executed ONLY
    by the statement-by-statement translation of `sequence.py`, runs to the end without raising and
    ends in a state satisfying the wrapper invariant.  Closes audit round 3 item R7 (last bullet). -/
theorem history_inv_strict (e : Env) (he : EnvOk e) (ops : List PubOp) (s : Seq) (h : Inv s)
    (hl : ∀ op ∈ ops, Legal op) (hg : ∀ op ∈ ops, hasGen op = true) :
    ∃ s', genRunStrict e s ops = some (.ok s') ∧ Inv s' := by
  obtain ⟨s', hr, hi⟩ := history_inv e he ops s h hl
  exact ⟨s', by rw [genRunStrict_eq e ops s hg, hr], hi⟩

/-- … in which both views can be read ("no legal history leaves the sequence unreadable"): C04 for
    the translated source with no fallback on the model, every step is a translated method; closes
    audit round 3 item R7 (last bullet). -/
theorem history_readable_strict (e : Env) (he : EnvOk e) (ops : List PubOp) (s : Seq) (h : Inv s)
    (hl : ∀ op ∈ ops, Legal op) (hg : ∀ op ∈ ops, hasGen op = true) :
    ∃ s', genRunStrict e s ops = some (.ok s') ∧ (∃ p, s'.readAbs = .ok p) ∧ (∃ p, s'.readRel = .ok p) := by
  obtain ⟨s', hs, hi⟩ := history_inv_strict e he ops s h hl hg
  obtain ⟨⟨s1, h1, _⟩, ⟨s2, h2, _⟩⟩ := readable s' hi
  exact ⟨s', hs, ⟨_, h1⟩, ⟨_, h2⟩⟩

/-- … and both views, read through the translated properties `abs` / `rel` (`Gen.Wrap.getAbs`,
    `Gen.Wrap.getRel`), describe the same timed events and the same duration ("the views never
    diverge"); no fallback on the model anywhere.  Audit round 3 item R7 (last bullet). -/
theorem views_agree_after_strict (e : Env) (he : EnvOk e) (ops : List PubOp) (s : Seq) (h : Inv s)
    (hl : ∀ op ∈ ops, Legal op) (hg : ∀ op ∈ ops, hasGen op = true) :
    ∃ s' s1 s2 a r, genRunStrict e s ops = some (.ok s') ∧ Gen.Wrap.getAbs e s' = .ok (s1, a) ∧
      Gen.Wrap.getRel e s' = .ok (s2, r) ∧
      OkAbs a ∧ OkRel r ∧ (eventsAbs a).Perm (eventsRel r) ∧ durAbs a = durRel r := by
  obtain ⟨s', s1, s2, a, r, hr, h1, h2, h3⟩ := views_agree_after e he s h ops hl
  exact ⟨s', s1, s2, a, r, by rw [genRunStrict_eq e ops s hg, hr],
    by rw [WrapTie.getAbs_eq, h1], by rw [WrapTie.getRel_eq, h2], h3⟩

/-- the illegal-argument variant (`C04c.history_readable`): the stale-flag protocol alone keeps the
    sequence readable through translated steps only -/
theorem history_readable_illegal_strict (e : Env) (ops : List PubOp) (s : Seq) (h : WrapperL.Readable s)
    (hl : ∀ op ∈ ops, stepsUsed e op ≠ some [] ∧ ∀ fl t, op = .equals fl t → WrapperL.Readable t)
    (hg : ∀ op ∈ ops, hasGen op = true) :
    ∃ s', genRunStrict e s ops = some (.ok s') ∧ WrapperL.Readable s' := by
  obtain ⟨s', hr, hi⟩ := history_readable e ops s h hl
  exact ⟨s', by rw [genRunStrict_eq e ops s hg, hr], hi⟩

/-! ## non-vacuity -/

/-- `C04c.h0` contains `pairings`: it is NOT a history of translated entries, the strict run refuses it -/
example : h0.all hasGen = false ∧ (genRunStrict e0 (Seq.ofRel r0) h0).isNone = true := by
  constructor
  · rfl
  · rfl

/-- the other sequence handed to `equals`: one note, held as an absolute view only -/
def a1 : List Msg := [Msg.mkOn 0 60 64 0, Msg.mkOff 0 60 10]

theorem a1_ok : OkAbs a1 := by
  refine ⟨by simp [a1, TimeSorted, Msg.mkOn, Msg.mkOff], by simp [a1, NonNegTimes, Msg.mkOn, Msg.mkOff], by decide⟩

/-- a history of eleven translated operations from the "only relative fresh" state: a read, an
    absolute-side insertion, `quantise` with the default grid, a relative-side pad, an edit through
    `messages_rel()` run to its end, a `merge`, `equals` against another sequence (velocity ignored;
    re-sorts both absolute views in place), a `transpose` that wraps pitches, `copy`, an edit through
    `messages_abs()` run to its end, and a `split` -/
def h1 : List PubOp := [.readAbs, .addAbs (Msg.mkOn 0 64 64 24), .quantise Option.none, .pad 96,
  .editRel (fun m => { m with ch := 1 }), .merge [[Msg.mkOn 2 70 64 0, Msg.mkOff 2 70 12]],
  .equals { ignoreVel := true } (Seq.ofAbs a1), .transpose 50, .copy,
  .editAbs (fun m => { m with ch := 3 }), .split [48]]

theorem h1_hasGen : ∀ op ∈ h1, hasGen op = true := by
  intro op hop
  simp only [h1, List.mem_cons, List.not_mem_nil, or_false] at hop
  rcases hop with rfl | rfl | rfl | rfl | rfl | rfl | rfl | rfl | rfl | rfl | rfl <;> rfl

theorem h1_legal : ∀ op ∈ h1, Legal op := by
  intro op hop
  simp only [h1, List.mem_cons, List.not_mem_nil, or_false] at hop
  rcases hop with rfl | rfl | rfl | rfl | rfl | rfl | rfl | rfl | rfl | rfl | rfl
  · trivial
  · exact ⟨by simp [Msg.mkOn], by simp [Msg.mkOn]⟩
  · trivial
  · trivial
  · intro m h1 h2; exact ⟨h1, h2⟩
  · intro x hx
    simp only [List.mem_cons, List.not_mem_nil, or_false] at hx
    subst hx
    refine ⟨by simp [TimeSorted, Msg.mkOn, Msg.mkOff], by simp [NonNegTimes, Msg.mkOn, Msg.mkOff], by decide⟩
  · exact inv_ofAbs a1 a1_ok
  · trivial
  · trivial
  · exact ⟨fun m h => h, fun m h => h, fun m m' h => h⟩
  · trivial

/-- all hypotheses of `history_inv_strict` hold for `h1` from `Seq.ofRel r0` … -/
example : EnvOk e0 ∧ Inv (Seq.ofRel r0) ∧ (∀ op ∈ h1, Legal op) ∧ ∀ op ∈ h1, hasGen op = true :=
  ⟨envOk_defaults, inv_ofRel r0 r0_ok, h1_legal, h1_hasGen⟩

/-- … so the theorems apply … -/
example : ∃ s', genRunStrict e0 (Seq.ofRel r0) h1 = some (.ok s') ∧ Inv s' :=
  history_inv_strict e0 envOk_defaults h1 _ (inv_ofRel r0 r0_ok) h1_legal h1_hasGen

example : ∃ s', genRunStrict e0 (Seq.ofRel r0) h1 = some (.ok s') ∧ (∃ p, s'.readAbs = .ok p) ∧ (∃ p, s'.readRel = .ok p) :=
  history_readable_strict e0 envOk_defaults h1 _ (inv_ofRel r0 r0_ok) h1_legal h1_hasGen

/-- … and this is what the translated methods alone compute for `h1` (type rank, channel, tick,
    pitch; same format as the `h0` example of `C04c`): both views fresh after the `split`, two
    transposed and octave-wrapped notes and the merged note, all moved to channel 3 by the edit
    through `messages_abs()`, padded to 96 ticks -/
example : (genRunStrict e0 (Seq.ofRel r0) h1).map (fun r => r.toOption.map
      (fun s => (s.absStale, s.relStale, (WrapperL.absView s).map sig, (WrapperL.relView s).map sig))) =
    some (some (false, false,
      [(7, 3, 0, 98), (7, 3, 0, 108), (6, 3, 8, 98), (6, 3, 12, 108), (7, 3, 24, 100), (6, 3, 48, 100), (0, 3, 96, -1)],
      [(7, 3, -1, 98), (7, 3, -1, 108), (8, 3, 8, -1), (6, 3, -1, 98), (8, 3, 4, -1), (6, 3, -1, 108), (8, 3, 12, -1),
       (7, 3, -1, 100), (8, 3, 24, -1), (6, 3, -1, 100), (8, 3, 48, -1)])) := by
  rfl

/-- the notes of `r0` as an absolute view, with another velocity -/
def a2 : List Msg := [Msg.mkOn 0 60 10 0, Msg.mkOff 0 60 10, Msg.mkOn 0 62 10 24, Msg.mkOff 0 62 49]

/-- the translated `equals` step evaluated: from the "only relative fresh" state it regenerates the
    absolute view (flags fresh / fresh afterwards), leaves the relative view alone, … -/
example : (genExec2 e0 (Seq.ofRel r0) (.equals { ignoreVel := true } (Seq.ofAbs a2))).map (fun r => r.toOption.map
      (fun s => (s.absStale, s.relStale, (WrapperL.absView s).map sig, (WrapperL.relView s).map sig))) =
    some (some (false, false, [(7, 0, 0, 60), (6, 0, 10, 60), (7, 0, 24, 62), (6, 0, 49, 62)],
      [(7, 0, -1, 60), (8, 0, 10, -1), (6, 0, -1, 60), (8, 0, 14, -1), (7, 0, -1, 62), (8, 0, 25, -1), (6, 0, -1, 62)])) := by
  rfl

/-- … and its verdict (dropped by `genExec2`, which keeps the state only): equal with the velocity
    ignored, different otherwise -/
example : (Gen.Wrap.equals e0 (Seq.ofRel r0) (Seq.ofAbs a2) false false false true).toOption.map (·.2) = some true ∧
    (Gen.Wrap.equals e0 (Seq.ofRel r0) (Seq.ofAbs a2) false false false false).toOption.map (·.2) = some false := by
  decide +kernel

/-- a translated step that raises is reported as an error, not replaced by anything: `equals` against
    a sequence with both views stale, and `quantise` with an empty step list -/
example : genExec2 e0 Seq.new (.equals {} { Seq.new with absStale := true, relStale := true }) = some (.error .sequenceStale) ∧
    genRunStrict e0 (Seq.ofRel r0) [.readRel, .quantise (some []), .pad 3] = some (.error .indexError) := by
  constructor <;> rfl

/-- the three entries without a translated counterpart; `equals` is covered by `genExec2` only -/
example : hasGen (.editAbsFirst id) = false ∧ hasGen (.editRelFirst id) = false ∧ hasGen .pairings = false ∧
    hasGen (.equals {} Seq.new) = true ∧ hasGen1 (.equals {} Seq.new) = false := ⟨rfl, rfl, rfl, rfl, rfl⟩

/-- `pairings_gen_state` instantiated: the absolute view of `a2` in reverse order, no channel `None` -/
example : ∃ h' refs mp, Gen.Abs2.getMessagePairings a2.reverse (AbsTie2L.refsOf a2.reverse) none 24 true = .ok (h', refs, mp) ∧
    exec e0 (Seq.ofAbs a2.reverse) .pairings = .ok { Seq.ofAbs a2.reverse with abs := AbsTie2L.deref h' refs } :=
  pairings_gen_state e0 (Seq.ofAbs a2.reverse) _ a2.reverse none 24 true rfl (by decide)

#print axioms genExec2_isSome
#print axioms genExec_isSome
#print axioms genExec2_total
#print axioms hasGen_false_iff
#print axioms genExec2_eq
#print axioms genExec_total_statement_false
#print axioms genExec2_total_statement_false
#print axioms genExec2_total_partial
#print axioms pairings_gen_state
#print axioms genRunStrict_eq
#print axioms genRunStrict_none
#print axioms genRunStrict_eq_none
#print axioms genRun_uses_gen
#print axioms history_inv_strict
#print axioms history_readable_strict
#print axioms views_agree_after_strict
#print axioms history_readable_illegal_strict

end SCoda.C04e
