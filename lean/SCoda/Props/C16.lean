/-
  C16 — copies and derived sequences are independent values.
  Frame reasoning over the ownership machine of `Model/Heap.lean`: an object derived by a
  fresh-allocating derivation shares no message with its original, and then no history of
  own-writing operations on one side can change a message of the other side.
-/
import SCoda.Model.Heap
namespace SCoda.C16
open SCoda

def Disjoint (x y : Obj) : Prop := ∀ i, i ∈ x.ids → i ∉ y.ids

/-- the messages of an object as values -/
def Obj.values (h : Heap) (o : Obj) : List Msg × List Msg := (o.abs.map h.store, o.rel.map h.store)

/-! ### derivations allocate: the derived object shares nothing with anything that existed -/

theorem derive_disjoint (h h' : Heap) (o d : Obj) (ha : o.Allocated h) (hd : Derive h h' d) :
    Disjoint d o ∧ Disjoint o d ∧ d.Allocated h' ∧ o.Allocated h' ∧ Obj.values h' o = Obj.values h o := by
  refine ⟨?_, ?_, ?_, ?_, ?_⟩
  · intro i hi hio
    have := (hd.fresh i hi).1
    have := ha i hio
    omega
  · intro i hio hi
    have := (hd.fresh i hi).1
    have := ha i hio
    omega
  · intro i hi; exact (hd.fresh i hi).2
  · intro i hi; have := ha i hi; have := hd.mono; omega
  · have hst : ∀ i ∈ o.ids, h'.store i = h.store i := fun i hi => hd.frame i (ha i hi)
    simp only [Obj.values, Prod.mk.injEq]
    constructor
    · apply List.map_congr_left; intro i hi; exact hst i (by simp [Obj.ids, hi])
    · apply List.map_congr_left; intro i hi; exact hst i (by simp [Obj.ids, hi])

/-! ### frame: an own-writing operation on `x` cannot touch a disjoint `o` -/

theorem frame (h h' : Heap) (x x' o : Obj) (hx : x.Allocated h) (ho : o.Allocated h)
    (hdis : Disjoint x o) (hs : OwnStep h h' x x') :
    Obj.values h' o = Obj.values h o ∧ Disjoint x' o ∧ x'.Allocated h' ∧ o.Allocated h' := by
  have hst : ∀ i ∈ o.ids, h'.store i = h.store i := by
    intro i hi
    apply hs.frame i (ho i hi)
    intro hxi; exact hdis i hxi hi
  refine ⟨?_, ?_, ?_, ?_⟩
  · simp only [Obj.values, Prod.mk.injEq]
    constructor
    · apply List.map_congr_left; intro i hi; exact hst i (by simp [Obj.ids, hi])
    · apply List.map_congr_left; intro i hi; exact hst i (by simp [Obj.ids, hi])
  · intro i hi hio
    rcases hs.own i hi with h1 | h1
    · exact hdis i h1 hio
    · have := ho i hio; omega
  · intro i hi
    rcases hs.own i hi with h1 | h1
    · have := hx i h1; have := hs.mono; omega
    · exact h1.2
  · intro i hi; have := ho i hi; have := hs.mono; omega

/-- a history of own-writing operations on one side -/
inductive History : Heap → Obj → Heap → Obj → Prop
  | nil (h : Heap) (x : Obj) : History h x h x
  | cons {h h1 h2 : Heap} {x x1 x2 : Obj} : OwnStep h h1 x x1 → History h1 x1 h2 x2 → History h x h2 x2

/-- **independence**: whatever public operations are applied to one side, the other side's messages
    (both views) are unchanged, and the two sides stay disjoint -/
theorem independent {h h' : Heap} {x x' : Obj} (hist : History h x h' x') (o : Obj)
    (hx : x.Allocated h) (ho : o.Allocated h) (hdis : Disjoint x o) :
    Obj.values h' o = Obj.values h o ∧ Disjoint x' o ∧ x'.Allocated h' ∧ o.Allocated h' := by
  induction hist with
  | nil h x => exact ⟨rfl, hdis, hx, ho⟩
  | cons hs _ ih =>
    obtain ⟨hv, hd, hxa, hoa⟩ := frame _ _ _ _ o hx ho hdis hs
    obtain ⟨hv2, hd2, hxa2, hoa2⟩ := ih hxa hoa hd
    exact ⟨hv2.trans hv, hd2, hxa2, hoa2⟩

/-! ### the concrete identity behaviours are instances -/

theorem copyAll_spec (h : Heap) (ids : List Nat) (hall : ∀ i ∈ ids, i < h.next) :
    h.next ≤ (h.copyAll ids).1.next ∧ (∀ i, i < h.next → (h.copyAll ids).1.store i = h.store i)
      ∧ (∀ j ∈ (h.copyAll ids).2, h.next ≤ j ∧ j < (h.copyAll ids).1.next)
      ∧ (h.copyAll ids).2.map (h.copyAll ids).1.store = ids.map h.store := by
  induction ids generalizing h with
  | nil => simp [Heap.copyAll]
  | cons i is ih =>
    simp only [Heap.copyAll, Heap.alloc]
    have hi : i < h.next := hall i (by simp)
    have his : ∀ k ∈ is, k < h.next := fun k hk => hall k (by simp [hk])
    obtain ⟨h1, h2, h3, h4⟩ :=
      ih { store := fun k => if k = h.next then h.store i else h.store k, next := h.next + 1 }
        (fun k hk => by have := his k hk; simp only; omega)
    simp only at h1 h2 h3 h4
    refine ⟨by omega, ?_, ?_, ?_⟩
    · intro k hk
      rw [h2 k (by omega)]
      have : k ≠ h.next := by omega
      simp [this]
    · intro j hj
      simp only [List.mem_cons] at hj
      rcases hj with rfl | hj
      · exact ⟨Nat.le_refl _, by omega⟩
      · have := h3 j hj; omega
    · simp only [List.map_cons, List.cons.injEq]
      refine ⟨?_, ?_⟩
      · rw [h2 h.next (by omega)]; simp
      · rw [h4]
        apply List.map_congr_left
        intro k hk
        have : k ≠ h.next := by have := his k hk; omega
        simp [this]

/-- `copy()` is a derivation, and the copy's messages equal the original's (a copy equals its original) -/
theorem copy_derive (h : Heap) (o : Obj) (ha : o.Allocated h) :
    Derive h (o.copy h).1 (o.copy h).2 ∧ Obj.values (o.copy h).1 (o.copy h).2 = Obj.values h o := by
  have ha1 : ∀ i ∈ o.abs, i < h.next := fun i hi => ha i (by simp [Obj.ids, hi])
  have ha2 : ∀ i ∈ o.rel, i < h.next := fun i hi => ha i (by simp [Obj.ids, hi])
  obtain ⟨a1, a2, a3, a4⟩ := copyAll_spec h o.abs ha1
  have ha2' : ∀ i ∈ o.rel, i < (h.copyAll o.abs).1.next := fun i hi => by have := ha2 i hi; omega
  obtain ⟨b1, b2, b3, b4⟩ := copyAll_spec (h.copyAll o.abs).1 o.rel ha2'
  simp only [Obj.copy]
  refine ⟨⟨by omega, ?_, ?_⟩, ?_⟩
  · intro i hi
    rw [b2 i (by omega), a2 i hi]
  · intro i hi
    simp only [Obj.ids, List.mem_append] at hi
    rcases hi with hi | hi
    · have := a3 i hi; omega
    · have := b3 i hi; omega
  · simp only [Obj.values, Prod.mk.injEq]
    refine ⟨?_, ?_⟩
    · rw [← a4]
      apply List.map_congr_left
      intro j hj
      exact b2 j (a3 j hj).2
    · rw [b4]
      apply List.map_congr_left
      intro k hk
      exact a2 k (ha2 k hk)

/-- in-place edits through either view are own-writing steps -/
theorem editRel_ownStep (h : Heap) (o : Obj) (f : Msg → Msg) :
    OwnStep h (o.editRel h f).1 o (o.editRel h f).2 := by
  refine ⟨Nat.le_refl _, ?_, ?_⟩
  · intro i _ hi
    simp only [Obj.editRel]
    have : i ∉ o.rel := fun hr => hi (by simp [Obj.ids, hr])
    simp [this]
  · intro i hi; exact Or.inl hi

theorem editAbs_ownStep (h : Heap) (o : Obj) (f : Msg → Msg) :
    OwnStep h (o.editAbs h f).1 o (o.editAbs h f).2 := by
  refine ⟨Nat.le_refl _, ?_, ?_⟩
  · intro i _ hi
    simp only [Obj.editAbs]
    have : i ∉ o.abs := fun hr => hi (by simp [Obj.ids, hr])
    simp [this]
  · intro i hi; exact Or.inl hi

/-- the *unrepaired* `split` (D13: pieces hold the source's own message objects) is **not** a
    derivation: a piece sharing an identity with its source violates `Derive.fresh` -/
theorem sharing_is_not_derivation (h h' : Heap) (o d : Obj) (ha : o.Allocated h) (i : Nat)
    (hi : i ∈ o.ids) (hd : i ∈ d.ids) : ¬ Derive h h' d := by
  intro hder
  have := (hder.fresh i hd).1
  have := ha i hi
  omega

/-! non-vacuity: a two-message sequence, its copy, and an in-place edit of the copy -/
def exHeap : Heap := { store := fun i => if i = 0 then Msg.mkOn 0 60 64 pyNone else Msg.mkOff 0 60 pyNone, next := 2 }
def exObj : Obj := { abs := [], rel := [0, 1] }
example : exObj.Allocated exHeap := by
  intro i hi; simp [Obj.ids, exObj] at hi; rcases hi with rfl | rfl <;> simp [exHeap]
example : (exObj.copy exHeap).2 = { abs := [], rel := [2, 3] } := by decide

end SCoda.C16
