/-
  C08 — splitting a sequence conserves duration, sound and events with exact capacities.
  `split r caps` is the fuel-driven model of `RelativeSequence.split` (after the repair of D7).
  "Laid end to end" is list concatenation of the relative pieces (`pieces.flatten`): the clock of a
  relative list is the running sum of its waits.
-/
import SCoda.Model.Split
import SCoda.Model.Roll
import SCoda.Lemmas.Split
import SCoda.Lemmas.SplitNotes
namespace SCoda.C08
open SCoda SCoda.SplitL

def sumInt : List Int → Int
  | [] => 0
  | x :: xs => x + sumInt xs

/-- cumulative capacities: the boundaries -/
def cumSums : Int → List Int → List Int
  | _, [] => []
  | acc, c :: cs => (acc + c) :: cumSums (acc + c) cs

/-- the loop always terminates within its fuel: `split` never reports `.fuel` (a termination proof) -/
theorem split_total (r : List Msg) (caps : List Int) : ∃ pieces, split r caps = .ok pieces := by
  obtain ⟨s, hs⟩ := splitOuter_total caps { wm := r }
  refine ⟨(if (s.cur.reverse ++ s.wm).length > 0 then (s.cur.reverse ++ s.wm) :: s.pieces else s.pieces).reverse, ?_⟩
  simp only [split, hs, bind, Except.bind]

/-- at most one piece more than there are capacities -/
theorem count (r : List Msg) (caps : List Int) (pieces : List (List Msg)) (h : split r caps = .ok pieces) :
    pieces.length ≤ caps.length + 1 := by
  obtain ⟨s, hs, rfl⟩ := split_eq r caps pieces h
  obtain ⟨_, new, hp, hl, _⟩ := splitOuter_shape caps _ s hs rfl
  simp only [List.append_nil] at hp
  rw [List.length_reverse, hp]
  split
  · omega
  · simp only [List.length_cons]; omega

/-- no piece is empty -/
theorem nonempty (r : List Msg) (caps : List Int) (pieces : List (List Msg)) (h : split r caps = .ok pieces) :
    ∀ p ∈ pieces, p ≠ [] := by
  obtain ⟨s, hs, rfl⟩ := split_eq r caps pieces h
  obtain ⟨_, new, hp, _, hn⟩ := splitOuter_shape caps _ s hs rfl
  simp only [List.append_nil] at hp
  intro p hpm
  rw [List.mem_reverse, hp] at hpm
  split at hpm
  · exact hn p hpm
  · rename_i hne
    rcases List.mem_cons.1 hpm with rfl | hpm
    · exact hne
    · exact hn p hpm

theorem cumSums_eq (a : Int) (cs : List Int) : cumSums a cs = cums a cs := by
  induction cs generalizing a with
  | nil => rfl
  | cons c cs ih => simp only [cumSums, cums, ih]

theorem sumInt_map_durRel (ps : List (List Msg)) : sumInt (ps.map durRel) = totalWait ps.flatten := by
  induction ps with
  | nil => rfl
  | cons p ps ih => simp only [List.map_cons, sumInt, ih, List.flatten_cons, totalWait_append, durRel]

/-- what `split` does to durations and non-note events, for positive capacities and non-negative waits -/
theorem split_spec (r : List Msg) (caps : List Int) (pieces : List (List Msg)) (h : split r caps = .ok pieces)
    (hpos : ∀ c ∈ caps, 0 < c) (hw : NonNegWaits r) :
    ∃ (new : List (List Msg)) (wm : List Msg), pieces = new ++ (if wm = [] then [] else [wm]) ∧
      totalWait (new.flatten ++ wm) = totalWait r ∧
      (N 0 (new.flatten ++ wm)).Sublist (N 0 r) ∧
      ((new.map totalWait = caps ∧ N 0 (new.flatten ++ wm) = N 0 r) ∨
       (wm = [] ∧ ∃ full last : List (List Msg), new = full ++ last ∧ last.length ≤ 1 ∧ full.length < caps.length ∧
          full.map totalWait = caps.take full.length ∧
          (N 0 new.flatten = N 0 r ∨
            (0 + totalWait r ∈ cums 0 caps ∧ ∃ e ∈ N 0 r, e.time = 0 + totalWait r)))) := by
  obtain ⟨s, hs, rfl⟩ := split_eq r caps pieces h
  obtain ⟨hc, new, hp, h1, h2, h3⟩ := splitOuter_timing caps 0 _ s hpos rfl hw hs
  simp only [List.append_nil] at hp
  refine ⟨new, s.wm, ?_, h1, h2, h3⟩
  rw [hc, hp]
  simp only [List.reverse_nil, List.nil_append]
  by_cases hwm : s.wm = []
  · simp [hwm]
  · simp [hwm]

theorem split_spec_flatten (new : List (List Msg)) (wm : List Msg) :
    (new ++ (if wm = [] then [] else [wm])).flatten = new.flatten ++ wm := by
  split
  · rename_i h; simp [h]
  · simp

theorem exact_aux (full tail : List (List Msg)) (caps : List Int) (h1 : tail.length ≤ 1)
    (h2 : full.map totalWait = caps.take full.length) :
    ∀ i, i + 1 < (full ++ tail).length →
      ∃ c, caps[i]? = some c ∧ ((full ++ tail)[i]?.map durRel) = some c := by
  intro i hi
  have hif : i < full.length := by simp only [List.length_append] at hi; omega
  refine ⟨totalWait full[i], ?_, ?_⟩
  · have : (caps.take full.length)[i]? = caps[i]? := by
      rw [List.getElem?_take]; simp [hif]
    rw [← this, ← h2]
    simp [hif]
  · rw [List.getElem?_append_left hif]
    simp [hif, durRel]

/-- every piece except the last lasts exactly its capacity -/
theorem exact (r : List Msg) (caps : List Int) (pieces : List (List Msg)) (h : split r caps = .ok pieces)
    (hpos : ∀ c ∈ caps, 0 < c) (hw : NonNegWaits r) :
    ∀ i, i + 1 < pieces.length → ∃ c, caps[i]? = some c ∧ (pieces[i]?.map durRel) = some c := by
  obtain ⟨new, wm, rfl, _, _, hd⟩ := split_spec r caps pieces h hpos hw
  rcases hd with ⟨hm, _⟩ | ⟨hwm, full, last, rfl, hl, _, hft, _⟩
  · apply exact_aux
    · split <;> simp
    · have : caps.length = new.length := by rw [← hm]; simp
      rw [← this, List.take_length]; exact hm
  · subst hwm
    simp only [if_true, List.append_nil]
    exact exact_aux full last caps hl hft

/-- the piece durations sum to the original duration -/
theorem sum (r : List Msg) (caps : List Int) (pieces : List (List Msg)) (h : split r caps = .ok pieces)
    (hpos : ∀ c ∈ caps, 0 < c) (hw : NonNegWaits r) :
    sumInt (pieces.map durRel) = durRel r := by
  obtain ⟨new, wm, rfl, ht, _, _⟩ := split_spec r caps pieces h hpos hw
  rw [sumInt_map_durRel, split_spec_flatten, ht]; rfl

/-- the final tick is a boundary and a zero-time event other than a note-off sits on it (known finding D8) -/
def FinalBoundaryEvent (r : List Msg) (caps : List Int) : Prop :=
  durRel r ∈ cumSums 0 caps ∧ ∃ m ∈ eventsRel r, m.time = durRel r ∧ m.ty ≠ .noteOff

/-- every non-note event at its original tick — outside the D8 class -/
theorem others_partial (r : List Msg) (caps : List Int) (pieces : List (List Msg)) (h : split r caps = .ok pieces)
    (hpos : ∀ c ∈ caps, 0 < c) (hw : NonNegWaits r) (hd8 : ¬ FinalBoundaryEvent r caps) :
    nonNotes (eventsRel pieces.flatten) = nonNotes (eventsRel r) := by
  obtain ⟨new, wm, rfl, ht, _, hd⟩ := split_spec r caps pieces h hpos hw
  rw [split_spec_flatten]
  rcases hd with ⟨_, hN⟩ | ⟨hwm, full, last, rfl, hl, _, hft, hd⟩
  · exact hN
  · subst hwm
    rcases hd with hN | ⟨hcm, e, he, het⟩
    · simpa [N, eventsRel] using hN
    · exfalso
      apply hd8
      simp only [Int.zero_add] at hcm het
      obtain ⟨he1, he2⟩ := N_mem_eventsRelGo 0 r e he
      exact ⟨by rw [cumSums_eq]; exact hcm, e, he1, het, he2⟩

/-- in general nothing is invented or moved: the non-note events of the pieces are a sublist of the original's -/
theorem others_sublist (r : List Msg) (caps : List Int) (pieces : List (List Msg)) (h : split r caps = .ok pieces)
    (hpos : ∀ c ∈ caps, 0 < c) (hw : NonNegWaits r) :
    (nonNotes (eventsRel pieces.flatten)).Sublist (nonNotes (eventsRel r)) := by
  obtain ⟨new, wm, rfl, _, hs, _⟩ := split_spec r caps pieces h hpos hw
  rw [split_spec_flatten]
  exact hs

/-- the full statement is false on the current tree: D8 -/
def d8r : List Msg := [Msg.mkOn 0 60 64 pyNone, Msg.mkWait 0 24, Msg.mkOff 0 60 pyNone, Msg.mkTimeSig 0 3 4 pyNone]
theorem split_drops_final_boundary_event :
    ∃ pieces, split d8r [24] = .ok pieces ∧ nonNotes (eventsRel pieces.flatten) ≠ nonNotes (eventsRel d8r) := by
  refine ⟨_, rfl, ?_⟩
  decide

/-! ### notes: `closed` and `sound` are false as stated (a zero-length note on a boundary)

  A note-on that falls exactly on a boundary is deferred to the next piece, but a note-off is never
  deferred.  If the note has length zero (its note-off follows at the same tick), the note-off is
  written to the piece that ends on the boundary and the note-on opens the next piece: both pieces
  are ill-formed and, laid end to end, the key sounds for ever.  The full statements are kept below as
  `closed_statement` / `sound_statement`, refuted by `zr`, and proved under the extra hypothesis
  `NoZeroNotes r` (defined in `SCoda/Lemmas/SplitNotes.lean`: for every key, a positive wait lies
  between a note-on and the next note-off). -/

/-- the common unpacking for the note theorems -/
theorem split_notes (r : List Msg) (caps : List Int) (pieces : List (List Msg)) (h : split r caps = .ok pieces)
    (hpos : ∀ c ∈ caps, 0 < c) (hw : NonNegWaits r) (hwf : WF r) (hz : NoZeroNotes r) (k : Int × Int) (t : Int) :
    ∃ (new : List (List Msg)) (wm : List Msg), pieces = new ++ (if wm = [] then [] else [wm]) ∧
      (∀ p ∈ new, WF p) ∧ WF wm ∧ ∀ d, Dp k t 0 (new.flatten ++ wm) d = Dp k t 0 r d := by
  obtain ⟨s, hs, rfl⟩ := split_eq r caps pieces h
  obtain ⟨hc, hA, new, hp, hwfn, hD⟩ :=
    splitOuter_notes k t caps 0 { wm := r } s hpos rfl hw (AltO.init r hwf hz) hs
  simp only [List.append_nil] at hp
  refine ⟨new, s.wm, ?_, hwfn, hA.wf, hD⟩
  rw [hc, hp]
  simp only [List.reverse_nil, List.nil_append]
  by_cases hwm : s.wm = []
  · simp [hwm]
  · simp [hwm]

/-- no piece ends with a note still sounding, and every piece is well-formed on its own (full statement: false) -/
def closed_statement : Prop :=
  ∀ (r : List Msg) (caps : List Int) (pieces : List (List Msg)) (_h : split r caps = .ok pieces)
    (_hpos : ∀ c ∈ caps, 0 < c) (_hw : NonNegWaits r) (_hwf : WF r),
    ∀ p ∈ pieces, WF p

/-- no piece ends with a note still sounding, and every piece is well-formed on its own —
    provided no note has zero length -/
theorem closed_partial (r : List Msg) (caps : List Int) (pieces : List (List Msg)) (h : split r caps = .ok pieces)
    (hpos : ∀ c ∈ caps, 0 < c) (hw : NonNegWaits r) (hwf : WF r) (hz : NoZeroNotes r) :
    ∀ p ∈ pieces, WF p := by
  obtain ⟨new, wm, rfl, hn, hwm, _⟩ := split_notes r caps pieces h hpos hw hwf hz (0, 0) 0
  intro p hp
  rcases List.mem_append.1 hp with hp | hp
  · exact hn p hp
  · split at hp
    · simp at hp
    · simp only [List.mem_singleton] at hp
      subst hp; exact hwm

/-- laid end to end, the pieces reproduce exactly the original set of sounding (channel, pitch, tick)
    triples: notes crossing a boundary are cut there and re-struck (full statement: false) -/
def sound_statement : Prop :=
  ∀ (r : List Msg) (caps : List Int) (pieces : List (List Msg)) (_h : split r caps = .ok pieces)
    (_hpos : ∀ c ∈ caps, 0 < c) (_hw : NonNegWaits r) (_hwf : WF r) (k : Int × Int) (t : Int),
    SoundingAt (eventsRel pieces.flatten) k t ↔ SoundingAt (eventsRel r) k t

/-- laid end to end, the pieces reproduce exactly the original set of sounding (channel, pitch, tick)
    triples: notes crossing a boundary are cut there and re-struck — provided no note has zero length -/
theorem sound_partial (r : List Msg) (caps : List Int) (pieces : List (List Msg)) (h : split r caps = .ok pieces)
    (hpos : ∀ c ∈ caps, 0 < c) (hw : NonNegWaits r) (hwf : WF r) (hz : NoZeroNotes r) (k : Int × Int) (t : Int) :
    SoundingAt (eventsRel pieces.flatten) k t ↔ SoundingAt (eventsRel r) k t := by
  obtain ⟨new, wm, rfl, _, _, hD⟩ := split_notes r caps pieces h hpos hw hwf hz k t
  rw [split_spec_flatten]
  have := hD 0
  simp only [Dp] at this
  simp only [SoundingAt, eventsRel, this]

/-- the counterexample: a zero-length note on the boundary -/
def zr : List Msg := [Msg.mkWait 0 24, Msg.mkOn 0 60 64 pyNone, Msg.mkOff 0 60 pyNone, Msg.mkWait 0 1]

theorem zr_ok : WF zr ∧ NonNegWaits zr ∧ ¬ NoZeroNotes zr := by
  refine ⟨wf_of_keys zr (by decide), by unfold NonNegWaits; decide, ?_⟩
  intro h
  exact absurd (h (0, 60)) (by decide)

theorem zr_split : split zr [24] = .ok [[Msg.mkWait 0 24, Msg.mkOff 0 60 pyNone], [Msg.mkOn 0 60 64 pyNone, Msg.mkWait 0 1]] := rfl

theorem closed_statement_false : ¬ closed_statement := by
  intro hcl
  have := hcl zr [24] _ zr_split (by decide) zr_ok.2.1 zr_ok.1 [Msg.mkWait 0 24, Msg.mkOff 0 60 pyNone] (by simp)
  rw [wf_iff] at this
  exact absurd (this (0, 60)) (by decide)

theorem sound_statement_false : ¬ sound_statement := by
  intro hs
  have := hs zr [24] _ zr_split (by decide) zr_ok.2.1 zr_ok.1 (0, 60) 24
  simp only [SoundingAt] at this
  revert this
  decide

set_option linter.unusedVariables false in
/-- a re-struck fragment carries the velocity of the note it was cut from: every note-on of the pieces
    has the velocity of an original note-on of the same channel and pitch at or before its tick
    (the proof does not need `hwf`) -/
theorem velocity (r : List Msg) (caps : List Int) (pieces : List (List Msg)) (h : split r caps = .ok pieces)
    (hpos : ∀ c ∈ caps, 0 < c) (hw : NonNegWaits r) (hwf : WF r) :
    ∀ m ∈ eventsRel pieces.flatten, m.ty = .noteOn →
      ∃ m0 ∈ eventsRel r, m0.ty = .noteOn ∧ m0.nkey = m.nkey ∧ m0.vel = m.vel ∧ m0.time ≤ m.time := by
  obtain ⟨s, hs, rfl⟩ := split_eq r caps pieces h
  have hev0 : VelEv (eventsRel r) 0 r := fun e he hty => ⟨e, he, hty, rfl, rfl, Int.le_refl _⟩
  obtain ⟨new, hp, hc, hev⟩ := splitOuter_vel (eventsRel r) caps 0 { wm := r } s hpos rfl hw
    hev0 (by intro kv hkv; simp at hkv) hs
  simp only [List.append_nil] at hp
  have hfl : (if s.cur.reverse ++ s.wm = [] then s.pieces else (s.cur.reverse ++ s.wm) :: s.pieces).reverse.flatten
      = new.flatten ++ s.wm := by
    rw [hc, hp]
    simp only [List.reverse_nil, List.nil_append]
    by_cases hwm : s.wm = []
    · simp [hwm]
    · simp [hwm]
  rw [hfl]
  exact hev

/-! non-vacuity: a note crossing two boundaries, an event on a boundary -/
def exr : List Msg := [Msg.mkOn 0 60 64 pyNone, Msg.mkWait 0 24, Msg.mkTimeSig 0 3 4 pyNone, Msg.mkWait 0 30,
                       Msg.mkOff 0 60 pyNone, Msg.mkWait 0 6]
example : ∃ pieces, split exr [24, 24] = .ok pieces ∧ pieces.length = 3 ∧ pieces.map durRel = [24, 24, 12] := by
  refine ⟨_, rfl, ?_, ?_⟩ <;> decide
example : WF exr ∧ NonNegWaits exr ∧ ¬ FinalBoundaryEvent exr [24, 24] := by
  refine ⟨wf_of_keys exr (by decide), by unfold NonNegWaits; decide, ?_⟩
  rintro ⟨h, _⟩
  revert h
  decide
/-- the extra hypothesis of `closed_partial` / `sound_partial` is satisfiable, too -/
example : NoZeroNotes exr := noZero_of_keys exr (by decide)

end SCoda.C08
