/-
  C04 over the *generated* wrapper: the history theorems of `Props/C04c.lean` are about `exec`, which
  calls the hand-written wrapper model `SCoda.Seq.*`; `Props/WrapTie.lean` proves each of those functions
  equal to the statement-by-statement translation of sequence.py (`Gen/WrapFns.lean`, regenerated on
  every run).  Here the two are composed: a history run through the translated methods preserves the
  invariant, stays readable and keeps both views in agreement.
-/
import SCoda.Props.C04c
import SCoda.Props.WrapTie
namespace SCoda.C04d
open SCoda SCoda.C04c

/-- other sequences handed to `concatenate` / `merge` as whole `Sequence` objects holding the given view -/
def relArgs (o : List (List Msg)) : List Seq := o.map Seq.ofRel
def absArgs (o : List (List Msg)) : List Seq := o.map Seq.ofAbs

/-- the operation as the translated source executes it; `none` for the alphabet entries that are not
    whole-method calls of `Sequence` (abandoning an iterator after the first message, the in-place sort
    done by the pairing helpers, `equals`) -/
def genExec (e : Env) (s : Seq) : PubOp → Option (Except Err Seq)
  | .readAbs => some ((·.1) <$> Gen.Wrap.getAbs e s)
  | .readRel => some ((·.1) <$> Gen.Wrap.getRel e s)
  | .refresh => some ((·.1) <$> Gen.Wrap.refresh e s)
  | .copy => some ((·.2) <$> Gen.Wrap.copy e s)
  | .addAbs m => some ((·.1) <$> Gen.Wrap.addAbsoluteMessage e s m)
  | .addRel m i => some ((·.1) <$> Gen.Wrap.addRelativeMessage e s m i)
  | .normalise => some ((·.1) <$> Gen.Wrap.normalise e s)
  | .pad n => some ((·.1) <$> Gen.Wrap.pad e s n)
  | .setChannel c => some ((·.1) <$> Gen.Wrap.setChannel e s c)
  | .cutoff m r => some ((·.1) <$> Gen.Wrap.cutoff e s m r)
  | .quantise st => some ((·.1) <$> Gen.Wrap.quantise e s st)
  | .qnl v dne => some ((·.1) <$> Gen.Wrap.quantiseNoteLengths e s v e.ppqn dne)
  | .quantiseAndNormalise => some ((·.1) <$> Gen.Wrap.quantiseAndNormalise e s none none e.ppqn false)
  | .concat o => some ((·.1) <$> Gen.Wrap.concatenate e s (relArgs o))
  | .merge o => some ((·.1) <$> Gen.Wrap.merge e s (absArgs o))
  | .overwriteAbs ms => some ((·.1) <$> Gen.Wrap.overwriteAbsoluteMessages e s ms)
  | .overwriteRel ms => some ((·.1) <$> Gen.Wrap.overwriteRelativeMessages e s ms)
  | .editAbs f => some ((·.1) <$> Gen.Wrap.messagesAbs e s f)
  | .editRel f => some ((·.1) <$> Gen.Wrap.messagesRel e s f)
  | .transpose b => some ((·.1) <$> Gen.Wrap.transpose e s b)
  | .scale k q => some ((·.1) <$> Gen.Wrap.scale e s k none q)
  | .split caps => some ((·.1) <$> Gen.Wrap.split e s caps)
  | _ => none

theorem fst_unit {α} (x : Except Err α) : (·.1) <$> WrapTie.unit x = x := by cases x <;> rfl

theorem readRels_relArgs (o : List (List Msg)) : WrapTie.readRels (relArgs o) = .ok o := by
  induction o with
  | nil => rfl
  | cons x xs ih =>
    simp only [WrapTie.readRels, relArgs, List.map_cons, List.mapM_cons] at ih ⊢
    rw [ih]; rfl

theorem readAbss_absArgs (o : List (List Msg)) : WrapTie.readAbss (absArgs o) = .ok o := by
  induction o with
  | nil => rfl
  | cons x xs ih =>
    simp only [WrapTie.readAbss, absArgs, List.map_cons, List.mapM_cons] at ih ⊢
    rw [ih]; rfl

theorem concat_readRel (s : Seq) (o : List (List Msg)) :
    (do let p ← s.readRel; WrapTie.unit (p.1.concatSeq o)) = WrapTie.unit (s.concatSeq o) := by
  obtain ⟨a, r, sa, sr⟩ := s
  cases sa <;> cases sr <;> rfl

theorem merge_readAbs (s : Seq) (o : List (List Msg)) :
    (do let p ← s.readAbs; WrapTie.unit (p.1.mergeSeq o)) = WrapTie.unit (s.mergeSeq o) := by
  obtain ⟨a, r, sa, sr⟩ := s
  cases sa <;> cases sr <;> rfl

/-- **every whole-method operation of the alphabet, executed by the translation of the current
    source, is the step `exec` of the model** — same new state or same error. -/
theorem genExec_eq (e : Env) (s : Seq) (op : PubOp) (r : Except Err Seq) (h : genExec e s op = some r) :
    r = exec e s op := by
  cases op <;> simp only [genExec, Option.some.injEq, reduceCtorEq] at h <;> subst h <;> simp only [exec]
  case readAbs => rw [WrapTie.getAbs_eq]; cases s.readAbs <;> rfl
  case readRel => rw [WrapTie.getRel_eq]; cases s.readRel <;> rfl
  case refresh => rw [WrapTie.refresh_eq, fst_unit]
  case copy => rw [WrapTie.copy_eq]; rfl
  case addAbs => rw [WrapTie.addAbs_eq, fst_unit]
  case addRel => rw [WrapTie.addRel_eq, fst_unit]
  case normalise => rw [WrapTie.normalise_eq, fst_unit]
  case pad => rw [WrapTie.pad_eq, fst_unit]
  case setChannel => rw [WrapTie.setChannel_eq, fst_unit]
  case cutoff => rw [WrapTie.cutoff_eq, fst_unit]
  case quantise => rw [WrapTie.quantise_eq, fst_unit]
  case qnl => rw [WrapTie.quantiseNoteLengths_eq, fst_unit]
  case quantiseAndNormalise => rw [WrapTie.quantiseAndNormalise_eq, fst_unit]
  case concat o =>
    rw [WrapTie.concatenate_eq, readRels_relArgs]
    show (·.1) <$> (do let p ← s.readRel; WrapTie.unit (p.1.concatSeq o)) = _
    rw [concat_readRel, fst_unit]
  case merge o =>
    rw [WrapTie.merge_eq, readAbss_absArgs]
    show (·.1) <$> (do let p ← s.readAbs; WrapTie.unit (p.1.mergeSeq o)) = _
    rw [merge_readAbs, fst_unit]
  case overwriteAbs => rw [WrapTie.overwriteAbs_eq]; rfl
  case overwriteRel => rw [WrapTie.overwriteRel_eq]; rfl
  case editAbs => rw [WrapTie.messagesAbs_eq, fst_unit]
  case editRel => rw [WrapTie.messagesRel_eq, fst_unit]
  case transpose => rw [WrapTie.transpose_eq]; cases Seq.transposeSeq e s _ <;> rfl
  case scale => rw [WrapTie.scale_eq, fst_unit]
  case split => rw [WrapTie.split_eq]; cases s.splitSeq _ <;> rfl

/-- a history executed by the translated methods (entries without a translation fall back on `exec`) -/
def genRun (e : Env) (s : Seq) : List PubOp → Except Err Seq
  | [] => .ok s
  | op :: ops => match (genExec e s op).getD (exec e s op) with
    | .ok s' => genRun e s' ops
    | .error err => .error err

theorem genRun_eq (e : Env) (ops : List PubOp) : ∀ s, genRun e s ops = run e s ops := by
  induction ops with
  | nil => intro s; rfl
  | cons op ops ih =>
    intro s
    have h : (genExec e s op).getD (exec e s op) = exec e s op := by
      cases hg : genExec e s op with
      | none => rfl
      | some r => exact genExec_eq e s op r hg
    simp only [genRun, run, h]
    cases exec e s op with
    | error x => rfl
    | ok s' => exact ih s'

/-- **C04 for the translated source**: any legal history, executed by the statement-by-statement
    translation of `sequence.py`, succeeds and ends in a state satisfying the wrapper invariant … -/
theorem history_inv_gen (e : Env) (he : EnvOk e) (ops : List PubOp) (s : Seq) (h : Inv s)
    (hl : ∀ op ∈ ops, Legal op) : ∃ s', genRun e s ops = .ok s' ∧ Inv s' := by
  rw [genRun_eq]; exact history_inv e he ops s h hl

/-- … in which both views can be read (`no legal history leaves the sequence unreadable`). -/
theorem history_readable_gen (e : Env) (he : EnvOk e) (ops : List PubOp) (s : Seq) (h : Inv s)
    (hl : ∀ op ∈ ops, Legal op) :
    ∃ s', genRun e s ops = .ok s' ∧ (∃ p, s'.readAbs = .ok p) ∧ (∃ p, s'.readRel = .ok p) := by
  obtain ⟨s', hs, hi⟩ := history_inv_gen e he ops s h hl
  obtain ⟨⟨s1, h1, _⟩, ⟨s2, h2, _⟩⟩ := readable s' hi
  exact ⟨s', hs, ⟨_, h1⟩, ⟨_, h2⟩⟩

/-- non-vacuity: the 9-operation history of `C04c.h0` runs through the translated methods -/
example : ∃ s', genRun e0 (Seq.ofRel r0) h0 = .ok s' ∧ Inv s' :=
  history_inv_gen e0 envOk_defaults h0 _ (inv_ofRel r0 r0_ok) h0_legal

end SCoda.C04d
