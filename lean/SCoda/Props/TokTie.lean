/-
  TOKENISER TIE: the functions GENERATED from `MultiTrackLargeVocabularyNotelikeTokeniser`
  (/repo/scoda/tokenisation/notelike_tokenisation.py) by tools/py2lean_tok.py (Gen/TokFns.lean, namespace
  `SCoda.Gen.Tok`) against the hand models of Model/Token.lean and Model/Render.lean, on which the C01 / C02 / C03
  property theorems are stated.  The generated text follows the Python statement by statement, so a semantic edit of
  the Python changes the generated definition and the theorems below stop building (tools/test_py2lean_tok.sh).

  What remains assumed: the LINK table in the header of Gen/TokFns.lean (Model/TokLib.lean).
  `cfgOf o` is the hand-model configuration `Cfg` of a tokeniser object `o`.

  Part 1 (this section): `_construct_dictionary`, `dictionary_size`, `__init__`  vs  `vocabSeq`, `dictionarySize`, `render`.
-/
import SCoda.Lemmas.TokTieL5
import SCoda.Lemmas.TokTieChan
import SCoda.Lemmas.TokLib2L
namespace SCoda.TokTie
open SCoda SCoda.TokLib SCoda.Gen.Tok SCoda.TokTieL SCoda.RenderL

/-! ### Part 1: the vocabulary -/

/-- ALL INPUTS.  The generated `_construct_dictionary` never raises; it stores the literal ids 0..3 for the four special
    tokens (`first4`) and then pushes (`d[key] = size; size += 1`) exactly the rendered tokens of the hand model's
    construction sequence `vocabSeq` after its first four, in that order; finally it inverts the dictionary. -/
theorem constructDictionary_all (o : TokObj) :
    constructDictionary o =
      .ok (finish (pushAll (first4 o) (((vocabSeq (cfgOf o)).drop 4).map render))) := by
  rw [constructDictionary_struct, tailStrings_eq]

/-- On an object whose `_dictionary_size` is 0 (as `__init__` leaves it) the generated `_construct_dictionary` pushes
    `render t` for every `t` of the hand model's `vocabSeq (cfgOf o)`, in order: key number `i` of the construction
    sequence receives id `i` (a later duplicate overwrites the id, the position of the first insertion is kept). -/
theorem constructDictionary_eq (o : TokObj) (h0 : o.dictionarySize_ = 0) :
    constructDictionary o = .ok (finish (pushAll o ((vocabSeq (cfgOf o)).map render))) :=
  constructDictionary_fresh o h0

/-- the dictionary that `_construct_dictionary` builds from an empty one: `d[render t_i] = i` for `i = 0, 1, …` -/
theorem constructDictionary_dictionary (o o' : TokObj) (h0 : o.dictionarySize_ = 0) (hd : o.dictionary = [])
    (h : constructDictionary o = .ok o') :
    o'.dictionary = setAll [] 0 ((vocabSeq (cfgOf o)).map render) ∧
    o'.inverseDictionary = pyDictOfList (o'.dictionary.map (fun p => (p.2, p.1))) ∧
    cfgOf o' = cfgOf o := by
  rw [constructDictionary_eq o h0] at h
  cases h
  refine ⟨?_, rfl, ?_⟩
  · show (pushAll o _).dictionary = _
    rw [pushAll_dictionary, hd, h0]
  · show cfgOf (pushAll o _) = _
    exact cfgOf_pushAll o _

/-- `dictionary_size` of the translated source is the hand model's `dictionarySize` (C02's size claim is about the code). -/
theorem dictionarySize_eq (o o' : TokObj) (h0 : o.dictionarySize_ = 0) (h : constructDictionary o = .ok o') :
    Gen.Tok.dictionarySize o' = .ok (SCoda.dictionarySize (cfgOf o) : Int) := by
  rw [constructDictionary_eq o h0] at h
  cases h
  show Except.ok (pushAll o _).dictionarySize_ = _
  rw [pushAll_size, h0]
  simp [SCoda.dictionarySize]

/-- The translated constructor: the state of the object (`initObj`: defaults filled in, step sizes and note values sorted
    WITHOUT DUPLICATES — `sorted(set(…))`, the repair of finding D31 — bins from the linked `get_velocity_bins`) and the
    vocabulary `vocabSeq` of its hand-model configuration, rendered. -/
theorem tokInit_eq' (ppqn : Option Int) (numTracks : Int) (pitchRange : Int × Int) (stepSizes noteValues : Option (List Int))
    (vb : Int) (tsRange : Int × Int) (running fuseTrk fuseVal fuseVel simplify : Bool) :
    tokInit ppqn numTracks pitchRange stepSizes noteValues vb tsRange running fuseTrk fuseVal fuseVel simplify =
      match linkVelocityBinsFn vb with
      | .error e => .error e
      | .ok bins =>
        let o := initObj ppqn numTracks pitchRange stepSizes noteValues bins tsRange running fuseTrk fuseVal fuseVel simplify
        .ok (finish (pushAll o ((vocabSeq (cfgOf o)).map render))) :=
  tokInit_eq ppqn numTracks pitchRange stepSizes noteValues vb tsRange running fuseTrk fuseVal fuseVel simplify

/-- what `__init__` returns, read off `tokInit_eq'`: the bins of the linked `get_velocity_bins`, and the hand-model configuration
    of the returned object is that of `initObj` (`_construct_dictionary` only touches the dictionaries and the size) -/
theorem tokInit_cfg (ppqn : Option Int) (numTracks : Int) (pitchRange : Int × Int) (stepSizes noteValues : Option (List Int))
    (vb : Int) (tsRange : Int × Int) (running fuseTrk fuseVal fuseVel simplify : Bool) (o : TokObj)
    (h : tokInit ppqn numTracks pitchRange stepSizes noteValues vb tsRange running fuseTrk fuseVal fuseVel simplify = .ok o) :
    ∃ bins, linkVelocityBinsFn vb = .ok bins ∧
      cfgOf o = cfgOf (initObj ppqn numTracks pitchRange stepSizes noteValues bins tsRange running fuseTrk fuseVal fuseVel simplify) := by
  rw [tokInit_eq'] at h
  cases hb : linkVelocityBinsFn vb with
  | error e => rw [hb] at h; cases h
  | ok bins =>
    rw [hb] at h
    cases h
    exact ⟨bins, rfl, cfgOf_pushAll _ _⟩

/-- THE REPAIR OF D31.  Every tokeniser object that `__init__` builds — whatever lists the caller passes, repeated entries
    included, or the defaults — has duplicate-free step sizes and note values: the hypotheses `steps_nodup` / `values_nodup` of
    `C02.CfgWF` hold for every constructible tokeniser, they are no longer a condition on the caller's arguments. -/
theorem tokInit_nodup (ppqn : Option Int) (numTracks : Int) (pitchRange : Int × Int) (stepSizes noteValues : Option (List Int))
    (vb : Int) (tsRange : Int × Int) (running fuseTrk fuseVal fuseVel simplify : Bool) (o : TokObj)
    (h : tokInit ppqn numTracks pitchRange stepSizes noteValues vb tsRange running fuseTrk fuseVal fuseVel simplify = .ok o) :
    (cfgOf o).steps.Nodup ∧ (cfgOf o).values.Nodup := by
  obtain ⟨bins, _, hc⟩ := tokInit_cfg _ _ _ _ _ _ _ _ _ _ _ _ o h
  rw [hc]
  exact ⟨TokLib2L.sorted_set_nodup _, TokLib2L.sorted_set_nodup _⟩

/-- What the constructed object stores, specified without the two built-ins: the step sizes (note values) are strictly
    ascending and are exactly the entries of the list passed (of the default list when `None` is passed).  These two facts
    determine the stored list (`TokLib2L.strict_ext`). -/
theorem tokInit_sorted (ppqn : Option Int) (numTracks : Int) (pitchRange : Int × Int) (stepSizes noteValues : Option (List Int))
    (vb : Int) (tsRange : Int × Int) (running fuseTrk fuseVal fuseVel simplify : Bool) (o : TokObj)
    (h : tokInit ppqn numTracks pitchRange stepSizes noteValues vb tsRange running fuseTrk fuseVal fuseVel simplify = .ok o) :
    ((cfgOf o).steps.Pairwise (· < ·) ∧ ∀ a, a ∈ (cfgOf o).steps ↔ a ∈ stepSizes.getD Gen.defaultStepSizesShift1) ∧
    ((cfgOf o).values.Pairwise (· < ·) ∧ ∀ a, a ∈ (cfgOf o).values ↔ a ∈ noteValues.getD Gen.defaultNoteValues) := by
  obtain ⟨bins, _, hc⟩ := tokInit_cfg _ _ _ _ _ _ _ _ _ _ _ _ o h
  rw [hc]
  exact ⟨⟨TokLib2L.sorted_set_strict _, TokLib2L.mem_sorted_set _⟩, ⟨TokLib2L.sorted_set_strict _, TokLib2L.mem_sorted_set _⟩⟩

/-- `C02.CfgWF` for a constructed tokeniser: what is left of it as a condition is that `get_velocity_bins` returned distinct
    bins (finding D16b: for some bin counts it repeats 127; that is a defect of `get_velocity_bins`, not of the caller's lists). -/
theorem tokInit_cfgWF (ppqn : Option Int) (numTracks : Int) (pitchRange : Int × Int) (stepSizes noteValues : Option (List Int))
    (vb : Int) (tsRange : Int × Int) (running fuseTrk fuseVal fuseVel simplify : Bool) (o : TokObj)
    (h : tokInit ppqn numTracks pitchRange stepSizes noteValues vb tsRange running fuseTrk fuseVal fuseVel simplify = .ok o)
    (hb : o.velocityBins.Nodup) : C02.CfgWF (cfgOf o) :=
  have hn := tokInit_nodup _ _ _ _ _ _ _ _ _ _ _ _ o h
  { steps_nodup := hn.1, values_nodup := hn.2, bins_nodup := hb, def_eq := (rfl : Gen.defaultTimeSignatureNumerator = Gen.defaultTimeSignatureDenominator) }

/-- a caller who passes duplicate-free lists gets what the constructor stored before the repair (`l.sort()`) -/
theorem initObj_of_nodup (ppqn : Option Int) (numTracks : Int) (pitchRange : Int × Int) (steps values : List Int)
    (bins : List Int) (tsRange : Int × Int) (running fuseTrk fuseVal fuseVel simplify : Bool)
    (hs : steps.Nodup) (hv : values.Nodup) :
    (initObj ppqn numTracks pitchRange (some steps) (some values) bins tsRange running fuseTrk fuseVal fuseVel simplify).stepSizes
      = pySortInt steps ∧
    (initObj ppqn numTracks pitchRange (some steps) (some values) bins tsRange running fuseTrk fuseVal fuseVel simplify).noteValues
      = pySortInt values :=
  ⟨TokLib2L.sorted_set_of_nodup steps hs, TokLib2L.sorted_set_of_nodup values hv⟩

/-- non-vacuity, on the recorded inputs of finding D31 (`step_sizes=[4, 4, 8]`, `note_values=[12, 12, 24]`, pitches 60..62): the
    translated `__init__` succeeds, stores `[4, 8]` / `[12, 24]`, the configuration is `CfgWF`, and `dictionary_size` is the number
    of keys (before the repair: 29 ids handed out for 22 keys) -/
example : ∃ o, tokInit none 1 (60, 62) (some [4, 4, 8]) (some [12, 12, 24]) 1 (2, 16) true true true true true = .ok o ∧
    o.stepSizes = [4, 8] ∧ o.noteValues = [12, 24] ∧ C02.CfgWF (cfgOf o) ∧
    o.dictionarySize_ = o.dictionary.length ∧ o.dictionary.length = o.inverseDictionary.length := by
  have hb : linkVelocityBinsFn 1 = .ok [127] := by decide +kernel
  have h := tokInit_eq' none 1 (60, 62) (some [4, 4, 8]) (some [12, 12, 24]) 1 (2, 16) true true true true true
  rw [hb] at h
  refine ⟨_, h, ?_⟩
  refine ⟨by decide, by decide, ⟨by decide, by decide, by decide, by decide⟩, by decide, by decide⟩

/-- non-vacuity: the hypotheses hold for the object `__init__` builds, e.g. with all defaults and one velocity bin -/
example : (initObj none 1 (21, 108) none none [127] (2, 16) true true true true true).dictionarySize_ = 0 ∧
    (initObj none 1 (21, 108) none none [127] (2, 16) true true true true true).dictionary = [] := ⟨rfl, rfl⟩

/-- without `_dictionary_size = 0` the closed form is `constructDictionary_all`: ids 0..3 are literals in the source, so
    a second call of `_construct_dictionary` on the same object would give `pad … bar` the ids 0..3 again but number the
    rest from the old size (the method is only called from `__init__`). -/
def constructDictionary_anyObject_statement : Prop :=
  ∀ o : TokObj, constructDictionary o = .ok (finish (pushAll o ((vocabSeq (cfgOf o)).map render)))

/-! ### Part 2: `tokenise`

  `tokenise(sequences_bar, insert_bar_token=True, flag_running_time_signature=True, state_dict)` against the hand model
  `tokeniseCore` (Model/Token.lean) applied to `extract` (Model/Extract.lean) and rendered by `render` (Model/Render.lean).
  The tracks are given by their relative views (`LSeq.rel`); `stOfDict` reads the state dictionary with the defaults of the
  source (`.get(key, default)`), `writeSt` performs its eight stores; `liftE` maps model errors to Python exceptions. -/

/-- The generated `tokenise` with a state dictionary `d` is the hand model: same tokens (rendered), same new state
    (written back into `d` key by key), same exception class.  Hypotheses (each replayed on /repo, see below):
    `hlen` the number of tracks is `num_tracks` (the source raises otherwise, `tokeniseCore` has no such check);
    `hd`, `hn` the time signature carried by the state has a non-zero denominator and a non-negative bar length
    (`int(ppqn * 4 * n / d)` raises ZeroDivisionError resp. truncates toward zero, the model divides rounding down);
    `hev` the same for every time-signature event, and the channel of a pairing is the channel of its first message. -/
theorem tokenise_eq (o : TokObj) (rels : List (List Msg)) (d : List (String × Int))
    (hlen : (rels.length : Int) = o.numTracks)
    (hd : (stOfDict o d).tsDen ≠ 0) (hn : 0 ≤ o.ppqn * 4 * (stOfDict o d).tsNum)
    (hev : ∀ ev ∈ extract Gen.ppqn rels, EvOk o.ppqn ev) :
    tokenise o (rels.map LSeq.rel) true true (some d) =
      liftE (fun r => (writeSt d r.2, r.1.map render))
        (tokeniseCore (cfgOf o) (stOfDict o d) (extract Gen.ppqn rels)) :=
  tokenise_some o rels d hlen hd hn hev

/-- what `tokenise_eq` needs of a time-signature event: a non-zero denominator and a non-negative bar length -/
def TsEvOk (ppqn : Int) (ev : Int × Pairing) : Prop :=
  ∀ m, ev.2.head? = some m → m.ty = .timeSignature → m.den ≠ 0 ∧ 0 ≤ ppqn * 4 * m.num

/-- `tokenise_eq` without the channel hypothesis: the pairings of `extract` are always filed under the channel of their first
    message (`extract_ch`), so the source's "Channel mismatch" check never fires. -/
theorem tokenise_eq' (o : TokObj) (rels : List (List Msg)) (d : List (String × Int))
    (hlen : (rels.length : Int) = o.numTracks)
    (hd : (stOfDict o d).tsDen ≠ 0) (hn : 0 ≤ o.ppqn * 4 * (stOfDict o d).tsNum)
    (hev : ∀ ev ∈ extract Gen.ppqn rels, TsEvOk o.ppqn ev) :
    tokenise o (rels.map LSeq.rel) true true (some d) =
      liftE (fun r => (writeSt d r.2, r.1.map render))
        (tokeniseCore (cfgOf o) (stOfDict o d) (extract Gen.ppqn rels)) :=
  tokenise_eq o rels d hlen hd hn (fun ev h m hm => ⟨extract_ch _ _ ev h m hm, hev ev h m hm⟩)

/-- `state_dict=None` is `state_dict={}` -/
theorem tokenise_none (o : TokObj) (tracks : List LSeq) (ibt frts : Bool) :
    tokenise o tracks ibt frts none = tokenise o tracks ibt frts (some []) := rfl

/-- the state read from an empty dictionary is the hand model's initial state -/
theorem stOfDict_nil (o : TokObj) : stOfDict o [] = TokSt.init (cfgOf o) := rfl

/-- Stateless call (`state_dict=None`): the generated `tokenise` is `tokeniseCore` from the initial state `TokSt.init`,
    rendered; the returned dictionary holds the eight state values.  `hp`: a negative `ppqn` is outside the model. -/
theorem tokenise_fresh (o : TokObj) (rels : List (List Msg))
    (hlen : (rels.length : Int) = o.numTracks) (hp : 0 ≤ o.ppqn)
    (hev : ∀ ev ∈ extract Gen.ppqn rels, EvOk o.ppqn ev) :
    tokenise o (rels.map LSeq.rel) true true none =
      liftE (fun r => (writeSt [] r.2, r.1.map render))
        (tokeniseCore (cfgOf o) (TokSt.init (cfgOf o)) (extract Gen.ppqn rels)) := by
  rw [tokenise_none, ← stOfDict_nil]
  refine tokenise_eq o rels [] hlen (show Gen.defaultTimeSignatureDenominator ≠ 0 by decide) ?_ hev
  show 0 ≤ o.ppqn * 4 * Gen.defaultTimeSignatureNumerator
  have : Gen.defaultTimeSignatureNumerator = 8 := rfl
  rw [this]; omega

/-- `tokenise_fresh` without the channel hypothesis -/
theorem tokenise_fresh' (o : TokObj) (rels : List (List Msg))
    (hlen : (rels.length : Int) = o.numTracks) (hp : 0 ≤ o.ppqn)
    (hev : ∀ ev ∈ extract Gen.ppqn rels, TsEvOk o.ppqn ev) :
    tokenise o (rels.map LSeq.rel) true true none =
      liftE (fun r => (writeSt [] r.2, r.1.map render))
        (tokeniseCore (cfgOf o) (TokSt.init (cfgOf o)) (extract Gen.ppqn rels)) :=
  tokenise_fresh o rels hlen hp (fun ev h m hm => ⟨extract_ch _ _ ev h m hm, hev ev h m hm⟩)

/-- non-vacuity: a one-track piece with one note satisfies the hypotheses of `tokenise_fresh` for the default object -/
example :
    let o := initObj none 1 (21, 108) none none [127] (2, 16) true true true true true
    let rels : List (List Msg) := [[Msg.mkOn 0 60 64 pyNone, Msg.mkWait 0 12, Msg.mkOff 0 60 pyNone]]
    (rels.length : Int) = o.numTracks ∧ 0 ≤ o.ppqn ∧ (∀ ev ∈ extract Gen.ppqn rels, EvOk o.ppqn ev) := by
  refine ⟨rfl, by decide, ?_⟩
  have h : extract Gen.ppqn [[Msg.mkOn 0 60 64 pyNone, Msg.mkWait 0 12, Msg.mkOff 0 60 pyNone]]
      = [(0, [Msg.mkOn 0 60 64 0, Msg.mkOff 0 60 12])] := by decide
  intro ev hev
  simp only [h, List.mem_singleton] at hev
  subst hev
  intro m hm
  simp only [List.head?_cons, Option.some.injEq] at hm
  subst hm
  exact ⟨rfl, fun h => by simp [Msg.mkOn] at h⟩

/-! #### the hypotheses are needed: what the generated code (and the real code) does at excluded points -/

/-- `hlen` excluded: a wrong number of tracks raises TokenisationException (replayed on /repo:
    `Tokeniser(num_tracks=2).tokenise([one sequence])` → "Number of sequences does not match number of tracks").
    `tokeniseCore` has no such check (lean/Driver.lean makes it before calling the model). -/
theorem tokenise_wrong_length (o : TokObj) (tracks : List LSeq) (d : List (String × Int))
    (hlen : (tracks.length : Int) ≠ o.numTracks) (hd : (stOfDict o d).tsDen ≠ 0) :
    tokenise o tracks true true (some d) = .error .tokenisationException := by
  unfold tokenise
  have hd' : pyDictGetD d "cur_time_signature_denominator" Gen.defaultTimeSignatureDenominator ≠ 0 := hd
  have hl : (!((tracks.length : Int) == o.numTracks)) = true := by simp [hlen]
  simp only [Bool.not_true, raiseIf_false, pyTrueDiv_ok _ _ hd', ok_bind, hl, raiseIf_true, error_bind]

/-- `hd` excluded: a state with time-signature denominator 0 raises ZeroDivisionError (replayed on /repo:
    `tokenise(..., state_dict={"cur_time_signature_denominator": 0})` → ZeroDivisionError); the model computes capacity 0. -/
theorem tokenise_zero_denominator (o : TokObj) (tracks : List LSeq) (d : List (String × Int))
    (hd : (stOfDict o d).tsDen = 0) :
    tokenise o tracks true true (some d) = .error .zeroDivisionError := by
  unfold tokenise
  have hd' : pyDictGetD d "cur_time_signature_denominator" Gen.defaultTimeSignatureDenominator = 0 := hd
  simp only [Bool.not_true, raiseIf_false, ok_bind, hd', pyTrueDiv]
  rfl

/-- the unrestricted statement (kept as a `def`): false at the excluded points above -/
def tokenise_eq_statement : Prop :=
  ∀ (o : TokObj) (rels : List (List Msg)) (d : List (String × Int)),
    tokenise o (rels.map LSeq.rel) true true (some d) =
      liftE (fun r => (writeSt d r.2, r.1.map render))
        (tokeniseCore (cfgOf o) (stOfDict o d) (extract Gen.ppqn rels))

theorem tokenise_eq_statement_false : ¬ tokenise_eq_statement := by
  intro h
  have h1 := h (initObj none 1 (21, 108) none none [127] (2, 16) true true true true true) []
    [("cur_time_signature_denominator", 0)]
  rw [tokenise_zero_denominator _ _ _ rfl] at h1
  revert h1
  decide

/-! ### Part 3: `detokenise`

  `detokenise(tokens)` on RENDERED tokens against the hand model `detokenise` (Model/Token.lean): the returned `Sequence`
  objects are the absolute views the model computes (`LSeq.abs`).  `TokOkD`: the numbers of a token are natural numbers (then
  `render` writes plain digit strings that `int(...)` reads back), a time signature has a non-zero denominator. -/

/-- The generated `detokenise` on the strings `render t` is the hand model on the tokens `t`: same sequences, same exception class.
    `hp`: with a negative `ppqn` the source truncates `int(ppqn*4*n/d)` toward zero where the model rounds down (replayed on
    /repo: `Tokeniser(ppqn=-1).detokenise(["tsg_03_08", "bar"])` puts the bar line at tick -1, the model at -2).
    `hts`: `tsg_04_00` raises ZeroDivisionError in the source (replayed), the model takes capacity 0. -/
theorem detokenise_eq (o : TokObj) (ts : List Tok) (hp : 0 ≤ o.ppqn) (hts : ∀ t ∈ ts, TokOkD o.ppqn t) :
    Gen.Tok.detokenise o (ts.map render) =
      liftE (fun seqs => seqs.map LSeq.abs) (SCoda.detokenise (cfgOf o) ts) :=
  detokenise_hand o ts hp hts

/-- the step of the tie: one rendered token moves the generated loop state as `dstep` moves the model state -/
theorem detokenise_step (o : TokObj) (t : Tok) (d : DetokSt) (ht : TokOkD o.ppqn t) (hd : 0 ≤ d.prvTrack) :
    detokeniseLoop1 o (render t) (gD d) = liftE (fun d' => ForInStep.yield (gD d')) (dstep (cfgOf o) d t) :=
  detokeniseLoop1_eq o t d ht hd

/-- non-vacuity: vocabulary-shaped tokens satisfy `TokOkD` -/
example : ∀ t ∈ [Tok.bar, .rest 12, .note (some 0) 60 (some 12) (some 127), .tsig 6 8, .trk 1], TokOkD 24 t := by
  intro t ht
  simp only [List.mem_cons, List.not_mem_nil, or_false] at ht
  rcases ht with rfl | rfl | rfl | rfl | rfl <;>
    refine ⟨by simp [TokOk, OptNonneg], ?_⟩ <;> intro a b h <;> (try cases h) <;> decide

/-- the statement for arbitrary STRINGS (kept as a `def`): the source accepts strings that `parseTok` rejects (`rst_+5`, `rst_ 5`,
    `val_12-pit_060-trk_00`, `bar-rst_02`, `pad_x_y`; tools/diff_py2lean_tok.py compares the generated code with the real one on
    such strings), so the tie is stated on rendered tokens. -/
def detokenise_strings_statement : Prop :=
  ∀ (o : TokObj) (ss : List String) (ts : List Tok), ss.mapM parseTok = .ok ts →
    Gen.Tok.detokenise o ss = liftE (fun seqs => seqs.map LSeq.abs) (SCoda.detokenise (cfgOf o) ts)

/-! ### Part 4: `get_info` -/

/-- The generated `get_info` on rendered tokens returns the columns (`unzipInfo`) of the rows the hand model `getInfo` computes,
    with `CircleOfFifths.get_position` = `genCof` (the generated `get_position`); it never raises.  `nan` is `none`. -/
theorem getInfo_eq (o : TokObj) (ts : List Tok) (impute : Bool) (hp : 0 ≤ o.ppqn) (hts : ∀ t ∈ ts, TokOkD o.ppqn t) :
    Gen.Tok.getInfo o (ts.map render) impute = .ok (unzipInfo (SCoda.getInfo (cfgOf o) genCof impute ts)) :=
  getInfo_hand o ts impute hp hts

/-! ### Part 5: `encode` / `decode`

  The generated `encode` / `decode` read the dictionaries built by the generated `_construct_dictionary` (Part 1). -/

/-- The generated `encode` on rendered tokens is the hand model `encode` (`dictionary[token]` = the LAST id assigned to the key,
    KeyError = `none`).  `CfgNonneg` / `TokOk`: natural-number fields, on which `render` is injective (Props/C02b.lean). -/
theorem encode_eq (o o' : TokObj) (ts : List Tok) (h0 : o.dictionarySize_ = 0) (hd : o.dictionary = [])
    (h : constructDictionary o = .ok o') (hc : CfgNonneg (cfgOf o)) (hts : ∀ t ∈ ts, TokOk t) :
    Gen.Tok.encode o' (ts.map render) = encodeSpec (cfgOf o) ts := by
  obtain ⟨hdict, _, _⟩ := constructDictionary_dictionary o o' h0 hd h
  unfold Gen.Tok.encode encodeSpec SCoda.encode
  simp only [hdict]
  induction ts with
  | nil => rfl
  | cons t ts ih =>
    have ih' := ih (fun x hx => hts x (by simp [hx]))
    simp only [List.map_cons, mapME, encode_one _ hc t (hts t (by simp)), List.mapM_cons]
    cases encodeTok (cfgOf o) t with
    | none => rfl
    | some i =>
      simp only [bind, Except.bind, pure, Except.pure] at ih' ⊢
      cases hm : mapME (fun token => pyDictGet (setAll [] 0 (List.map render (vocabSeq (cfgOf o)))) token) (List.map render ts) with
      | error e =>
        rw [hm] at ih'
        cases hts' : List.mapM (encodeTok (cfgOf o)) ts with
        | none => simp [hts'] at ih' ⊢; rw [← ih']
        | some ids => simp [hts'] at ih'
      | ok l =>
        rw [hm] at ih'
        cases hts' : List.mapM (encodeTok (cfgOf o)) ts with
        | none => simp [hts'] at ih'
        | some ids => simp [hts'] at ih' ⊢; exact ih'


/-- The generated `decode` is the hand model `decode`, rendered (`inverse_dictionary[id]`, KeyError = `none`), for a configuration
    whose construction sequence has no duplicates (`C02.CfgWF`: distinct step sizes, note values and velocity bins). -/
theorem decode_eq (o o' : TokObj) (ids : List Nat) (h0 : o.dictionarySize_ = 0) (hd : o.dictionary = [])
    (h : constructDictionary o = .ok o') (hc : CfgNonneg (cfgOf o)) (hwf : C02.CfgWF (cfgOf o)) :
    Gen.Tok.decode o' (ids.map Int.ofNat) = decodeSpec (cfgOf o) ids := by
  obtain ⟨hdict, hinv, _⟩ := constructDictionary_dictionary o o' h0 hd h
  have hnd : ((vocabSeq (cfgOf o)).map render).Nodup :=
    C02b.render_vocab_nodup (cfgOf o) hwf hc
  have hdict' : o'.dictionary = enumInt 0 ((vocabSeq (cfgOf o)).map render) := by
    rw [hdict, setAll_nodup _ _ _ hnd (by intro e he; simp at he)]; simp
  have hinv' : o'.inverseDictionary = (enumInt 0 ((vocabSeq (cfgOf o)).map render)).map (fun p => (p.2, p.1)) := by
    rw [hinv, hdict']
    unfold pyDictOfList
    rw [ofList_swap_enum _ 0 [] (by intro e he; simp at he)]; simp
  have hone : ∀ i : Nat, pyDictGet o'.inverseDictionary (Int.ofNat i) =
      match decodeId (cfgOf o) i with | some t => .ok (render t) | none => .error .keyError := by
    intro i
    unfold pyDictGet
    rw [hinv']
    have := get?_swap_enum ((vocabSeq (cfgOf o)).map render) 0 i
    simp only [Int.zero_add] at this
    rw [show Int.ofNat i = (i : Int) from rfl, this]
    unfold decodeId
    by_cases hi : i < (vocabSeq (cfgOf o)).length
    · simp [List.getElem?_eq_getElem hi, C02.ids_consecutive _ hwf i hi]; rfl
    · have : (vocabSeq (cfgOf o))[i]? = none := by simp; omega
      simp [this]; rfl
  unfold Gen.Tok.decode decodeSpec SCoda.decode
  induction ids with
  | nil => rfl
  | cons i ids ih =>
    simp only [List.map_cons, mapME, hone i, List.mapM_cons]
    cases decodeId (cfgOf o) i with
    | none => rfl
    | some t =>
      simp only [bind, Except.bind, pure, Except.pure] at ih ⊢
      cases hm : mapME (fun token => pyDictGet o'.inverseDictionary token) (List.map Int.ofNat ids) with
      | error e =>
        rw [hm] at ih
        cases hts' : List.mapM (decodeId (cfgOf o)) ids with
        | none => simp [hts'] at ih ⊢; rw [← ih]
        | some l => simp [hts'] at ih
      | ok l =>
        rw [hm] at ih
        cases hts' : List.mapM (decodeId (cfgOf o)) ids with
        | none => simp [hts'] at ih
        | some l' => simp [hts'] at ih ⊢; exact ih

/-- non-vacuity: the object `__init__` builds for a small configuration satisfies the hypotheses of `encode_eq` / `decode_eq` -/
example :
    let o := initObj none 1 (60, 62) (some [4, 2]) (some [12, 4]) [96, 127] (2, 4) true true false true true
    o.dictionarySize_ = 0 ∧ o.dictionary = [] ∧ CfgNonneg (cfgOf o) ∧
      (cfgOf o).steps.Nodup ∧ (cfgOf o).values.Nodup ∧ (cfgOf o).bins.Nodup ∧ (cfgOf o).defNum = (cfgOf o).defDen := by
  decide

/-- the statement without `CfgWF` (kept as a `def`): with duplicate step sizes / note values / bins a later duplicate overwrites the
    id of an earlier one and the overwritten id is missing from the inverse dictionary; `decodeId` models exactly that, but the proof
    of `decode_eq` uses the enumeration form of the dictionary.  tools/diff_py2lean_tok.py exercises such configurations
    (`step_sizes=[5, 2, 2, 7]`, `[12, 6, 12]`, 19 velocity bins) against the real code: 0 differences. -/
def decode_general_statement : Prop :=
  ∀ (o o' : TokObj) (ids : List Nat), o.dictionarySize_ = 0 → o.dictionary = [] → constructDictionary o = .ok o' →
    CfgNonneg (cfgOf o) → Gen.Tok.decode o' (ids.map Int.ofNat) = decodeSpec (cfgOf o) ids

/-- TEST scope: 2 tracks, pitches 60..61, steps [2,4], values [4,12], 1 or 2 velocity bins, time signatures 3..4, all 8 fuse settings -/
def testObjs : List TokObj :=
  ((do
    let fT ← [true, false]; let fV ← [true, false]; let fW ← [true, false]
    let bins ← [[127], [96, 127]]
    pure (initObj none 2 (60, 61) (some [2, 4]) (some [4, 12]) bins (3, 4) true fT fV fW true)) : List TokObj).filterMap
      (fun o => (constructDictionary o).toOption)

instance : DecidableEq (Except PyErr (List Int)) := fun a b => by
  cases a <;> cases b <;> simp <;> infer_instance
instance : DecidableEq (Except PyErr (List String)) := fun a b => by
  cases a <;> cases b <;> simp <;> infer_instance

-- TEST (evaluation, not a theorem; includes configurations outside the hypotheses of `decode_eq`): every vocabulary token and three tokens outside it, every id 0 .. size+1 and id -1
#guard testObjs.length = 16
#guard testObjs.all fun o => ((vocabSeq (cfgOf o)) ++ [Tok.rest 7, .note none 59 none none, .tsig 9 8]).all fun t =>
  decide (Gen.Tok.encode o [render t] = encodeSpec (cfgOf o) [t])
#guard testObjs.all fun o => (List.range ((vocabSeq (cfgOf o)).length + 2)).all fun i =>
  decide (Gen.Tok.decode o [(i : Int)] = decodeSpec (cfgOf o) [i])
#guard testObjs.all fun o => decide (Gen.Tok.decode o [-1] = .error .keyError)

end SCoda.TokTie
