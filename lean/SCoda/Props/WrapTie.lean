/-
  Tie between the *generated* translation of the `Sequence` wrapper (Gen/WrapFns.lean, re-read from
  sequence.py on every run by tools/py2lean_wrap.py) and the hand-written wrapper model `SCoda.Seq`
  (Model/Wrapper.lean) that the C04 / C16 / C18 theorems are about and that the driver executes.

  Each theorem says: for every environment, every wrapper state and every argument, the translated
  method and the model function compute the same state and the same result, or the same error.
  A change to sequence.py that alters what a wrapper method does to either view or either stale flag
  (forgetting an `invalidate_*`, invalidating the wrong view, reading `_abs` instead of `abs`, dropping the
  `finally` of an iterator, swapping the order of two calls, …) changes the generated definition and
  breaks the corresponding theorem here.
-/
import SCoda.Gen.WrapFns
import SCoda.Gen.Tables
namespace SCoda.WrapTie
open SCoda

/-- forget the value component -/
def unit {α} (x : Except Err α) : Except Err (α × Unit) := (fun s => (s, ())) <$> x

/-! ### plumbing lemmas for `Except Err` -/
@[simp] theorem ok_bind {α β} (a : α) (k : α → Except Err β) : (Except.ok a >>= k) = k a := rfl
@[simp] theorem error_bind {α β} (x : Err) (k : α → Except Err β) : (Except.error x >>= k) = .error x := rfl
@[simp] theorem map_ok {α β} (f : α → β) (a : α) : f <$> (Except.ok a : Except Err α) = .ok (f a) := rfl
@[simp] theorem map_error {α β} (f : α → β) (x : Err) : f <$> (Except.error x : Except Err α) = .error x := rfl
@[simp] theorem throw_eq {α} (x : Err) : (throw x : Except Err α) = .error x := rfl
@[simp] theorem pure_eq {α} (a : α) : (pure a : Except Err α) = .ok a := rfl

@[simp] theorem forIn_ok_yield {α β} (l : List α) (init : β) (g : β → α → β) :
    (forIn l init (fun a b => (Except.ok (ForInStep.yield (g b a)) : Except Err (ForInStep β)))) =
      Except.ok (l.foldl g init) := by
  induction l generalizing init with
  | nil => rfl
  | cons x xs ih => simp [List.forIn_cons, ih]

/-- the loop of `messages_abs`: every iteration invalidates the relative view and edits one message -/
theorem foldl_editAbs (f : Msg → Msg) (s : Seq) (l acc : List Msg) :
    List.foldl (fun (b : Seq × List Msg) a =>
        (({ abs := b.fst.abs, rel := b.fst.rel, absStale := b.fst.absStale } : Seq), b.snd ++ [f a])) (s, acc) l
      = (if l = [] then s else { s with relStale := true }, acc ++ l.map f) := by
  induction l generalizing s acc with
  | nil => simp
  | cons x xs ih =>
    rw [List.foldl_cons, ih]
    by_cases h : xs = [] <;> simp [h]

theorem foldl_editRel (f : Msg → Msg) (s : Seq) (l acc : List Msg) :
    List.foldl (fun (b : Seq × List Msg) a =>
        (({ abs := b.fst.abs, rel := b.fst.rel, absStale := true, relStale := b.fst.relStale } : Seq), b.snd ++ [f a])) (s, acc) l
      = (if l = [] then s else { s with absStale := true }, acc ++ l.map f) := by
  induction l generalizing s acc with
  | nil => simp
  | cons x xs ih =>
    rw [List.foldl_cons, ih]
    by_cases h : xs = [] <;> simp [h]


/-- unfold a translated wrapper method and the model function it is compared with, for concrete stale flags -/
macro "wrap_simp" : tactic => `(tactic|
  simp [Gen.Wrap.getAbs, Gen.Wrap.getRel, Gen.Wrap.invalidateAbs, Gen.Wrap.invalidateRel, Gen.Wrap.refresh, Gen.Wrap.copy,
    Gen.Wrap.pad, Gen.Wrap.setChannel, Gen.Wrap.normalise, Gen.Wrap.cutoff, Gen.Wrap.addAbsoluteMessage, Gen.Wrap.addRelativeMessage,
    Gen.Wrap.isEmpty,
    View.rel_to_absolute_sequence, View.abs_to_relative_sequence, View.rel_pad, View.rel_set_channel, View.rel_normalise_relative,
    View.abs_cutoff, View.abs_add_message, View.rel_add_message, View.seq_init, View.rel_is_empty,
    Seq.readAbs, Seq.readRel, Seq.refresh, Seq.copy, Seq.onAbs, Seq.onRel, Seq.padSeq, Seq.setChannelSeq, Seq.normaliseSeq, Seq.cutoffSeq,
    Seq.addAbsMsg, Seq.addRelMsg, Seq.ofAbs, Seq.ofRel, Seq.new, unit])

/-! ### the two properties and the flags -/

/-- the `abs` property: same state afterwards AND the object it returns is the absolute view -/
theorem getAbs_eq (e : Env) (s : Seq) : Gen.Wrap.getAbs e s = s.readAbs := by
  obtain ⟨a, r, sa, sr⟩ := s
  cases sa <;> cases sr <;> (first | rfl | wrap_simp)

theorem getRel_eq (e : Env) (s : Seq) : Gen.Wrap.getRel e s = s.readRel := by
  obtain ⟨a, r, sa, sr⟩ := s
  cases sa <;> cases sr <;> (first | rfl | wrap_simp)

/-- the list `readAbs` returns is the absolute view of the state it returns (what `return self._abs` reads) -/
theorem readAbs_snd (s s' : Seq) (a : List Msg) (h : s.readAbs = .ok (s', a)) : a = s'.abs := by
  obtain ⟨a0, r0, sa, sr⟩ := s
  cases sa <;> cases sr <;> simp [Seq.readAbs] at h <;> obtain ⟨rfl, rfl⟩ := h <;> rfl

theorem readRel_snd (s s' : Seq) (r : List Msg) (h : s.readRel = .ok (s', r)) : r = s'.rel := by
  obtain ⟨a0, r0, sa, sr⟩ := s
  cases sa <;> cases sr <;> simp [Seq.readRel] at h <;> obtain ⟨rfl, rfl⟩ := h <;> rfl

theorem invalidateAbs_eq (e : Env) (s : Seq) : Gen.Wrap.invalidateAbs e s = .ok ({ s with absStale := true }, ()) := rfl
theorem invalidateRel_eq (e : Env) (s : Seq) : Gen.Wrap.invalidateRel e s = .ok ({ s with relStale := true }, ()) := rfl

theorem refresh_eq (e : Env) (s : Seq) : Gen.Wrap.refresh e s = unit s.refresh := by
  obtain ⟨a, r, sa, sr⟩ := s
  cases sa <;> cases sr <;> (first | rfl | wrap_simp)

theorem copy_eq (e : Env) (s : Seq) : Gen.Wrap.copy e s = .ok (s, s.copy) := by
  obtain ⟨a, r, sa, sr⟩ := s
  cases sa <;> cases sr <;> (first | rfl | wrap_simp)

/-! ### mutators built from total view functions -/

theorem pad_eq (e : Env) (s : Seq) (n : Int) : Gen.Wrap.pad e s n = unit (s.padSeq n) := by
  obtain ⟨a, r, sa, sr⟩ := s
  cases sa <;> cases sr <;> (first | rfl | wrap_simp)

theorem setChannel_eq (e : Env) (s : Seq) (c : Int) : Gen.Wrap.setChannel e s c = unit (s.setChannelSeq c) := by
  obtain ⟨a, r, sa, sr⟩ := s
  cases sa <;> cases sr <;> (first | rfl | wrap_simp)

theorem normalise_eq (e : Env) (s : Seq) : Gen.Wrap.normalise e s = unit s.normaliseSeq := by
  obtain ⟨a, r, sa, sr⟩ := s
  cases sa <;> cases sr <;> (first | rfl | wrap_simp)

theorem cutoff_eq (e : Env) (s : Seq) (m r : Int) : Gen.Wrap.cutoff e s m r = unit (s.cutoffSeq m r) := by
  obtain ⟨a, r0, sa, sr⟩ := s
  cases sa <;> cases sr <;> (first | rfl | wrap_simp)

theorem addAbs_eq (e : Env) (s : Seq) (m : Msg) : Gen.Wrap.addAbsoluteMessage e s m = unit (s.addAbsMsg m) := by
  obtain ⟨a, r0, sa, sr⟩ := s
  cases sa <;> cases sr <;> (first | rfl | wrap_simp)

theorem addRel_eq (e : Env) (s : Seq) (m : Msg) (i : Option Nat) :
    Gen.Wrap.addRelativeMessage e s m i = unit (s.addRelMsg m i) := by
  obtain ⟨a, r0, sa, sr⟩ := s
  cases sa <;> cases sr <;> cases i <;> (first | rfl | wrap_simp)

theorem overwriteAbs_eq (e : Env) (s : Seq) (ms : List Msg) :
    Gen.Wrap.overwriteAbsoluteMessages e s ms = .ok (s.overwriteAbs ms, ()) := by
  simp [Gen.Wrap.overwriteAbsoluteMessages, View.abs_add_message, Gen.Wrap.invalidateRel, Seq.overwriteAbs]

theorem overwriteRel_eq (e : Env) (s : Seq) (ms : List Msg) :
    Gen.Wrap.overwriteRelativeMessages e s ms = .ok (s.overwriteRel ms, ()) := by
  have h : ∀ (l acc : List Msg), List.foldl (fun b a => b ++ [a]) acc l = acc ++ l := by
    intro l; induction l with
    | nil => simp
    | cons x xs ih => intro acc; simp [ih]
  simp [Gen.Wrap.overwriteRelativeMessages, View.rel_add_message, Gen.Wrap.invalidateAbs, Seq.overwriteRel, h]

/-! ### the iterators (`messages_abs` / `messages_rel` run to their end, every yielded message edited by `f`) -/

theorem messagesAbs_eq (e : Env) (s : Seq) (f : Msg → Msg) : Gen.Wrap.messagesAbs e s f = unit (s.editAbs f) := by
  obtain ⟨a, r, sa, sr⟩ := s
  cases sa <;> cases sr <;>
  simp [Gen.Wrap.messagesAbs, Gen.Wrap.invalidateRel, Gen.Wrap.getAbs, foldl_editAbs, Seq.editAbs, Seq.onAbs, Seq.readAbs, unit,
    View.rel_to_absolute_sequence] <;> (first | rfl | (split <;> exact ⟨rfl, rfl⟩))

theorem messagesRel_eq (e : Env) (s : Seq) (f : Msg → Msg) : Gen.Wrap.messagesRel e s f = unit (s.editRel f) := by
  obtain ⟨a, r, sa, sr⟩ := s
  cases sa <;> cases sr <;>
  simp [Gen.Wrap.messagesRel, Gen.Wrap.invalidateAbs, Gen.Wrap.getRel, foldl_editRel, Seq.editRel, Seq.onRel, Seq.readRel, unit,
    View.abs_to_relative_sequence] <;> (first | rfl | (split <;> exact ⟨rfl, rfl⟩))

/-! ### mutators whose view function can raise -/

theorem quantise_eq (e : Env) (s : Seq) (st : Option (List Int)) :
    Gen.Wrap.quantise e s st = unit (Seq.quantiseSeq e s st) := by
  obtain ⟨a, r, sa, sr⟩ := s
  cases sa <;> cases sr <;>
  simp [Gen.Wrap.quantise, Gen.Wrap.getAbs, Gen.Wrap.invalidateRel, Seq.quantiseSeq, Seq.onAbs, Seq.readAbs, unit,
      View.abs_quantise, View.rel_to_absolute_sequence]

theorem quantiseNoteLengths_eq (e : Env) (s : Seq) (v : Option (List Int)) (std : Int) (dne : Bool) :
    Gen.Wrap.quantiseNoteLengths e s v std dne = unit (Seq.qnlSeq e s v std dne) := by
  obtain ⟨a, r, sa, sr⟩ := s
  cases sa <;> cases sr <;>
  simp [Gen.Wrap.quantiseNoteLengths, Gen.Wrap.getAbs, Gen.Wrap.invalidateRel, Seq.qnlSeq, Seq.onAbs, Seq.readAbs, unit,
      View.abs_quantise_note_lengths, View.rel_to_absolute_sequence]

theorem unit_bind {α β} (x : Except Err α) (k : α × Unit → Except Err β) : unit x >>= k = x >>= fun a => k (a, ()) := by
  cases x <;> rfl

/-- `quantise_and_normalise(step_sizes, note_values, standard_length, do_not_extend)` is the three calls in order -/
theorem quantiseAndNormalise_eq' (e : Env) (s : Seq) (st v : Option (List Int)) (std : Int) (dne : Bool) :
    Gen.Wrap.quantiseAndNormalise e s st v std dne =
      unit (do let s ← Seq.quantiseSeq e s st; let s ← Seq.qnlSeq e s v std dne; Seq.normaliseSeq s) := by
  simp only [Gen.Wrap.quantiseAndNormalise, quantise_eq, quantiseNoteLengths_eq, normalise_eq, unit_bind]
  cases Seq.quantiseSeq e s st with
  | error x => rfl
  | ok s1 =>
    simp only [ok_bind]
    cases Seq.qnlSeq e s1 v std dne with
    | error x => rfl
    | ok s2 =>
      simp only [ok_bind]
      cases s2.normaliseSeq <;> rfl

/-- with the defaults of the signature (`None, None, PPQN, False`) it is the model's `quantiseAndNormalise` -/
theorem quantiseAndNormalise_eq (e : Env) (s : Seq) :
    Gen.Wrap.quantiseAndNormalise e s none none e.ppqn false = unit (Seq.quantiseAndNormalise e s) :=
  quantiseAndNormalise_eq' e s none none e.ppqn false

theorem scale_eq (e : Env) (s : Seq) (k : Int) (m : Option Seq) (q : Bool) :
    Gen.Wrap.scale e s k m q = unit (Seq.scaleSeq e s k q) := by
  cases q
  · obtain ⟨a, r, sa, sr⟩ := s
    cases sa <;> cases sr <;>
      simp [Gen.Wrap.scale, Gen.Wrap.getRel, View.rel_scale, Gen.Wrap.invalidateAbs, Seq.scaleSeq, Seq.onRel, Seq.readRel, unit,
        View.abs_to_relative_sequence]
  · simp only [Gen.Wrap.scale, Seq.scaleSeq, quantiseAndNormalise_eq, if_true]
    obtain ⟨a, r, sa, sr⟩ := s
    cases sa <;> cases sr <;>
      simp [Gen.Wrap.getRel, View.rel_scale, Gen.Wrap.invalidateAbs, Seq.onRel, Seq.readRel, unit, View.abs_to_relative_sequence] <;>
      (first | rfl | (cases Seq.quantiseAndNormalise e _ <;> rfl))

theorem transpose_eq (e : Env) (s : Seq) (by_ : Int) : Gen.Wrap.transpose e s by_ = Seq.transposeSeq e s by_ := by
  obtain ⟨a, r, sa, sr⟩ := s
  cases sa <;> cases sr <;>
    simp [Gen.Wrap.transpose, Gen.Wrap.getRel, View.rel_transpose, Gen.Wrap.invalidateAbs, Seq.transposeSeq, Seq.readRel,
      View.abs_to_relative_sequence, Gen.Wrap.normalise, Gen.Wrap.quantiseNoteLengths, Gen.Wrap.getAbs, Gen.Wrap.invalidateRel,
      View.rel_normalise_relative, View.abs_quantise_note_lengths, View.rel_to_absolute_sequence,
      Seq.normaliseSeq, Seq.onRel, Seq.qnlSeq, Seq.onAbs, Seq.readAbs] <;>
    (try split) <;> simp_all

theorem split_eq (e : Env) (s : Seq) (caps : List Int) : Gen.Wrap.split e s caps = Seq.splitSeq s caps := by
  obtain ⟨a, r, sa, sr⟩ := s
  cases sa <;> cases sr <;>
    simp [Gen.Wrap.split, Gen.Wrap.getRel, View.rel_split, Seq.splitSeq, Seq.readRel, View.abs_to_relative_sequence] <;>
    (first | rfl | (cases SCoda.split _ caps <;> rfl))

/-! ### operations that read other sequences -/

/-- reading the relative view of every argument (`[seq.rel for seq in sequences]`) -/
def readRels (others : List Seq) : Except Err (List (List Msg)) := others.mapM (fun x => (·.2) <$> x.readRel)
def readAbss (others : List Seq) : Except Err (List (List Msg)) := others.mapM (fun x => (·.2) <$> x.readAbs)

theorem getRel_view (e : Env) (x : Seq) :
    (do let r ← Gen.Wrap.getRel e x; pure r.2 : Except Err (List Msg)) = (·.2) <$> x.readRel := by
  rw [getRel_eq]; cases x.readRel <;> rfl

theorem getAbs_view (e : Env) (x : Seq) :
    (do let r ← Gen.Wrap.getAbs e x; pure r.2 : Except Err (List Msg)) = (·.2) <$> x.readAbs := by
  rw [getAbs_eq]; cases x.readAbs <;> rfl

/-- `concatenate(sequences)`: the receiver's relative view is read first, then every argument's; the model's
    `concatSeq` receives the arguments' relative views -/
theorem concatenate_eq (e : Env) (s : Seq) (others : List Seq) :
    Gen.Wrap.concatenate e s others =
      (do let p ← s.readRel; let rels ← readRels others; unit (p.1.concatSeq rels)) := by
  have hv : (fun x => (do let r ← Gen.Wrap.getRel e x; pure r.2 : Except Err (List Msg))) =
      (fun x => (·.2) <$> x.readRel) := funext (getRel_view e)
  unfold Gen.Wrap.concatenate
  rw [hv]
  obtain ⟨a, r, sa, sr⟩ := s
  cases sa <;> cases sr <;>
    simp [Gen.Wrap.getRel, View.rel_concatenate, Gen.Wrap.invalidateAbs, Seq.readRel, readRels,
      View.abs_to_relative_sequence, Seq.concatSeq, Seq.onRel, unit] <;>
    (first | rfl | (cases List.mapM (fun x => (fun x => x.snd) <$> x.readRel) others <;> rfl))

/-- `merge(sequences)`: receiver's absolute view, every argument's absolute view, then `normalise()` -/
theorem merge_eq (e : Env) (s : Seq) (others : List Seq) :
    Gen.Wrap.merge e s others =
      (do let p ← s.readAbs; let abss ← readAbss others; unit (p.1.mergeSeq abss)) := by
  have hv : (fun x => (do let r ← Gen.Wrap.getAbs e x; pure r.2 : Except Err (List Msg))) =
      (fun x => (·.2) <$> x.readAbs) := funext (getAbs_view e)
  unfold Gen.Wrap.merge
  rw [hv]
  obtain ⟨a, r, sa, sr⟩ := s
  cases sa <;> cases sr <;>
    simp [Gen.Wrap.getAbs, View.abs_merge, Gen.Wrap.invalidateRel, Seq.readAbs, readAbss,
      View.rel_to_absolute_sequence, Seq.mergeSeq, Seq.onAbs, unit, normalise_eq] <;>
    (first | rfl | (cases List.mapM (fun x => (fun x => x.snd) <$> x.readAbs) others <;>
                      (first | rfl | (simp; cases Seq.normaliseSeq _ <;> rfl))))

/-! ### reads -/

theorem getSequenceDuration_eq (e : Env) (s : Seq) :
    Gen.Wrap.getSequenceDuration e s = (do let p ← s.readAbs; let d ← absDuration p.2; pure (p.1, d)) := by
  obtain ⟨a, r, sa, sr⟩ := s
  cases sa <;> cases sr <;>
    simp [Gen.Wrap.getSequenceDuration, Gen.Wrap.getAbs, View.abs_get_sequence_duration, Seq.readAbs,
      View.rel_to_absolute_sequence] <;>
    (first | rfl | (cases absDuration _ <;> rfl))

theorem isEmpty_eq (e : Env) (s : Seq) :
    Gen.Wrap.isEmpty e s = (do let p ← s.readRel; pure (p.1, !(p.2.any (·.ty == .noteOn)))) := by
  obtain ⟨a, r, sa, sr⟩ := s
  cases sa <;> cases sr <;> (first | rfl | wrap_simp)

/-- `Sequence.is_channel_consistent`: the absolute view is read (regenerated if stale) and every channel compared with the first -/
theorem isChannelConsistent_eq (e : Env) (s : Seq) :
    Gen.Wrap.isChannelConsistent e s =
      (do let p ← s.readAbs; pure (p.1, p.2.all (fun m => m.ch == (p.2.headD default).ch))) := by
  obtain ⟨a, r, sa, sr⟩ := s
  cases sa <;> cases sr <;>
    simp [Gen.Wrap.isChannelConsistent, Gen.Wrap.getAbs, View.abs_is_channel_consistent, Seq.readAbs,
      View.rel_to_absolute_sequence] <;> (first | rfl | wrap_simp)

/-- `Sequence.get_sequence_channel`: the first channel of the absolute view if all agree; `SequenceException` / `IndexError` otherwise -/
theorem getSequenceChannel_eq (e : Env) (s : Seq) :
    Gen.Wrap.getSequenceChannel e s =
      (do let p ← s.readAbs
          if p.2.all (fun m => m.ch == (p.2.headD default).ch) then
            (match p.2.head? with | some m => pure (p.1, m.ch) | none => throw .indexError)
          else throw .sequenceError) := by
  obtain ⟨a, r, sa, sr⟩ := s
  cases sa <;> cases sr <;>
    simp [Gen.Wrap.getSequenceChannel, Gen.Wrap.getAbs, View.abs_get_sequence_channel, Seq.readAbs,
      View.rel_to_absolute_sequence] <;>
    (first | rfl | (split <;> (first | rfl | (split <;> simp_all [ok_bind, error_bind]))))

/-- every method the translator is asked for is covered by a theorem above (tripwire: a method added to
    the translator's list without an equality theorem fails here) -/
theorem translated_covered :
    Gen.Wrap.translated = ["invalidate_abs", "invalidate_rel", "abs", "rel", "refresh", "copy", "add_absolute_message",
      "add_relative_message", "normalise", "concatenate", "cutoff", "merge", "messages_abs", "messages_rel",
      "overwrite_absolute_messages", "overwrite_relative_messages", "pad", "set_channel", "split", "quantise",
      "quantise_note_lengths", "quantise_and_normalise", "scale", "transpose", "get_sequence_duration", "is_empty", "equals",
      "get_sequence_channel", "is_channel_consistent", "__eq__"] := by
  decide

/-- **`Sequence.equals`**: both absolute views are read (regenerating them if stale), the flags are handed on in the order of the
    signature, the receiver's view ends up sorted in place — the model's `equalsSeq` -/
theorem equals_eq (e : Env) (s t : Seq) (ic its iks iv : Bool) :
    Gen.Wrap.equals e s t ic its iks iv =
      (fun r => (r.1, r.2.2)) <$> Seq.equalsSeq e { ignoreCh := ic, ignoreTs := its, ignoreKs := iks, ignoreVel := iv } s t := by
  obtain ⟨a, r, sa, sr⟩ := s
  obtain ⟨a', r', sa', sr'⟩ := t
  cases sa <;> cases sr <;> cases sa' <;> cases sr' <;>
    simp [Gen.Wrap.equals, Gen.Wrap.getAbs, View.abs_equals, Seq.equalsSeq, Seq.readAbs, View.rel_to_absolute_sequence]

/-- the default arguments of the translated and linked methods are pinned: the generated functions take every parameter explicitly, the
    call sites inside the library fill in these defaults (the translator does that from the source), and a caller's `seq.scale(2)` means
    what this table says.  A changed default changes the regenerated table and breaks this theorem. -/
theorem defaults_pinned :
    Gen.Wrap.defaults = ["RelativeSequence.add_message(index=None)", "RelativeSequence.scale(meta_sequence=None)", "AbsoluteSequence.quantise(step_sizes=None)", "AbsoluteSequence.quantise_note_lengths(note_values=None)", "AbsoluteSequence.quantise_note_lengths(standard_length=PPQN)", "AbsoluteSequence.quantise_note_lengths(do_not_extend=False)", "AbsoluteSequence.equals(ignore_channel=False)", "AbsoluteSequence.equals(ignore_time_signature=False)", "AbsoluteSequence.equals(ignore_key_signature=False)", "AbsoluteSequence.equals(ignore_velocity=False)", "Sequence.add_relative_message(index=None)", "Sequence.quantise(step_sizes=None)", "Sequence.quantise_note_lengths(note_values=None)", "Sequence.quantise_note_lengths(standard_length=PPQN)", "Sequence.quantise_note_lengths(do_not_extend=False)", "Sequence.quantise_and_normalise(step_sizes=None)", "Sequence.quantise_and_normalise(note_values=None)", "Sequence.quantise_and_normalise(standard_length=PPQN)", "Sequence.quantise_and_normalise(do_not_extend=False)", "Sequence.scale(meta_sequence=None)", "Sequence.scale(quantise_afterwards=True)", "Sequence.equals(ignore_channel=False)", "Sequence.equals(ignore_time_signature=False)", "Sequence.equals(ignore_key_signature=False)", "Sequence.equals(ignore_velocity=False)"] := by
  decide

/-- `MessageType` in source order is the order the models sort by (`MType.rank`): swapping two members of the Python enum changes the
    regenerated list and breaks this theorem -/
theorem message_type_order : Gen.messageTypeOrder = MType.names := by decide

/-- **`Sequence.__eq__`** (`a == b` on two sequences): exactly `equals` with every ignore flag `False` — same state, same verdict, same
    error (audit round 3, O1: `==` had no theorem) -/
theorem eqDunder_eq (e : Env) (s t : Seq) :
    Gen.Wrap.eqDunder e s t = Gen.Wrap.equals e s t false false false false := by
  unfold Gen.Wrap.eqDunder Gen.Wrap.equals View.abs___eq__
  rfl

end SCoda.WrapTie
