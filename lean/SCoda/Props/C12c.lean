/-
  C12, the save side composed with the load side (audit round 3, item M5).

  Until now `C12.save_load_*` were about `C13.saveLoad ppqn rels = convert ppqn ppqn (rels.map toMido) …`: no parser, no mido
  message.  The save tie ended at the list of literals the translated `to_mido_track` builds (`ViewTie.toMidoTrack_eq`, "up
  to `midoView`"), the load tie started from a `MidoFile` (`StaticTie.sequencesLoad_path_eq`).  Here:
    translated `sequences_save`  →  `MidiFile.save` up to the write (`midiFileSave`: translated `to_mido_track` + the mido
    objects its literals stand for, Model/MidoCodec.lean)  →  [mido: `ReadBack`, ASSUMED]  →  translated `sequences_load`
    (`MidiFile.open`, `parse_mido`, `parse_mido_track`, `parse_mido_message`, `convert`)
  is proved equal to `C13.saveLoad`, and the end-to-end theorems are restated about that composition.
-/
import SCoda.Lemmas.MidoCodecL
import SCoda.Props.StaticTie
import SCoda.Props.C12n
namespace SCoda.C12c
open SCoda SCoda.C13 SCoda.C12n SCoda.WrapTie SCoda.MidoCodecL SCoda.ViewTieL

/-! ## the parser inverts the encoding on what is saved -/

/-- **`parse_mido_track` inverts the encoding of what the translated `to_mido_track` produces** (the audit's "Close with"):
    for a relative view whose key signatures carry one of the fifteen keys (`KeysOk`) and that holds no note-on of velocity
    0 (`VelOk`), `to_midi_track().to_mido_track()` succeeds, the mido objects exist (`toMidoObjects`), and the parser reads
    them back as `toMido r` up to the fields a mido message does not carry (`midoView`): note-on / note-off on channel 0
    with the delta time, note and velocity (`None` written as 127, note-offs 0), signatures without channel, the key through
    its name and back (`Key.value`, `MusicMapping.KeyKeyMapping`), control changes with `value` in `vel`; WAITs and program
    changes are not written.  Also with mido's trailing `end_of_track`.  Both hypotheses are needed: see
    `save_raises_on_key_None`, `save_load_vel0_statement_false`.  Closes audit round 3 item M5 (first half). -/
theorem parse_encode_saved (r : List Msg) (hk : KeysOk r) (hv : VelOk r) :
    ∃ mt, toMidoObjects r = .ok mt ∧ parseTrack mt = .ok ((toMido r).map midoView) ∧
      ∀ d, parseTrack (mt ++ [MidoMsg.endOfTrack d]) = .ok ((toMido r).map midoView ++ [eotEv d]) :=
  track_round_trip r hk hv

/-- the velocity clause of `Saved` / `Saved'` / `SavedX` (velocities given and positive) implies `VelOk` -/
theorem velOk_of_vel (r : List Msg) (h : ∀ m ∈ r, m.ty = .noteOn → m.vel ≠ pyNone ∧ 0 < m.vel) : VelOk r :=
  fun m hm hty => Or.inr (h m hm hty).2

/-! ## the composition -/

/-- the default grouping of `sequences_load`: one group per track, every track a meta track -/
theorem saveLoad_shape (ppqn : Int) (rels : List (List Msg)) (evs : List (List MidiEv)) (h : All2 Dressed evs (rels.map toMido)) :
    convert ppqn ppqn evs ((List.range evs.length).map (fun i => [i])) (List.range evs.length) 0 = saveLoad ppqn rels := by
  have hl : evs.length = rels.length := by
    have := all2_length _ _ _ h
    simpa using this
  unfold saveLoad
  rw [hl]
  exact convert_dressed ppqn ppqn evs (rels.map toMido) _ _ 0 h

/-- **save then load, every step the translated source except mido's file codec**: for sequences that can be read (`hr`:
    their relative views are `rels`), with `KeysOk` and `VelOk`,
    * the translated `Sequence.sequences_save` returns a `MidiFile` `f`;
    * `MidiFile.save` up to the write hands mido the object `written` (`midiFileSave`: resolution `PPQN`, per track the
      translated `to_mido_track`, its literals read as mido messages by `encodeMsg`);
    * for EVERY file object `read` that mido may hand back within the assumption `ReadBack written read` (same resolution,
      per track the same messages as far as the parser reads them, then one `end_of_track`), the translated
      `Sequence.sequences_load(file_path)` — `MidiFile.open`, `parse_mido`, `parse_mido_track`, `parse_mido_message`,
      `convert` with the default grouping — is `C13.saveLoad PPQN rels`, the function the C12 theorems are about.
    What remains assumed about mido is exactly `ReadBack` (Model/MidoCodec.lean) and that its constructors accept the
    fields (they raise outside data bytes 0..127, numerator 0..255, denominator a power of two: replayed, see the report).
    Closes audit round 3 item M5. -/
theorem save_then_load (e : Env) (seqs : List Seq) (rels : List (List Msg)) (hr : readRels seqs = .ok rels)
    (hk : ∀ r ∈ rels, KeysOk r) (hv : ∀ r ∈ rels, VelOk r) :
    ∃ f written, Gen.Static.sequencesSave e seqs () = .ok f ∧ midiFileSave e.ppqn f = .ok written ∧
      ∀ read, ReadBack written read →
        Gen.Static.sequencesLoad e (some read) none none none 0 = saveLoad e.ppqn rels := by
  obtain ⟨ms, h1, h2⟩ := tracks_round_trip rels hk hv
  refine ⟨{ tracks := rels, ppqn := e.ppqn }, { ticksPerBeat := e.ppqn, tracks := ms }, ?_, ?_, ?_⟩
  · rw [StaticTie.sequencesSave_eq, hr]; rfl
  · simp only [midiFileSave, h1]
  · intro read hrb
    obtain ⟨hb1, hb2⟩ := hrb
    obtain ⟨evs, e1, e2⟩ := h2 read.tracks hb2
    rw [StaticTie.sequencesLoad_path_eq, e1]
    simp only [WrapTie.ok_bind, Option.getD_none]
    rw [hb1]
    exact saveLoad_shape e.ppqn rels evs e2

/-- the same with the file mido 1.3 actually hands back (`end_of_track` with delta 0 on every track) -/
theorem readBack0_ok (written : MidoFile) : ReadBack written (readBack0 written) := by
  refine ⟨rfl, ?_⟩
  simp only [readBack0]
  induction written.tracks with
  | nil => trivial
  | cons t ts ih => exact ⟨⟨0, rfl⟩, ih⟩

/-! ## the C12 theorems about the composition -/

/-- **C12 end to end over the translated source (sounding set)**: for saved sequences in `SavedX` (the weakest class proved,
    Props/C12n.lean; `Saved` and `Saved'` imply it) whose key signatures carry a key, the translated save succeeds, and
    whatever file mido hands back within `ReadBack`, the translated load succeeds with one sequence per saved sequence, and
    loaded sequence `i` sounds pitch `p` (channel 0) at tick `t` exactly when saved sequence `i` sounded `p` at `t` on some
    channel.  `hk` is needed (`save_raises_on_key_None`); `VelOk` follows from `SavedX.vel`.  Closes audit round 3 M5. -/
theorem save_load_sounding_gen (e : Env) (hp : 0 < e.ppqn) (seqs : List Seq) (rels : List (List Msg)) (hr : readRels seqs = .ok rels)
    (hs : ∀ r ∈ rels, SavedX r) (hk : ∀ r ∈ rels, KeysOk r) (hne : rels ≠ []) :
    ∃ f written, Gen.Static.sequencesSave e seqs () = .ok f ∧ midiFileSave e.ppqn f = .ok written ∧
      ∀ read, ReadBack written read →
        ∃ out, Gen.Static.sequencesLoad e (some read) none none none 0 = .ok out ∧ out.length = rels.length ∧
          ∀ (i : Nat) (r : List Msg) (s s' : Seq) (a : List Msg), rels[i]? = some r → out[i]? = some s → s.readAbs = Except.ok (s', a) →
            ∀ p t, SoundingAt (eventsAbs a) (0, p) t ↔ ∃ c, SoundingAt (eventsRel r) (c, p) t := by
  obtain ⟨f, written, h1, h2, h3⟩ := save_then_load e seqs rels hr hk (fun r hr' => velOk_of_vel r (hs r hr').vel)
  refine ⟨f, written, h1, h2, fun read hrb => ?_⟩
  rw [h3 read hrb]
  exact save_load_soundingX e.ppqn hp rels hs hne

/-- **C12 end to end over the translated source (notes)**: pitch, onset, offset, velocity of every note come back, relabelled
    to channel 0, as a multiset -/
theorem save_load_notes_gen (e : Env) (hp : 0 < e.ppqn) (seqs : List Seq) (rels : List (List Msg)) (hr : readRels seqs = .ok rels)
    (hs : ∀ r ∈ rels, SavedX r) (hk : ∀ r ∈ rels, KeysOk r) :
    ∃ f written, Gen.Static.sequencesSave e seqs () = .ok f ∧ midiFileSave e.ppqn f = .ok written ∧
      ∀ read, ReadBack written read → ∀ out, Gen.Static.sequencesLoad e (some read) none none none 0 = .ok out →
        ∀ (i : Nat) (r : List Msg) (s s' : Seq) (a : List Msg), rels[i]? = some r → out[i]? = some s → s.readAbs = Except.ok (s', a) →
          (notesOf (eventsAbs a)).Perm ((notesOf (eventsRel r)).map (fun n => { n with ch := 0 })) := by
  obtain ⟨f, written, h1, h2, h3⟩ := save_then_load e seqs rels hr hk (fun r hr' => velOk_of_vel r (hs r hr').vel)
  refine ⟨f, written, h1, h2, fun read hrb out hout => ?_⟩
  rw [h3 read hrb] at hout
  exact save_load_notesX e.ppqn hp rels hs out hout

/-! ## non-vacuity -/

/-- a two-track piece: 3/4 in D with a control change and a note of unset velocity; a second track on channel 1 -/
def exA : List Msg :=
  [Msg.mkTimeSig 0 3 4 pyNone, { ty := .keySignature, key := 2 }, { ty := .controlChange, ctl := 64, vel := 100 },
   Msg.mkOn 0 60 pyNone pyNone, Msg.mkWait 0 24, Msg.mkOff 0 60 pyNone, Msg.mkOn 0 62 80 pyNone, Msg.mkWait 0 12, Msg.mkOff 0 62 pyNone]
def exB : List Msg := [Msg.mkOn 1 64 70 pyNone, Msg.mkWait 1 36, Msg.mkOff 1 64 pyNone]

example : (∀ r ∈ [exA, exB], KeysOk r) ∧ (∀ r ∈ [exA, exB], VelOk r) := by decide

/-- what is handed to mido for `exA` -/
example : toMidoObjects exA = .ok
    [{ type := .timeSignature, time := 0, numerator := 3, denominator := 4 }, { type := .keySignature, time := 0, key := "D" },
     { type := .controlChange, time := 0, channel := some 0, control := 64, value := 100 },
     { type := .noteOn, time := 0, channel := some 0, note := 60, velocity := 127 },
     { type := .noteOff, time := 24, channel := some 0, note := 60, velocity := 0 },
     { type := .noteOn, time := 0, channel := some 0, note := 62, velocity := 80 },
     { type := .noteOff, time := 12, channel := some 0, note := 62, velocity := 0 }] := by decide +kernel

/-- the parser reads it back (the conclusion of `parse_encode_saved`, evaluated) -/
example : (toMidoObjects exA >>= parseTrack) = .ok ((toMido exA).map midoView) := by decide +kernel

set_option maxRecDepth 100000 in
/-- the whole composition evaluated by the kernel: translated save, `midiFileSave`, mido's `end_of_track`, translated load -/
example :
    (do let f ← Gen.Static.sequencesSave genEnv [Seq.ofRel exA, Seq.ofRel exB] ()
        let written ← midiFileSave genEnv.ppqn f
        Gen.Static.sequencesLoad genEnv (some (readBack0 written)) none none none 0) = saveLoad genEnv.ppqn [exA, exB] := by
  decide +kernel

set_option maxRecDepth 100000 in
example : (fun out => out.map (fun (s : Seq) => (s.abs.map (fun m => (m.ty, m.time, m.note, m.vel))))) <$> saveLoad genEnv.ppqn [exA, exB] =
    .ok [[(.keySignature, 0, -1, -1), (.timeSignature, 0, -1, -1), (.controlChange, 0, -1, 100), (.noteOn, 0, 60, 127),
          (.noteOff, 24, 60, -1), (.noteOn, 24, 62, 80), (.noteOff, 36, 62, -1)],
         [(.noteOn, 0, 64, 70), (.noteOff, 36, 64, -1)]] := by decide +kernel

/-! ## the two hypotheses are needed: findings at the excluded points (both replayed through a real file) -/

/-- a `Saved` sequence holding `Message(message_type=KEY_SIGNATURE)` — the key left `None` -/
def exKeyNone : List Msg := [{ ty := .keySignature }, Msg.mkOn 0 60 90 pyNone, Msg.mkWait 0 24, Msg.mkOff 0 60 pyNone]

theorem exKeyNone_saved : Saved exKeyNone :=
  ⟨⟨by simp [exKeyNone, NonNegWaits, Msg.mkOn, Msg.mkOff, Msg.mkWait], by simp [exKeyNone, Msg.mkOn, Msg.mkOff, Msg.mkWait]⟩,
    by simp [exKeyNone, Msg.mkOn, Msg.mkOff, Msg.mkWait], by decide, by unfold C15.PosDur; decide,
    by simp [exKeyNone, Msg.mkOn, Msg.mkOff, Msg.mkWait, pyNone], ⟨0, by simp [exKeyNone, Msg.mkOn, Msg.mkOff, Msg.mkWait]⟩⟩

/-- "saving a `Saved` sequence succeeds" — what `C13.save_load_sounding` (`∃ out, saveLoad ppqn rels = .ok out`) was read as -/
def save_succeeds_statement : Prop :=
  ∀ (e : Env) (seqs : List Seq) (rels : List (List Msg)), readRels seqs = .ok rels → (∀ r ∈ rels, Saved r) →
    ∃ f written, Gen.Static.sequencesSave e seqs () = .ok f ∧ midiFileSave e.ppqn f = .ok written

/-- **`Saved` does not make the save succeed: a key signature whose key is `None` raises.**  `exKeyNone` is `Saved`, the model
    `C13.saveLoad` succeeds on it (so `C13.save_load_sounding` promises a loaded sequence), the translated `to_mido_track`
    raises AttributeError (`msg.key.value`, midi_track.py:52).  Replayed with /venv/bin/python:
    `Sequence.sequences_save([Sequence(relative_sequence=[KEY_SIGNATURE key=None, NOTE_ON 60, WAIT 24, NOTE_OFF 60])], path)`
    raises `AttributeError: 'NoneType' object has no attribute 'value'`; no file is written.  A genuine gap of the C12 clause
    ("for saved sequences … saving and loading succeeds"): `KeysOk` is needed.  Not a model artefact of this file: the
    hand model `toMido` emits the `None` (recorded in `ViewTie.toMidoTrack_eq`), the translation and the code raise. -/
theorem save_raises_on_key_None :
    Saved exKeyNone ∧ ¬ KeysOk exKeyNone ∧ toMidoObjects exKeyNone = .error Err.attributeError ∧
      midiFileSave 24 { tracks := [exKeyNone], ppqn := 24 } = .error Err.attributeError ∧
      (∃ out, saveLoad 24 [exKeyNone] = .ok out) := by
  refine ⟨exKeyNone_saved, by decide, by decide +kernel, by decide +kernel, ?_⟩
  obtain ⟨out, h, _⟩ := save_load_sounding 24 (by decide) [exKeyNone]
    (by intro r hr; simp only [List.mem_cons, List.not_mem_nil, or_false] at hr; subst hr; exact exKeyNone_saved) (by simp)
  exact ⟨out, h⟩

theorem save_succeeds_statement_false : ¬ save_succeeds_statement := by
  intro h
  obtain ⟨f, written, h1, h2⟩ := h genEnv [Seq.ofRel exKeyNone] [exKeyNone] rfl
    (by intro r hr; simp only [List.mem_cons, List.not_mem_nil, or_false] at hr; subst hr; exact exKeyNone_saved)
  rw [StaticTie.sequencesSave_eq] at h1
  have hf : f = { tracks := [exKeyNone], ppqn := genEnv.ppqn } := by
    have : readRels [Seq.ofRel exKeyNone] = .ok [exKeyNone] := rfl
    rw [this] at h1
    simp only [WrapTie.ok_bind] at h1
    injection h1 with h1
    exact h1.symm
  subst hf
  have := save_raises_on_key_None.2.2.2.1
  have hp : genEnv.ppqn = 24 := by decide
  rw [hp] at h2
  rw [this] at h2
  cases h2

/-- a note-on with velocity 0 (`Message(NOTE_ON, note=60, velocity=0)`), then an ordinary note -/
def exVel0 : List Msg :=
  [Msg.mkOn 0 60 0 pyNone, Msg.mkWait 0 24, Msg.mkOff 0 60 pyNone, Msg.mkOn 0 62 80 pyNone, Msg.mkWait 0 24, Msg.mkOff 0 62 pyNone]

/-- `save_then_load` without `VelOk` -/
def save_load_vel0_statement : Prop :=
  ∀ (e : Env) (seqs : List Seq) (rels : List (List Msg)), readRels seqs = .ok rels → (∀ r ∈ rels, KeysOk r) →
    ∃ f written, Gen.Static.sequencesSave e seqs () = .ok f ∧ midiFileSave e.ppqn f = .ok written ∧
      ∀ read, ReadBack written read →
        Gen.Static.sequencesLoad e (some read) none none none 0 = saveLoad e.ppqn rels

set_option maxRecDepth 100000 in
/-- through the parser the note of velocity 0 is gone: only the note-on of pitch 62 is loaded … -/
theorem exVel0_loaded :
    (fun (out : List Seq) => out.map (fun (s : Seq) => (s.abs.filter (·.ty == .noteOn)).map (fun m => (m.time, m.note, m.vel)))) <$>
      (do let written ← midiFileSave genEnv.ppqn { tracks := [exVel0], ppqn := genEnv.ppqn }
          Gen.Static.sequencesLoad genEnv (some (readBack0 written)) none none none 0) =
      .ok [[(24, 62, 80)]] := by decide +kernel

set_option maxRecDepth 100000 in
/-- … while `C13.saveLoad` (no parser) keeps it as a note-on -/
theorem exVel0_model :
    (fun (out : List Seq) => out.map (fun (s : Seq) => (s.abs.filter (·.ty == .noteOn)).map (fun m => (m.time, m.note, m.vel)))) <$>
      saveLoad genEnv.ppqn [exVel0] = .ok [[(0, 60, 0), (24, 62, 80)]] := by decide +kernel

/-- **without `VelOk` the composition is not `C13.saveLoad`: a note-on of velocity 0 is written as `note_on velocity=0` and
    parsed as a note-off** (midi_message.py:37), so the saved note is lost on loading; `C13.saveLoad` — which skips the
    parser — keeps it.  Replayed through a real file with /venv/bin/python (`sequences_save` then `sequences_load`): the
    file holds `note_on note=60 velocity=0 time=0`, the loaded sequence is `[TIME_SIGNATURE 4/4, WAIT 24, NOTE_ON 62 vel 80,
    WAIT 24, NOTE_OFF 62]` — pitch 60 never sounds.  The real code agrees with the composition proved here, not with
    `C13.saveLoad`: the C12 theorems are right only because `Saved.vel` / `SavedX.vel` ask `0 < velocity`; outside, a sequence
    that sounded pitch 60 over [0,24) comes back without it. -/
theorem save_load_vel0_statement_false : ¬ save_load_vel0_statement := by
  intro h
  obtain ⟨f, written, h1, h2, h3⟩ := h genEnv [Seq.ofRel exVel0] [exVel0] rfl (by decide)
  rw [StaticTie.sequencesSave_eq] at h1
  have hf : f = { tracks := [exVel0], ppqn := genEnv.ppqn } := by
    have : readRels [Seq.ofRel exVel0] = .ok [exVel0] := rfl
    rw [this] at h1
    simp only [WrapTie.ok_bind] at h1
    injection h1 with h1
    exact h1.symm
  subst hf
  have h4 := h3 (readBack0 written) (readBack0_ok written)
  have h5 := exVel0_loaded
  rw [h2] at h5
  simp only [WrapTie.ok_bind] at h5
  rw [h4] at h5
  have h6 := exVel0_model
  cases hsl : saveLoad genEnv.ppqn [exVel0] with
  | error x => rw [hsl] at h6; cases h6
  | ok out =>
    rw [hsl] at h5 h6
    simp only [WrapTie.map_ok] at h5 h6
    rw [h6] at h5
    revert h5
    decide

end SCoda.C12c
