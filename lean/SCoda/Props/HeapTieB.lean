/-
  `Sequence.sequences_split_bars` at identity level, part (B): the one place where `HeapOps.splitBars` does not follow the order of
  the Python statements.

  sequence.py:531-538 runs `sequence_to_add.quantise_note_lengths(do_not_extend=True)` FIRST and evaluates the arguments of
  `Bar(sequence_to_add, current_ts_numerator, current_ts_denominator, Key(current_key) …)` AFTERWARDS; `HeapOps.sbBar` asks the oracle for
  the bar's signature and key (`barSig`, keyed by the message values of the piece's relative view) on the heap BEFORE the
  re-quantisation.  (In the code the three scalars do not depend on the piece at all — they are the state of the signature queues of
  the meta track; keying them by the piece's values is how the sampled correspondence `harness/heap_corr.py` records them.)

  * `sbBarPy`                       the per-bar step in the order of the Python statements;
  * `sbBar_order_statement_false`   the two differ on a heap on which the piece's absolute view is live and SHARES a message cell
                                    with its relative view (kernel-checked): the re-quantisation re-times the shared message, the
                                    oracle is asked about different values, the bar gets a different numerator;
  * `sbBar_order_agree`             they are EQUAL whenever the piece's absolute view is stale or missing and the piece has no
                                    dangling identity — which holds at the only call site: every `sequence_to_add` is a wrapper
                                    that `sequences_split_bars` has just built (`Sequence(relative_sequence=…)`: `_abs` unset, `_abs_stale`
                                    true; `Sequence()`: an empty absolute view, `_rel` unset) — `sbSplit_fresh_wrappers`;
  * `sbBarPy_spec`                  the region-calculus statement of `HeapL.sbBar_spec` holds of the Python order as well: the
                                    freshness theorem `C16c.derive_fresh_splitBars` does not depend on where `barSig` is evaluated.
-/
import SCoda.Lemmas.HeapTie2L
import SCoda.Props.HeapTie
namespace SCoda.HeapTieB
open SCoda SCoda.HeapOps SCoda.HeapLib SCoda.HeapL SCoda.HeapTieL SCoda.HeapTie2L SCoda.C16c

/-- sequence.py:531-538 in the order of the Python statements: the optional re-quantisation, THEN the arguments of `Bar(…)` -/
def sbBarPy (o : Orc) (tag : Nat) (qnl : Bool) (h : Heap) (s0 : Nat) : Heap × Nat :=
  let h1 := if qnl then quantiseNoteLengths o (mix tag 1) h s0 else h
  let sg := o.barSig tag (optVals h1 (h1.seq s0).rel)
  barInit o (mix tag 2) h1 s0 sg.1 sg.2.1 sg.2.2

/-- "`HeapOps.sbBar` is the per-bar step of the code" on every heap -/
def sbBar_order_statement : Prop := ∀ (o : Orc) (tag : Nat) (qnl : Bool) (h : Heap) (s0 : Nat), sbBar o tag qnl h s0 = sbBarPy o tag qnl h s0

/-- a view (list cell 0) holding one message -/
def exSplitHeapB : Heap := ((Heap.empty.newMsg { ty := .noteOn, time := 5, note := 60, vel := 64 }).1.newLst [0]).1

/-- one NOTE_ON (cell 0) held by BOTH views (list cells 0 and 1) of a `Sequence` (cell 0) whose views are both live -/
def sharedViewsHeap : Heap :=
  ((((Heap.empty.newMsg { ty := .noteOn, time := 5, note := 60, vel := 64 }).1.newLst [0]).1.newLst [0]).1.newSeq
    { abs := some 0, rel := some 1, absStale := false, relStale := false }).1

/-- an oracle whose re-quantisation writes time 99 and whose bar numerator is the time of the piece's first message -/
def orderOrc : Orc :=
  { C16c.exOrc with
    edit := fun _ vs => vs.map (fun m => { m with time := 99 })
    plan := fun _ vs => (List.range vs.length).map Item.keep
    barSig := fun _ vs => (match vs with | m :: _ => m.time | [] => 0, 4, pyNone) }

/-- the numerators differ: 5 (the value before the re-quantisation) in `HeapOps.sbBar`, 99 in the order of the code -/
example : ((sbBar orderOrc 0 true sharedViewsHeap 0).1.bar 0).num = 5 ∧ ((sbBarPy orderOrc 0 true sharedViewsHeap 0).1.bar 0).num = 99 := by
  decide +kernel

theorem sbBar_order_statement_false : ¬ sbBar_order_statement := by
  intro hst
  have h1 := congrArg (fun r => (r.1.bar 0).num) (hst orderOrc 0 true sharedViewsHeap 0)
  revert h1
  decide +kernel

/-! ### agreement on the heaps of the call site -/

theorem writeMsgs_seq : ∀ (ws : List (Nat × Msg)) (h : Heap), (writeMsgs h ws).seq = h.seq := by
  intro ws
  induction ws with
  | nil => intro h; rfl
  | cons w ws ih => intro h; obtain ⟨i, m⟩ := w; simp only [writeMsgs]; rw [ih]; rfl

theorem absOpView_seq (o : Orc) (tag : Nat) (h : Heap) (l : Nat) : (absOpView o tag h l).seq = h.seq := by
  unfold absOpView
  rw [(viewLevel_rebuild _ _ _).1]
  exact writeMsgs_seq _ _

/-- message and list cells that existed keep their content through `quantise_note_lengths` when the absolute view is stale (it is
    regenerated: all writes go to the NEW view and its NEW messages) or missing -/
theorem qnl_keeps_rel (o : Orc) (tag : Nat) (h : Heap) (s0 : Nat)
    (hst : (h.seq s0).absStale = true ∨ (h.seq s0).abs = none) :
    let h1 := quantiseNoteLengths o tag h s0
    (h1.seq s0).rel = (h.seq s0).rel ∧ (∀ l, l < h.nLst → h1.lst l = h.lst l) ∧ (∀ i, i < h.nMsg → h1.msg i = h.msg i) := by
  intro h1
  -- the cases in which `self.abs` does not regenerate: nothing is written, or only the flag
  by_cases hreg : (h.seq s0).absStale = true ∧ (h.seq s0).relStale = false ∧ (h.seq s0).rel.isSome
  · obtain ⟨ha, hr, hsome⟩ := hreg
    obtain ⟨r, hrel⟩ := Option.isSome_iff_exists.1 hsome
    -- `getAbs` builds a new view from the relative one
    have hga : getAbs o h s0 = ((convView o.toAbs h r).1.setSeq s0 { h.seq s0 with abs := some (convView o.toAbs h r).2, absStale := false },
        some (convView o.toAbs h r).2) := by
      simp [getAbs, ha, hr, hrel]
    have hq : h1 = invalidateRel (absOpView o tag (getAbs o h s0).1 (convView o.toAbs h r).2) s0 := by
      show quantiseNoteLengths o tag h s0 = _
      simp only [quantiseNoteLengths, withAbs, hga]
    obtain ⟨sc, ic⟩ := convView_spec (good_fresh h) o.toAbs r
    -- after the store into the wrapper cell the fresh region is still good
    have hg2 : Good (Fresh h) (getAbs o h s0).1 := by
      rw [hga]
      refine ⟨fun c hc => sc.good.up c (by cases c with | mk k i => cases k <;> simpa [Heap.alloc, Heap.next, Heap.setSeq] using hc), ?_⟩
      rintro ⟨k, i⟩ hx hal p hp
      have hal' : (convView o.toAbs h r).1.alloc (k, i) := by cases k <;> simpa [Heap.alloc, Heap.next, Heap.setSeq] using hal
      have hne : (k, i) ≠ (Kind.seq, s0) := by
        rintro ⟨⟩
        -- the wrapper cell is outside the fresh region unless it is unallocated, but then it would not be read: it is in `X` only if unallocated in `h`
        exact absurd hx (fun hxx => by
          have : ¬ h.alloc (Kind.seq, s0) := hxx
          -- an unallocated wrapper cell: allowed, the pointers of the stored cell are the new view and the old relative view
          exact this.elim (by
            exfalso
            exact this (by
              have := hal'
              simp only [Heap.alloc, Heap.next] at this ⊢
              have hn : (convView o.toAbs h r).1.nSeq = h.nSeq := by
                simp [convView, Heap.newLst, (newMsgs_frame _ h).2.2.2.2.2.2.1]
              omega)))
      rw [setSeq_get_other _ _ _ hne] at hp
      have := sc.good.closed (k, i) hx hal' p hp
      exact ⟨this.1, by cases p with | mk k' i' => cases k' <;> simpa [Heap.alloc, Heap.next, Heap.setSeq] using this.2⟩
    have hin : In (Fresh h) (getAbs o h s0).1 (.lst, (convView o.toAbs h r).2) := by
      rw [hga]
      exact ⟨ic.1, by simpa [Heap.alloc, Heap.next, Heap.setSeq] using ic.2⟩
    have s3 := absOpView_spec (o := o) hg2 tag hin
    refine ⟨?_, ?_, ?_⟩
    · rw [hq]
      have e3 := absOpView_seq o tag (getAbs o h s0).1 (convView o.toAbs h r).2
      simp only [invalidateRel, Heap.setSeq, e3, if_true]
      rw [hga]
      simp [Heap.setSeq]
    · intro l hl
      have a1 : h.alloc (.lst, l) := hl
      have e1 := sc.pres.same (.lst, l) (fun hn => hn a1)
      have e3 := s3.pres.same (.lst, l) (fun hn => hn a1)
      rw [hq]
      have : (invalidateRel (absOpView o tag (getAbs o h s0).1 (convView o.toAbs h r).2) s0).get (.lst, l)
          = (absOpView o tag (getAbs o h s0).1 (convView o.toAbs h r).2).get (.lst, l) := by
        simp [invalidateRel, Heap.get, Heap.setSeq]
      have e2 : (getAbs o h s0).1.get (.lst, l) = (convView o.toAbs h r).1.get (.lst, l) := by
        rw [hga]; simp [Heap.get, Heap.setSeq]
      have := this.trans (e3.trans (e2.trans e1))
      simpa [Heap.get] using this
    · intro i hi
      have a1 : h.alloc (.msg, i) := hi
      have e1 := sc.pres.same (.msg, i) (fun hn => hn a1)
      have e3 := s3.pres.same (.msg, i) (fun hn => hn a1)
      rw [hq]
      have : (invalidateRel (absOpView o tag (getAbs o h s0).1 (convView o.toAbs h r).2) s0).get (.msg, i)
          = (absOpView o tag (getAbs o h s0).1 (convView o.toAbs h r).2).get (.msg, i) := by
        simp [invalidateRel, Heap.get, Heap.setSeq]
      have e2 : (getAbs o h s0).1.get (.msg, i) = (convView o.toAbs h r).1.get (.msg, i) := by
        rw [hga]; simp [Heap.get, Heap.setSeq]
      have := this.trans (e3.trans (e2.trans e1))
      simpa [Heap.get] using this
  · -- `self.abs` returns nothing (`None` / raises): the heap is unchanged
    have hnone : (getAbs o h s0) = (h, none) := by
      unfold getAbs
      rcases hst with ha | ha
      · simp only [ha, if_true]
        by_cases hr : (h.seq s0).relStale = true
        · simp [hr]
        · cases hrel : (h.seq s0).rel with
          | none => simp [hr]
          | some r => exact absurd ⟨ha, by simpa using hr, by simp [hrel]⟩ hreg
      · by_cases hs : (h.seq s0).absStale = true
        · simp only [hs, if_true]
          by_cases hr : (h.seq s0).relStale = true
          · simp [hr]
          · cases hrel : (h.seq s0).rel with
            | none => simp [hr]
            | some r => exact absurd ⟨hs, by simpa using hr, by simp [hrel]⟩ hreg
        · simp [hs, ha]
    have : h1 = h := by
      show quantiseNoteLengths o tag h s0 = h
      simp [quantiseNoteLengths, withAbs, hnone]
    rw [this]
    exact ⟨rfl, fun _ _ => rfl, fun _ _ => rfl⟩

/-- `quantise_note_lengths` never re-binds `_rel` -/
theorem qnl_rel_field (o : Orc) (tag : Nat) (h : Heap) (s0 : Nat) :
    ((quantiseNoteLengths o tag h s0).seq s0).rel = (h.seq s0).rel := by
  have hga : ((getAbs o h s0).1.seq s0).rel = (h.seq s0).rel := by
    unfold getAbs
    simp only
    split
    · split
      · rfl
      · split
        · rfl
        · simp [Heap.setSeq]
    · rfl
  unfold quantiseNoteLengths withAbs
  simp only
  split
  · exact hga
  · simp [invalidateRel, Heap.setSeq, absOpView_seq, hga]

/-- what holds of every `sequence_to_add` at the call site: it has no relative view (`Sequence()`), or its absolute view is stale or
    missing and its relative view and the messages of that view exist (`Sequence(relative_sequence=piece)`) -/
def PieceOk (h : Heap) (s0 : Nat) : Prop :=
  (h.seq s0).rel = none ∨
    (((h.seq s0).absStale = true ∨ (h.seq s0).abs = none)
      ∧ ∀ l, (h.seq s0).rel = some l → l < h.nLst ∧ ∀ i ∈ h.lst l, i < h.nMsg)

instance (h : Heap) (s0 : Nat) : Decidable (PieceOk h s0) := by
  unfold PieceOk
  cases (h.seq s0).rel with
  | none => exact isTrue (Or.inl rfl)
  | some l =>
    have : Decidable (∀ l', some l = some l' → l' < h.nLst ∧ ∀ i ∈ h.lst l', i < h.nMsg) :=
      decidable_of_iff (l < h.nLst ∧ ∀ i ∈ h.lst l, i < h.nMsg) ⟨fun hh l' he => by cases he; exact hh, fun hh => hh l rfl⟩
    infer_instance

/-- on the heaps of the call site `HeapOps.sbBar` IS the per-bar step in the order of the Python statements (A2) -/
theorem sbBar_order_agree (o : Orc) (tag : Nat) (qnl : Bool) (h : Heap) (s0 : Nat) (hok : PieceOk h s0) :
    sbBar o tag qnl h s0 = sbBarPy o tag qnl h s0 := by
  unfold sbBar sbBarPy
  cases qnl with
  | false => rfl
  | true =>
    simp only [if_true]
    have hrel := qnl_rel_field o (mix tag 1) h s0
    have hv : optVals (quantiseNoteLengths o (mix tag 1) h s0) ((quantiseNoteLengths o (mix tag 1) h s0).seq s0).rel
        = optVals h (h.seq s0).rel := by
      rw [hrel]
      rcases hok with hn | ⟨hst, hal⟩
      · rw [hn]; rfl
      · cases hr : (h.seq s0).rel with
        | none => rfl
        | some l =>
          obtain ⟨hl, hm⟩ := hal l hr
          obtain ⟨_, k2, k3⟩ := qnl_keeps_rel o (mix tag 1) h s0 hst
          simp only [optVals, Heap.viewVals, Heap.vals, k2 l hl]
          exact List.map_congr_left (fun i hi => k3 i (hm i hi))
    rw [hv]

example : PieceOk (seqInit Heap.empty none none).1 0 := by decide
example : PieceOk (seqInit exSplitHeapB none (some 0)).1 0 := by decide
example : ¬ PieceOk sharedViewsHeap 0 := by decide

/-- the wrappers `sequences_split_bars` builds around the pieces (`Sequence(relative_sequence=seq)`, sequence.py:518) satisfy `PieceOk`
    when the pieces exist and hold existing messages -/
theorem pieceOk_wrapped (h : Heap) (p : Nat) (hp : p < h.nLst) (hm : ∀ i ∈ h.lst p, i < h.nMsg) :
    PieceOk (seqInit h none (some p)).1 (seqInit h none (some p)).2 := by
  right
  simp [seqInit, Heap.newSeq, hp]
  exact hm

/-- so does the placeholder `Sequence()` (sequence.py:526-527) -/
theorem pieceOk_empty (h : Heap) : PieceOk (seqInit h none none).1 (seqInit h none none).2 := by
  left
  simp [seqInit, Heap.newSeq, Heap.newLst]

/-- `HeapL.sbBar_spec` for the order of the Python statements: the freshness / frame calculus does not depend on where the
    oracle is asked for the bar's scalars -/
theorem sbBarPy_spec {X : Region} {o : Orc} {h : Heap} (hg : Good X h) (tag : Nat) (qnl : Bool) {s0 : Nat} (hs : In X h (.seq, s0)) :
    Spec X h (sbBarPy o tag qnl h s0).1 ∧ In X (sbBarPy o tag qnl h s0).1 (.bar, (sbBarPy o tag qnl h s0).2) := by
  have s1 : Spec X h (if qnl then quantiseNoteLengths o (mix tag 1) h s0 else h) := by
    split
    · exact quantiseNoteLengths_spec hg _ hs
    · exact Spec.refl hg
  obtain ⟨s2, i2⟩ := barInit_spec (o := o) s1.good (mix tag 2)
    (o.barSig tag (optVals (if qnl then quantiseNoteLengths o (mix tag 1) h s0 else h)
      ((if qnl then quantiseNoteLengths o (mix tag 1) h s0 else h).seq s0).rel)).1
    (o.barSig tag (optVals (if qnl then quantiseNoteLengths o (mix tag 1) h s0 else h)
      ((if qnl then quantiseNoteLengths o (mix tag 1) h s0 else h).seq s0).rel)).2.1
    (o.barSig tag (optVals (if qnl then quantiseNoteLengths o (mix tag 1) h s0 else h)
      ((if qnl then quantiseNoteLengths o (mix tag 1) h s0 else h).seq s0).rel)).2.2 (hs.mono s1.pres)
  exact ⟨s1.trans s2, i2⟩

end SCoda.HeapTieB
