/-
  C01 / C03, second part:
  * tokenisation of every valid piece *succeeds* (greedy rest decomposition under the grid condition);
  * the total duration is rounded up to the end of the last bar (outside the known finding D15);
  * the n-chunk form of C03 by induction over the list of chunks.
-/
import SCoda.Props.C01
import SCoda.Lemmas.SimB
namespace SCoda.C01
open SCoda

/-! ## success -/

/-- grid condition (DESIGN §4 C01): `g` is a step size dividing or "dominated in" every step size:
    a step that is not a multiple of `g` is never the largest step below a multiple of `g` -/
structure GridOk (c : Cfg) (g : Int) : Prop where
  pos : 0 < g
  mem : g ∈ c.steps
  least : ∀ s ∈ c.steps, g ≤ s
  dominated : ∀ s ∈ c.steps, s % g = 0 ∨ (s / g + 1) * g ∈ c.steps
  sorted : c.steps.Pairwise (· < ·)

/-- what makes a list of events acceptable from state `st` (the tokeniser's input constraints) -/
structure EvsValid (c : Cfg) (g : Int) (evs : List (Int × Pairing)) : Prop where
  onGrid : ∀ ev ∈ evs, ∀ m ∈ ev.2.head?, m.time % g = 0
  noteShape : ∀ ev ∈ evs, ∀ m ∈ ev.2.head?, m.ty = .noteOn →
    ∃ off, ev.2 = [m, off] ∧ c.pitchLo ≤ m.note ∧ m.note ≤ c.pitchHi ∧ (off.time - m.time) ∈ c.values
      ∧ binIndex c.bins m.vel < c.bins.length
  sigOk : ∀ ev ∈ evs, ∀ m ∈ ev.2.head?, m.ty = .timeSignature →
    (m.num * c.defDen) % m.den = 0 ∧ c.tsLo ≤ (m.num * c.defDen) / m.den ∧ (m.num * c.defDen) / m.den ≤ c.tsHi
      ∧ 0 < c.capacity m.num m.den ∧ c.capacity m.num m.den % g = 0

theorem GridOk.toGrid {c : Cfg} {g : Int} (h : GridOk c g) : SimB.Grid c.steps g :=
  ⟨h.pos, h.mem, h.least, h.dominated, h.sorted⟩

/-- the greedy rest decomposition never gets stuck on a rest that is a multiple of `g` -/
theorem applyRest_ok (c : Cfg) (hc : CfgOk c) (g : Int) (hg : GridOk c g) (capTotal : Int) (hcap : 0 < capTotal)
    (hcg : capTotal % g = 0) (rest cur bar rem : Int) (acc : List Tok)
    (hr : rest % g = 0) (hrem : 0 < rem) (hremg : rem % g = 0) :
    ∃ r, applyRest c capTotal (rest.toNat + 1) rest (cur, bar, rem) acc = .ok r := by
  have _ := hc
  obtain ⟨bar', rem', acc', h, _⟩ := SimB.applyRest_grid c g hg.toGrid capTotal hcap hcg (rest.toNat + 1) rest cur bar rem acc
    (Or.inl (by omega)) hr hrem hremg
  exact ⟨_, h⟩

/-- the loop state stays on the grid -/
structure LInv (g : Int) (l : TkLoop) : Prop where
  cur : l.st.curTime % g = 0
  rem : 0 < l.st.capRem
  remg : l.st.capRem % g = 0
  cap : 0 < l.capTotal
  capg : l.capTotal % g = 0

theorem tail_ok (c : Cfg) (g : Int) (l : TkLoop) (m : Msg) (restP : List Msg) (a b r : Int) (toks0 : List Tok)
    (hnote : m.ty = .noteOn → ∃ off, m :: restP = [m, off] ∧ c.pitchLo ≤ m.note ∧ m.note ≤ c.pitchHi
      ∧ (off.time - m.time) ∈ c.values ∧ binIndex c.bins m.vel < c.bins.length)
    (hsig : m.ty = .timeSignature →
      (m.num * c.defDen) % m.den = 0 ∧ c.tsLo ≤ (m.num * c.defDen) / m.den ∧ (m.num * c.defDen) / m.den ≤ c.tsHi
        ∧ 0 < c.capacity m.num m.den ∧ c.capacity m.num m.den % g = 0)
    (ha : a % g = 0) (hr : 0 < r) (hrg : r % g = 0) (hcap : 0 < l.capTotal) (hcapg : l.capTotal % g = 0) :
    ∃ l', Tokenise.tail c l m restP a b r toks0 = .ok l' ∧ LInv g l' := by
  unfold Tokenise.tail
  simp only
  split
  · rename_i hty
    obtain ⟨off, h1, h2, h3, h4, h5⟩ := hnote hty
    have : restP = [off] := by simpa using h1
    subst this
    simp only [List.getElem?_eq_getElem h5]
    have hp : (!(decide (c.pitchLo ≤ m.note) && decide (m.note ≤ c.pitchHi))) = false := by simp [h2, h3]
    have hvv : (!c.values.contains (off.time - m.time)) = false := by simp [h4]
    simp only [hp, hvv, Bool.false_eq_true, if_false]
    exact ⟨_, rfl, ha, hr, hrg, hcap, hcapg⟩
  · rename_i hty
    obtain ⟨h1, h2, h3, h4, h5⟩ := hsig hty
    by_cases hb : b > 0
    · rw [if_pos hb]
      exact ⟨_, rfl, ha, hr, hrg, hcap, hcapg⟩
    · rw [if_neg hb]
      have hd : ((m.num * c.defDen) % m.den != 0) = false := by simp [h1]
      have hs : (!(decide (c.tsLo ≤ (m.num * c.defDen) / m.den) && decide ((m.num * c.defDen) / m.den ≤ c.tsHi))) = false := by
        simp [h2, h3]
      simp only [hd, hs, Bool.false_eq_true, if_false]
      exact ⟨_, rfl, ha, h4, h5, h4, h5⟩
  · exact ⟨_, rfl, ha, hr, hrg, hcap, hcapg⟩

theorem event_ok (c : Cfg) (g : Int) (hg : GridOk c g) (shift : Int) (hsh : shift % g = 0) (l : TkLoop)
    (ev : Int × Pairing) (hI : LInv g l) (hne : ev.2 ≠ [])
    (hgrid : ∀ m ∈ ev.2.head?, m.time % g = 0)
    (hnote : ∀ m ∈ ev.2.head?, m.ty = .noteOn →
      ∃ off, ev.2 = [m, off] ∧ c.pitchLo ≤ m.note ∧ m.note ≤ c.pitchHi ∧ (off.time - m.time) ∈ c.values
        ∧ binIndex c.bins m.vel < c.bins.length)
    (hsig : ∀ m ∈ ev.2.head?, m.ty = .timeSignature →
      (m.num * c.defDen) % m.den = 0 ∧ c.tsLo ≤ (m.num * c.defDen) / m.den ∧ (m.num * c.defDen) / m.den ≤ c.tsHi
        ∧ 0 < c.capacity m.num m.den ∧ c.capacity m.num m.den % g = 0) :
    ∃ l', tokEvent c shift l ev = .ok l' ∧ LInv g l' := by
  obtain ⟨e1, e2⟩ := ev
  cases e2 with
  | nil => exact absurd rfl hne
  | cons m restP =>
    simp only [List.head?_cons, Option.mem_def, Option.some.injEq, forall_eq'] at hgrid hnote hsig
    rw [Tokenise.tokEvent_eq]
    simp only
    split
    · have hbg : (m.time + shift - l.st.curTime) % g = 0 := SimB.sub_mod (SimB.add_mod hgrid hsh) hI.cur
      obtain ⟨bar', rem', acc', h, h1, h2⟩ := SimB.applyRest_grid c g hg.toGrid l.capTotal hI.cap hI.capg
        ((m.time + shift - l.st.curTime).toNat + 1) (m.time + shift - l.st.curTime) l.st.curTime l.st.curTimeBar
        l.st.capRem l.toks (Or.inl (by omega)) hbg hI.rem hI.remg
      rw [h]
      simp only
      refine tail_ok c g l m restP _ _ _ _ hnote hsig ?_ h1 h2 hI.cap hI.capg
      rcases Int.le_total (m.time + shift - l.st.curTime) 0 with h0 | h0
      · rw [Int.max_eq_right h0, Int.add_zero]; exact hI.cur
      · rw [Int.max_eq_left h0]; exact SimB.add_mod hI.cur hbg
    · exact tail_ok c g l m restP _ _ _ _ hnote hsig hI.cur hI.rem hI.remg hI.cap hI.capg

theorem fold_ok (c : Cfg) (g : Int) (hg : GridOk c g) (shift : Int) (hsh : shift % g = 0)
    (evs : List (Int × Pairing)) (l : TkLoop) (hI : LInv g l) (hne : ∀ ev ∈ evs, ev.2 ≠ [])
    (hv : EvsValid c g evs) :
    ∃ l', tokeniseCore.foldlM'' (tokEvent c shift) l evs = .ok l' ∧ LInv g l' := by
  induction evs generalizing l with
  | nil => exact ⟨l, rfl, hI⟩
  | cons ev evs ih =>
    obtain ⟨l1, h1, hI1⟩ := event_ok c g hg shift hsh l ev hI (hne ev (by simp)) (hv.onGrid ev (by simp))
      (hv.noteShape ev (by simp)) (hv.sigOk ev (by simp))
    obtain ⟨l2, h2, hI2⟩ := ih l1 hI1 (fun e he => hne e (by simp [he]))
      ⟨fun e he => hv.onGrid e (by simp [he]), fun e he => hv.noteShape e (by simp [he]),
        fun e he => hv.sigOk e (by simp [he])⟩
    exact ⟨l2, by simp only [tokeniseCore.foldlM'', h1, h2], hI2⟩

/-- **success**, original statement: a valid piece is accepted from any state on the grid.
    FALSE for the model as stated (`tokenise_succeeds_statement_false` at the end of this file): neither
    `EvsOk` nor `EvsValid` says anything about an event whose pairing is empty (all their clauses quantify
    over `ev.2.head?`), and `tokEvent` rejects an empty pairing with an `IndexError`.
    `tokenise_succeeds_partial` adds the hypothesis that no pairing is empty. -/
def tokenise_succeeds_statement : Prop :=
  ∀ (c : Cfg) (_ : CfgOk c) (g : Int) (_ : GridOk c g) (st : TokSt)
    (evs : List (Int × Pairing)) (_ : EvsOk c st.curTime st.curTime evs) (_ : EvsValid c g evs)
    (_ : st.curTime % g = 0) (_ : 0 < st.capRem) (_ : st.capRem % g = 0) (_ : 0 ≤ st.curTimeBar)
    (_ : 0 < c.capacity st.tsNum st.tsDen) (_ : c.capacity st.tsNum st.tsDen % g = 0),
    ∃ toks st', tokeniseCore c st evs = .ok (toks, st')

/-- **success** (with non-empty pairings): a valid piece is accepted from any state on the grid -/
theorem tokenise_succeeds_partial (c : Cfg) (hc : CfgOk c) (g : Int) (hg : GridOk c g) (st : TokSt)
    (evs : List (Int × Pairing)) (hev : EvsOk c st.curTime st.curTime evs) (hv : EvsValid c g evs)
    (hne : ∀ ev ∈ evs, ev.2 ≠ [])
    (hcur : st.curTime % g = 0) (hrem : 0 < st.capRem) (hremg : st.capRem % g = 0) (hbar : 0 ≤ st.curTimeBar)
    (hcap : 0 < c.capacity st.tsNum st.tsDen) (hcapg : c.capacity st.tsNum st.tsDen % g = 0) :
    ∃ toks st', tokeniseCore c st evs = .ok (toks, st') := by
  have _ := hc; have _ := hev; have _ := hbar
  obtain ⟨l, hl, hI⟩ := fold_ok c g hg st.curTime hcur evs { st := st, capTotal := c.capacity st.tsNum st.tsDen }
    ⟨hcur, hrem, hremg, hcap, hcapg⟩ hne hv
  unfold tokeniseCore
  simp only [bind, Except.bind, hl]
  split
  · obtain ⟨bar', rem', acc', h, _⟩ := SimB.applyRest_grid c g hg.toGrid l.capTotal hI.cap hI.capg
      (l.st.capRem.toNat + 1) l.st.capRem l.st.curTime l.st.curTimeBar l.st.capRem l.toks (Or.inl (by omega))
      hI.remg hI.rem hI.remg
    rw [h]
    exact ⟨_, _, rfl⟩
  · exact ⟨_, _, rfl⟩

/-! ## duration: rounded up to the end of the last bar -/

def emitEnd : Emit → Int
  | .barEnd t => t
  | .note _ _ _ _ off => off
  | .tsig t _ _ => t

/-! ### clock invariants -/

/-- the clock is sane: there is room in the bar and bars have a positive size -/
def Sane (k : Clock) : Prop := 0 < k.capRem ∧ 0 ≤ k.bar ∧ 0 < k.capTotal

theorem adv_inv (f : Nat) (rest : Int) (k : Clock) (hs : Sane k) (hf : rest.toNat ≤ f) :
    Sane (advance f rest k).1 ∧ (advance f rest k).1.capTotal = k.capTotal
      ∧ (advance f rest k).1.cur = k.cur + max rest 0
      ∧ (∀ e ∈ (advance f rest k).2, k.cur < e ∧ e ≤ (advance f rest k).1.cur)
      ∧ ((advance f rest k).1.bar = 0 → (rest ≤ 0 ∧ k.bar = 0) ∨ (advance f rest k).1.cur ∈ (advance f rest k).2) := by
  induction f generalizing rest k with
  | zero =>
    rw [adv_nonpos _ _ _ (by omega)]
    refine ⟨hs, rfl, by simp only; omega, by simp, fun h => Or.inl ⟨by omega, h⟩⟩
  | succ f ih =>
    by_cases hr : rest ≤ 0
    · rw [adv_nonpos _ _ _ hr]
      refine ⟨hs, rfl, by simp only; omega, by simp, fun h => Or.inl ⟨hr, h⟩⟩
    · obtain ⟨h1, h2, h3⟩ := hs
      simp only [advance]
      rw [if_neg hr]
      by_cases hlt : rest < k.capRem
      · rw [if_pos hlt]
        refine ⟨⟨by simp only; omega, by simp only; omega, h3⟩, rfl, by simp only; omega, by simp, ?_⟩
        intro h; simp only at h; omega
      · rw [if_neg hlt]
        obtain ⟨a1, a2, a3, a4, a5⟩ := ih (rest - k.capRem)
          { k with cur := k.cur + k.capRem, bar := 0, capRem := k.capTotal } ⟨h3, Int.le_refl 0, h3⟩ (by omega)
        simp only at a2 a3 a4 a5 ⊢
        refine ⟨a1, a2, by omega, ?_, ?_⟩
        · intro e he
          rcases List.mem_cons.1 he with rfl | he
          · omega
          · have := a4 e he; omega
        · intro h
          right
          rcases a5 h with h' | h'
          · have : (advance f (rest - k.capRem) { cur := k.cur + k.capRem, bar := 0, capTotal := k.capTotal, capRem := k.capTotal }).1.cur
                = k.cur + k.capRem := by omega
            rw [this]; exact List.mem_cons_self
          · exact List.mem_cons_of_mem _ h'

theorem specTail_props (c : Cfg) (m : Msg) (restP : List Msg) (k : Clock) :
    (specTail c m restP k).1.cur = k.cur ∧ (specTail c m restP k).1.bar = k.bar
      ∧ (Sane k → (m.ty = .timeSignature → 0 < c.capacity m.num m.den) → Sane (specTail c m restP k).1)
      ∧ ∀ t, Emit.barEnd t ∉ (specTail c m restP k).2 := by
  unfold specTail
  split
  · split <;> exact ⟨rfl, rfl, fun h _ => h, by simp⟩
  · rename_i hty
    split
    · exact ⟨rfl, rfl, fun h _ => h, by simp⟩
    · exact ⟨rfl, rfl, fun h hc => ⟨hc hty, h.2.1, hc hty⟩, by simp⟩
  · exact ⟨rfl, rfl, fun h _ => h, by simp⟩

/-- the invariant of the specification fold, relative to the clock `start` the call started at -/
structure FoldInv (start : Int) (kl : Clock × List Emit) : Prop where
  sane : Sane kl.1
  mono : start ≤ kl.1.cur
  ends : ∀ t, Emit.barEnd t ∈ kl.2 → start < t ∧ t ≤ kl.1.cur
  line : kl.1.bar = 0 → kl.1.cur = start ∨ Emit.barEnd kl.1.cur ∈ kl.2

theorem specEvent_inv (c : Cfg) (start shift : Int) (kl : Clock × List Emit) (ev : Int × Pairing)
    (hI : FoldInv start kl)
    (hcapEv : ∀ m ∈ ev.2.head?, m.ty = .timeSignature → 0 < c.capacity m.num m.den) :
    FoldInv start (specEvent c shift kl ev) := by
  obtain ⟨e1, e2⟩ := ev
  cases e2 with
  | nil => simpa [specEvent] using hI
  | cons m restP =>
    simp only [List.head?_cons, Option.mem_def, Option.some.injEq, forall_eq'] at hcapEv
    rw [specEvent_cons]
    obtain ⟨a1, a2, a3, a4, a5⟩ := adv_inv ((m.time + shift - kl.1.cur).toNat + 1) (m.time + shift - kl.1.cur) kl.1
      hI.sane (by omega)
    generalize advance ((m.time + shift - kl.1.cur).toNat + 1) (m.time + shift - kl.1.cur) kl.1 = r at *
    obtain ⟨t1, t2, t3, t4⟩ := specTail_props c m restP r.1
    have hmono : kl.1.cur ≤ r.1.cur := by omega
    refine ⟨t3 a1 hcapEv, by simp only; have := hI.mono; omega, ?_, ?_⟩
    · intro t ht
      simp only [List.mem_append, List.mem_map] at ht
      rcases ht with (ht | ⟨e, he, hte⟩) | ht
      · have := hI.ends t ht; simp only; omega
      · cases hte
        have := a4 t he; have := hI.mono; simp only; omega
      · exact absurd ht (t4 t)
    · intro hb
      simp only at hb ⊢
      rw [t2] at hb
      rw [t1]
      rcases a5 hb with ⟨h1, h2⟩ | h'
      · have hcur : r.1.cur = kl.1.cur := by omega
        rw [hcur]
        rcases hI.line h2 with h3 | h3
        · exact Or.inl h3
        · exact Or.inr (by simp [h3])
      · right
        simp only [List.mem_append, List.mem_map]
        exact Or.inl (Or.inr ⟨_, h', rfl⟩)

theorem fold_inv (c : Cfg) (start shift : Int) (evs : List (Int × Pairing)) (kl : Clock × List Emit)
    (hI : FoldInv start kl)
    (hcapEv : ∀ ev ∈ evs, ∀ m ∈ ev.2.head?, m.ty = .timeSignature → 0 < c.capacity m.num m.den) :
    FoldInv start (evs.foldl (specEvent c shift) kl) := by
  induction evs generalizing kl with
  | nil => exact hI
  | cons ev evs ih =>
    rw [List.foldl_cons]
    exact ih _ (specEvent_inv c start shift kl ev hI (hcapEv ev (by simp))) (fun e he => hcapEv e (by simp [he]))

theorem closeBar_inv (start : Int) (kl : Clock × List Emit) (hI : FoldInv start kl) :
    (closeBar kl).1.bar = 0
      ∧ (∀ t, Emit.barEnd t ∈ (closeBar kl).2 → start < t ∧ t ≤ (closeBar kl).1.cur)
      ∧ (start < (closeBar kl).1.cur → Emit.barEnd (closeBar kl).1.cur ∈ (closeBar kl).2) := by
  obtain ⟨k, L⟩ := kl
  obtain ⟨⟨s1, s2, s3⟩, hm, he, hl⟩ := hI
  simp only at s1 s2 s3 hm he hl
  by_cases hf : k.bar > 0
  · rw [closeBar_fire k L hf s1]
    refine ⟨rfl, ?_, fun _ => by simp⟩
    intro t ht
    simp only [List.mem_append, List.mem_singleton, Emit.barEnd.injEq] at ht
    rcases ht with ht | rfl
    · have := he t ht; simp only; omega
    · simp only; omega
  · have : closeBar (k, L) = (k, L) := by unfold closeBar; simp only; rw [if_neg (by omega)]
    rw [this]
    have hb0 : k.bar = 0 := by omega
    refine ⟨hb0, he, fun hlt => ?_⟩
    rcases hl hb0 with h | h
    · simp only at hlt; omega
    · exact h

theorem specLog_inv (c : Cfg) (st : TokSt) (evs : List (Int × Pairing))
    (hrem : 0 < st.capRem) (hbar : 0 ≤ st.curTimeBar) (hcap : 0 < c.capacity st.tsNum st.tsDen)
    (hcapEv : ∀ ev ∈ evs, ∀ m ∈ ev.2.head?, m.ty = .timeSignature → 0 < c.capacity m.num m.den) :
    (specLog c st evs).1.bar = 0
      ∧ (∀ t, Emit.barEnd t ∈ (specLog c st evs).2 → st.curTime < t ∧ t ≤ (specLog c st evs).1.cur)
      ∧ (st.curTime < (specLog c st evs).1.cur → Emit.barEnd (specLog c st evs).1.cur ∈ (specLog c st evs).2) := by
  rw [specLog_eq]
  apply closeBar_inv
  apply fold_inv _ _ _ _ _ _ hcapEv
  refine ⟨⟨hrem, hbar, hcap⟩, Int.le_refl _, by simp, fun _ => Or.inl rfl⟩

/-- after a call the clock stands on a bar line -/
theorem specLog_on_barline (c : Cfg) (st : TokSt) (evs : List (Int × Pairing))
    (hrem : 0 < st.capRem) (hbar : 0 ≤ st.curTimeBar) (hcap : 0 < c.capacity st.tsNum st.tsDen)
    (hcapEv : ∀ ev ∈ evs, ∀ m ∈ ev.2.head?, m.ty = .timeSignature → 0 < c.capacity m.num m.den) :
    (specLog c st evs).1.bar = 0 ∨ (specLog c st evs).1.capRem ≤ 0 :=
  Or.inl (specLog_inv c st evs hrem hbar hcap hcapEv).1

/-- every bar end of the log is at most the final clock, and they increase -/
theorem specLog_barEnds_le (c : Cfg) (st : TokSt) (evs : List (Int × Pairing))
    (hrem : 0 < st.capRem) (hbar : 0 ≤ st.curTimeBar) (hcap : 0 < c.capacity st.tsNum st.tsDen)
    (hcapEv : ∀ ev ∈ evs, ∀ m ∈ ev.2.head?, m.ty = .timeSignature → 0 < c.capacity m.num m.den)
    (hev : EvsOk c st.curTime st.curTime evs) :
    ∀ t, Emit.barEnd t ∈ (specLog c st evs).2 → st.curTime < t ∧ t ≤ (specLog c st evs).1.cur := by
  have _ := hev
  exact (specLog_inv c st evs hrem hbar hcap hcapEv).2.1

/-- no note sounds past the end of the bar that contains the last event: the class outside D15 -/
def NoTail (c : Cfg) (st : TokSt) (evs : List (Int × Pairing)) : Prop :=
  ∀ e ∈ (specLog c st evs).2, emitEnd e ≤ (specLog c st evs).1.cur

/-- **duration** (partial: outside D15): every emission ends at or before the final clock, which is on
    a bar line and — when the clock moved at all — is itself the last bar end emitted -/
theorem duration_partial (c : Cfg) (st : TokSt) (evs : List (Int × Pairing))
    (hrem : 0 < st.capRem) (hbar : 0 ≤ st.curTimeBar) (hcap : 0 < c.capacity st.tsNum st.tsDen)
    (hcapEv : ∀ ev ∈ evs, ∀ m ∈ ev.2.head?, m.ty = .timeSignature → 0 < c.capacity m.num m.den)
    (hev : EvsOk c st.curTime st.curTime evs) (hnt : NoTail c st evs)
    (hmoved : st.curTime < (specLog c st evs).1.cur) :
    Emit.barEnd (specLog c st evs).1.cur ∈ (specLog c st evs).2
      ∧ ∀ e ∈ (specLog c st evs).2, emitEnd e ≤ (specLog c st evs).1.cur := by
  have _ := hev
  exact ⟨(specLog_inv c st evs hrem hbar hcap hcapEv).2.2 hmoved, hnt⟩

/-- the full statement (without `NoTail`) is false on the current tree — known finding D15:
    2/4, one note [40, 76): the clock stops at 48, the note ends at 76 -/
def d15Cfg : Cfg := { steps := [2, 3, 4, 6, 8, 12, 16, 24], values := [4, 6, 8, 9, 12, 16, 18, 24, 36], bins := [127] }
def d15Evs : List (Int × Pairing) := [(0, [Msg.mkTimeSig 0 2 4 0]), (0, [Msg.mkOn 0 60 64 40, Msg.mkOff 0 60 76])]
theorem duration_false_with_tail :
    (tokeniseCore d15Cfg (TokSt.init d15Cfg) d15Evs).toOption.isSome = true
    ∧ (specLog d15Cfg (TokSt.init d15Cfg) d15Evs).1.cur = 48
    ∧ ¬ NoTail d15Cfg (TokSt.init d15Cfg) d15Evs := by
  refine ⟨?_, ?_, ?_⟩
  · decide
  · decide
  · intro h
    have := h (.note 0 60 127 40 76) (by decide)
    revert this
    decide

/-! ## C03 for any number of chunks -/

/-- tokenise the chunks one after the other threading the state; also returns the events of the
    whole piece: chunk i shifted by the clock at which its call starts, relative to the first call -/
def runChunks (c : Cfg) (st0 : TokSt) : TokSt → List (List (Int × Pairing)) →
    Except Err (List Tok × TokSt × List (Int × Pairing))
  | st, [] => .ok ([], st, [])
  | st, ch :: rest =>
    match tokeniseCore c st ch with
    | .error e => .error e
    | .ok (toks, st1) =>
      match runChunks c st0 st1 rest with
      | .error e => .error e
      | .ok (toks', st2, evs') => .ok (toks ++ toks', st2, shiftEvs (st.curTime - st0.curTime) ch ++ evs')

/-- every call but the last ends on a bar line, and every chunk is acceptable where it starts -/
def ChunksOk (c : Cfg) : TokSt → List (List (Int × Pairing)) → Prop
  | _, [] => True
  | st, ch :: rest =>
    EvsOk c st.curTime st.curTime ch ∧
    ∀ toks st1, tokeniseCore c st ch = .ok (toks, st1) → (rest ≠ [] → st1.curTimeBar = 0) ∧ ChunksOk c st1 rest

theorem shiftEvs_zero (evs : List (Int × Pairing)) : shiftEvs 0 evs = evs := by
  unfold shiftEvs
  simp

theorem shiftEvs_shiftEvs (a b : Int) (evs : List (Int × Pairing)) :
    shiftEvs a (shiftEvs b evs) = shiftEvs (b + a) evs := by
  unfold shiftEvs
  simp [List.map_map, Function.comp_def, Int.add_assoc]

theorem shiftEvs_append (a : Int) (x y : List (Int × Pairing)) :
    shiftEvs a (x ++ y) = shiftEvs a x ++ shiftEvs a y := by
  unfold shiftEvs
  simp

/-- what `specLog_append_partial` needs of the second part: its first event is a non-empty pairing not before
    the clock, and if it lies after the clock the bar has room -/
def FirstOk (st : TokSt) (evs : List (Int × Pairing)) : Prop :=
  ∀ ev rest, evs = ev :: rest → ∃ m restP, ev.2 = m :: restP ∧ st.curTime ≤ m.time + st.curTime
    ∧ (st.curTime < m.time + st.curTime → 0 < st.capRem)

theorem specLog_append_gen (c : Cfg) (st : TokSt) (evs1 evs2 : List (Int × Pairing)) (st1 : TokSt) (toks1 : List Tok)
    (hc : CfgOk c) (h1 : tokeniseCore c st evs1 = .ok (toks1, st1))
    (hb : 0 ≤ st.curTimeBar)
    (hw : 0 < st.capRem ∨ (st.curTimeBar = 0 ∧ st.capRem = c.capacity st.tsNum st.tsDen))
    (hev1 : EvsOk c st.curTime st.curTime evs1) (hfirst : FirstOk st1 evs2) :
    (specLog c st (evs1 ++ shiftEvs (st1.curTime - st.curTime) evs2)).2
      = (specLog c st evs1).2 ++ (specLog c st1 evs2).2 := by
  obtain ⟨E1, a1, _, _, _, _⟩ := core_sim c hc st st1 evs1 toks1 hb hw hev1 h1
  rw [specLog_eq] at a1
  rw [specLog_eq, specLog_eq, specLog_eq, List.foldl_append, fold_shift]
  have hs : st.curTime + (st1.curTime - st.curTime) = st1.curTime := by omega
  rw [hs]
  generalize evs1.foldl (specEvent c st.curTime) (clockOf st (c.capacity st.tsNum st.tsDen), []) = kl1 at a1 ⊢
  obtain ⟨k, E⟩ := kl1
  by_cases hf : k.bar > 0 ∧ k.capRem > 0
  · rw [closeBar_fire k E hf.1 hf.2] at a1 ⊢
    simp only [Prod.mk.injEq] at a1
    obtain ⟨a1, -⟩ := a1
    rw [← a1]
    have hcur : st1.curTime = k.cur + k.capRem := by
      have := congrArg Clock.cur a1; simpa [clockOf] using this.symm
    cases evs2 with
    | nil =>
      simp only [List.foldl_nil]
      rw [closeBar_fire k E hf.1 hf.2]
      simp [closeBar]
    | cons ev rest2 =>
      obtain ⟨m, restP, hev, hnb, hpos⟩ := hfirst ev rest2 rfl
      obtain ⟨e1, e2⟩ := ev
      simp only at hev
      subst hev
      have hcapR : st1.capRem = k.capTotal := by
        have := congrArg Clock.capRem a1; simpa [clockOf] using this.symm
      simp only [List.foldl_cons]
      rw [specEvent_close c st1.curTime k E e1 m restP hf.2 (by omega) (fun h => by
        have := hpos (by omega); omega)]
      rw [fold_prefix, closeBar_prefix]
  · have : closeBar (k, E) = (k, E) := by unfold closeBar; rw [if_neg hf]
    rw [this] at a1 ⊢
    simp only [Prod.mk.injEq] at a1
    obtain ⟨a1, -⟩ := a1
    rw [← a1]
    have := fold_prefix c st1.curTime evs2 k E []
    rw [List.append_nil] at this
    rw [this, closeBar_prefix]

theorem evsOk_nil (c : Cfg) (a b : Int) : EvsOk c a b [] := by
  constructor <;> simp

/-- a call without events either leaves the clock alone or closes the bar in progress -/
theorem core_nil (c : Cfg) (hc : CfgOk c) (st st1 : TokSt) (toks : List Tok)
    (hb : 0 ≤ st.curTimeBar)
    (hw : 0 < st.capRem ∨ (st.curTimeBar = 0 ∧ st.capRem = c.capacity st.tsNum st.tsDen))
    (h : tokeniseCore c st [] = .ok (toks, st1)) :
    (st1.curTime = st.curTime ∧ st1.capRem = st.capRem) ∨ (st.curTime ≤ st1.curTime ∧ 0 < st.capRem) := by
  obtain ⟨E1, a1, _, _, _, _⟩ := core_sim c hc st st1 [] toks hb hw (evsOk_nil c _ _) h
  rw [specLog_eq, List.foldl_nil] at a1
  by_cases hf : (clockOf st (c.capacity st.tsNum st.tsDen)).bar > 0 ∧ (clockOf st (c.capacity st.tsNum st.tsDen)).capRem > 0
  · rw [closeBar_fire _ _ hf.1 hf.2] at a1
    simp only [Prod.mk.injEq] at a1
    have h1 := congrArg Clock.cur a1.1
    simp only [clockOf] at h1 hf
    right; omega
  · have : closeBar (clockOf st (c.capacity st.tsNum st.tsDen), []) = (clockOf st (c.capacity st.tsNum st.tsDen), []) := by
      unfold closeBar; rw [if_neg hf]
    rw [this] at a1
    simp only [Prod.mk.injEq] at a1
    have h1 := congrArg Clock.cur a1.1
    have h2 := congrArg Clock.capRem a1.1
    simp only [clockOf] at h1 h2
    left; omega

theorem firstOk_join (c : Cfg) (hc : CfgOk c) (st st1 : TokSt) (ch W : List (Int × Pairing)) (toks1 : List Tok)
    (hb : 0 ≤ st.curTimeBar)
    (hw : 0 < st.capRem ∨ (st.curTimeBar = 0 ∧ st.capRem = c.capacity st.tsNum st.tsDen))
    (hev : EvsOk c st.curTime st.curTime ch)
    (h1 : tokeniseCore c st ch = .ok (toks1, st1)) (hW : FirstOk st1 W) :
    FirstOk st (ch ++ shiftEvs (st1.curTime - st.curTime) W) := by
  cases ch with
  | nil =>
    have hn := core_nil c hc st st1 toks1 hb hw h1
    intro ev rest heq
    cases W with
    | nil => simp [shiftEvs] at heq
    | cons w W' =>
      obtain ⟨m, restP, e1, e2, e3⟩ := hW w W' rfl
      simp only [shiftEvs, List.nil_append, List.map_cons, List.cons.injEq] at heq
      obtain ⟨heq, -⟩ := heq
      subst heq
      refine ⟨{ m with time := m.time + (st1.curTime - st.curTime) }, restP.map (fun m => { m with time := m.time + (st1.curTime - st.curTime) }),
        by simp only [e1, List.map_cons], ?_, ?_⟩
      · simp only; omega
      · simp only
        intro hlt
        rcases hn with ⟨n1, n2⟩ | ⟨n1, n2⟩
        · have := e3 (by omega); omega
        · exact n2
  | cons e ch' =>
    intro ev rest heq
    simp only [List.cons_append, List.cons.injEq] at heq
    obtain ⟨heq, -⟩ := heq
    subst heq
    obtain ⟨m, restP, e1, e2⟩ := first_event_ok c hc st e ch' _ h1
    exact ⟨m, restP, e1, hev.notBefore e (by simp) m (by simp [e1]), e2⟩

theorem chunks_sim (c : Cfg) (hc : CfgOk c) (st0 : TokSt) (chunks : List (List (Int × Pairing))) :
    ∀ (st st' : TokSt) (d : DetokSt) (toks : List Tok) (whole : List (Int × Pairing)),
      chunks ≠ [] → 0 ≤ st.curTimeBar →
      (0 < st.capRem ∨ (st.curTimeBar = 0 ∧ st.capRem = c.capacity st.tsNum st.tsDen)) →
      RelD c st d → ChunksOk c st chunks → runChunks c st0 st chunks = .ok (toks, st', whole) →
      ∃ d' log, dfold c d toks = .ok (d', log)
        ∧ log.filter notTsig = (specLog c st (shiftEvs (st0.curTime - st.curTime) whole)).2
        ∧ FirstOk st (shiftEvs (st0.curTime - st.curTime) whole) := by
  induction chunks with
  | nil => intro _ _ _ _ _ h; exact absurd rfl h
  | cons ch rest ih =>
    intro st st' d toks whole _ hb hw hrel hok hrun
    simp only [runChunks] at hrun
    split at hrun
    · cases hrun
    · rename_i toks1 st1 h1
      split at hrun
      · cases hrun
      · rename_i toks' st2 evs' h2
        simp only [Except.ok.injEq, Prod.mk.injEq] at hrun
        obtain ⟨q1, q2, q3⟩ := hrun
        subst q1 q2 q3
        simp only [ChunksOk] at hok
        obtain ⟨hev, hok2⟩ := hok
        obtain ⟨_, hok'⟩ := hok2 toks1 st1 h1
        obtain ⟨E1, a1, a2, a3, _, a5⟩ := core_sim c hc st st1 ch toks1 hb hw hev h1
        obtain ⟨d1, log1, b1, b2, b3⟩ := a5 d hrel
        have hU : shiftEvs (st0.curTime - st.curTime) (shiftEvs (st.curTime - st0.curTime) ch ++ evs')
            = ch ++ shiftEvs (st1.curTime - st.curTime) (shiftEvs (st0.curTime - st1.curTime) evs') := by
          rw [shiftEvs_append, shiftEvs_shiftEvs, shiftEvs_shiftEvs]
          have e1 : st.curTime - st0.curTime + (st0.curTime - st.curTime) = 0 := by omega
          have e2 : st0.curTime - st1.curTime + (st1.curTime - st.curTime) = st0.curTime - st.curTime := by omega
          rw [e1, e2, shiftEvs_zero]
        rw [hU]
        cases rest with
        | nil =>
          simp only [runChunks] at h2
          cases h2
          have hF : FirstOk st (ch ++ []) := firstOk_join c hc st st1 ch [] toks1 hb hw hev h1 (fun _ _ h => by cases h)
          have hnil : shiftEvs (st1.curTime - st.curTime) (shiftEvs (st0.curTime - st1.curTime) []) = [] := rfl
          rw [hnil]
          simp only [List.append_nil] at hF ⊢
          exact ⟨d1, log1, b1, by rw [a1]; exact b3, hF⟩
        | cons ch2 rest' =>
          obtain ⟨d2, log2, g1, g2, g3⟩ := ih st1 st2 d1 toks' evs' (by simp) a2 a3 b2 hok' h2
          refine ⟨d2, log1 ++ log2, dfold_append b1 g1, ?_, ?_⟩
          · rw [specLog_append_gen c st ch _ st1 toks1 hc h1 hb hw hev g3, a1, List.filter_append, b3, g2]
          · exact firstOk_join c hc st st1 ch _ toks1 hb hw hev h1 g3

/-- **C03, n chunks**: the concatenated stream of any number of consecutive calls makes the detokeniser
    emit (notes and bar ends) exactly the specification log of the whole piece -/
theorem chunked_n (c : Cfg) (hc : CfgOk c) (st st' : TokSt) (d : DetokSt) (chunks : List (List (Int × Pairing)))
    (toks : List Tok) (whole : List (Int × Pairing))
    (hrel : Rel c st d) (hok : ChunksOk c st chunks) (hne : chunks ≠ [])
    (hrun : runChunks c st st chunks = .ok (toks, st', whole)) :
    ∃ d' log, dfold c d toks = .ok (d', log) ∧ log.filter notTsig = (specLog c st whole).2 := by
  obtain ⟨d', log, h1, h2, _⟩ := chunks_sim c hc st chunks st st' d toks whole hne hrel.barNonneg (Or.inl hrel.remPos)
    hrel.toRelD hok hrun
  rw [Int.sub_self, shiftEvs_zero] at h2
  exact ⟨d', log, h1, h2⟩

/-! non-vacuity: the default step sizes satisfy the grid condition with g = 2 -/
example : GridOk d15Cfg 2 := by
  constructor <;> decide

/-- `tokenise_succeeds` as stated is false: an event with an empty pairing satisfies `EvsOk` and `EvsValid`
    vacuously and is rejected by `tokEvent` -/
theorem tokenise_succeeds_statement_false : ¬ tokenise_succeeds_statement := by
  intro h
  have hc : CfgOk d15Cfg := by
    constructor <;> decide
  have hg : GridOk d15Cfg 2 := by
    constructor <;> decide
  have hev : EvsOk d15Cfg (TokSt.init d15Cfg).curTime (TokSt.init d15Cfg).curTime [(0, [])] := by
    constructor <;> simp
  have hv : EvsValid d15Cfg 2 [(0, [])] := by
    constructor <;> simp
  obtain ⟨toks, st', h'⟩ := h d15Cfg hc 2 hg (TokSt.init d15Cfg) [(0, [])] hev hv (by decide) (by decide) (by decide)
    (by decide) (by decide) (by decide)
  cases h'

end SCoda.C01
