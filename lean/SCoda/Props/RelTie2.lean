/-
  REL TIE 2: the functions GENERATED from the Python source by tools/py2lean_rel2.py (Gen/RelFns2.lean, namespace
  `SCoda.Gen.Rel2`) — `RelativeSequence.normalise_relative` and `RelativeSequence.split` — are EQUAL to the
  hand-written models `SCoda.normalise` (Model/Normalise.lean) and `SCoda.split` (Model/Split.lean), for all inputs.

  The generated text follows the Python statement by statement (dict of dicts of lists of message objects, `in` /
  `remove` by object identity, nested `for` / `while` with fuel), so a semantic edit of the Python changes the
  generated definition and the corresponding theorem below stops building (tools/test_py2lean_rel2.sh).

  Nothing is linked.  Side condition `ChOk`: no message has channel `None` (`Message.__init__` guarantees it; the
  models rely on it, Model/Msg.lean).  For `normalise_relative` the input objects are pairwise distinct
  (`tagInput`: the i-th message is the object with id i), which is what the hand model's index tags assume.
-/
import SCoda.Lemmas.RelTie2L
namespace SCoda.RelTie2
open SCoda SCoda.Gen.Rel2 SCoda.RelTie2L

/-- input-level side condition: no message has channel `None` -/
def ChOk (l : List Msg) : Prop := ∀ m ∈ l, m.ch ≠ pyNone

instance (l : List Msg) : Decidable (ChOk l) := by unfold ChOk; infer_instance

/-! ### normalise_relative -/

/-- generated `normalise_relative`, unconditionally: the `do` block never raises and computes the pure function
    `normG` (fold of `gStep`, flush, clean-up by identity), for EVERY list of objects (repeated objects included). -/
theorem normaliseRelative_total (l : List Obj) : normaliseRelative l = .ok (normG l) :=
  normaliseRelative_eq_normG l

theorem untag_filter_absTag (n : Nat) (X : List Obj) (P : Obj → Bool) (Q : Option Nat × Msg → Bool)
    (h : ∀ o ∈ X, P o = Q (absTag n o)) : untag (X.filter P) = msgs ((X.map (absTag n)).filter Q) := by
  rw [List.filter_map]
  unfold untag msgs
  rw [List.map_map]
  have : X.filter P = X.filter (Q ∘ absTag n) := List.filter_congr (fun o ho => h o ho)
  rw [this]
  rfl

theorem normG_untag (r : List Msg) (h : ChOk r) : untag (normG (tagInput r)) = normalise r := by
  have hrel : Rel r.length ((tagInput r).foldl gStep (gInit (tagInput r))) (r.foldl normStep {}) :=
    rel_fold r.length r (gInit (tagInput r)) {} (rel_init r) (by simp) h
  rw [normalise_eq]
  unfold normG
  simp only []
  generalize (tagInput r).foldl gStep (gInit (tagInput r)) = g at hrel
  generalize r.foldl normStep {} = s at hrel
  have hclean := clean_eq g.d (pyKeys g.d) (g.nl, gFlush g)
  simp only [] at hclean
  rw [hclean]
  have hfl : (gFlush g).map (absTag r.length) = s.O ++ flushEnd s := by
    unfold gFlush flushEnd
    rw [hrel.wb, hrel.dc]
    split
    · have : ¬ g.nid < r.length := by have := hrel.nid; omega
      simp [absTag, this, hrel.out, Msg.mkWait, chanOfOpt]
    · simp [hrel.out]
  have hnd : ((gFlush g).map Prod.fst).Nodup := by
    unfold gFlush
    split
    · rw [List.map_append, List.nodup_append]
      refine ⟨hrel.nd, by simp, ?_⟩
      intro a ha b hb
      obtain ⟨o, ho, rfl⟩ := List.mem_map.1 ha
      simp at hb; subst hb
      have := hrel.idx
      have := hrel.nid
      rcases hrel.ids o ho with h1 | h1 <;> omega
    · exact hrel.nd
  have hU := foldl_cleanOne (allOpen g.d) (gFlush g) hnd
  unfold allOpen at hU
  rw [hU, ← hfl]
  apply untag_filter_absTag
  intro o ho
  -- the two predicates agree on every object of the output
  have hmem : ∀ i : Nat, i ∈ (allOpen g.d).map Prod.fst ↔ i ∈ unclosed s := by
    intro i
    rw [mem_unclosed s hrel.hnd]
    constructor
    · intro hi
      obtain ⟨o', ho', rfl⟩ := List.mem_map.1 hi
      obtain ⟨c, nt, hc⟩ := (mem_allOpen g.d o').1 ho'
      exact ⟨(c, nt), by rw [← hrel.stk c nt]; exact List.mem_map.2 ⟨o', hc, rfl⟩⟩
    · rintro ⟨⟨c, nt⟩, hk⟩
      rw [← hrel.stk c nt] at hk
      obtain ⟨o', ho', rfl⟩ := List.mem_map.1 hk
      exact List.mem_map.2 ⟨o', (mem_allOpen g.d o').2 ⟨c, nt, ho'⟩, rfl⟩
  have hmem' := hmem o.1
  unfold allOpen at hmem'
  by_cases hlt : o.1 < r.length
  · simp only [absTag, hlt, if_true, Q]
    by_cases hin : o.1 ∈ unclosed s
    · have := hmem'.2 hin
      simp [hin, this]
    · have : ¬ _ := fun h' => hin (hmem'.1 h')
      simp [hin, this]
  · simp only [absTag, hlt, if_false, Q]
    have : ¬ o.1 ∈ List.map Prod.fst (allOpen g.d) := by
      intro hi
      obtain ⟨o', ho', he⟩ := List.mem_map.1 hi
      obtain ⟨c, nt, hc⟩ := (mem_allOpen g.d o').1 ho'
      have h1 := hrel.slt c nt o' hc
      have h2 := hrel.idx
      omega
    unfold allOpen at this
    simp [this]

/-- **generated `RelativeSequence.normalise_relative` = hand model `normalise`**, for every list of messages without
    channel `None`, given as pairwise distinct objects: the call never raises and the values of the resulting objects
    are exactly `normalise r`. -/
theorem normaliseRelative_eq (r : List Msg) (h : ChOk r) :
    (normaliseRelative (tagInput r)).map untag = .ok (normalise r) := by
  rw [normaliseRelative_total, ← normG_untag r h]; rfl


example : ChOk [{ ty := .noteOn, ch := 1, note := 60, vel := 90 }, { ty := .wait, ch := 1, time := 2 }, { ty := .wait, ch := 1, time := 3 },
      { ty := .noteOn, ch := 1, note := 60, vel := 70 }, { ty := .noteOff, ch := 1, note := 60 }, { ty := .noteOff, ch := 1, note := 60 },
      { ty := .noteOn, ch := 1, note := 62, vel := 80 }, { ty := .wait, ch := 1, time := 4 }] ∧
    (normaliseRelative (tagInput [{ ty := .noteOn, ch := 1, note := 60, vel := 90 }, { ty := .wait, ch := 1, time := 2 }, { ty := .wait, ch := 1, time := 3 },
      { ty := .noteOn, ch := 1, note := 60, vel := 70 }, { ty := .noteOff, ch := 1, note := 60 }, { ty := .noteOff, ch := 1, note := 60 },
      { ty := .noteOn, ch := 1, note := 62, vel := 80 }, { ty := .wait, ch := 1, time := 4 }])).map untag
    = .ok [{ ty := .noteOn, ch := 1, note := 60, vel := 90 }, { ty := .wait, ch := 1, time := 5 }, { ty := .noteOff, ch := 1, note := 60 },
           { ty := .wait, ch := 1, time := 4 }] := by
  decide

/-! #### excluded points of `normaliseRelative_eq` (each replayed on /repo, see the report) -/

/-- the equality for lists in which an object may occur more than once (ids arbitrary) -/
def normaliseRelative_anyObjects_statement : Prop :=
  ∀ l : List Obj, (normaliseRelative l).map untag = .ok (normalise (untag l))

/-- FALSE: `[on, wait 4, off, on]` whose last element IS the first object (what `r.concatenate([p, q, p])` builds).
    The real code (= the generated function) removes the FIRST occurrence of the unclosed note-on and returns
    `[wait 4, off, on]`; the hand model, which takes the four messages as four objects, returns `[on, wait 4, off]`. -/
theorem normaliseRelative_anyObjects_statement_false : ¬ normaliseRelative_anyObjects_statement := by
  intro h
  have := h [(0, { ty := .noteOn, ch := 0, note := 60, vel := 90 }), (1, { ty := .wait, ch := 0, time := 4 }),
             (2, { ty := .noteOff, ch := 0, note := 60 }), (0, { ty := .noteOn, ch := 0, note := 60, vel := 90 })]
  revert this
  decide

example : (normaliseRelative [(0, { ty := .noteOn, ch := 0, note := 60, vel := 90 }), (1, { ty := .wait, ch := 0, time := 4 }),
             (2, { ty := .noteOff, ch := 0, note := 60 }), (0, { ty := .noteOn, ch := 0, note := 60, vel := 90 })]).map untag
    = .ok [{ ty := .wait, ch := 0, time := 4 }, { ty := .noteOff, ch := 0, note := 60 }, { ty := .noteOn, ch := 0, note := 60, vel := 90 }] := by
  decide

/-- the equality without `ChOk` -/
def normaliseRelative_anyChannel_statement : Prop :=
  ∀ r : List Msg, (normaliseRelative (tagInput r)).map untag = .ok (normalise r)

/-- FALSE: a single wait whose channel is `None`: the code builds the trailing wait with `Message(channel=None)`, i.e.
    channel 0; the hand model keeps `pyNone`. -/
theorem normaliseRelative_anyChannel_statement_false : ¬ normaliseRelative_anyChannel_statement := by
  intro h
  have := h [{ ty := .wait, ch := pyNone, time := 3 }]
  revert this
  decide

/-! ### split -/

/-- generated `split`, unconditionally: the `do` block never raises — in particular the fuel `len(working_memory) + 1`
    of the `while` loop always suffices (`PyErr.fuel` is unreachable) — and computes the pure function `splitG`,
    for EVERY message list and capacity list (negative capacities and channel `None` included). -/
theorem split_total (l : List Msg) (caps : List Int) : Gen.Rel2.split l caps = .ok (splitG l caps) :=
  split_eq_splitG l caps

/-- **generated `RelativeSequence.split` = hand model `split`** for every message list without channel `None` and every
    list of non-negative capacities: both succeed (the hand model's own fuel `len + 2` suffices too) with the same pieces. -/
theorem split_eq (r : List Msg) (caps : List Int) (h : ChOk r) (hc : ∀ c ∈ caps, 0 ≤ c) :
    ∃ pieces, Gen.Rel2.split r caps = .ok pieces ∧ SCoda.split r caps = .ok pieces :=
  ⟨splitG r caps, split_total r caps, splitG_eq_hand r caps h hc⟩

/-- the same, as an equivalence of outcomes -/
theorem split_ok_iff (r : List Msg) (caps : List Int) (h : ChOk r) (hc : ∀ c ∈ caps, 0 ≤ c) (pieces : List (List Msg)) :
    Gen.Rel2.split r caps = .ok pieces ↔ SCoda.split r caps = .ok pieces := by
  rw [split_total, splitG_eq_hand r caps h hc]
  constructor <;> (intro e; cases e; rfl)

example : ChOk [{ ty := .noteOn, ch := 1, note := 60, vel := 90 }, { ty := .wait, ch := 1, time := 6 }, { ty := .noteOff, ch := 1, note := 60 },
      { ty := .controlChange, ch := 1, ctl := 7, vel := 3 }, { ty := .wait, ch := 1, time := 1 }] ∧ (∀ c ∈ [(4 : Int), 0, 2], 0 ≤ c) ∧
    Gen.Rel2.split [{ ty := .noteOn, ch := 1, note := 60, vel := 90 }, { ty := .wait, ch := 1, time := 6 }, { ty := .noteOff, ch := 1, note := 60 },
      { ty := .controlChange, ch := 1, ctl := 7, vel := 3 }, { ty := .wait, ch := 1, time := 1 }] [4, 0, 2]
    = .ok [[{ ty := .noteOn, ch := 1, note := 60, vel := 90 }, { ty := .wait, ch := 1, time := 4 }, { ty := .noteOff, ch := 1, note := 60 }],
           [{ ty := .noteOff, ch := 1, note := 60 }],
           [{ ty := .noteOn, ch := 1, note := 60, vel := 90 }, { ty := .noteOn, ch := 1, note := 60, vel := 90 },
            { ty := .wait, ch := 1, time := 2 }, { ty := .noteOff, ch := 1, note := 60 }],
           [{ ty := .controlChange, ch := 1, ctl := 7, vel := 3 }, { ty := .wait, ch := 1, time := 1 }]] := by
  decide   -- (the output /repo produces for this input, zero capacity included)

/-! #### excluded points of `split_eq` -/

/-- the equality for arbitrary capacities -/
def split_anyCapacity_statement : Prop :=
  ∀ (r : List Msg) (caps : List Int), ChOk r → ∃ pieces, Gen.Rel2.split r caps = .ok pieces ∧ SCoda.split r caps = .ok pieces

/-- FALSE: a negative capacity.  The code does not enter `while remaining_capacity >= 0` at all and returns `[[wait 1]]`;
    the hand model (which has no loop test: "`remaining_capacity` never becomes negative") cuts the wait and returns `[[wait 2]]`. -/
theorem split_anyCapacity_statement_false : ¬ split_anyCapacity_statement := by
  intro h
  obtain ⟨p, h1, h2⟩ := h [{ ty := .wait, ch := 0, time := 1 }] [-1] (by decide)
  have e1 : Gen.Rel2.split [{ ty := .wait, ch := 0, time := 1 }] [-1] = .ok [[{ ty := .wait, ch := 0, time := 1 }]] := by decide
  have e2 : SCoda.split [{ ty := .wait, ch := 0, time := 1 }] [-1] = .ok [[{ ty := .wait, ch := 0, time := 2 }]] := by decide
  rw [e1] at h1; rw [e2] at h2
  cases h1; cases h2

/-- the equality without `ChOk` -/
def split_anyChannel_statement : Prop :=
  ∀ (r : List Msg) (caps : List Int), (∀ c ∈ caps, 0 ≤ c) →
    ∃ pieces, Gen.Rel2.split r caps = .ok pieces ∧ SCoda.split r caps = .ok pieces

/-- FALSE: a wait with channel `None` that has to be cut: the code builds both halves with `Message(channel=None)`,
    i.e. channel 0; the hand model keeps `pyNone`. -/
theorem split_anyChannel_statement_false : ¬ split_anyChannel_statement := by
  intro h
  obtain ⟨p, h1, h2⟩ := h [{ ty := .wait, ch := pyNone, time := 3 }] [1] (by decide)
  have e1 : Gen.Rel2.split [{ ty := .wait, ch := pyNone, time := 3 }] [1]
      = .ok [[{ ty := .wait, ch := 0, time := 1 }], [{ ty := .wait, ch := 0, time := 2 }]] := by decide
  have e2 : SCoda.split [{ ty := .wait, ch := pyNone, time := 3 }] [1]
      = .ok [[{ ty := .wait, ch := pyNone, time := 1 }], [{ ty := .wait, ch := pyNone, time := 2 }]] := by decide
  rw [e1] at h1; rw [e2] at h2
  cases h1; cases h2

end SCoda.RelTie2
