/-
  The one link of the static translator that reads the signatures and keys for `sequences_split_bars`
  (`View.abs_get_message_times_of_type`, Model/StaticLib.lean) is what the TRANSLATED
  `AbsoluteSequence.get_message_times_of_type` (Gen/AbsFns2.lean, proved in Props/AbsTie2.lean) computes
  (audit round 3, R1: the link used to be a hand-written definition that no edit of the Python body could disturb).
-/
import SCoda.Model.StaticLib
import SCoda.Props.AbsTie2

namespace SCoda.StaticLink
open SCoda SCoda.Gen.Abs2 SCoda.AbsTie2L SCoda.AbsTie2

/-- for a single requested type: the translated method, run on a freshly built list (every message its own object), succeeds and — read
    back through the heap — returns exactly what the link returns: the messages of that type in order, each with its time -/
theorem timesOfType_link (e : Env) (a : List Msg) (ty : MType) :
    ∃ r, Gen.Abs2.getMessageTimesOfType a (refsOf a) [ty] = .ok r ∧
      View.abs_get_message_times_of_type e a [ty] = .ok (a, r.map (fun p => (p.1, hGet a p.2))) := by
  obtain ⟨r, hr, h1, h2⟩ := timesOfType_init a ty
  refine ⟨r, hr, ?_⟩
  have hz : r.map (fun p => (p.1, hGet a p.2)) = List.zip (r.map (·.1)) (r.map (fun p => hGet a p.2)) := by
    rw [List.zip_map']
  rw [hz, h1, h2]
  unfold View.abs_get_message_times_of_type SCoda.timesOfType
  have hf : (a.filter (fun m => [ty].contains m.ty)) = a.filter (·.ty == ty) := by
    congr 1; funext m; simp only [List.contains_cons, List.contains_nil, Bool.or_false]
  rw [hf]
  generalize a.filter (·.ty == ty) = l
  congr 2
  induction l with
  | nil => rfl
  | cons x xs ih => simp [ih]

example : View.abs_get_message_times_of_type { defSteps := [], defValues := [], tk := fun k _ => k }
      [{ ty := .timeSignature, time := 0, num := 3, den := 4 }, { ty := .noteOn, time := 2, note := 60 },
       { ty := .timeSignature, time := 9, num := 4, den := 4 }] [.timeSignature] =
    .ok ([{ ty := .timeSignature, time := 0, num := 3, den := 4 }, { ty := .noteOn, time := 2, note := 60 },
      { ty := .timeSignature, time := 9, num := 4, den := 4 }],
      [(0, { ty := .timeSignature, time := 0, num := 3, den := 4 }), (9, { ty := .timeSignature, time := 9, num := 4, den := 4 })]) := by decide

end SCoda.StaticLink
