/-
  C06, second half of the glue — the notes of the result.
  On a well-formed input whose notes have positive length, the notes of the quantised sequence are the
  original notes, each either removed or given a new end `on + x`, where `x` obeys the local rule of
  `C06.qnlChannel_spec`: an allowed value that fits before the next onset of the same channel and
  pitch (and is not longer than the note when extension is disabled), closest to the original
  duration; removed exactly when no allowed value fits.
-/
import SCoda.Props.C06
import SCoda.Props.Notes
import SCoda.Lemmas.NoteLengthsB
import SCoda.Lemmas.SplitNotes
namespace SCoda.C06
open SCoda SCoda.Notes

/-- onset of the next note of the same channel and pitch (none if it is the last) -/
def nextKeyOnset (notes : List Note) (n : Note) : Option Int :=
  ((notes.filter (fun m => m.ch == n.ch && m.pitch == n.pitch && decide (n.on < m.on))).map (·.on)).min?

/-- the allowed values that fit note `n` -/
def fitsNote (values : List Int) (dne : Bool) (notes : List Note) (n : Note) (x : Int) : Prop :=
  x ∈ values ∧ fits dne n.on n.off (nextKeyOnset notes n) x

/-- the result is the sorted list of the re-timed pairings and the non-note messages -/
private theorem out_eqB (values : List Int) (stdLen : Int) (dne : Bool) (a out : List Msg)
    (h : quantiseNoteLengths values stdLen dne a = .ok out) :
    out = sortAbs (NLB.allOut values dne stdLen (sortAbs a)
        ++ (sortAbs a).filter (fun m => m.ty != .noteOn && m.ty != .noteOff)) := by
  rw [NL.quantise_eq] at h
  exact (Except.ok.inj h).symm

/-- the new duration of a note: the model's choice among the values that fit before the key's next onset -/
private def chosenOf (values : List Int) (dne : Bool) (notes : List Note) (n : Note) : Option Int :=
  NLB.chosenAt values dne (nextKeyOnset notes n) n.on n.off

/-- `qnl_notes` with the choice function made explicit -/
private theorem qnl_notes_explicit (values : List Int) (hv : ∀ v ∈ values, 0 < v) (stdLen : Int) (dne : Bool)
    (a out : List Msg) (hwf : WF (sortAbs a)) (hpd : PosDur (sortAbs a))
    (h : quantiseNoteLengths values stdLen dne a = .ok out) :
    (notesOf out).Perm ((notesOf (sortAbs a)).filterMap
        (fun n => (chosenOf values dne (notesOf (sortAbs a)) n).map (fun x => { n with off := n.on + x })))
      ∧ ∀ n,
          (chosenOf values dne (notesOf (sortAbs a)) n = Option.none ↔ ∀ x, ¬ fitsNote values dne (notesOf (sortAbs a)) n x)
          ∧ ∀ x, chosenOf values dne (notesOf (sortAbs a)) n = some x →
              fitsNote values dne (notesOf (sortAbs a)) n x
              ∧ ∀ y, fitsNote values dne (notesOf (sortAbs a)) n y →
                  (x - (n.off - n.on)).natAbs ≤ (y - (n.off - n.on)).natAbs := by
  constructor
  · rw [out_eqB values stdLen dne a out h]
    exact NLB.notes_out values hv dne stdLen (sortAbs a) (EQ.sortAbs_sorted a) hwf hpd
  · intro n
    exact NLB.chosenAt_spec values dne (nextKeyOnset (notesOf (sortAbs a)) n) n.on n.off

/-- **notes of the result** -/
theorem qnl_notes (values : List Int) (hv : ∀ v ∈ values, 0 < v) (stdLen : Int) (dne : Bool) (a out : List Msg)
    (hwf : WF (sortAbs a)) (hpd : PosDur (sortAbs a))
    (h : quantiseNoteLengths values stdLen dne a = .ok out) :
    ∃ chosen : Note → Option Int,
      (notesOf out).Perm ((notesOf (sortAbs a)).filterMap (fun n => (chosen n).map (fun x => { n with off := n.on + x })))
      ∧ ∀ n ∈ notesOf (sortAbs a),
          (chosen n = Option.none ↔ ∀ x, ¬ fitsNote values dne (notesOf (sortAbs a)) n x)
          ∧ ∀ x, chosen n = some x →
              fitsNote values dne (notesOf (sortAbs a)) n x
              ∧ ∀ y, fitsNote values dne (notesOf (sortAbs a)) n y →
                  (x - (n.off - n.on)).natAbs ≤ (y - (n.off - n.on)).natAbs := by
  obtain ⟨h1, h2⟩ := qnl_notes_explicit values hv stdLen dne a out hwf hpd h
  exact ⟨chosenOf values dne (notesOf (sortAbs a)), h1, fun n _ => h2 n⟩

/-- every note of the result comes from a note of the input with a chosen new duration -/
private theorem mem_out (values : List Int) (hv : ∀ v ∈ values, 0 < v) (stdLen : Int) (dne : Bool) (a out : List Msg)
    (hwf : WF (sortAbs a)) (hpd : PosDur (sortAbs a))
    (h : quantiseNoteLengths values stdLen dne a = .ok out) (n : Note) (hn : n ∈ notesOf out) :
    ∃ n0 ∈ notesOf (sortAbs a), ∃ x, n = { n0 with off := n0.on + x }
      ∧ fitsNote values dne (notesOf (sortAbs a)) n0 x := by
  obtain ⟨h1, h2⟩ := qnl_notes_explicit values hv stdLen dne a out hwf hpd h
  have := h1.mem_iff.1 hn
  rw [List.mem_filterMap] at this
  obtain ⟨n0, hn0, he⟩ := this
  cases hc : chosenOf values dne (notesOf (sortAbs a)) n0 with
  | none => rw [hc] at he; cases he
  | some x =>
    rw [hc] at he
    exact ⟨n0, hn0, x, (Option.some.inj he).symm, ((h2 n0).2 x hc).1⟩

/-- consequences in the words of the property: every remaining note has an allowed duration, keeps its
    channel, pitch, onset and velocity, and notes of one channel and pitch do not overlap -/
theorem qnl_durations (values : List Int) (hv : ∀ v ∈ values, 0 < v) (stdLen : Int) (dne : Bool) (a out : List Msg)
    (hwf : WF (sortAbs a)) (hpd : PosDur (sortAbs a))
    (h : quantiseNoteLengths values stdLen dne a = .ok out) :
    ∀ n ∈ notesOf out, (n.off - n.on) ∈ values
      ∧ ∃ n0 ∈ notesOf (sortAbs a), n0.ch = n.ch ∧ n0.pitch = n.pitch ∧ n0.on = n.on ∧ n0.vel = n.vel
          ∧ (dne = true → n.off ≤ n0.off) := by
  intro n hn
  obtain ⟨n0, hn0, x, rfl, hx, hf⟩ := mem_out values hv stdLen dne a out hwf hpd h n hn
  refine ⟨?_, n0, hn0, rfl, rfl, rfl, rfl, ?_⟩
  · have : n0.on + x - n0.on = x := by omega
    simp only [this]
    exact hx
  · intro hd
    have := hf.2 hd
    simp only
    omega

theorem qnl_no_overlap (values : List Int) (hv : ∀ v ∈ values, 0 < v) (stdLen : Int) (dne : Bool) (a out : List Msg)
    (hwf : WF (sortAbs a)) (hpd : PosDur (sortAbs a))
    (h : quantiseNoteLengths values stdLen dne a = .ok out) :
    ∀ n ∈ notesOf out, ∀ m ∈ notesOf out, n.ch = m.ch → n.pitch = m.pitch → n.on < m.on → n.off ≤ m.on := by
  intro n hn m hm hc hp hlt
  obtain ⟨n0, hn0, x, rfl, hx, hf⟩ := mem_out values hv stdLen dne a out hwf hpd h n hn
  obtain ⟨m0, hm0, y, rfl, _, _⟩ := mem_out values hv stdLen dne a out hwf hpd h m hm
  simp only at hc hp hlt ⊢
  obtain ⟨z, hz, hzle⟩ := NLB.nko_le (notesOf (sortAbs a)) n0 m0 hm0 hc.symm hp.symm hlt
  have := hf.1 z (by rw [show nextKeyOnset (notesOf (sortAbs a)) n0 = some z from hz]; rfl)
  omega

/-- the result is well-formed again -/
theorem qnl_wf (values : List Int) (hv : ∀ v ∈ values, 0 < v) (stdLen : Int) (dne : Bool) (a out : List Msg)
    (hwf : WF (sortAbs a)) (hpd : PosDur (sortAbs a))
    (h : quantiseNoteLengths values stdLen dne a = .ok out) : WF out := by
  rw [out_eqB values stdLen dne a out h]
  exact NLB.wf_out values hv dne stdLen (sortAbs a) (EQ.sortAbs_sorted a) hwf hpd

/-! non-vacuity -/
def exN : List Msg := [Msg.mkOn 0 60 64 0, Msg.mkOff 0 60 10, Msg.mkOn 0 60 70 12, Msg.mkOff 0 60 40, Msg.mkInternal 0 48]
example : WF (sortAbs exN) ∧ PosDur (sortAbs exN) := by
  have e : sortAbs exN = exN := by decide
  rw [e]
  refine ⟨SplitL.wf_of_keys exN (by decide), ?_⟩
  unfold PosDur
  decide
example : (quantiseNoteLengths [6, 12, 24] 24 false exN).toOption.map (fun o => (notesOf o).map (fun n => (n.on, n.off)))
    = some [(0, 12), (12, 36)] := by
  decide

end SCoda.C06
