/-
  C03, last glue — where a call ends.
  A call moves the clock to the onset of its last event and then closes the bar in progress.  So a
  call on whole bars ends exactly at the end of its last bar *unless* its last event sits on a bar line
  (the bar after it is never opened): that is the known finding D19 (same root cause as D15).
-/
import SCoda.Props.C01
import SCoda.Props.C01b
namespace SCoda.C01
open SCoda

/-- one event with a non-empty pairing, from a sane clock not past its onset: lands on the onset -/
theorem specEvent_step (c : Cfg) (shift : Int) (kl : Clock × List Emit) (e1 : Int) (m : Msg) (restP : List Msg)
    (hs : Sane kl.1) (ht : kl.1.cur ≤ m.time + shift)
    (hcapEv : m.ty = .timeSignature → 0 < c.capacity m.num m.den) :
    Sane (specEvent c shift kl (e1, m :: restP)).1
      ∧ (specEvent c shift kl (e1, m :: restP)).1.cur = m.time + shift := by
  rw [specEvent_cons]
  obtain ⟨a1, _, a3, _, _⟩ := adv_inv ((m.time + shift - kl.1.cur).toNat + 1) (m.time + shift - kl.1.cur) kl.1
    hs (by omega)
  generalize advance ((m.time + shift - kl.1.cur).toNat + 1) (m.time + shift - kl.1.cur) kl.1 = r at *
  obtain ⟨t1, _, t3, _⟩ := specTail_props c m restP r.1
  refine ⟨t3 a1 hcapEv, ?_⟩
  simp only
  rw [t1]; omega

theorem fold_cur (c : Cfg) (shift : Int) (evs : List (Int × Pairing)) (kl : Clock × List Emit)
    (last : Int × Pairing) (m : Msg) (hs : Sane kl.1)
    (hord : List.Pairwise (fun a b => ∀ x ∈ a.2.head?, ∀ y ∈ b.2.head?, x.time ≤ y.time) evs)
    (htime : ∀ ev ∈ evs, ∀ m ∈ ev.2.head?, kl.1.cur ≤ m.time + shift)
    (hne : ∀ ev ∈ evs, ev.2 ≠ [])
    (hcapEv : ∀ ev ∈ evs, ∀ m ∈ ev.2.head?, m.ty = .timeSignature → 0 < c.capacity m.num m.den)
    (hlast : evs.getLast? = some last) (hm : last.2.head? = some m) :
    (evs.foldl (specEvent c shift) kl).1.cur = m.time + shift := by
  induction evs generalizing kl with
  | nil => simp at hlast
  | cons ev evs ih =>
    obtain ⟨e1, e2⟩ := ev
    cases e2 with
    | nil => exact absurd rfl (hne (e1, []) (by simp))
    | cons m0 restP =>
      obtain ⟨s1, s2⟩ := specEvent_step c shift kl e1 m0 restP hs
        (htime (e1, m0 :: restP) (by simp) m0 (by simp)) (hcapEv (e1, m0 :: restP) (by simp) m0 (by simp))
      rw [List.foldl_cons]
      rw [List.pairwise_cons] at hord
      cases evs with
      | nil =>
        simp only [List.getLast?_singleton, Option.some.injEq] at hlast
        subst hlast
        simp only [List.head?_cons, Option.some.injEq] at hm
        subst hm
        simpa using s2
      | cons ev2 evs2 =>
        apply ih _ s1 hord.2
        · intro e he m' hm'
          rw [s2]
          have := hord.1 e he m0 (by simp) m' hm'
          omega
        · exact fun e he => hne e (List.mem_cons_of_mem _ he)
        · exact fun e he => hcapEv e (List.mem_cons_of_mem _ he)
        · rw [List.getLast?_cons_cons] at hlast; exact hlast

/-- the clock after the events of a call, before the final bar-closing step -/
def foldClock (c : Cfg) (st : TokSt) (evs : List (Int × Pairing)) : Clock :=
  (evs.foldl (specEvent c st.curTime) (clockOf st (c.capacity st.tsNum st.tsDen), [])).1

/-- after the events the clock stands on the onset of the last event -/
theorem foldClock_cur (c : Cfg) (st : TokSt) (evs : List (Int × Pairing)) (last : Int × Pairing) (m : Msg)
    (hev : EvsOk c st.curTime st.curTime evs) (hlast : evs.getLast? = some last) (hm : last.2.head? = some m)
    (hne : ∀ ev ∈ evs, ev.2 ≠ [])
    (hrem : 0 < st.capRem) (hbar : 0 ≤ st.curTimeBar) (hcap : 0 < c.capacity st.tsNum st.tsDen)
    (hcapEv : ∀ ev ∈ evs, ∀ m ∈ ev.2.head?, m.ty = .timeSignature → 0 < c.capacity m.num m.den) :
    (foldClock c st evs).cur = st.curTime + m.time := by
  unfold foldClock
  rw [fold_cur c st.curTime evs _ last m ⟨hrem, hbar, hcap⟩ hev.ordered
    (fun e he m' hm' => hev.notBefore e he m' hm') hne hcapEv hlast hm]
  omega

/-- **where the call ends**: on the last onset if that is a bar line, else at the end of the bar containing it -/
theorem call_end (c : Cfg) (st : TokSt) (evs : List (Int × Pairing))
    (hrem : 0 < st.capRem) (hbar : 0 ≤ st.curTimeBar) (hcap : 0 < c.capacity st.tsNum st.tsDen)
    (hcapEv : ∀ ev ∈ evs, ∀ m ∈ ev.2.head?, m.ty = .timeSignature → 0 < c.capacity m.num m.den) :
    (specLog c st evs).1.cur =
      (if 0 < (foldClock c st evs).bar then (foldClock c st evs).cur + (foldClock c st evs).capRem
       else (foldClock c st evs).cur) := by
  have hI : FoldInv st.curTime (evs.foldl (specEvent c st.curTime) (clockOf st (c.capacity st.tsNum st.tsDen), [])) := by
    apply fold_inv _ _ _ _ _ _ hcapEv
    exact ⟨⟨hrem, hbar, hcap⟩, Int.le_refl _, by simp, fun _ => Or.inl rfl⟩
  rw [specLog_eq]
  unfold foldClock
  generalize evs.foldl (specEvent c st.curTime) (clockOf st (c.capacity st.tsNum st.tsDen), []) = kl at *
  obtain ⟨k, L⟩ := kl
  have hs : 0 < k.capRem := hI.sane.1
  by_cases hf : 0 < k.bar
  · rw [closeBar_fire k L hf hs, if_pos hf]
  · have : closeBar (k, L) = (k, L) := by unfold closeBar; simp only; rw [if_neg (by omega)]
    rw [this, if_neg hf]

/-- the tokeniser's final clock is the specification's (so `call_end` is about the real call) -/
theorem call_end_tokenise (c : Cfg) (hc : CfgOk c) (st st' : TokSt) (evs : List (Int × Pairing)) (toks : List Tok)
    (d : DetokSt) (hrel : Rel c st d) (hev : EvsOk c st.curTime st.curTime evs)
    (hcap0 : 0 < c.capacity st.tsNum st.tsDen)
    (hcapEv : ∀ ev ∈ evs, ∀ m ∈ ev.2.head?, m.ty = .timeSignature → 0 < c.capacity m.num m.den)
    (hok : tokeniseCore c st evs = .ok (toks, st')) :
    st'.curTime = (if 0 < (foldClock c st evs).bar then (foldClock c st evs).cur + (foldClock c st evs).capRem
                   else (foldClock c st evs).cur) := by
  obtain ⟨_, _, _, _, _, h4, _, _⟩ := sim_partial c hc st st' d evs toks hrel hev hcap0 hcapEv hok
  rw [h4]
  exact call_end c st evs hrel.remPos hrel.barNonneg hcap0 hcapEv

/-- **D19, kernel-checked**: a 3/8 bar holding one whole-bar note (36 ticks, no trailing rest): the call
    is accepted and ends at tick 0, not 36 -/
def d19Cfg : Cfg := { steps := [2, 3, 4, 6, 8, 12, 16, 24], values := [4, 6, 8, 9, 12, 16, 18, 24, 36], bins := [127] }
def d19Evs : List (Int × Pairing) := [(0, [Msg.mkTimeSig 0 3 8 0]), (0, [Msg.mkOn 0 60 64 0, Msg.mkOff 0 60 36])]
theorem call_stalls_on_barline :
    ∃ toks st', tokeniseCore d19Cfg (TokSt.init d19Cfg) d19Evs = .ok (toks, st') ∧ st'.curTime = 0 ∧ st'.curTimeBar = 0 := by
  refine ⟨_, _, rfl, rfl, rfl⟩

end SCoda.C01
