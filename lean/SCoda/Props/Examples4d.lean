/-
  Audit round 4, item C7 (non-vacuity), part 4: `C05s.survives_partial / dropped_partial`, `HeapTie.barInit_eq / trackInit_eq`,
  `StaticTie2.sequencesSplitBars_absStale / _constructed`, `C04e.history_readable_illegal_strict`.
-/
import SCoda.Props.C05s
import SCoda.Props.HeapTie
import SCoda.Props.StaticTie2
import SCoda.Props.C04e
namespace SCoda.Examples4d
open SCoda

/-! ## `C05s.survives_partial`, `C05s.dropped_partial` -/
section C05s
open SCoda.C05 SCoda.C05s

/-- stored (NOT canonical) order, as `add_absolute_message` leaves it: pitch 60 over [0,50) and [50,100) with the second note-on
    stored before the first note-off on tick 50 (the D41 shape); pitch 64 over [7,21) — isolated — and over [60,80) -/
def aS : List Msg := [Msg.mkOn 0 60 64 0, Msg.mkOn 0 64 80 7, Msg.mkOff 0 64 21, Msg.mkOn 0 60 70 50, Msg.mkOff 0 60 50,
  Msg.mkOn 0 64 90 60, Msg.mkOff 0 64 80, Msg.mkOff 0 60 100]

theorem aS_sorted : sortAbs aS = [Msg.mkOn 0 60 64 0, Msg.mkOn 0 64 80 7, Msg.mkOff 0 64 21, Msg.mkOff 0 60 50, Msg.mkOn 0 60 70 50,
  Msg.mkOn 0 64 90 60, Msg.mkOff 0 64 80, Msg.mkOff 0 60 100] := by decide

theorem steps64 : StepsOk [6, 4] := ⟨by simp, by intro s hs'; simp at hs'; omega⟩
theorem steps6 : StepsOk [6] := ⟨by simp, by intro s hs'; simp at hs'; omega⟩

theorem okAbs_dec (a : List Msg) (h1 : TimeSorted a) (h2 : ∀ m ∈ a, 0 ≤ m.time ∧ m.ty ≠ .wait) : OkAbs a :=
  ⟨h1, fun m hm => (h2 m hm).1, fun m hm => (h2 m hm).2⟩

theorem aS_ok : OkAbs (sortAbs aS) := by
  rw [aS_sorted]
  exact okAbs_dec _ (by simp [TimeSorted, Msg.mkOn, Msg.mkOff]) (by decide)

theorem aS_wf : WF (sortAbs aS) ∧ ¬ WF aS := by
  constructor
  · rw [aS_sorted]
    intro k
    simp only [altFrom, Msg.mkOn, Msg.mkOff, Msg.nkey]
    by_cases h0 : ((0 : Int), (60 : Int)) = k
    · subst h0; simp
    · by_cases h1 : ((0 : Int), (64 : Int)) = k
      · subst h1; simp
      · simp [h0, h1]
  · intro h
    have := h (0, 60)
    simp [altFrom, aS, Msg.mkOn, Msg.mkOff, Msg.nkey] at this

theorem aS_q : quantiseS [6, 4] aS = .ok [Msg.mkOn 0 60 64 0, Msg.mkOn 0 64 80 6, Msg.mkOff 0 64 20, Msg.mkOff 0 60 48,
  Msg.mkOn 0 60 70 48, Msg.mkOn 0 64 90 60, Msg.mkOff 0 64 80, Msg.mkOff 0 60 100] := by decide +kernel

theorem aS_iso : Isolated [6, 4] aS (Msg.mkOn 0 64 80 7) (Msg.mkOff 0 64 21) := by constructor <;> decide

theorem aS_onFirst : OnFirst (sortAbs aS) (Msg.mkOn 0 64 80 7) (Msg.mkOff 0 64 21) := by
  rw [aS_sorted]
  exact ⟨[Msg.mkOn 0 60 64 0], _, rfl, by decide, by decide, by decide⟩

/-- **all nine hypotheses of `C05s.survives_partial` together** (steps `[6, 4]`; a stored order that is not the canonical one and not
    well-formed; `OkAbs` / `WF` of the canonical order; the result; the isolated note [7,21) of pitch 64, another note of that pitch
    39 ticks later; `OnFirst`; room: 24 > 6), and its conclusion: the note-on is at 6, a note-off of the key follows -/
theorem ex_survives_partial :
    { Msg.mkOn 0 64 80 7 with time := qOn [6, 4] (Msg.mkOn 0 64 80 7) } ∈
      [Msg.mkOn 0 60 64 0, Msg.mkOn 0 64 80 6, Msg.mkOff 0 64 20, Msg.mkOff 0 60 48, Msg.mkOn 0 60 70 48, Msg.mkOn 0 64 90 60,
       Msg.mkOff 0 64 80, Msg.mkOff 0 60 100]
    ∧ ∃ t, qOn [6, 4] (Msg.mkOn 0 64 80 7) < t ∧ { Msg.mkOff 0 64 21 with time := t } ∈
      [Msg.mkOn 0 60 64 0, Msg.mkOn 0 64 80 6, Msg.mkOff 0 64 20, Msg.mkOff 0 60 48, Msg.mkOn 0 60 70 48, Msg.mkOn 0 64 90 60,
       Msg.mkOff 0 64 80, Msg.mkOff 0 60 100] :=
  survives_partial [6, 4] steps64 aS _ aS_ok aS_wf.1 aS_q _ _ aS_iso aS_onFirst ⟨24, by decide, by decide⟩

example : qOn [6, 4] (Msg.mkOn 0 64 80 7) = 6 ∧ possiblePositions [6, 4] 21 = [18, 20, 24, 24] ∧ sortAbs aS ≠ aS := by decide

/-- the same piece with the isolated note over [28,29): at steps `[6]` its onset goes to 30 and no grid position of 29 lies after 30 -/
def aD : List Msg := [Msg.mkOn 0 60 64 0, Msg.mkOn 0 64 80 28, Msg.mkOff 0 64 29, Msg.mkOn 0 60 70 50, Msg.mkOff 0 60 50,
  Msg.mkOn 0 64 90 60, Msg.mkOff 0 64 80, Msg.mkOff 0 60 100]

theorem aD_sorted : sortAbs aD = [Msg.mkOn 0 60 64 0, Msg.mkOn 0 64 80 28, Msg.mkOff 0 64 29, Msg.mkOff 0 60 50, Msg.mkOn 0 60 70 50,
  Msg.mkOn 0 64 90 60, Msg.mkOff 0 64 80, Msg.mkOff 0 60 100] := by decide

theorem aD_ok : OkAbs (sortAbs aD) := by
  rw [aD_sorted]
  exact okAbs_dec _ (by simp [TimeSorted, Msg.mkOn, Msg.mkOff]) (by decide)

theorem aD_wf : WF (sortAbs aD) := by
  rw [aD_sorted]
  intro k
  simp only [altFrom, Msg.mkOn, Msg.mkOff, Msg.nkey]
  by_cases h0 : ((0 : Int), (60 : Int)) = k
  · subst h0; simp
  · by_cases h1 : ((0 : Int), (64 : Int)) = k
    · subst h1; simp
    · simp [h0, h1]

theorem aD_q : quantiseS [6] aD = .ok [Msg.mkOn 0 60 64 0, Msg.mkOff 0 60 48, Msg.mkOn 0 60 70 48, Msg.mkOn 0 64 90 60,
  Msg.mkOff 0 64 78, Msg.mkOff 0 60 102] := by decide +kernel

theorem aD_iso : Isolated [6] aD (Msg.mkOn 0 64 80 28) (Msg.mkOff 0 64 29) := by constructor <;> decide

theorem aD_onFirst : OnFirst (sortAbs aD) (Msg.mkOn 0 64 80 28) (Msg.mkOff 0 64 29) := by
  rw [aD_sorted]
  exact ⟨[Msg.mkOn 0 60 64 0], _, rfl, by decide, by decide, by decide⟩

/-- **all ten hypotheses of `C05s.dropped_partial` together** (as above, plus `Nodup` and "no room"), and its conclusion: every note
    event of pitch 64 left in the result is at least 6 ticks away from [28,29) — here the later note at [60,78) -/
theorem ex_dropped_partial :
    ∀ m ∈ [Msg.mkOn 0 60 64 0, Msg.mkOff 0 60 48, Msg.mkOn 0 60 70 48, Msg.mkOn 0 64 90 60, Msg.mkOff 0 64 78, Msg.mkOff 0 60 102],
      m.nkey = (Msg.mkOn 0 64 80 28).nkey → (m.ty = .noteOn ∨ m.ty = .noteOff) →
      m.time + maxStep [6] ≤ (Msg.mkOn 0 64 80 28).time ∨ (Msg.mkOff 0 64 29).time + maxStep [6] ≤ m.time :=
  dropped_partial [6] steps6 aD _ aD_ok aD_wf aD_q _ _ aD_iso (by decide) aD_onFirst (by decide)

example : qOn [6] (Msg.mkOn 0 64 80 28) = 30 ∧ possiblePositions [6] 29 = [24, 30] := by decide

end C05s

/-! ## `HeapTie.barInit_eq`, `HeapTie.trackInit_eq` -/
section Heap
open SCoda.HeapOps SCoda.HeapLib SCoda.Gen.HeapFns SCoda.HeapTieL SCoda.C16c SCoda.HeapTie

/-- an oracle under which `Bar.__init__` pads (`duration < capacity`: always; the pad message a WAIT 48) -/
def gP : GOrc := ⟨{ C16c.exOrc with padMsg := fun _ _ => some (Msg.mkWait 0 48) }, fun _ _ => true⟩

/-- a heap with one sequence given by its relative view: an (old) 4/4 TIME_SIGNATURE, NOTE_ON 60, WAIT 24, NOTE_OFF 60 -/
def hB : Heap :=
  let a := newMsgs Heap.empty [Msg.mkTimeSig 0 4 4 pyNone, Msg.mkOn 0 60 64 pyNone, Msg.mkWait 0 24, Msg.mkOff 0 60 pyNone]
  let l := a.1.newLst a.2
  (seqInit l.1 none (some l.2)).1

theorem hB_live : SeqLive hB 0 := Or.inl (by decide)

/-- the hypothesis of `barInit_eq` on `hB`, and the theorem applied: `Bar(seq, 3, 4, key=2)` through the translation is `HeapOps.barInit` -/
theorem ex_barInit_eq :
    (do let b ← newBarObj; Gen.HeapFns.barInit gP 0 b 0 3 4 2; pure b : HM Nat) hB
      = (.ok (HeapOps.barInit (orcOf gP) 0 hB 0 3 4 2).2, (HeapOps.barInit (orcOf gP) 0 hB 0 3 4 2).1) :=
  barInit_eq gP 0 0 3 4 2 hB hB_live

/-- the right-hand side evaluated: bar 0 keeps the ARGUMENT sequence 0, whose relative view is a new list object holding a NEW
    time-signature message (cell 5, 3/4) in front, the three kept message objects 1, 2, 3 (the old 4/4 message 0 is dropped) and
    the new pad message 4; the absolute view is stale -/
example : let r := HeapOps.barInit (orcOf gP) 0 hB 0 3 4 2
    r.2 = 0 ∧ r.1.bar 0 = { seq := 0, num := 3, den := 4, key := 2 } ∧
    r.1.seq 0 = { abs := none, rel := some 1, absStale := true, relStale := false } ∧
    reach r.1 (.bar, 0) = [(.bar, 0), (.seq, 0), (.lst, 1), (.msg, 5), (.msg, 1), (.msg, 2), (.msg, 3), (.msg, 4)] ∧
    (optVals r.1 (r.1.seq 0).rel).map (fun m => (m.ty, m.num, m.den, m.time)) =
      [(.timeSignature, 3, 4, -1), (.noteOn, -1, -1, -1), (.wait, -1, -1, 24), (.noteOff, -1, -1, -1), (.wait, -1, -1, 48)] := by
  decide +kernel

/-- … and the left-hand side (the generated code run on `hB`) evaluated independently: the same observations -/
example : let r := (do let b ← newBarObj; Gen.HeapFns.barInit gP 0 b 0 3 4 2; pure b : HM Nat) hB
    r.2.bar 0 = { seq := 0, num := 3, den := 4, key := 2 } ∧
    r.2.seq 0 = { abs := none, rel := some 1, absStale := true, relStale := false } ∧
    reach r.2 (.bar, 0) = [(.bar, 0), (.seq, 0), (.lst, 1), (.msg, 5), (.msg, 1), (.msg, 2), (.msg, 3), (.msg, 4)] := by
  decide +kernel

/-- a heap with two bars: bar 0 on `hB`'s sequence, bar 1 on a second sequence that holds a PROGRAM_CHANGE (program 33) -/
def hT : Heap :=
  let h1 := (HeapOps.barInit (orcOf gP) 0 hB 0 3 4 2).1
  let a := newMsgs h1 [{ ty := .programChange, prog := 33 }, Msg.mkOn 0 62 64 pyNone, Msg.mkWait 0 72, Msg.mkOff 0 62 pyNone]
  let l := a.1.newLst a.2
  let s := seqInit l.1 none (some l.2)
  (HeapOps.barInit (orcOf gP) 1 s.1 s.2 3 4 2).1

theorem hT_bars : ∀ b ∈ [1, 0, 1], (hT.bar b).seq < hT.nSeq ∧ SeqLive hT (hT.bar b).seq := by
  intro b hb
  simp only [List.mem_cons, List.not_mem_nil, or_false] at hb
  rcases hb with rfl | rfl | rfl <;> exact ⟨by decide +kernel, Or.inl (by decide +kernel)⟩

/-- the hypothesis of `trackInit_eq` on `hT` with the bar list `[1, 0, 1]` (a bar listed twice), and the theorem applied -/
theorem ex_trackInit_eq :
    (do let t ← newTrack; trackInit gP 7 t [1, 0, 1] 5; pure t : HM Nat) hT
      = (.ok (trkInit (orcOf gP) 7 hT [1, 0, 1] 5).2, (trkInit (orcOf gP) 7 hT [1, 0, 1] 5).1) :=
  trackInit_eq gP 7 [1, 0, 1] 5 hT hT_bars

/-- the right-hand side evaluated: track 0 takes over the list `[1, 0, 1]`, its program is that of the first PROGRAM_CHANGE (33),
    and `Bar.to_sequence` allocated one more sequence (2 → 3) -/
example : let r := trkInit (orcOf gP) 7 hT [1, 0, 1] 5
    r.2 = 0 ∧ r.1.trk 0 = { bars := [1, 0, 1], name := 5, program := 33 } ∧ hT.nSeq = 2 ∧ r.1.nSeq = 3 ∧ (hT.bar 1).seq = 1 := by
  decide +kernel

end Heap

/-! ## `StaticTie2.sequencesSplitBars_absStale`, `StaticTie2.sequencesSplitBars_constructed` -/
section Static
open SCoda.StaticTie2 SCoda.WrapTie SCoda.R6L SCoda.WrapperL SCoda.SB

/-- a meta sequence given by its relative view (absolute view stale): 3/4 in D, a note over [0,100), 2/4 at tick 144, 20 more ticks -/
def metaRel : List Msg :=
  [Msg.mkTimeSig 0 3 4 pyNone, { ty := .keySignature, key := 2 }, Msg.mkOn 0 60 90 pyNone, Msg.mkWait 0 100, Msg.mkOff 0 60 pyNone,
   Msg.mkWait 0 44, Msg.mkTimeSig 0 2 4 pyNone, Msg.mkWait 0 20]

/-- all four hypotheses of `sequencesSplitBars_absStale` on `[Seq.ofRel metaRel, exSeq]` (meta index 0; the meta sequence has two time
    signatures, so `hsig` is exercised; the second sequence is `StaticTie2.exSeq`, built through its absolute view) -/
theorem absStale_hyps : (0 ≤ genEnv.ppqn) ∧ (∀ s ∈ [Seq.ofRel metaRel, exSeq], Readable s) ∧
    (∀ s, [Seq.ofRel metaRel, exSeq][0]? = some s → s.absStale = true) ∧
    (∀ s p, [Seq.ofRel metaRel, exSeq][0]? = some s → s.readRel = .ok p → ∀ m ∈ p.2, m.ty = .timeSignature → 0 ≤ m.num ∧ 0 < m.den) := by
  refine ⟨by decide, ?_, ?_, ?_⟩
  · intro s hs
    simp only [List.mem_cons, List.mem_nil_iff, or_false] at hs
    rcases hs with rfl | rfl <;> simp [Readable, exSeq, Seq.ofRel]
  · intro s hs
    simp only [List.getElem?_cons_zero, Option.some.injEq] at hs
    subst hs
    rfl
  · intro s p hs hp
    simp only [List.getElem?_cons_zero, Option.some.injEq] at hs
    subst hs
    have h2 : (Seq.ofRel metaRel).readRel = .ok (Seq.ofRel metaRel, metaRel) := rfl
    rw [h2] at hp; injection hp with hp; subst hp
    decide +kernel

theorem ex_sequencesSplitBars_absStale :
    (fun tb => tb.map (·.map GBar.toBar)) <$> Gen.Static.sequencesSplitBars genEnv [Seq.ofRel metaRel, exSeq] 0 true =
      (do let rels ← readRels [Seq.ofRel metaRel, exSeq]
          splitBars genEnv.ppqn genEnv.defValues rels 0 true) :=
  sequencesSplitBars_absStale genEnv _ 0 true absStale_hyps.1 absStale_hyps.2.1 absStale_hyps.2.2.1 absStale_hyps.2.2.2

set_option maxRecDepth 100000 in
/-- the conclusion evaluated on both sides by the kernel: bars 3/4, 3/4, 2/4 in D on both tracks -/
example : ((fun tb => tb.map (·.map (fun g => ((GBar.toBar g).num, (GBar.toBar g).den, (GBar.toBar g).key)))) <$>
      Gen.Static.sequencesSplitBars genEnv [Seq.ofRel metaRel, exSeq] 0 true)
    = .ok [[(3, 4, 2), (3, 4, 2), (2, 4, 2)], [(3, 4, 2), (3, 4, 2), (2, 4, 2)]] ∧
    ((fun tb => tb.map (·.map (fun (b : Bar) => (b.num, b.den, b.key)))) <$>
      (do let rels ← readRels [Seq.ofRel metaRel, exSeq]
          splitBars genEnv.ppqn genEnv.defValues rels 0 true))
    = .ok [[(3, 4, 2), (3, 4, 2), (2, 4, 2)], [(3, 4, 2), (3, 4, 2), (2, 4, 2)]] := by decide +kernel

/-- the four state hypotheses of `sequencesSplitBars_constructed` on `[exSeq, Seq.ofRel exOther]` (meta sequence with a FRESH absolute
    view that `AbsCoherent` excludes and `AbsCoherentSigs` admits, a time signature 3/4 and a key signature) -/
theorem constructed_hyps : (0 ≤ genEnv.ppqn) ∧ (∀ s ∈ [exSeq, Seq.ofRel exOther], Readable s) ∧
    (∀ s, [exSeq, Seq.ofRel exOther][0]? = some s → AbsCoherentSigs s) ∧
    (∀ s p, [exSeq, Seq.ofRel exOther][0]? = some s → s.readRel = .ok p → ∀ m ∈ p.2, m.ty = .timeSignature → 0 ≤ m.num ∧ 0 < m.den) := by
  refine ⟨by decide, ?_, ?_, ?_⟩
  · intro s hs
    simp only [List.mem_cons, List.mem_nil_iff, or_false] at hs
    rcases hs with rfl | rfl <;> simp [Readable, exSeq, Seq.ofRel]
  · intro s hs
    simp only [List.getElem?_cons_zero, Option.some.injEq] at hs
    subst hs
    decide +kernel
  · intro s p hs hp
    simp only [List.getElem?_cons_zero, Option.some.injEq] at hs
    subst hs
    have h2 : exSeq.readRel = .ok ({ exSeq with rel := toRel exAbs, relStale := false }, toRel exAbs) := rfl
    rw [h2] at hp; injection hp with hp; subst hp
    decide +kernel

set_option maxRecDepth 100000 in
/-- the sixth hypothesis (`h`): the translated function returns, with two bars per track -/
theorem constructed_ok :
    ((fun (tb : List (List GBar)) => tb.map List.length) <$> Gen.Static.sequencesSplitBars genEnv [exSeq, Seq.ofRel exOther] 0 true) = .ok [2, 2] := by
  decide +kernel

/-- **all six hypotheses of `sequencesSplitBars_constructed` together**, and its conclusion on the four bars returned -/
theorem ex_sequencesSplitBars_constructed :
    ∃ tb, Gen.Static.sequencesSplitBars genEnv [exSeq, Seq.ofRel exOther] 0 true = .ok tb ∧ tb.map List.length = [2, 2] ∧
      ∀ bars ∈ tb, ∀ g ∈ bars, g.sequence.absStale = true ∧ g.sequence.relStale = false := by
  have h := constructed_ok
  cases hg : Gen.Static.sequencesSplitBars genEnv [exSeq, Seq.ofRel exOther] 0 true with
  | error x => rw [hg] at h; cases h
  | ok tb =>
    rw [hg] at h
    simp only [map_ok, Except.ok.injEq] at h
    exact ⟨tb, rfl, h, sequencesSplitBars_constructed genEnv _ 0 true constructed_hyps.1 constructed_hyps.2.1 constructed_hyps.2.2.1
      constructed_hyps.2.2.2 tb hg⟩

end Static

/-! ## `C04e.history_readable_illegal_strict` -/
section C04e
open SCoda.C04c SCoda.C04d SCoda.C04e

/-- a history of translated operations with ILLEGAL arguments: a note-on at tick -5 through the absolute side, a WAIT of -3 through
    the relative side, `quantise` with its own (non-empty) grid, an edit through `messages_rel()` that turns every message into an
    INTERNAL one, `equals` against a sequence whose relative view is stale, an unsorted `overwrite_absolute_messages` holding a WAIT,
    `scale(0)` with quantisation, `cutoff` with a negative reduced length, `split` -/
def hI : List PubOp := [.addAbs (Msg.mkOn 0 64 64 (-5)), .addRel (Msg.mkWait 0 (-3)) none, .quantise (some [6, 4]),
  .editRel (fun m => { m with ty := .internal }), .equals {} { abs := [], rel := [], absStale := false, relStale := true },
  .overwriteAbs [Msg.mkOff 0 60 30, Msg.mkOn 0 60 64 10, Msg.mkWait 0 5], .scale 0 true, .cutoff 10 (-4), .split [48]]

theorem hI_hasGen : ∀ op ∈ hI, hasGen op = true := by
  intro op hop
  simp only [hI, List.mem_cons, List.not_mem_nil, or_false] at hop
  rcases hop with rfl | rfl | rfl | rfl | rfl | rfl | rfl | rfl | rfl <;> rfl

theorem hI_steps : ∀ op ∈ hI, stepsUsed e0 op ≠ some [] ∧ ∀ fl t, op = .equals fl t → WrapperL.Readable t := by
  intro op hop
  simp only [hI, List.mem_cons, List.not_mem_nil, or_false] at hop
  rcases hop with rfl | rfl | rfl | rfl | rfl | rfl | rfl | rfl | rfl
  · exact ⟨by simp [stepsUsed], fun _ _ h => by cases h⟩
  · exact ⟨by simp [stepsUsed], fun _ _ h => by cases h⟩
  · exact ⟨by simp [stepsUsed], fun _ _ h => by cases h⟩
  · exact ⟨by simp [stepsUsed], fun _ _ h => by cases h⟩
  · refine ⟨by simp [stepsUsed], fun fl t h => ?_⟩
    injection h with _ h2
    subst h2
    simp [WrapperL.Readable]
  · exact ⟨by simp [stepsUsed], fun _ _ h => by cases h⟩
  · refine ⟨?_, fun _ _ h => by cases h⟩
    simp only [stepsUsed]
    decide
  · exact ⟨by simp [stepsUsed], fun _ _ h => by cases h⟩
  · exact ⟨by simp [stepsUsed], fun _ _ h => by cases h⟩

/-- the history is illegal in (at least) five of its nine entries -/
example : ¬ Legal (.addAbs (Msg.mkOn 0 64 64 (-5))) ∧ ¬ Legal (.addRel (Msg.mkWait 0 (-3)) none) ∧
    ¬ Legal (.overwriteAbs [Msg.mkOff 0 60 30, Msg.mkOn 0 60 64 10, Msg.mkWait 0 5]) ∧ ¬ Legal (.scale 0 true) ∧ ¬ Legal (.cutoff 10 (-4)) := by
  refine ⟨fun h => ?_, fun h => ?_, fun h => ?_, fun h => ?_, fun h => ?_⟩
  · exact absurd h.2 (by decide)
  · exact absurd (h.2 rfl) (by decide)
  · exact absurd (h (Msg.mkWait 0 5) (by simp)).1 (by decide)
  · have h' : (1 : Int) ≤ 0 := h
    omega
  · have h' : (0 : Int) ≤ -4 := h
    omega

/-- **all three hypotheses of `history_readable_illegal_strict` together on an illegal history**, and its conclusion -/
theorem ex_history_readable_illegal_strict :
    ∃ s', genRunStrict e0 (Seq.ofRel r0) hI = some (.ok s') ∧ WrapperL.Readable s' :=
  history_readable_illegal_strict e0 hI (Seq.ofRel r0) (by simp [WrapperL.Readable, Seq.ofRel]) hI_steps hI_hasGen

/-- what the translated methods alone compute for it (type rank, channel, tick, pitch): both views fresh, and the absolute view
    holds a note-off at tick -4 — the run never raises although the state has left the wrapper invariant -/
example : (genRunStrict e0 (Seq.ofRel r0) hI).map (fun r => r.toOption.map
      (fun s => (s.absStale, s.relStale, (WrapperL.absView s).map sig, (WrapperL.relView s).map sig))) =
    some (some (false, false, [(6, 0, -4, 60), (7, 0, 0, 60)], [(6, 0, -1, 60), (7, 0, -1, 60)])) := by
  rfl

end C04e

end SCoda.Examples4d

