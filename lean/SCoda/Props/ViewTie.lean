/-
  VIEW TIE: the functions GENERATED from the Python source by tools/py2lean.py (Gen/ViewFns.lean, namespace
  `SCoda.Gen.View`) are EQUAL to the hand-written models of Model/*.lean, for all inputs.

  This replaces "tied by sampling" by "tied by theorem" for the view-level methods: the generated text follows the
  Python statement by statement, so a semantic edit of the Python changes the generated definition and the
  corresponding theorem below stops building (tools/test_py2lean.sh demonstrates it on five edits).

  What remains assumed (the LINK TABLE in the header of Gen/ViewFns.lean):
    `AbsoluteSequence.sort ↦ sortAbs`, `Key.transpose_key ↦ Gen.transposeKey` (itself generated).
  Side condition `ChOk`: no message has channel `None`.  `Message.__init__` guarantees it (`None ↦ 0`), the models
  rely on it (Model/Msg.lean: "`ch` is never `None`"); it can only be broken by `set_channel(None)` or a direct
  attribute store.  At such inputs the hand models and the code differ (examples at the end, replayed on /repo).
-/
import SCoda.Lemmas.ViewTieL
import SCoda.Model.Pairing
namespace SCoda.ViewTie
open SCoda SCoda.Gen.View SCoda.ViewTieL

/-- input-level side condition: no message has channel `None` -/
def ChOk (l : List Msg) : Prop := ∀ m ∈ l, m.ch ≠ pyNone

instance (l : List Msg) : Decidable (ChOk l) := by unfold ChOk; infer_instance

/-! ### RelativeSequence -/

/-- generated `RelativeSequence.set_channel` = hand model `setChannel`, all inputs. -/
theorem setChannel_eq (c : Int) (r : List Msg) : Gen.View.setChannel r c = .ok (SCoda.setChannel c r) := by
  unfold Gen.View.setChannel
  simp only []
  rw [forIn_spec' _ (fun l st => pure (st ++ l.map ({ · with ch := c })))]
  · simp [SCoda.setChannel]; rfl
  · intro b; simp
  · intro a as b; simp

example : Gen.View.setChannel [{ ty := .noteOn, ch := 3, note := 60, vel := 90 }, { ty := .wait, ch := 3, time := 4 }] 7
    = .ok [{ ty := .noteOn, ch := 7, note := 60, vel := 90 }, { ty := .wait, ch := 7, time := 4 }] := by decide

/-- generated `RelativeSequence.concatenate` = hand model `concatenate`, all inputs. -/
theorem concatenate_eq (r : List Msg) (rs : List (List Msg)) :
    Gen.View.concatenate r rs = .ok (SCoda.concatenate r rs) := by
  unfold Gen.View.concatenate
  simp only []
  rw [forIn_spec' _ (fun l st => pure (st ++ l.flatten))]
  · simp [SCoda.concatenate]; rfl
  · intro b; simp
  · intro a as b; simp

example : Gen.View.concatenate [{ ty := .wait, time := 1 }] [[{ ty := .wait, time := 2 }], [], [{ ty := .wait, time := 3 }]]
    = .ok [{ ty := .wait, time := 1 }, { ty := .wait, time := 2 }, { ty := .wait, time := 3 }] := by decide

/-- generated `RelativeSequence.pad` = hand model `pad` whenever no channel is `None`. -/
theorem pad_eq (n : Int) (r : List Msg) (h : ChOk r) : Gen.View.pad r n = .ok (SCoda.pad n r) := by
  unfold Gen.View.pad
  simp only []
  rw [forIn_spec (fun m : Msg => m.ch ≠ pyNone) _ (fun l st => pure (padGo n st.1 st.2 l)) _ _ r _ h]
  · simp only [SCoda.pad, chanOfOpt, Msg.mkWait, pure_bind]
    generalize padGo n 0 none r = res
    obtain ⟨len, dc⟩ := res
    simp only [decide_eq_true_eq]
    split <;> rfl
  · intro b; rfl
  · intro a as b ha
    obtain ⟨len, dc⟩ := b
    have ha' : (a.ch != pyNone) = true := by simpa using ha
    have ha2 : pyOpt a.ch = some a.ch := by simp [pyOpt, ha]
    simp only [padGo, ha', ha2, Bool.and_true]
    cases dc <;> by_cases hw : a.ty = MType.wait <;> simp [hw] <;> split <;> simp [*]

example : ChOk [{ ty := .noteOn, ch := 3, note := 60, vel := 90 }, { ty := .wait, ch := 3, time := 4 }] ∧
    Gen.View.pad [{ ty := .noteOn, ch := 3, note := 60, vel := 90 }, { ty := .wait, ch := 3, time := 4 }] 10
    = .ok [{ ty := .noteOn, ch := 3, note := 60, vel := 90 }, { ty := .wait, ch := 3, time := 4 }, { ty := .wait, ch := 3, time := 6 }] := by
  decide

/-- generated `RelativeSequence.add_message(msg)` (no index) appends. -/
theorem addMessage_none (r : List Msg) (m : Msg) : Gen.View.addMessage r m none = .ok (r ++ [m]) := rfl

/-- generated `RelativeSequence.add_message(msg, index)` with a non-negative index = `insertAt` of the wrapper model
    (`Seq.addRelMsg`); negative indices (Python: counted from the end) are outside the hand model. -/
theorem addMessage_some (r : List Msg) (m : Msg) (i : Nat) :
    Gen.View.addMessage r m (some (i : Int)) = .ok (Seq.insertAt m i r) := by
  unfold Gen.View.addMessage
  simp [optPy, pyInsert_nonneg, pure_eq_ok]

example : Gen.View.addMessage [{ ty := .wait, time := 1 }, { ty := .wait, time := 2 }] { ty := .wait, time := 9 } (some 1)
    = .ok [{ ty := .wait, time := 1 }, { ty := .wait, time := 9 }, { ty := .wait, time := 2 }] := by decide

/-! ### AbsoluteSequence basics -/

/-- generated `_add_message_unsorted` appends. -/
theorem addMessageUnsorted_eq (a : List Msg) (m : Msg) : Gen.View.addMessageUnsorted a m = .ok (a ++ [m]) := rfl

/-- generated `normalise_absolute` (= `self.sort()`, linked) is `sortAbs`. -/
theorem normaliseAbsolute_eq (a : List Msg) : Gen.View.normaliseAbsolute a = .ok (sortAbs a) := rfl

/-- generated `util.binary_insort` (the `while` bisection, translated with fuel, and `list.insert`) = hand model
    `insort`, all inputs: the fuel always suffices and no index is out of range.  Removes the link
    `binary_insort ↦ insort` from the assumptions. -/
theorem binaryInsort_eq (l : List Msg) (m : Msg) : Gen.View.binaryInsort l m = .ok (insort l m) := by
  unfold Gen.View.binaryInsort
  simp only []
  rw [forIn_spec_inv (fun b : Int × Int => ∃ lo hi : Nat, b = ((lo : Int), (hi : Int)) ∧ lo ≤ hi ∧ hi ≤ l.length) _
        (fun us b => let r := bisect m.time l us.length (b.1.toNat, b.2.toNat); ((r.1 : Int), (r.2 : Int)))
        _ _ _ ((0 : Int), (l.length : Int)) ⟨0, l.length, by simp, Nat.zero_le _, Nat.le_refl _⟩]
  · simp only [List.length_replicate, ok_bind, Int.toNat_natCast, Int.toNat_zero, Int.sub_zero]
    have hd := bisect_done m.time l (l.length + 1) 0 l.length (by omega)
    have hf := bisect_fst m.time l (l.length + 1) 0 l.length
    generalize bisect m.time l (l.length + 1) (0, l.length) = r at hd hf
    have : decide ((r.1 : Int) < (r.2 : Int)) = false := by simpa using hd
    simp only [this, pyInsert_nat, insort, ← hf]
    rfl
  · rintro b ⟨lo, hi, rfl, _, _⟩; simp [bisect]
  · rintro _ us b ⟨lo, hi, rfl, hle, hlen⟩
    by_cases h : lo < hi
    · have h' : decide ((lo : Int) < (hi : Int)) = true := by simpa using h
      obtain ⟨mid, hmid⟩ : ∃ mid : Nat, mid = (lo + hi) / 2 := ⟨_, rfl⟩
      have hmidI : ((lo : Int) + (hi : Int)) / 2 = (mid : Int) := by omega
      have hlt : mid < l.length := by omega
      have hget : (l.toArray.getD mid default) = l[mid] := by simp [Array.getD, hlt]
      have hb : ∀ f, bisect m.time l (f + 1) (lo, hi) =
          if m.time < (l[mid]).time then bisect m.time l f (lo, mid) else bisect m.time l f (mid + 1, hi) := by
        intro f; simp only [bisect, h, if_true, ← hmid, hget]
      simp only [h', Bool.not_true, hmidI, pyGet_nat l _ hlt, ok_bind, List.length_cons, hb, Int.toNat_natCast]
      by_cases ht : m.time < (l[mid]).time
      · refine ⟨.yield ((lo : Int), (mid : Int)), by simp only [ht, decide_true, if_true]; rfl, ?_⟩
        refine ⟨⟨lo, mid, rfl, by omega, by omega⟩, ?_⟩
        simp only [ht, if_true, Int.toNat_natCast]
      · refine ⟨.yield (((mid : Int) + 1), (hi : Int)), by simp only [ht, decide_false]; rfl, ?_⟩
        refine ⟨⟨mid + 1, hi, by simp, by omega, hlen⟩, ?_⟩
        have : ((mid : Int) + 1).toNat = mid + 1 := by omega
        simp only [ht, if_false, Int.toNat_natCast, this]
    · have h' : decide ((lo : Int) < (hi : Int)) = false := by simpa using h
      refine ⟨.done ((lo : Int), (hi : Int)), by simp only [h', Bool.not_false, if_true]; rfl, ?_⟩
      simp [bisect, h]

example : Gen.View.binaryInsort [{ ty := .noteOn, time := 1 }, { ty := .noteOn, time := 3 }, { ty := .noteOn, time := 5 }]
      { ty := .noteOff, time := 3 }
    = .ok [{ ty := .noteOn, time := 1 }, { ty := .noteOn, time := 3 }, { ty := .noteOff, time := 3 }, { ty := .noteOn, time := 5 }] := by
  decide

/-- generated `AbsoluteSequence.add_message` = hand model `insort`, all inputs. -/
theorem absAddMessage_eq (a : List Msg) (m : Msg) : Gen.View.absAddMessage a m = .ok (insort a m) := by
  unfold Gen.View.absAddMessage
  simp only [binaryInsort_eq]

/-! ### the two conversions -/

/-- generated `RelativeSequence.to_absolute_sequence` = hand model `toAbs` whenever no channel is `None`. -/
theorem toAbs_eq (r : List Msg) (h : ChOk r) : Gen.View.toAbsoluteSequence r = .ok (toAbs r) := by
  unfold Gen.View.toAbsoluteSequence
  simp only [addMessageUnsorted_eq, normaliseAbsolute_eq, absAddMessage_eq]
  rw [forIn_spec (fun m : Msg => m.ch ≠ pyNone) _ (fun l st => pure (toAbsTo (l.foldl toAbsStep (toAbsOf st)))) _ _ r _ h]
  · simp only [toAbs, toAbsOf, toAbsTo, List.reverse_nil, pure_bind, chanOfOpt, Msg.mkInternal]
    simp only [ok_bind]
    generalize List.foldl toAbsStep _ r = s
    cases hc : s.cap <;> simp <;> rfl
  · intro b; simp [toAbsTo, toAbsOf]
  · intro a as b ha
    obtain ⟨out, cur, dc, cap⟩ := b
    have ha' : (a.ch != pyNone) = true := by simpa using ha
    have ha2 : pyOpt a.ch = some a.ch := by simp [pyOpt, ha]
    have ha3 : msgCopy a = a := by simp [msgCopy, chanOfInt, ha]
    simp only [List.foldl_cons, ha', ha2, ha3, Bool.and_true]
    show _ = pure (toAbsTo (List.foldl toAbsStep (toAbsStep (toAbsOf (out, cur, dc, cap)) a) as))
    cases dc <;> by_cases hw : a.ty = MType.wait <;>
      simp [hw, toAbsStep, toAbsOf, bind, Except.bind, pure, Except.pure]

example : ChOk [{ ty := .noteOn, ch := 2, note := 60, vel := 90 }, { ty := .wait, ch := 2, time := 3 }, { ty := .noteOff, ch := 2, note := 60 }, { ty := .wait, ch := 2, time := 2 }] ∧
    Gen.View.toAbsoluteSequence [{ ty := .noteOn, ch := 2, note := 60, vel := 90 }, { ty := .wait, ch := 2, time := 3 }, { ty := .noteOff, ch := 2, note := 60 }, { ty := .wait, ch := 2, time := 2 }]
    = .ok [{ ty := .noteOn, ch := 2, note := 60, vel := 90, time := 0 }, { ty := .noteOff, ch := 2, note := 60, time := 3 }, { ty := .internal, ch := 2, time := 5 }] := by
  decide

/-- generated `AbsoluteSequence.to_relative_sequence` = hand model `toRel` whenever no channel is `None`. -/
theorem toRel_eq (a : List Msg) (h : ChOk a) : Gen.View.toRelativeSequence a = .ok (toRel a) := by
  unfold Gen.View.toRelativeSequence
  simp only [addMessage_none]
  rw [forIn_spec (fun m : Msg => m.ch ≠ pyNone) _ (fun l st => pure (st.1 ++ toRelGo st.2 l, toRelCur st.2 l)) _ _ a _ h]
  · simp [toRel]; rfl
  · intro b; simp [toRelGo, toRelCur]
  · intro m ms b hm
    obtain ⟨out, cur⟩ := b
    have hc : chanOfInt m.ch = m.ch := by simp [chanOfInt, hm]
    have hc' : msgCopy m = m := by simp [msgCopy, hc]
    by_cases ht : m.time > cur <;> by_cases hi : m.ty = MType.internal <;>
      simp [ht, hi, ok_bind, pure_eq_ok, toRelGo, toRelCur, hc, hc', Msg.mkWait]

example : ChOk [{ ty := .noteOn, ch := 2, note := 60, vel := 90, time := 0 }, { ty := .noteOff, ch := 2, note := 60, time := 3 }, { ty := .internal, ch := 2, time := 5 }] ∧
    Gen.View.toRelativeSequence [{ ty := .noteOn, ch := 2, note := 60, vel := 90, time := 0 }, { ty := .noteOff, ch := 2, note := 60, time := 3 }, { ty := .internal, ch := 2, time := 5 }]
    = .ok [{ ty := .noteOn, ch := 2, note := 60, vel := 90 }, { ty := .wait, ch := 2, time := 3 }, { ty := .noteOff, ch := 2, note := 60 }, { ty := .wait, ch := 2, time := 2 }] := by
  decide

/-! ### scale, transpose -/

/-- generated `RelativeSequence.scale(factor)` = hand model `scaleRel` for every integer factor ≥ 1 (the branch for
    factors < 1 builds `Sequence`/`Bar` objects and is stubbed as `throw .outOfSubset` in the translation). -/
theorem scaleRel_eq (k : Int) (r : List Msg) (hk : 1 ≤ k) : Gen.View.scale r k = .ok (scaleRel k r) := by
  unfold Gen.View.scale
  simp only [pyIsIntegerDiv]
  by_cases h1 : k = 1
  · subst h1; simp [scaleRel]; rfl
  · have h2 : k > 1 := by omega
    have h3 : (k == 1) = false := by simpa using h1
    simp only [h2, h3, decide_true, if_true, Int.emod_one, Bool.not_true, Bool.false_eq_true, if_false]
    rw [forIn_spec' _ (fun l st => pure (st ++ l.map (fun m => if m.ty == .wait then { m with time := m.time * k } else m)))]
    · simp [scaleRel, h3, pure_eq_ok, ok_bind]
    · intro b; simp
    · intro a as b
      by_cases hw : a.ty = MType.wait <;> simp [hw]

example : Gen.View.scale [{ ty := .noteOn, ch := 2, note := 60, vel := 90 }, { ty := .wait, ch := 2, time := 3 }] 4
    = .ok [{ ty := .noteOn, ch := 2, note := 60, vel := 90 }, { ty := .wait, ch := 2, time := 12 }] := by decide
/-- what the translation says outside the theorem's hypothesis: 0 divides by zero, -2 is rejected, -1 reaches the stub -/
example : Gen.View.scale [] 0 = .error .zeroDivisionError ∧ Gen.View.scale [] (-2) = .error .sequenceException
    ∧ Gen.View.scale [] (-1) = .error .outOfSubset := by decide

/-- the link of `transpose` holds on this input: `Key.transpose_key(msg.key, by)` returns `tk msg.key`
    for every key-signature message -/
def TkOk (tk : Int → Int) (by_ : Int) (r : List Msg) : Prop :=
  ∀ m ∈ r, m.ty = .keySignature → linkTheory (Gen.transposeKey m.key by_) = .ok (tk m.key)

/-- generated `RelativeSequence.transpose` (both `while` loops translated with fuel) = hand model `transposeRel`
    with the generated settings bounds, for every key function `tk` that agrees with the generated
    `transpose_key` on the key signatures of the input: the fuel always suffices, list and flag agree. -/
theorem transposeRel_eq (by_ : Int) (r : List Msg) (tk : Int → Int) (htk : TkOk tk by_ r) :
    Gen.View.transpose r by_ = .ok (transposeRel Gen.noteLowerBound Gen.noteUpperBound tk by_ r) := by
  unfold Gen.View.transpose
  simp only []
  generalize Gen.noteLowerBound = lo
  generalize Gen.noteUpperBound = hi
  rw [forIn_spec (fun m : Msg => m.ty = .keySignature → linkTheory (Gen.transposeKey m.key by_) = .ok (tk m.key)) _
    (fun l st => pure (st.1 || l.any (fun m => (transposeMsg lo hi tk by_ m).2),
                       st.2 ++ l.map (fun m => (transposeMsg lo hi tk by_ m).1))) _ _ r _ htk]
  · simp [transposeRel, ok_bind, pure_eq_ok]
  · intro b; simp
  · intro m ms b hm
    obtain ⟨hs, out⟩ := b
    by_cases hn : (m.ty == MType.noteOn || m.ty == MType.noteOff) = true
    · simp only [hn, if_true]
      -- first `while`
      rw [forIn_spec' _ (fun (l : List Unit) (st : Bool × Msg) =>
            pure (st.1 || (wrapUp lo l.length st.2.note).2, { st.2 with note := (wrapUp lo l.length st.2.note).1 }))]
      · simp only [pure_bind, List.length_replicate]
        have hge := wrapUp_ge lo ((lo - (m.note + by_)).toNat + 1) (m.note + by_) (by omega)
        generalize hu : wrapUp lo ((lo - (m.note + by_)).toNat + 1) (m.note + by_) = u at hge
        have h1 : decide (u.1 < lo) = false := by simpa using hge
        simp only [h1]
        -- second `while`
        rw [forIn_spec' _ (fun (l : List Unit) (st : Bool × Msg) =>
              pure (st.1 || (wrapDown hi l.length st.2.note).2, { st.2 with note := (wrapDown hi l.length st.2.note).1 }))]
        · simp only [pure_bind, List.length_replicate]
          have hle := wrapDown_le hi ((u.1 - hi).toNat + 1) u.1 (by omega)
          generalize hd : wrapDown hi ((u.1 - hi).toNat + 1) u.1 = d at hle
          have h2 : decide (d.1 > hi) = false := by simpa using hle
          have hwp := wrapPitch_fuel lo hi (m.note + by_)
          rw [hu] at hwp
          rw [hd] at hwp
          have hm' : transposeMsg lo hi tk by_ m = ({ m with note := d.1 }, u.2 || d.2) := by
            simp only [transposeMsg, hn, if_true, hwp]
          simp only [h2, hm', List.any_cons, List.map_cons]
          simp [Bool.or_assoc]
        · intro b; simp [wrapDown]
        · intro _ as b
          obtain ⟨hs', m'⟩ := b
          by_cases hp : m'.note > hi <;> simp [hp, wrapDown]
      · intro b; simp [wrapUp]
      · intro _ as b
        obtain ⟨hs', m'⟩ := b
        by_cases hp : m'.note < lo <;> simp [hp, wrapUp]
    · simp only [hn]
      by_cases hk : m.ty = MType.keySignature
      · have hm' : transposeMsg lo hi tk by_ m = ({ m with key := tk m.key }, false) := by
          simp only [transposeMsg, hn]; simp [hk]
        simp only [hm (hk), hk, List.any_cons, List.map_cons, hm', ok_bind]
        simp
      · have hm' : transposeMsg lo hi tk by_ m = (m, false) := by
          simp only [transposeMsg, hn]; simp [hk]
        simp only [List.any_cons, List.map_cons, hm']
        simp [hk]

/-- the same with the key function read off the generated `transpose_key` (`tkGen`, the convention of the driver's
    `tkFn`): holds whenever `transpose_key` does not raise on the key signatures of the input. -/
theorem transposeRel_eq_gen (by_ : Int) (r : List Msg)
    (hk : ∀ m ∈ r, m.ty = .keySignature → (Gen.transposeKey m.key by_).isSome) :
    Gen.View.transpose r by_ = .ok (transposeRel Gen.noteLowerBound Gen.noteUpperBound (tkGen by_) by_ r) :=
  transposeRel_eq by_ r (tkGen by_) (fun m hm hty => linkTheory_tkGen by_ m.key (hk m hm hty))

example : (∀ m ∈ ([{ ty := .noteOn, note := 10, vel := 90 }, { ty := .keySignature, key := 3 }, { ty := .noteOff, note := 120 }] : List Msg),
      m.ty = .keySignature → (Gen.transposeKey m.key 2).isSome) ∧
    Gen.View.transpose [{ ty := .noteOn, note := 10, vel := 90 }, { ty := .keySignature, key := 3 }, { ty := .noteOff, note := 120 }] 2
    = .ok ([{ ty := .noteOn, note := 24, vel := 90 }, { ty := .keySignature, key := 5 }, { ty := .noteOff, note := 98 }], true) := by
  decide

/-- outside the hypothesis: a key signature whose key is `None` makes `transpose_key` raise (Python: ValueError for
    `by % 12 ≠ 0`, replayed on /repo), the translation says `calleeRaised`; for a multiple of 12 nothing is looked up. -/
example : Gen.View.transpose [{ ty := .keySignature }] 2 = .error .calleeRaised
    ∧ Gen.View.transpose [{ ty := .keySignature }] 12 = .ok ([{ ty := .keySignature }], false) := by decide

/-! ### duration, merge, predicates -/

/-- generated `AbsoluteSequence.get_sequence_duration` (`self._messages[-1].time`) = hand model `absDuration`
    (IndexError on the empty list on both sides). -/
theorem getSequenceDuration_eq (a : List Msg) :
    Gen.View.getSequenceDuration a = (match absDuration a with | .ok v => .ok v | .error _ => .error .indexError) := by
  unfold Gen.View.getSequenceDuration
  simp only [pyGet_neg_one, absDuration]
  cases a.getLast? <;> rfl

example : Gen.View.getSequenceDuration [{ ty := .noteOn, time := 1 }, { ty := .internal, time := 7 }] = .ok 7
    ∧ Gen.View.getSequenceDuration [] = .error .indexError := by decide

/-- generated `AbsoluteSequence.merge` = hand model `mergeAbs`, all inputs. -/
theorem merge_eq (a : List Msg) (others : List (List Msg)) : Gen.View.merge a others = .ok (mergeAbs a others) := by
  unfold Gen.View.merge
  simp only [addMessageUnsorted_eq, normaliseAbsolute_eq]
  rw [forIn_spec' _ (fun l st => pure (st ++ l.flatten))]
  · simp [mergeAbs, pure_eq_ok, ok_bind]
  · intro b; simp
  · intro sq rest b
    rw [forIn_spec' _ (fun l st => pure (st ++ l))]
    · simp [pure_eq_ok, ok_bind]
    · intro b; simp
    · intro m ms b; simp [pure_eq_ok, ok_bind]

example : Gen.View.merge [{ ty := .noteOn, time := 4 }] [[{ ty := .noteOn, time := 1 }], [{ ty := .noteOn, ch := 1, time := 4 }]]
    = .ok [{ ty := .noteOn, time := 1 }, { ty := .noteOn, time := 4 }, { ty := .noteOn, ch := 1, time := 4 }] := by decide

/-- generated `RelativeSequence.is_empty`: true iff there is no note-on (early `return` inside the loop). -/
theorem isEmpty_eq (r : List Msg) : Gen.View.isEmpty r = .ok (!(r.any (fun m => m.ty == .noteOn))) := by
  unfold Gen.View.isEmpty
  simp only []
  rw [forIn_spec' _ (fun l (st : Option Bool × Unit) =>
        pure (if l.any (fun m => m.ty == .noteOn) then (some false, ()) else if l = [] then st else (none, ())))]
  · cases h : r.any (fun m => m.ty == .noteOn) <;> simp [pure_eq_ok, ok_bind]
  · intro b; simp
  · intro m ms b
    by_cases hm : m.ty = MType.noteOn <;> simp [hm, pure_eq_ok, ok_bind]

/-- generated `AbsoluteSequence.is_channel_consistent`: every channel equals the first one. -/
theorem isChannelConsistent_eq (a : List Msg) :
    Gen.View.isChannelConsistent a = .ok (a.all (fun m => m.ch == (a.headD default).ch)) := by
  unfold Gen.View.isChannelConsistent
  simp only [pyGet_zero]
  cases a with
  | nil => rfl
  | cons x xs =>
    simp only [List.head?_cons, ok_bind, List.headD_cons]
    generalize x :: xs = l
    rw [forIn_spec' _ (fun l (st : Option Bool × Unit) =>
          pure (if l.all (fun m => m.ch == x.ch) then (if l = [] then st else (none, ())) else (some false, ())))]
    · cases h : l.all (fun m => m.ch == x.ch) <;> simp [pure_eq_ok, ok_bind]
    · intro b; simp
    · intro m ms b
      by_cases hm : m.ch = x.ch <;> simp [hm, pure_eq_ok, ok_bind]

example : Gen.View.isEmpty [{ ty := .wait, time := 3 }] = .ok true ∧ Gen.View.isEmpty [{ ty := .wait, time := 3 }, { ty := .noteOn }] = .ok false
    ∧ Gen.View.isChannelConsistent [{ ty := .noteOn, ch := 1 }, { ty := .noteOn, ch := 2 }] = .ok false := by decide

/-- generated `AbsoluteSequence.get_sequence_channel`: the first channel if all channels agree, `SequenceException`
    otherwise, `IndexError` on the empty list (no hand model; stated against list functions). -/
theorem getSequenceChannel_eq (a : List Msg) :
    Gen.View.getSequenceChannel a =
      (if a.all (fun m => m.ch == (a.headD default).ch) then
        (match a.head? with | some m => .ok m.ch | none => .error .indexError)
       else .error .sequenceException) := by
  unfold Gen.View.getSequenceChannel
  simp only [isChannelConsistent_eq, pyGet_zero, ok_bind]
  cases h : a.all (fun m => m.ch == (a.headD default).ch)
  · rfl
  · cases a <;> rfl

/-- generated `MidiMessage.parse_internal_message` hands every field over unchanged. -/
theorem parseInternalMessage_eq (m : Msg) : Gen.View.parseInternalMessage m = .ok m := rfl

/-- generated `RelativeSequence.to_midi_track`: the track's messages are the sequence's messages, field by field
    (what `toMido` of Model/Midi.lean assumes when it starts from the relative view). -/
theorem toMidiTrack_eq (r : List Msg) : Gen.View.toMidiTrack r = .ok r := by
  unfold Gen.View.toMidiTrack
  simp only [parseInternalMessage_eq, ok_bind]
  rw [forIn_spec' _ (fun l st => pure (st ++ l))]
  · simp [pure_eq_ok, ok_bind]
  · intro b; simp
  · intro m ms b; simp

/-- generated `MidiTrack.to_mido_track` (mido constructors linked to `MidiEv` literals) = hand model `toMido` of
    Model/Midi.lean up to the fields a mido message does not carry (`midoView`), provided no key signature has key
    `None` (Python: AttributeError on `msg.key.value`; the hand model emits the `None`). -/
theorem toMidoTrack_eq (r : List Msg) (hk : ∀ m ∈ r, m.ty = .keySignature → m.key ≠ pyNone) :
    Gen.View.toMidoTrack r = .ok ((toMido r).map midoView) := by
  unfold Gen.View.toMidoTrack
  simp only []
  rw [forIn_spec (fun m : Msg => m.ty = .keySignature → m.key ≠ pyNone) _
        (fun l st => pure (st.1 ++ (toMidoGo st.2 l).map midoView, toMidoBuf st.2 l)) _ _ r _ hk]
  · simp [toMido, pure_eq_ok, ok_bind]
  · intro b; simp [toMidoGo, toMidoBuf]
  · intro m ms b hm
    obtain ⟨track, buf⟩ := b
    by_cases ht : m.time = pyNone <;> cases hty : m.ty <;>
      simp [ht, hty, toMidoGo, toMidoBuf, midoView, keyValue, pure_eq_ok, ok_bind]
    all_goals simp [hm hty, ok_bind]

/-- `sequence.to_midi_track().to_mido_track()` on a relative view, both steps generated, = `toMido` up to `midoView`. -/
theorem toMidi_toMido_eq (r : List Msg) (hk : ∀ m ∈ r, m.ty = .keySignature → m.key ≠ pyNone) :
    (Gen.View.toMidiTrack r >>= Gen.View.toMidoTrack) = .ok ((toMido r).map midoView) := by
  rw [toMidiTrack_eq, ok_bind, toMidoTrack_eq r hk]

example : Gen.View.toMidoTrack [{ ty := .noteOn, ch := 3, note := 60 }, { ty := .wait, ch := 3, time := 5 }, { ty := .noteOff, ch := 3, note := 60 },
      { ty := .keySignature, key := 2 }, { ty := .wait, time := 2 }]
    = .ok [{ ty := .noteOn, ch := 0, time := 0, note := 60, vel := 127 }, { ty := .noteOff, ch := 0, time := 5, note := 60, vel := 0 },
           { ty := .keySignature, ch := pyNone, time := 0, key := 2 }]
    ∧ Gen.View.toMidoTrack [{ ty := .keySignature }] = .error .attributeError := by decide

example : Gen.View.getSequenceChannel [{ ty := .noteOn, ch := 4 }, { ty := .noteOff, ch := 4 }] = .ok 4
    ∧ Gen.View.getSequenceChannel [{ ty := .noteOn, ch := 4 }, { ty := .noteOff, ch := 5 }] = .error .sequenceException
    ∧ Gen.View.getSequenceChannel [] = .error .indexError
    ∧ Gen.View.toMidiTrack [{ ty := .noteOn, ch := 4, note := 60, vel := 3 }] = .ok [{ ty := .noteOn, ch := 4, note := 60, vel := 3 }] := by
  decide

/-! ### outside `ChOk`: the hand models and the translation differ (the translation agrees with /repo)

  Replayed with /venv/bin/python: a note-on whose channel was set to `None` (what `set_channel(None)` does), followed by
  `WAIT(channel=3, time=1)`: `pad(5)` appends `WAIT(channel=3, time=4)` (the translation: 3; hand model `pad`: the `None`
  of the first message), `to_absolute_sequence()` gives the note-on channel 0 (`copy()` goes through `__init__`; hand
  model `toAbs`: keeps `None`).  These inputs are outside the documented domain of the models (Model/Msg.lean). -/

example :
    let r : List Msg := [{ ty := .noteOn, ch := pyNone, note := 60, vel := 90 }, { ty := .wait, ch := 3, time := 1 }]
    ¬ ChOk r ∧
    Gen.View.pad r 5 = .ok (r ++ [{ ty := .wait, ch := 3, time := 4 }]) ∧
    SCoda.pad 5 r = r ++ [{ ty := .wait, ch := pyNone, time := 4 }] ∧
    Gen.View.toAbsoluteSequence r = .ok [{ ty := .noteOn, ch := 0, note := 60, vel := 90, time := 0 }, { ty := .internal, ch := 3, time := 1 }] ∧
    toAbs r = [{ ty := .noteOn, ch := pyNone, note := 60, vel := 90, time := 0 }, { ty := .internal, ch := pyNone, time := 1 }] := by
  decide

/-- the default arguments of every function this translator reads are pinned (a changed default changes what callers that rely on it get) -/
theorem view_defaults_pinned :
    Gen.View.defaults = ["Message.__init__(channel=None)", "Message.__init__(control=None)", "Message.__init__(denominator=None)", "Message.__init__(key=None)", "Message.__init__(message_type=None)", "Message.__init__(note=None)", "Message.__init__(numerator=None)", "Message.__init__(program=None)", "Message.__init__(time=None)", "Message.__init__(velocity=None)", "MidiMessage.__init__(channel=None)", "MidiMessage.__init__(control=None)", "MidiMessage.__init__(denominator=None)", "MidiMessage.__init__(key=None)", "MidiMessage.__init__(message_type=None)", "MidiMessage.__init__(note=None)", "MidiMessage.__init__(numerator=None)", "MidiMessage.__init__(program=None)", "MidiMessage.__init__(time=None)", "MidiMessage.__init__(velocity=None)", "RelativeSequence.add_message(index=None)", "RelativeSequence.scale(meta_sequence=None)"] := by
  decide

end SCoda.ViewTie
