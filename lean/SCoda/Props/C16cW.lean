/-
  C16 and the wrapper invariant of C04: the value snapshot of a sequence in the concrete heap of
  `Model/HeapOps.lean` is a state of the wrapper model `Model/Wrapper.lean`; a copy is `Seq.copy` of
  the original (so `C04.copy_inv` applies), and the untouched side of `C16c.independent` keeps the
  C04 invariant because nothing the invariant reads has changed.  (Separate file: `Props/C04b` brings
  the value models into scope, whose names — `split`, `normalise`, … — clash with the heap operations.)
-/
import SCoda.Props.C16c
import SCoda.Props.C04b
namespace SCoda.C16cW
open SCoda.HeapOps SCoda.HeapL SCoda.C16c

/-- a snapshot as a state of the wrapper model `Model/Wrapper.lean` -/
def toSeq (p : Snap) : SCoda.Seq := { abs := p.abs, rel := p.rel, absStale := p.absStale, relStale := p.relStale }

theorem toSeq_copy (p : Snap) : toSeq (snapCopy p) = (toSeq p).copy := by
  obtain ⟨a, r, fa, fr⟩ := p
  cases fa <;> cases fr <;> rfl

/-- the C04 invariant ("the two views agree") of a sequence in a heap -/
def ViewsAgree (h : Heap) (s : Nat) : Prop := C04.Inv C04.views (C04.ofSeq (toSeq (HeapOps.snap h s)))

/-- **a copy equals its original, in the terms of C04**: if the original's views agree, the copy's views
    agree, and the copy's content (events and duration, read through whichever view is not stale) is
    the original's. (A2) -/
theorem copy_equal_content (h : Heap) (s : Nat) (hall : AllocAll h [(.seq, s)]) (hok : SeqOk h s)
    (hinv : ViewsAgree h s) :
    ViewsAgree (HeapOps.seqCopy h s).1 (HeapOps.seqCopy h s).2
      ∧ C04.ContentEq (C04.content C04.views (C04.ofSeq (toSeq (HeapOps.snap (HeapOps.seqCopy h s).1 (HeapOps.seqCopy h s).2))))
          (C04.content C04.views (C04.ofSeq (toSeq (HeapOps.snap h s)))) := by
  unfold ViewsAgree
  rw [copy_equal h s hall hok, toSeq_copy]
  exact C04.copy_inv _ hinv

/-- **the untouched side keeps its two views in agreement**: under the hypotheses of `independent`,
    for every sequence inside `x` the C04 invariant holds after the history iff it held before
    (nothing that the invariant reads has changed). (A2) -/
theorem independent_views_agree (o : Orc) (h : Heap) (W : List Cell) (x : Cell) (ops : List HOp)
    (hW : AllocAll h W) (hx : AllocAll h [x]) (hdis : Disjoint (HeapOps.reach h x) (HeapOps.reachAll h W)) :
    ∀ s, (Kind.seq, s) ∈ HeapOps.reach h x → (ViewsAgree (HeapOps.run o ops (h, W)).1 s ↔ ViewsAgree h s) := by
  intro s hs
  unfold ViewsAgree
  rw [(independent o h W x ops hW hx hdis).2.2.1 s hs]

/-- non-vacuity: the example sequence of `C16c` satisfies the C04 invariant (and `AllocAll`, `SeqOk`,
    see `C16c`), so `copy_equal_content` applies to it -/
example : ViewsAgree exHeap 0 := by
  have hsnap : toSeq (HeapOps.snap exHeap 0)
      = { abs := [], rel := [Msg.mkOn 0 60 64 pyNone, Msg.mkWait 0 24, Msg.mkOff 0 60 pyNone],
          absStale := true, relStale := false } := by decide
  unfold ViewsAgree
  rw [hsnap]
  unfold C04.Inv
  simp only [C04.ofSeq]
  refine And.intro (by decide) (And.intro (fun h => by cases h) (And.intro ?_ (fun h => by cases h)))
  intro _
  refine And.intro ?_ ?_
  · intro m hm hw
    simp only [List.mem_cons, List.not_mem_nil, or_false] at hm
    rcases hm with rfl | rfl | rfl <;> simp_all [Msg.mkOn, Msg.mkWait, Msg.mkOff]
  · intro m hm
    simp only [List.mem_cons, List.not_mem_nil, or_false] at hm
    rcases hm with rfl | rfl | rfl <;> simp [Msg.mkOn, Msg.mkWait, Msg.mkOff]

end SCoda.C16cW
