/-
  C12 (save then load returns the same notes) for MULTI-CHANNEL sequences — closes audit round 2, item F5
  ("carve-outs wider than the recorded finding"), row C12 of its section D table.

  `C13.Saved.oneCh` (all notes of a saved sequence on one channel) excludes far more than the recorded defect
  D21 (the file does not store the channel and the loader pairs note-offs by pitch alone, so two notes of EQUAL
  PITCH on DIFFERENT channels that overlap fuse).  Here the two end-to-end theorems are proved
  * under `Saved'`: `oneCh` replaced by the input-level decidable predicate `NoCrossChannelClash` — no two notes of
    equal pitch on different channels overlap or touch (the complement of harness/props/C12.py
    `cross_channel_overlap`, the recorded predicate of D21);
  * under the still weaker `SavedX`: forgetting the channels leaves the event list well-formed with notes of
    positive length.  This also covers two such notes that TOUCH when the earlier note's note-off is listed before
    the later note's note-on (replayed on the library: round trip exact); listed the other way round the library
    fuses them (replayed, and `touch_on_first_fuses` below for the model), so the exact class depends on the
    order of the two messages on the shared tick, which `SavedX` captures and a predicate on notes cannot.
  `Saved → Saved' → SavedX`.
-/
import SCoda.Props.C13b
import SCoda.Lemmas.C12NarrowL
import SCoda.Lemmas.ExtractL
namespace SCoda.C12n
open SCoda SCoda.C13 SCoda.C13b SCoda.MergeL SCoda.E2E

/-! ## input-level specifications -/

/-- no two notes of equal pitch on different channels overlap or touch (complement of the recorded D21 class) -/
def NoCrossChannelClash (S : List Note) : Prop :=
  ∀ n ∈ S, ∀ n' ∈ S, n.pitch = n'.pitch → n.ch ≠ n'.ch → n.off < n'.on ∨ n'.off < n.on

instance (S : List Note) : Decidable (NoCrossChannelClash S) := by
  unfold NoCrossChannelClash; infer_instance

/-- a timed event list with every channel set to 0: all that a MIDI track written by `sequences_save` keeps -/
def forgetCh (E : List Msg) : List Msg := E.map (fun m => { m with ch := 0 })

/-- a saved sequence, multi-channel: `C13.Saved` with `oneCh` replaced by `NoCrossChannelClash` on its notes -/
structure Saved' (r : List Msg) : Prop where
  ok : OkRel r
  noTime : ∀ m ∈ r, m.ty ≠ .wait → m.time = pyNone
  wf : WF r
  pos : C15.PosDur (eventsRel r)
  vel : ∀ m ∈ r, m.ty = .noteOn → m.vel ≠ pyNone ∧ 0 < m.vel
  sep : NoCrossChannelClash (notesOf (eventsRel r))

/-- the weakest class proved: `C13.Saved` with `oneCh` replaced by "still well-formed, with notes of positive length,
    once the channels are forgotten" -/
structure SavedX (r : List Msg) : Prop where
  ok : OkRel r
  noTime : ∀ m ∈ r, m.ty ≠ .wait → m.time = pyNone
  wf : WF r
  pos : C15.PosDur (eventsRel r)
  vel : ∀ m ∈ r, m.ty = .noteOn → m.vel ≠ pyNone ∧ 0 < m.vel
  monoWf : WF (forgetCh (eventsRel r))
  monoPos : C15.PosDur (forgetCh (eventsRel r))

theorem forgetCh_eq (E : List Msg) : forgetCh E = C12NarrowL.mono E := rfl

/-- `Saved'` is weaker than `Saved`: notes on one channel never clash across channels -/
theorem saved_saved' (r : List Msg) (h : Saved r) : Saved' r := by
  refine ⟨h.ok, h.noTime, h.wf, h.pos, h.vel, ?_⟩
  obtain ⟨c0, hc0⟩ := h.oneCh
  apply C12NarrowL.chanSep_oneCh _ c0
  intro e he hty
  obtain ⟨m, hm, t0, rfl⟩ := eventsRelGo_src r 0 e he
  exact hc0 m hm (Or.inl hty)

/-- `SavedX` is weaker than `Saved'`: notes of equal pitch on different channels that neither overlap nor touch keep
    every pitch well-formed when the channels are forgotten -/
theorem saved'_savedX (r : List Msg) (h : Saved' r) : SavedX r := by
  have hK : ∀ k, goodFrom k none (eventsRel r) := good_of_wf _ (wf_events r h.wf) h.pos
  have hM := C12NarrowL.mono_good (eventsRel r) (events_sorted r 0 h.ok.1) hK h.sep
  exact ⟨h.ok, h.noTime, h.wf, h.pos, h.vel, C12NarrowL.wf_of_good _ hM, C12NarrowL.posDur_of_good _ hM⟩

/-- what the lemmas need of a `SavedX` sequence -/
theorem savedX_good (r : List Msg) (h : SavedX r) :
    (∀ k, goodFrom k none (eventsRel r)) ∧ (∀ k, goodFrom k none (C12NarrowL.mono (eventsRel r)))
    ∧ (∀ k, goodFrom k none ((eventsRel r).filterMap noteOf))
    ∧ ∀ m ∈ eventsRel r, m.ty = .noteOn → m.vel ≠ pyNone := by
  have hK : ∀ k, goodFrom k none (eventsRel r) := good_of_wf _ (wf_events r h.wf) h.pos
  have hM : ∀ k, goodFrom k none (C12NarrowL.mono (eventsRel r)) := good_of_wf _ h.monoWf h.monoPos
  refine ⟨hK, hM, fun k => C12NarrowL.good_noteOf k _ none (hM k), ?_⟩
  intro e he hty
  obtain ⟨m, hm, t0, rfl⟩ := eventsRelGo_src r 0 e he
  exact (h.vel m hm hty).1

/-! ## the two end-to-end theorems -/

/-- **C12, notes, multi-channel** (closes audit round 2 F5 / section D row C12 for `save_load_notes`): the notes of
    loaded sequence `i` — pitch, onset, offset, velocity — are exactly the notes of saved sequence `i`, each
    relabelled to channel 0, as a multiset, for every sequence that stays well-formed when its channels are
    forgotten (`SavedX`); any number of channels. -/
theorem save_load_notesX (ppqn : Int) (hp : 0 < ppqn) (rels : List (List Msg)) (hs : ∀ r ∈ rels, SavedX r)
    (out : List Seq) (h : saveLoad ppqn rels = .ok out)
    (i : Nat) (r : List Msg) (s s' : Seq) (a : List Msg) (hr : rels[i]? = some r) (ho : out[i]? = some s)
    (ha : s.readAbs = Except.ok (s', a)) :
    (notesOf (eventsAbs a)).Perm ((notesOf (eventsRel r)).map (fun n => { n with ch := 0 })) := by
  unfold saveLoad at h
  have hproj := C12NarrowL.saved_proj' ppqn hp rels
    (fun r hr => ⟨(hs r hr).ok, (hs r hr).noTime, (savedX_good r (hs r hr)).2.2.1⟩) out h i r s s' a hr ho ha
  have h1 := L2.notesOf_perm_of_proj (eventsAbs a) ((eventsRel r).filterMap noteOf)
    (fun k => by rw [P_eventsAbs]; exact hproj k)
  obtain ⟨hK, hM, _, hvel⟩ := savedX_good r (hs r (List.mem_of_getElem? hr))
  rw [C12NarrowL.notesOf_noteOf _ hK hM hvel] at h1
  exact h1

/-- **C12, notes, multi-channel** under the notes-level hypothesis: the same for sequences in which no two notes of
    equal pitch on different channels overlap or touch — exactly the complement of the recorded class of D21
    (closes audit round 2 F5, row C12). -/
theorem save_load_notes' (ppqn : Int) (hp : 0 < ppqn) (rels : List (List Msg)) (hs : ∀ r ∈ rels, Saved' r)
    (out : List Seq) (h : saveLoad ppqn rels = .ok out)
    (i : Nat) (r : List Msg) (s s' : Seq) (a : List Msg) (hr : rels[i]? = some r) (ho : out[i]? = some s)
    (ha : s.readAbs = Except.ok (s', a)) :
    (notesOf (eventsAbs a)).Perm ((notesOf (eventsRel r)).map (fun n => { n with ch := 0 })) :=
  save_load_notesX ppqn hp rels (fun r hr => saved'_savedX r (hs r hr)) out h i r s s' a hr ho ha

/-- **C12, sounding set, multi-channel** (closes audit round 2 F5, row C12 for `C13.save_load_sounding`): saving and
    loading succeeds with one sequence per saved sequence, and loaded sequence `i` sounds pitch `p` (on channel 0) at
    tick `t` exactly when saved sequence `i` sounded `p` at `t` on some channel. -/
theorem save_load_soundingX (ppqn : Int) (hp : 0 < ppqn) (rels : List (List Msg)) (hs : ∀ r ∈ rels, SavedX r)
    (hne : rels ≠ []) :
    ∃ out, saveLoad ppqn rels = .ok out ∧ out.length = rels.length ∧
      ∀ (i : Nat) (r : List Msg) (s s' : Seq) (a : List Msg), rels[i]? = some r → out[i]? = some s → s.readAbs = Except.ok (s', a) →
        ∀ p t, SoundingAt (eventsAbs a) (0, p) t ↔ ∃ c, SoundingAt (eventsRel r) (c, p) t := by
  obtain ⟨out, hout, hlen⟩ := save_load_succeeds ppqn rels hne
  refine ⟨out, hout, hlen, ?_⟩
  intro i r s s' a hr ho ha p t
  unfold saveLoad at hout
  have hS := hs r (List.mem_of_getElem? hr)
  obtain ⟨hK, hM, hN, hvel⟩ := savedX_good r hS
  have hproj := C12NarrowL.saved_proj' ppqn hp rels
    (fun r hr => ⟨(hs r hr).ok, (hs r hr).noTime, (savedX_good r (hs r hr)).2.2.1⟩) out hout i r s s' a hr ho ha
  obtain ⟨_, heq, hga, _⟩ := C12NarrowL.track_ga ppqn hp r hS.ok hS.noTime hN
  have hsN : Sorted ((eventsRel r).filterMap noteOf) := by rw [← heq]; exact ga_sorted hga
  rw [C12NarrowL.sounding_proj (eventsAbs a) ((eventsRel r).filterMap noteOf) (0, p) t
    (by rw [P_eventsAbs]; exact hproj _)]
  exact C12NarrowL.sounding_noteOf _ (events_sorted r 0 hS.ok.1) hsN hK hM hvel p t

/-- **C12, sounding set, multi-channel** under the notes-level hypothesis `Saved'` (complement of D21's class) -/
theorem save_load_sounding' (ppqn : Int) (hp : 0 < ppqn) (rels : List (List Msg)) (hs : ∀ r ∈ rels, Saved' r)
    (hne : rels ≠ []) :
    ∃ out, saveLoad ppqn rels = .ok out ∧ out.length = rels.length ∧
      ∀ (i : Nat) (r : List Msg) (s s' : Seq) (a : List Msg), rels[i]? = some r → out[i]? = some s → s.readAbs = Except.ok (s', a) →
        ∀ p t, SoundingAt (eventsAbs a) (0, p) t ↔ ∃ c, SoundingAt (eventsRel r) (c, p) t :=
  save_load_soundingX ppqn hp rels (fun r hr => saved'_savedX r (hs r hr)) hne

/-! ## the remaining C12 clauses for multi-channel sequences -/

/-- **C12, velocities, multi-channel** (audit round 2 F5, row C12): the note-on events of loaded sequence `i` are those of
    saved sequence `i`, with pitch, tick and velocity (channel 0 after loading) -/
theorem save_load_note_onsX (ppqn : Int) (hp : 0 < ppqn) (rels : List (List Msg)) (hs : ∀ r ∈ rels, SavedX r)
    (out : List Seq) (h : saveLoad ppqn rels = .ok out)
    (i : Nat) (r : List Msg) (s s' : Seq) (a : List Msg) (hr : rels[i]? = some r) (ho : out[i]? = some s)
    (ha : s.readAbs = Except.ok (s', a)) (p t v : Int) :
    (∃ m ∈ eventsAbs a, m.ty = .noteOn ∧ m.note = p ∧ m.time = t ∧ m.vel = v) ↔
    (∃ m ∈ eventsRel r, m.ty = .noteOn ∧ m.note = p ∧ m.time = t ∧ m.vel = v) := by
  unfold saveLoad at h
  exact C12NarrowL.note_ons_core' ppqn hp rels
    (fun r hr => ⟨(hs r hr).ok, (hs r hr).noTime, (savedX_good r (hs r hr)).2.2.1⟩)
    (fun r hr m hm hon => ((hs r hr).vel m hm hon).1) out h i r s s' a hr ho ha p t v

/-- the saved tracks of `SavedX` sequences have non-negative delta times -/
theorem savedX_tracks (ppqn : Int) (hp : 0 < ppqn) (rels : List (List Msg)) (hs : ∀ r ∈ rels, SavedX r) :
    ∀ evs ∈ rels.map toMido, ∀ e ∈ evs, 0 ≤ e.time := by
  intro evs hevs
  obtain ⟨r, hr, rfl⟩ := List.mem_map.1 hevs
  exact (C12NarrowL.track_ga ppqn hp r (hs r hr).ok (hs r hr).noTime (savedX_good r (hs r hr)).2.2.1).1

/-- **C12, time signature in force, multi-channel**: `C13b.save_load_time_signature_in_force` needs nothing of the
    channels; stated here for `SavedX` sequences -/
theorem save_load_time_signature_in_forceX (ppqn : Int) (hp : 0 < ppqn) (rels : List (List Msg))
    (hs : ∀ r ∈ rels, SavedX r)
    (hpresent : ∀ r ∈ rels, ∀ m ∈ r, m.ty = .timeSignature → (m.num, m.den) ≠ (pyNone, pyNone))
    (out : List Seq) (h : saveLoad ppqn rels = .ok out)
    (s s' : Seq) (a : List Msg) (ho : out[0]? = some s) (ha : s.readAbs = Except.ok (s', a))
    (t : Int) (ht : 0 ≤ t) :
    (latest .timeSignature (eventsAbs a) t).map tsVal
      = (latest .timeSignature (dfltSig .timeSignature ++ rels.flatMap eventsRel) t).map tsVal := by
  unfold saveLoad at h
  have hd := savedX_tracks ppqn hp rels hs
  have hdom : ∀ evs ∈ rels.map toMido, L2.TsDomain evs := by
    intro evs hevs e he hty
    obtain ⟨r, hr, rfl⟩ := List.mem_map.1 hevs
    obtain ⟨hc, m, hm, h1, h2, h3, _⟩ := L2.toMidoGo_sig r 0 e he (Or.inl hty)
    refine ⟨hc, ?_⟩
    rw [← h2, ← h3]
    exact hpresent r hr m hm (h1.trans hty)
  have hcore := L2.inforce_load_ts ppqn ppqn hp hp _ _ _ 0 out h hd hdom s s' a ho ha t ht
  rw [L2.fileSigsL_saved ppqn hp rels (fun r hr => ⟨(hs r hr).ok.1, (hs r hr).noTime⟩),
    L2.latestL_saved _ (Or.inl rfl)] at hcore
  have hd0 : cand .timeSignature t (Msg.mkTimeSig 0 4 4 0) = true := by simp [cand, Msg.mkTimeSig, ht]
  have hR : latestL .timeSignature (dfltSig .timeSignature ++ rels.flatMap eventsRel) t
      = (latestL .timeSignature (rels.flatMap eventsRel) t).or (some (Msg.mkTimeSig 0 4 4 0)) :=
    latestL_cons _ t _ _ hd0 (fun m hm _ => events_nonneg rels (fun r hr => (hs r hr).ok.1) m hm)
  show (latestL .timeSignature (eventsAbs a) t).map tsv = (latestL .timeSignature _ t).map tsv
  rw [hR, map_or_some, hcore]
  cases latestL .timeSignature (rels.flatMap eventsRel) t <;> rfl

/-- **C12, key signature in force, multi-channel** -/
theorem save_load_key_signature_in_forceX (ppqn : Int) (hp : 0 < ppqn) (rels : List (List Msg))
    (hs : ∀ r ∈ rels, SavedX r)
    (hpresent : ∀ r ∈ rels, ∀ m ∈ r, m.ty = .keySignature → m.key ≠ pyNone)
    (out : List Seq) (h : saveLoad ppqn rels = .ok out)
    (s s' : Seq) (a : List Msg) (ho : out[0]? = some s) (ha : s.readAbs = Except.ok (s', a)) (t : Int) :
    (latest .keySignature (eventsAbs a) t).map keyVal
      = (latest .keySignature (dfltSig .keySignature ++ rels.flatMap eventsRel) t).map keyVal := by
  unfold saveLoad at h
  have hd := savedX_tracks ppqn hp rels hs
  have hdom : ∀ evs ∈ rels.map toMido, L2.KsDomain evs := by
    intro evs hevs e he hty
    obtain ⟨r, hr, rfl⟩ := List.mem_map.1 hevs
    obtain ⟨hc, m, hm, h1, _, _, h4⟩ := L2.toMidoGo_sig r 0 e he (Or.inr hty)
    refine ⟨hc, ?_⟩
    rw [← h4]
    exact hpresent r hr m hm (h1.trans hty)
  have hcore := L2.inforce_load_ks ppqn ppqn hp hp _ _ _ 0 out h hd hdom s s' a ho ha t
  rw [L2.fileSigsL_saved ppqn hp rels (fun r hr => ⟨(hs r hr).ok.1, (hs r hr).noTime⟩),
    L2.latestL_saved _ (Or.inr rfl)] at hcore
  show (latestL .keySignature (eventsAbs a) t).map ksv = (latestL .keySignature (rels.flatMap eventsRel) t).map ksv
  rw [hcore]
  cases latestL .keySignature (rels.flatMap eventsRel) t <;> rfl

/-! ## non-vacuity, and how tight the hypotheses are -/

/-- two channels: channel 0 plays pitch 60 over [0,12), channel 1 plays pitch 64 over [0,24) -/
def exTwo : List Msg :=
  [Msg.mkOn 0 60 64 pyNone, Msg.mkOn 1 64 70 pyNone, Msg.mkWait 0 12, Msg.mkOff 0 60 pyNone, Msg.mkWait 0 12,
   Msg.mkOff 1 64 pyNone]

/-- equal pitch on two channels, apart: channel 0 plays pitch 60 over [0,12), channel 1 plays pitch 60 over [13,25) -/
def exApart : List Msg :=
  [Msg.mkOn 0 60 64 pyNone, Msg.mkWait 0 12, Msg.mkOff 0 60 pyNone, Msg.mkWait 0 1, Msg.mkOn 1 60 70 pyNone,
   Msg.mkWait 0 12, Msg.mkOff 1 60 pyNone]

/-- equal pitch on two channels, touching, note-off listed first: channel 0 pitch 60 over [0,12), channel 1 pitch 60
    over [12,24) -/
def exTouch : List Msg :=
  [Msg.mkOn 0 60 64 pyNone, Msg.mkWait 0 12, Msg.mkOff 0 60 pyNone, Msg.mkOn 1 60 70 pyNone, Msg.mkWait 0 12,
   Msg.mkOff 1 60 pyNone]

/-- the same two notes with the note-on listed before the note-off on tick 12 -/
def exTouchOnFirst : List Msg :=
  [Msg.mkOn 0 60 64 pyNone, Msg.mkWait 0 12, Msg.mkOn 1 60 70 pyNone, Msg.mkOff 0 60 pyNone, Msg.mkWait 0 12,
   Msg.mkOff 1 60 pyNone]

theorem exTwo_saved' : Saved' exTwo :=
  ⟨⟨by simp [exTwo, NonNegWaits, Msg.mkOn, Msg.mkOff, Msg.mkWait], by simp [exTwo, Msg.mkOn, Msg.mkOff, Msg.mkWait]⟩,
    by simp [exTwo, Msg.mkOn, Msg.mkOff, Msg.mkWait], by decide, by unfold C15.PosDur; decide,
    by simp [exTwo, Msg.mkOn, Msg.mkOff, Msg.mkWait, pyNone], by decide⟩

theorem exApart_saved' : Saved' exApart :=
  ⟨⟨by simp [exApart, NonNegWaits, Msg.mkOn, Msg.mkOff, Msg.mkWait], by simp [exApart, Msg.mkOn, Msg.mkOff, Msg.mkWait]⟩,
    by simp [exApart, Msg.mkOn, Msg.mkOff, Msg.mkWait], by decide, by unfold C15.PosDur; decide,
    by simp [exApart, Msg.mkOn, Msg.mkOff, Msg.mkWait, pyNone], by decide⟩

/-- a two-channel sequence meets `Saved'` and not `Saved` (non-vacuity of the widening) … -/
example : Saved' exTwo ∧ ¬ Saved exTwo := by
  refine ⟨exTwo_saved', fun h => ?_⟩
  obtain ⟨c, hc⟩ := h.oneCh
  have h0 := hc (Msg.mkOn 0 60 64 pyNone) (by simp [exTwo]) (Or.inl rfl)
  have h1 := hc (Msg.mkOn 1 64 70 pyNone) (by simp [exTwo]) (Or.inl rfl)
  simp only [Msg.mkOn] at h0 h1
  omega

/-- … so does one with EQUAL pitch on two channels, one tick apart -/
example : Saved' exApart ∧ ¬ Saved exApart := by
  refine ⟨exApart_saved', fun h => ?_⟩
  obtain ⟨c, hc⟩ := h.oneCh
  have h0 := hc (Msg.mkOn 0 60 64 pyNone) (by simp [exApart]) (Or.inl rfl)
  have h1 := hc (Msg.mkOn 1 60 70 pyNone) (by simp [exApart]) (Or.inl rfl)
  simp only [Msg.mkOn] at h0 h1
  omega

/-- the conclusion evaluated on the two examples (replayed on the library: the same notes) -/
example : (loadedAbs 24 24 ([exTwo].map toMido) [[0]] [0] 0 0).map (fun a => notesOf (eventsAbs a))
    = some [{ ch := 0, pitch := 60, on := 0, off := 12, vel := 64 }, { ch := 0, pitch := 64, on := 0, off := 24, vel := 70 }] := by
  decide +kernel
example : (loadedAbs 24 24 ([exApart].map toMido) [[0]] [0] 0 0).map (fun a => notesOf (eventsAbs a))
    = some [{ ch := 0, pitch := 60, on := 0, off := 12, vel := 64 }, { ch := 0, pitch := 60, on := 13, off := 25, vel := 70 }] := by
  decide +kernel

/-- touching notes with the note-off listed first: inside `SavedX`, outside `Saved'` -/
example : SavedX exTouch ∧ ¬ Saved' exTouch := by
  refine ⟨⟨⟨by simp [exTouch, NonNegWaits, Msg.mkOn, Msg.mkOff, Msg.mkWait], by simp [exTouch, Msg.mkOn, Msg.mkOff, Msg.mkWait]⟩,
    by simp [exTouch, Msg.mkOn, Msg.mkOff, Msg.mkWait], by decide, by unfold C15.PosDur; decide,
    by simp [exTouch, Msg.mkOn, Msg.mkOff, Msg.mkWait, pyNone], by decide, by unfold C15.PosDur; decide⟩, fun h => ?_⟩
  exact absurd h.sep (by decide)
example : (loadedAbs 24 24 ([exTouch].map toMido) [[0]] [0] 0 0).map (fun a => notesOf (eventsAbs a))
    = some [{ ch := 0, pitch := 60, on := 0, off := 12, vel := 64 }, { ch := 0, pitch := 60, on := 12, off := 24, vel := 70 }] := by
  decide +kernel

/-- the hypotheses are tight at the touching point: with the note-on listed first the two notes fuse into one note over
    [0,24) — in the model and in the library (replayed: saved [(60,0,12,64),(60,12,12,70)], loaded [(60,0,24,64)]); the
    sequence is outside `SavedX` (and D21's recorded example `C13b.cexD21` is outside too) -/
theorem touch_on_first_fuses :
    (loadedAbs 24 24 ([exTouchOnFirst].map toMido) [[0]] [0] 0 0).map (fun a => notesOf (eventsAbs a))
      = some [{ ch := 0, pitch := 60, on := 0, off := 24, vel := 64 }]
    ∧ ¬ WF (forgetCh (eventsRel exTouchOnFirst)) := by
  refine ⟨by decide +kernel, by decide⟩
example : ∀ r ∈ cexD21, ¬ NoCrossChannelClash (notesOf (eventsRel r)) ∧ ¬ WF (forgetCh (eventsRel r)) := by decide

end SCoda.C12n
