/-
  C11, layer 3 — the guarding expressions are int-typed and equal the floor-division formulas the
  Lean models use (`barCapacity`, `Cfg.capacity`), for all integer arguments in range.
-/
import Mathlib.Data.Rat.Floor
import Mathlib.Tactic.FieldSimp
import Mathlib.Tactic.Ring
import Mathlib.Tactic.Positivity
import SCoda.Model.PyNum
import SCoda.Model.Bar
import SCoda.Model.Token
namespace SCoda.C11
open SCoda

/-- `round(x)` and `int(x)` always return an int-typed value -/
theorem pyround_int (x : PyNum) : (PyNum.pyround x).isInt = true := by
  cases x <;> rfl
theorem pyint_int (x : PyNum) : (PyNum.pyint x).isInt = true := by
  cases x <;> rfl

theorem barCapacityPy_int (n ppqn d : Int) : (barCapacityPy n ppqn d).isInt = true :=
  pyint_int _

theorem splitBarLenPy_int (n ppqn d : Int) : (splitBarLenPy n ppqn d).isInt = true :=
  pyint_int _

theorem tokCapacityPy_int (n ppqn d : Int) : (tokCapacityPy n ppqn d).isInt = true :=
  pyint_int _

/-- the rational floor of an integer quotient is integer floor division -/
theorem rat_floor_div (a d : Int) (hd : 0 < d) : Rat.floor ((a : Rat) / (d : Rat)) = a / d := by
  have h := Rat.floor_intCast_div_natCast a d.toNat
  have hd' : ((d.toNat : Int)) = d := Int.toNat_of_nonneg hd.le
  have : ((d.toNat : Nat) : Rat) = (d : Rat) := by
    rw [← Int.cast_natCast, hd']
  rw [this, hd'] at h
  exact h

/-- `int(q)` of a non-negative quotient `a / d` is `a // d` -/
theorem pyint_div (a d : Int) (q : Rat) (ha : 0 ≤ a) (hd : 0 < d) (hq : q = (a : Rat) / (d : Rat)) :
    PyNum.pyint (.float q) = .int (a / d) := by
  subst hq
  have h0 : (0 : Rat) ≤ (a : Rat) / (d : Rat) := by
    have : (0:Rat) ≤ (a : Rat) := by exact_mod_cast ha
    have : (0:Rat) < (d : Rat) := by exact_mod_cast hd
    positivity
  simp only [PyNum.pyint, h0, if_true, rat_floor_div a d hd]

/-- `int(n * PPQN / (d / 4))` is the model's `barCapacity` -/
theorem barCapacityPy_eq (n ppqn d : Int) (hn : 0 ≤ n) (hp : 0 ≤ ppqn) (hd : 0 < d) :
    barCapacityPy n ppqn d = .int (barCapacity ppqn n d) := by
  unfold barCapacityPy barCapacity
  simp only [PyNum.mul, PyNum.truediv, PyNum.toRat]
  apply pyint_div _ _ _ (by positivity) hd
  have : (d : Rat) ≠ 0 := by exact_mod_cast hd.ne'
  push_cast
  field_simp

/-- `int(PPQN * (n / (d / 4)))` is the same number -/
theorem splitBarLenPy_eq (n ppqn d : Int) (hn : 0 ≤ n) (hp : 0 ≤ ppqn) (hd : 0 < d) :
    splitBarLenPy n ppqn d = .int (barCapacity ppqn n d) := by
  unfold splitBarLenPy barCapacity
  simp only [PyNum.mul, PyNum.truediv, PyNum.toRat]
  apply pyint_div _ _ _ (by positivity) hd
  have : (d : Rat) ≠ 0 := by exact_mod_cast hd.ne'
  push_cast
  field_simp

/-- `int(ppqn * 4 * n / d)` is the tokeniser model's `capacity` -/
theorem tokCapacityPy_eq (c : Cfg) (n d : Int) (hn : 0 ≤ n) (hp : 0 ≤ c.ppqn) (hd : 0 < d) :
    tokCapacityPy n c.ppqn d = .int (c.capacity n d) := by
  unfold tokCapacityPy Cfg.capacity
  simp only [PyNum.mul, PyNum.truediv, PyNum.toRat]
  apply pyint_div _ _ _ (by positivity) hd
  push_cast
  rfl

example : barCapacityPy 6 24 8 = .int 72 := by
  rw [barCapacityPy_eq 6 24 8 (by decide) (by decide) (by decide)]; decide
example : barCapacityPy 1 24 128 = .int 0 := by
  rw [barCapacityPy_eq 1 24 128 (by decide) (by decide) (by decide)]; decide

end SCoda.C11
