/-
  C09, audit item A6 parts (b) and (d): an *input-level* alignment predicate and bar grid, the signature / key
  theorems stated against it for every track, the refutation of the statement without distinct ticks, and the
  success / failure theorems of `sequences_split_bars`.
  Spec definitions (`gridStart`, `OnGrid`, `AlignedIn`, `AlignedInB`, `DistinctTicks`, `NonNegBars`, `PosBars`, `sigsOf`,
  `keysOf`, `SigsAgree`; for the keys `dueCount`, `lagCount`, `lagBefore`, `valAt`) live in `Lemmas/Strong589LB.lean` /
  `Strong589LB2.lean` because the helper lemmas are stated over them; all are computed from the input alone.
  Every statement found false is kept as `def …_statement` with a kernel-checked refutation and was replayed on the real
  implementation (results in the docstrings).
-/
import SCoda.Lemmas.Strong589LB2
namespace SCoda.Strong589
open SCoda SCoda.SB SCoda.SplitL SCoda.Strong589LB

/-! ## (g) `Aligned` as an input-only predicate (A6d) -/

/-- **the signature events in `Roll` terms**: for a track whose time-signature events (of the independent semantics
    `eventsRel`) have pairwise distinct ticks, the list `sigsOf` that all theorems below read — the implementation's
    `get_message_times_of_type` over the absolute view — is exactly the `eventsRel` events of type time signature, in
    order; same for `keysOf`.  So the hypotheses below are statements about the input's piano-roll events.
    Supports audit item A6(d) (input-level, implementation-independent reading of `AlignedIn`). -/
theorem sigsOf_roll (r : List Msg) (hd : DistinctTicks ((eventsRel r).filter (·.ty == .timeSignature))) :
    sigsOf r = (eventsRel r).filter (·.ty == .timeSignature) :=
  timesOfType_roll .timeSignature (by decide) r hd

/-- the same for the key-signature events.  Supports audit item A6(d). -/
theorem keysOf_roll (r : List Msg) (hd : DistinctTicks ((eventsRel r).filter (·.ty == .keySignature))) :
    keysOf r = (eventsRel r).filter (·.ty == .keySignature) :=
  timesOfType_roll .keySignature (by decide) r hd

/-- **bar k of every track carries the signature in force at the k-th start of the input-level bar grid and lasts
    exactly its length.**  The grid (`gridStart`) and the signature in force (`C09.sigInForce`) are computed from the
    meta track's signature events alone; hypotheses: those events sit on that grid (`OnGrid`, no bound on the bar
    index), their ticks are pairwise distinct, no bar length is negative.  No hypothesis on keys.
    Closes audit item A6(d) (signature part, decoupled from key alignment). -/
theorem bar_signature_in (ppqn : Int) (values : List Int) (tracks : List (List Msg)) (metaIdx : Nat) (requant : Bool)
    (tb : List (List Bar)) (h : splitBars ppqn values tracks metaIdx requant = .ok tb)
    (metaTrack : List Msg) (hm : tracks[metaIdx]? = some metaTrack)
    (hnn : NonNegBars ppqn (sigsOf metaTrack))
    (hal : ∀ m ∈ sigsOf metaTrack, OnGrid ppqn (sigsOf metaTrack) m.time)
    (hd : DistinctTicks (sigsOf metaTrack))
    (i k : Nat) (b : Bar) (hb : C09.barAt tb i k = some b) :
    (b.num, b.den) = C09.sigInForce (sigsOf metaTrack) (gridStart ppqn (sigsOf metaTrack) k)
    ∧ durRel b.seq = barCapacity ppqn b.num b.den := by
  obtain ⟨r, hg⟩ := bar_in_sched ppqn values tracks metaIdx requant tb h metaTrack hm i k b hb
  refine ⟨sched_sig ppqn metaTrack hnn hd hal (r + 1) k _ hg, ?_⟩
  unfold C09.barAt at hb
  cases hbs : tb[i]? with
  | none => simp [hbs] at hb
  | some bs =>
    simp only [hbs, Option.bind_eq_bind, Option.bind_some] at hb
    exact (C09.bars_exact ppqn values tracks metaIdx requant tb h bs (List.mem_of_getElem? hbs) b
      (List.mem_of_getElem? hb)).1

/-- **bar k of every track carries the key in force at the k-th start of the input-level bar grid** (`pyNone` before
    any key), when in addition the key events sit on the grid and have pairwise distinct ticks.
    Closes audit item A6(d) (key part). -/
theorem bar_key_in (ppqn : Int) (values : List Int) (tracks : List (List Msg)) (metaIdx : Nat) (requant : Bool)
    (tb : List (List Bar)) (h : splitBars ppqn values tracks metaIdx requant = .ok tb)
    (metaTrack : List Msg) (hm : tracks[metaIdx]? = some metaTrack)
    (hnn : NonNegBars ppqn (sigsOf metaTrack))
    (hal : AlignedIn ppqn (sigsOf metaTrack) (keysOf metaTrack))
    (hd : DistinctTicks (sigsOf metaTrack)) (hdk : DistinctTicks (keysOf metaTrack))
    (i k : Nat) (b : Bar) (hb : C09.barAt tb i k = some b) :
    b.key = C09.keyInForce (keysOf metaTrack) (gridStart ppqn (sigsOf metaTrack) k) := by
  obtain ⟨r, hg⟩ := bar_in_sched ppqn values tracks metaIdx requant tb h metaTrack hm i k b hb
  exact sched_key ppqn metaTrack hnn hd hal.1 hdk hal.2 (r + 1) k _ hg

/-- RULES-4 name for `bar_signature_in`: the provable part of `bar_sig_statement` (hypothesis added: signature ticks
    pairwise distinct).  Closes audit item A6(d). -/
theorem bar_sig_partial (ppqn : Int) (values : List Int) (tracks : List (List Msg)) (metaIdx : Nat) (requant : Bool)
    (tb : List (List Bar)) (h : splitBars ppqn values tracks metaIdx requant = .ok tb)
    (metaTrack : List Msg) (hm : tracks[metaIdx]? = some metaTrack)
    (hnn : NonNegBars ppqn (sigsOf metaTrack))
    (hal : ∀ m ∈ sigsOf metaTrack, OnGrid ppqn (sigsOf metaTrack) m.time)
    (hd : DistinctTicks (sigsOf metaTrack))
    (i k : Nat) (b : Bar) (hb : C09.barAt tb i k = some b) :
    (b.num, b.den) = C09.sigInForce (sigsOf metaTrack) (gridStart ppqn (sigsOf metaTrack) k) :=
  (bar_signature_in ppqn values tracks metaIdx requant tb h metaTrack hm hnn hal hd i k b hb).1

/-- RULES-4 name for `bar_key_in`: the provable part of `bar_key_statement` (hypothesis added: key ticks pairwise
    distinct).  Closes audit item A6(d). -/
theorem bar_key_partial (ppqn : Int) (values : List Int) (tracks : List (List Msg)) (metaIdx : Nat) (requant : Bool)
    (tb : List (List Bar)) (h : splitBars ppqn values tracks metaIdx requant = .ok tb)
    (metaTrack : List Msg) (hm : tracks[metaIdx]? = some metaTrack)
    (hnn : NonNegBars ppqn (sigsOf metaTrack))
    (hal : AlignedIn ppqn (sigsOf metaTrack) (keysOf metaTrack))
    (hd : DistinctTicks (sigsOf metaTrack)) (hdk : DistinctTicks (keysOf metaTrack))
    (i k : Nat) (b : Bar) (hb : C09.barAt tb i k = some b) :
    b.key = C09.keyInForce (keysOf metaTrack) (gridStart ppqn (sigsOf metaTrack) k) :=
  bar_key_in ppqn values tracks metaIdx requant tb h metaTrack hm hnn hal hd hdk i k b hb

/-! ### two changes on one bar start: the statement without distinct ticks is false -/

/-- the full key statement, *without* "key ticks pairwise distinct" -/
def bar_key_statement : Prop :=
  ∀ (ppqn : Int) (values : List Int) (tracks : List (List Msg)) (metaIdx : Nat) (requant : Bool) (tb : List (List Bar)),
    splitBars ppqn values tracks metaIdx requant = .ok tb →
    ∀ metaTrack : List Msg, tracks[metaIdx]? = some metaTrack → NonNegBars ppqn (sigsOf metaTrack) →
      AlignedIn ppqn (sigsOf metaTrack) (keysOf metaTrack) → DistinctTicks (sigsOf metaTrack) →
      ∀ (i k : Nat) (b : Bar), C09.barAt tb i k = some b →
        b.key = C09.keyInForce (keysOf metaTrack) (gridStart ppqn (sigsOf metaTrack) k)

/-- the full signature statement, *without* "signature ticks pairwise distinct" -/
def bar_sig_statement : Prop :=
  ∀ (ppqn : Int) (values : List Int) (tracks : List (List Msg)) (metaIdx : Nat) (requant : Bool) (tb : List (List Bar)),
    splitBars ppqn values tracks metaIdx requant = .ok tb →
    ∀ metaTrack : List Msg, tracks[metaIdx]? = some metaTrack → NonNegBars ppqn (sigsOf metaTrack) →
      (∀ m ∈ sigsOf metaTrack, OnGrid ppqn (sigsOf metaTrack) m.time) →
      ∀ (i k : Nat) (b : Bar), C09.barAt tb i k = some b →
        (b.num, b.den) = C09.sigInForce (sigsOf metaTrack) (gridStart ppqn (sigsOf metaTrack) k)

def ksMsg (k : Int) : Msg := { ty := .keySignature, ch := 0, key := k }

/-- the audit's witness: key C and key G both on tick 0, then 200 ticks -/
def wKeys : List Msg := [ksMsg 0, ksMsg 1, Msg.mkWait 0 200]

/-- two signatures on the final tick of the meta track (where `split` drops them, D8), beside a longer track -/
def wSigsMeta : List Msg := [Msg.mkWait 0 96, Msg.mkTimeSig 0 3 4 pyNone, Msg.mkTimeSig 0 2 4 pyNone]
def wSigsOther : List Msg := [Msg.mkWait 0 300]


/-- what the model returns on the witnesses (signature, key, duration per bar) -/
example : (outOf (splitBars 24 [] [wKeys] 0 false)).map (fun bs => bs.map (fun b => (b.num, b.den, b.key, durRel b.seq)))
    = [[(4, 4, 0, 96), (4, 4, 1, 96), (4, 4, 1, 96)]] := by decide +kernel
example : (outOf (splitBars 24 [] [wSigsMeta, wSigsOther] 0 false)).map
      (fun bs => bs.map (fun b => (b.num, b.den, b.key, durRel b.seq)))
    = [[(4, 4, pyNone, 96), (3, 4, pyNone, 72), (2, 4, pyNone, 48), (2, 4, pyNone, 48), (2, 4, pyNone, 48)],
       [(4, 4, pyNone, 96), (3, 4, pyNone, 72), (2, 4, pyNone, 48), (2, 4, pyNone, 48), (2, 4, pyNone, 48)]] := by
  decide +kernel

/-- **refuted**: with key C and key G on the same bar start, bar 0 carries C (the first), not the key in force (G):
    the queue is popped once per bar.  The real implementation does the same (replayed). -/
theorem bar_key_statement_false : ¬ bar_key_statement := by
  intro hS
  have hrun : splitBars 24 [] [wKeys] 0 false = .ok (outOf (splitBars 24 [] [wKeys] 0 false)) :=
    eq_ok_outOf _ (by decide +kernel)
  have := hS 24 [] [wKeys] 0 false _ hrun wKeys rfl (by decide +kernel) (alignedIn_of_B _ _ _ (by decide +kernel))
    (by decide +kernel) 0 0 (barOr (C09.barAt (outOf (splitBars 24 [] [wKeys] 0 false)) 0 0)) (by decide +kernel)
  revert this
  decide +kernel

/-- **refuted**: two signatures (3/4, 2/4) on one bar start: bar 1 carries 3/4 (the first), not the signature in
    force (2/4).  The real implementation does the same (replayed). -/
theorem bar_sig_statement_false : ¬ bar_sig_statement := by
  intro hS
  have hrun : splitBars 24 [] [wSigsMeta, wSigsOther] 0 false
      = .ok (outOf (splitBars 24 [] [wSigsMeta, wSigsOther] 0 false)) := eq_ok_outOf _ (by decide +kernel)
  have := hS 24 [] [wSigsMeta, wSigsOther] 0 false _ hrun wSigsMeta rfl (by decide +kernel)
    (alignedIn_of_B _ _ [] (by decide +kernel)).1
    0 1 (barOr (C09.barAt (outOf (splitBars 24 [] [wSigsMeta, wSigsOther] 0 false)) 0 1)) (by decide +kernel)
  revert this
  decide +kernel

/-! ### what does happen to the keys: at most one change per bar -/

/-- **the key of bar k with no hypothesis on the key events**: the key queue is popped at most once per bar, so bar `k`
    of every track carries the `lagCount k`-th key event of the meta track (`pyNone` if that count is 0), where
    `lagCount k = min (lagCount (k-1) + 1) (number of key events at or before gridStart k)`.
    Positive description behind `bar_key_statement_false`; closes audit item A6(d). -/
theorem bar_key_lag (ppqn : Int) (values : List Int) (tracks : List (List Msg)) (metaIdx : Nat) (requant : Bool)
    (tb : List (List Bar)) (h : splitBars ppqn values tracks metaIdx requant = .ok tb)
    (metaTrack : List Msg) (hm : tracks[metaIdx]? = some metaTrack)
    (hnn : NonNegBars ppqn (sigsOf metaTrack))
    (hal : ∀ m ∈ sigsOf metaTrack, OnGrid ppqn (sigsOf metaTrack) m.time)
    (hd : DistinctTicks (sigsOf metaTrack))
    (i k : Nat) (b : Bar) (hb : C09.barAt tb i k = some b) :
    b.key = valAt (fun m : Msg => m.key) pyNone (keysOf metaTrack)
      (lagCount (keysOf metaTrack) (gridStart ppqn (sigsOf metaTrack)) k) := by
  obtain ⟨r, hg⟩ := bar_in_sched ppqn values tracks metaIdx requant tb h metaTrack hm i k b hb
  exact sched_key_lag ppqn metaTrack hnn hd hal (r + 1) k _ hg

/-- **no lag ⇒ the key in force**: whenever the number of deliveries has caught up with the number of key events due
    (`lagCount k = dueCount (gridStart k)`), bar `k` carries the key in force at its start — with no alignment or
    distinctness hypothesis on the keys.  Closes audit item A6(d). -/
theorem bar_key_caught_up (ppqn : Int) (values : List Int) (tracks : List (List Msg)) (metaIdx : Nat) (requant : Bool)
    (tb : List (List Bar)) (h : splitBars ppqn values tracks metaIdx requant = .ok tb)
    (metaTrack : List Msg) (hm : tracks[metaIdx]? = some metaTrack)
    (hnn : NonNegBars ppqn (sigsOf metaTrack))
    (hal : ∀ m ∈ sigsOf metaTrack, OnGrid ppqn (sigsOf metaTrack) m.time)
    (hd : DistinctTicks (sigsOf metaTrack)) (i k : Nat) (b : Bar) (hb : C09.barAt tb i k = some b)
    (hc : lagCount (keysOf metaTrack) (gridStart ppqn (sigsOf metaTrack)) k
      = dueCount (keysOf metaTrack) (gridStart ppqn (sigsOf metaTrack) k)) :
    b.key = C09.keyInForce (keysOf metaTrack) (gridStart ppqn (sigsOf metaTrack) k) := by
  rw [bar_key_lag ppqn values tracks metaIdx requant tb h metaTrack hm hnn hal hd i k b hb, hc,
    valAt_due _ _ _ (keysOf_ordered metaTrack), keyInForce_eq]

/-- **two key changes become due at the same bar start**: if before bar `k` the queue had delivered `c` changes, `c + 2`
    are due at `gridStart k` and no further one at `gridStart (k+1)`, then bar `k` carries the first of the two
    (`keys[c]`) and bar `k + 1` the second (`keys[c+1]`, the key in force).  Closes audit item A6(d). -/
theorem bar_key_two_changes (ppqn : Int) (values : List Int) (tracks : List (List Msg)) (metaIdx : Nat) (requant : Bool)
    (tb : List (List Bar)) (h : splitBars ppqn values tracks metaIdx requant = .ok tb)
    (metaTrack : List Msg) (hm : tracks[metaIdx]? = some metaTrack)
    (hnn : NonNegBars ppqn (sigsOf metaTrack))
    (hal : ∀ m ∈ sigsOf metaTrack, OnGrid ppqn (sigsOf metaTrack) m.time)
    (hd : DistinctTicks (sigsOf metaTrack)) (k c : Nat) (first second : Msg)
    (hc : lagBefore (keysOf metaTrack) (gridStart ppqn (sigsOf metaTrack)) k = c)
    (h2 : dueCount (keysOf metaTrack) (gridStart ppqn (sigsOf metaTrack) k) = c + 2)
    (h3 : dueCount (keysOf metaTrack) (gridStart ppqn (sigsOf metaTrack) (k + 1)) = c + 2)
    (h1st : (keysOf metaTrack)[c]? = some first) (h2nd : (keysOf metaTrack)[c + 1]? = some second) (i : Nat) :
    (∀ b, C09.barAt tb i k = some b → b.key = first.key) ∧
    (∀ b, C09.barAt tb i (k + 1) = some b → b.key = second.key) := by
  have hk : lagCount (keysOf metaTrack) (gridStart ppqn (sigsOf metaTrack)) k = c + 1 := by
    rw [lagCount_eq, hc, h2]; omega
  have hk1 : lagCount (keysOf metaTrack) (gridStart ppqn (sigsOf metaTrack)) (k + 1) = c + 2 := by
    show min (lagCount _ _ k + 1) _ = _
    rw [hk, h3]; omega
  constructor
  · intro b hb
    rw [bar_key_lag ppqn values tracks metaIdx requant tb h metaTrack hm hnn hal hd i k b hb, hk]
    simp only [valAt, h1st]
  · intro b hb
    rw [bar_key_lag ppqn values tracks metaIdx requant tb h metaTrack hm hnn hal hd i (k + 1) b hb, hk1]
    simp only [valAt, h2nd]

/-- the audit's witness `[ks C, ks G, wait 200]` satisfies the hypotheses of `bar_key_two_changes` with `k = 0`, `c = 0` -/
example : NonNegBars 24 (sigsOf wKeys) ∧ DistinctTicks (sigsOf wKeys)
    ∧ lagBefore (keysOf wKeys) (gridStart 24 (sigsOf wKeys)) 0 = 0
    ∧ dueCount (keysOf wKeys) (gridStart 24 (sigsOf wKeys) 0) = 2 ∧ dueCount (keysOf wKeys) (gridStart 24 (sigsOf wKeys) 1) = 2
    ∧ ((keysOf wKeys)[0]?).map (·.key) = some 0 ∧ ((keysOf wKeys)[1]?).map (·.key) = some 1 := by decide +kernel

/-- `bar_key_lag` evaluated on three key changes on tick 0 (`[ks 0, ks 1, ks 2, wait 300]`): the bars carry keys
    0, 1, 2, 2 — one delivery per bar; the model and the `lagCount` spec agree (the real implementation returns C, G, D, D) -/
example : (outOf (splitBars 24 [] [[ksMsg 0, ksMsg 1, ksMsg 2, Msg.mkWait 0 300]] 0 false)).map (fun bs => bs.map (·.key))
      = [[0, 1, 2, 2]]
    ∧ (List.range 4).map (fun k => valAt (fun m : Msg => m.key) pyNone (keysOf [ksMsg 0, ksMsg 1, ksMsg 2, Msg.mkWait 0 300])
        (lagCount (keysOf [ksMsg 0, ksMsg 1, ksMsg 2, Msg.mkWait 0 300])
          (gridStart 24 (sigsOf [ksMsg 0, ksMsg 1, ksMsg 2, Msg.mkWait 0 300])) k)) = [0, 1, 2, 2] := by
  decide +kernel

/-! ## (e) success and failure (A6b) -/

/-- **`sequences_split_bars` succeeds (re-quantisation off)** under input-level conditions: the meta track exists;
    no negative waits; every bar length of the grid is positive; the meta track's time signatures sit on the bar
    grid they induce, at pairwise distinct ticks; every other track's time signatures agree with the signature in
    force at their tick (`SigsAgree`; in particular: tracks without time signatures).
    Closes audit item A6(b) (no C09 theorem is conditional on success any more, see `split_bars_spec`). -/
theorem split_bars_succeeds (ppqn : Int) (values : List Int) (tracks : List (List Msg)) (metaIdx : Nat)
    (metaTrack : List Msg) (hm : tracks[metaIdx]? = some metaTrack)
    (hw : ∀ t ∈ tracks, NonNegWaits t)
    (hpos : PosBars ppqn (sigsOf metaTrack))
    (hal : ∀ m ∈ sigsOf metaTrack, OnGrid ppqn (sigsOf metaTrack) m.time)
    (hd : DistinctTicks (sigsOf metaTrack))
    (hag : ∀ (i : Nat) (t : List Msg), tracks[i]? = some t → i ≠ metaIdx → SigsAgree (sigsOf metaTrack) t) :
    ∃ tb, splitBars ppqn values tracks metaIdx false = .ok tb :=
  splitBars_ok ppqn values false (fun _ => True)
    (fun g t A hc hw' _ hsig => by
      obtain ⟨o, ho, hsub⟩ := trackStep_ok_false ppqn values g t A hc hw' hsig
      exact ⟨o, ho, trivial, hsub⟩)
    tracks metaIdx metaTrack hm hw (fun _ _ => trivial) hpos hal hd hag

/-- **`sequences_split_bars` succeeds (re-quantisation on)**: as `split_bars_succeeds`, for tracks that are well-formed
    (every note-on closed before the next of its key, `WF`), have no zero-length note, and positive allowed note values.
    Closes audit item A6(b). -/
theorem split_bars_succeeds_requant (ppqn : Int) (values : List Int) (tracks : List (List Msg)) (metaIdx : Nat)
    (metaTrack : List Msg) (hm : tracks[metaIdx]? = some metaTrack)
    (hv : ∀ v ∈ values, 0 < v)
    (hw : ∀ t ∈ tracks, NonNegWaits t) (hwf : ∀ t ∈ tracks, WF t) (hz : ∀ t ∈ tracks, NoZeroNotes t)
    (hpos : PosBars ppqn (sigsOf metaTrack))
    (hal : ∀ m ∈ sigsOf metaTrack, OnGrid ppqn (sigsOf metaTrack) m.time)
    (hd : DistinctTicks (sigsOf metaTrack))
    (hag : ∀ (i : Nat) (t : List Msg), tracks[i]? = some t → i ≠ metaIdx → SigsAgree (sigsOf metaTrack) t) :
    ∃ tb, splitBars ppqn values tracks metaIdx true = .ok tb :=
  splitBars_ok ppqn values true (fun t => WF t ∧ NoZeroNotes t)
    (fun g t A hc hw' hti hsig => trackStep_ok_true ppqn values hv g t A hc hw' hti hsig)
    tracks metaIdx metaTrack hm hw (fun t ht => ⟨hwf t ht, hz t ht⟩) hpos hal hd hag

/-- **unconditional form of the signature clause**: under the input-level conditions of `split_bars_succeeds` the call
    returns bars, and bar `k` of every track carries the signature in force at `gridStart k` and lasts its length.
    Closes audit item A6(b) + A6(d). -/
theorem split_bars_spec (ppqn : Int) (values : List Int) (tracks : List (List Msg)) (metaIdx : Nat)
    (metaTrack : List Msg) (hm : tracks[metaIdx]? = some metaTrack)
    (hw : ∀ t ∈ tracks, NonNegWaits t)
    (hpos : PosBars ppqn (sigsOf metaTrack))
    (hal : ∀ m ∈ sigsOf metaTrack, OnGrid ppqn (sigsOf metaTrack) m.time)
    (hd : DistinctTicks (sigsOf metaTrack))
    (hag : ∀ (i : Nat) (t : List Msg), tracks[i]? = some t → i ≠ metaIdx → SigsAgree (sigsOf metaTrack) t) :
    ∃ tb, splitBars ppqn values tracks metaIdx false = .ok tb ∧
      ∀ (i k : Nat) (b : Bar), C09.barAt tb i k = some b →
        (b.num, b.den) = C09.sigInForce (sigsOf metaTrack) (gridStart ppqn (sigsOf metaTrack) k)
        ∧ durRel b.seq = barCapacity ppqn b.num b.den := by
  obtain ⟨tb, h⟩ := split_bars_succeeds ppqn values tracks metaIdx metaTrack hm hw hpos hal hd hag
  exact ⟨tb, h, fun i k b hb =>
    bar_signature_in ppqn values tracks metaIdx false tb h metaTrack hm hpos.nonneg hal hd i k b hb⟩

/-- **zero-length first bar** (DESIGN §4 C09 `split_bars_zero_len`; re-quantisation off): if the signature in force
    at tick 0 has bar length 0 (e.g. 1/128 at 24 ticks per quarter) and some track has positive duration, the call
    raises `BarException`.  No alignment hypothesis.  Closes audit item A6(b) (failure branch). -/
theorem split_bars_zero_len (ppqn : Int) (values : List Int) (tracks : List (List Msg)) (metaIdx : Nat)
    (metaTrack : List Msg) (hm : tracks[metaIdx]? = some metaTrack) (hwm : NonNegWaits metaTrack)
    (hd : DistinctTicks (sigsOf metaTrack))
    (hz : barCapacity ppqn (C09.sigInForce (sigsOf metaTrack) 0).1 (C09.sigInForce (sigsOf metaTrack) 0).2 = 0)
    (t : List Msg) (ht : t ∈ tracks) (hw : NonNegWaits t) (hpos : 0 < durRel t) :
    splitBars ppqn values tracks metaIdx false = .error .barError :=
  splitBars_zero_first ppqn values tracks metaIdx metaTrack hm hwm hd hz t ht hw hpos

/-- **a zero-length bar anywhere** (re-quantisation off): if the signatures sit on their grid at distinct ticks, no bar
    length is negative, bar `k` of the grid has length 0 and some track is longer than `gridStart k`, the call raises
    `BarException` (at that bar, or earlier for another reason — never a result, never non-termination).
    Closes audit item A6(b) (failure branch, any round). -/
theorem split_bars_zero_len_at (ppqn : Int) (values : List Int) (tracks : List (List Msg)) (metaIdx : Nat)
    (metaTrack : List Msg) (hm : tracks[metaIdx]? = some metaTrack)
    (hnn : NonNegBars ppqn (sigsOf metaTrack))
    (hal : ∀ m ∈ sigsOf metaTrack, OnGrid ppqn (sigsOf metaTrack) m.time)
    (hd : DistinctTicks (sigsOf metaTrack)) (k : Nat)
    (hk0 : barCapacity ppqn (C09.sigInForce (sigsOf metaTrack) (gridStart ppqn (sigsOf metaTrack) k)).1
      (C09.sigInForce (sigsOf metaTrack) (gridStart ppqn (sigsOf metaTrack) k)).2 = 0)
    (t : List Msg) (ht : t ∈ tracks) (hw : NonNegWaits t) (hlt : gridStart ppqn (sigsOf metaTrack) k < durRel t) :
    splitBars ppqn values tracks metaIdx false = .error .barError :=
  splitBars_zero_at ppqn values tracks metaIdx metaTrack hm hnn hal hd k hk0 t ht hw hlt

/-- **all tracks empty**: under the conditions of `split_bars_succeeds`, if every track has duration 0 the call returns
    exactly one bar per track (the complementary branch of `split_bars_zero_len`, for positive bar lengths).
    Closes audit item A6(b). -/
theorem split_bars_all_empty (ppqn : Int) (values : List Int) (tracks : List (List Msg)) (metaIdx : Nat)
    (metaTrack : List Msg) (hm : tracks[metaIdx]? = some metaTrack)
    (hw : ∀ t ∈ tracks, NonNegWaits t)
    (hpos : PosBars ppqn (sigsOf metaTrack))
    (hal : ∀ m ∈ sigsOf metaTrack, OnGrid ppqn (sigsOf metaTrack) m.time)
    (hd : DistinctTicks (sigsOf metaTrack))
    (hag : ∀ (i : Nat) (t : List Msg), tracks[i]? = some t → i ≠ metaIdx → SigsAgree (sigsOf metaTrack) t)
    (h0 : ∀ t ∈ tracks, durRel t = 0) :
    ∃ tb, splitBars ppqn values tracks metaIdx false = .ok tb ∧ tb.length = tracks.length ∧ ∀ bs ∈ tb, bs.length = 1 := by
  obtain ⟨tb, h⟩ := split_bars_succeeds ppqn values tracks metaIdx metaTrack hm hw hpos hal hd hag
  exact ⟨tb, h, one_round_of_empty ppqn values tracks metaIdx false tb h metaTrack hm hpos hd hal hw h0⟩

/-- the zero-length statement with re-quantisation **on** -/
def split_bars_zero_len_requant_statement : Prop :=
  ∀ (ppqn : Int) (values : List Int) (tracks : List (List Msg)) (metaIdx : Nat) (metaTrack : List Msg),
    tracks[metaIdx]? = some metaTrack → NonNegWaits metaTrack → DistinctTicks (sigsOf metaTrack) → (∀ v ∈ values, 0 < v) →
    barCapacity ppqn (C09.sigInForce (sigsOf metaTrack) 0).1 (C09.sigInForce (sigsOf metaTrack) 0).2 = 0 →
    ∀ t ∈ tracks, NonNegWaits t → WF t → 0 < durRel t →
      splitBars ppqn values tracks metaIdx true = .error .barError

/-- a one-tick note under 1/128 -/
def exZeroShort : List Msg := [Msg.mkTimeSig 0 1 128 pyNone, Msg.mkOn 0 60 64 pyNone, Msg.mkWait 0 1, Msg.mkOff 0 60 pyNone]

/-- **refuted**: with re-quantisation on and the library's note values (shortest 4 ticks), a one-tick note in a
    zero-length bar is removed by the re-quantiser, the emptied piece fits the bar of length 0, and the call returns one
    empty bar instead of raising: the music is dropped silently.  The real implementation does the same (replayed). -/
theorem split_bars_zero_len_requant_statement_false : ¬ split_bars_zero_len_requant_statement := by
  intro hS
  have := hS 24 [24, 12, 6, 16, 8, 4, 36, 18, 9] [exZeroShort] 0 exZeroShort rfl (by unfold NonNegWaits; decide)
    (by decide +kernel) (by decide) (by decide +kernel) exZeroShort (by simp) (by unfold NonNegWaits; decide)
    (wf_of_keys _ (by decide)) (by decide)
  have hok : isOk (splitBars 24 [24, 12, 6, 16, 8, 4, 36, 18, 9] [exZeroShort] 0 true) = true := by decide +kernel
  rw [this] at hok
  cases hok

/-- `tracks[metaIdx]` does not exist: `IndexError`.  Closes audit item A6(b) (failure branch). -/
theorem split_bars_bad_meta (ppqn : Int) (values : List Int) (tracks : List (List Msg)) (metaIdx : Nat) (requant : Bool)
    (h : tracks[metaIdx]? = none) : splitBars ppqn values tracks metaIdx requant = .error .indexError := by
  simp [splitBars, h]

/-! ## non-vacuity -/

/-- a meta track with a key change on bar 1, a mid-piece signature change (3/4 → 2/4 at tick 144), a note crossing a
    bar line and a signature on its final boundary (4/4 at tick 192) -/
def exMetaIn : List Msg :=
  [Msg.mkTimeSig 0 3 4 pyNone, Msg.mkOn 0 60 64 pyNone, Msg.mkWait 0 72, ksMsg 1, Msg.mkWait 0 24, Msg.mkOff 0 60 pyNone,
   Msg.mkWait 0 48, Msg.mkTimeSig 0 2 4 pyNone, Msg.mkWait 0 48, Msg.mkTimeSig 0 4 4 pyNone]
/-- a short side track that repeats the signature in force inside bar 1 -/
def exSide : List Msg := [Msg.mkWait 0 80, Msg.mkTimeSig 0 3 4 pyNone, Msg.mkOn 0 48 64 pyNone, Msg.mkWait 0 12, Msg.mkOff 0 48 pyNone]
/-- a side track longer than the meta track (so the signature on the meta track's final boundary takes effect) -/
def exLong : List Msg := [Msg.mkWait 0 250]

/-- the existing `C09.exMeta` is not aligned (its key change sits at tick 96, inside bar 1 = [72,144)) -/
example : ¬ AlignedIn 24 (sigsOf C09.exMeta) (keysOf C09.exMeta) := by
  rw [← alignedInB_iff 24 _ _ (by decide +kernel)]
  decide +kernel

example : (sigsOf exMetaIn).map (fun m => (m.time, m.num, m.den)) = [(0, 3, 4), (144, 2, 4), (192, 4, 4)]
    ∧ (keysOf exMetaIn).map (fun m => (m.time, m.key)) = [(72, 1)]
    ∧ (List.range 5).map (gridStart 24 (sigsOf exMetaIn)) = [0, 72, 144, 192, 288] := by decide +kernel

private theorem ex_pos : PosBars 24 (sigsOf exMetaIn) := by decide +kernel
private theorem ex_aligned : AlignedIn 24 (sigsOf exMetaIn) (keysOf exMetaIn) := alignedIn_of_B _ _ _ (by decide +kernel)
private theorem ex_distinct : DistinctTicks (sigsOf exMetaIn) ∧ DistinctTicks (keysOf exMetaIn) := by decide +kernel
private theorem ex_waits : ∀ t ∈ [exMetaIn, exSide, exLong], NonNegWaits t := by unfold NonNegWaits; decide
private theorem ex_agree : ∀ (i : Nat) (t : List Msg), [exMetaIn, exSide, exLong][i]? = some t → i ≠ 0 →
    SigsAgree (sigsOf exMetaIn) t := by
  intro i t hi hne
  rcases i with _ | _ | _ | i
  · exact absurd rfl hne
  · cases hi; decide +kernel
  · cases hi; decide +kernel
  · simp at hi
private theorem ex_wf : (∀ t ∈ [exMetaIn, exSide, exLong], WF t) ∧ ∀ t ∈ [exMetaIn, exSide, exLong], NoZeroNotes t := by
  constructor
  · intro t ht
    simp only [List.mem_cons, List.not_mem_nil, or_false] at ht
    rcases ht with rfl | rfl | rfl
    · exact wf_of_keys _ (by decide)
    · exact wf_of_keys _ (by decide)
    · exact wf_of_keys _ (by decide)
  · intro t ht
    simp only [List.mem_cons, List.not_mem_nil, or_false] at ht
    rcases ht with rfl | rfl | rfl
    · exact noZero_of_keys _ (by decide)
    · exact noZero_of_keys _ (by decide)
    · exact noZero_of_keys _ (by decide)

/-- `sigsOf_roll` / `keysOf_roll` apply to the example: its change events are those of the `Roll` semantics -/
example : sigsOf exMetaIn = (eventsRel exMetaIn).filter (·.ty == .timeSignature)
    ∧ keysOf exMetaIn = (eventsRel exMetaIn).filter (·.ty == .keySignature) :=
  ⟨sigsOf_roll exMetaIn (by decide +kernel), keysOf_roll exMetaIn (by decide +kernel)⟩

/-- the hypotheses of `split_bars_succeeds` / `split_bars_spec` / `bar_signature_in` / `bar_key_in` hold on the example -/
example : ∃ tb, splitBars 24 [6, 12, 24] [exMetaIn, exSide, exLong] 0 false = .ok tb :=
  split_bars_succeeds 24 [6, 12, 24] [exMetaIn, exSide, exLong] 0 exMetaIn rfl ex_waits ex_pos ex_aligned.1 ex_distinct.1 ex_agree

/-- … and those of `split_bars_succeeds_requant` -/
example : ∃ tb, splitBars 24 [6, 12, 24] [exMetaIn, exSide, exLong] 0 true = .ok tb :=
  split_bars_succeeds_requant 24 [6, 12, 24] [exMetaIn, exSide, exLong] 0 exMetaIn rfl (by decide) ex_waits ex_wf.1 ex_wf.2
    ex_pos ex_aligned.1 ex_distinct.1 ex_agree

/-- the conclusion evaluated: every track gets the bars 3/4, 3/4 (key 1 from here on), 2/4, 4/4 — the spec side
    (`sigInForce` / `keyInForce` at `gridStart k`) and the model side agree -/
example : (outOf (splitBars 24 [6, 12, 24] [exMetaIn, exSide, exLong] 0 false)).map
      (fun bs => bs.map (fun b => (b.num, b.den, b.key, durRel b.seq)))
    = List.replicate 3 ((List.range 4).map (fun k =>
        ((C09.sigInForce (sigsOf exMetaIn) (gridStart 24 (sigsOf exMetaIn) k)).1,
         (C09.sigInForce (sigsOf exMetaIn) (gridStart 24 (sigsOf exMetaIn) k)).2,
         C09.keyInForce (keysOf exMetaIn) (gridStart 24 (sigsOf exMetaIn) k),
         barCapacity 24 (C09.sigInForce (sigsOf exMetaIn) (gridStart 24 (sigsOf exMetaIn) k)).1
           (C09.sigInForce (sigsOf exMetaIn) (gridStart 24 (sigsOf exMetaIn) k)).2)))
    ∧ (List.range 4).map (fun k => (C09.sigInForce (sigsOf exMetaIn) (gridStart 24 (sigsOf exMetaIn) k),
         C09.keyInForce (keysOf exMetaIn) (gridStart 24 (sigsOf exMetaIn) k)))
      = [((3, 4), pyNone), ((3, 4), 1), ((2, 4), 1), ((4, 4), 1)] := by
  decide +kernel

/-- zero-length bars: 1/128 at 24 ticks per quarter has capacity 0; the hypotheses of `split_bars_zero_len` and of
    `split_bars_zero_len_at` (bar 1 after one 4/4 bar) hold on these inputs, and the model raises `BarException` -/
def exZero : List Msg := [Msg.mkTimeSig 0 1 128 pyNone, Msg.mkOn 0 60 64 pyNone, Msg.mkWait 0 10, Msg.mkOff 0 60 pyNone]
def exZeroLate : List Msg := [Msg.mkWait 0 96, Msg.mkTimeSig 0 1 128 pyNone, Msg.mkWait 0 10]

example : barCapacity 24 1 128 = 0 := by decide

example : splitBars 24 [] [exZero] 0 false = .error .barError :=
  split_bars_zero_len 24 [] [exZero] 0 exZero rfl (by unfold NonNegWaits; decide) (by decide +kernel) (by decide +kernel)
    exZero (by simp) (by unfold NonNegWaits; decide) (by decide)

example : splitBars 24 [] [exZeroLate] 0 false = .error .barError :=
  split_bars_zero_len_at 24 [] [exZeroLate] 0 exZeroLate rfl (by decide +kernel)
    (alignedIn_of_B _ _ [] (by decide +kernel)).1 (by decide +kernel) 1 (by decide +kernel)
    exZeroLate (by simp) (by unfold NonNegWaits; decide) (by decide +kernel)

/-- the complementary branch, evaluated: a zero-length first bar with nothing to split yields one empty bar per track -/
example : (outOf (splitBars 24 [] [[Msg.mkTimeSig 0 1 128 pyNone], []] 0 false)).map
      (fun bs => bs.map (fun b => (b.num, b.den, b.key, durRel b.seq)))
    = [[(1, 128, pyNone, 0)], [(1, 128, pyNone, 0)]] := by decide +kernel

/-- `split_bars_all_empty` on a concrete input: a meta track holding only a 3/4 signature, and an empty track -/
example : ∃ tb, splitBars 24 [] [[Msg.mkTimeSig 0 3 4 pyNone], []] 0 false = .ok tb ∧ tb.length = 2 ∧ ∀ bs ∈ tb, bs.length = 1 :=
  split_bars_all_empty 24 [] [[Msg.mkTimeSig 0 3 4 pyNone], []] 0 [Msg.mkTimeSig 0 3 4 pyNone] rfl
    (by unfold NonNegWaits; decide) (by decide +kernel) (alignedIn_of_B _ _ [] (by decide +kernel)).1 (by decide +kernel)
    (by
      intro i t hi hne
      rcases i with _ | _ | i
      · exact absurd rfl hne
      · cases hi; decide +kernel
      · simp at hi)
    (by decide)

/-- `split_bars_bad_meta` on a concrete input -/
example : splitBars 24 [] [exLong] 3 false = .error .indexError := split_bars_bad_meta 24 [] [exLong] 3 false rfl

end SCoda.Strong589
