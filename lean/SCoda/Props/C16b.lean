/-
  C16, classification clause — the derivation routes return fresh values.
  `Gen.aliasFns` (regenerated from /repo on every run) describes the eight derivation routes of the
  property (Message.copy, AbstractSequence.copy, Sequence.copy, Sequence.split,
  Sequence.sequences_split_bars, Bar.copy, Track.copy, Composition.copy): per function its assignments
  and return expressions as (variables read, reads a *source*?), where a source is `self` or a
  non-scalar parameter, and where the translator does not descend into `<x>.copy()` (fresh by the copy
  contract, which the copy methods in this very list must meet), scalar attribute reads, constants,
  comparisons and subscript indices.  A variable is *maybe-shared* if some assignment to it reads a
  source or a maybe-shared variable.  The certificate (maybe-shared variables per function) is
  re-checked here; `derivations_return_fresh` says that under it no return expression is maybe-shared.

  Together with the heap theorems of `Props/C16` (`derive_disjoint`, `frame`, `independent`) this is the
  classification the property needs: what the routes return shares no mutable object with what existed
  (freshness), and an operation can only write what it reaches (Python's memory model, `frame`), with no
  module-level state in the modelled files (`no_global_state`).
  Trusted: the typing rules above as a description of Python aliasing, and the translator's parse.
  The identity / reachability harness (harness/props/C16.py) checks the same on the real objects.
-/
import SCoda.Gen.AliasFacts
import SCoda.Props.C11c
set_option maxRecDepth 100000
namespace SCoda.C16
open SCoda.Gen SCoda.C11

/-- the certificate is closed under the assignments of the function -/
def closedAssigns (fn : TaintFn) : Bool :=
  fn.assigns.all (fun a => !infoTainted fn.cert [] a.2 || fn.cert.contains a.1)

/-- the certificate is a solution of the freshness rules -/
theorem alias_cert_closed : aliasFns.all closedAssigns = true := by decide +kernel

/-- **every derivation route returns a value that shares nothing with what existed** -/
theorem derivations_return_fresh : aliasFns.all (sinksClean []) = true := by decide +kernel

/-- all eight routes of the property are present (a route cannot silently drop out of the analysis),
    each with at least one return expression -/
theorem derivations_seen :
    aliasRoutes = ["Message.copy", "AbstractSequence.copy", "Sequence.copy", "Sequence.split",
      "Sequence.sequences_split_bars", "Bar.copy", "Track.copy", "Composition.copy"]
    ∧ aliasFns.length = 8 ∧ aliasFns.all (fun fn => !fn.sinks.isEmpty) = true := by decide +kernel

/-- the analysis is not vacuous: sources are seen (some variables are maybe-shared) -/
theorem sources_seen : 4 ≤ (aliasFns.map (fun f => f.cert.length)).foldl (· + ·) 0 := by decide +kernel

/-- no function of the modelled files declares module-level (`global`) state -/
theorem no_global_state : globalWrites = [] := by decide +kernel

end SCoda.C16
