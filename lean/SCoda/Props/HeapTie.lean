/-
  The identity model of C16 (`Model/HeapOps.lean`) tied to the source BY TRANSLATION.

  `tools/py2lean_heap.py` re-reads the Python source on every run and prints, statement by statement and with respect
  to object identity (allocation of new objects, stores into attributes and lists of existing objects, which references
  are returned), the derivation routes of C16 into `Gen/HeapFns.lean`, over the cell heap of `HeapOps`, in the monad
  `HeapLib.HM` (heap + exceptions).  This file proves that running a generated function EQUALS the `HeapOps` step the
  theorems of `Props/C16c.lean` are about — same heap, same returned identities, not merely up to renaming: the
  translation allocates in the order of the Python statements, and where that order differs from the hand model's
  (`Sequence()` allocates the wrapper before its `AbsoluteSequence`, the model after) the cells are of different kinds,
  so the heaps are equal — and then transfers the freshness facts `C16c.derive_fresh_*` to the translated routes.

  Hypotheses (all decidable conditions on the INPUT heap; each excluded point is replayed on the real code in the report):
  * no dangling identity and existing views for flags that say "not stale" (`SeqCopyOk`, …): on other heaps the code raises
    `AttributeError` / "Sequence references stale", where the total hand model continues;
  * every message that is copied has a channel: `Message.__init__` replaces a `None` channel by 0, `HeapOps.msgCopy` copies
    the value (`messageCopy_eq_statement_false`).

  Value-level scalars: the constructor parameter `default_channel` of `Bar` stands behind the tag; its only use is the channel of
  the TIME_SIGNATURE message `Bar.__init__` inserts, whose VALUE is the oracle's `tsMsg`, exactly as in `HeapOps.barFinish`.
  `Bar.copy` (second repair of D37) computes that argument from the bar's own leading time-signature message, which it finds by
  READING `self.sequence.rel`: at identity level a call of the translated `rel` property on the SOURCE's wrapper — a plain read
  when the relative view is not stale (the case `barCopy_eq` covers: `BarCopyOk`), the regeneration of the view otherwise
  (`HeapOps.barCopy` models it by `readRel`; `C16c.derive_fresh_barCopy` has the allowance "the source may be written, but only
  in cells reachable from it").  A source that stores the channel in an attribute of the bar (commit f9ef398) is refused by the
  translator.

  Tied here: `Message.copy`, `AbstractSequence.copy`, `Sequence.__init__` / `copy` / `split` (the wrapper), `Bar.__init__` / `copy`,
  `Bar.to_sequence`, `Track.__init__` / `copy`, `Composition.copy`.  Still tied by the sampled correspondence only:
  `RelativeSequence.split` itself and the other view-level links of `Model/HeapLib.lean`, and `Sequence.sequences_split_bars`
  (`HeapOps.splitBars`; its constituent steps — `Sequence.copy`, `Sequence(relative_sequence=…)`, `Sequence()`, `Bar(…)` — are the
  translated functions above, its loop skeleton is not translated).
-/
import SCoda.Lemmas.HeapTieL2
import SCoda.Props.C16c
namespace SCoda.HeapTie
open SCoda SCoda.HeapOps SCoda.HeapLib SCoda.Gen.HeapFns SCoda.HeapTieL SCoda.C16c

/-! ## route (1): `Message.copy`, `AbstractSequence.copy`, `Sequence.copy` -/

/-- the translated `Message.copy` IS `msgCopy`: one new message cell with the source's field values, nothing else written,
    its identity returned.  Hypothesis: the source message has a channel. (A2, tie of the identity model) -/
theorem messageCopy_eq (g : GOrc) (tag i : Nat) (h : Heap) (hch : (h.msg i).ch ≠ pyNone) :
    messageCopy g tag i h = (.ok (msgCopy h i).2, (msgCopy h i).1) := by
  rw [messageCopy_run, normCh_of_ok hch]; rfl

/-- without the hypothesis the equality is false -/
def messageCopy_eq_statement : Prop :=
  ∀ (g : GOrc) (tag i : Nat) (h : Heap), messageCopy g tag i h = (.ok (msgCopy h i).2, (msgCopy h i).1)

/-- a heap with one message whose channel is `None` -/
def noChannelHeap : Heap := (Heap.empty.newMsg { ty := .noteOn, ch := pyNone, note := 60, vel := 64 }).1

/-- counter-example: the copy of a message whose channel is `None` has channel 0 in the translated code (and in the real
    code: replayed), channel `None` in the hand model -/
theorem messageCopy_eq_statement_false : ¬ messageCopy_eq_statement := by
  intro hst
  have h1 := hst ⟨C16c.exOrc, fun _ _ => false⟩ 0 0 noChannelHeap
  have h2 : ((messageCopy ⟨C16c.exOrc, fun _ _ => false⟩ 0 0 noChannelHeap).2.msg 1).ch = 0 := by
    rw [messageCopy_run]; decide
  rw [h1] at h2
  revert h2
  decide

example : (C16c.exHeap.msg 0).ch ≠ pyNone := by decide

/-- the translated `AbstractSequence.copy` IS `copyView`: a new view object whose list holds new messages, one per message
    of the source, in order.  Hypothesis: the view exists, its messages exist and have a channel. (A2) -/
theorem abstractSequenceCopy_eq (g : GOrc) (tag l : Nat) (h : Heap) (hok : ViewOk h l) :
    abstractSequenceCopy g tag l h = (.ok (copyView h l).2, (copyView h l).1) :=
  abstractSequenceCopy_run g tag l h hok.2

/-- the translated `Sequence.copy` IS `seqCopy` (the step of `HOp.seqCopy`): exactly the non-stale views are copied,
    message by message, and a new wrapper holds the copies with the source's flags.  Hypothesis `SeqCopyOk`. (A2) -/
theorem sequenceCopy_eq (g : GOrc) (tag s : Nat) (h : Heap) (hok : SeqCopyOk h s) :
    sequenceCopy g tag s h = (.ok (seqCopy h s).2, (seqCopy h s).1) :=
  sequenceCopy_run g tag s h hok

example : SeqCopyOk C16c.exHeap 0 :=
  ⟨fun hf => absurd hf (by decide), fun _ => ⟨0, by decide, by decide, by unfold IdsOk; decide⟩⟩

/-- `derive_fresh_seqCopy` for the TRANSLATED `Sequence.copy`: the call returns normally, every cell reachable from the
    returned wrapper was allocated by the call, and no existing cell is written. (A2) -/
theorem sequenceCopy_fresh (g : GOrc) (tag s : Nat) (h : Heap) (hok : SeqCopyOk h s) :
    ∃ r h', sequenceCopy g tag s h = (.ok r, h') ∧ FreshCells h h' (reach h' (.seq, r))
      ∧ ∀ c, h.alloc c → h'.get c = h.get c :=
  ⟨_, _, sequenceCopy_eq g tag s h hok, derive_fresh_seqCopy h s⟩

/-- the same for the translated `Message.copy` -/
theorem messageCopy_fresh (g : GOrc) (tag i : Nat) (h : Heap) (hch : (h.msg i).ch ≠ pyNone) :
    ∃ r h', messageCopy g tag i h = (.ok r, h') ∧ FreshCells h h' (reach h' (.msg, r))
      ∧ ∀ c, h.alloc c → h'.get c = h.get c :=
  ⟨_, _, messageCopy_eq g tag i h hch, derive_fresh_msgCopy h i⟩

/-! ## route (3): `Bar.__init__`, `Bar.copy` -/

/-- the translated `Bar(sequence, numerator, denominator, key)` — a blank bar cell, then the translated `Bar.__init__`
    (attribute stores, `normalise`, the `messages_rel()` iterations, the optional `pad`, `overwrite_relative_messages` of
    the kept message objects, the new TIME_SIGNATURE message (value: the oracle's `tsMsg`) inserted at index 0,
    `_abs_stale = True`) — IS `HeapOps.barInit`
    under the oracle `orcOf g`: the bar KEEPS the argument sequence object and rewrites it.
    Hypothesis: `sequence.rel` can be read (`SeqLive`; otherwise the code raises "Sequence references stale"). (A2) -/
theorem barInit_eq (g : GOrc) (tag s : Nat) (num den key : Int) (h : Heap) (hl : SeqLive h s) :
    (do let b ← newBarObj; Gen.HeapFns.barInit g tag b s num den key; pure b : HM Nat) h
      = (.ok (HeapOps.barInit (orcOf g) tag h s num den key).2, (HeapOps.barInit (orcOf g) tag h s num den key).1) := by
  simp only [run_bind, newBarObj, run_alloc, bindRes_ok, newBar_snd, barNew_run g tag s num den key h hl, run_pure]
  rfl

/-- the hypothesis of `Bar.copy`: the bar's sequence can be copied (`SeqCopyOk`) and its RELATIVE VIEW IS NOT STALE — the state
    `Bar.__init__`, `set_channel` and `transpose` without octave wrap leave a bar in.  `Bar.copy` reads `self.sequence.rel`
    (bar.py:59) before it copies: with a stale relative view that read rewrites the SOURCE's wrapper (modelled by
    `HeapOps.barCopy`, covered by `C16c.derive_fresh_barCopy`, not by this equality); with both views stale it raises. -/
def BarCopyOk (h : Heap) (b : Nat) : Prop := SeqCopyOk h (h.bar b).seq ∧ (h.seq (h.bar b).seq).relStale = false

/-- the translated `Bar.copy` IS `HeapOps.barCopy` (the step of `HOp.barCopy`) under `orcOf g`: the relative view of the source
    is read (`self.sequence.rel`; not stale: nothing is written), the sequence is copied (`Sequence.copy`), a NEW bar is
    constructed on the copy, with the source's signature and key. (A2) -/
theorem barCopy_eq (g : GOrc) (tag b : Nat) (h : Heap) (hok : BarCopyOk h b) :
    Gen.HeapFns.barCopy g tag b h
      = (.ok (HeapOps.barCopy (orcOf g) tag h b).2, (HeapOps.barCopy (orcOf g) tag h b).1) :=
  barCopy_run g tag b h hok.1 hok.2

/-- `exState` of C16c holds a sequence, its copy, a bar (cell 0) and a copy of that bar -/
example : BarCopyOk C16c.exState.1 0 := by
  exact ⟨⟨fun hf => absurd hf (by decide), fun _ => ⟨8, by decide, by decide, by unfold IdsOk; decide⟩⟩, by decide⟩

/-- freshness for the TRANSLATED `Bar.copy` of a bar whose relative view is not stale: the call returns normally; the bar, its
    sequence, the views and the messages reachable from the returned bar were all allocated by the call; NO existing cell is
    written (the read of the relative view is a plain read). (A2) -/
theorem barCopy_fresh (g : GOrc) (tag b : Nat) (h : Heap) (hok : BarCopyOk h b) :
    ∃ r h', Gen.HeapFns.barCopy g tag b h = (.ok r, h') ∧ FreshCells h h' (reach h' (.bar, r))
      ∧ ∀ c, h.alloc c → h'.get c = h.get c :=
  ⟨_, _, barCopy_eq g tag b h hok, fresh_of_spec (barCopy_spec_fresh (orcOf g) tag (HeapL.good_fresh h) hok.2)⟩

/-- … and for a source with no dangling identity, whatever the state of its relative view, the MODEL step has the allowance of
    `Sequence.split`: the copy is made of new cells not reachable from the source, and the source is written only in cells
    reachable from it (its wrapper, when the stale relative view is regenerated) — `C16c.derive_fresh_barCopy`, restated here
    beside the equality it complements -/
theorem barCopy_model_fresh (o : Orc) (tag b : Nat) (h : Heap) (hall : AllocAll h [(.bar, b)]) :
    FreshCells h (HeapOps.barCopy o tag h b).1 (reach (HeapOps.barCopy o tag h b).1 (.bar, (HeapOps.barCopy o tag h b).2))
      ∧ Disjoint (reach (HeapOps.barCopy o tag h b).1 (.bar, (HeapOps.barCopy o tag h b).2)) (reach (HeapOps.barCopy o tag h b).1 (.bar, b))
      ∧ ∀ c, h.alloc c → c ∉ reach h (.bar, b) → (HeapOps.barCopy o tag h b).1.get c = h.get c :=
  derive_fresh_barCopy o tag h b hall

/-! ## route (2): `Sequence.split` (the wrapper; `RelativeSequence.split` itself is a LINK, see the file header) -/

/-- the pieces `RelativeSequence.split` returned exist and their messages exist and have a channel (a condition on the
    linked `splitView`, i.e. on the oracle's `splitPlan`: its `keep` positions are in range, its fresh messages have a channel —
    `Message.__init__` guarantees the latter in the code) -/
def PiecesOk (g : GOrc) (tag : Nat) (h : Heap) (s : Nat) : Prop :=
  match (getRel g.orc h s).2 with
  | some l => ∀ p ∈ (splitView (g.orc.splitPlan tag) (getRel g.orc h s).1 l).2,
      ViewOk (splitView (g.orc.splitPlan tag) (getRel g.orc h s).1 l).1 p
  | none => False

/-- the translated `Sequence.split` IS `HeapOps.split` (the step of `HOp.split`, after the repair of D13): the relative view is
    read (regenerated if stale), split by the LINKED `RelativeSequence.split`, and every piece is COPIED — message by message,
    into a new view — before it is wrapped in a new `Sequence`.  Hypothesis `PiecesOk`. (A2) -/
theorem sequenceSplit_eq (g : GOrc) (tag s : Nat) (h : Heap) (hp : PiecesOk g tag h s) :
    sequenceSplit g tag s h = (.ok (HeapOps.split g.orc tag h s).2, (HeapOps.split g.orc tag h s).1) := by
  unfold sequenceSplit HeapOps.split relSplit
  unfold PiecesOk at hp
  simp only [run_bind]
  rw [sequenceRel_deref]
  cases hv : (getRel g.orc h s).2 with
  | none => simp [hv] at hp
  | some l =>
    simp only [hv] at hp ⊢
    simp only [run_bind, run_alloc, bindRes_ok, mapM_wrapCopies g tag _ _ hp, run_pure]

/-- `derive_fresh_split` for the TRANSLATED `Sequence.split`: the call returns normally and every piece reaches only cells
    the call allocated, none of them reachable from the source afterwards; cells not reachable from the source are
    unchanged.  Hypotheses: the source has no dangling identity, `PiecesOk`. (A2) -/
theorem sequenceSplit_fresh (g : GOrc) (tag s : Nat) (h : Heap) (hall : AllocAll h [(.seq, s)]) (hp : PiecesOk g tag h s) :
    ∃ ps h', sequenceSplit g tag s h = (.ok ps, h')
      ∧ (∀ p ∈ ps, ∀ c ∈ reach h' (.seq, p), ¬ h.alloc c ∧ h'.alloc c ∧ c ∉ reach h' (.seq, s))
      ∧ ∀ c, h.alloc c → c ∉ reach h (.seq, s) → h'.get c = h.get c :=
  ⟨_, _, sequenceSplit_eq g tag s h hp, derive_fresh_split g.orc tag h s hall⟩

example : PiecesOk ⟨C16c.exOrc, fun _ _ => false⟩ 0 C16c.exHeap 0 := by
  unfold PiecesOk
  have hg : getRel C16c.exOrc C16c.exHeap 0 = (C16c.exHeap, some 0) :=
    getRel_of_live ⟨by decide, by decide⟩
  simp only [hg]
  have hps : (splitView (C16c.exOrc.splitPlan 0) C16c.exHeap 0).2 = [1] := by decide
  intro p hp
  rw [hps] at hp
  simp only [List.mem_singleton] at hp
  subst hp
  exact ⟨by decide, by unfold IdsOk; decide⟩

/-! ## route (3), continued: `Track.__init__` / `Track.copy`, `Composition.copy` -/

/-- the translated `Track(bars, name)` — a blank track cell, then the translated `Track.__init__` (attribute stores; the
    track takes over the list of bars; `Bar.to_sequence(bars)`: a new `Sequence` whose relative view is extended with the
    bars' message OBJECTS; the `messages_rel()` iteration; the program of the first PROGRAM_CHANGE) — IS `HeapOps.trkInit`
    under `orcOf g`.  Hypothesis: the sequences of the bars exist and can be read. (A2) -/
theorem trackInit_eq (g : GOrc) (tag : Nat) (bars : List Nat) (name : Int) (h : Heap)
    (hb : ∀ b ∈ bars, (h.bar b).seq < h.nSeq ∧ SeqLive h (h.bar b).seq) :
    (do let t ← newTrack; trackInit g tag t bars name; pure t : HM Nat) h
      = (.ok (trkInit (orcOf g) tag h bars name).2, (trkInit (orcOf g) tag h bars name).1) := by
  simp only [run_bind, newTrack, run_alloc, bindRes_ok, newTrk_snd, trackNew_run g tag bars name h hb, run_pure]
  rfl

/-- the translated `Track.copy` IS `HeapOps.trkCopy` (the step of `HOp.trkCopy`) under `orcOf g`: every bar is copied by
    `Bar.copy` (in order; a bar listed twice is copied twice), a NEW track is constructed on the list of the copies, with the
    source's name.  Hypothesis `TrkOk`: the track exists, each of its bars exists, the bar's sequence exists, satisfies
    `SeqCopyOk` and has a relative view that is not stale (`BarOk`). (A2) -/
theorem trackCopy_eq (g : GOrc) (tag t : Nat) (h : Heap) (hok : TrkOk h t) :
    trackCopy g tag t h = (.ok (trkCopy (orcOf g) tag h t).2, (trkCopy (orcOf g) tag h t).1) :=
  trackCopy_run g tag t h hok

/-- the translated `Composition.copy` IS `HeapOps.cmpCopy` (the step of `HOp.cmpCopy`) under `orcOf g`: every track is copied
    by `Track.copy`, a NEW composition holds the list of the copies.  Hypothesis: every track satisfies `TrkOk`. (A2) -/
theorem compositionCopy_eq (g : GOrc) (tag c : Nat) (h : Heap) (hok : ∀ t ∈ h.cmp c, TrkOk h t) :
    compositionCopy g tag c h = (.ok (cmpCopy (orcOf g) tag h c).2, (cmpCopy (orcOf g) tag h c).1) :=
  compositionCopy_run g tag c h hok

/-- freshness for the TRANSLATED `Track.copy` of a track whose bars' relative views are not stale (`TrkOk`): every cell of the copy
    is new, no existing cell is written. (A2) -/
theorem trackCopy_fresh (g : GOrc) (tag t : Nat) (h : Heap) (hok : TrkOk h t) :
    ∃ r h', trackCopy g tag t h = (.ok r, h') ∧ FreshCells h h' (reach h' (.trk, r))
      ∧ ∀ c, h.alloc c → h'.get c = h.get c :=
  ⟨_, _, trackCopy_eq g tag t h hok, fresh_of_spec (trkCopy_spec_ok (orcOf g) tag (HeapL.good_fresh h) hok)⟩

/-- freshness for the TRANSLATED `Composition.copy` (every bar's relative view not stale). (A2) -/
theorem compositionCopy_fresh (g : GOrc) (tag c : Nat) (h : Heap) (hok : ∀ t ∈ h.cmp c, TrkOk h t) :
    ∃ r h', compositionCopy g tag c h = (.ok r, h') ∧ FreshCells h h' (reach h' (.cmp, r))
      ∧ ∀ c', h.alloc c' → h'.get c' = h.get c' :=
  ⟨_, _, compositionCopy_eq g tag c h hok, fresh_of_spec (cmpCopy_spec_ok (orcOf g) tag (HeapL.good_fresh h) hok)⟩

/-- `exState` with a track on its two bars (the first bar listed twice) and a composition of that track -/
def exTrackState : Heap :=
  let t := trkInit C16c.exOrc 7 C16c.exState.1 [0, 1, 0] pyNone
  (t.1.newCmp [t.2, t.2]).1

example : TrkOk exTrackState 0 := by decide
example : ∀ t ∈ exTrackState.cmp 0, TrkOk exTrackState t := by decide

end SCoda.HeapTie
