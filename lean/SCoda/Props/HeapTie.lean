/-
  The identity model of C16 (`Model/HeapOps.lean`) tied to the source BY TRANSLATION.

  `tools/py2lean_heap.py` re-reads the Python source on every run and prints, statement by statement and with respect
  to object identity (allocation of new objects, stores into attributes and lists of existing objects, which references
  are returned), the derivation routes of C16 into `Gen/HeapFns.lean`, over the cell heap of `HeapOps`, in the monad
  `HeapLib.HM` (heap + exceptions).  This file proves that running a generated function EQUALS the `HeapOps` step the
  theorems of `Props/C16c.lean` are about — same heap, same returned identities, not merely up to renaming: the
  translation allocates in the order of the Python statements, and where that order differs from the hand model's
  (`Sequence()` allocates the wrapper before its `AbsoluteSequence`, the model after) the cells are of different kinds,
  so the heaps are equal — and then transfers the freshness facts `C16c.derive_fresh_*` to the translated routes.

  Hypotheses (all decidable conditions on the INPUT heap; each excluded point is replayed on the real code in the report):
  * no dangling identity and existing views for flags that say "not stale" (`SeqCopyOk`, …): on other heaps the code raises
    `AttributeError` / "Sequence references stale", where the total hand model continues;
  * every message that is copied has a channel: `Message.__init__` replaces a `None` channel by 0, `HeapOps.msgCopy` copies
    the value (`messageCopy_eq_statement_false`).
-/
import SCoda.Lemmas.HeapTieL
import SCoda.Props.C16c
namespace SCoda.HeapTie
open SCoda SCoda.HeapOps SCoda.HeapLib SCoda.Gen.HeapFns SCoda.HeapTieL SCoda.C16c

/-! ## route (1): `Message.copy`, `AbstractSequence.copy`, `Sequence.copy` -/

/-- the translated `Message.copy` IS `msgCopy`: one new message cell with the source's field values, nothing else written,
    its identity returned.  Hypothesis: the source message has a channel. (A2, tie of the identity model) -/
theorem messageCopy_eq (g : GOrc) (tag i : Nat) (h : Heap) (hch : (h.msg i).ch ≠ pyNone) :
    messageCopy g tag i h = (.ok (msgCopy h i).2, (msgCopy h i).1) := by
  rw [messageCopy_run, normCh_of_ok hch]; rfl

/-- without the hypothesis the equality is false -/
def messageCopy_eq_statement : Prop :=
  ∀ (g : GOrc) (tag i : Nat) (h : Heap), messageCopy g tag i h = (.ok (msgCopy h i).2, (msgCopy h i).1)

/-- a heap with one message whose channel is `None` -/
def noChannelHeap : Heap := (Heap.empty.newMsg { ty := .noteOn, ch := pyNone, note := 60, vel := 64 }).1

/-- counter-example: the copy of a message whose channel is `None` has channel 0 in the translated code (and in the real
    code: replayed), channel `None` in the hand model -/
theorem messageCopy_eq_statement_false : ¬ messageCopy_eq_statement := by
  intro hst
  have h1 := hst ⟨C16c.exOrc, fun _ _ => false, fun _ _ => none⟩ 0 0 noChannelHeap
  have h2 : ((messageCopy ⟨C16c.exOrc, fun _ _ => false, fun _ _ => none⟩ 0 0 noChannelHeap).2.msg 1).ch = 0 := by
    rw [messageCopy_run]; decide
  rw [h1] at h2
  revert h2
  decide

example : (C16c.exHeap.msg 0).ch ≠ pyNone := by decide

/-- the translated `AbstractSequence.copy` IS `copyView`: a new view object whose list holds new messages, one per message
    of the source, in order.  Hypothesis: the view exists, its messages exist and have a channel. (A2) -/
theorem abstractSequenceCopy_eq (g : GOrc) (tag l : Nat) (h : Heap) (hok : ViewOk h l) :
    abstractSequenceCopy g tag l h = (.ok (copyView h l).2, (copyView h l).1) :=
  abstractSequenceCopy_run g tag l h hok.2

/-- the translated `Sequence.copy` IS `seqCopy` (the step of `HOp.seqCopy`): exactly the non-stale views are copied,
    message by message, and a new wrapper holds the copies with the source's flags.  Hypothesis `SeqCopyOk`. (A2) -/
theorem sequenceCopy_eq (g : GOrc) (tag s : Nat) (h : Heap) (hok : SeqCopyOk h s) :
    sequenceCopy g tag s h = (.ok (seqCopy h s).2, (seqCopy h s).1) :=
  sequenceCopy_run g tag s h hok

example : SeqCopyOk C16c.exHeap 0 :=
  ⟨fun hf => absurd hf (by decide), fun _ => ⟨0, by decide, by decide, by unfold IdsOk; decide⟩⟩

/-- `derive_fresh_seqCopy` for the TRANSLATED `Sequence.copy`: the call returns normally, every cell reachable from the
    returned wrapper was allocated by the call, and no existing cell is written. (A2) -/
theorem sequenceCopy_fresh (g : GOrc) (tag s : Nat) (h : Heap) (hok : SeqCopyOk h s) :
    ∃ r h', sequenceCopy g tag s h = (.ok r, h') ∧ FreshCells h h' (reach h' (.seq, r))
      ∧ ∀ c, h.alloc c → h'.get c = h.get c :=
  ⟨_, _, sequenceCopy_eq g tag s h hok, derive_fresh_seqCopy h s⟩

/-- the same for the translated `Message.copy` -/
theorem messageCopy_fresh (g : GOrc) (tag i : Nat) (h : Heap) (hch : (h.msg i).ch ≠ pyNone) :
    ∃ r h', messageCopy g tag i h = (.ok r, h') ∧ FreshCells h h' (reach h' (.msg, r))
      ∧ ∀ c, h.alloc c → h'.get c = h.get c :=
  ⟨_, _, messageCopy_eq g tag i h hch, derive_fresh_msgCopy h i⟩

/-! ## route (3): `Bar.__init__`, `Bar.copy` -/

/-- the translated `Bar(sequence, numerator, denominator, key)` — a blank bar cell, then the translated `Bar.__init__`
    (attribute stores, `normalise`, the `messages_rel()` iterations, the optional `pad`, `overwrite_relative_messages` of
    the kept message objects, the new TIME_SIGNATURE message inserted at index 0, `_abs_stale = True`) — IS `HeapOps.barInit`
    under the oracle `orcOf g`: the bar KEEPS the argument sequence object and rewrites it.
    Hypothesis: `sequence.rel` can be read (`SeqLive`; otherwise the code raises "Sequence references stale"). (A2) -/
theorem barInit_eq (g : GOrc) (tag s : Nat) (num den key : Int) (h : Heap) (hl : SeqLive h s) :
    (do let b ← newBarObj; Gen.HeapFns.barInit g tag b s num den key 0; pure b : HM Nat) h
      = (.ok (HeapOps.barInit (orcOf g) tag h s num den key).2, (HeapOps.barInit (orcOf g) tag h s num den key).1) := by
  simp only [run_bind, newBarObj, run_alloc, bindRes_ok, newBar_snd, barNew_run g tag s num den key h hl, run_pure]
  rfl

/-- the hypothesis of `Bar.copy`: the bar's sequence can be copied (`SeqCopyOk`).  (A bar whose sequence has BOTH views
    stale is copied to an EMPTY bar, in the code and in the model alike: `Sequence.copy` then builds `Sequence(None, None)`.) -/
def BarCopyOk (h : Heap) (b : Nat) : Prop := SeqCopyOk h (h.bar b).seq

/-- the translated `Bar.copy` IS `HeapOps.barCopy` (the step of `HOp.barCopy`) under `orcOf g`: the sequence is copied
    (`Sequence.copy`), a NEW bar is constructed on the copy, with the source's signature and key. (A2) -/
theorem barCopy_eq (g : GOrc) (tag b : Nat) (h : Heap) (hok : BarCopyOk h b) :
    Gen.HeapFns.barCopy g tag b h
      = (.ok (HeapOps.barCopy (orcOf g) tag h b).2, (HeapOps.barCopy (orcOf g) tag h b).1) := by
  unfold Gen.HeapFns.barCopy HeapOps.barCopy
  have hlive := seqCopy_live h (h.bar b).seq hok
  simp only [run_bind, run_get, bindRes_ok, sequenceCopy_run g tag _ h hok, newBarObj, run_alloc, newBar_snd, seqCopy_bar,
    barNew_run g tag _ _ _ _ _ hlive, run_pure]
  rfl

/-- `exState` of C16c holds a sequence, its copy, a bar (cell 0) and a copy of that bar -/
example : BarCopyOk C16c.exState.1 0 := by
  exact ⟨fun hf => absurd hf (by decide), fun _ => ⟨8, by decide, by decide, by unfold IdsOk; decide⟩⟩

/-- `derive_fresh_barCopy` for the TRANSLATED `Bar.copy`: the call returns normally; the bar, its sequence, the views and
    the messages reachable from the returned bar were all allocated by the call; no existing cell is written. (A2) -/
theorem barCopy_fresh (g : GOrc) (tag b : Nat) (h : Heap) (hok : BarCopyOk h b) :
    ∃ r h', Gen.HeapFns.barCopy g tag b h = (.ok r, h') ∧ FreshCells h h' (reach h' (.bar, r))
      ∧ ∀ c, h.alloc c → h'.get c = h.get c :=
  ⟨_, _, barCopy_eq g tag b h hok, derive_fresh_barCopy (orcOf g) tag h b⟩

/-! ## route (2): `Sequence.split` (the wrapper; `RelativeSequence.split` itself is a LINK, see the file header) -/

/-- the pieces `RelativeSequence.split` returned exist and their messages exist and have a channel (a condition on the
    linked `splitView`, i.e. on the oracle's `splitPlan`: its `keep` positions are in range, its fresh messages have a channel —
    `Message.__init__` guarantees the latter in the code) -/
def PiecesOk (g : GOrc) (tag : Nat) (h : Heap) (s : Nat) : Prop :=
  match (getRel g.orc h s).2 with
  | some l => ∀ p ∈ (splitView (g.orc.splitPlan tag) (getRel g.orc h s).1 l).2,
      ViewOk (splitView (g.orc.splitPlan tag) (getRel g.orc h s).1 l).1 p
  | none => False

/-- the translated `Sequence.split` IS `HeapOps.split` (the step of `HOp.split`, after the repair of D13): the relative view is
    read (regenerated if stale), split by the LINKED `RelativeSequence.split`, and every piece is COPIED — message by message,
    into a new view — before it is wrapped in a new `Sequence`.  Hypothesis `PiecesOk`. (A2) -/
theorem sequenceSplit_eq (g : GOrc) (tag s : Nat) (h : Heap) (hp : PiecesOk g tag h s) :
    sequenceSplit g tag s h = (.ok (HeapOps.split g.orc tag h s).2, (HeapOps.split g.orc tag h s).1) := by
  unfold sequenceSplit HeapOps.split relSplit
  unfold PiecesOk at hp
  simp only [run_bind]
  rw [sequenceRel_deref]
  cases hv : (getRel g.orc h s).2 with
  | none => simp [hv] at hp
  | some l =>
    simp only [hv] at hp ⊢
    simp only [run_bind, run_alloc, bindRes_ok, mapM_wrapCopies g tag _ _ hp, run_pure]

/-- `derive_fresh_split` for the TRANSLATED `Sequence.split`: the call returns normally and every piece reaches only cells
    the call allocated, none of them reachable from the source afterwards; cells not reachable from the source are
    unchanged.  Hypotheses: the source has no dangling identity, `PiecesOk`. (A2) -/
theorem sequenceSplit_fresh (g : GOrc) (tag s : Nat) (h : Heap) (hall : AllocAll h [(.seq, s)]) (hp : PiecesOk g tag h s) :
    ∃ ps h', sequenceSplit g tag s h = (.ok ps, h')
      ∧ (∀ p ∈ ps, ∀ c ∈ reach h' (.seq, p), ¬ h.alloc c ∧ h'.alloc c ∧ c ∉ reach h' (.seq, s))
      ∧ ∀ c, h.alloc c → c ∉ reach h (.seq, s) → h'.get c = h.get c :=
  ⟨_, _, sequenceSplit_eq g tag s h hp, derive_fresh_split g.orc tag h s hall⟩

example : PiecesOk ⟨C16c.exOrc, fun _ _ => false, fun _ _ => none⟩ 0 C16c.exHeap 0 := by
  unfold PiecesOk
  have hg : getRel C16c.exOrc C16c.exHeap 0 = (C16c.exHeap, some 0) :=
    getRel_of_live ⟨by decide, by decide⟩
  simp only [hg]
  have hps : (splitView (C16c.exOrc.splitPlan 0) C16c.exHeap 0).2 = [1] := by decide
  intro p hp
  rw [hps] at hp
  simp only [List.mem_singleton] at hp
  subst hp
  exact ⟨by decide, by unfold IdsOk; decide⟩

/-! ## routes still tied by sampling only (translated, differential-tested, NOT proved equal) -/

/-- `Track.copy` (translated: `Gen.HeapFns.trackCopy`, with `Track.__init__`, `Bar.to_sequence`, `Sequence.concatenate`,
    `RelativeSequence.concatenate`): the statement that would tie it to `HeapOps.trkCopy`; NOT proved -/
def trackCopy_eq_statement : Prop :=
  ∀ (g : GOrc) (tag t : Nat) (h : Heap), AllocAll h [(.trk, t)] → (∀ b ∈ (h.trk t).bars, BarCopyOk h b) →
    trackCopy g tag t h = (.ok (trkCopy (orcOf g) tag h t).2, (trkCopy (orcOf g) tag h t).1)

/-- `Composition.copy` (translated: `Gen.HeapFns.compositionCopy`); NOT proved -/
def compositionCopy_eq_statement : Prop :=
  ∀ (g : GOrc) (tag c : Nat) (h : Heap), AllocAll h [(.cmp, c)] →
    (∀ t ∈ h.cmp c, ∀ b ∈ (h.trk t).bars, BarCopyOk h b) →
    compositionCopy g tag c h = (.ok (cmpCopy (orcOf g) tag h c).2, (cmpCopy (orcOf g) tag h c).1)

end SCoda.HeapTie
