/-
  ABS TIE 2: the functions GENERATED from the Python source by tools/py2lean_abs2.py (Gen/AbsFns2.lean, namespace
  `SCoda.Gen.Abs2`) against the hand-written models of Model/Pairing.lean, Model/Quantise.lean, Model/Bar.lean.

  The generated code keeps `Message` objects in a heap (`List Msg`) and refers to them by position, so that stores through
  aliases (`cutoff`, `quantise`, `quantise_note_lengths`) are translated literally.  Every theorem is stated for the initial
  state "heap = the messages `a`, `_messages` = [0, …, n-1]" (`refsOf a`): every message of the sequence is its own object.
  The result of the generated function is read back through the final heap (`deref`).

  Links assumed (header of Gen/AbsFns2.lean): `list.sort ↦ sortRefs` (the stable insertion sort on the references),
  `get_default_step_sizes() ↦ Gen.defaultStepSizes`, `get_default_note_values() ↦ Gen.defaultNoteValues`.
-/
import SCoda.Lemmas.AbsTie2L
import SCoda.Lemmas.AbsTie2LC
import SCoda.Lemmas.AbsTie2LI
import SCoda.Lemmas.AbsTie2LE
import SCoda.Lemmas.AbsTie2LQ
import SCoda.Lemmas.AbsTie2LN
namespace SCoda.AbsTie2
open SCoda SCoda.Gen.Abs2 SCoda.AbsTie2L

/-! ### util.find_minimal_distance -/

/-- generated `find_minimal_distance` = hand model `findMinimalDistance` (as an `int`), all inputs. -/
theorem findMinimalDistance_eq (e : Int) (c : List Int) :
    Gen.Abs2.findMinimalDistance e c = .ok ((SCoda.findMinimalDistance e c : Nat) : Int) := by
  unfold Gen.Abs2.findMinimalDistance
  simp only []
  rw [pyEnumerate_eq, ViewTieL.forIn_spec' _ (fmdSpec e)]
  · obtain ⟨s, hs, h⟩ := fmdSpec_go e c 0 none
    simp only [fmdD, fmdI, Int.natCast_zero] at hs
    rw [hs]
    obtain ⟨r, d, i⟩ := s
    simp only [SCoda.findMinimalDistance, ← h]
    cases r <;> rfl
  · intro b; rfl
  · intro a as b
    obtain ⟨i, c⟩ := a
    obtain ⟨r, d, ix⟩ := b
    simp only [fmdSpec]
    split
    · split <;> rfl
    · rfl

example : Gen.Abs2.findMinimalDistance 7 [1, 9, 5, 7, 7] = .ok 3 ∧ Gen.Abs2.findMinimalDistance 7 [] = .ok 0
    ∧ Gen.Abs2.findMinimalDistance 7 [9, 5] = .ok 0 := by decide

/-! ### get_message_times_of_type -/

/-- generated `get_message_times_of_type`, any heap, references and list of types: the (time, reference) pairs of the
    messages whose type is listed, in order. -/
theorem getMessageTimesOfType_eq (h : Heap) (refs : List Nat) (ts : List MType) :
    Gen.Abs2.getMessageTimesOfType h refs ts
      = .ok ((refs.filter (fun r => ts.contains (hGet h r).ty)).map (fun r => ((hGet h r).time, r))) := by
  unfold Gen.Abs2.getMessageTimesOfType
  simp only []
  rw [ViewTieL.forIn_spec' _ (fun l st => pure (st ++ (l.filter (fun r => ts.contains (hGet h r).ty)).map (fun r => ((hGet h r).time, r))))]
  · simp; rfl
  · intro b; simp
  · intro a as b
    by_cases hc : (hGet h a).ty ∈ ts
    · simp [hc]
    · simp [hc]

/-- generated `get_message_times_of_type([ty])` = hand model `timesOfType ty` (Model/Bar.lean) on the referenced messages,
    any heap and references: the second components are the model's messages, the first their times. -/
theorem timesOfType_eq (h : Heap) (refs : List Nat) (ty : MType) :
    ∃ r, Gen.Abs2.getMessageTimesOfType h refs [ty] = .ok r ∧
      r.map (fun p => hGet h p.2) = SCoda.timesOfType ty (deref h refs) ∧
      r.map (·.1) = (SCoda.timesOfType ty (deref h refs)).map (·.time) := by
  have hf : refs.filter (fun r => [ty].contains (hGet h r).ty) = refs.filter ((fun m : Msg => m.ty == ty) ∘ hGet h) := by
    apply List.filter_congr
    intro x _
    simp only [List.contains_cons, List.contains_nil, Bool.or_false, Function.comp]
  refine ⟨_, getMessageTimesOfType_eq h refs [ty], ?_, ?_⟩
  · rw [hf]
    simp only [List.map_map, SCoda.timesOfType, deref, List.filter_map]
    rfl
  · rw [hf]
    simp only [List.map_map, SCoda.timesOfType, deref, List.filter_map]
    rfl

/-- the same on the initial state "every message is its own object" -/
theorem timesOfType_init (a : List Msg) (ty : MType) :
    ∃ r, Gen.Abs2.getMessageTimesOfType a (refsOf a) [ty] = .ok r ∧
      r.map (fun p => hGet a p.2) = SCoda.timesOfType ty a ∧ r.map (·.1) = (SCoda.timesOfType ty a).map (·.time) := by
  have := timesOfType_eq a (refsOf a) ty
  rwa [deref_refsOf] at this

example : Gen.Abs2.getMessageTimesOfType [{ ty := .timeSignature, time := 0, num := 3, den := 4 }, { ty := .noteOn, time := 2, note := 60 },
      { ty := .timeSignature, time := 9, num := 4, den := 4 }] [0, 1, 2] [.timeSignature] = .ok [(0, 0), (9, 2)] := by decide

/-! ### get_message_pairings -/

/-- every reference points into the heap -/
def RefsOk (h : Heap) (refs : List Nat) : Prop := ∀ r ∈ refs, r < h.length
/-- no message object has channel `None` (what `Message.__init__` guarantees; the side condition of Props/ViewTie.lean) -/
def HeapChOk (h : Heap) : Prop := ∀ m ∈ h, m.ch ≠ pyNone

instance (h : Heap) (refs : List Nat) : Decidable (RefsOk h refs) := by unfold RefsOk; infer_instance
instance (h : Heap) : Decidable (HeapChOk h) := by unfold HeapChOk; infer_instance

/-- generated `get_message_pairings(message_types, standard_length, impute_notes)` = hand model `pairings`:
    it succeeds, sorts `_messages` (linked sort), only ADDS objects to the heap (the imputed note-offs), and the returned
    table, read through the final heap, is the model's table (same channels in the same order, same pairings).
    Any heap and references into it; no channel `None`. -/
theorem pairings_eq (h : Heap) (refs : List Nat) (types : Option (List MType)) (std : Int) (impute : Bool)
    (hr : RefsOk h refs) (hc : HeapChOk h) :
    ∃ h' mp, Gen.Abs2.getMessagePairings h refs types std impute = .ok (h', sortRefs h refs, mp) ∧ (∃ x, h' = h ++ x) ∧
      mp.map (fun c => (c.1, c.2.map (deref h'))) = SCoda.pairings (types.getD notePairTypes) std impute (deref h refs) := by
  cases types with
  | none =>
    rw [gmp_none]
    obtain ⟨h', mp, h1, h2, h3, _⟩ := gmp_spec h refs _ std impute hr hc
    exact ⟨h', mp, h1, h2, h3⟩
  | some ts =>
    obtain ⟨h', mp, h1, h2, h3, _⟩ := gmp_spec h refs ts std impute hr hc
    exact ⟨h', mp, h1, h2, h3⟩

/-- the same on the initial state "every message is its own object": heap = `a`, `_messages` = [0, …, n-1] -/
theorem pairings_init (a : List Msg) (types : Option (List MType)) (std : Int) (impute : Bool) (hc : HeapChOk a) :
    ∃ h' mp, Gen.Abs2.getMessagePairings a (refsOf a) types std impute = .ok (h', sortRefs a (refsOf a), mp) ∧
      deref h' (sortRefs a (refsOf a)) = sortAbs a ∧
      mp.map (fun c => (c.1, c.2.map (deref h'))) = SCoda.pairings (types.getD notePairTypes) std impute a := by
  have hr : RefsOk a (refsOf a) := by intro r hr; simpa [refsOf] using hr
  obtain ⟨h', mp, h1, ⟨x, hx⟩, h3⟩ := pairings_eq a (refsOf a) types std impute hr hc
  refine ⟨h', mp, h1, ?_, by rw [h3, deref_refsOf]⟩
  rw [hx, deref_append_heap, deref_sortRefs, deref_refsOf]
  intro r hr'
  exact hr r ((mem_isort _ _ _).1 hr')

example : HeapChOk [{ ty := .noteOn, ch := 1, time := 0, note := 60, vel := 90 }, { ty := .noteOn, ch := 1, time := 4, note := 60, vel := 90 },
      { ty := .noteOff, ch := 1, time := 6, note := 60 }] ∧
    (Gen.Abs2.getMessagePairings [{ ty := .noteOn, ch := 1, time := 0, note := 60, vel := 90 }, { ty := .noteOn, ch := 1, time := 4, note := 60, vel := 90 },
      { ty := .noteOff, ch := 1, time := 6, note := 60 }] [0, 1, 2] none 24 true).map (·.2.2) = .ok [(1, [[0, 3], [1, 2]])] := by decide

/-! ### get_interleaved_message_pairings -/

/-- generated `get_interleaved_message_pairings` = hand model `interleaved`, for ALL inputs (source after the repair 1462441:
    `has_next = any(channel_cur_index[i] < channel_max_index[i] …)`).  It sorts `_messages` (linked sort), only adds objects to the
    heap, and the returned list, read through the final heap, is the model's list.  Any heap and references; no channel `None`. -/
theorem interleaved_eq (h : Heap) (refs : List Nat) (types : Option (List MType)) (std : Int) (impute : Bool)
    (hr : RefsOk h refs) (hc : HeapChOk h) :
    ∃ h' out, Gen.Abs2.getInterleavedMessagePairings h refs types std impute = .ok (h', sortRefs h refs, out) ∧
      (∃ x, h' = h ++ x) ∧
      out.map (fun x => (x.1, deref h' x.2)) = SCoda.interleaved (types.getD notePairTypes) std impute (deref h refs) := by
  have key : ∀ ts : List MType,
      ∃ h' out, Gen.Abs2.getInterleavedMessagePairings h refs (some ts) std impute = .ok (h', sortRefs h refs, out) ∧
        (∃ x, h' = h ++ x) ∧ out.map (fun x => (x.1, deref h' x.2)) = SCoda.interleaved ts std impute (deref h refs) := by
    intro ts
    obtain ⟨h', out, h1, h2, h3, _⟩ := gip_spec h refs ts std impute hr hc
    exact ⟨h', out, h1, h2, h3⟩
  cases types with
  | none => rw [gip_none]; exact key _
  | some ts => exact key ts

/-- FORMER FINDING (repaired in the source, commit 1462441): the table of pairings has channels but not a single pairing — every
    message of a listed type is a note-off that closes nothing.  There `get_interleaved_message_pairings` (and `equals`) used to
    raise IndexError (`has_next` started as `len(channel_pairings_list) > 0`), while the hand model `interleaved` returns `[]`. -/
def ChannelsWithoutPairings (types : List MType) (std : Int) (imp : Bool) (a : List Msg) : Prop :=
  pairings types std imp a ≠ [] ∧ ((pairings types std imp a).map (fun c => c.2.length)).sum = 0

instance (types : List MType) (std : Int) (imp : Bool) (a : List Msg) : Decidable (ChannelsWithoutPairings types std imp a) := by
  unfold ChannelsWithoutPairings; infer_instance

/-- the former finding as a predicate on the INPUT: `ChannelsWithoutPairings` holds exactly when some message has a listed type and
    every message of a listed type is a note-off (`OnlyOrphanOffs`, Lemmas/AbsTie2LI.lean). -/
theorem channelsWithoutPairings_input (types : List MType) (std : Int) (imp : Bool) (a : List Msg) :
    ChannelsWithoutPairings types std imp a ↔ OnlyOrphanOffs types a :=
  channelsWithoutPairings_iff types std imp a

/-- on those inputs the repaired code now returns the empty list, like the model -/
theorem interleaved_onlyOrphanOffs (h : Heap) (refs : List Nat) (types : Option (List MType)) (std : Int) (impute : Bool)
    (hr : RefsOk h refs) (hc : HeapChOk h) (ho : OnlyOrphanOffs (types.getD notePairTypes) (deref h refs)) :
    ∃ h', Gen.Abs2.getInterleavedMessagePairings h refs types std impute = .ok (h', sortRefs h refs, []) := by
  obtain ⟨h', out, h1, _, h3⟩ := interleaved_eq h refs types std impute hr hc
  have hz := ((channelsWithoutPairings_input (types.getD notePairTypes) std impute (deref h refs)).2 ho).2
  have hm : SCoda.interleaved (types.getD notePairTypes) std impute (deref h refs) = [] := by
    unfold SCoda.interleaved
    simp only [hz]
    rfl
  rw [hm] at h3
  have : out = [] := by simpa using h3
  exact ⟨h', this ▸ h1⟩

/-- the former failing input, concretely: one orphan note-off -/
example : ChannelsWithoutPairings notePairTypes 24 true [{ ty := .noteOff, ch := 3, time := 5, note := 60 }] ∧
    (Gen.Abs2.getInterleavedMessagePairings [{ ty := .noteOff, ch := 3, time := 5, note := 60 }] [0] none 24 true).map (·.2.2) = .ok [] ∧
    SCoda.interleaved notePairTypes 24 true [{ ty := .noteOff, ch := 3, time := 5, note := 60 }] = [] := by decide

example : ¬ ChannelsWithoutPairings notePairTypes 24 true [{ ty := .noteOn, ch := 1, time := 2, note := 60, vel := 9 },
      { ty := .noteOn, ch := 0, time := 1, note := 62, vel := 9 }, { ty := .noteOff, ch := 1, time := 4, note := 60 }] ∧
    (Gen.Abs2.getInterleavedMessagePairings [{ ty := .noteOn, ch := 1, time := 2, note := 60, vel := 9 },
      { ty := .noteOn, ch := 0, time := 1, note := 62, vel := 9 }, { ty := .noteOff, ch := 1, time := 4, note := 60 }] [0, 1, 2] none 24 true).map (·.2.2)
      = .ok [(0, [1, 3]), (1, [0, 2])] := by decide

/-! ### equals -/

/-- the message types `equals` pairs, from its flags (the list the hand model `equalsAbs` builds) -/
abbrev eqTypes' (f : EqFlags) : List MType := eqTypes f.ignoreTs f.ignoreKs

/-- generated `equals(other, ignore_channel, ignore_time_signature, ignore_key_signature, ignore_velocity)` = hand model
    `equalsAbs` (with `PPQN` from the settings), on two sequences whose messages live in one heap, for ALL inputs (source after the
    repair 1462441): it returns the model's Boolean, sorts both `_messages` (linked sort) and only adds objects to the heap. -/
theorem equalsAbs_eq (h : Heap) (self other : List Nat) (f : EqFlags)
    (hs : RefsOk h self) (ho : RefsOk h other) (hc : HeapChOk h) :
    ∃ h', Gen.Abs2.equals h self other f.ignoreCh f.ignoreTs f.ignoreKs f.ignoreVel
      = .ok (h', sortRefs h self, sortRefs h other, SCoda.equalsAbs Gen.ppqn f (deref h self) (deref h other)) :=
  equals_spec h self other f.ignoreCh f.ignoreTs f.ignoreKs f.ignoreVel hs ho hc

/-- the former failing call `a.equals(AbsoluteSequence())` with `a` = one orphan note-off -/
example : (Gen.Abs2.equals [{ ty := .noteOff, ch := 3, time := 5, note := 60 }] [0] [] false false false false).map (·.2.2.2) = .ok true := by decide

example : (Gen.Abs2.equals [{ ty := .noteOn, ch := 1, time := 0, note := 60, vel := 90 }, { ty := .noteOff, ch := 1, time := 4, note := 60 },
      { ty := .noteOff, ch := 2, time := 4, note := 60 }, { ty := .noteOn, ch := 2, time := 0, note := 60, vel := 70 }]
      [0, 1] [2, 3] true false false true).map (·.2.2.2) = .ok true ∧
    (Gen.Abs2.equals [{ ty := .noteOn, ch := 1, time := 0, note := 60, vel := 90 }, { ty := .noteOff, ch := 1, time := 4, note := 60 },
      { ty := .noteOff, ch := 2, time := 4, note := 60 }, { ty := .noteOn, ch := 2, time := 0, note := 60, vel := 70 }]
      [0, 1] [2, 3] true false false false).map (·.2.2.2) = .ok false := by decide

/-! ### cutoff -/

/-- generated `cutoff(maximum_length, reduced_length)` = hand model `cutoff` on the referenced messages.
    The generated code stores through an alias (`message_pairing[1].time = …` changes the object that is also an element
    of `_messages`); on the heap of message objects this is a cell update, and the sequence read back through the final
    heap is the model's `sortAbs (cutoffGo …)`.  The new `_messages` holds the same objects (a permutation of the old list).
    Hypotheses: references point into the heap; no channel `None`; every message of the sequence is its own object
    (`refs.Nodup` — with the same object twice the store would show at both places, see the replay in the report). -/
theorem cutoff_eq (h : Heap) (refs : List Nat) (mx rd : Int) (hr : RefsOk h refs) (hc : HeapChOk h) (hnd : refs.Nodup) :
    ∃ h' refs', Gen.Abs2.cutoff h refs mx rd = .ok (h', refs') ∧ refs'.Perm refs ∧
      deref h' refs' = SCoda.cutoff mx rd (deref h refs) := by
  obtain ⟨h', h1, h2⟩ := cutoff_spec h refs mx rd hr hc hnd
  refine ⟨h', _, h1, ?_, ?_⟩
  · exact (isort_perm _ _).trans (isort_perm _ _)
  · rw [deref_sortRefs, h2, deref_sortRefs, SCoda.cutoff]

/-- the same on the initial state "every message is its own object": heap = `a`, `_messages` = [0, …, n-1] -/
theorem cutoff_init (a : List Msg) (mx rd : Int) (hc : HeapChOk a) :
    ∃ h' refs', Gen.Abs2.cutoff a (refsOf a) mx rd = .ok (h', refs') ∧ deref h' refs' = SCoda.cutoff mx rd a := by
  have hr : RefsOk a (refsOf a) := by intro r hr; simpa [refsOf] using hr
  obtain ⟨h', refs', h1, _, h3⟩ := cutoff_eq a (refsOf a) mx rd hr hc (by simpa [refsOf] using List.nodup_range)
  exact ⟨h', refs', h1, by rw [h3, deref_refsOf]⟩

example : HeapChOk [{ ty := .noteOn, ch := 1, time := 0, note := 60, vel := 90 }, { ty := .noteOff, ch := 1, time := 30, note := 60 },
      { ty := .noteOn, ch := 1, time := 2, note := 62, vel := 90 }, { ty := .noteOff, ch := 1, time := 5, note := 62 }] ∧
    (Gen.Abs2.cutoff [{ ty := .noteOn, ch := 1, time := 0, note := 60, vel := 90 }, { ty := .noteOff, ch := 1, time := 30, note := 60 },
      { ty := .noteOn, ch := 1, time := 2, note := 62, vel := 90 }, { ty := .noteOff, ch := 1, time := 5, note := 62 }] [0, 1, 2, 3] 10 4).map
        (fun r => deref r.1 r.2)
      = .ok [{ ty := .noteOn, ch := 1, time := 0, note := 60, vel := 90 }, { ty := .noteOn, ch := 1, time := 2, note := 62, vel := 90 },
             { ty := .noteOff, ch := 1, time := 4, note := 60 }, { ty := .noteOff, ch := 1, time := 5, note := 62 }] := by decide

/-! ### merge -/

/-- generated `merge`, any heap and references: append everything, then the linked sort. -/
theorem merge_refs (h : Heap) (self : List Nat) (seqs : List (List Nat)) :
    Gen.Abs2.merge h self seqs = .ok (sortRefs h (self ++ seqs.flatten)) := by
  unfold Gen.Abs2.merge
  simp only []
  rw [ViewTieL.forIn_spec' _ (fun l st => pure (st ++ l.flatten))]
  · simp [normaliseAbsolute]; rfl
  · intro b; simp
  · intro a as b
    rw [ViewTieL.forIn_spec' _ (fun l st => pure (st ++ l))]
    · simp
    · intro b; simp
    · intro x xs b; simp [addMessageUnsorted]

/-- generated `merge` = hand model `mergeAbs` on the referenced messages, any heap and references. -/
theorem mergeAbs_eq (h : Heap) (self : List Nat) (seqs : List (List Nat)) :
    ∃ r, Gen.Abs2.merge h self seqs = .ok r ∧ deref h r = SCoda.mergeAbs (deref h self) (seqs.map (deref h)) := by
  refine ⟨_, merge_refs h self seqs, ?_⟩
  rw [deref_sortRefs, SCoda.mergeAbs]
  congr 1
  simp only [deref, List.map_append, List.map_flatten]
  rfl

example : Gen.Abs2.merge [{ ty := .noteOn, time := 5, note := 60 }, { ty := .noteOn, time := 1, note := 61 }, { ty := .noteOff, time := 3, note := 61 }]
    [0] [[1], [2]] = .ok [1, 2, 0] := by decide

/-! ### quantise, quantise_note_lengths -/

/-- model errors as errors of the generated code -/
abbrev errMap : Err → PyErr := errMapL

/-- the generated function (final heap, final `_messages`) and the hand model agree: same messages or the same error -/
def AgreeSeq (g : Except PyErr (Heap × List Nat)) (m : Except Err (List Msg)) : Prop :=
  match m with
  | .ok r => g.map (fun x => deref x.1 x.2) = .ok r
  | .error e => g.map (fun x => deref x.1 x.2) = .error (errMap e)

instance : DecidableEq (Except PyErr (List Msg)) := fun a b => by
  cases a <;> cases b <;> simp <;> infer_instance

instance (g : Except PyErr (Heap × List Nat)) (m : Except Err (List Msg)) : Decidable (AgreeSeq g m) := by
  unfold AgreeSeq; split <;> infer_instance

theorem agree_of_post {M : Except Err (List Msg)} {x : Except PyErr (Heap × List Nat)} (h : PostOf M x) : AgreeSeq x M := by
  unfold PostOf at h
  unfold AgreeSeq
  cases M with
  | ok r => obtain ⟨h', refs', rfl, hd⟩ := h; simp only [Except.map]; rw [hd]
  | error e => simp only at h ⊢; rw [h]; rfl

/-- generated `quantise(step_sizes)` = hand model `quantiseS` — the source repaired for D41 calls `normalise_absolute()` first, the model
    is the walk `SCoda.quantise` on the sorted list (Model/QuantiseS.lean) — (same messages, or the same error: IndexError for an empty list of
    step sizes, KeyError for a note-off that follows a dropped note-on of another … exactly where the model raises).  The generated
    code re-times the message OBJECTS in the heap (`message_to_append = msg; message_to_append.time = …`) and collects references;
    read back through the final heap this is the model's list.  `step_sizes=None` ↦ `Gen.defaultStepSizes` (link).
    Hypotheses: references into the heap; no channel `None`; every message its own object (`refs.Nodup`); POSITIVE step sizes (the
    model computes `t / s`, the code `t // s`: for `s = 0` the code raises ZeroDivisionError, for `s < 0` it floors the other way). -/
theorem quantise_eq (h : Heap) (refs : List Nat) (steps : Option (List Int)) (hr : RefsOk h refs) (hc : HeapChOk h)
    (hnd : refs.Nodup) (hpos : ∀ s ∈ steps.getD Gen.defaultStepSizes, 0 < s) :
    AgreeSeq (Gen.Abs2.quantise h refs steps) (SCoda.quantiseS (steps.getD Gen.defaultStepSizes) (deref h refs)) := by
  cases steps with
  | none =>
    have : Gen.Abs2.quantise h refs none = Gen.Abs2.quantise h refs (some Gen.defaultStepSizes) := by
      unfold Gen.Abs2.quantise; rfl
    rw [this]
    exact agree_of_post (quantise_spec h refs Gen.defaultStepSizes hr hc hnd hpos)
  | some st => exact agree_of_post (quantise_spec h refs st hr hc hnd hpos)

/-- the same on the initial state "every message is its own object" -/
theorem quantise_init (a : List Msg) (steps : Option (List Int)) (hc : HeapChOk a) (hpos : ∀ s ∈ steps.getD Gen.defaultStepSizes, 0 < s) :
    AgreeSeq (Gen.Abs2.quantise a (refsOf a) steps) (SCoda.quantiseS (steps.getD Gen.defaultStepSizes) a) := by
  have hr : RefsOk a (refsOf a) := by intro r hr; simpa [refsOf] using hr
  have := quantise_eq a (refsOf a) steps hr hc (by simpa [refsOf] using List.nodup_range) hpos
  rwa [deref_refsOf] at this

example : (∀ s ∈ Gen.defaultStepSizes, 0 < s) ∧
    (Gen.Abs2.quantise [{ ty := .noteOn, ch := 1, time := 5, note := 60, vel := 90 }, { ty := .noteOff, ch := 1, time := 9, note := 60 }]
      [0, 1] none).map (fun r => (deref r.1 r.2).map (·.time)) = .ok [4, 8] := by decide

/-- the recorded input of finding D41 (one tick stored note-on before note-off): the generated text of the repaired source sorts first and
    keeps the second note [48,100); no note-off is fabricated (the final heap has the four input objects only) -/
example : (Gen.Abs2.quantise [{ ty := .noteOn, ch := 0, time := 0, note := 60, vel := 64 }, { ty := .noteOn, ch := 0, time := 50, note := 60, vel := 70 },
      { ty := .noteOff, ch := 0, time := 50, note := 60 }, { ty := .noteOff, ch := 0, time := 100, note := 60 }]
      [0, 1, 2, 3] (some [4])).map (fun r => (r.1.length, r.2, (deref r.1 r.2).map (·.time))) = .ok (4, [0, 2, 1, 3], [0, 48, 48, 100]) := by decide

/-- generated `quantise_note_lengths(note_values, standard_length, do_not_extend)` = hand model `quantiseNoteLengths` (same messages, or
    the same error).  The generated code pairs the notes (`get_message_pairings()`, imputed note-offs are NEW heap cells), builds
    `note_occurrences` (lists of the SAME pairing lists), finds each pairing by `list.index` (identity of the pairing's messages),
    filters `copy.copy(note_values)` twice with `list.remove`, stores `message_pairing[1].time += correction` through the alias into the
    heap, replaces removed pairings by `[]`, and collects the references; read back through the final heap this is the model's list.
    `note_values=None` ↦ `Gen.defaultNoteValues` (link).
    Hypotheses: references into the heap; no channel `None` (the pairing step keys tables by channel; the imputed note-off gets
    channel 0 where the model says −1: replayed, the results differ); every message its own object (`refs.Nodup`: what the frame
    reasoning of the proof needs — the references of different pairings are different cells; at the replayed points with one object
    twice in `_messages` the code and the model still agree, so this is a limit of the proof, not a known limit of the model). -/
theorem quantiseNoteLengths_eq (h : Heap) (refs : List Nat) (values : Option (List Int)) (std : Int) (dne : Bool)
    (hr : RefsOk h refs) (hc : HeapChOk h) (hnd : refs.Nodup) :
    AgreeSeq (Gen.Abs2.quantiseNoteLengths h refs values std dne)
      (SCoda.quantiseNoteLengths (values.getD Gen.defaultNoteValues) std dne (deref h refs)) := by
  cases values with
  | none =>
    have : Gen.Abs2.quantiseNoteLengths h refs none std dne = Gen.Abs2.quantiseNoteLengths h refs (some Gen.defaultNoteValues) std dne := by
      unfold Gen.Abs2.quantiseNoteLengths; rfl
    rw [this]
    exact agree_of_post (qnl_spec h refs Gen.defaultNoteValues std dne hr hc hnd)
  | some vs => exact agree_of_post (qnl_spec h refs vs std dne hr hc hnd)

/-- the same on the initial state "every message is its own object" -/
theorem quantiseNoteLengths_init (a : List Msg) (values : Option (List Int)) (std : Int) (dne : Bool) (hc : HeapChOk a) :
    AgreeSeq (Gen.Abs2.quantiseNoteLengths a (refsOf a) values std dne)
      (SCoda.quantiseNoteLengths (values.getD Gen.defaultNoteValues) std dne a) := by
  have hr : RefsOk a (refsOf a) := by intro r hr; simpa [refsOf] using hr
  have := quantiseNoteLengths_eq a (refsOf a) values std dne hr hc (by simpa [refsOf] using List.nodup_range)
  rwa [deref_refsOf] at this

example : (Gen.Abs2.quantiseNoteLengths [{ ty := .noteOn, ch := 1, time := 0, note := 60, vel := 90 }, { ty := .noteOff, ch := 1, time := 5, note := 60 },
      { ty := .noteOn, ch := 1, time := 7, note := 60, vel := 90 }]
      [0, 1, 2] (some [4, 12]) 3 true).map (fun r => (deref r.1 r.2).map (fun m => (m.ty, m.time))) =
    .ok [(.noteOn, 0), (.noteOff, 4)] := by decide   -- the open note (imputed length 3) has no valid duration left and is dropped

end SCoda.AbsTie2
