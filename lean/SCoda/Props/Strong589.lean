/-
  Strengthened statements for C08 (audit item A13), C09 (A6) and C05 (A14).

  C08 part (this file):
  * the note theorems of `Props/C08.lean` (`closed_partial`, `sound_partial`) assumed `NoZeroNotes r` — no
    zero-length note *anywhere*.  Here they are proved under the exact D18 class: no zero-length note sits on a
    cumulative capacity (`NoZeroOnBoundary r caps`, read off the independent `notesOf` semantics, decidable);
  * `notes_cut`: not only the sounding set but the *notes* of the pieces are those of the source, cut at the
    boundaries (`cutNotes`, an independent specification: cut at the first boundary, then at the second, …);
  * `velocity_strong`: every note-on of the pieces carries the velocity of the source note that is sounding there.
-/
import SCoda.Props.C08
import SCoda.Props.C09
import SCoda.Lemmas.Strong589L
import SCoda.Lemmas.Strong589LT
import SCoda.Lemmas.Strong589LR
import SCoda.Props.Strong589Q
import SCoda.Props.Strong589B
import SCoda.Props.Strong589R
namespace SCoda.Strong589
open SCoda SCoda.SplitL SCoda.SB SCoda.BarL SCoda.Strong589L SCoda.Strong589LT SCoda.Strong589LB SCoda.Strong589LR

/-! ## C08 -/

/-- **the D18 class, exactly**: no note of the source has zero length *and* sits on a cumulative capacity.
    Input-level: `notesOf (eventsRel r)` is the specification-side reading of the source. -/
def NoZeroOnBoundary (r : List Msg) (caps : List Int) : Prop :=
  ∀ n ∈ notesOf (eventsRel r), n.on = n.off → n.on ∉ C08.cumSums 0 caps

instance (r : List Msg) (caps : List Int) : Decidable (NoZeroOnBoundary r caps) := by
  unfold NoZeroOnBoundary; infer_instance

/-- cut a note list at the ticks of `bs`, one after the other: a note sounding across a tick (`on < b < off`)
    becomes `[on, b)` and `[b, off)` with the same channel, pitch and velocity; every other note is kept -/
abbrev cutNotes := Strong589L.cutNotes
abbrev keyIs := Strong589L.keyIs

/-- the common unpacking of `split` for the note theorems, under the boundary hypothesis -/
theorem split_notesB (r : List Msg) (caps : List Int) (pieces : List (List Msg)) (h : split r caps = .ok pieces)
    (hpos : ∀ c ∈ caps, 0 < c) (hw : NonNegWaits r) (hwf : WF r) (hz : NoZeroOnBoundary r caps) (k : Int × Int) (t : Int) :
    (∀ p ∈ pieces, WF p) ∧ (∀ d, Dp k t 0 pieces.flatten d = Dp k t 0 r d) ∧
      nkNotes k (eventsRel pieces.flatten) none = cutNotes (C08.cumSums 0 caps) (nkNotes k (eventsRel r) none) := by
  obtain ⟨s, hs, rfl⟩ := split_eq r caps pieces h
  have hzl : ∀ k', zlB (B := cums 0 caps) k' false 0 r := by
    intro k'
    refine zlB_of_notes k' r 0 false none hw (by simp) ?_
    intro n hn h0
    rw [← C08.cumSums_eq]
    exact hz n (mem_notesOf_of_nk hn) h0
  obtain ⟨hc, hwfwm, new, hp, hwfn, hD, hN⟩ :=
    splitOuter_notesB (B := cums 0 caps) k t caps 0 { wm := r } s hpos (fun b hb => hb) rfl hw
      (AltOB.init 0 r hwf hzl) hs
  simp only [List.append_nil] at hp
  have hfl : (if s.cur.reverse ++ s.wm = [] then s.pieces else (s.cur.reverse ++ s.wm) :: s.pieces).reverse.flatten
      = new.flatten ++ s.wm := by
    rw [hc, hp]
    simp only [List.reverse_nil, List.nil_append]
    by_cases hwm : s.wm = []
    · simp [hwm]
    · simp [hwm]
  refine ⟨?_, ?_, ?_⟩
  · intro p hpm
    rw [hc, hp] at hpm
    simp only [List.reverse_nil, List.nil_append] at hpm
    by_cases hwm : s.wm = []
    · simp only [hwm, if_true, List.reverse_reverse] at hpm
      exact (hwfn p hpm).1
    · simp only [hwm, if_false, List.reverse_cons, List.reverse_reverse, List.mem_append, List.mem_singleton] at hpm
      rcases hpm with hpm | rfl
      · exact (hwfn p hpm).1
      · exact hwfwm
  · intro d; rw [hfl]; exact hD d
  · rw [hfl, C08.cumSums_eq]; exact hN

/-- **no piece ends with a note still sounding, every piece is well-formed on its own** — for every source in which
    no zero-length note sits on a cumulative capacity.  Closes audit item A13 (hypothesis narrowed from "no
    zero-length note anywhere" to the exact D18 class; the full statement `C08.closed_statement` is refuted there). -/
theorem closed_boundary (r : List Msg) (caps : List Int) (pieces : List (List Msg)) (h : split r caps = .ok pieces)
    (hpos : ∀ c ∈ caps, 0 < c) (hw : NonNegWaits r) (hwf : WF r) (hz : NoZeroOnBoundary r caps) :
    ∀ p ∈ pieces, WF p :=
  (split_notesB r caps pieces h hpos hw hwf hz (0, 0) 0).1

/-- **laid end to end, the pieces reproduce exactly the source's sounding (channel, pitch, tick) set** — for every
    source in which no zero-length note sits on a cumulative capacity.  Closes audit item A13 (as `closed_boundary`). -/
theorem sound_boundary (r : List Msg) (caps : List Int) (pieces : List (List Msg)) (h : split r caps = .ok pieces)
    (hpos : ∀ c ∈ caps, 0 < c) (hw : NonNegWaits r) (hwf : WF r) (hz : NoZeroOnBoundary r caps) (k : Int × Int) (t : Int) :
    SoundingAt (eventsRel pieces.flatten) k t ↔ SoundingAt (eventsRel r) k t := by
  have := (split_notesB r caps pieces h hpos hw hwf hz k t).2.1 0
  simp only [Dp] at this
  simp only [SoundingAt, eventsRel, this]

/-- **notes, key by key**: the notes of one (channel, pitch) in the pieces laid end to end are, in time order, the
    source's notes of that key cut at the cumulative capacities.  Closes audit item A13 ("notes, not only sounding sets"). -/
theorem notes_cut_key (r : List Msg) (caps : List Int) (pieces : List (List Msg)) (h : split r caps = .ok pieces)
    (hpos : ∀ c ∈ caps, 0 < c) (hw : NonNegWaits r) (hwf : WF r) (hz : NoZeroOnBoundary r caps) (k : Int × Int) :
    (notesOf (eventsRel pieces.flatten)).filter (keyIs k)
      = cutNotes (C08.cumSums 0 caps) ((notesOf (eventsRel r)).filter (keyIs k)) := by
  rw [notesOf_key, notesOf_key]
  exact (split_notesB r caps pieces h hpos hw hwf hz k 0).2.2

/-- **notes**: the notes of the pieces laid end to end are a permutation of the source's notes cut at the cumulative
    capacities — each source note sounding across a boundary becomes its parts left and right of it, same channel,
    pitch and velocity; nothing else is added, lost or changed.  Closes audit item A13. -/
theorem notes_cut (r : List Msg) (caps : List Int) (pieces : List (List Msg)) (h : split r caps = .ok pieces)
    (hpos : ∀ c ∈ caps, 0 < c) (hw : NonNegWaits r) (hwf : WF r) (hz : NoZeroOnBoundary r caps) :
    (notesOf (eventsRel pieces.flatten)).Perm (cutNotes (C08.cumSums 0 caps) (notesOf (eventsRel r))) := by
  apply perm_of_keys
  intro k
  rw [cutNotes_filter]
  exact notes_cut_key r caps pieces h hpos hw hwf hz k

/-- **re-struck with the same velocity**: every note-on of the pieces — original or inserted at the start of a piece —
    has the channel, pitch and velocity of a source note `n` that starts at that tick or is sounding there
    (`n.on ≤ tick`, and `tick = n.on` or `tick < n.off`).  For a re-strike at a boundary this is the source note
    sounding across the boundary, not merely "some earlier note-on" as `C08.velocity` says.  Closes audit item A13. -/
theorem velocity_strong (r : List Msg) (caps : List Int) (pieces : List (List Msg)) (h : split r caps = .ok pieces)
    (hpos : ∀ c ∈ caps, 0 < c) (hw : NonNegWaits r) (hwf : WF r) (hz : NoZeroOnBoundary r caps) :
    ∀ m ∈ eventsRel pieces.flatten, m.ty = .noteOn →
      ∃ n ∈ notesOf (eventsRel r), n.ch = m.ch ∧ n.pitch = m.note ∧ n.vel = m.vel ∧
        n.on ≤ m.time ∧ (m.time = n.on ∨ m.time < n.off) := by
  intro m hm hty
  obtain ⟨hwfp, _, hN⟩ := split_notesB r caps pieces h hpos hw hwf hz m.nkey 0
  have hwfl : WF pieces.flatten := wf_flatten pieces hwfp
  have halt : altRun m.nkey false (eventsRel pieces.flatten) = some false := by
    unfold eventsRel; rw [altRun_events]; exact (wf_iff _).1 hwfl m.nkey
  obtain ⟨t, ht⟩ := on_note m.nkey _ none false halt m hm rfl hty
  rw [hN] at ht
  obtain ⟨n, hn, h1, h2, h3, h4, _, h6⟩ := cutNotes_frag _ _ _ ht
  exact ⟨n, mem_notesOf_of_nk hn, h1.symm, h2.symm, h3.symm, h4, h6⟩

/-! ### examples -/

/-- the audit's example: a zero-length note that is *not* on a boundary. `C08.closed_partial` does not apply
    (`NoZeroNotes` fails), `closed_boundary` does. -/
def exMid : List Msg := [Msg.mkOn 0 60 64 pyNone, Msg.mkOff 0 60 pyNone, Msg.mkWait 0 48]
example : NoZeroOnBoundary exMid [24] ∧ ¬ NoZeroNotes exMid ∧ WF exMid ∧ NonNegWaits exMid := by
  refine ⟨by decide, ?_, wf_of_keys exMid (by decide), by unfold NonNegWaits; decide⟩
  intro h; exact absurd (h (0, 60)) (by decide)
example : split exMid [24] = .ok [[Msg.mkOn 0 60 64 pyNone, Msg.mkOff 0 60 pyNone, Msg.mkWait 0 24], [Msg.mkWait 0 24]] := rfl

/-- the D18 witness of `Props/C08.lean` is in the excluded class -/
example : ¬ NoZeroOnBoundary C08.zr [24] := by decide

/-- a note crossing two boundaries, a second key, a zero-length note off the boundaries -/
def exCut : List Msg := [Msg.mkOn 0 60 64 pyNone, Msg.mkWait 0 10, Msg.mkOn 1 62 80 pyNone, Msg.mkOff 1 62 pyNone,
  Msg.mkWait 0 50, Msg.mkOff 0 60 pyNone, Msg.mkOn 1 62 90 pyNone, Msg.mkWait 0 12, Msg.mkOff 1 62 pyNone]
example : WF exCut ∧ NonNegWaits exCut ∧ NoZeroOnBoundary exCut [24, 24] :=
  ⟨wf_of_keys exCut (by decide), by unfold NonNegWaits; decide, by decide⟩
example : cutNotes (C08.cumSums 0 [24, 24]) (notesOf (eventsRel exCut))
    = [⟨1, 62, 10, 10, 80⟩, ⟨0, 60, 0, 24, 64⟩, ⟨0, 60, 24, 48, 64⟩, ⟨0, 60, 48, 60, 64⟩, ⟨1, 62, 60, 72, 90⟩] := by
  decide
example : ∃ pieces, split exCut [24, 24] = .ok pieces ∧
    notesOf (eventsRel pieces.flatten)
      = [⟨1, 62, 10, 10, 80⟩, ⟨0, 60, 0, 24, 64⟩, ⟨0, 60, 24, 48, 64⟩, ⟨0, 60, 48, 60, 64⟩, ⟨1, 62, 60, 72, 90⟩] := by
  refine ⟨_, rfl, ?_⟩
  decide

/-- the audit's scenario for `velocity`: A v10 [0,10), B v90 [20,40), cut at 30.  A re-strike at 30 with A's
    velocity 10 satisfies the conclusion of `C08.velocity` but not that of `velocity_strong`. -/
def exVel : List Msg := [Msg.mkOn 0 60 10 pyNone, Msg.mkWait 0 10, Msg.mkOff 0 60 pyNone, Msg.mkWait 0 10,
  Msg.mkOn 0 60 90 pyNone, Msg.mkWait 0 20, Msg.mkOff 0 60 pyNone]
example : ¬ ∃ n ∈ notesOf (eventsRel exVel), n.ch = 0 ∧ n.pitch = 60 ∧ n.vel = 10 ∧ n.on ≤ 30 ∧ (30 = n.on ∨ 30 < n.off) := by
  decide
example : ∃ m0 ∈ eventsRel exVel, m0.ty = .noteOn ∧ m0.nkey = (0, 60) ∧ m0.vel = 10 ∧ m0.time ≤ 30 := by
  decide

/-! ## C09 — sounding set, re-quantisation off -/

/-- the bar lines of a list of bars: the end tick of each bar when the bars are laid end to end from tick 0
    (bar `k` lasts `barCapacity ppqn num den` of the signature it carries — `C09.bars_exact`) -/
def barLines (ppqn : Int) (bars : List Bar) : List Int :=
  C08.cumSums 0 (bars.map (fun b => barCapacity ppqn b.num b.den))

/-- **the D18b class**: some note of the track has zero length *and* sits on a bar line -/
def NoZeroOnBarLine (ppqn : Int) (t : List Msg) (bars : List Bar) : Prop :=
  ∀ n ∈ notesOf (eventsRel t), n.on = n.off → n.on ∉ barLines ppqn bars

instance (ppqn : Int) (t : List Msg) (bars : List Bar) : Decidable (NoZeroOnBarLine ppqn t bars) := by
  unfold NoZeroOnBarLine; infer_instance

/-- "re-quantisation off: laid end to end, a track's bars reproduce its sounding set exactly" as the property states
    it (no word about zero-length notes) — **false**, see `sound_exact_statement_false` (known finding D18b) -/
def sound_exact_statement : Prop :=
  ∀ (ppqn : Int) (values : List Int) (tracks : List (List Msg)) (metaIdx : Nat) (tb : List (List Bar))
    (_h : splitBars ppqn values tracks metaIdx false = .ok tb) (i : Nat) (t : List Msg) (bars : List Bar)
    (_ht : tracks[i]? = some t) (_hb : tb[i]? = some bars) (_hw : NonNegWaits t) (_hwf : WF t)
    (_hpos : ∀ b ∈ bars, 0 < barCapacity ppqn b.num b.den) (k : Int × Int) (tick : Int),
    SoundingAt (eventsRel (barsToSeq bars)) k tick ↔ SoundingAt (eventsRel t) k tick

/-- the audit's witness (4/4 at 24 ticks per quarter): a zero-length note on the bar line 96, then a real note
    [106,116) of the same key -/
def d18b : List Msg := [Msg.mkWait 0 96, Msg.mkOn 0 60 64 pyNone, Msg.mkOff 0 60 pyNone, Msg.mkWait 0 10,
  Msg.mkOn 0 60 64 pyNone, Msg.mkWait 0 10, Msg.mkOff 0 60 pyNone, Msg.mkWait 0 5]

/-- the library's default note values at 24 ticks per quarter (`Gen.defaultNoteValues`) -/
def vals : List Int := [24, 12, 6, 16, 8, 4, 36, 18, 9]

/-- what the model returns on the witness: two 4/4 bars, the second one silent — the real note [106,116) is swallowed
    (the real implementation returns the same two bars) -/
theorem d18b_bars : splitBars 24 vals [d18b] 0 false
    = .ok [[⟨[Msg.mkTimeSig 0 4 4 pyNone, Msg.mkWait 0 96], 4, 4, pyNone⟩,
            ⟨[Msg.mkTimeSig 0 4 4 pyNone, Msg.mkWait 0 25, Msg.mkWait 0 71], 4, 4, pyNone⟩]] := by
  rfl

theorem d18b_ok : WF d18b ∧ NonNegWaits d18b :=
  ⟨wf_of_keys d18b (by decide), by unfold NonNegWaits; decide⟩

theorem sound_exact_statement_false : ¬ sound_exact_statement := by
  intro hs
  have := hs 24 vals [d18b] 0 _ d18b_bars 0 d18b _ rfl rfl d18b_ok.2 d18b_ok.1 (by decide) (0, 60) 106
  simp only [SoundingAt] at this
  revert this
  decide

/-- **sound, re-quantisation off**: laid end to end, a track's bars reproduce its sounding (channel, pitch, tick)
    set exactly — for every track in which no zero-length note sits on a bar line of the result.  Closes audit
    item A6 (the hypothesis `NoZeroNotes t` — no zero-length note anywhere — narrowed to the D18b class; the
    statement without it is refuted by `sound_exact_statement_false`). -/
theorem sound_exact_barlines (ppqn : Int) (values : List Int) (tracks : List (List Msg)) (metaIdx : Nat)
    (tb : List (List Bar)) (h : splitBars ppqn values tracks metaIdx false = .ok tb)
    (i : Nat) (t : List Msg) (bars : List Bar) (ht : tracks[i]? = some t) (hb : tb[i]? = some bars)
    (hw : NonNegWaits t) (hwf : WF t) (hz : NoZeroOnBarLine ppqn t bars)
    (hpos : ∀ b ∈ bars, 0 < barCapacity ppqn b.num b.den) (k : Int × Int) (tick : Int) :
    SoundingAt (eventsRel (barsToSeq bars)) k tick ↔ SoundingAt (eventsRel t) k tick := by
  obtain ⟨metaTrack, r, _, _, hall, _⟩ := splitBars_run ppqn values tracks metaIdx false tb h
  obtain ⟨tw, t', nb, hrun, htb, hlast⟩ := hall i t ht
  rw [hb] at htb
  cases htb
  have hs := trackRun_sigs ppqn values false _ _ _ _ _ hrun
  have hgpos : ∀ g ∈ sched ppqn metaTrack (r + 1), 0 < sgLen ppqn g := by
    intro g hg
    rw [← hs, List.mem_map] at hg
    obtain ⟨b, hb', rfl⟩ := hg
    exact hpos b hb'
  have ht' : t' = [] :=
    trackRun_rest_nil ppqn values false _ _ _ _ _ hrun r hlast (by rw [sched_length])
  subst ht'
  have hlens : (sched ppqn metaTrack (r + 1)).map (sgLen ppqn) = bars.map (fun b => barCapacity ppqn b.num b.den) := by
    rw [← hs, List.map_map]; rfl
  have hzl : ∀ k', zlB (B := cums 0 ((sched ppqn metaTrack (r + 1)).map (sgLen ppqn))) k' false 0 t := by
    intro k'
    refine zlB_of_notes k' t 0 false none hw (by simp) ?_
    intro n hn h0
    rw [hlens, ← C08.cumSums_eq]
    exact hz n (mem_notesOf_of_nk hn) h0
  obtain ⟨_, _, hsnd⟩ := trackRun_sndB (B := cums 0 ((sched ppqn metaTrack (r + 1)).map (sgLen ppqn)))
    ppqn values false k tick
    (by
      intro first piece g bar a hfw hfn hrq hmk
      rw [requantPiece_false values ppqn first piece hrq] at hmk
      exact bar_snd ppqn first _ _ _ bar hmk hfn hfw k tick a)
    _ _ _ _ _ 0 hrun hgpos hw hwf (fun b hb => hb) hzl
  rw [List.append_nil] at hsnd
  rw [← snd_iff_sounding, ← snd_iff_sounding]
  exact hsnd

/-- non-vacuity: a zero-length note in the middle of a bar (excluded by `C09.sound_exact`, admitted here), and a note
    crossing the bar line -/
def exMidBar : List Msg := [Msg.mkWait 0 10, Msg.mkOn 0 60 64 pyNone, Msg.mkOff 0 60 pyNone, Msg.mkWait 0 80,
  Msg.mkOn 0 62 64 pyNone, Msg.mkWait 0 20, Msg.mkOff 0 62 pyNone, Msg.mkWait 0 90]
example : ∃ tb bars, splitBars 24 vals [exMidBar] 0 false = .ok tb ∧ tb[0]? = some bars ∧
    WF exMidBar ∧ NonNegWaits exMidBar ∧ ¬ NoZeroNotes exMidBar ∧ NoZeroOnBarLine 24 exMidBar bars ∧
    barLines 24 bars = [96, 192, 288] := by
  refine ⟨_, _, rfl, rfl, wf_of_keys exMidBar (by decide), by unfold NonNegWaits; decide, ?_, by decide, by decide⟩
  intro h; exact absurd (h (0, 60)) (by decide)
/-- the D18b witness is in the excluded class -/
example : ¬ NoZeroOnBarLine 24 d18b [⟨[], 4, 4, pyNone⟩, ⟨[], 4, 4, pyNone⟩] := by decide

/-! ## C09 — sounding set, re-quantisation on -/

/-- "re-quantisation on: a subset of it" as the property states it — **false**, see `sound_subset_statement_false` -/
def sound_subset_statement : Prop :=
  ∀ (ppqn : Int) (values : List Int) (tracks : List (List Msg)) (metaIdx : Nat) (tb : List (List Bar))
    (_h : splitBars ppqn values tracks metaIdx true = .ok tb) (i : Nat) (t : List Msg) (bars : List Bar)
    (_ht : tracks[i]? = some t) (_hb : tb[i]? = some bars) (_hw : NonNegWaits t) (_hwf : WF t)
    (_hv : ∀ v ∈ values, 0 < v) (_hpos : ∀ b ∈ bars, 0 < barCapacity ppqn b.num b.den) (k : Int × Int) (tick : Int),
    SoundingAt (eventsRel (barsToSeq bars)) k tick → SoundingAt (eventsRel t) k tick

/-- the model on the D18b witness with re-quantisation on: the torn zero-length note comes back as a note [96,105)
    in the second bar (the real implementation returns the same bars) -/
theorem d18b_bars_requant : splitBars 24 vals [d18b] 0 true
    = .ok [[⟨[Msg.mkTimeSig 0 4 4 pyNone, Msg.mkWait 0 96], 4, 4, pyNone⟩,
            ⟨[Msg.mkTimeSig 0 4 4 pyNone, Msg.mkOn 0 60 64 pyNone, Msg.mkWait 0 9, Msg.mkOff 0 60 pyNone, Msg.mkWait 0 1,
              Msg.mkOn 0 60 64 pyNone, Msg.mkWait 0 9, Msg.mkOff 0 60 pyNone, Msg.mkWait 0 6, Msg.mkWait 0 71], 4, 4, pyNone⟩]] := by
  rfl

theorem sound_subset_statement_false : ¬ sound_subset_statement := by
  intro hs
  have := hs 24 vals [d18b] 0 _ d18b_bars_requant 0 d18b _ rfl rfl d18b_ok.2 d18b_ok.1 (by decide) (by decide) (0, 60) 100
  simp only [SoundingAt] at this
  revert this
  decide

/-! The positive statement for re-quantisation on is `sound_subset_partial` (Props/Strong589R.lean): the conclusion of
    `C09.sound_subset` under the input-level `NoZeroLen t` (no zero-length note anywhere).  That hypothesis cannot be
    narrowed to the bar lines: `sound_subset_boundary_statement_false` (same file). -/

/-! ## C09 — input-level forms (the bar lines are the grid induced by the meta track's signatures) -/

/-- **the D18b class, input-level**: no zero-length note of the track sits on a bar start of the grid induced by the
    signature events `sigs` of the meta track (`gridStart`, Lemmas/Strong589LB.lean — computed from `sigs` alone) -/
def NoZeroOnGrid (ppqn : Int) (sigs : List Msg) (t : List Msg) : Prop :=
  ∀ n ∈ notesOf (eventsRel t), n.on = n.off → ¬ OnGrid ppqn sigs n.on

/-- decidable form of `NoZeroOnGrid` (bounded walk along the grid; equivalent when all bar lengths are positive) -/
def NoZeroOnGridB (ppqn : Int) (sigs : List Msg) (t : List Msg) : Prop :=
  ∀ n ∈ notesOf (eventsRel t), n.on = n.off → onGridB ppqn sigs (n.on.toNat + 1) 0 n.on = false

instance (ppqn : Int) (sigs : List Msg) (t : List Msg) : Decidable (NoZeroOnGridB ppqn sigs t) := by
  unfold NoZeroOnGridB; infer_instance

theorem noZeroOnGrid_of_B (ppqn : Int) (sigs : List Msg) (t : List Msg) (hpos : PosBars ppqn sigs)
    (h : NoZeroOnGridB ppqn sigs t) : NoZeroOnGrid ppqn sigs t := by
  intro n hn h0 ⟨j, hj⟩
  have hb := h n hn h0
  have hc := onGridB_complete ppqn sigs hpos (n.on.toNat + 1) 0 j (Nat.zero_le _) (by rw [← hj]; simp [gridStart])
  rw [← hj] at hc
  simp only [gridStart] at hc
  rw [hb] at hc
  cases hc

/-- **sound, re-quantisation off, input-level**: if the meta track's signature changes sit on the bar grid they induce
    (at distinct ticks, all bar lengths positive) and no zero-length note of the track sits on a bar start of that
    grid, the track's bars laid end to end reproduce its sounding (channel, pitch, tick) set exactly.  Every hypothesis
    reads the input only.  Closes audit item A6 (D18b as the carved-out class; `sound_exact_statement_false` refutes
    the statement without it). -/
theorem sound_exact_boundary (ppqn : Int) (values : List Int) (tracks : List (List Msg)) (metaIdx : Nat)
    (tb : List (List Bar)) (h : splitBars ppqn values tracks metaIdx false = .ok tb)
    (metaTrack : List Msg) (hm : tracks[metaIdx]? = some metaTrack)
    (hpos : PosBars ppqn (sigsOf metaTrack)) (hd : DistinctTicks (sigsOf metaTrack))
    (hal : ∀ m ∈ sigsOf metaTrack, OnGrid ppqn (sigsOf metaTrack) m.time)
    (i : Nat) (t : List Msg) (bars : List Bar) (ht : tracks[i]? = some t) (hb : tb[i]? = some bars)
    (hw : NonNegWaits t) (hwf : WF t) (hz : NoZeroOnGrid ppqn (sigsOf metaTrack) t) (k : Int × Int) (tick : Int) :
    SoundingAt (eventsRel (barsToSeq bars)) k tick ↔ SoundingAt (eventsRel t) k tick := by
  have hgrid := barLines_onGrid ppqn values tracks metaIdx false tb h metaTrack hm hpos.nonneg hd hal i bars hb
  refine sound_exact_barlines ppqn values tracks metaIdx tb h i t bars ht hb hw hwf ?_ ?_ k tick
  · intro n hn h0 hmem
    exact hz n hn h0 (hgrid _ hmem)
  · intro b hbm
    obtain ⟨j, hj, rfl⟩ := List.getElem_of_mem hbm
    have hbar : C09.barAt tb i j = some bars[j] := by
      unfold C09.barAt
      simp [hb, List.getElem?_eq_getElem hj]
    obtain ⟨hsig, _⟩ := bar_signature_in ppqn values tracks metaIdx false tb h metaTrack hm hpos.nonneg hal hd i j _ hbar
    have := sigInForce_cap_pos ppqn _ hpos (gridStart ppqn (sigsOf metaTrack) j)
    rw [← hsig] at this
    exact this

/-! ## C09 — notes, re-quantisation off -/

/-- **notes, key by key, re-quantisation off**: the notes of one (channel, pitch) in a track's bars laid end to end
    are, in time order, the track's notes of that key cut at the bar lines (same channel, pitch, velocity).
    Closes audit item A6 together with `sound_exact_barlines` ("sounding sets do not determine notes"). -/
theorem notes_cut_bars_key (ppqn : Int) (values : List Int) (tracks : List (List Msg)) (metaIdx : Nat)
    (tb : List (List Bar)) (h : splitBars ppqn values tracks metaIdx false = .ok tb)
    (i : Nat) (t : List Msg) (bars : List Bar) (ht : tracks[i]? = some t) (hb : tb[i]? = some bars)
    (hw : NonNegWaits t) (hwf : WF t) (hz : NoZeroOnBarLine ppqn t bars)
    (hpos : ∀ b ∈ bars, 0 < barCapacity ppqn b.num b.den) (k : Int × Int) :
    (notesOf (eventsRel (barsToSeq bars))).filter (keyIs k)
      = cutNotes (barLines ppqn bars) ((notesOf (eventsRel t)).filter (keyIs k)) := by
  obtain ⟨metaTrack, r, _, _, hall, _⟩ := splitBars_run ppqn values tracks metaIdx false tb h
  obtain ⟨tw, t', nb, hrun, htb, hlast⟩ := hall i t ht
  rw [hb] at htb
  cases htb
  have hs := trackRun_sigs ppqn values false _ _ _ _ _ hrun
  have hgpos : ∀ g ∈ sched ppqn metaTrack (r + 1), 0 < sgLen ppqn g := by
    intro g hg
    rw [← hs, List.mem_map] at hg
    obtain ⟨b, hb', rfl⟩ := hg
    exact hpos b hb'
  have ht' : t' = [] :=
    trackRun_rest_nil ppqn values false _ _ _ _ _ hrun r hlast (by rw [sched_length])
  subst ht'
  have hlens : (sched ppqn metaTrack (r + 1)).map (sgLen ppqn) = bars.map (fun b => barCapacity ppqn b.num b.den) := by
    rw [← hs, List.map_map]; rfl
  have hzl : ∀ k', zlB (B := cums 0 ((sched ppqn metaTrack (r + 1)).map (sgLen ppqn))) k' false 0 t := by
    intro k'
    refine zlB_of_notes k' t 0 false none hw (by simp) ?_
    intro n hn h0
    rw [hlens, ← C08.cumSums_eq]
    exact hz n (mem_notesOf_of_nk hn) h0
  obtain ⟨firsts, hB, _, _, hN⟩ := trackRun_firsts (B := cums 0 ((sched ppqn metaTrack (r + 1)).map (sgLen ppqn)))
    ppqn values false _ _ _ _ _ 0 hrun hgpos hw hwf (fun b hb => hb) hzl
  have hbars := bars_eq ppqn values false k
    (by
      intro g f b c ⟨piece, hrq, hmk⟩ hfw hfn
      rw [requantPiece_false values ppqn f piece hrq] at hmk
      exact bar_notes ppqn f _ _ _ b hmk hfn hfw k c)
    _ firsts bars 0 hB
  have := hN k
  rw [List.append_nil, hlens, ← C08.cumSums_eq] at this
  rw [notesOf_key, notesOf_key]
  unfold eventsRel barLines
  rw [hbars]
  exact this

/-- **notes, re-quantisation off**: the notes of a track's bars laid end to end are a permutation of the track's notes
    cut at the bar lines.  Closes audit item A6 (notes-level companion of `sound_exact_barlines`). -/
theorem notes_cut_bars (ppqn : Int) (values : List Int) (tracks : List (List Msg)) (metaIdx : Nat)
    (tb : List (List Bar)) (h : splitBars ppqn values tracks metaIdx false = .ok tb)
    (i : Nat) (t : List Msg) (bars : List Bar) (ht : tracks[i]? = some t) (hb : tb[i]? = some bars)
    (hw : NonNegWaits t) (hwf : WF t) (hz : NoZeroOnBarLine ppqn t bars)
    (hpos : ∀ b ∈ bars, 0 < barCapacity ppqn b.num b.den) :
    (notesOf (eventsRel (barsToSeq bars))).Perm (cutNotes (barLines ppqn bars) (notesOf (eventsRel t))) := by
  apply perm_of_keys
  intro k
  rw [cutNotes_filter]
  exact notes_cut_bars_key ppqn values tracks metaIdx tb h i t bars ht hb hw hwf hz hpos k

/-- non-vacuity of the input-level form on `exMidBar` (no signature event: the grid is 0, 96, 192, …) -/
example : PosBars 24 (sigsOf exMidBar) ∧ DistinctTicks (sigsOf exMidBar) ∧
    (∀ m ∈ sigsOf exMidBar, OnGrid 24 (sigsOf exMidBar) m.time) ∧ NoZeroOnGrid 24 (sigsOf exMidBar) exMidBar := by
  have hp : PosBars 24 (sigsOf exMidBar) := by decide +kernel
  refine ⟨hp, by decide +kernel, ?_, noZeroOnGrid_of_B _ _ _ hp (by decide +kernel)⟩
  have : sigsOf exMidBar = [] := by decide +kernel
  rw [this]; simp
/-- … and the D18b witness is excluded by it -/
example : ¬ NoZeroOnGridB 24 (sigsOf d18b) d18b := by decide +kernel

end SCoda.Strong589
