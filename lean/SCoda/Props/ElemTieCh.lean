/-
  The translated `Bar.copy` (Gen/ElemFns.lean) of a bar built by the translated `Bar.__init__`, for every
  `default_channel`: "copying a bar yields an equal bar" — `Props/ElemTie.lean` (`barInit_eq_ch`: the translation is
  `mkBarCh`) composed with `Props/C10Ch.lean` (`bar_copy_ch`: `mkBarCh`'s copy on the bar's channel is an equal bar).
  This is the statement that finding D37 refuted for the unrepaired library (`Bar.copy` built the copy with the
  constructor's default channel 0).  Kept apart from ElemTie.lean, whose `simp` proofs need the small import set.
-/
import SCoda.Props.ElemTie
import SCoda.Props.C10Ch
namespace SCoda.ElemTieCh
open SCoda SCoda.WrapTie SCoda.ElemTie

/-- **copying a constructed bar yields an equal bar, for every `default_channel`** (the clause of C10 that D37
    violated, now for the translated `Bar.copy` itself): the copy of a bar built by the translated constructor always
    succeeds, leaves the bar unchanged, and the copy has the same numerator, denominator, key and `default_channel`, the
    same timed events — the leading time signature on channel `chanOf default_channel` among them — and the same
    duration (`Roll` semantics of the relative views), and is again in the constructed state. -/
theorem barCopy_equal (e : Env) (s : Seq) (n d key c : Int) (hn : 0 ≤ n) (hd : 0 < d) (hp : 0 ≤ e.ppqn) (g : GBar)
    (hg : Gen.Elem.barInit e s n d key c = .ok g) :
    ∃ cpy, Gen.Elem.barCopy e g = .ok (g, cpy) ∧
      cpy.num = g.num ∧ cpy.den = g.den ∧ cpy.key = g.key ∧ cpy.defaultChannel = g.defaultChannel ∧
      eventsRel cpy.sequence.rel = eventsRel g.sequence.rel ∧ durRel cpy.sequence.rel = durRel g.sequence.rel ∧
      cpy.sequence.rel.head? = some (Msg.mkTimeSig (chanOf c) n d pyNone) ∧
      g.sequence.rel.head? = some (Msg.mkTimeSig (chanOf c) n d pyNone) ∧
      cpy.sequence.absStale = true ∧ cpy.sequence.relStale = false := by
  rw [barInit_eq_ch e s n d key c hn hd hp] at hg
  cases hr : s.readRel with
  | error x => rw [hr] at hg; cases hg
  | ok p =>
    rw [hr] at hg
    simp only [ok_bind] at hg
    cases hm : mkBarCh e.ppqn p.2 n d key (chanOf c) with
    | error x => rw [hm] at hg; cases hg
    | ok b =>
      rw [hm] at hg
      simp only [ok_bind, pure_eq] at hg
      injection hg with hg
      subst hg
      have hnd : (n, d) ≠ (pyNone, pyNone) := by
        intro h
        injection h with h1 h2
        rw [h1] at hn
        exact absurd hn (by decide)
      obtain ⟨b', hc, c1, c2, c3, c4, c5, c6, c7⟩ := C10Ch.bar_copy_ch e.ppqn p.2 n d key (chanOf c) b hnd hm
      obtain ⟨f1, f2, f3, _⟩ := mkBarCh_fields hm
      unfold Bar.copyCh at hc
      rw [f1, f2, f3] at hc
      refine ⟨{ sequence := { abs := [], rel := b'.seq, absStale := true, relStale := false }, num := n, den := d, key := key,
                defaultChannel := c }, ?_, rfl, rfl, rfl, rfl, c4, c5, c6, c7, rfl, rfl⟩
      simp only [Gen.Elem.barCopy, copy_eq, ok_bind]
      rw [barInit_eq_ch e _ n d key c hn hd hp]
      simp [Seq.copy, Seq.ofRel, Seq.readRel, hc]

/-! non-vacuity: the recorded input of D37 (channel 3) satisfies the hypotheses (`ElemTie.exD37Bar` is the constructed bar,
    kernel-evaluated there); the conclusion evaluated: the copy is the bar -/
set_option maxRecDepth 100000 in
example : 0 ≤ genEnv.ppqn ∧ (0 : Int) ≤ 4 ∧ (0 : Int) < 4 ∧
    Gen.Elem.barInit genEnv (Seq.ofRel exD37) 4 4 pyNone 3 = .ok exD37Bar ∧
    Gen.Elem.barCopy genEnv exD37Bar = .ok (exD37Bar, exD37Bar) := by decide +kernel

end SCoda.ElemTieCh
