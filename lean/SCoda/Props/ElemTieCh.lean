/-
  The translated `Bar.copy` (Gen/ElemFns.lean) of ANY bar whose current relative view is in bar shape — a bar built by the
  translated `Bar.__init__` with any `default_channel`, and such a bar after `set_channel` / `transpose`: "copying a bar
  yields an equal bar" — `Props/ElemTie.lean` (`barInit_eq_ch`: the translated constructor is `mkBarCh`; `barCopy_eq`: the
  translated copy constructs on the channel of the bar's own signature event) composed with `Lemmas/BarChL.lean`
  (`shape_rebuild`: a view in bar shape is rebuilt with the same events).
  This is the statement that finding D37 refuted for the unrepaired library (`Bar.copy` built the copy with the
  constructor's default channel 0) and audit round 4 (D1) for the first repair (source commit f9ef398: the channel stored at
  construction, stale after `set_channel`).  Kept apart from ElemTie.lean, whose `simp` proofs need the small import set.
-/
import SCoda.Props.ElemTie
import SCoda.Props.C10Ch
namespace SCoda.ElemTieCh
open SCoda SCoda.WrapTie SCoda.ElemTie SCoda.BarChL

/-- **whenever `Bar.copy()` is called on a bar whose CURRENT relative view is in bar shape, it succeeds, the copy's leading
    time-signature event is on the channel of the ORIGINAL's leading time-signature event AS IT IS NOW, and the copy equals
    the original** (audit round 4, D1 and the C6 remark): for every bar record `g` and every wrapper state of its sequence
    in which the relative view can be read (`hr`: `g.sequence.rel` returns `rel`, leaving the wrapper as `s'` — the
    original is unchanged except that a stale relative view has been regenerated), if `rel` is in bar shape for the bar's
    signature (`BarChL.BarShape`: starts with the bar's time-signature message on some channel `c`, no other signature
    message, non-negative waits adding up to the capacity, note-ons / note-offs paired per (channel, pitch), no repeated
    key signature) then the copy has the bar's numerator, denominator and key, the same timed events — the leading time
    signature on channel `c` among them — and the same duration (`Roll` semantics), is in the constructed state and in
    bar shape again.
    The constructor establishes the shape (`barInit_barShape`); `Sequence.set_channel` keeps it as long as the notes still
    pair up afterwards (`setChannel_barShape`; it moves the signature event, which is why a channel remembered from
    construction goes stale), `transpose` without octave wrap likewise (`BarChL.shape_transposeRel`).
    `hn hd hp`: the domain on which Python's float capacity is the model's (`barInit_eq_ch`). -/
theorem barCopy_equal_any (e : Env) (g : GBar) (hn : 0 ≤ g.num) (hd : 0 < g.den) (hp : 0 ≤ e.ppqn)
    (s' : Seq) (rel : List Msg) (hr : g.sequence.readRel = .ok (s', rel))
    (hs : BarShape e.ppqn rel g.num g.den) :
    ∃ cpy c, Gen.Elem.barCopy e g = .ok ({ g with sequence := s' }, cpy) ∧
      cpy.num = g.num ∧ cpy.den = g.den ∧ cpy.key = g.key ∧
      eventsRel cpy.sequence.rel = eventsRel rel ∧ durRel cpy.sequence.rel = durRel rel ∧
      c ≠ pyNone ∧ sigChan rel = c ∧
      rel.head? = some (Msg.mkTimeSig c g.num g.den pyNone) ∧
      cpy.sequence.rel.head? = some (Msg.mkTimeSig c g.num g.den pyNone) ∧
      cpy.sequence.absStale = true ∧ cpy.sequence.relStale = false ∧ BarShape e.ppqn cpy.sequence.rel g.num g.den := by
  obtain ⟨c, hc, hsc, hh, hmk, hev, hdur, hsh⟩ := shape_rebuild g.key hs
  refine ⟨{ sequence := { abs := s'.copy.abs, rel := barSeqCh c e.ppqn rel g.num g.den, absStale := true, relStale := false },
            num := g.num, den := g.den, key := g.key }, c, ?_, rfl, rfl, rfl, hev, hdur, hc, hsc, hh, rfl, rfl, rfl, hsh⟩
  rw [barCopy_eq, hr]
  simp only [ok_bind]
  rw [barInit_eq_ch e _ g.num g.den g.key _ hn hd hp, (readRel_fresh hr).2.2.2]
  simp only [ok_bind]
  rw [hmk]
  rfl

/-- **what the constructor guarantees**: the relative view of a bar built by the translated `Bar.__init__` (any
    `default_channel`) is in bar shape, fresh, and its signature event is on channel `chanOf default_channel` -/
theorem barInit_barShape (e : Env) (s : Seq) (n d key c : Int) (hn : 0 ≤ n) (hd : 0 < d) (hp : 0 ≤ e.ppqn) (g : GBar)
    (hg : Gen.Elem.barInit e s n d key c = .ok g) :
    g.sequence.readRel = .ok (g.sequence, g.sequence.rel) ∧ BarShape e.ppqn g.sequence.rel g.num g.den ∧
      sigChan g.sequence.rel = chanOf c := by
  obtain ⟨_, g2, g3, g4, _, g7⟩ := barInit_shape e s n d key c g hg
  refine ⟨by simp [Seq.readRel, g2], ?_, sigChan_of_head g7⟩
  rw [barInit_eq_ch e s n d key c hn hd hp] at hg
  cases hr : s.readRel with
  | error x => rw [hr] at hg; cases hg
  | ok p =>
    rw [hr] at hg
    simp only [ok_bind] at hg
    cases hm : mkBarCh e.ppqn p.2 n d key (chanOf c) with
    | error x => rw [hm] at hg; cases hg
    | ok b =>
      rw [hm] at hg
      simp only [ok_bind, pure_eq] at hg
      injection hg with hg
      subst hg
      have hnd : (n, d) ≠ (pyNone, pyNone) := by
        intro h
        injection h with h1 h2
        rw [h1] at hn
        exact absurd hn (by decide)
      exact mkBarCh_shape hnd (chanOf_ne_none c) hm

/-- **`bar.sequence.set_channel(c)` (as translated) keeps a bar in bar shape and moves its signature event to channel `c`**,
    provided the notes still pair up per (channel, pitch) afterwards (`hwf` — a decidable condition on the bar's current
    content and `c`; it fails when two channels hold overlapping notes of one pitch, see `C10Ch.merged_channels_copy_differs`)
    and `c` is a channel, not `None` -/
theorem setChannel_barShape (e : Env) (g : GBar) (c : Int) (hc : c ≠ pyNone) (s' : Seq) (rel : List Msg)
    (hr : g.sequence.readRel = .ok (s', rel)) (hs : BarShape e.ppqn rel g.num g.den) (hwf : WF (setChannel c rel)) :
    ∃ s2, Gen.Wrap.setChannel e g.sequence c = .ok (s2, ()) ∧ s2.readRel = .ok (s2, setChannel c rel) ∧
      BarShape e.ppqn (setChannel c rel) g.num g.den ∧ sigChan (setChannel c rel) = c := by
  have hsh := shape_setChannel c hc hs hwf
  have hfr := readRel_fresh hr
  refine ⟨{ s' with rel := setChannel c rel, absStale := true }, ?_, ?_, hsh, ?_⟩
  · rw [setChannel_eq]
    simp [unit, Seq.setChannelSeq, Seq.onRel, hr]
  · simpa [Seq.readRel] using hfr.1
  · obtain ⟨c0, body0, _, hrel0, _⟩ := hs.head
    rw [hrel0]
    simp [sigChan, setChannel, Msg.mkTimeSig]

/-- **copying a constructed bar yields an equal bar, for every `default_channel`** (the clause of C10 that D37
    violated, now for the translated `Bar.copy` itself; the instance "not edited since construction" of
    `barCopy_equal_any`): the copy of a bar built by the translated constructor always succeeds, leaves the bar unchanged,
    and the copy has the same numerator, denominator and key, the same timed events — the leading time signature on
    channel `chanOf default_channel` among them — and the same duration (`Roll` semantics of the relative views), and is
    again in the constructed state. -/
theorem barCopy_equal (e : Env) (s : Seq) (n d key c : Int) (hn : 0 ≤ n) (hd : 0 < d) (hp : 0 ≤ e.ppqn) (g : GBar)
    (hg : Gen.Elem.barInit e s n d key c = .ok g) :
    ∃ cpy, Gen.Elem.barCopy e g = .ok (g, cpy) ∧
      cpy.num = g.num ∧ cpy.den = g.den ∧ cpy.key = g.key ∧
      eventsRel cpy.sequence.rel = eventsRel g.sequence.rel ∧ durRel cpy.sequence.rel = durRel g.sequence.rel ∧
      cpy.sequence.rel.head? = some (Msg.mkTimeSig (chanOf c) n d pyNone) ∧
      g.sequence.rel.head? = some (Msg.mkTimeSig (chanOf c) n d pyNone) ∧
      cpy.sequence.absStale = true ∧ cpy.sequence.relStale = false := by
  obtain ⟨_, _, g3, g4, _, g7⟩ := barInit_shape e s n d key c g hg
  obtain ⟨hrd, hsh, hsc⟩ := barInit_barShape e s n d key c hn hd hp g hg
  obtain ⟨cpy, c', hcp, c1, c2, c3, c4, c5, _, hsc', hh, hh', c6, c7, _⟩ :=
    barCopy_equal_any e g (g3 ▸ hn) (g4 ▸ hd) hp g.sequence g.sequence.rel hrd hsh
  have hcc : c' = chanOf c := hsc'.symm.trans hsc
  subst hcc
  rw [g3, g4] at hh'
  exact ⟨cpy, hcp, c1, c2, c3, c4, c5, hh', g7, c6, c7⟩

/-- **the composition the audit asked for (round 4, D1)**: build a bar with any `default_channel`, move its sequence to channel
    `c'` with the translated `Sequence.set_channel`, copy it with the translated `Bar.copy` — the copy equals the bar AS IT
    IS NOW, its signature event on channel `c'` (not on the construction-time channel), provided the notes of the bar still
    pair up after the move (`hwf`, stated on the constructed bar's content) -/
theorem barCopy_after_setChannel (e : Env) (s : Seq) (n d key c c' : Int) (hn : 0 ≤ n) (hd : 0 < d) (hp : 0 ≤ e.ppqn) (g : GBar)
    (hg : Gen.Elem.barInit e s n d key c = .ok g) (hc' : c' ≠ pyNone) (hwf : WF (setChannel c' g.sequence.rel)) :
    ∃ s2 cpy, Gen.Wrap.setChannel e g.sequence c' = .ok (s2, ()) ∧
      Gen.Elem.barCopy e { g with sequence := s2 } = .ok ({ g with sequence := s2 }, cpy) ∧
      s2.rel = setChannel c' g.sequence.rel ∧
      cpy.num = n ∧ cpy.den = d ∧ cpy.key = key ∧
      eventsRel cpy.sequence.rel = eventsRel s2.rel ∧ durRel cpy.sequence.rel = durRel s2.rel ∧
      s2.rel.head? = some (Msg.mkTimeSig c' n d pyNone) ∧
      cpy.sequence.rel.head? = some (Msg.mkTimeSig c' n d pyNone) := by
  obtain ⟨_, _, g3, g4, g5, _⟩ := barInit_shape e s n d key c g hg
  obtain ⟨hrd, hsh, _⟩ := barInit_barShape e s n d key c hn hd hp g hg
  obtain ⟨s2, hset, hrd2, hsh2, hsc2⟩ := setChannel_barShape e g c' hc' g.sequence g.sequence.rel hrd hsh hwf
  have hrel2 : s2.rel = setChannel c' g.sequence.rel := (readRel_fresh hrd2).2.1
  obtain ⟨cpy, c2, hcp, c1, c2', c3, c4, c5, _, hsc', hh, hh', _, _, _⟩ :=
    barCopy_equal_any e { g with sequence := s2 } (g3 ▸ hn) (g4 ▸ hd) hp s2 (setChannel c' g.sequence.rel) hrd2 hsh2
  have : c2 = c' := hsc'.symm.trans hsc2
  subst this
  simp only at c1 c2' c3 hh hh'
  rw [g3, g4] at hh hh'
  exact ⟨s2, cpy, hset, hcp, hrel2, c1.trans g3, c2'.trans g4, c3.trans g5, hrel2 ▸ c4, hrel2 ▸ c5, hrel2 ▸ hh, hh'⟩

/-! non-vacuity: the recorded input of D37 (channel 3) satisfies the hypotheses (`ElemTie.exD37Bar` is the constructed bar,
    kernel-evaluated there); the conclusion evaluated: the copy is the bar.  Then the audit's witness: the same bar after
    `set_channel(0)` (`ElemTie.exD37Bar0`): hypotheses of `barCopy_equal_any` / `barCopy_after_setChannel`, and the conclusion evaluated. -/
set_option maxRecDepth 100000 in
example : 0 ≤ genEnv.ppqn ∧ (0 : Int) ≤ 4 ∧ (0 : Int) < 4 ∧
    Gen.Elem.barInit genEnv (Seq.ofRel exD37) 4 4 pyNone 3 = .ok exD37Bar ∧
    Gen.Elem.barCopy genEnv exD37Bar = .ok (exD37Bar, exD37Bar) := by decide +kernel

/-- the constructed bar is in bar shape (from the constructor) -/
example : BarShape genEnv.ppqn exD37Bar.sequence.rel 4 4 :=
  (barInit_barShape genEnv (Seq.ofRel exD37) 4 4 pyNone 3 (by decide) (by decide) (by decide) exD37Bar (by decide +kernel)).2.1

/-- the side condition of `setChannel_barShape` / `barCopy_after_setChannel` on the audit's witness: after the move to channel 0
    the one note of the bar still pairs up -/
theorem witness_wf : WF (setChannel 0 exD37Bar.sequence.rel) := by
  intro k
  by_cases hk : k = (0, 60)
  · subst hk
    simp [altFrom, setChannel, exD37Bar, Msg.mkTimeSig, Msg.mkOn, Msg.mkWait, Msg.mkOff, Msg.nkey]
  · have h1 : ¬ ((0 : Int), (60 : Int)) = k := fun h => hk h.symm
    simp [altFrom, setChannel, exD37Bar, Msg.mkTimeSig, Msg.mkOn, Msg.mkWait, Msg.mkOff, Msg.nkey, h1]

set_option maxRecDepth 100000 in
/-- the audit's witness satisfies every hypothesis of `barCopy_equal_any` (relative view fresh and in bar shape), and the
    conclusion evaluated by the kernel: the copy is the bar as it is now, signature event on channel 0 -/
example : exD37Bar0.sequence.readRel = .ok (exD37Bar0.sequence, exD37Bar0.sequence.rel) ∧
    BarShape genEnv.ppqn exD37Bar0.sequence.rel 4 4 ∧
    Gen.Elem.barCopy genEnv exD37Bar0 = .ok (exD37Bar0, exD37Bar0) ∧
    exD37Bar0.sequence.rel.head? = some (Msg.mkTimeSig 0 4 4 pyNone) := by
  refine ⟨rfl, ?_, by decide +kernel, rfl⟩
  exact shape_setChannel (r := exD37Bar.sequence.rel) 0 (by decide)
    (barInit_barShape genEnv (Seq.ofRel exD37) 4 4 pyNone 3 (by decide) (by decide) (by decide) exD37Bar (by decide +kernel)).2.1 witness_wf

end SCoda.ElemTieCh
