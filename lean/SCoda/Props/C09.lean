/-
  C09 — bar splitting follows the time signatures and conserves the music.
  `splitBars ppqn values tracks metaIdx requant` models `Sequence.sequences_split_bars`
  (after the repair of D13): a loop that, per round, looks up the signature / key in force,
  splits one bar length off every track (`split t [len]`), optionally re-quantises note lengths
  (shorten only) and builds a `Bar` (`mkBar`), until every track is exhausted in the same round.
-/
import SCoda.Model.Bar
import SCoda.Model.Roll
import SCoda.Props.C08
import SCoda.Props.C10
import SCoda.Props.C07
import SCoda.Lemmas.SplitBars
import SCoda.Lemmas.SplitBarsQ
namespace SCoda.C09
open SCoda SCoda.SplitL SCoda.SB SCoda.BarL

/-- bar `k` of track `i` -/
def barAt (tb : List (List Bar)) (i k : Nat) : Option Bar := tb[i]? >>= (·[k]?)

/-- one list of bars per input track, all of the same length -/
theorem equal_counts (ppqn : Int) (values : List Int) (tracks : List (List Msg)) (metaIdx : Nat) (requant : Bool)
    (tb : List (List Bar)) (h : splitBars ppqn values tracks metaIdx requant = .ok tb) :
    tb.length = tracks.length ∧ ∃ n, 0 < n ∧ ∀ bs ∈ tb, bs.length = n := by
  obtain ⟨_, r, _, hl, hall⟩ := splitBars_bars ppqn values tracks metaIdx requant tb h
  refine ⟨hl, r + 1, by omega, ?_⟩
  intro bs hbs
  obtain ⟨i, hi, rfl⟩ := List.getElem_of_mem hbs
  exact (hall i _ (getElem?_some_of_lt hi)).1

/-- every bar lasts exactly the length of the signature it carries, starts with that signature event
    and holds no other -/
theorem bars_exact (ppqn : Int) (values : List Int) (tracks : List (List Msg)) (metaIdx : Nat) (requant : Bool)
    (tb : List (List Bar)) (h : splitBars ppqn values tracks metaIdx requant = .ok tb) :
    ∀ bs ∈ tb, ∀ b ∈ bs, durRel b.seq = barCapacity ppqn b.num b.den
      ∧ b.seq.head? = some (Msg.mkTimeSig 0 b.num b.den pyNone) ∧ ∀ m ∈ b.seq.tail, m.ty ≠ .timeSignature := by
  obtain ⟨_, r, _, hl, hall⟩ := splitBars_bars ppqn values tracks metaIdx requant tb h
  intro bs hbs b hb
  obtain ⟨i, hi, rfl⟩ := List.getElem_of_mem hbs
  obtain ⟨k, hk, rfl⟩ := List.getElem_of_mem hb
  obtain ⟨g, piece, _, hmk⟩ := (hall i _ (getElem?_some_of_lt hi)).2 k _ (getElem?_some_of_lt hk)
  obtain ⟨h1, h2, h3, h4, _⟩ := C10.bar_leading_sig ppqn piece g.1 g.2.1 g.2.2 _ hmk
  obtain ⟨hd, _, _, hbe⟩ := mkBar_ok hmk
  refine ⟨?_, ?_, h2⟩
  · rw [h3, h4, hbe]
    exact barSeq_dur ppqn piece g.1 g.2.1 hd
  · rw [h3, h4]; exact h1

/-- bar `k` carries the same signature and key on every track -/
theorem same_column (ppqn : Int) (values : List Int) (tracks : List (List Msg)) (metaIdx : Nat) (requant : Bool)
    (tb : List (List Bar)) (h : splitBars ppqn values tracks metaIdx requant = .ok tb) (i j k : Nat) (b b' : Bar)
    (hb : barAt tb i k = some b) (hb' : barAt tb j k = some b') :
    b.num = b'.num ∧ b.den = b'.den ∧ b.key = b'.key := by
  obtain ⟨metaTrack, r, _, hl, hall⟩ := splitBars_bars ppqn values tracks metaIdx requant tb h
  have hx : ∀ i b, barAt tb i k = some b → ∃ g piece, (sched ppqn metaTrack (r + 1))[k]? = some g ∧
      mkBar ppqn piece g.1 g.2.1 g.2.2 = .ok b := by
    intro i b hb
    unfold barAt at hb
    cases hbs : tb[i]? with
    | none => simp [hbs] at hb
    | some bs =>
      simp only [hbs, Option.bind_eq_bind, Option.bind_some] at hb
      exact (hall i bs hbs).2 k b hb
  obtain ⟨g, piece, hg, hmk⟩ := hx i b hb
  obtain ⟨g', piece', hg', hmk'⟩ := hx j b' hb'
  rw [hg] at hg'
  cases hg'
  obtain ⟨_, _, h3, h4, h5⟩ := C10.bar_leading_sig ppqn piece g.1 g.2.1 g.2.2 _ hmk
  obtain ⟨_, _, h3', h4', h5'⟩ := C10.bar_leading_sig ppqn piece' g.1 g.2.1 g.2.2 _ hmk'
  exact ⟨by rw [h3, h3'], by rw [h4, h4'], by rw [h5, h5']⟩

/-- the signature in force at tick `t` according to the (time-sorted) signature events `sigs`, 4/4 before any -/
def sigInForce (sigs : List Msg) (t : Int) : Int × Int :=
  match (sigs.filter (fun m => decide (m.time ≤ t))).getLast? with
  | some m => (m.num, m.den)
  | Option.none => (4, 4)

/-- the key in force at tick `t`, `pyNone` before any -/
def keyInForce (keys : List Msg) (t : Int) : Int :=
  match (keys.filter (fun m => decide (m.time ≤ t))).getLast? with
  | some m => m.key
  | Option.none => pyNone

/-- start tick of bar `k`: the sum of the lengths of the bars before it (read off track 0's bars) -/
def barStart (ppqn : Int) (bars : List Bar) (k : Nat) : Int :=
  ((bars.take k).map (fun b => barCapacity ppqn b.num b.den)).foldl (· + ·) 0

/-- the signature and key changes of the meta track fall on bar boundaries of the grid they induce:
    processing the events in order, each one sits on a bar start, at most one of each kind per bar start -/
def Aligned (ppqn : Int) (sigs keys : List Msg) (bars : List Bar) : Prop :=
  (∀ m ∈ sigs, ∃ k, k < bars.length ∧ m.time = barStart ppqn bars k)
  ∧ (∀ m ∈ keys, ∃ k, k < bars.length ∧ m.time = barStart ppqn bars k)
  ∧ sigs.Pairwise (fun a b => a.time < b.time) ∧ keys.Pairwise (fun a b => a.time < b.time)

theorem barStart_eq (ppqn : Int) (bars : List Bar) (gs : List Sg)
    (h : bars.map (fun b => ((b.num, b.den, b.key) : Sg)) = gs) (k : Nat) :
    barStart ppqn bars k = psum ppqn gs k := by
  subst h
  simp only [barStart, psum, ← List.map_take, List.map_map]
  rfl

/-- the common unpacking: the bars of track 0 carry the schedule, all tracks run along it -/
theorem run_track0 (ppqn : Int) (values : List Int) (tracks : List (List Msg)) (metaIdx : Nat) (requant : Bool)
    (tb : List (List Bar)) (h : splitBars ppqn values tracks metaIdx requant = .ok tb)
    (bars0 : List Bar) (h0 : tb[0]? = some bars0) :
    ∃ metaTrack r, tracks[metaIdx]? = some metaTrack ∧
      bars0.map (fun b => ((b.num, b.den, b.key) : Sg)) = sched ppqn metaTrack (r + 1) ∧ bars0.length = r + 1 ∧
      (∀ (i : Nat) (t : List Msg), tracks[i]? = some t →
        ∃ tw t' nb, trackRun ppqn values requant (sched ppqn metaTrack (r + 1)) t = .ok (tw, t', nb) ∧
          tb[i]? = some nb ∧ tw[r]? = some false) ∧
      (∀ j, j < r → ∃ (i : Nat) (t : List Msg) (tw : List Bool) (t' : List Msg) (nb : List Bar),
        tracks[i]? = some t ∧
        trackRun ppqn values requant (sched ppqn metaTrack (r + 1)) t = .ok (tw, t', nb) ∧ tw[j]? = some true) := by
  obtain ⟨metaTrack, r, hm, hl, hall, hex⟩ := splitBars_run ppqn values tracks metaIdx requant tb h
  have hi : 0 < tracks.length := by rw [← hl]; exact lt_of_getElem?_some h0
  obtain ⟨tw, t', nb, hrun, htb, _⟩ := hall 0 _ (getElem?_some_of_lt hi)
  rw [h0] at htb
  cases htb
  have hs := trackRun_sigs ppqn values requant _ _ _ _ _ hrun
  refine ⟨metaTrack, r, hm, hs, ?_, hall, hex⟩
  have := congrArg List.length hs
  rw [List.length_map, sched_length] at this
  exact this

/-- **bar k carries the signature and the key in force at its start** (boundary-aligned changes) -/
theorem bar_signature (ppqn : Int) (values : List Int) (tracks : List (List Msg)) (metaIdx : Nat) (requant : Bool)
    (tb : List (List Bar)) (h : splitBars ppqn values tracks metaIdx requant = .ok tb)
    (metaTrack : List Msg) (hm : tracks[metaIdx]? = some metaTrack) (bars0 : List Bar) (h0 : tb[0]? = some bars0)
    (hal : Aligned ppqn (timesOfType .timeSignature (toAbs metaTrack)) (timesOfType .keySignature (toAbs metaTrack)) bars0)
    (k : Nat) (b : Bar) (hb : bars0[k]? = some b) :
    (b.num, b.den) = sigInForce (timesOfType .timeSignature (toAbs metaTrack)) (barStart ppqn bars0 k)
    ∧ b.key = keyInForce (timesOfType .keySignature (toAbs metaTrack)) (barStart ppqn bars0 k) := by
  obtain ⟨mT, r, hm', hs, hlen, _, _⟩ := run_track0 ppqn values tracks metaIdx requant tb h bars0 h0
  rw [hm] at hm'
  cases hm'
  obtain ⟨_, _, _, _, hbars⟩ := splitBars_bars ppqn values tracks metaIdx requant tb h
  -- no bar has negative length
  have hcapnn : ∀ b ∈ bars0, 0 ≤ barCapacity ppqn b.num b.den := by
    intro b hb
    obtain ⟨k, hk, rfl⟩ := List.getElem_of_mem hb
    obtain ⟨g, piece, _, hmk⟩ := (hbars 0 bars0 h0).2 k _ (getElem?_some_of_lt hk)
    obtain ⟨h1, _, _, hbe⟩ := mkBar_ok hmk
    have := totalWait_nonneg _ (normalise_nonneg piece)
    rw [hbe]
    simp only
    omega
  have hlens : (sched ppqn metaTrack (r + 1)).map (sgLen ppqn)
      = bars0.map (fun b => barCapacity ppqn b.num b.den) := by
    rw [← hs, List.map_map]; rfl
  have hlnn : ∀ l ∈ (sched ppqn metaTrack (r + 1)).map (sgLen ppqn), 0 ≤ l := by
    intro l hl
    rw [hlens, List.mem_map] at hl
    obtain ⟨b, hb, rfl⟩ := hl
    exact hcapnn b hb
  have hstart : ∀ j, barStart ppqn bars0 j = 0 + isum ((sched ppqn metaTrack (r + 1)).map (sgLen ppqn)) j := by
    intro j
    rw [barStart_eq ppqn bars0 _ hs, psum_eq_isum]; omega
  have hll : ((sched ppqn metaTrack (r + 1)).map (sgLen ppqn)).length = bars0.length := by
    rw [hlens, List.length_map]
  have hg : (sched ppqn metaTrack (r + 1))[k]? = some (b.num, b.den, b.key) := by
    rw [← hs, List.getElem?_map, hb]; rfl
  obtain ⟨hal1, hal2, hal3, hal4⟩ := hal
  constructor
  · have hA := ctl_sigs ppqn (r + 1) 0 4 4 pyNone (initTs metaTrack) (timesOfType .keySignature (toAbs metaTrack))
    have hv : (qrun (fun m : Msg => (m.num, m.den)) ((sched ppqn metaTrack (r + 1)).map (sgLen ppqn)) 0 (4, 4)
        (initTs metaTrack))[k]? = some (b.num, b.den) := by
      have : ((sched ppqn metaTrack (r + 1)).map (fun g => (g.1, g.2.1)))[k]? = some (b.num, b.den) := by
        rw [List.getElem?_map, hg]; rfl
      rw [← this]
      exact congrArg (·[k]?) hA.symm
    rw [hstart]
    unfold sigInForce
    by_cases hz : ((timesOfType .timeSignature (toAbs metaTrack)).length == 0) = true
    · have hnil : timesOfType .timeSignature (toAbs metaTrack) = [] := by
        simpa using hz
      have hi : initTs metaTrack = [Msg.mkTimeSig 0 4 4 0] := by simp [initTs, hnil]
      rw [hi] at hv
      have := qrun_inForce _ _ 0 (4, 4) [Msg.mkTimeSig 0 4 4 0] hlnn
        (by
          intro m hm
          simp only [List.mem_singleton] at hm
          subst hm
          exact ⟨0, by rw [hll, hlen]; omega, by rw [isum_zero]; rfl⟩)
        (by simp) k _ hv
      rw [this, hnil, List.filter_cons, List.filter_nil]
      generalize decide ((Msg.mkTimeSig 0 4 4 0).time ≤
        0 + isum (List.map (sgLen ppqn) (sched ppqn metaTrack (r + 1))) k) = c
      cases c <;> rfl
    · have hi : initTs metaTrack = timesOfType .timeSignature (toAbs metaTrack) := by
        simp only [initTs]
        rw [if_neg hz]
      rw [hi] at hv
      exact qrun_inForce _ _ 0 (4, 4) _ hlnn
        (by
          intro m hm
          obtain ⟨j, hj, hmt⟩ := hal1 m hm
          exact ⟨j, by rw [hll]; exact hj, by rw [hmt, hstart]⟩)
        hal3 k _ hv
  · have hA := ctl_keys ppqn (r + 1) 0 4 4 pyNone (initTs metaTrack) (timesOfType .keySignature (toAbs metaTrack))
    have hv : (qrun (fun m : Msg => m.key) ((sched ppqn metaTrack (r + 1)).map (sgLen ppqn)) 0 pyNone
        (timesOfType .keySignature (toAbs metaTrack)))[k]? = some b.key := by
      have : ((sched ppqn metaTrack (r + 1)).map (fun g => g.2.2))[k]? = some b.key := by
        rw [List.getElem?_map, hg]; rfl
      rw [← this]
      exact congrArg (·[k]?) hA.symm
    rw [hstart]
    unfold keyInForce
    exact qrun_inForce _ _ 0 pyNone _ hlnn
      (by
        intro m hm
        obtain ⟨j, hj, hmt⟩ := hal2 m hm
        exact ⟨j, by rw [hll]; exact hj, by rw [hmt, hstart]⟩)
      hal4 k _ hv

/-- **coverage**: the bars cover the longest track with less than one bar to spare -/
theorem coverage (ppqn : Int) (values : List Int) (tracks : List (List Msg)) (metaIdx : Nat) (requant : Bool)
    (tb : List (List Bar)) (h : splitBars ppqn values tracks metaIdx requant = .ok tb)
    (hw : ∀ t ∈ tracks, NonNegWaits t) (bars0 : List Bar) (h0 : tb[0]? = some bars0)
    (hpos : ∀ b ∈ bars0, 0 < barCapacity ppqn b.num b.den) (last : Bar) (hl : bars0.getLast? = some last) :
    (∀ t ∈ tracks, durRel t ≤ barStart ppqn bars0 bars0.length)
    ∧ ((∃ t ∈ tracks, 0 < durRel t) →
        ∃ t ∈ tracks, barStart ppqn bars0 bars0.length - barCapacity ppqn last.num last.den < durRel t) := by
  obtain ⟨metaTrack, r, _, hs, hlen, hall, hex⟩ := run_track0 ppqn values tracks metaIdx requant tb h bars0 h0
  have hgpos : ∀ g ∈ sched ppqn metaTrack (r + 1), 0 < sgLen ppqn g := by
    intro g hg
    rw [← hs, List.mem_map] at hg
    obtain ⟨b, hb, rfl⟩ := hg
    exact hpos b hb
  have hlast : (sched ppqn metaTrack (r + 1))[r]? = some (last.num, last.den, last.key) := by
    rw [← hs, List.getElem?_map]
    rw [List.getLast?_eq_getElem?, hlen] at hl
    simp only [Nat.add_sub_cancel] at hl
    rw [hl]; rfl
  rw [barStart_eq ppqn bars0 _ hs, hlen]
  constructor
  · intro t ht
    obtain ⟨i, hi, rfl⟩ := List.getElem_of_mem ht
    obtain ⟨tw, t', nb, hrun, _, hf⟩ := hall i _ (getElem?_some_of_lt hi)
    have := trackRun_flags ppqn values requant _ _ _ _ _ hrun hgpos (hw _ ht) r false hf
    have h2 : ¬ psum ppqn (sched ppqn metaTrack (r + 1)) (r + 1) < durRel tracks[i] := by
      intro hh; exact absurd (this.2 hh) (by simp)
    omega
  · rintro ⟨t, ht, htpos⟩
    rw [psum_succ ppqn _ r _ hlast]
    have hcap : barCapacity ppqn last.num last.den = sgLen ppqn (last.num, last.den, last.key) := rfl
    rw [hcap]
    cases r with
    | zero =>
      refine ⟨t, ht, ?_⟩
      rw [psum_zero]
      omega
    | succ r =>
      obtain ⟨i, t1, tw, t', nb, ht1, hrun, hj⟩ := hex r (by omega)
      have := (trackRun_flags ppqn values requant _ _ _ _ _ hrun hgpos
        (hw _ (List.mem_of_getElem? ht1)) r true hj).1 rfl
      refine ⟨t1, List.mem_of_getElem? ht1, ?_⟩
      omega

/-- termination: with positive bar lengths the loop never runs out of fuel -/
theorem terminates (ppqn : Int) (values : List Int) (tracks : List (List Msg)) (metaIdx : Nat) (requant : Bool)
    (hw : ∀ t ∈ tracks, NonNegWaits t)
    (hpos : 0 < barCapacity ppqn 4 4 ∧ ∀ t ∈ tracks, ∀ m ∈ t, m.ty = .timeSignature → 0 < barCapacity ppqn m.num m.den) :
    splitBars ppqn values tracks metaIdx requant ≠ .error .fuel := by
  cases hm : tracks[metaIdx]? with
  | none => simp [splitBars, hm]
  | some metaTrack =>
    rw [splitBars_eq ppqn values tracks metaIdx requant metaTrack hm]
    apply splitBarsGo_fuel
    · simp
    · exact hw
    · unfold fuelOf; omega
    · exact durRel_lt_fuelOf tracks
    · exact hpos.1
    · exact initTs_pos ppqn metaTrack hpos.1 (hpos.2 metaTrack (List.mem_of_getElem? hm))

/-- **sound, re-quantisation off**: laid end to end, a track's bars reproduce its sounding set exactly -/
theorem sound_exact (ppqn : Int) (values : List Int) (tracks : List (List Msg)) (metaIdx : Nat)
    (tb : List (List Bar)) (h : splitBars ppqn values tracks metaIdx false = .ok tb)
    (i : Nat) (t : List Msg) (bars : List Bar) (ht : tracks[i]? = some t) (hb : tb[i]? = some bars)
    (hw : NonNegWaits t) (hwf : WF t) (hz : NoZeroNotes t)
    (hpos : ∀ b ∈ bars, 0 < barCapacity ppqn b.num b.den) (k : Int × Int) (tick : Int) :
    SoundingAt (eventsRel (barsToSeq bars)) k tick ↔ SoundingAt (eventsRel t) k tick := by
  obtain ⟨metaTrack, r, _, _, hall, _⟩ := splitBars_run ppqn values tracks metaIdx false tb h
  obtain ⟨tw, t', nb, hrun, htb, hlast⟩ := hall i t ht
  rw [hb] at htb
  cases htb
  have hs := trackRun_sigs ppqn values false _ _ _ _ _ hrun
  have hgpos : ∀ g ∈ sched ppqn metaTrack (r + 1), 0 < sgLen ppqn g := by
    intro g hg
    rw [← hs, List.mem_map] at hg
    obtain ⟨b, hb', rfl⟩ := hg
    exact hpos b hb'
  have ht' : t' = [] :=
    trackRun_rest_nil ppqn values false _ _ _ _ _ hrun r hlast (by rw [sched_length])
  subst ht'
  obtain ⟨_, _, hsnd⟩ := trackRun_snd ppqn values false k tick
    (by
      intro first piece g bar a hfw hfn _ hrq hmk hs
      rw [requantPiece_false values ppqn first piece hrq] at hmk
      exact (bar_snd ppqn first _ _ _ bar hmk hfn hfw k tick a).1 hs)
    _ _ _ _ _ hrun hgpos hw hwf hz
  rw [List.append_nil] at hsnd
  rw [← snd_iff_sounding, ← snd_iff_sounding]
  refine ⟨(hsnd 0).1, (hsnd 0).2 ?_⟩
  intro first piece g bar a hfw hfn _ hrq hmk hs
  rw [requantPiece_false values ppqn first piece hrq] at hmk
  exact (bar_snd ppqn first _ _ _ bar hmk hfn hfw k tick a).2 hs

/-- **sound, re-quantisation on**: a subset of it -/
theorem sound_subset (ppqn : Int) (values : List Int) (tracks : List (List Msg)) (metaIdx : Nat)
    (tb : List (List Bar)) (h : splitBars ppqn values tracks metaIdx true = .ok tb)
    (i : Nat) (t : List Msg) (bars : List Bar) (ht : tracks[i]? = some t) (hb : tb[i]? = some bars)
    (hw : NonNegWaits t) (hwf : WF t) (hz : NoZeroNotes t) (hv : ∀ v ∈ values, 0 < v)
    (hpos : ∀ b ∈ bars, 0 < barCapacity ppqn b.num b.den) (k : Int × Int) (tick : Int) :
    SoundingAt (eventsRel (barsToSeq bars)) k tick → SoundingAt (eventsRel t) k tick := by
  obtain ⟨metaTrack, r, _, _, hall, _⟩ := splitBars_run ppqn values tracks metaIdx true tb h
  obtain ⟨tw, t', nb, hrun, htb, hlast⟩ := hall i t ht
  rw [hb] at htb
  cases htb
  have hs := trackRun_sigs ppqn values true _ _ _ _ _ hrun
  have hgpos : ∀ g ∈ sched ppqn metaTrack (r + 1), 0 < sgLen ppqn g := by
    intro g hg
    rw [← hs, List.mem_map] at hg
    obtain ⟨b, hb', rfl⟩ := hg
    exact hpos b hb'
  have ht' : t' = [] :=
    trackRun_rest_nil ppqn values true _ _ _ _ _ hrun r hlast (by rw [sched_length])
  subst ht'
  obtain ⟨_, _, hsnd⟩ := trackRun_snd ppqn values true k tick
    (by
      intro first piece g bar a hfw hfn hfz hrq hmk hs
      obtain ⟨hpn, hpp, hsub⟩ := requant_sound values ppqn first piece hv hfn hfw hfz hrq
      have h1 := (bar_snd' ppqn piece _ _ _ bar hmk hpn hpp k tick a).1 hs
      rw [snd_shift] at h1 ⊢
      exact hsub k _ h1)
    _ _ _ _ _ hrun hgpos hw hwf hz
  rw [List.append_nil] at hsnd
  rw [← snd_iff_sounding, ← snd_iff_sounding]
  exact (hsnd 0).1

/-! non-vacuity: two tracks of unequal length, a note crossing a bar line, a signature change on a bar line -/
def exMeta : List Msg := [Msg.mkTimeSig 0 3 4 pyNone, Msg.mkOn 0 60 64 pyNone, Msg.mkWait 0 96, Msg.mkOff 0 60 pyNone,
                          { ty := .keySignature, ch := 0, key := 1 }, Msg.mkWait 0 48, Msg.mkTimeSig 0 2 4 pyNone, Msg.mkWait 0 10]
def exOther : List Msg := [Msg.mkWait 0 30, Msg.mkOn 0 48 64 pyNone, Msg.mkWait 0 12, Msg.mkOff 0 48 pyNone]
example : (splitBars 24 [6, 12, 24] [exMeta, exOther] 0 false).toOption.map
    (fun tb => tb.map (fun bs => bs.map (fun b => (b.num, b.den, b.key, durRel b.seq))))
    = some [[(3, 4, pyNone, 72), (3, 4, pyNone, 72), (2, 4, 1, 48)], [(3, 4, pyNone, 72), (3, 4, pyNone, 72), (2, 4, 1, 48)]] := by
  decide +kernel

end SCoda.C09
