/-
  C20 — key and circle-of-fifths tables are algebraically consistent.
  Every theorem is about the *generated* tables and the *translated* function bodies
  (`SCoda/Gen/Tables.lean`, `SCoda/Gen/TheoryFns.lean`), regenerated from /repo on every run.
  Finite cores are decided by the kernel (`decide`), lifted to all integers by `Int.emod` lemmas.
-/
import SCoda.Gen.TheoryFns
namespace SCoda.C20
open SCoda.Gen

/-- number of keys -/
def nKeys : Nat := keyNames.length

/-- the scale (note values, from the tonic upwards) of a key index -/
def scale (k : Int) : Option (List Int) := (keyNoteMapping.find? (·.1 == k)).map (·.2.1)
def tonic (k : Int) : Option Int := (scale k).bind List.head?

def majorSteps : List Int := [0, 2, 4, 5, 7, 9, 11]

def validKey (k : Int) : Prop := 0 ≤ k ∧ k < (nKeys : Int)
instance (k : Int) : Decidable (validKey k) := by unfold validKey; infer_instance

/-! ### reduction modulo 12 -/

theorem transposeKey_mod (k n : Int) : transposeKey k n = transposeKey k (n % 12) := by
  simp [transposeKey, Int.emod_emod_of_dvd, Int.add_emod_emod]

theorem getPosition_mod (a : Int) : getPosition a = getPosition (a % 12) := by
  simp [getPosition, Int.emod_emod_of_dvd]

theorem getDistance_mod (a b : Int) : getDistance a b = getDistance (a % 12) (b % 12) := by
  unfold getDistance
  dsimp only
  rw [getPosition_mod a, getPosition_mod b]

theorem fromDistance_mod (a d : Int) : fromDistance a d = fromDistance (a % 12) (d % 12) := by
  simp [fromDistance, Int.emod_emod_of_dvd, Int.add_emod_emod]

/-- lifting a property of residues to all integers -/
theorem forall_residue {P : Int → Prop} (h : ∀ r ∈ List.range 12, P (r : Int)) (n : Int) : P (n % 12) := by
  have h0 : 0 ≤ n % 12 := Int.emod_nonneg _ (by decide)
  have h1 : n % 12 < 12 := Int.emod_lt_of_pos _ (by decide)
  have := h (n % 12).toNat (by simp [List.mem_range]; omega)
  rwa [Int.toNat_of_nonneg h0] at this

theorem forall_key {P : Int → Prop} (h : ∀ k ∈ List.range nKeys, P (k : Int)) (k : Int) (hk : validKey k) : P k := by
  have h2 : k < (nKeys : Int) := hk.2
  have h1 : 0 ≤ k := hk.1
  have := h k.toNat (by simp only [List.mem_range]; omega)
  rwa [Int.toNat_of_nonneg hk.1] at this

/-! ### finite cores (kernel-decided over the whole generated tables) -/

def totalCore (k r : Int) : Bool :=
  match transposeKey k r with
  | some k' => decide (0 ≤ k') && decide (k' < nKeys)
  | none => false

theorem total_core : ∀ k ∈ List.range nKeys, ∀ r ∈ List.range 12, totalCore (k : Int) (r : Int) = true := by
  decide

def tonicCore (k r : Int) : Bool :=
  match transposeKey k r, tonic k, scale k with
  | some k', some t, some sc =>
    tonic k' == some ((t + r) % 12) && scale k' == some (sc.map (fun x => (x + r) % 12))
  | _, _, _ => false

theorem tonic_core : ∀ k ∈ List.range nKeys, ∀ r ∈ List.range 12, tonicCore (k : Int) (r : Int) = true := by
  decide

def majorCore (k : Int) : Bool :=
  match tonic k, scale k with
  | some t, some sc => sc == majorSteps.map (fun i => (t + i) % 12) && decide (0 ≤ t) && decide (t < 12)
  | _, _ => false

theorem major_core : ∀ k ∈ List.range nKeys, majorCore (k : Int) = true := by decide

def identityCore (k : Int) : Bool := transposeKey k 0 == some k

theorem identity_core : ∀ k ∈ List.range nKeys, identityCore (k : Int) = true := by decide

def cofCore (a b : Int) : Bool :=
  match getDistance a b, getPosition a, getPosition b with
  | some d, some pa, some pb =>
    decide (-5 ≤ d) && decide (d ≤ 6) && decide ((d - (pb - pa)) % 12 = 0) && fromDistance a d == some b
  | _, _, _ => false

theorem cof_core : ∀ a ∈ List.range 12, ∀ b ∈ List.range 12, cofCore (a : Int) (b : Int) = true := by decide

/-! ### the property theorems -/

/-- transposing a key by any integer returns a key, never nothing -/
theorem transpose_total (k n : Int) (hk : validKey k) :
    ∃ k', transposeKey k n = some k' ∧ validKey k' := by
  rw [transposeKey_mod]
  have h := forall_key (P := fun k => ∀ r ∈ List.range 12, totalCore k (r : Int) = true)
    (fun k hk r hr => total_core k hk r hr) k hk
  have := forall_residue (P := fun r => totalCore k r = true) h n
  unfold totalCore at this
  split at this
  · rename_i k' hk'
    simp at this
    exact ⟨k', hk', this.1, this.2⟩
  · simp at this

/-- …whose tonic and scale are the original's shifted by that interval modulo 12 -/
theorem transpose_tonic (k n : Int) (hk : validKey k) :
    ∃ k' t sc, transposeKey k n = some k' ∧ tonic k = some t ∧ scale k = some sc
      ∧ tonic k' = some ((t + n) % 12) ∧ scale k' = some (sc.map (fun x => (x + n) % 12)) := by
  rw [transposeKey_mod]
  have h := forall_key (P := fun k => ∀ r ∈ List.range 12, tonicCore k (r : Int) = true)
    (fun k hk r hr => tonic_core k hk r hr) k hk
  have := forall_residue (P := fun r => tonicCore k r = true) h n
  unfold tonicCore at this
  split at this
  · rename_i k' t sc h1 h2 h3
    simp at this
    refine ⟨k', t, sc, h1, h2, h3, ?_, ?_⟩
    · rw [this.1]
    · rw [this.2]
  · simp at this

/-- every key's note set is a major scale on its tonic -/
theorem scales_major (k : Int) (hk : validKey k) :
    ∃ t, tonic k = some t ∧ 0 ≤ t ∧ t < 12 ∧ scale k = some (majorSteps.map (fun i => (t + i) % 12)) := by
  have := forall_key (P := fun k => majorCore k = true) major_core k hk
  unfold majorCore at this
  split at this
  · rename_i t sc h1 h2
    simp at this
    exact ⟨t, h1, this.1.2, this.2, by rw [h2, this.1.1]⟩
  · simp at this

/-- the tonic of a key, as a total function on valid keys (0 otherwise) -/
def tonicD (k : Int) : Int := (tonic k).getD 0

theorem tonic_of_transpose (k n : Int) (hk : validKey k) :
    ∃ k', transposeKey k n = some k' ∧ validKey k' ∧ tonicD k' = (tonicD k + n) % 12 := by
  obtain ⟨k', hk', hv⟩ := transpose_total k n hk
  obtain ⟨k'', t, sc, h1, h2, _, h4, _⟩ := transpose_tonic k n hk
  rw [hk'] at h1; cases h1
  exact ⟨k', hk', hv, by simp [tonicD, h2, h4]⟩

/-- transpositions compose additively (on tonics, i.e. up to enharmonic spelling) -/
theorem transpose_compose (k a b : Int) (hk : validKey k) :
    ∃ k1 k2 k3, transposeKey k a = some k1 ∧ transposeKey k1 b = some k2 ∧ transposeKey k (a + b) = some k3
      ∧ tonicD k2 = tonicD k3 := by
  obtain ⟨k1, h1, v1, t1⟩ := tonic_of_transpose k a hk
  obtain ⟨k2, h2, _, t2⟩ := tonic_of_transpose k1 b v1
  obtain ⟨k3, h3, _, t3⟩ := tonic_of_transpose k (a + b) hk
  refine ⟨k1, k2, k3, h1, h2, h3, ?_⟩
  rw [t2, t1, t3]; omega

/-- a multiple of 12 is the identity -/
theorem transpose_12 (k n : Int) (hk : validKey k) (hn : n % 12 = 0) : transposeKey k n = some k := by
  rw [transposeKey_mod, hn]
  have := forall_key (P := fun k => identityCore k = true) identity_core k hk
  simpa [identityCore] using this

/-- circle of fifths: distance in [-5, 6], agrees with the position difference modulo 12, and
    moving from `a` by that distance lands on `b`'s pitch class — for all integers a, b -/
theorem cof (a b : Int) :
    ∃ d pa pb, getDistance a b = some d ∧ getPosition a = some pa ∧ getPosition b = some pb
      ∧ -5 ≤ d ∧ d ≤ 6 ∧ (d - (pb - pa)) % 12 = 0 ∧ fromDistance a d = some (b % 12) := by
  rw [getDistance_mod, getPosition_mod a, getPosition_mod b]
  have h := forall_residue (P := fun x => ∀ r ∈ List.range 12, cofCore x (r : Int) = true)
    (fun x hx r hr => cof_core x hx r hr) a
  have := forall_residue (P := fun y => cofCore (a % 12) y = true) h b
  unfold cofCore at this
  split at this
  · rename_i d pa pb h1 h2 h3
    simp at this
    refine ⟨d, pa, pb, h1, h2, h3, this.1.1.1, this.1.1.2, this.1.2, ?_⟩
    have h4 := this.2
    rw [fromDistance_mod] at h4 ⊢
    simpa [Int.emod_emod_of_dvd] using h4
  · simp at this

/-! ### non-vacuity -/
example : validKey 0 ∧ validKey 14 := by decide
example : transposeKey 0 7 = some 1 := by decide      -- C up a fifth is G
example : getDistance 60 67 = some 1 := by decide

end SCoda.C20
