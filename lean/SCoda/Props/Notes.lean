/-
  Pairing ↔ notes: on a sorted well-formed list the per-channel pairings computed by
  `get_message_pairings` are exactly the notes (`notesOf`, the specification-side reading),
  and three consequences that close clauses of C17, C18 and C14:
  * C17: `equals = true` implies equal notes and equal signatures (general sensitivity);
  * C18: cut-off at the level of notes;
  * C14: what `Sequence.transpose` does after an octave wrap only removes or shortens notes.
-/
import SCoda.Model.Pairing
import SCoda.Model.Quantise
import SCoda.Model.Wrapper
import SCoda.Model.Roll
import SCoda.Props.C17
import SCoda.Props.C18
import SCoda.Props.C14
import SCoda.Props.C06
import SCoda.Props.C07
import SCoda.Lemmas.NotesL
namespace SCoda.Notes
open SCoda

/-- a two-element pairing read as a note -/
def toNote : Pairing → Option Note
  | [on, off] => some { ch := on.ch, pitch := on.note, on := on.time, off := off.time, vel := on.vel }
  | _ => Option.none

/-- all note pairings of all channels -/
def notePairings (ppqn : Int) (a : List Msg) : List Pairing :=
  (pairings notePairTypes ppqn true a).flatMap (·.2)

theorem toNote_eq (p : Pairing) : toNote p = (NotesL.toPair p).map NotesL.mkNote := by
  unfold toNote NotesL.toPair
  split <;> simp [NotesL.mkNote]

/-- **pairing = notes**: if the sorted list is well-formed, the pairings are its notes (up to the
    order in which channels are listed), every pairing consists of two messages of the list (nothing
    is imputed), and within a pairing the note-off belongs to the note-on's channel and pitch -/
theorem pairings_notes (ppqn : Int) (a : List Msg) (hwf : WF (sortAbs a)) :
    ((notePairings ppqn a).filterMap toNote).Perm (notesOf (sortAbs a))
    ∧ ∀ p ∈ notePairings ppqn a, ∃ on off, p = [on, off] ∧ on ∈ a ∧ off ∈ a
        ∧ on.ty = .noteOn ∧ off.ty = .noteOff ∧ off.nkey = on.nkey := by
  obtain ⟨h1, h2, h3⟩ := NotesL.pairingsSorted_sim notePairTypes rfl rfl ppqn (sortAbs a) hwf
  constructor
  · have e1 : (notePairings ppqn a).filterMap toNote
        = ((NotesL.allP (pairings notePairTypes ppqn true a)).filterMap NotesL.toPair).map NotesL.mkNote := by
      rw [List.map_filterMap]
      have : toNote = fun p => (NotesL.toPair p).map NotesL.mkNote := funext toNote_eq
      rw [this]
      rfl
    rw [e1, notesOf, NotesL.notesGo_eq]
    exact h1.map _
  · intro p hp
    simp only [notePairings, List.mem_flatMap] at hp
    obtain ⟨c, hc, hpc⟩ := hp
    rcases h3 c hc p hpc with ⟨on, off, rfl, g1, g2, g3, _, g5, g6⟩ | ⟨m, rfl, g1, g2, _⟩
    · exact ⟨on, off, rfl, (mem_sortAbs a on).1 g5, (mem_sortAbs a off).1 g6, g1, g2, g3⟩
    · exfalso
      have hnil : NotesL.others notePairTypes (sortAbs a) = [] := by
        simp only [NotesL.others, List.filter_eq_nil_iff]
        intro m _
        cases m.ty <;> decide
      rw [hnil] at h2
      have hm : m ∈ (NotesL.allP (pairingsSorted notePairTypes ppqn true (sortAbs a))).filterMap NotesL.toSingle := by
        rw [List.mem_filterMap]
        exact ⟨[m], List.mem_flatMap.2 ⟨c, hc, hpc⟩, by simp [NotesL.toSingle, g1]⟩
      rw [h2.eq_nil] at hm
      cases hm

/-! ## C17 — general sensitivity -/

/-- a signature event as (tick, value) -/
def tsOf (a : List Msg) : List (Int × Int × Int) :=
  ((sortAbs a).filter (·.ty == .timeSignature)).map (fun m => (m.time, m.num, m.den))
def ksOf (a : List Msg) : List (Int × Int) :=
  ((sortAbs a).filter (·.ty == .keySignature)).map (fun m => (m.time, m.key))

/-- **equals is sound**: two well-formed sequences that compare equal (no flags) have the same notes —
    channel, pitch, onset, end (hence duration) and velocity — and the same time and key signatures at
    the same ticks; so a difference in any of these makes `equals` fail -/
theorem equals_sound (ppqn : Int) (a b : List Msg) (ha : WF (sortAbs a)) (hb : WF (sortAbs b))
    (h : equalsAbs ppqn {} a b = true) :
    (notesOf (sortAbs a)).Perm (notesOf (sortAbs b))
    ∧ (tsOf a).Perm (tsOf b) ∧ (ksOf a).Perm (ksOf b) := by
  have hz : zipAll (pairEq {}) (interleaved NotesL.T4 ppqn true a) (interleaved NotesL.T4 ppqn true b) = true := by
    have : equalsAbs ppqn {} a b =
        ((interleaved NotesL.T4 ppqn true a).length == (interleaved NotesL.T4 ppqn true b).length
          && zipAll (pairEq {}) (interleaved NotesL.T4 ppqn true a) (interleaved NotesL.T4 ppqn true b)) := rfl
    rw [this, Bool.and_eq_true] at h
    exact h.2
  obtain ⟨h1, h2, h3⟩ := NotesL.sound_core ppqn a b ha hb hz
  refine ⟨?_, ?_, ?_⟩
  · simpa [notesOf, NotesL.notesGo_eq] using h1
  · simpa [tsOf, NotesL.others_ts] using h2
  · simpa [ksOf, NotesL.others_ks] using h3

/-! ## C18 — cut-off at the level of notes -/

/-- every note lasts at least one tick -/
def PosDur (a : List Msg) : Prop := ∀ n ∈ notesOf a, n.on < n.off

/-- cut-off with maximum `m` and replacement `1 ≤ r ≤ m` shortens exactly the notes longer than `m` to
    `r` and leaves every other note (and every onset, pitch, channel, velocity) unchanged -/
theorem cutoff_notes (m r : Int) (hr : 1 ≤ r ∧ r ≤ m) (a : List Msg) (hwf : WF (sortAbs a)) (hpd : PosDur (sortAbs a)) :
    (notesOf (cutoff m r a)).Perm
      ((notesOf (sortAbs a)).map (fun n => if n.off - n.on > m then { n with off := n.on + r } else n)) := by
  exact NotesL.cutoff_notes_core m r hr (sortAbs a) (EQ.sortAbs_sorted a) hwf hpd

/-! ## C14 — the re-normalisation after an octave wrap -/

/-- note-ons of `normalise r` are note-ons of `r` (nothing is invented or re-pitched) -/
theorem normalise_note_ons (r : List Msg) : ∀ m ∈ normalise r, m.ty = .noteOn → m ∈ r := by
  intro m hm hty
  rcases normalise_entries r m hm with ⟨h, _⟩ | ⟨_, h⟩
  · rw [hty] at h; cases h
  · exact h

theorem eventsRelGo_src (r : List Msg) : ∀ (cur : Int), ∀ e ∈ eventsRelGo cur r,
    ∃ m0 ∈ r, e = { m0 with time := e.time } := by
  induction r with
  | nil => intro cur e he; simp [eventsRelGo] at he
  | cons m ms ih =>
    intro cur e he
    by_cases hw : m.ty = .wait
    · simp only [eventsRelGo, hw, beq_self_eq_true, if_true] at he
      obtain ⟨m0, h0, h1⟩ := ih _ e he
      exact ⟨m0, List.mem_cons_of_mem _ h0, h1⟩
    · simp [eventsRelGo, hw] at he
      rcases he with rfl | he
      · exact ⟨m, by simp, rfl⟩
      · obtain ⟨m0, h0, h1⟩ := ih _ e he
        exact ⟨m0, List.mem_cons_of_mem _ h0, h1⟩

/-- the absolute view regenerated from a relative one holds the same note-ons up to their tick -/
theorem toAbs_note_ons (r : List Msg) : ∀ m ∈ toAbs r, m.ty = .noteOn → ∃ m0 ∈ r, m0.ty = .noteOn ∧ m = { m0 with time := m.time } := by
  intro m hm hty
  have hev : m ∈ eventsRel r := by
    rw [toAbs_eq] at hm
    split at hm
    · exact (mem_sortAbs _ m).1 hm
    · rcases List.mem_cons.1 ((insort_perm _ _).mem_iff.1 hm) with rfl | hm
      · cases hty
      · exact (mem_sortAbs _ m).1 hm
  obtain ⟨m0, h0, h1⟩ := eventsRelGo_src r 0 m hev
  refine ⟨m0, h0, ?_, h1⟩
  rw [h1] at hty
  exact hty

theorem transposeSeq_ofRel (e : Env) (r : List Msg) (by_ : Int) :
    Seq.transposeSeq e (Seq.ofRel r) by_ =
      if (transposeRel e.noteLo e.noteHi (fun k => e.tk k by_) by_ r).2 = true then
        (match quantiseNoteLengths e.defValues e.ppqn false
            (toAbs (normalise (transposeRel e.noteLo e.noteHi (fun k => e.tk k by_) by_ r).1)) with
          | .ok v => .ok ({ abs := v, rel := normalise (transposeRel e.noteLo e.noteHi (fun k => e.tk k by_) by_ r).1,
                            absStale := false, relStale := true }, true)
          | .error err => .error err)
      else .ok ({ abs := [], rel := (transposeRel e.noteLo e.noteHi (fun k => e.tk k by_) by_ r).1, absStale := true, relStale := false }, false) := by
  unfold Seq.transposeSeq
  simp only [Seq.ofRel, Seq.readRel, Bool.false_eq_true, if_false, bind, Except.bind]
  by_cases hc : (transposeRel e.noteLo e.noteHi (fun k => e.tk k by_) by_ r).2 = true
  · simp only [hc, if_true]
    simp only [Seq.normaliseSeq, Seq.onRel, Seq.readRel, Seq.qnlSeq, Seq.onAbs, Seq.readAbs,
      bind, Except.bind, Bool.false_eq_true, if_false, if_true, Option.getD_none]
    cases quantiseNoteLengths e.defValues e.ppqn false
        (toAbs (normalise (transposeRel e.noteLo e.noteHi (fun k => e.tk k by_) by_ r).fst)) <;> rfl
  · simp [hc]

/-- **C14 glue**: whatever `Sequence.transpose` does after the pitch shift (normalise, note-length
    quantisation), every note-on of the result is a note-on of the shifted relative view with the same
    pitch, channel and velocity — so "in range" and "pitch class shifted by the interval" carry over
    from `C14.in_range` / `C14.image_pointwise` to the final sequence -/
theorem transposeSeq_note_ons (e : Env) (r : List Msg) (by_ : Int) (s' : Seq) (flag : Bool) (a' : List Msg)
    (h : Seq.transposeSeq e (Seq.ofRel r) by_ = .ok (s', flag))
    (ha : ∃ s'', s'.readAbs = .ok (s'', a')) :
    flag = (transposeRel e.noteLo e.noteHi (fun k => e.tk k by_) by_ r).2
    ∧ ∀ m ∈ a', m.ty = .noteOn →
        ∃ m0 ∈ (transposeRel e.noteLo e.noteHi (fun k => e.tk k by_) by_ r).1,
          m0.ty = .noteOn ∧ m0.note = m.note ∧ m0.ch = m.ch ∧ m0.vel = m.vel := by
  obtain ⟨s'', hs''⟩ := ha
  rw [transposeSeq_ofRel] at h
  generalize transposeRel e.noteLo e.noteHi (fun k => e.tk k by_) by_ r = T at h ⊢
  obtain ⟨r', shifted⟩ := T
  simp only at h ⊢
  have fromAbs : ∀ m ∈ toAbs r', m.ty = .noteOn →
      ∃ m0 ∈ r', m0.ty = .noteOn ∧ m0.note = m.note ∧ m0.ch = m.ch ∧ m0.vel = m.vel := by
    intro m hm hty
    obtain ⟨m0, h0, h1, h2⟩ := toAbs_note_ons r' m hm hty
    refine ⟨m0, h0, h1, ?_, ?_, ?_⟩ <;> rw [h2]
  cases shifted with
  | false =>
    simp only [Bool.false_eq_true, if_false, Except.ok.injEq, Prod.mk.injEq] at h
    obtain ⟨rfl, rfl⟩ := h
    simp only [Seq.readAbs, if_true, Bool.false_eq_true, if_false, Except.ok.injEq, Prod.mk.injEq] at hs''
    obtain ⟨_, rfl⟩ := hs''
    exact ⟨rfl, fromAbs⟩
  | true =>
    simp only [if_true] at h
    split at h
    · rename_i out hq
      simp only [Except.ok.injEq, Prod.mk.injEq] at h
      obtain ⟨rfl, rfl⟩ := h
      simp only [Seq.readAbs, Bool.false_eq_true, if_false, Except.ok.injEq, Prod.mk.injEq] at hs''
      obtain ⟨_, rfl⟩ := hs''
      refine ⟨rfl, ?_⟩
      intro m hm hty
      have h1 := C06.onsets_kept _ _ _ _ _ hq m hm hty
      obtain ⟨m0, h0, g1, g2⟩ := toAbs_note_ons _ m h1 hty
      have h2 := normalise_note_ons r' m0 h0 g1
      refine ⟨m0, h2, g1, ?_, ?_, ?_⟩ <;> rw [g2]
    · cases h

/-! non-vacuity -/
def ex : List Msg := [Msg.mkOn 0 60 64 0, Msg.mkOn 1 60 70 0, Msg.mkOff 0 60 24, Msg.mkOn 0 62 80 24, Msg.mkOff 1 60 30, Msg.mkOff 0 62 70]
example : (notePairings 24 ex).filterMap toNote =
    [{ ch := 0, pitch := 60, on := 0, off := 24, vel := 64 }, { ch := 0, pitch := 62, on := 24, off := 70, vel := 80 },
     { ch := 1, pitch := 60, on := 0, off := 30, vel := 70 }] := by
  decide
example : (notesOf (cutoff 40 12 ex)).map (fun n => (n.pitch, n.on, n.off)) = [(60, 0, 24), (60, 0, 30), (62, 24, 36)] := by
  decide

end SCoda.Notes
