/-
  C19 — token annotations agree with the detokenised timeline.
  `getInfo` and `detokenise` are two folds over the same token list; the theorems say that their
  clocks coincide on every stream the detokeniser accepts, so the time annotated on a note token is
  the tick at which `detokenise` places that note.
-/
import SCoda.Model.Token
namespace SCoda.C19
open SCoda

/-- `detokenise` as a fold returning the whole state -/
def detokFold (c : Cfg) (toks : List Tok) : Except Err DetokSt :=
  toks.foldl (fun (acc : Except Err DetokSt) t =>
    match acc with | .ok d => dstep c d t | .error e => .error e) (Except.ok (DetokSt.init c))

/-- `get_info` as a fold returning the whole state -/
def infoFold (c : Cfg) (cof : Int → Int) (imp : Bool) (toks : List Tok) : InfoSt :=
  toks.foldl (infoStep c cof imp)
    { capTotal := c.capacity c.defNum c.defDen, capRem := c.capacity c.defNum c.defDen }


/-! ### helper lemmas -/

theorem mem_insort_self (l : List Msg) (m : Msg) : m ∈ insort l m := by
  simp [insort]

theorem mem_insort_of_mem {l : List Msg} {x : Msg} (m : Msg) (h : x ∈ l) : x ∈ insort l m := by
  unfold insort
  simp only [List.mem_append, List.mem_cons]
  have := List.take_append_drop (insortGo m.time l.toArray (l.length + 1) 0 l.length) l
  rw [← this, List.mem_append] at h
  grind

theorem modifyAt_length {α} (f : α → α) (i : Nat) (l : List α) : (modifyAt f i l).length = l.length := by
  induction l generalizing i with
  | nil => simp [modifyAt]
  | cons x xs ih => cases i <;> simp [modifyAt, ih]

theorem modifyAt_getElem? {α} (f : α → α) (i : Nat) (l : List α) :
    (modifyAt f i l)[i]? = l[i]?.map f := by
  induction l generalizing i with
  | nil => simp [modifyAt]
  | cons x xs ih => cases i <;> simp [modifyAt, ih]

theorem foldl_error (c : Cfg) (e : Err) (toks : List Tok) :
    toks.foldl (fun (acc : Except Err DetokSt) t =>
      match acc with | .ok d => dstep c d t | .error e => .error e) (Except.error e) = .error e := by
  induction toks with
  | nil => rfl
  | cons t ts ih => simpa [List.foldl] using ih

/-- the four clock fields of the two states coincide -/
def Clk (s : InfoSt) (d : DetokSt) : Prop :=
  s.curTime = d.curTime ∧ s.curTimeBar = d.curTimeBar ∧ s.capTotal = d.capTotal ∧ s.capRem = d.capRem

/-- a note token: the track/value/velocity parts only set the running values, then the pitch part runs -/
theorem dstep_note {c : Cfg} {d d' : DetokSt} {tr : Option Int} {p : Int} {v w : Option Int}
    (h : dstep c d (.note tr p v w) = .ok d') :
    ∃ d1 : DetokSt, d1.curTime = d.curTime ∧ d1.curTimeBar = d.curTimeBar ∧ d1.capTotal = d.capTotal
      ∧ d1.capRem = d.capRem ∧ d1.seqs = d.seqs ∧ dpart c d1 (.pit p) = .ok d' := by
  refine ⟨{ d with prvTrack := tr.getD d.prvTrack, prvValue := v.getD d.prvValue,
                     prvVel := w.getD d.prvVel }, rfl, rfl, rfl, rfl, rfl, ?_⟩
  cases tr <;> cases v <;> cases w <;> exact h

theorem dpart_pit {c : Cfg} {d d' : DetokSt} {p : Int} (h : dpart c d (.pit p) = .ok d') :
    d'.curTime = d.curTime ∧ d'.curTimeBar = d.curTimeBar ∧ d'.capTotal = d.capTotal
      ∧ d'.capRem = d.capRem ∧ d'.prvVel = d.prvVel ∧ d'.prvValue = d.prvValue
      ∧ ∃ (i : Nat) (l : List Msg), d'.seqs[i]? = some l
        ∧ Msg.mkOn 0 p d.prvVel d.curTime ∈ l ∧ Msg.mkOff 0 p (d.curTime + d.prvValue) ∈ l := by
  simp only [dpart] at h
  split at h
  · cases h
  · rename_i hc
    simp only [Bool.or_eq_true, decide_eq_true_eq, not_or, Int.not_lt, Nat.not_le] at hc
    cases h
    refine ⟨rfl, rfl, rfl, rfl, rfl, rfl, d.prvTrack.toNat, ?_⟩
    simp only [addAbs, modifyAt_getElem?]
    have : d.seqs[d.prvTrack.toNat]? = some (d.seqs[d.prvTrack.toNat]'hc.2) := by simp
    rw [this]
    refine ⟨_, rfl, ?_, ?_⟩
    · exact mem_insort_of_mem _ (mem_insort_self _ _)
    · exact mem_insort_self _ _

theorem infoStep_pos (c : Cfg) (cof : Int → Int) (imp : Bool) (s : InfoSt) (t : Tok) :
    (infoStep c cof imp s t).pos = s.pos + 1 := by
  simp [infoStep]

theorem infoStep_out (c : Cfg) (cof : Int → Int) (imp : Bool) (s : InfoSt) (t : Tok) :
    ∃ p q, (infoStep c cof imp s t).out = (s.pos, s.curTime, s.curTimeBar, p, q) :: s.out := by
  cases t <;> simp only [infoStep] <;> (try split) <;> exact ⟨_, _, rfl⟩

theorem infoStep_out_note (c : Cfg) (cof : Int → Int) (imp : Bool) (s : InfoSt)
    (tr : Option Int) (p : Int) (v w : Option Int) :
    (infoStep c cof imp s (.note tr p v w)).out
      = (s.pos, s.curTime, s.curTimeBar, some p, some (cof p)) :: s.out := by
  simp [infoStep]

/-- one token keeps the clocks together -/
theorem step_clk {c : Cfg} (cof : Int → Int) (imp : Bool) {s : InfoSt} {d d' : DetokSt} {t : Tok}
    (hc : Clk s d) (h : dstep c d t = .ok d') : Clk (infoStep c cof imp s t) d' := by
  obtain ⟨h1, h2, h3, h4⟩ := hc
  cases t with
  | note tr p v w =>
    obtain ⟨d1, e1, e2, e3, e4, -, hp⟩ := dstep_note h
    obtain ⟨f1, f2, f3, f4, -⟩ := dpart_pit hp
    simp only [Clk, infoStep]
    refine ⟨?_, ?_, ?_, ?_⟩ <;> simp [*]
  | tsig a b =>
    simp only [dstep, Tok.parts, List.foldl, dpart] at h
    simp only [Clk, infoStep]
    split at h
    · cases h
      rw [if_pos (by omega)]
      exact ⟨h1, h2, h3, h4⟩
    · rw [if_neg (by omega)]
      split at h
      · cases h
      · cases h
        exact ⟨h1, h2, rfl, rfl⟩
  | _ =>
    simp only [dstep, Tok.parts, List.foldl, dpart] at h
    cases h
    simp only [Clk, infoStep]
    refine ⟨?_, ?_, ?_, ?_⟩ <;> simp [*]

/-- the generalised fold invariant for the info state -/
theorem info_foldl (c : Cfg) (cof : Int → Int) (imp : Bool) (s : InfoSt) (toks : List Tok) :
    (toks.foldl (infoStep c cof imp) s).pos = s.pos + (toks.length : Int) ∧
    ∃ rows, rows.length = toks.length ∧ (toks.foldl (infoStep c cof imp) s).out = rows ++ s.out := by
  induction toks generalizing s with
  | nil => exact ⟨by simp, [], rfl, rfl⟩
  | cons t ts ih =>
    obtain ⟨hp, rows, hl, ho⟩ := ih (infoStep c cof imp s t)
    obtain ⟨p, q, hq⟩ := infoStep_out c cof imp s t
    refine ⟨?_, rows ++ [(s.pos, s.curTime, s.curTimeBar, p, q)], ?_, ?_⟩
    · simp only [List.foldl, hp, infoStep_pos, List.length_cons]; omega
    · simp [hl]
    · simp only [List.foldl, ho, hq]; simp

theorem infoFold_pos (c : Cfg) (cof : Int → Int) (imp : Bool) (toks : List Tok) :
    (infoFold c cof imp toks).pos = (toks.length : Int) := by
  have := (info_foldl c cof imp
    { capTotal := c.capacity c.defNum c.defDen, capRem := c.capacity c.defNum c.defDen } toks).1
  simpa [infoFold] using this

theorem infoFold_out_length (c : Cfg) (cof : Int → Int) (imp : Bool) (toks : List Tok) :
    (infoFold c cof imp toks).out.length = toks.length := by
  obtain ⟨-, rows, hl, ho⟩ := info_foldl c cof imp
    { capTotal := c.capacity c.defNum c.defDen, capRem := c.capacity c.defNum c.defDen } toks
  simp only [infoFold, ho]; simp [hl]

/-- the generalised fold invariant for the clocks -/
theorem clk_foldl {c : Cfg} (cof : Int → Int) (imp : Bool) (toks : List Tok) (s : InfoSt) (d0 d : DetokSt)
    (hc : Clk s d0)
    (h : toks.foldl (fun (acc : Except Err DetokSt) t =>
      match acc with | .ok d => dstep c d t | .error e => .error e) (Except.ok d0) = .ok d) :
    Clk (toks.foldl (infoStep c cof imp) s) d := by
  induction toks generalizing s d0 with
  | nil => simp only [List.foldl] at h; cases h; exact hc
  | cons t ts ih =>
    simp only [List.foldl] at h ⊢
    cases hd : dstep c d0 t with
    | error e => rw [hd, foldl_error] at h; cases h
    | ok d1 => rw [hd] at h; exact ih _ _ (step_clk cof imp hc hd) h

theorem getInfo_eq' (c : Cfg) (cof : Int → Int) (imp : Bool) (toks : List Tok) :
    getInfo c cof imp toks = (infoFold c cof imp toks).out.reverse := rfl

/-- the row at position `pre.length` is the head of the output after stepping over `t` -/
theorem getInfo_at (c : Cfg) (cof : Int → Int) (imp : Bool) (pre : List Tok) (t : Tok) (post : List Tok) :
    (getInfo c cof imp (pre ++ t :: post))[pre.length]? =
      (infoStep c cof imp (infoFold c cof imp pre) t).out.head? := by
  rw [getInfo_eq']
  have : infoFold c cof imp (pre ++ t :: post)
      = post.foldl (infoStep c cof imp) (infoStep c cof imp (infoFold c cof imp pre) t) := by
    simp [infoFold, List.foldl_append]
  rw [this]
  obtain ⟨-, rows, -, ho⟩ := info_foldl c cof imp (infoStep c cof imp (infoFold c cof imp pre) t) post
  obtain ⟨p, q, hq⟩ := infoStep_out c cof imp (infoFold c cof imp pre) t
  rw [ho, hq]
  have hl := infoFold_out_length c cof imp pre
  simp only [List.reverse_append, List.reverse_cons, List.append_assoc, List.head?_cons]
  rw [List.getElem?_append_right (by simp [hl])]
  simp [hl]

theorem row_at_aux (c : Cfg) (cof : Int → Int) (imp : Bool) (pre : List Tok) (t : Tok) (post : List Tok) :
    ∃ p q, (getInfo c cof imp (pre ++ t :: post))[pre.length]? =
      some ((pre.length : Int), (infoFold c cof imp pre).curTime, (infoFold c cof imp pre).curTimeBar, p, q) := by
  obtain ⟨p, q, hq⟩ := infoStep_out c cof imp (infoFold c cof imp pre) t
  exact ⟨p, q, by rw [getInfo_at, hq, infoFold_pos]; rfl⟩

theorem detokenise_eq (c : Cfg) (toks : List Tok) :
    detokenise c toks = (detokFold c toks).map (·.seqs) := by
  unfold detokenise detokFold
  generalize List.foldl _ _ toks = r
  cases r <;> rfl

theorem getInfo_eq (c : Cfg) (cof : Int → Int) (imp : Bool) (toks : List Tok) :
    getInfo c cof imp toks = (infoFold c cof imp toks).out.reverse := by
  rfl

/-- exactly one annotation row per token -/
theorem lengths (c : Cfg) (cof : Int → Int) (imp : Bool) (toks : List Tok) :
    (getInfo c cof imp toks).length = toks.length := by
  rw [getInfo_eq, List.length_reverse, infoFold_out_length]

/-- positions count 0, 1, 2, … -/
theorem positions (c : Cfg) (cof : Int → Int) (imp : Bool) (toks : List Tok) (i : Nat)
    (h : i < (getInfo c cof imp toks).length) :
    ((getInfo c cof imp toks)[i]).1 = (i : Int) := by
  have hl := lengths c cof imp toks
  have hi : i < toks.length := by omega
  have hsplit : toks = toks.take i ++ toks[i] :: toks.drop (i + 1) := by simp
  have hlen : (toks.take i).length = i := by simp; omega
  obtain ⟨p, q, hr⟩ := row_at_aux c cof imp (toks.take i) toks[i] (toks.drop (i + 1))
  rw [← hsplit, hlen] at hr
  rw [List.getElem?_eq_getElem h] at hr
  simp only [Option.some.injEq] at hr
  rw [hr]

/-- the two clocks coincide on every stream the detokeniser accepts (any stream over the
    vocabulary, also ones no tokenise call produced) -/
theorem clocks_agree (c : Cfg) (cof : Int → Int) (imp : Bool) (toks : List Tok) (d : DetokSt)
    (h : detokFold c toks = .ok d) :
    let s := infoFold c cof imp toks
    s.curTime = d.curTime ∧ s.curTimeBar = d.curTimeBar ∧ s.capTotal = d.capTotal ∧ s.capRem = d.capRem
      ∧ s.pos = (toks.length : Int) := by
  have hc : Clk { capTotal := c.capacity c.defNum c.defDen, capRem := c.capacity c.defNum c.defDen }
      (DetokSt.init c) := ⟨rfl, rfl, rfl, rfl⟩
  obtain ⟨h1, h2, h3, h4⟩ := clk_foldl cof imp toks _ _ d hc h
  exact ⟨h1, h2, h3, h4, infoFold_pos c cof imp toks⟩

/-- the row written for the token at position `pre.length` carries the clock after `pre` -/
theorem row_at (c : Cfg) (cof : Int → Int) (imp : Bool) (pre : List Tok) (t : Tok) (post : List Tok) :
    ∃ p q, (getInfo c cof imp (pre ++ t :: post))[pre.length]? =
      some ((pre.length : Int), (infoFold c cof imp pre).curTime, (infoFold c cof imp pre).curTimeBar, p, q) := by
  exact row_at_aux c cof imp pre t post

/-- **same clock**: for a note token, the annotated time is the onset at which `detokenise`
    places the note, and the pitch / circle-of-fifths annotations are the note's -/
theorem note_annotation (c : Cfg) (cof : Int → Int) (imp : Bool) (pre post : List Tok)
    (tr : Option Int) (p : Int) (v w : Option Int) (d d' : DetokSt)
    (hpre : detokFold c pre = .ok d) (hstep : dstep c d (.note tr p v w) = .ok d') :
    -- the annotation row of this token
    (getInfo c cof imp (pre ++ Tok.note tr p v w :: post))[pre.length]? =
        some ((pre.length : Int), d.curTime, d.curTimeBar, some p, some (cof p))
    -- and where detokenise puts the note: a note-on of pitch p at tick d.curTime in the sequence
    -- of the running track, with its note-off `value` ticks later
    ∧ ∃ (i : Nat) (l : List Msg), d'.seqs[i]? = some l
        ∧ Msg.mkOn 0 p d'.prvVel d.curTime ∈ l ∧ Msg.mkOff 0 p (d.curTime + d'.prvValue) ∈ l
        ∧ d'.curTime = d.curTime := by
  obtain ⟨h1, h2, -, -, -⟩ := clocks_agree c cof imp pre d hpre
  obtain ⟨d1, e1, -, -, -, -, hp⟩ := dstep_note hstep
  obtain ⟨f1, -, -, -, f5, f6, i, l, hl, hon, hoff⟩ := dpart_pit hp
  refine ⟨?_, i, l, hl, ?_, ?_, ?_⟩
  · rw [getInfo_at, infoStep_out_note, infoFold_pos, ← h1, ← h2]; rfl
  · rw [f5, ← e1]; exact hon
  · rw [f6, ← e1]; exact hoff
  · rw [f1, e1]

/-! non-vacuity: a concrete stream with a rest, a bar token in a partly filled bar, a mid-bar
    signature token and a note is accepted, and its note is annotated with tick 96 -/
def exCfg : Cfg := { steps := [2, 3, 4, 6, 8, 12, 16, 24], values := [4, 6, 8, 9, 12, 16, 18, 24, 36], bins := [127] }
example : (detokFold exCfg [.rest 12, .tsig 6 8, .bar, .note (some 0) 60 (some 24) (some 127)]).toOption.isSome = true := by
  decide
example : ((getInfo exCfg (fun _ => 0) false [.rest 12, .tsig 6 8, .bar, .note (some 0) 60 (some 24) (some 127)])[3]?).map (·.2.1)
    = some 96 := by
  decide

end SCoda.C19
