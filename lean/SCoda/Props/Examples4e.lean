/-
  Audit round 4, item C7 (non-vacuity), part 5: the `SameNotes` conjunct of `C03f.extract_wholebars_full` /
  `C03e.extract_wholebars_onebar` on runs of two and three bars with a note crossing a bar line, with the one-bar runs computed
  independently of the cut bars (not `one := bars`).
-/
import SCoda.Props.C03f
namespace SCoda.Examples4e
open SCoda SCoda.C01 SCoda.ChunksL SCoda.C03c SCoda.C03e SCoda.C03f SCoda.GlueL SCoda.ExtractL SCoda.SplitL

/-- the input: `C03e.gTrack0` holds a note over [72,120) that crosses the first bar line 96 (4/4, 4/4, 6/8) -/
example : (notesOf (eventsRel gTrack0)).map (fun n => (n.pitch, n.on, n.off)) = [(60, 72, 120), (62, 192, 204)] := by decide

/-- **all hypotheses of `C03f.extract_wholebars_full` together on the run of bars 0 and 1** (the note crosses the line between them),
    after a running bar length (7) that is not the first bar's; the conclusion with its `SameNotes` conjunct -/
theorem ex_extract_wholebars_full :
    ∃ bars : List BarEv,
      extract C03c.exCfg.ppqn (gBars.map (fun bs => barsToSeq ((bs.drop 0).take (2 - 0)))) = layBars C03c.exCfg bars
        ∧ BarsOk C03c.exCfg 7 bars
        ∧ bars.map (fun b => (b.num, b.den)) = (((gBars.headD []).drop 0).take (2 - 0)).map (fun b => (b.num, b.den))
        ∧ ∃ one : List BarEv,
            (∀ i, i < 2 - 0 → ∀ b ∈ one[i]?,
                extract C03c.exCfg.ppqn (gBars.map (fun bs => barsToSeq ((bs.drop (0 + i)).take 1))) = layBars C03c.exCfg [b])
            ∧ one.length = 2 - 0 ∧ SameNotes C03c.exCfg bars one :=
  extract_wholebars_full C03c.exCfg (by decide) [] [gTrack0, gTrack1] gBars (by decide) gTracks_in gBars_eq (by decide +kernel)
    0 2 7 (by omega) (by decide +kernel)

/-- the cut bars of the run `[0, 3)`: `extract` of the three bars laid end to end, cut at the bar lines -/
def cutBars : List BarEv := cutAt C03c.exCfg 0 (sigsOf gBars 0 3) (extract 24 (runTracks (segsOf gBars 0 3)))
/-- the one-bar runs: `extract` of each bar on its own -/
def oneBars : List BarEv := onesOf C03c.exCfg (sigsOf gBars 0 3) (segsOf gBars 0 3)

/-- the one-bar runs ARE `extract` of the single bars (the first conjunct about `one`), evaluated -/
example : oneBars.map (·.evs) = (List.range 3).map (fun i => extract 24 (gBars.map (fun bs => barsToSeq ((bs.drop i).take 1)))) := by
  decide +kernel

/-- the note events, bar by bar, of the cut bars (track index, then pitch and tick of the note-on and note-off): the crossing note is closed at the bar line ([72,96) in bar 0) and struck again
    ([0,24) in bar 1) -/
theorem cutBars_notes : cutBars.map (fun b => (b.evs.filter isNoteEv).map (fun ev => (ev.1, ev.2.map (fun m => (m.note, m.time))))) =
    [[(1, [(48, 48), (48, 72)]), (0, [(60, 72), (60, 96)])], [(0, [(60, 0), (60, 24)])], [(0, [(62, 0), (62, 12)]), (1, [(50, 36), (50, 72)])]] := by
  decide +kernel

/-- **`SameNotes` between two independently computed lists**: the cut bars of the three-bar run against the one-bar runs; the lists
    differ as lists (the cut bar 1 has no signature event and no cap message of its own, the one-bar run of bar 1 starts with a 4/4 event and ends with the cap message at 96) -/
theorem ex_sameNotes : SameNotes C03c.exCfg cutBars oneBars ∧ cutBars ≠ oneBars ∧ cutBars.length = 3 := by decide +kernel

/-- `C03e.extract_wholebars_onebar` on bar 1 (the bar the crossing note continues into): all its hypotheses, the bar as a one-bar
    chunk after running bar length 72 -/
theorem ex_extract_wholebars_onebar :
    ∃ bars : List BarEv,
      extract C03c.exCfg.ppqn (gBars.map (fun bs => barsToSeq ((bs.drop 1).take (1 + 1 - 1)))) = layBars C03c.exCfg bars
        ∧ BarsOk C03c.exCfg 72 bars
        ∧ bars.map (fun b => (b.num, b.den)) = (((gBars.headD []).drop 1).take (1 + 1 - 1)).map (fun b => (b.num, b.den))
        ∧ ∃ one : List BarEv,
            (∀ i, i < 1 + 1 - 1 → ∀ b ∈ one[i]?,
                extract C03c.exCfg.ppqn (gBars.map (fun bs => barsToSeq ((bs.drop (1 + i)).take 1))) = layBars C03c.exCfg [b])
            ∧ one.length = 1 + 1 - 1 ∧ SameNotes C03c.exCfg bars one :=
  extract_wholebars_onebar C03c.exCfg (by decide) [] [gTrack0, gTrack1] gBars (by decide) gBars_eq (by decide +kernel) 1 72 (by decide +kernel)
    (fun i bs h b hb => gBars_good i bs h b (by
      simp only [Nat.sub_zero, List.drop_zero]
      rw [List.take_drop] at hb
      exact List.take_subset_take_left bs (by omega) ((List.drop_sublist _ _).subset hb)))

/-- what `extract` makes of bar 1 alone: its 4/4 signature event, the re-struck note [0,24) of pitch 60 and the cap message at 96 -/
example : (extract 24 (gBars.map (fun bs => barsToSeq ((bs.drop 1).take 1)))).map (fun ev => (ev.1, ev.2.map (fun m => (m.ty, m.note, m.time)))) =
    [(0, [(.timeSignature, -1, 0)]), (0, [(.noteOn, 60, 0), (.noteOff, 60, 24)]), (0, [(.internal, -1, 96)])] := by decide +kernel

end SCoda.Examples4e

