/-
  TIE BY TRANSLATION of the one link every translator uses by name: `AbsoluteSequence.sort`
  (`self._messages.sort(key=lambda x: (x.time, -1 if x.channel is None else x.channel, x.message_type, x.note))`,
  scoda/sequences/absolute_sequence.py) and `MessageType.__lt__` (scoda/enumerations/message_type.py).

  Gen/SortFns.lean (tools/py2lean_sort.py) is the translation of the key lambda, of `__lt__`, of the member order of the
  enum and of the `list.sort` call; Model/SortLib.lean is the model of the Python language features they use.  Here:

  * `stable_sort_is_isortBy`   for a strict weak order ANY stable sort returns the list `isortBy` returns — modelling
                               CPython's timsort by an insertion sort is justified by this theorem; what remains assumed
                               is "CPython's list.sort is a stable comparison sort".
  * `messageTypeLt_eq`, `members_eq`, `memberNames_eq`   the generated `__lt__` is `<` on `MType.rank`.
  * `keyLe_iff`, `keyLt_ok_iff_comparable`   the hand order `keyLe a b` is "not (key b < key a)" wherever Python's
                               comparison does not raise, and `Comparable` is EXACTLY where it does not raise.
  * `sort_eq`, `sortOf_eq_isort`   generated `sort` = `.ok (sortAbs l)` on `SortDom l` (no two messages whose keys
                               cannot be compared); `sort_raises`: outside `SortDom` the generated sort raises TypeError.
  * `generated_order_strictWeakOrder`, `any_stable_sort_eq_sortAbs`.
  * `sortRefs_discharged`, `viewSort_discharged`   the `list.sort` links of tools/py2lean_abs2.py / tools/py2lean.py.
  * the excluded points as `_statement_false` theorems (replayed on the real code: TypeError, see the docstrings).

  The domain, in words.  Python compares the key tuples component by component and only up to the first component that
  differs.  With the `Msg` model (`None` = `pyNone`):
    - `time`: `None < 3` raises; `None == None` does not.  So either ALL times are None or none is.
    - `channel`: never raises (`None` is replaced by -1 by the lambda itself).
    - `message_type`: never raises in the model (`Msg.ty` is always a member; `Message()` with `message_type=None` is outside
      the `Msg` model: real code `ValueError: None is not in list` / `TypeError`, depending on the side).
    - `note`: reached only by two messages EQUAL in (time, channel, type); then both notes must be None or both ints.
      Two TIME_SIGNATUREs on one tick and channel (both notes None) are fine: equal keys, order kept.  A NOTE_ON with a note
      and a hand-built NOTE_ON without one on the same tick and channel: TypeError.
-/
import SCoda.Lemmas.SortTieL
import SCoda.Gen.Tables
import SCoda.Gen.AbsFns2
import SCoda.Gen.ViewFns
namespace SCoda.SortTie

open SCoda SCoda.SortLib SCoda.Gen.Sort SCoda.SortTieL

/-! ### any stable sort is the insertion sort -/

/-- For a strict weak order on the elements of `l`, EVERY stable sort of `l` (a permutation that is sorted and keeps the
    relative order inside each class of equivalent elements) is the list the insertion sort `isortBy` returns.
    This discharges "timsort is modelled by insertion sort"; the remaining assumption is that CPython's `list.sort`
    is a stable comparison sort.  (Closes the `list.sort` half of the `sort ↦ sortAbs` link, DESIGN §2.2 / §9.2c.) -/
theorem stable_sort_is_isortBy {α : Type} {lt : α → α → Bool} {l out : List α}
    (hswo : StrictWeakOrderOn lt l) (hout : IsStableSortOf lt l out) : out = isortBy lt l :=
  stable_sort_unique hswo.irrefl hout (isortBy_isStableSortOf hswo)

/-- the insertion sort is itself a stable sort, so the characterisation is not vacuous -/
theorem isortBy_is_stable_sort {α : Type} {lt : α → α → Bool} {l : List α}
    (hswo : StrictWeakOrderOn lt l) : IsStableSortOf lt l (isortBy lt l) := isortBy_isStableSortOf hswo

example : IsStableSortOf (fun a b : Nat × Nat => decide (a.1 < b.1)) [(2, 0), (1, 1), (2, 2), (1, 3)]
    [(1, 1), (1, 3), (2, 0), (2, 2)] := by
  have h : [(1, 1), (1, 3), (2, 0), (2, 2)] = isortBy (fun a b : Nat × Nat => decide (a.1 < b.1)) [(2, 0), (1, 1), (2, 2), (1, 3)] := by decide
  rw [h]
  apply isortBy_isStableSortOf
  refine ⟨by decide, ?_, ?_⟩
  · intro a _ b _ c _; simp only [decide_eq_true_eq]; omega
  · intro a _ b _ c _; simp only [decide_eq_false_iff_not]; omega

/-! ### `MessageType.__lt__` and the member order -/

/-- the members the translator read off the class body are the constructors of `MType` in the model's order -/
theorem members_eq : messageTypeMembers = MType.all := by decide

/-- … and carry the names that RUNNING the code lists (`Gen.messageTypeOrder`: iteration order, aliases dropped) -/
theorem memberNames_eq :
    messageTypeMemberNames = Gen.messageTypeOrder ∧ messageTypeMembers.map MType.name = messageTypeMemberNames := by
  decide

/-- The translated `MessageType.__lt__` on two members is `<` on `MType.rank` (the position in the declaration order). -/
theorem messageTypeLt_eq (a b : MType) : messageTypeLt a (.mtype b) = .ok (decide (a.rank < b.rank)) :=
  messageTypeLt_mtype a b

/-- `MessageType.X < None` and `MessageType.X < 3` call `__lt__` and die in `values.index(other)`: ValueError
    (real code: `ValueError: None is not in list`), while `None < MessageType.X` is a TypeError. -/
theorem messageTypeLt_nonmember (a : MType) (i : Int) :
    messageTypeLt a .none = .error .valueError ∧ messageTypeLt a (.int i) = .error .valueError ∧
    KVal.lt messageTypeLt .none (.mtype a) = .error .typeError ∧ KVal.lt messageTypeLt (.int i) (.mtype a) = .error .typeError := by
  refine ⟨?_, ?_, rfl, rfl⟩ <;> cases a <;> rfl

/-! ### the key order -/

/-- `Comparable a b` (Lemmas/SortTieL.lean): Python can compare the two keys — `a.time`, `b.time` both None or both ints,
    and if the two messages agree in (time, channel, type) their notes are both None or both ints. -/
example : Comparable (Msg.mkTimeSig 0 4 4 0) (Msg.mkTimeSig 0 3 4 0) := by decide
example : Comparable (Msg.mkOn 0 60 90 0) { ty := .timeSignature, time := 0 } := by decide
example : ¬ Comparable (Msg.mkOn 0 60 90 0) { ty := .noteOn, time := 0 } := by decide

/-- The hand model's order is Python's: `keyLe a b` holds iff `key(b) < key(a)` is False, for every pair of messages whose
    keys Python can compare.  (Closes the key-lambda + `__lt__` half of the `sort ↦ sortAbs` link.) -/
theorem keyLe_iff (a b : Msg) (h : Comparable a b) :
    keyLe a b = true ↔ keyLt (sortKey b) (sortKey a) = .ok false := by
  rw [keyLt_sortKey b a (comparable_symm h)]
  cases keyLe a b <;> simp

/-- the same as an equation, in the direction the sort uses it -/
theorem keyLt_eq (a b : Msg) (h : Comparable a b) : keyLt (sortKey a) (sortKey b) = .ok (!keyLe b a) :=
  keyLt_sortKey a b h

example : keyLe (Msg.mkOn 1 60 90 5) (Msg.mkOff 1 60 5) = false ∧
    keyLt (sortKey (Msg.mkOff 1 60 5)) (sortKey (Msg.mkOn 1 60 90 5)) = .ok true := by decide

/-- `Comparable` is exactly the domain of Python's comparison of two keys: inside it answers, outside it raises TypeError. -/
theorem keyLt_ok_iff_comparable (a b : Msg) :
    (∃ r, keyLt (sortKey a) (sortKey b) = .ok r) ↔ Comparable a b := by
  constructor
  · rintro ⟨r, hr⟩
    by_cases h : Comparable a b
    · exact h
    · rw [keyLt_sortKey_error a b h] at hr; cases hr
  · intro h; exact ⟨_, keyLt_sortKey a b h⟩

theorem keyLt_raises (a b : Msg) (h : ¬ Comparable a b) : keyLt (sortKey a) (sortKey b) = .error .typeError :=
  keyLt_sortKey_error a b h

/-- `keyLe_iff` WITHOUT the hypothesis … -/
def keyLe_iff_statement : Prop := ∀ a b : Msg, keyLe a b = true ↔ keyLt (sortKey b) (sortKey a) = .ok false

/-- … is false: a NOTE_ON with note 60 and a hand-built NOTE_ON without a note on the same tick and channel.  The hand
    model says "None (= -1) sorts first"; the real code raises
    `TypeError: '<' not supported between instances of 'NoneType' and 'int'` (replayed, see the report). -/
theorem keyLe_iff_statement_false : ¬ keyLe_iff_statement := by
  intro h
  have := h { ty := .noteOn, time := 0 } (Msg.mkOn 0 60 90 0)
  revert this; decide

/-! ### the sort -/

/-- the input-level domain of `AbsoluteSequence.sort`: any two messages of the list have comparable keys -/
def SortDom (l : List Msg) : Prop := ∀ a ∈ l, ∀ b ∈ l, Comparable a b

instance (l : List Msg) : Decidable (SortDom l) := by unfold SortDom; exact inferInstance

/-- a sufficient, more familiar condition: every message has a time, and a message has a note iff it is a note message -/
theorem sortDom_of_wellFormed (l : List Msg) (ht : ∀ m ∈ l, m.time ≠ pyNone)
    (hn : ∀ m ∈ l, (m.note = pyNone ↔ m.isNote = false)) : SortDom l := by
  intro a ha b hb
  refine ⟨by simp [ht a ha, ht b hb], fun _ _ hty => ?_⟩
  rw [hn a ha, hn b hb]
  simp [Msg.isNote, Msg.isOn, Msg.isOff, hty]

/-- `AbsoluteSequence.sort` through any projection `msgOf` (the message itself, a heap reference, a tagged message):
    the generated function returns the hand model's stable insertion sort by `keyLe`. -/
theorem sortOf_eq_isort {α : Type} (msgOf : α → Msg) (l : List α) (h : SortDom (l.map msgOf)) :
    sortOf msgOf l = .ok (isort (fun a b => keyLe (msgOf a) (msgOf b)) l) := by
  have hcmp : ∀ a ∈ l, ∀ b ∈ l, keyLt (sortKey (msgOf a)) (sortKey (msgOf b)) = .ok (!keyLe (msgOf b) (msgOf a)) :=
    fun a ha b hb => keyLt_sortKey _ _ (h _ (List.mem_map_of_mem ha) _ (List.mem_map_of_mem hb))
  have hs := isortM_ok (fun a b => keyLt (sortKey (msgOf a)) (sortKey (msgOf b))) (fun a b => !keyLe (msgOf b) (msgOf a)) l hcmp
  have he : isortBy (fun a b => !keyLe (msgOf b) (msgOf a)) l = isort (fun a b => keyLe (msgOf a) (msgOf b)) l := by
    rw [isortBy_eq_isort]; simp only [Bool.not_not]
  unfold sortOf
  simp only [pyListSort, Bool.false_eq_true, if_false, hs, he]

/-- THE TIE: on every list whose keys Python can compare, the translated `AbsoluteSequence.sort` returns exactly the hand
    model `sortAbs l`.  (Discharges the link `AbsoluteSequence.sort ↦ SCoda.sortAbs` of tools/py2lean.py.) -/
theorem sort_eq (l : List Msg) (h : SortDom l) : Gen.Sort.sort l = .ok (sortAbs l) := by
  have := sortOf_eq_isort id l (by simpa using h)
  simpa [Gen.Sort.sort, sortAbs] using this

example : SortDom [Msg.mkOn 0 60 90 5, Msg.mkTimeSig 0 4 4 5, Msg.mkTimeSig 0 3 4 5, Msg.mkOff 0 60 5, Msg.mkWait 0 2] ∧
    Gen.Sort.sort [Msg.mkOn 0 60 90 5, Msg.mkTimeSig 0 4 4 5, Msg.mkTimeSig 0 3 4 5, Msg.mkOff 0 60 5, Msg.mkWait 0 2]
      = .ok [Msg.mkWait 0 2, Msg.mkTimeSig 0 4 4 5, Msg.mkTimeSig 0 3 4 5, Msg.mkOff 0 60 5, Msg.mkOn 0 60 90 5] := by
  decide

/-- Outside the domain the translated sort raises TypeError (through any projection).  Together with `sortOf_eq_isort` this is
    the complete behaviour of the translated function; that CPython's timsort — which compares other pairs — ALSO raises on
    every such list is not a theorem about this model: any correct comparison sort must compare two adjacent elements of an
    equivalence class at some point, and tools/diff_py2lean_sort.py observes TypeError on every sampled list outside the domain
    (lengths up to 200). -/
theorem sortOf_raises {α : Type} (msgOf : α → Msg) (l : List α) (h : ¬ SortDom (l.map msgOf)) :
    sortOf msgOf l = .error .typeError := by
  have := isortM_error msgOf l (fun hall => h (by
    intro a ha b hb
    obtain ⟨a', ha', rfl⟩ := List.mem_map.1 ha
    obtain ⟨b', hb', rfl⟩ := List.mem_map.1 hb
    exact hall a' ha' b' hb'))
  unfold sortOf
  simp only [pyListSort, Bool.false_eq_true, if_false]
  show (do let m ← isortM (ltM msgOf) l; pure m) = _
  rw [this]

theorem sort_raises (l : List Msg) (h : ¬ SortDom l) : Gen.Sort.sort l = .error .typeError :=
  sortOf_raises id l (by simpa using h)

/-- the translated sort succeeds exactly on the domain -/
theorem sort_ok_iff (l : List Msg) : (∃ r, Gen.Sort.sort l = .ok r) ↔ SortDom l := by
  constructor
  · rintro ⟨r, hr⟩
    by_cases h : SortDom l
    · exact h
    · rw [sort_raises l h] at hr; cases hr
  · intro h; exact ⟨_, sort_eq l h⟩

/-- `sort_eq` WITHOUT the domain … -/
def sort_eq_statement : Prop := ∀ l : List Msg, Gen.Sort.sort l = .ok (sortAbs l)

/-- … is false: `[NOTE_ON(time 0, note 60), NOTE_ON(time 0, note None)]` — the real `sort()` raises TypeError (replayed),
    the generated function answers `.error .typeError`, the hand model sorts the `None` first. -/
theorem sort_eq_statement_false : ¬ sort_eq_statement := by
  intro h
  have := h [Msg.mkOn 0 60 90 0, { ty := .noteOn, time := 0 }]
  revert this; decide

/-- the two excluded points of the task, evaluated: two TIME_SIGNATUREs on one tick and channel are fine (equal keys, order
    kept); mixing a message without a time into a timed sequence raises. -/
example : Gen.Sort.sort [Msg.mkTimeSig 0 4 4 0, Msg.mkTimeSig 0 3 4 0] = .ok [Msg.mkTimeSig 0 4 4 0, Msg.mkTimeSig 0 3 4 0] ∧
    Gen.Sort.sort [Msg.mkOn 0 60 90 3, { ty := .noteOn, note := 60 }] = .error .typeError ∧
    Gen.Sort.sort [{ ty := .noteOn, note := 61 }, { ty := .noteOn, note := 60 }]
      = .ok [{ ty := .noteOn, note := 60 }, { ty := .noteOn, note := 61 }] := by decide

/-! ### the generated order is a strict weak order on the domain -/

/-- the generated comparison as a total function (what a stable sort is parameterised by) -/
def keyLtB (a b : Msg) : Bool :=
  match keyLt (sortKey a) (sortKey b) with
  | .ok r => r
  | .error _ => false

theorem keyLtB_eq (a b : Msg) (h : Comparable a b) : keyLtB a b = !keyLe b a := by
  simp [keyLtB, keyLt_sortKey a b h]

/-- On a list in the domain, Python's `key(a) < key(b)` is a strict weak order (irreflexive, transitive, "not smaller"
    transitive): the precondition under which "the stable sort" is a well-defined function. -/
theorem generated_order_strictWeakOrder (l : List Msg) (h : SortDom l) : StrictWeakOrderOn keyLtB l := by
  refine ⟨?_, ?_, ?_⟩
  · intro a ha
    rw [keyLtB_eq a a (h a ha a ha), keyLe_refl]; rfl
  · intro a ha b hb c hc
    rw [keyLtB_eq a b (h a ha b hb), keyLtB_eq b c (h b hb c hc), keyLtB_eq a c (h a ha c hc)]
    simp only [Bool.not_eq_eq_eq_not, Bool.not_true]
    intro h1 h2
    cases hca : keyLe c a with
    | false => rfl
    | true =>
      rcases keyLe_total a b with hab | hba
      · rw [keyLe_trans c a b hca hab] at h2; cases h2
      · rw [hba] at h1; cases h1
  · intro a ha b hb c hc
    rw [keyLtB_eq a b (h a ha b hb), keyLtB_eq b c (h b hb c hc), keyLtB_eq a c (h a ha c hc)]
    simp only [Bool.not_eq_false']
    intro h1 h2
    exact keyLe_trans c b a h2 h1

/-- `sortAbs l` is a stable sort of `l` by the generated order, and ANY stable sort of `l` by the generated order is
    `sortAbs l` — whatever algorithm CPython uses, as long as it is a stable comparison sort. -/
theorem any_stable_sort_eq_sortAbs (l out : List Msg) (h : SortDom l) :
    IsStableSortOf keyLtB l out ↔ out = sortAbs l := by
  have hswo := generated_order_strictWeakOrder l h
  have he : isortBy keyLtB l = sortAbs l := by
    have hs := isortM_ok (fun a b => keyLt (sortKey a) (sortKey b)) keyLtB l
      (fun a ha b hb => by rw [keyLtB_eq a b (h a ha b hb)]; exact keyLt_sortKey a b (h a ha b hb))
    have hs' := isortM_ok (fun a b => keyLt (sortKey a) (sortKey b)) (fun a b => !keyLe b a) l
      (fun a ha b hb => keyLt_sortKey a b (h a ha b hb))
    rw [hs] at hs'
    have := Except.ok.inj hs'
    rw [this, isortBy_eq_isort]; simp only [Bool.not_not]; rfl
  constructor
  · intro hout; rw [← he]; exact stable_sort_is_isortBy hswo hout
  · rintro rfl; rw [← he]; exact isortBy_isStableSortOf hswo

example : IsStableSortOf keyLtB [Msg.mkOn 0 60 90 5, Msg.mkTimeSig 0 4 4 5, Msg.mkTimeSig 0 3 4 5]
    [Msg.mkTimeSig 0 4 4 5, Msg.mkTimeSig 0 3 4 5, Msg.mkOn 0 60 90 5] :=
  (any_stable_sort_eq_sortAbs _ _ (by decide)).2 (by decide)

/-! ### the links of the other translators -/

/-- tools/py2lean_abs2.py maps `self.sort()` to `sortRefs heap` (Gen/AbsFns2.lean) by name; this is what the translated
    `sort` computes on a list of references, whenever the referenced messages are in the domain. -/
theorem sortRefs_discharged (h : Gen.Abs2.Heap) (l : List Nat) (hd : SortDom (l.map (Gen.Abs2.hGet h))) :
    sortOf (Gen.Abs2.hGet h) l = .ok (Gen.Abs2.sortRefs h l) :=
  sortOf_eq_isort (Gen.Abs2.hGet h) l hd

/-- tools/py2lean.py maps `self.sort()` to `SCoda.sortAbs` by name (`Gen.View.normaliseAbsolute`, `merge`, …): the
    translated `normalise_absolute` is the translated `sort`. -/
theorem viewSort_discharged (l : List Msg) (hd : SortDom l) :
    (Gen.View.normaliseAbsolute l).toOption = (Gen.Sort.sort l).toOption := by
  rw [sort_eq l hd]; rfl

end SCoda.SortTie
