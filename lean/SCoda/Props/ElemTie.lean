/-
  Tie between the *generated* translation of the element layer (Gen/ElemFns.lean, re-read from
  scoda/elements/{bar,track,composition}.py on every run by tools/py2lean_elem.py) and the hand model of
  `Bar` (Model/Bar.lean: `mkBar`, `Bar.copy`, `barsToSeq`) that the C10 / C09 / C14 theorems are about and
  that the driver executes.  The translation runs on top of the translated `Sequence` wrapper; the
  equalities of `Props/WrapTie.lean` are used to compute through it.

  `barInit_eq` needs `0 ≤ numerator`, `0 < denominator`, `0 ≤ PPQN`: this is exactly the domain on which
  Python's `int(n * PPQN / (d / 4))` (true divisions, then truncation) is the model's integer
  `n * PPQN * 4 / d` (`C11.barCapacityPy_eq`); outside it the two differ (audit A15).
-/
import SCoda.Gen.ElemFns
import SCoda.Props.WrapTie
import SCoda.Props.C11b
import SCoda.Model.BarCh
import SCoda.Model.BarOps
namespace SCoda.ElemTie
open SCoda SCoda.WrapTie

theorem totalWait_eq_sum (r : List Msg) :
    ((r.filter (fun m => m.ty == MType.wait)).map (fun m => m.time)).sum = totalWait r := by
  induction r with
  | nil => rfl
  | cons m ms ih =>
    by_cases h : m.ty == MType.wait <;> simp [h, totalWait, ih]

/-- the capacity expression of `Bar.__init__`, evaluated in Python's int/float tower, is the model's
    integer capacity -/
theorem pyIntOf_barCap (n ppqn d : Int) (hn : 0 ≤ n) (hp : 0 ≤ ppqn) (hd : 0 < d) :
    pyIntOf (((PyNum.int n).mul (PyNum.int ppqn)).truediv ((PyNum.int d).truediv (PyNum.int 4))) = barCapacity ppqn n d := by
  have h := C11.barCapacityPy_eq n ppqn d hn hp hd
  unfold barCapacityPy at h
  simp [pyIntOf, h]

/-- **`Bar(sequence, numerator, denominator, key, default_channel)` as translated from bar.py is `mkBarCh` on the
    relative view of the sequence, for EVERY `default_channel`** (audit round 3, R7): same exception or same bar, the
    leading time-signature event on channel `chanOf default_channel` (`None` ↦ 0, `Message.__init__`); the sequence is
    left with exactly the bar's relative view, relative view fresh, absolute view stale and untouched.  (`default_channel`
    is not kept by the bar: it lives on only as the channel of that event.) -/
theorem barInit_eq_ch (e : Env) (s : Seq) (n d key c : Int) (hn : 0 ≤ n) (hd : 0 < d) (hp : 0 ≤ e.ppqn) :
    Gen.Elem.barInit e s n d key c =
      (do let p ← s.readRel
          let b ← mkBarCh e.ppqn p.2 n d key (chanOf c)
          pure { sequence := { abs := s.abs, rel := b.seq, absStale := true, relStale := false }, num := n, den := d, key := key }) := by
  have hc := pyIntOf_barCap n e.ppqn d hn hp hd
  obtain ⟨a, r, sa, sr⟩ := s
  cases sa <;> cases sr <;>
  simp [Gen.Elem.barInit, normalise_eq, messagesRel_eq, pad_eq, overwriteRel_eq, addRel_eq, unit, Seq.normaliseSeq, Seq.onRel, Seq.readRel,
    Seq.editRel, Seq.padSeq, Seq.overwriteRel, Seq.addRelMsg, Seq.insertAt, totalWait_eq_sum, mkBarCh, chanOf, hc] <;>
  (repeat' split) <;> simp_all [Msg.mkTimeSig]

/-- **`Bar(sequence, numerator, denominator, key)` as translated from bar.py is `mkBar` on the relative view
    of the sequence**: same exception or same bar; the sequence is left with exactly the bar's relative
    view, relative view fresh, absolute view stale and untouched.  (The instance `default_channel = 0` of
    `barInit_eq_ch`.) -/
theorem barInit_eq (e : Env) (s : Seq) (n d key : Int) (hn : 0 ≤ n) (hd : 0 < d) (hp : 0 ≤ e.ppqn) :
    Gen.Elem.barInit e s n d key 0 =
      (do let p ← s.readRel
          let b ← mkBar e.ppqn p.2 n d key
          pure { sequence := { abs := s.abs, rel := b.seq, absStale := true, relStale := false }, num := n, den := d, key := key }) := by
  rw [barInit_eq_ch e s n d key 0 hn hd hp]
  rfl

/-- what `mkBarCh` stores in the scalar fields -/
theorem mkBarCh_fields {ppqn : Int} {rel : List Msg} {n d key ch : Int} {b : Bar} (h : mkBarCh ppqn rel n d key ch = .ok b) :
    b.num = n ∧ b.den = d ∧ b.key = key ∧ b.seq.head? = some (Msg.mkTimeSig ch n d pyNone) := by
  unfold mkBarCh at h
  simp only [bind, Except.bind] at h
  repeat' split at h
  all_goals first | (injection h with h; subst h; exact ⟨rfl, rfl, rfl, rfl⟩) | cases h

/-- forgetting the wrapper state: the translated constructor computes the model's bar, for every `default_channel` -/
theorem barInit_toBar_ch (e : Env) (s : Seq) (n d key c : Int) (hn : 0 ≤ n) (hd : 0 < d) (hp : 0 ≤ e.ppqn) :
    GBar.toBar <$> Gen.Elem.barInit e s n d key c = (do let p ← s.readRel; mkBarCh e.ppqn p.2 n d key (chanOf c)) := by
  rw [barInit_eq_ch e s n d key c hn hd hp]
  cases s.readRel with
  | error x => rfl
  | ok p =>
    simp only [ok_bind]
    cases h : mkBarCh e.ppqn p.2 n d key (chanOf c) with
    | error x => rfl
    | ok b =>
      obtain ⟨h1, h2, h3, _⟩ := mkBarCh_fields h
      subst h1 h2 h3
      rfl

/-- forgetting the wrapper state: the translated constructor computes the model's bar -/
theorem barInit_toBar (e : Env) (s : Seq) (n d key : Int) (hn : 0 ≤ n) (hd : 0 < d) (hp : 0 ≤ e.ppqn) :
    GBar.toBar <$> Gen.Elem.barInit e s n d key 0 = (do let p ← s.readRel; mkBar e.ppqn p.2 n d key) :=
  barInit_toBar_ch e s n d key 0 hn hd hp

/-- **what every successfully constructed bar looks like — no hypothesis on the signature, PPQN or the wrapper state**:
    relative view fresh, absolute view stale, the arguments stored, and the leading event of the relative view is the
    bar's time signature on channel `chanOf default_channel` -/
theorem barInit_shape (e : Env) (s : Seq) (n d key c : Int) (g : GBar)
    (h : Gen.Elem.barInit e s n d key c = .ok g) :
    g.sequence.absStale = true ∧ g.sequence.relStale = false ∧ g.num = n ∧ g.den = d ∧ g.key = key ∧
      g.sequence.rel.head? = some (Msg.mkTimeSig (chanOf c) n d pyNone) := by
  obtain ⟨a, r, sa, sr⟩ := s
  generalize hcap : pyIntOf (((PyNum.int n).mul (PyNum.int e.ppqn)).truediv ((PyNum.int d).truediv (PyNum.int 4))) = cap at *
  cases sa <;> cases sr <;>
  simp [Gen.Elem.barInit, normalise_eq, messagesRel_eq, pad_eq, overwriteRel_eq, addRel_eq, unit, Seq.normaliseSeq, Seq.onRel, Seq.readRel,
    Seq.editRel, Seq.padSeq, Seq.overwriteRel, Seq.addRelMsg, Seq.insertAt, hcap] at h <;>
  (repeat' split at h) <;> simp_all [Msg.mkTimeSig, chanOf] <;> (subst h; simp)

/-- a constructed bar: relative view fresh, absolute view stale -/
theorem barInit_flags (e : Env) (s : Seq) (n d key : Int) (hn : 0 ≤ n) (hd : 0 < d) (hp : 0 ≤ e.ppqn) (g : GBar)
    (h : Gen.Elem.barInit e s n d key 0 = .ok g) :
    g.sequence.absStale = true ∧ g.sequence.relStale = false ∧ g.num = n ∧ g.den = d ∧ g.key = key := by
  obtain ⟨h1, h2, h3, h4, h5, _⟩ := barInit_shape e s n d key 0 g h
  exact ⟨h1, h2, h3, h4, h5⟩

/-! ### `Bar.copy` (bar.py:57-66, second repair of D37): the copy is constructed on the channel of the bar's own leading
    time-signature message as it is NOW, read through the `rel` property of the bar's sequence -/

/-- what the `rel` property returns is the relative view of the state it leaves, and that view is fresh -/
theorem readRel_fresh {s : Seq} {p : Seq × List Msg} (h : s.readRel = .ok p) :
    p.1.relStale = false ∧ p.1.rel = p.2 ∧ p.1.readRel = .ok (p.1, p.2) ∧ p.1.copy.readRel = .ok (p.1.copy, p.2) := by
  obtain ⟨a, r, sa, sr⟩ := s
  cases sa <;> cases sr <;> simp [Seq.readRel] at h <;> subst h <;> simp [Seq.readRel, Seq.copy, Seq.ofRel]

theorem sigChan_of_head {r : List Msg} {c n d t : Int} (h : r.head? = some (Msg.mkTimeSig c n d t)) : sigChan r = c := by
  cases r with
  | nil => cases h
  | cons m ms =>
    injection h with h
    subst h
    simp [sigChan, Msg.mkTimeSig]

/-- **`Bar.copy()` as translated, for every bar record and every wrapper state of its sequence — no hypothesis**: the
    relative view is read through the `rel` property (a stale view is regenerated and STAYS regenerated in the original:
    `Bar.copy` is no longer free of effects on a bar whose relative view is stale; `SequenceException` when both views are
    stale), the channel of its first TIME_SIGNATURE message is taken (`sigChan`; 0 if there is none), and a new bar is
    constructed from a copy of the sequence with that channel as `default_channel`.  A `copy` that passes channel 0, or a
    channel stored at construction, changes the regenerated function and breaks this theorem. -/
theorem barCopy_eq (e : Env) (g : GBar) :
    Gen.Elem.barCopy e g =
      (do let p ← g.sequence.readRel
          let c ← Gen.Elem.barInit e p.1.copy g.num g.den g.key (sigChan p.2)
          pure ({ g with sequence := p.1 }, c)) := by
  simp only [Gen.Elem.barCopy, getRel_eq, copy_eq]
  cases g.sequence.readRel with
  | error x => rfl
  | ok p => rfl

/-- **`Bar.copy()` as translated is the model's copy on the bar's OWN channel** (`Bar.copyOwn`'s body on the relative view
    as read): a new bar constructed from the relative view, the leading event on the channel of the view's first
    time-signature message.  No hypothesis on the wrapper state (both views stale: the same `SequenceException` on both
    sides — `copy` now reads the view before it copies the sequence). -/
theorem barCopy_toBar_own (e : Env) (g : GBar) (hn : 0 ≤ g.num) (hd : 0 < g.den) (hp : 0 ≤ e.ppqn) :
    (fun p => p.2.toBar) <$> Gen.Elem.barCopy e g =
      (do let p ← g.sequence.readRel; mkBarCh e.ppqn p.2 g.num g.den g.key (chanOf (sigChan p.2))) := by
  rw [barCopy_eq]
  cases hr : g.sequence.readRel with
  | error x => rfl
  | ok p =>
    have hb := barInit_toBar_ch e p.1.copy g.num g.den g.key (sigChan p.2) hn hd hp
    rw [(readRel_fresh hr).2.2.2] at hb
    simp only [ok_bind] at hb ⊢
    cases hi : Gen.Elem.barInit e p.1.copy g.num g.den g.key (sigChan p.2) with
    | error x => rw [hi] at hb; exact hb
    | ok c' => rw [hi] at hb; exact hb

/-- **`Bar.copy()` as translated is the model's `Bar.copy`** for a bar whose own time-signature message is on channel 0
    (`hc`; so for every bar built with the default `default_channel` and not moved since — the hand model `mkBar` puts
    the leading event on channel 0; `barCopy_toBar_own` is the statement for every channel). -/
theorem barCopy_toBar (e : Env) (g : GBar) (hn : 0 ≤ g.num) (hd : 0 < g.den) (hp : 0 ≤ e.ppqn)
    (hc : ∀ p, g.sequence.readRel = .ok p → chanOf (sigChan p.2) = 0) :
    (fun p => p.2.toBar) <$> Gen.Elem.barCopy e g =
      (do let p ← g.sequence.readRel; mkBar e.ppqn p.2 g.num g.den g.key) := by
  rw [barCopy_toBar_own e g hn hd hp]
  cases hr : g.sequence.readRel with
  | error x => rfl
  | ok p =>
    simp only [ok_bind]
    rw [hc p hr]
    rfl

/-- a bar in the state its constructor leaves it in copies to `Bar.copyOwn` of its model -/
theorem barCopy_constructed_own (e : Env) (g : GBar) (hn : 0 ≤ g.num) (hd : 0 < g.den) (hp : 0 ≤ e.ppqn)
    (hr : g.sequence.relStale = false) :
    (fun p => p.2.toBar) <$> Gen.Elem.barCopy e g = Bar.copyOwn e.ppqn g.toBar := by
  rw [barCopy_toBar_own e g hn hd hp]
  obtain ⟨⟨a, r, sa, sr⟩, n, d, k⟩ := g
  simp only at hr
  subst hr
  rfl

/-- a bar in the state its constructor leaves it in copies to `Bar.copy` of its model when its signature message is on
    channel 0 (see `barCopy_toBar`; every channel: `barCopy_constructed_own`) -/
theorem barCopy_constructed (e : Env) (g : GBar) (hn : 0 ≤ g.num) (hd : 0 < g.den) (hp : 0 ≤ e.ppqn)
    (hr : g.sequence.relStale = false) (hc : chanOf (sigChan g.sequence.rel) = 0) :
    (fun p => p.2.toBar) <$> Gen.Elem.barCopy e g = Bar.copy e.ppqn g.toBar := by
  rw [barCopy_constructed_own e g hn hd hp hr]
  show mkBarCh e.ppqn g.sequence.rel g.num g.den g.key (chanOf (sigChan g.sequence.rel)) = _
  rw [hc]
  rfl

/-- **the statement whose failure was D37, and (audit round 4, D1) still failed after the first repair for a bar moved to
    another channel**: whenever `Bar.copy()` (as translated) of a bar succeeds, the relative view of the bar could be read
    (`rel`), the bar itself is unchanged except that a stale relative view has been regenerated, the copy carries the bar's
    numerator, denominator and key, it is in the constructed state, and the leading event of its relative view is the time
    signature ON THE CHANNEL OF THE BAR'S OWN FIRST TIME-SIGNATURE MESSAGE AS IT IS NOW (`sigChan rel`; 0 if the bar has
    none) — for every bar record, every wrapper state of its sequence, every signature and PPQN (no hypothesis). -/
theorem barCopy_sig_channel (e : Env) (g : GBar) (p : GBar × GBar)
    (h : Gen.Elem.barCopy e g = .ok p) :
    ∃ s' rel, g.sequence.readRel = .ok (s', rel) ∧ p.1 = { g with sequence := s' } ∧
      p.2.num = g.num ∧ p.2.den = g.den ∧ p.2.key = g.key ∧
      p.2.sequence.rel.head? = some (Msg.mkTimeSig (chanOf (sigChan rel)) g.num g.den pyNone) ∧
      p.2.sequence.absStale = true ∧ p.2.sequence.relStale = false := by
  rw [barCopy_eq] at h
  cases hr : g.sequence.readRel with
  | error x => rw [hr] at h; cases h
  | ok q =>
    rw [hr] at h
    simp only [ok_bind] at h
    cases hi : Gen.Elem.barInit e q.1.copy g.num g.den g.key (sigChan q.2) with
    | error x => rw [hi] at h; cases h
    | ok c =>
      rw [hi] at h
      simp only [ok_bind, pure_eq] at h
      injection h with h
      subst h
      obtain ⟨h1, h2, h3, h4, h5, h7⟩ := barInit_shape e q.1.copy g.num g.den g.key (sigChan q.2) c hi
      exact ⟨q.1, q.2, rfl, rfl, h3, h4, h5, h7, h1, h2⟩

/-- **bar and copy agree on the channel of the leading time signature** (D37 repaired): a bar constructed with
    `default_channel = c` and any copy of it both start with the time-signature event on channel `chanOf c`; the bar itself
    is not changed by being copied. -/
theorem barCopy_of_constructed (e : Env) (s : Seq) (n d key c : Int) (g : GBar)
    (hg : Gen.Elem.barInit e s n d key c = .ok g) (p : GBar × GBar) (h : Gen.Elem.barCopy e g = .ok p) :
    p.1 = g ∧
      p.2.sequence.rel.head? = some (Msg.mkTimeSig (chanOf c) n d pyNone) ∧
      g.sequence.rel.head? = some (Msg.mkTimeSig (chanOf c) n d pyNone) ∧
      p.2.sequence.rel.head? = g.sequence.rel.head? := by
  obtain ⟨g1, g2, g3, g4, g5, g7⟩ := barInit_shape e s n d key c g hg
  obtain ⟨s', rel, hr, c1, _, _, _, c5, _, _⟩ := barCopy_sig_channel e g p h
  have hrd : g.sequence.readRel = .ok (g.sequence, g.sequence.rel) := by simp [Seq.readRel, g2]
  rw [hrd] at hr
  injection hr with hr
  injection hr with hr1 hr2
  subst hr1 hr2
  have hcc : chanOf (chanOf c) = chanOf c := by
    unfold chanOf; split <;> simp_all (config := { decide := true })
  rw [sigChan_of_head g7, hcc, g3, g4] at c5
  exact ⟨c1, c5, g7, c5.trans g7.symm⟩

/-- **what remains true of the statement of the first repair** (`barCopy_default_channel`: "the copy carries the bar's
    `default_channel`"): the copy of a bar constructed with `default_channel = c` AND NOT EDITED SINCE has the bar's
    numerator, denominator and key, is in the constructed state, and its leading event is the time signature on channel
    `chanOf c` (`None` ↦ 0).  For a bar edited since, the channel is the bar's current one: `barCopy_sig_channel`. -/
theorem barCopy_default_channel (e : Env) (s : Seq) (n d key c : Int) (g : GBar)
    (hg : Gen.Elem.barInit e s n d key c = .ok g) (p : GBar × GBar) (h : Gen.Elem.barCopy e g = .ok p) :
    p.2.num = n ∧ p.2.den = d ∧ p.2.key = key ∧
      p.2.sequence.rel.head? = some (Msg.mkTimeSig (chanOf c) n d pyNone) ∧
      p.2.sequence.absStale = true ∧ p.2.sequence.relStale = false := by
  obtain ⟨_, _, g3, g4, g5, _⟩ := barInit_shape e s n d key c g hg
  obtain ⟨_, _, _, _, c2, c3, c4, _, c6, c7⟩ := barCopy_sig_channel e g p h
  obtain ⟨_, c5, _, _⟩ := barCopy_of_constructed e s n d key c g hg p h
  exact ⟨c2.trans g3, c3.trans g4, c4.trans g5, c5, c6, c7⟩

/-! non-vacuity, on the recorded input of D37 (known_findings.json): `Bar(on 60 (channel 3), wait 24, off 60, 4, 4, None,
    default_channel=3)` and its copy.  The domain hypotheses of `barInit_eq_ch` hold (PPQN 24 ≥ 0, 0 ≤ 4, 0 < 4); bar and copy are evaluated by the
    kernel: both `[TS 4/4 on channel 3, on 60, wait 24, off 60, wait 72]`.  (Before the repairs the copy's first event was
    `TS 4/4 on channel 0`.)  Then the audit's witness (round 4, D1): the same bar after `bar.sequence.set_channel(0)` — with the first
    repair (f9ef398) the copy's first event stayed on channel 3. -/
def exD37 : List Msg := [Msg.mkOn 3 60 64 pyNone, Msg.mkWait 3 24, Msg.mkOff 3 60 pyNone]
def exD37Bar : GBar :=
  { sequence := { abs := [], rel := [Msg.mkTimeSig 3 4 4 pyNone, Msg.mkOn 3 60 64 pyNone, Msg.mkWait 3 24, Msg.mkOff 3 60 pyNone, Msg.mkWait 3 72],
                  absStale := true, relStale := false }, num := 4, den := 4, key := pyNone }
/-- the bar after `bar.sequence.set_channel(0)` -/
def exD37Bar0 : GBar :=
  { sequence := { abs := [], rel := [Msg.mkTimeSig 0 4 4 pyNone, Msg.mkOn 0 60 64 pyNone, Msg.mkWait 0 24, Msg.mkOff 0 60 pyNone, Msg.mkWait 0 72],
                  absStale := true, relStale := false }, num := 4, den := 4, key := pyNone }

example : 0 ≤ genEnv.ppqn ∧ (0 : Int) ≤ 4 ∧ (0 : Int) < 4 := by decide

set_option maxRecDepth 100000 in
example : Gen.Elem.barInit genEnv (Seq.ofRel exD37) 4 4 pyNone 3 = .ok exD37Bar := by decide +kernel

set_option maxRecDepth 100000 in
/-- channel 3 at construction: the copy is the bar -/
example : Gen.Elem.barCopy genEnv exD37Bar = .ok (exD37Bar, exD37Bar) := by decide +kernel

set_option maxRecDepth 100000 in
/-- channel 3: the copy's leading event is the 4/4 signature on channel 3 -/
example : (Gen.Elem.barCopy genEnv exD37Bar).toOption.map (fun p => p.2.sequence.rel.head?) =
    some (some (Msg.mkTimeSig 3 4 4 pyNone)) := by decide +kernel

set_option maxRecDepth 100000 in
/-- **the audit's witness**: channel 3 at construction, then the translated `Sequence.set_channel(0)` on the bar's sequence … -/
example : (Gen.Wrap.setChannel genEnv exD37Bar.sequence 0).toOption.map (fun r => ({ exD37Bar with sequence := r.1 } : GBar)) =
    some exD37Bar0 := by decide +kernel

set_option maxRecDepth 100000 in
/-- … and the copy of THAT bar is the bar as it is now, the signature event on channel 0 -/
example : Gen.Elem.barCopy genEnv exD37Bar0 = .ok (exD37Bar0, exD37Bar0) ∧
    exD37Bar0.sequence.rel.head? = some (Msg.mkTimeSig 0 4 4 pyNone) := by decide +kernel

/-- the same through the hand model: `Bar.copyOwn` of the model's bars -/
example : Bar.copyOwn genEnv.ppqn exD37Bar.toBar = .ok exD37Bar.toBar ∧ Bar.copyOwn genEnv.ppqn exD37Bar0.toBar = .ok exD37Bar0.toBar :=
  ⟨by decide +kernel, by decide +kernel⟩

set_option maxRecDepth 100000 in
/-- `default_channel=None`: the event is on channel 0 (`Message.__init__`) -/
example : (Gen.Elem.barInit genEnv (Seq.ofRel exD37) 4 4 pyNone pyNone).toOption.map
    (fun g => g.sequence.rel.head?) = some (some (Msg.mkTimeSig 0 4 4 pyNone)) := by decide +kernel

/-- **`Bar.transpose(by)` as translated**: the key (if any) goes through `Key.transpose_key`, the sequence
    through the wrapper's `transpose`; the flag is the sequence's -/
theorem barTranspose_eq (e : Env) (g : GBar) (by_ : Int) :
    Gen.Elem.barTranspose e g by_ =
      (fun p => ({ g with key := if g.key ≠ pyNone then e.tk g.key by_ else g.key, sequence := p.1 }, p.2)) <$>
        Seq.transposeSeq e g.sequence by_ := by
  by_cases hk : g.key = pyNone
  · simp only [Gen.Elem.barTranspose, transpose_eq, hk, ne_eq, not_true_eq_false, decide_false, if_false]
    cases Seq.transposeSeq e g.sequence by_ <;> simp
  · simp only [Gen.Elem.barTranspose, transpose_eq, hk, ne_eq, not_false_eq_true, decide_true, if_true]
    cases Seq.transposeSeq e g.sequence by_ <;> rfl

theorem barIsEmpty_eq (e : Env) (g : GBar) :
    Gen.Elem.barIsEmpty e g =
      (do let p ← g.sequence.readRel; pure ({ g with sequence := p.1 }, !(p.2.any (·.ty == .noteOn)))) := by
  simp only [Gen.Elem.barIsEmpty, isEmpty_eq]
  cases g.sequence.readRel <;> rfl

/-- the loop of `Bar.to_sequence` collects `bar.sequence` -/
theorem flatten_singletons {α β} (l : List α) (f : α → β) : (l.map (fun x => [f x])).flatten = l.map f := by
  induction l with
  | nil => rfl
  | cons x xs ih => simp [ih]

/-- **`Bar.to_sequence(bars)` as translated**: a new sequence whose relative view is the concatenation of the
    bars' relative views (each read through its `rel` property) -/
theorem barsToSequence_eq (e : Env) (bars : List GBar) :
    Gen.Elem.barsToSequence e bars =
      (do let rels ← readRels (bars.map (·.sequence))
          pure { abs := [], rel := rels.flatten, absStale := true, relStale := false }) := by
  simp only [Gen.Elem.barsToSequence, concatenate_eq]
  simp [flatten_singletons]
  cases readRels (bars.map (·.sequence)) with
  | error x => rfl
  | ok rels => simp [Seq.new, Seq.readRel, Seq.concatSeq, Seq.onRel, unit, toRel, toRelGo, concatenate]

/-- for constructed bars (relative view fresh) that is the model's `barsToSeq` -/
theorem barsToSequence_constructed (e : Env) (bars : List GBar) (h : ∀ g ∈ bars, g.sequence.relStale = false) :
    Gen.Elem.barsToSequence e bars =
      .ok { abs := [], rel := barsToSeq (bars.map GBar.toBar), absStale := true, relStale := false } := by
  rw [barsToSequence_eq]
  have hr : readRels (bars.map (·.sequence)) = .ok (bars.map (·.sequence.rel)) := by
    induction bars with
    | nil => rfl
    | cons g gs ih =>
      have hg := h g (by simp)
      have ih' := ih (fun x hx => h x (by simp [hx]))
      simp only [readRels, List.map_cons, List.mapM_cons] at ih' ⊢
      rw [ih']
      simp [Seq.readRel, hg]
  rw [hr]
  simp [barsToSeq, GBar.toBar, List.map_map, Function.comp_def]

/-- tripwire: the list of translated element methods -/
theorem translated_covered :
    Gen.Elem.translated = ["Bar.__init__", "Bar.copy", "Bar.is_empty", "Bar.transpose", "Bar.to_sequence", "Track.__init__",
      "Track.copy", "Track.to_sequence", "Composition.__init__", "Composition.copy", "Composition.from_sequences",
      "Composition.to_sequences"] := by decide

/-! ### Track and Composition (no hand model: the theorems characterise the translated methods directly) -/

/-- a loop that appends the result of a possibly failing call is `mapM` -/
theorem forIn_collectM {α β} (l : List α) (init : List β) (f : α → Except Err β) :
    (forIn l init (fun a b => (do let x ← f a; pure (ForInStep.yield (b ++ [x])) : Except Err (ForInStep (List β))))) =
      (fun xs => init ++ xs) <$> l.mapM f := by
  induction l generalizing init with
  | nil => simp
  | cons a as ih =>
    simp only [List.forIn_cons, List.mapM_cons]
    cases f a with
    | error x => rfl
    | ok x =>
      have h := ih (init ++ [x])
      simp only [ok_bind, pure_eq] at h ⊢
      rw [h]
      cases List.mapM f as <;> simp

/-- `Track.to_sequence()` is `Bar.to_sequence(self.bars)` -/
theorem trackToSequence_eq (e : Env) (t : GTrack) :
    Gen.Elem.trackToSequence e t = (fun s => (t, s)) <$> Gen.Elem.barsToSequence e t.bars := by
  simp only [Gen.Elem.trackToSequence]
  cases Gen.Elem.barsToSequence e t.bars <;> rfl

/-- `Composition(tracks)` just stores the tracks -/
theorem compInit_eq (e : Env) (ts : List GTrack) : Gen.Elem.compInit e ts = .ok { tracks := ts } := rfl

/-- **`Track.copy()` copies every bar (`Bar.copy`) and constructs a new track from the copies** — a shallow copy that reuses the bars
    changes the regenerated function and breaks this theorem -/
theorem trackCopy_eq (e : Env) (t : GTrack) :
    Gen.Elem.trackCopy e t =
      (do let bs ← t.bars.mapM (fun b => (·.2) <$> Gen.Elem.barCopy e b)
          let c ← Gen.Elem.trackInit e bs ()
          pure (t, c)) := by
  have h : (fun (bar_ : GBar) => (do let r1 ← Gen.Elem.barCopy e bar_; pure r1.2 : Except Err GBar)) =
      (fun b => (·.2) <$> Gen.Elem.barCopy e b) := by
    funext b; cases Gen.Elem.barCopy e b <;> rfl
  simp only [Gen.Elem.trackCopy, h]

/-- **`Composition.copy()` copies every track (`Track.copy`)** -/
theorem compCopy_eq (e : Env) (c : GComposition) :
    Gen.Elem.compCopy e c =
      (do let ts ← c.tracks.mapM (fun t => (·.2) <$> Gen.Elem.trackCopy e t)
          pure (c, { tracks := ts })) := by
  have h : (fun (track_ : GTrack) => (do let r1 ← Gen.Elem.trackCopy e track_; pure r1.2 : Except Err GTrack)) =
      (fun t => (·.2) <$> Gen.Elem.trackCopy e t) := by
    funext t; cases Gen.Elem.trackCopy e t <;> rfl
  simp only [Gen.Elem.compCopy, h, compInit_eq]
  cases List.mapM (fun t => (·.2) <$> Gen.Elem.trackCopy e t) c.tracks <;> rfl

/-- **`Composition.to_sequences()` is `Track.to_sequence()` of every track, in order** -/
theorem compToSequences_eq (e : Env) (c : GComposition) :
    Gen.Elem.compToSequences e c =
      (fun ss => (c, ss)) <$> c.tracks.mapM (fun t => (·.2) <$> Gen.Elem.trackToSequence e t) := by
  have h : ∀ (l : List GTrack) (init : List Seq),
      (forIn l init (fun track_ r => (do let r1 ← Gen.Elem.trackToSequence e track_; pure (ForInStep.yield (r ++ [r1.2])) :
          Except Err (ForInStep (List Seq))))) =
        (fun xs => init ++ xs) <$> l.mapM (fun t => (·.2) <$> Gen.Elem.trackToSequence e t) := by
    intro l init
    have := forIn_collectM l init (fun t => (·.2) <$> Gen.Elem.trackToSequence e t)
    rw [← this]
    congr 1; funext a b
    cases Gen.Elem.trackToSequence e a <;> rfl
  simp only [Gen.Elem.compToSequences, h]
  cases List.mapM (fun t => (·.2) <$> Gen.Elem.trackToSequence e t) c.tracks <;> simp


theorem mapM_ok {α β} (l : List α) (g : α → β) :
    l.mapM (fun x => (Except.ok (g x) : Except Err β)) = .ok (l.map g) := by
  induction l with
  | nil => rfl
  | cons a as ih => simp [List.mapM_cons, ih]

theorem mapM_map {α β γ} (l : List α) (h : α → β) (f : β → Except Err γ) :
    (l.map h).mapM f = l.mapM (fun x => f (h x)) := by
  induction l with
  | nil => rfl
  | cons a as ih => simp [List.mapM_cons, ih]

/-- `for i in range(0, len(l)): … l[i] …` visits the elements of `l` in order -/
theorem range_mapM_get {α β} (l : List α) (g : α → Except Err β) :
    (List.range l.length).mapM (fun i => (do let x ← pyGetNat l i; g x : Except Err β)) = l.mapM g := by
  induction l with
  | nil => rfl
  | cons a as ih =>
    rw [List.length_cons, List.range_succ_eq_map, List.mapM_cons, mapM_map, List.mapM_cons]
    have h : (fun i => (do let x ← pyGetNat (a :: as) (i + 1); g x : Except Err β)) =
        (fun i => (do let x ← pyGetNat as i; g x : Except Err β)) := by
      funext i; simp [pyGetNat]
    simp only [Nat.succ_eq_add_one, h, ih]
    simp [pyGetNat]

/-- what `Track.__init__` computes from the program changes of the concatenated bars -/
def trackProgram (bars : List GBar) (pcs : List Msg) : Except Err GTrack :=
  match pcs with
  | [] => .ok { bars := bars, program := pyNone }
  | p :: _ => if pcs.all (fun m => decide (m.prog = p.prog)) then .ok { bars := bars, program := p.prog } else .error .sequenceError

/-- **`Track(bars)`**: the bars are stored; the program is that of the first program change of the concatenated bars (read through
    `messages_rel()`), `None` without any, and a `TrackException` (error code `sequenceError`) when two program changes disagree -/
theorem trackInit_eq (e : Env) (bars : List GBar) :
    Gen.Elem.trackInit e bars () =
      (do let s ← Gen.Elem.barsToSequence e bars
          let r ← Gen.Wrap.messagesRel e s id
          trackProgram bars (r.1.rel.filter (fun m => m.ty == MType.programChange))) := by
  simp only [Gen.Elem.trackInit]
  cases Gen.Elem.barsToSequence e bars with
  | error x => rfl
  | ok s =>
    simp only [ok_bind]
    cases Gen.Wrap.messagesRel e s id with
    | error x => rfl
    | ok r =>
      simp only [ok_bind]
      cases hp : r.1.rel.filter (fun m => m.ty == MType.programChange) with
      | nil => simp [trackProgram]
      | cons p ps =>
        simp [trackProgram, pyGetInt, pyGetNat, mapM_ok]
        by_cases h : ∀ x ∈ ps, x.prog = p.prog
        · have h' : ¬ ∃ a ∈ ps, ¬a.prog = p.prog := by
            rintro ⟨a, ha, hna⟩; exact hna (h a ha)
          simp [h, h']
        · have h' : ∃ a ∈ ps, ¬a.prog = p.prog := by
            simpa [not_forall] using h
          simp [h, h']

/-- **`Composition.from_sequences(sequences, meta_track_index)`**: split into bars (link `View.seq_split_bars`, re-quantisation on by
    default), one `Track` per list of bars, in order -/
theorem compFromSequences_eq (e : Env) (seqs : List Seq) (metaIdx : Nat) :
    Gen.Elem.compFromSequences e seqs metaIdx =
      (do let tb ← View.seq_split_bars e seqs metaIdx true
          let ts ← tb.mapM (fun bs => Gen.Elem.trackInit e bs ())
          pure { tracks := ts }) := by
  simp only [Gen.Elem.compFromSequences]
  cases View.seq_split_bars e seqs metaIdx true with
  | error x => rfl
  | ok tb =>
    simp only [ok_bind]
    have h := forIn_collectM (List.range tb.length) ([] : List GTrack)
      (fun i => (do let x ← pyGetNat tb i; Gen.Elem.trackInit e x () : Except Err GTrack))
    rw [range_mapM_get] at h
    have h2 : (forIn (List.range tb.length) ([] : List GTrack) fun trackIndex_ __s =>
          (do let x2 ← pyGetNat tb trackIndex_
              let o3 ← Gen.Elem.trackInit e x2 ()
              pure (ForInStep.yield (__s ++ [o3])) : Except Err (ForInStep (List GTrack)))) =
        (fun xs => [] ++ xs) <$> List.mapM (fun x => Gen.Elem.trackInit e x ()) tb := by
      rw [← h]; congr 1; funext a b
      cases pyGetNat tb a with
      | error x => rfl
      | ok x => simp only [ok_bind]
    rw [h2]
    cases List.mapM (fun x => Gen.Elem.trackInit e x ()) tb <;> simp [compInit_eq]

/-- the default arguments of the translated element methods are pinned -/
theorem elem_defaults_pinned :
    Gen.Elem.defaults = ["Bar.__init__(key=None)", "Bar.__init__(default_channel=0)", "Track.__init__(name=None)", "Composition.from_sequences(meta_track_index=0)"] := by
  decide

end SCoda.ElemTie
