/-
  C14 — transposition shifts each pitch class by the interval, keeping pitches in range.
  `lo`/`hi` are NOTE_LOWER_BOUND / NOTE_UPPER_BOUND (21 / 108 in the generated settings; the
  theorems need only `lo + 11 ≤ hi`, i.e. the range spans an octave).
-/
import SCoda.Model.Normalise
import SCoda.Model.Roll
import SCoda.Gen.Settings
import SCoda.Gen.TheoryFns
import SCoda.Props.C20
namespace SCoda.C14
open SCoda

/-! ### the octave-wrapping loops -/

theorem wrapUp_spec (lo : Int) (f : Nat) (p : Int) (hf : lo - p < 12 * (f:Int)) :
    lo ≤ (wrapUp lo f p).1 ∧ ((wrapUp lo f p).1 - p) % 12 = 0 ∧ (p < lo → (wrapUp lo f p).1 < lo + 12)
    ∧ (lo ≤ p → (wrapUp lo f p).1 = p) ∧ ((wrapUp lo f p).2 = true ↔ p < lo) := by
  induction f generalizing p with
  | zero => simp [wrapUp]; omega
  | succ f ih =>
    unfold wrapUp
    split
    · have := ih (p + 12) (by omega)
      simp
      omega
    · simp; omega

theorem wrapDown_spec (hi : Int) (f : Nat) (p : Int) (hf : p - hi < 12 * (f:Int)) :
    (wrapDown hi f p).1 ≤ hi ∧ ((wrapDown hi f p).1 - p) % 12 = 0 ∧ (p > hi → (wrapDown hi f p).1 > hi - 12)
    ∧ (p ≤ hi → (wrapDown hi f p).1 = p) ∧ ((wrapDown hi f p).2 = true ↔ p > hi) := by
  induction f generalizing p with
  | zero => simp [wrapDown]; omega
  | succ f ih =>
    unfold wrapDown
    split
    · have := ih (p - 12) (by omega)
      simp
      omega
    · simp; omega

theorem wrapUp_class (lo : Int) (f : Nat) (p : Int) : ((wrapUp lo f p).1 - p) % 12 = 0 := by
  induction f generalizing p with
  | zero => simp [wrapUp]
  | succ f ih =>
    unfold wrapUp
    split
    · have := ih (p + 12)
      simp
      omega
    · simp

theorem wrapDown_class (hi : Int) (f : Nat) (p : Int) : ((wrapDown hi f p).1 - p) % 12 = 0 := by
  induction f generalizing p with
  | zero => simp [wrapDown]
  | succ f ih =>
    unfold wrapDown
    split
    · have := ih (p - 12)
      simp
      omega
    · simp

theorem wrapPitch_fst (lo hi p : Int) : (wrapPitch lo hi p).1 =
   (wrapDown hi (Int.toNat ((wrapUp lo (Int.toNat (lo - p) / 12 + 2) p).1 - hi) / 12 + 2) (wrapUp lo (Int.toNat (lo - p) / 12 + 2) p).1).1 := rfl
theorem wrapPitch_snd (lo hi p : Int) : (wrapPitch lo hi p).2 =
   ((wrapUp lo (Int.toNat (lo - p) / 12 + 2) p).2 || (wrapDown hi (Int.toNat ((wrapUp lo (Int.toNat (lo - p) / 12 + 2) p).1 - hi) / 12 + 2) (wrapUp lo (Int.toNat (lo - p) / 12 + 2) p).1).2) := rfl

theorem wrap_all (lo hi p : Int) (h : lo + 11 ≤ hi) :
    lo ≤ (wrapPitch lo hi p).1 ∧ (wrapPitch lo hi p).1 ≤ hi ∧
    ((wrapPitch lo hi p).2 = true ↔ ¬(lo ≤ p ∧ p ≤ hi)) ∧ (lo ≤ p → p ≤ hi → (wrapPitch lo hi p).1 = p) := by
  rw [wrapPitch_fst, wrapPitch_snd]
  have h1 := wrapUp_spec lo (Int.toNat (lo - p) / 12 + 2) p (by omega)
  generalize (wrapUp lo (Int.toNat (lo - p) / 12 + 2) p) = u at *
  have h2 := wrapDown_spec hi (Int.toNat (u.1 - hi) / 12 + 2) u.1 (by omega)
  generalize (wrapDown hi (Int.toNat (u.1 - hi) / 12 + 2) u.1) = d at *
  obtain ⟨a1, a2, a3, a4, a5⟩ := h1
  obtain ⟨b1, b2, b3, b4, b5⟩ := h2
  simp only [Bool.or_eq_true]
  rw [a5, b5]
  omega

theorem wrap_in_range (lo hi p : Int) (h : lo + 11 ≤ hi) :
    lo ≤ (wrapPitch lo hi p).1 ∧ (wrapPitch lo hi p).1 ≤ hi :=
  ⟨(wrap_all lo hi p h).1, (wrap_all lo hi p h).2.1⟩

/-- the wrapped pitch differs from the shifted pitch by whole octaves -/
theorem wrap_class (lo hi p : Int) : ((wrapPitch lo hi p).1 - p) % 12 = 0 := by
  rw [wrapPitch_fst]
  have h1 := wrapUp_class lo (Int.toNat (lo - p) / 12 + 2) p
  generalize (wrapUp lo (Int.toNat (lo - p) / 12 + 2) p) = u at *
  have h2 := wrapDown_class hi (Int.toNat (u.1 - hi) / 12 + 2) u.1
  omega

/-- the flag is set exactly when the pitch had to be moved -/
theorem wrap_flag (lo hi p : Int) (h : lo + 11 ≤ hi) :
    (wrapPitch lo hi p).2 = true ↔ ¬(lo ≤ p ∧ p ≤ hi) := (wrap_all lo hi p h).2.2.1

theorem wrap_id (lo hi p : Int) (h : lo ≤ p ∧ p ≤ hi) : wrapPitch lo hi p = (p, false) := by
  have e1 : ∀ f, wrapUp lo f p = (p, false) := by
    intro f; cases f <;> simp [wrapUp]; omega
  have e2 : ∀ f, wrapDown hi f p = (p, false) := by
    intro f; cases f <;> simp [wrapDown]; omega
  simp only [wrapPitch, e1, e2, Bool.or_self]

/-! ### the sequence-level operation (`RelativeSequence.transpose`) -/

def isNoteMsg (m : Msg) : Bool := m.ty == .noteOn || m.ty == .noteOff

theorem transposeMsg_note (lo hi : Int) (tk : Int → Int) (by_ : Int) (m : Msg) (hm : isNoteMsg m = true) :
    transposeMsg lo hi tk by_ m =
      ({ m with note := (wrapPitch lo hi (m.note + by_)).1 }, (wrapPitch lo hi (m.note + by_)).2) := by
  unfold isNoteMsg at hm
  simp only [transposeMsg, hm, if_true]

theorem transposeMsg_nonnote (lo hi : Int) (tk : Int → Int) (by_ : Int) (m : Msg) (hm : isNoteMsg m = false) :
    transposeMsg lo hi tk by_ m =
      (if m.ty == .keySignature then { m with key := tk m.key } else m, false) := by
  unfold isNoteMsg at hm
  simp only [transposeMsg, hm, Bool.false_eq_true, if_false]
  split <;> rfl

theorem transposeMsg_ty (lo hi : Int) (tk : Int → Int) (by_ : Int) (m : Msg) :
    (transposeMsg lo hi tk by_ m).1.ty = m.ty := by
  unfold transposeMsg; split
  · rfl
  · split <;> rfl

theorem transposeMsg_time (lo hi : Int) (tk : Int → Int) (by_ : Int) (m : Msg) :
    (transposeMsg lo hi tk by_ m).1.time = m.time := by
  unfold transposeMsg; split
  · rfl
  · split <;> rfl

/-- every note stays inside the playable range -/
theorem in_range (lo hi : Int) (tk : Int → Int) (by_ : Int) (r : List Msg) (h : lo + 11 ≤ hi) :
    ∀ m ∈ (transposeRel lo hi tk by_ r).1, isNoteMsg m = true → lo ≤ m.note ∧ m.note ≤ hi := by
  intro m hm hn
  simp only [transposeRel, List.mem_map] at hm
  obtain ⟨a, _, rfl⟩ := hm
  have hty := transposeMsg_ty lo hi tk by_ a
  have ha : isNoteMsg a = true := by
    unfold isNoteMsg at hn ⊢; rw [hty] at hn; exact hn
  rw [transposeMsg_note lo hi tk by_ a ha]
  exact wrap_in_range lo hi _ h

/-- the result is the position-wise image of the input under the one-message function … -/
theorem image_list (lo hi : Int) (tk : Int → Int) (by_ : Int) (r : List Msg) :
    (transposeRel lo hi tk by_ r).1 = r.map (fun m => (transposeMsg lo hi tk by_ m).1)
    ∧ (transposeRel lo hi tk by_ r).1.length = r.length := by
  simp [transposeRel]

/-- … and that function keeps type, channel, velocity, …; shifts a note's pitch class by exactly the
    interval; maps a key signature's key through `tk`; leaves every other message alone -/
theorem image_pointwise (lo hi : Int) (tk : Int → Int) (by_ : Int) (m : Msg) :
    let m' := (transposeMsg lo hi tk by_ m).1
    (isNoteMsg m = true → m' = { m with note := m'.note } ∧ (m'.note - m.note - by_) % 12 = 0)
    ∧ (m.ty = .keySignature → m' = { m with key := tk m.key })
    ∧ (isNoteMsg m = false → m.ty ≠ .keySignature → m' = m) := by
  intro m'
  refine ⟨?_, ?_, ?_⟩
  · intro hm
    have e : m' = { m with note := (wrapPitch lo hi (m.note + by_)).1 } := by
      show (transposeMsg lo hi tk by_ m).1 = _
      rw [transposeMsg_note lo hi tk by_ m hm]
    rw [e]
    refine ⟨rfl, ?_⟩
    have := wrap_class lo hi (m.note + by_)
    show ((wrapPitch lo hi (m.note + by_)).1 - m.note - by_) % 12 = 0
    omega
  · intro hk
    have hm : isNoteMsg m = false := by simp [isNoteMsg, hk]
    show (transposeMsg lo hi tk by_ m).1 = _
    rw [transposeMsg_nonnote lo hi tk by_ m hm]
    simp [hk]
  · intro hm hk
    show (transposeMsg lo hi tk by_ m).1 = _
    rw [transposeMsg_nonnote lo hi tk by_ m hm]
    simp [hk]

/-- returns true exactly when some note had to be moved by octaves -/
theorem flag (lo hi : Int) (tk : Int → Int) (by_ : Int) (r : List Msg) (h : lo + 11 ≤ hi) :
    (transposeRel lo hi tk by_ r).2 = true ↔
      ∃ m ∈ r, isNoteMsg m = true ∧ ¬(lo ≤ m.note + by_ ∧ m.note + by_ ≤ hi) := by
  simp only [transposeRel, List.any_eq_true]
  constructor
  · rintro ⟨m, hm, hf⟩
    refine ⟨m, hm, ?_⟩
    cases hn : isNoteMsg m
    · rw [transposeMsg_nonnote lo hi tk by_ m hn] at hf
      simp at hf
    · rw [transposeMsg_note lo hi tk by_ m hn] at hf
      exact ⟨rfl, (wrap_flag lo hi _ h).1 hf⟩
  · rintro ⟨m, hm, hn, hf⟩
    refine ⟨m, hm, ?_⟩
    rw [transposeMsg_note lo hi tk by_ m hn]
    exact (wrap_flag lo hi _ h).2 hf

theorem transposeMsg_exact (lo hi : Int) (tk : Int → Int) (by_ : Int) (m : Msg) (h : lo + 11 ≤ hi)
    (hf : (transposeMsg lo hi tk by_ m).2 = false) :
    (transposeMsg lo hi tk by_ m).1 =
      (if isNoteMsg m then { m with note := m.note + by_ }
      else if m.ty == .keySignature then { m with key := tk m.key } else m) := by
  cases hn : isNoteMsg m
  · rw [transposeMsg_nonnote lo hi tk by_ m hn]; simp
  · rw [transposeMsg_note lo hi tk by_ m hn] at hf ⊢
    simp only [if_true]
    have hin : lo ≤ m.note + by_ ∧ m.note + by_ ≤ hi := by
      have := wrap_flag lo hi (m.note + by_) h
      by_cases hc : lo ≤ m.note + by_ ∧ m.note + by_ ≤ hi
      · exact hc
      · rw [this.2 hc] at hf; cases hf
    rw [wrap_id lo hi _ hin]

/-- when nothing is moved by octaves every note is shifted by exactly the interval and nothing else
    (onsets, durations, velocities: the message list is otherwise identical) changes -/
theorem exact (lo hi : Int) (tk : Int → Int) (by_ : Int) (r : List Msg) (h : lo + 11 ≤ hi)
    (hf : (transposeRel lo hi tk by_ r).2 = false) :
    (transposeRel lo hi tk by_ r).1 = r.map (fun m =>
      if isNoteMsg m then { m with note := m.note + by_ }
      else if m.ty == .keySignature then { m with key := tk m.key } else m) := by
  simp only [transposeRel, List.any_eq_false] at hf ⊢
  apply List.map_congr_left
  intro m hm
  exact transposeMsg_exact lo hi tk by_ m h (by simpa using hf m hm)

theorem transposeMsg_inv (lo hi : Int) (tk tkBack : Int → Int) (by_ : Int) (m : Msg)
    (hr : isNoteMsg m = true → lo ≤ m.note ∧ m.note ≤ hi)
    (hk : m.ty = .keySignature → tkBack (tk m.key) = m.key) :
    transposeMsg lo hi tkBack (-by_)
      (if isNoteMsg m then { m with note := m.note + by_ }
       else if m.ty == .keySignature then { m with key := tk m.key } else m) = (m, false) := by
  cases hn : isNoteMsg m
  · simp only [Bool.false_eq_true, if_false]
    by_cases hks : m.ty = .keySignature
    · have hb : (m.ty == MType.keySignature) = true := by simp [hks]
      simp only [hb, if_true]
      rw [transposeMsg_nonnote _ _ _ _ _ (by simp [isNoteMsg, hks])]
      simp only [hb, if_true, hk hks]
    · have : (m.ty == MType.keySignature) = false := by simpa using hks
      simp only [this, Bool.false_eq_true, if_false]
      rw [transposeMsg_nonnote _ _ _ _ _ hn]
      simp only [this, Bool.false_eq_true, if_false]
  · simp only [if_true]
    rw [transposeMsg_note _ _ _ _ _ (by simpa [isNoteMsg] using hn)]
    have e : m.note + by_ + -by_ = m.note := by omega
    simp only [e, wrap_id lo hi m.note (hr hn)]

/-- … and transposing back restores the original notes (key signatures: `tkBack (tk k) = k` is a
    hypothesis about the key function, discharged for the real one modulo enharmonic spelling in C20) -/
theorem inverse (lo hi : Int) (tk tkBack : Int → Int) (by_ : Int) (r : List Msg) (h : lo + 11 ≤ hi)
    (hf : (transposeRel lo hi tk by_ r).2 = false)
    (hr : ∀ m ∈ r, isNoteMsg m = true → lo ≤ m.note ∧ m.note ≤ hi)
    (hk : ∀ m ∈ r, m.ty = .keySignature → tkBack (tk m.key) = m.key) :
    transposeRel lo hi tkBack (-by_) (transposeRel lo hi tk by_ r).1 = (r, false) := by
  rw [exact lo hi tk by_ r h hf]
  simp only [transposeRel, List.map_map, List.any_map]
  refine Prod.ext ?_ ?_
  · show List.map _ r = r
    conv => rhs; rw [← List.map_id r]
    apply List.map_congr_left
    intro m hm
    simp only [Function.comp, transposeMsg_inv lo hi tk tkBack by_ m (hr m hm) (hk m hm), id]
  · show List.any r _ = false
    rw [List.any_eq_false]
    intro m hm
    simp only [Function.comp, transposeMsg_inv lo hi tk tkBack by_ m (hr m hm) (hk m hm)]
    simp

theorem totalWait_map (f : Msg → Msg) (hty : ∀ m, (f m).ty = m.ty) (htime : ∀ m, (f m).time = m.time)
    (r : List Msg) : totalWait (r.map f) = totalWait r := by
  induction r with
  | nil => rfl
  | cons m ms ih => simp only [List.map_cons, totalWait, hty, htime, ih]

theorem eventsRelGo_map_time (f : Msg → Msg) (hty : ∀ m, (f m).ty = m.ty) (htime : ∀ m, (f m).time = m.time)
    (cur : Int) (r : List Msg) :
    (eventsRelGo cur (r.map f)).map (·.time) = (eventsRelGo cur r).map (·.time) := by
  induction r generalizing cur with
  | nil => rfl
  | cons m ms ih =>
    simp only [List.map_cons, eventsRelGo, hty, htime]
    split
    · exact ih _
    · simp only [List.map_cons, ih]

/-- timing is untouched: same duration, and every event keeps its tick -/
theorem timing (lo hi : Int) (tk : Int → Int) (by_ : Int) (r : List Msg) :
    durRel (transposeRel lo hi tk by_ r).1 = durRel r
    ∧ (eventsRel (transposeRel lo hi tk by_ r).1).map (·.time) = (eventsRel r).map (·.time) :=
  ⟨totalWait_map _ (transposeMsg_ty lo hi tk by_) (transposeMsg_time lo hi tk by_) r,
   eventsRelGo_map_time _ (transposeMsg_ty lo hi tk by_) (transposeMsg_time lo hi tk by_) 0 r⟩

/-! ### keys: with the generated `transpose_key`, a key signature never becomes undefined -/

/-- the key function the wrapper uses: `Gen.transposeKey` on key indices, `pyNone` ↦ `pyNone` -/
def tkGen (by_ : Int) (k : Int) : Int :=
  if k == pyNone then pyNone else
  match Gen.transposeKey k by_ with
  | some v => if v == -1000000 then pyNone else v
  | Option.none => -2

/-- a valid key index is mapped to a valid key index (never `None`, never an exception) -/
theorem key_defined (by_ k : Int) (hk : 0 ≤ k ∧ k < (Gen.keyNames.length : Int)) :
    0 ≤ tkGen by_ k ∧ tkGen by_ k < (Gen.keyNames.length : Int) := by
  obtain ⟨k', hk', hv⟩ := SCoda.C20.transpose_total k by_ hk
  have hv' : 0 ≤ k' ∧ k' < (Gen.keyNames.length : Int) := hv
  have h1 : (k == pyNone) = false := by
    simp only [pyNone, beq_eq_false_iff_ne, ne_eq]; omega
  have h2 : (k' == -1000000) = false := by
    simp only [beq_eq_false_iff_ne, ne_eq]; omega
  simp only [tkGen, h1, hk', h2, Bool.false_eq_true, if_false]
  exact hv'

/-- the range in the generated settings spans an octave -/
theorem settings_range : Gen.noteLowerBound + 11 ≤ Gen.noteUpperBound := by
  decide

/-! non-vacuity -/
example : wrapPitch 21 108 (108 + 5) = (101, true) := by
  decide
example : (transposeRel 21 108 id 2 [Msg.mkOn 0 107 64 pyNone, Msg.mkWait 0 24, Msg.mkOff 0 107 pyNone]).2 = true := by
  decide

end SCoda.C14
