/-
  Strengthened statements for C09, re-quantisation ON (audit item A6(c)).

  `C09.sound_subset` proves only "the bars sound at most where the track sounds" — a re-quantiser that deleted every
  note would pass, and "only boundary-cut fragments may shrink" was not covered.  What the code does
  (sequence.py:528-531 → absolute_sequence.py:292-370 with `do_not_extend=True`) is: every bar piece goes through the
  shorten-only note-length quantisation, so a note of the piece may be shortened or dropped when its duration is not an
  allowed value — whether or not it was cut at a bar line.  What is true, and proved here for every track without
  zero-length notes:

  * `requant_run_key` / `requant_bars_key` — key by key and in time order, the notes of the bars laid end to end are
    obtained from the *fragments* (the track's notes cut at the bar lines; `cutNotes`, an independent specification) by
    dropping only fragments whose duration is not an allowed value and keeping every other fragment in place with the
    same channel, pitch, velocity and onset, an end that is not later, an allowed duration — and unchanged when its
    duration already was an allowed value (`Requantised`);
  * `requant_onsets_kept`, `requant_allowed_unchanged`, `requant_no_duplicates`, `requant_all_allowed` — the
    consequences in the words of the property (the second one rules out "a re-quantiser deleting every note");
  * FINDING: with re-quantisation on, a zero-length note *anywhere* (not only on a bar line, D18b) breaks the "subset"
    clause: `sound_subset_boundary_statement_false`.  Replayed on the real implementation, which behaves like the model.
-/
import SCoda.Lemmas.Strong589LR
import SCoda.Props.C09
import SCoda.Gen.Settings
namespace SCoda.Strong589
open SCoda SCoda.SplitL SCoda.SB SCoda.Strong589L SCoda.Strong589LT SCoda.Strong589LR

/-! ## vocabulary -/

/-- **no zero-length note**: no note read off the track by the independent `notesOf` semantics has `on = off`.
    Input-level and decidable.  (For re-quantisation on this cannot be narrowed to "… on a bar line": see
    `sound_subset_boundary_statement_false`.) -/
def NoZeroLen (t : List Msg) : Prop := ∀ n ∈ notesOf (eventsRel t), n.on ≠ n.off

instance (t : List Msg) : Decidable (NoZeroLen t) := by unfold NoZeroLen; infer_instance

/-- the bar lines of a list of bars laid end to end from tick 0: the tick at which each bar ends -/
def rqBarLines (ppqn : Int) (bars : List Bar) : List Int :=
  cums 0 (bars.map (fun b => barCapacity ppqn b.num b.den))

/-- the **fragments** of a track: its notes, cut at the given ticks one after the other (a note sounding across a
    tick `b` becomes `[on, b)` and `[b, off)`, same channel, pitch and velocity; see `Strong589L.cutNotes`) -/
def rqFragments (lines : List Int) (t : List Msg) : List Note := Strong589L.cutNotes lines (notesOf (eventsRel t))

/-- how a note `n'` of the bars relates to the fragment `n` it comes from: same channel, pitch, velocity and onset,
    it does not end later, its duration is an allowed value, and it is `n` itself when `n`'s duration is allowed -/
abbrev Requantised (values : List Int) (n n' : Note) : Prop := Strong589LR.QRel values n n'

/-- the notes of one key before (`N`) and after (`N'`), in time order: a note is dropped only when its duration is
    not an allowed value; every other note is kept in place, related by `Requantised` -/
abbrev RequantisedList (values : List Int) (N N' : List Note) : Prop := Strong589LR.NotesV values N N'

theorem requantised_iff (values : List Int) (n n' : Note) : Requantised values n n' ↔
    (n'.ch = n.ch ∧ n'.pitch = n.pitch ∧ n'.vel = n.vel ∧ n'.on = n.on ∧ n'.off ≤ n.off ∧
      (n'.off - n'.on) ∈ values ∧ ((n.off - n.on) ∈ values → n' = n)) := Iff.rfl

/-! ## a per-track run -/

/-- the bar lengths of a run are those of the bars it produces -/
theorem run_lines (ppqn : Int) (values : List Int) (requant : Bool) (gs : List Sg) (t : List Msg) (tw : List Bool)
    (t' : List Msg) (nb : List Bar) (h : trackRun ppqn values requant gs t = .ok (tw, t', nb)) :
    cums 0 (gs.map (sgLen ppqn)) = rqBarLines ppqn nb := by
  have hs := trackRun_sigs ppqn values requant gs t tw t' nb h
  unfold rqBarLines
  rw [← hs, List.map_map]
  rfl

/-- **re-quantisation on, key by key** (per-track run): for every (channel, pitch), the notes of the bars laid end to
    end are — in time order — the fragments of the track (its notes cut at the bar lines), where a fragment is
    dropped only if its duration is not an allowed value and every other fragment is kept in place with the same
    channel, pitch, velocity and onset, a not-later end and an allowed duration, unchanged if its duration was
    already allowed.  Closes audit item A6(c). -/
theorem requant_run_key (ppqn : Int) (values : List Int) (gs : List Sg) (t : List Msg) (tw : List Bool)
    (nb : List Bar) (h : trackRun ppqn values true gs t = .ok (tw, [], nb))
    (hpos : ∀ g ∈ gs, 0 < sgLen ppqn g) (hv : ∀ v ∈ values, 0 < v) (hw : NonNegWaits t) (hwf : WF t)
    (hz : NoZeroLen t) (k : Int × Int) :
    RequantisedList values ((rqFragments (rqBarLines ppqn nb) t).filter (keyIs k))
      ((notesOf (eventsRel (barsToSeq nb))).filter (keyIs k)) := by
  unfold rqFragments
  rw [cutNotes_filter, notesOf_key, notesOf_key, ← run_lines ppqn values true gs t tw [] nb h]
  exact trackRun_notesV ppqn values hv gs t tw nb 0 h hpos hw hwf (noZero_of_notes t hw hz) k

/-- **onsets kept, nothing grows, only allowed durations** (per-track run, re-quantisation on): every note of the
    bars laid end to end comes from a fragment of the track (a note of the track cut at the bar lines) with the same
    channel, pitch, velocity and onset; it does not end later than the fragment and its duration is an allowed value.
    Closes audit item A6(c) ("`onsets_kept` lifted to bars"). -/
theorem requant_onsets_kept (ppqn : Int) (values : List Int) (gs : List Sg) (t : List Msg) (tw : List Bool)
    (nb : List Bar) (h : trackRun ppqn values true gs t = .ok (tw, [], nb))
    (hpos : ∀ g ∈ gs, 0 < sgLen ppqn g) (hv : ∀ v ∈ values, 0 < v) (hw : NonNegWaits t) (hwf : WF t)
    (hz : NoZeroLen t) :
    ∀ n' ∈ notesOf (eventsRel (barsToSeq nb)), ∃ n ∈ rqFragments (rqBarLines ppqn nb) t,
      n'.ch = n.ch ∧ n'.pitch = n.pitch ∧ n'.vel = n.vel ∧ n'.on = n.on ∧ n'.off ≤ n.off ∧
        (n'.off - n'.on) ∈ values := by
  intro n' hn'
  have hK := requant_run_key ppqn values gs t tw nb h hpos hv hw hwf hz (n'.ch, n'.pitch)
  have hn'k : n' ∈ (notesOf (eventsRel (barsToSeq nb))).filter (keyIs (n'.ch, n'.pitch)) :=
    List.mem_filter.2 ⟨hn', by simp [keyIs]⟩
  obtain ⟨n, hn, h1, h2, h3, h4, h5, h6, _⟩ := hK.mem_out n' hn'k
  exact ⟨n, (List.mem_filter.1 hn).1, h1, h2, h3, h4, h5, h6⟩

/-- **an allowed duration is left alone** (per-track run, re-quantisation on): a fragment of the track whose duration
    is an allowed value appears unchanged among the notes of the bars laid end to end — so a re-quantiser that
    deleted every note does not satisfy this.  Closes audit item A6(c). -/
theorem requant_allowed_unchanged (ppqn : Int) (values : List Int) (gs : List Sg) (t : List Msg) (tw : List Bool)
    (nb : List Bar) (h : trackRun ppqn values true gs t = .ok (tw, [], nb))
    (hpos : ∀ g ∈ gs, 0 < sgLen ppqn g) (hv : ∀ v ∈ values, 0 < v) (hw : NonNegWaits t) (hwf : WF t)
    (hz : NoZeroLen t) :
    ∀ n ∈ rqFragments (rqBarLines ppqn nb) t, (n.off - n.on) ∈ values → n ∈ notesOf (eventsRel (barsToSeq nb)) := by
  intro n hn hc
  have hK := requant_run_key ppqn values gs t tw nb h hpos hv hw hwf hz (n.ch, n.pitch)
  have hnk : n ∈ (rqFragments (rqBarLines ppqn nb) t).filter (keyIs (n.ch, n.pitch)) :=
    List.mem_filter.2 ⟨hn, by simp [keyIs]⟩
  exact (List.mem_filter.1 (hK.mem_allowed n hnk hc)).1

/-- **nothing is duplicated or reordered** (per-track run, re-quantisation on): for every (channel, pitch) the notes
    of the bars correspond one for one, in time order, to a sub-list `kept` of the fragments of that key, each related
    to its fragment by `Requantised`.  Closes audit item A6(c). -/
theorem requant_no_duplicates (ppqn : Int) (values : List Int) (gs : List Sg) (t : List Msg) (tw : List Bool)
    (nb : List Bar) (h : trackRun ppqn values true gs t = .ok (tw, [], nb))
    (hpos : ∀ g ∈ gs, 0 < sgLen ppqn g) (hv : ∀ v ∈ values, 0 < v) (hw : NonNegWaits t) (hwf : WF t)
    (hz : NoZeroLen t) (k : Int × Int) :
    ∃ kept : List Note, kept.Sublist ((rqFragments (rqBarLines ppqn nb) t).filter (keyIs k)) ∧
      kept.length = ((notesOf (eventsRel (barsToSeq nb))).filter (keyIs k)).length ∧
      ∀ p ∈ kept.zip ((notesOf (eventsRel (barsToSeq nb))).filter (keyIs k)), Requantised values p.1 p.2 :=
  (requant_run_key ppqn values gs t tw nb h hpos hv hw hwf hz k).sublist

/-- **all fragments allowed ⇒ the bars have exactly the fragments** (per-track run, re-quantisation on): when every
    fragment of the track has an allowed duration, the notes of the bars laid end to end are a permutation of the
    fragments — re-quantisation changes nothing.  Closes audit item A6(c). -/
theorem requant_all_allowed (ppqn : Int) (values : List Int) (gs : List Sg) (t : List Msg) (tw : List Bool)
    (nb : List Bar) (h : trackRun ppqn values true gs t = .ok (tw, [], nb))
    (hpos : ∀ g ∈ gs, 0 < sgLen ppqn g) (hv : ∀ v ∈ values, 0 < v) (hw : NonNegWaits t) (hwf : WF t)
    (hz : NoZeroLen t) (ha : ∀ n ∈ rqFragments (rqBarLines ppqn nb) t, (n.off - n.on) ∈ values) :
    (notesOf (eventsRel (barsToSeq nb))).Perm (rqFragments (rqBarLines ppqn nb) t) := by
  apply perm_of_keys
  intro k
  exact (requant_run_key ppqn values gs t tw nb h hpos hv hw hwf hz k).eq_of_allowed
    (fun n hn => ha n (List.mem_filter.1 hn).1)

/-! ## the same for `splitBars` -/

/-- a track's bars in the result of `splitBars` come from a per-track run that uses the track up -/
theorem splitBars_track_run (ppqn : Int) (values : List Int) (tracks : List (List Msg)) (metaIdx : Nat)
    (requant : Bool) (tb : List (List Bar)) (h : splitBars ppqn values tracks metaIdx requant = .ok tb)
    (i : Nat) (t : List Msg) (bars : List Bar) (ht : tracks[i]? = some t) (hb : tb[i]? = some bars)
    (hpos : ∀ b ∈ bars, 0 < barCapacity ppqn b.num b.den) :
    ∃ gs tw, trackRun ppqn values requant gs t = .ok (tw, [], bars) ∧ ∀ g ∈ gs, 0 < sgLen ppqn g := by
  obtain ⟨metaTrack, r, _, _, hall, _⟩ := splitBars_run ppqn values tracks metaIdx requant tb h
  obtain ⟨tw, t', nb, hrun, htb, hlast⟩ := hall i t ht
  rw [hb] at htb
  cases htb
  have hs := trackRun_sigs ppqn values requant _ _ _ _ _ hrun
  have hgpos : ∀ g ∈ sched ppqn metaTrack (r + 1), 0 < sgLen ppqn g := by
    intro g hg
    rw [← hs, List.mem_map] at hg
    obtain ⟨b, hb', rfl⟩ := hg
    exact hpos b hb'
  have ht' : t' = [] :=
    trackRun_rest_nil ppqn values requant _ _ _ _ _ hrun r hlast (by rw [sched_length])
  subst ht'
  exact ⟨_, tw, hrun, hgpos⟩

/-- **re-quantisation on, key by key** (`sequences_split_bars(…, quantise_note_lengths=True)`): as
    `requant_run_key`, for track `i` of the input and its bars in the result.  Closes audit item A6(c). -/
theorem requant_bars_key (ppqn : Int) (values : List Int) (tracks : List (List Msg)) (metaIdx : Nat)
    (tb : List (List Bar)) (h : splitBars ppqn values tracks metaIdx true = .ok tb)
    (i : Nat) (t : List Msg) (bars : List Bar) (ht : tracks[i]? = some t) (hb : tb[i]? = some bars)
    (hw : NonNegWaits t) (hwf : WF t) (hz : NoZeroLen t) (hv : ∀ v ∈ values, 0 < v)
    (hpos : ∀ b ∈ bars, 0 < barCapacity ppqn b.num b.den) (k : Int × Int) :
    RequantisedList values ((rqFragments (rqBarLines ppqn bars) t).filter (keyIs k))
      ((notesOf (eventsRel (barsToSeq bars))).filter (keyIs k)) := by
  obtain ⟨gs, tw, hrun, hgpos⟩ := splitBars_track_run ppqn values tracks metaIdx true tb h i t bars ht hb hpos
  exact requant_run_key ppqn values gs t tw bars hrun hgpos hv hw hwf hz k

/-- **onsets kept, nothing grows, only allowed durations** (`sequences_split_bars`, re-quantisation on): every note
    of a track's bars laid end to end comes from a fragment of the track with the same channel, pitch, velocity and
    onset, ends no later, and has an allowed duration.  Closes audit item A6(c). -/
theorem requant_bars_onsets_kept (ppqn : Int) (values : List Int) (tracks : List (List Msg)) (metaIdx : Nat)
    (tb : List (List Bar)) (h : splitBars ppqn values tracks metaIdx true = .ok tb)
    (i : Nat) (t : List Msg) (bars : List Bar) (ht : tracks[i]? = some t) (hb : tb[i]? = some bars)
    (hw : NonNegWaits t) (hwf : WF t) (hz : NoZeroLen t) (hv : ∀ v ∈ values, 0 < v)
    (hpos : ∀ b ∈ bars, 0 < barCapacity ppqn b.num b.den) :
    ∀ n' ∈ notesOf (eventsRel (barsToSeq bars)), ∃ n ∈ rqFragments (rqBarLines ppqn bars) t,
      n'.ch = n.ch ∧ n'.pitch = n.pitch ∧ n'.vel = n.vel ∧ n'.on = n.on ∧ n'.off ≤ n.off ∧
        (n'.off - n'.on) ∈ values := by
  obtain ⟨gs, tw, hrun, hgpos⟩ := splitBars_track_run ppqn values tracks metaIdx true tb h i t bars ht hb hpos
  exact requant_onsets_kept ppqn values gs t tw bars hrun hgpos hv hw hwf hz

/-- **an allowed duration is left alone** (`sequences_split_bars`, re-quantisation on): a fragment of the track whose
    duration is an allowed value appears unchanged in the track's bars.  Closes audit item A6(c). -/
theorem requant_bars_allowed_unchanged (ppqn : Int) (values : List Int) (tracks : List (List Msg)) (metaIdx : Nat)
    (tb : List (List Bar)) (h : splitBars ppqn values tracks metaIdx true = .ok tb)
    (i : Nat) (t : List Msg) (bars : List Bar) (ht : tracks[i]? = some t) (hb : tb[i]? = some bars)
    (hw : NonNegWaits t) (hwf : WF t) (hz : NoZeroLen t) (hv : ∀ v ∈ values, 0 < v)
    (hpos : ∀ b ∈ bars, 0 < barCapacity ppqn b.num b.den) :
    ∀ n ∈ rqFragments (rqBarLines ppqn bars) t, (n.off - n.on) ∈ values →
      n ∈ notesOf (eventsRel (barsToSeq bars)) := by
  obtain ⟨gs, tw, hrun, hgpos⟩ := splitBars_track_run ppqn values tracks metaIdx true tb h i t bars ht hb hpos
  exact requant_allowed_unchanged ppqn values gs t tw bars hrun hgpos hv hw hwf hz

/-! ## non-vacuity: a note crossing the bar line (96), a note of a non-allowed duration (10 → 9), a too-short note
    (3: dropped), a second channel, an allowed duration (12: unchanged) -/

def exRq : List Msg := [Msg.mkOn 0 60 64 pyNone, Msg.mkWait 0 10, Msg.mkOff 0 60 pyNone, Msg.mkOn 1 62 80 pyNone,
  Msg.mkWait 0 3, Msg.mkOff 1 62 pyNone, Msg.mkWait 0 77, Msg.mkOn 0 60 70 pyNone, Msg.mkWait 0 18,
  Msg.mkOff 0 60 pyNone, Msg.mkOn 1 62 90 pyNone, Msg.mkWait 0 12, Msg.mkOff 1 62 pyNone, Msg.mkWait 0 30]

def exRqBars : List (List Bar) := (splitBars 24 Gen.defaultNoteValues [exRq] 0 true).toOption.getD []

theorem ok_of_toOption {α : Type} {x : Except Err α} {a : α} (h : x.toOption = some a) : x = .ok a := by
  cases x with
  | error e => cases h
  | ok b => cases h; rfl

theorem exRq_run : splitBars 24 Gen.defaultNoteValues [exRq] 0 true = .ok exRqBars :=
  ok_of_toOption (by decide +kernel)

theorem exRq_hyps : NonNegWaits exRq ∧ WF exRq ∧ NoZeroLen exRq ∧ (∀ v ∈ Gen.defaultNoteValues, 0 < v) ∧
    ∀ bars ∈ exRqBars, ∀ b ∈ bars, 0 < barCapacity 24 b.num b.den :=
  ⟨by unfold NonNegWaits; decide, wf_of_keys exRq (by decide), by decide, by decide, by decide +kernel⟩

/-- the fragments: [0,10) ch0, [10,13) ch1, [90,96) + [96,108) ch0 (cut at 96), [108,120) ch1 -/
example : rqFragments [96, 192] exRq
    = [⟨0, 60, 0, 10, 64⟩, ⟨1, 62, 10, 13, 80⟩, ⟨0, 60, 90, 96, 70⟩, ⟨0, 60, 96, 108, 70⟩, ⟨1, 62, 108, 120, 90⟩] := by
  decide +kernel

/-- the bars: [0,9) shortened (10 is not allowed), [10,13) dropped (3 < 4), [90,96), [96,108), [108,120) unchanged -/
example : exRqBars.map (fun bars => (rqBarLines 24 bars, notesOf (eventsRel (barsToSeq bars))))
    = [([96, 192], [⟨0, 60, 0, 9, 64⟩, ⟨0, 60, 90, 96, 70⟩, ⟨0, 60, 96, 108, 70⟩, ⟨1, 62, 108, 120, 90⟩])] := by
  decide +kernel

/-- the example satisfies every hypothesis of the `splitBars`-level theorems … -/
example : ∀ n' ∈ notesOf (eventsRel (barsToSeq (exRqBars[0]?.getD []))),
    ∃ n ∈ rqFragments (rqBarLines 24 (exRqBars[0]?.getD [])) exRq,
      n'.ch = n.ch ∧ n'.pitch = n.pitch ∧ n'.vel = n.vel ∧ n'.on = n.on ∧ n'.off ≤ n.off ∧
        (n'.off - n'.on) ∈ Gen.defaultNoteValues :=
  requant_bars_onsets_kept 24 _ [exRq] 0 exRqBars exRq_run 0 exRq (exRqBars[0]?.getD []) rfl (by decide +kernel)
    exRq_hyps.1 exRq_hyps.2.1 exRq_hyps.2.2.1 exRq_hyps.2.2.2.1 (by decide +kernel)

/-- … and of the per-track-run theorems: the run behind its bars uses the track up, with positive bar lengths -/
example : ∃ gs tw, trackRun 24 Gen.defaultNoteValues true gs exRq = .ok (tw, [], exRqBars[0]?.getD []) ∧
    (∀ g ∈ gs, 0 < sgLen 24 g) ∧ (∀ v ∈ Gen.defaultNoteValues, 0 < v) ∧ NonNegWaits exRq ∧ WF exRq ∧ NoZeroLen exRq := by
  obtain ⟨gs, tw, h1, h2⟩ := splitBars_track_run 24 _ [exRq] 0 true exRqBars exRq_run 0 exRq
    (exRqBars[0]?.getD []) rfl (by decide +kernel) (by decide +kernel)
  exact ⟨gs, tw, h1, h2, exRq_hyps.2.2.2.1, exRq_hyps.1, exRq_hyps.2.1, exRq_hyps.2.2.1⟩

/-! ## FINDING: a zero-length note away from the bar lines breaks the "subset" clause when re-quantisation is on -/

/-- `C09.sound_subset` with `NoZeroNotes t` (no zero-length note anywhere) narrowed to the D18b class "no zero-length
    note on a bar line" — the hypothesis that is exact for re-quantisation *off*.  FALSE for re-quantisation on. -/
def sound_subset_boundary_statement : Prop :=
  ∀ (ppqn : Int) (values : List Int) (tracks : List (List Msg)) (metaIdx : Nat)
    (tb : List (List Bar)), splitBars ppqn values tracks metaIdx true = .ok tb →
    ∀ (i : Nat) (t : List Msg) (bars : List Bar), tracks[i]? = some t → tb[i]? = some bars →
    NonNegWaits t → WF t →
    (∀ n ∈ notesOf (eventsRel t), n.on = n.off → n.on ∉ rqBarLines ppqn bars) →
    (∀ v ∈ values, 0 < v) → (∀ b ∈ bars, 0 < barCapacity ppqn b.num b.den) →
    ∀ (k : Int × Int) (tick : Int),
      SoundingAt (eventsRel (barsToSeq bars)) k tick → SoundingAt (eventsRel t) k tick

/-- the witness: a zero-length note at tick 10 (mid-bar), then a real note [20,30) of the same key -/
def rqZero : List Msg := [Msg.mkWait 0 10, Msg.mkOn 0 60 64 pyNone, Msg.mkOff 0 60 pyNone, Msg.mkWait 0 10,
  Msg.mkOn 0 60 64 pyNone, Msg.mkWait 0 10, Msg.mkOff 0 60 pyNone, Msg.mkWait 0 100]

def rqZeroBars : List (List Bar) := (splitBars 24 Gen.defaultNoteValues [rqZero] 0 true).toOption.getD []

theorem rqZero_run : splitBars 24 Gen.defaultNoteValues [rqZero] 0 true = .ok rqZeroBars :=
  ok_of_toOption (by decide +kernel)

/-- the model's bars for the witness (type, wait / pitch): bar 0 = `ts, wait 10, on 60, wait 9, off 60, wait 1,
    on 60, wait 9, off 60, wait 67`, bar 1 = `ts, wait 34, wait 62` — exactly the bars of the real implementation -/
example : rqZeroBars.map (fun bars => bars.map (fun b => (b.num, b.den, b.seq.map (fun m =>
      (m.ty, if m.ty = .wait then m.time else m.note)))))
    = [[(4, 4, [(.timeSignature, -1), (.wait, 10), (.noteOn, 60), (.wait, 9), (.noteOff, 60), (.wait, 1),
          (.noteOn, 60), (.wait, 9), (.noteOff, 60), (.wait, 67)]),
        (4, 4, [(.timeSignature, -1), (.wait, 34), (.wait, 62)])]] := by
  decide +kernel

/-- the source has the notes [10,10) and [20,30); the bars have [10,19) and [20,29): they sound at ticks 10..18,
    where the source is silent -/
example : (notesOf (eventsRel rqZero)).map (fun n => (n.on, n.off)) = [(10, 10), (20, 30)]
    ∧ rqZeroBars.map (fun bars => (notesOf (eventsRel (barsToSeq bars))).map (fun n => (n.on, n.off)))
        = [[(10, 19), (20, 29)]] := by
  decide +kernel

/-- **FINDING (model and real code)**: with re-quantisation on, a zero-length note that is *not* on a bar line
    already breaks "the bars sound at most where the track sounds": the absolute view built for the note-length
    quantisation sorts the zero-length note's note-off before its note-on (D17's mechanism), the pairing then closes
    that note-on with the *next* note-off, and the bars sound at ticks 10..18 where the track is silent.  So for the
    re-quantisation-on clause of C09 the hypothesis "no zero-length note" cannot be narrowed to bar lines.
    Closes audit item A6(c) (the hypothesis question raised under A6). -/
theorem sound_subset_boundary_statement_false : ¬ sound_subset_boundary_statement := by
  intro h
  have hb : rqZeroBars[0]? = some (rqZeroBars[0]?.getD []) := by decide +kernel
  have := h 24 Gen.defaultNoteValues [rqZero] 0 rqZeroBars rqZero_run 0 rqZero (rqZeroBars[0]?.getD []) rfl hb
    (by unfold NonNegWaits; decide) (wf_of_keys rqZero (by decide)) (by decide +kernel) (by decide) (by decide +kernel)
    (0, 60) 12 (by unfold SoundingAt; decide +kernel)
  revert this
  unfold SoundingAt
  decide

/-- `requant_bars_onsets_kept` with `NoZeroLen t` narrowed to "no zero-length note on a bar line".  FALSE. -/
def requant_onsets_kept_boundary_statement : Prop :=
  ∀ (ppqn : Int) (values : List Int) (tracks : List (List Msg)) (metaIdx : Nat)
    (tb : List (List Bar)), splitBars ppqn values tracks metaIdx true = .ok tb →
    ∀ (i : Nat) (t : List Msg) (bars : List Bar), tracks[i]? = some t → tb[i]? = some bars →
    NonNegWaits t → WF t →
    (∀ n ∈ notesOf (eventsRel t), n.on = n.off → n.on ∉ rqBarLines ppqn bars) →
    (∀ v ∈ values, 0 < v) → (∀ b ∈ bars, 0 < barCapacity ppqn b.num b.den) →
    ∀ n' ∈ notesOf (eventsRel (barsToSeq bars)), ∃ n ∈ rqFragments (rqBarLines ppqn bars) t,
      n'.ch = n.ch ∧ n'.pitch = n.pitch ∧ n'.vel = n.vel ∧ n'.on = n.on ∧ n'.off ≤ n.off ∧
        (n'.off - n'.on) ∈ values

/-- the same witness: the bars' note [10,19) has no fragment with its onset that ends as late (the fragments are
    [10,10) and [20,30)) — the note-level theorems need "no zero-length note anywhere" as well -/
theorem requant_onsets_kept_boundary_statement_false : ¬ requant_onsets_kept_boundary_statement := by
  intro h
  have hb : rqZeroBars[0]? = some (rqZeroBars[0]?.getD []) := by decide +kernel
  have := h 24 Gen.defaultNoteValues [rqZero] 0 rqZeroBars rqZero_run 0 rqZero (rqZeroBars[0]?.getD []) rfl hb
    (by unfold NonNegWaits; decide) (wf_of_keys rqZero (by decide)) (by decide +kernel) (by decide) (by decide +kernel)
    ⟨0, 60, 10, 19, 64⟩ (by decide +kernel)
  revert this
  decide +kernel

/-- **sound, re-quantisation on** under the input-level hypothesis: for a track without zero-length notes
    (`NoZeroLen`, read off `notesOf`), the bars laid end to end sound at most where the track sounds.
    `C09.sound_subset` with its hypothesis `NoZeroNotes t` replaced by the specification-side `NoZeroLen t`; by
    `sound_subset_boundary_statement_false` the hypothesis cannot be narrowed to bar lines.  Audit item A6(c). -/
theorem sound_subset_partial (ppqn : Int) (values : List Int) (tracks : List (List Msg)) (metaIdx : Nat)
    (tb : List (List Bar)) (h : splitBars ppqn values tracks metaIdx true = .ok tb)
    (i : Nat) (t : List Msg) (bars : List Bar) (ht : tracks[i]? = some t) (hb : tb[i]? = some bars)
    (hw : NonNegWaits t) (hwf : WF t) (hz : NoZeroLen t) (hv : ∀ v ∈ values, 0 < v)
    (hpos : ∀ b ∈ bars, 0 < barCapacity ppqn b.num b.den) (k : Int × Int) (tick : Int) :
    SoundingAt (eventsRel (barsToSeq bars)) k tick → SoundingAt (eventsRel t) k tick :=
  C09.sound_subset ppqn values tracks metaIdx tb h i t bars ht hb hw hwf (noZero_of_notes t hw hz) hv hpos k tick

/-- the witness is in the class excluded by `NoZeroLen`, and only there: it is well-formed, has non-negative waits
    and its zero-length note is not on a bar line -/
example : ¬ NoZeroLen rqZero ∧ NonNegWaits rqZero ∧ WF rqZero
    ∧ ∀ n ∈ notesOf (eventsRel rqZero), n.on = n.off → n.on ∉ [96, 192] :=
  ⟨by decide, by unfold NonNegWaits; decide, wf_of_keys rqZero (by decide), by decide⟩

end SCoda.Strong589
