/-
  C03, the glue to the bars of the real pipeline (audit item A1 (ii)): what the tokeniser's `extract` makes of a run
  of bars produced by `splitBars` (`Sequence.sequences_split_bars`, per track `barsToSeq` = `Bar.to_sequence`) is a
  well-formed whole-bar chunk (`ChunksL.BarsOk`) — the object `C03c.chunked_vs_single` is stated for.

  * `extract_wholebars_statement_false`: the statement kept as a `def` in Props/C03c is FALSE — a zero-length note
    (known finding D18/D18b) in one bar swallows a later note of the same pitch when the bars are merged in one run
    but not when they are merged bar by bar; replayed on the implementation, which behaves the same.
  * `extract_run`: for ANY run of well-shaped bar sequences (`GlueL.RunOk`, input level, no `splitBars` involved) the
    events `extract` returns, cut at the cumulative bar lengths (`GlueL.cutAt`), are a `BarsOk` chunk after any running
    bar length, with one bar per signature, and laid end to end they are `extract`'s output.
  * `extract_wholebars_bars` / `extract_wholebars_partial`: the same for the bars `splitBars` returns — the first three
    conjuncts of the statement, for every run `[lo, hi)` — under: positive signatures on the meta track (`SigsPos`,
    input level) and every bar sequence of the run being a good track on its own (`ExtractL.TrackGood`: well-formed
    on its track's channel, no zero-length note; decidable, about the bars, independent of `extract`).
  * `extract_wholebars_onebar`: the FULL conclusion of the statement for one-bar runs (`hi = lo + 1`).
  NOT proved: the last conjunct (`SameNotes` against the one-bar runs) for runs of two or more bars, and the
  derivation of the bar-level `TrackGood` from the tracks (`WF`, `NoZeroNotes`, one channel per track); see the note
  at the end of the file.
-/
import SCoda.Props.C03c
import SCoda.Lemmas.GlueL4
namespace SCoda.C03e
open SCoda SCoda.C01 SCoda.ChunksL SCoda.C03c SCoda.GlueL SCoda.ExtractL

/-! ## the statement of Props/C03c is false: zero-length notes (known finding D18) -/

theorem isNoteEv_shift (s : Int) (evs : List (Int × Pairing)) :
    (shiftEvs s evs).filter isNoteEv = shiftEvs s (evs.filter isNoteEv) := by
  unfold shiftEvs
  rw [List.filter_map]
  congr 1
  apply List.filter_congr
  intro ev _
  simp only [Function.comp, isNoteEv, List.head?_map]
  cases ev.2.head? <;> rfl

/-- if the laid-out events hold no note, no bar does -/
theorem layBars_noNotes (c : Cfg) : ∀ (bars : List BarEv), (layBars c bars).filter isNoteEv = [] →
    ∀ b ∈ bars, b.evs.filter isNoteEv = [] := by
  intro bars
  induction bars with
  | nil => intro _ b hb; simp at hb
  | cons a bs ih =>
    intro h b hb
    simp only [layBars, List.filter_append, List.append_eq_nil_iff] at h
    rcases List.mem_cons.1 hb with rfl | hb
    · exact h.1
    · apply ih _ b hb
      have h2 := h.2
      rw [isNoteEv_shift] at h2
      unfold shiftEvs at h2
      simpa using h2

/-- one track, two 4/4 bars: a zero-length note of pitch 60 on the first bar line, a 24-tick note of pitch 60 on the second -/
def zTrack : List Msg :=
  [Msg.mkTimeSig 0 4 4 pyNone, Msg.mkOn 0 60 64 pyNone, Msg.mkOff 0 60 pyNone, Msg.mkWait 0 96,
   Msg.mkOn 0 60 64 pyNone, Msg.mkWait 0 24, Msg.mkOff 0 60 pyNone, Msg.mkWait 0 72]

def zCfg : Cfg := { steps := [2, 3, 4, 6, 8, 12, 16, 24], values := [4, 6, 8, 9, 12, 16, 18, 24, 36], bins := [127] }

/-- the bars `splitBars` makes of it: both keep their note (inside one bar the note-on comes before its note-off) -/
def zBars : List (List Bar) :=
  [[{ seq := [Msg.mkTimeSig 0 4 4 pyNone, Msg.mkOn 0 60 64 pyNone, Msg.mkOff 0 60 pyNone, Msg.mkWait 0 96], num := 4, den := 4, key := pyNone },
    { seq := [Msg.mkTimeSig 0 4 4 pyNone, Msg.mkOn 0 60 64 pyNone, Msg.mkWait 0 24, Msg.mkOff 0 60 pyNone, Msg.mkWait 0 72], num := 4, den := 4,
      key := pyNone }]]

/-- **the D18 witness for the glue**: the track is well formed, `splitBars` accepts it; the second bar tokenised alone
    hands the core its note, the two bars tokenised together hand it no note at all (sorting the absolute view puts the
    zero-length note's note-off before its note-on, `normalise` then drops that note-off, counts the second note-on as
    nested and removes the first as unclosed). -/
theorem d18_facts :
    (∀ t ∈ [zTrack], OkRel t ∧ WF (eventsRel t))
      ∧ splitBars zCfg.ppqn [] [zTrack] 0 false = .ok zBars
      ∧ extract 24 (zBars.map (fun bs => barsToSeq ((bs.drop 1).take 1)))
          = [(0, [Msg.mkTimeSig 0 4 4 0]), (0, [Msg.mkOn 0 60 64 0, Msg.mkOff 0 60 24]), (0, [Msg.mkInternal 0 96])]
      ∧ extract 24 (zBars.map (fun bs => barsToSeq ((bs.drop 0).take 2)))
          = [(0, [Msg.mkTimeSig 0 4 4 0]), (0, [Msg.mkInternal 0 192])] := by
  refine ⟨?_, ?_, by decide +kernel, by decide +kernel⟩
  · intro t ht
    simp only [List.mem_singleton] at ht
    subst ht
    exact ⟨⟨show ∀ m ∈ zTrack, m.ty = .wait → 0 ≤ m.time by decide, show ∀ m ∈ zTrack, m.ty ≠ .internal by decide⟩,
      (ExtractL.wfB_iff _).1 (by decide)⟩
  · have h : (splitBars zCfg.ppqn [] [zTrack] 0 false).toOption = some zBars := by decide +kernel
    cases hs : splitBars zCfg.ppqn [] [zTrack] 0 false with
    | ok v => rw [hs] at h; simp only [Except.toOption, Option.some.injEq] at h; rw [h]
    | error e => rw [hs] at h; simp [Except.toOption] at h

theorem extract_wholebars_statement_false : ¬ extract_wholebars_statement := by
  intro h
  obtain ⟨f1, f2, f3, f4⟩ := d18_facts
  obtain ⟨bars, hlay, _, hsig, one, hone, hlen, hsame⟩ := h zCfg [] [zTrack] zBars f1 f2 rfl 0 2 96 (by omega) (by decide)
  have hlay' : layBars zCfg bars = [(0, [Msg.mkTimeSig 0 4 4 0]), (0, [Msg.mkInternal 0 192])] := by
    rw [← hlay]; exact f4
  have hno : ∀ b ∈ bars, b.evs.filter isNoteEv = [] := layBars_noNotes zCfg bars (by rw [hlay']; decide)
  have hbl : bars.length = 2 := by
    have := congrArg List.length hsig
    simpa [zBars] using this
  match bars, one, hbl, hlen, hsame, hno, hone with
  | [b0, b1], [o0, o1], _, _, hsame, hno, hone =>
    have h1 := hone 1 (by omega) o1 (by simp)
    have e1 : o1.evs = [(0, [Msg.mkTimeSig 0 4 4 0]), (0, [Msg.mkOn 0 60 64 0, Msg.mkOff 0 60 24]), (0, [Msg.mkInternal 0 96])] := by
      have : extract zCfg.ppqn (zBars.map (fun bs => barsToSeq ((bs.drop (0 + 1)).take 1))) = o1.evs := by
        rw [h1]; simp [layBars, shiftEvs_nil]
      rw [← this]; exact f3
    have hp := hsame.2.2.2.1
    rw [hno b1 (by simp), e1] at hp
    exact absurd hp.length_eq (by decide)
  | [], _, hsig, _, _, _, _ => simp at hsig
  | [_], _, hsig, _, _, _, _ => simp at hsig
  | _ :: _ :: _ :: _, _, hsig, _, _, _, _ => simp at hsig
  | [_, _], [], _, hlen, _, _, _ => simp at hlen
  | [_, _], [_], _, hlen, _, _, _ => simp at hlen
  | [_, _], _ :: _ :: _ :: _, _, hlen, _, _, _ => simp at hlen

/-! ## the structural part of the glue, proved -/

instance (r : List Msg) : Decidable (OkRel r) := by unfold OkRel NonNegWaits; infer_instance
instance (i : Nat) (r : List Msg) : Decidable (TrackGood i r) := by unfold TrackGood; infer_instance

/-- **A1 (ii), any run of well-shaped bar sequences.**  Per configured track a list of bar sequences along the
    signatures `sigs` (`RunOk`: each sequence headed by its signature message and holding no other, exactly one bar
    long, and a good track on its own — well-formed once on its track's channel, no zero-length note): what the
    tokeniser's `extract` makes of the sequences concatenated per track (`Bar.to_sequence`) is `layBars` of a well-formed
    whole-bar chunk after any running bar length `C`, with one bar per signature. -/
theorem extract_run (c : Cfg) (hp : 0 ≤ c.ppqn) (sigs : List (Int × Int)) (segs : List (List (List Msg)))
    (h : RunOk c sigs segs) (C : Int) :
    ∃ bars : List BarEv, extract c.ppqn (segs.map List.flatten) = layBars c bars ∧ BarsOk c C bars
      ∧ bars.map (fun b => (b.num, b.den)) = sigs :=
  ⟨_, run_cut h hp C⟩

/-- **A1 (ii), structural part, for the bars of the real pipeline.**  For bars returned by `splitBars`, one list per
    configured track: if every bar sequence of the run `[lo, hi)` is a good track on its own (on its track's channel:
    well-formed, no zero-length note — the class of known finding D18 is excluded) and the run's signatures are
    positive with bars of positive length, then what `extract` makes of the run is `layBars` of a well-formed
    whole-bar chunk after any running bar length `C`, with one `BarEv` per bar carrying that bar's signature. -/
theorem extract_wholebars_bars (c : Cfg) (hp : 0 ≤ c.ppqn) (values : List Int) (tracks : List (List Msg)) (tb : List (List Bar))
    (h : splitBars c.ppqn values tracks 0 false = .ok tb) (hn : tb.length = c.numTracks)
    (lo hi : Nat) (C : Int) (hlo : lo < hi) (hhi : ∀ bs ∈ tb, hi ≤ bs.length)
    (hgood : ∀ i bs, tb[i]? = some bs → ∀ b ∈ (bs.drop lo).take (hi - lo), TrackGood i b.seq)
    (hpos : ∀ b ∈ ((tb.headD []).drop lo).take (hi - lo), 0 < b.num ∧ 0 < b.den ∧ 0 < c.capacity b.num b.den) :
    ∃ bars : List BarEv,
      extract c.ppqn (tb.map (fun bs => barsToSeq ((bs.drop lo).take (hi - lo)))) = layBars c bars
        ∧ BarsOk c C bars
        ∧ bars.map (fun b => (b.num, b.den)) = (((tb.headD []).drop lo).take (hi - lo)).map (fun b => (b.num, b.den)) := by
  have hrun := splitBars_runOk c values tracks tb h hn lo hi hlo hhi hgood hpos
  have := run_cut hrun hp C
  rw [runTracks_segsOf] at this
  exact ⟨_, this⟩

/-- the default 4/4 and every time-signature message of the meta track (track 0) are positive with bars of positive
    length (input level) -/
def SigsPos (c : Cfg) (tracks : List (List Msg)) : Prop :=
  0 < c.capacity 4 4 ∧ ∀ m ∈ tracks.headD [], m.ty = .timeSignature → 0 < m.num ∧ 0 < m.den ∧ 0 < c.capacity m.num m.den

instance (c : Cfg) (tracks : List (List Msg)) : Decidable (SigsPos c tracks) := by unfold SigsPos; infer_instance

/-- the bars `splitBars` returns carry positive signatures if the meta track does -/
theorem bars_pos (c : Cfg) (values : List Int) (tracks : List (List Msg)) (tb : List (List Bar))
    (h : splitBars c.ppqn values tracks 0 false = .ok tb) (hs : SigsPos c tracks) :
    ∀ b ∈ tb.headD [], 0 < b.num ∧ 0 < b.den ∧ 0 < c.capacity b.num b.den := by
  intro b hb
  rcases splitBars_sig_src c.ppqn values tracks tb h b hb with h1 | ⟨m, hm, hty, h1⟩
  · rw [Prod.mk.injEq] at h1
    rw [h1.1, h1.2]
    exact ⟨by decide, by decide, hs.1⟩
  · rw [Prod.mk.injEq] at h1
    rw [h1.1, h1.2]
    exact hs.2 m hm hty

/-- **A1 (ii), structural part, with the signatures constrained on the input** (`SigsPos`): as `extract_wholebars_bars`,
    the positivity of the bars' signatures now following from that of the meta track's signature messages.  The one
    hypothesis left on the bars is that each bar sequence of the run is a good track on its own (`TrackGood`: on its
    track's channel well-formed and without zero-length notes). -/
theorem extract_wholebars_partial (c : Cfg) (hp : 0 ≤ c.ppqn) (values : List Int) (tracks : List (List Msg)) (tb : List (List Bar))
    (hs : SigsPos c tracks)
    (h : splitBars c.ppqn values tracks 0 false = .ok tb) (hn : tb.length = c.numTracks)
    (lo hi : Nat) (C : Int) (hlo : lo < hi) (hhi : ∀ bs ∈ tb, hi ≤ bs.length)
    (hgood : ∀ i bs, tb[i]? = some bs → ∀ b ∈ (bs.drop lo).take (hi - lo), TrackGood i b.seq) :
    ∃ bars : List BarEv,
      extract c.ppqn (tb.map (fun bs => barsToSeq ((bs.drop lo).take (hi - lo)))) = layBars c bars
        ∧ BarsOk c C bars
        ∧ bars.map (fun b => (b.num, b.den)) = (((tb.headD []).drop lo).take (hi - lo)).map (fun b => (b.num, b.den)) :=
  extract_wholebars_bars c hp values tracks tb h hn lo hi C hlo hhi hgood
    (fun b hb => bars_pos c values tracks tb h hs b ((List.take_sublist _ _).subset hb |> (List.drop_sublist _ _).subset))

theorem sameNotes_refl (c : Cfg) : ∀ bars : List BarEv, SameNotes c bars bars := by
  intro bars
  induction bars with
  | nil => trivial
  | cons b bs ih => exact ⟨rfl, List.Perm.refl _, ih⟩

/-- **A1 (ii) for one-bar runs: the full conclusion of `extract_wholebars_statement`** (`hi = lo + 1`, the case the
    correspondence check of C03 and the finest partition use): the bar tokenised alone is a well-formed one-bar chunk
    with the bar's signature (and trivially has its own notes). -/
theorem extract_wholebars_onebar (c : Cfg) (hp : 0 ≤ c.ppqn) (values : List Int) (tracks : List (List Msg)) (tb : List (List Bar))
    (hs : SigsPos c tracks)
    (h : splitBars c.ppqn values tracks 0 false = .ok tb) (hn : tb.length = c.numTracks)
    (lo : Nat) (C : Int) (hhi : ∀ bs ∈ tb, lo + 1 ≤ bs.length)
    (hgood : ∀ i bs, tb[i]? = some bs → ∀ b ∈ (bs.drop lo).take (lo + 1 - lo), TrackGood i b.seq) :
    ∃ bars : List BarEv,
      extract c.ppqn (tb.map (fun bs => barsToSeq ((bs.drop lo).take (lo + 1 - lo)))) = layBars c bars
        ∧ BarsOk c C bars
        ∧ bars.map (fun b => (b.num, b.den)) = (((tb.headD []).drop lo).take (lo + 1 - lo)).map (fun b => (b.num, b.den))
        ∧ ∃ one : List BarEv,
            (∀ i, i < lo + 1 - lo → ∀ b ∈ one[i]?,
                extract c.ppqn (tb.map (fun bs => barsToSeq ((bs.drop (lo + i)).take 1))) = layBars c [b])
            ∧ one.length = lo + 1 - lo ∧ SameNotes c bars one := by
  obtain ⟨bars, h1, h2, h3⟩ := extract_wholebars_partial c hp values tracks tb hs h hn lo (lo + 1) C (by omega) hhi hgood
  refine ⟨bars, h1, h2, h3, bars, ?_, ?_, sameNotes_refl c bars⟩
  · have hl : bars.length ≤ 1 := by
      have := congrArg List.length h3
      simp only [List.length_map, List.length_take] at this
      omega
    intro i hi b hb
    have hi0 : i = 0 := by omega
    subst hi0
    match bars, hl, hb, h1 with
    | [], _, hb, _ => simp at hb
    | [b0], _, hb, h1 =>
      simp only [List.getElem?_cons_zero, Option.mem_def, Option.some.injEq] at hb
      subst hb
      rw [← h1]
      simp
    | _ :: _ :: _, hl, _, _ => simp at hl
  · have := congrArg List.length h3
    simp only [List.length_map, List.length_take, List.length_drop] at this
    have hh : lo + 1 ≤ (tb.headD []).length := by
      obtain ⟨_, _, hm, hl, _⟩ := SB.splitBars_bars c.ppqn values tracks 0 false tb h
      have h0 : 0 < tb.length := by rw [hl]; exact SB.lt_of_getElem?_some hm
      cases tb with
      | nil => simp at h0
      | cons a _ => exact hhi a List.mem_cons_self
    omega

/-! ### non-vacuity: two tracks, three bars (4/4, 4/4, 6/8), a note of track 0 crossing the first bar line -/

def gTrack0 : List Msg :=
  [Msg.mkTimeSig 0 4 4 pyNone, Msg.mkWait 0 72, Msg.mkOn 0 60 64 pyNone, Msg.mkWait 0 48, Msg.mkOff 0 60 pyNone, Msg.mkWait 0 72,
   Msg.mkTimeSig 0 6 8 pyNone, Msg.mkOn 0 62 64 pyNone, Msg.mkWait 0 12, Msg.mkOff 0 62 pyNone, Msg.mkWait 0 60]
def gTrack1 : List Msg :=
  [Msg.mkWait 0 48, Msg.mkOn 0 48 30 pyNone, Msg.mkWait 0 24, Msg.mkOff 0 48 pyNone, Msg.mkWait 0 156,
   Msg.mkOn 0 50 100 pyNone, Msg.mkWait 0 36, Msg.mkOff 0 50 pyNone]

def gBars : List (List Bar) :=
  match splitBars 24 [] [gTrack0, gTrack1] 0 false with
  | .ok tb => tb
  | .error _ => []

theorem gBars_eq : splitBars C03c.exCfg.ppqn [] [gTrack0, gTrack1] 0 false = .ok gBars := by
  have h : (splitBars C03c.exCfg.ppqn [] [gTrack0, gTrack1] 0 false).toOption = some gBars := by decide +kernel
  cases hs : splitBars C03c.exCfg.ppqn [] [gTrack0, gTrack1] 0 false with
  | ok v => rw [hs] at h; simp only [Except.toOption, Option.some.injEq] at h; rw [h]
  | error e => rw [hs] at h; simp [Except.toOption] at h

/-- the bars: the crossing note is closed at the first bar line and struck again after it; the third bar is 6/8 -/
example : gBars.map (fun bs => bs.map (fun b => (b.num, b.den, b.seq.length))) = [[(4, 4, 5), (4, 4, 5), (6, 8, 5)], [(4, 4, 6), (4, 4, 2), (6, 8, 5)]] := by
  decide +kernel

theorem gBars_good : ∀ i bs, gBars[i]? = some bs → ∀ b ∈ (bs.drop 0).take (3 - 0), TrackGood i b.seq := by
  intro i bs h
  match i, h with
  | 0, h => simp only [show gBars[0]? = some gBars[0] from rfl, Option.some.injEq] at h; subst h; decide +kernel
  | 1, h => simp only [show gBars[1]? = some gBars[1] from rfl, Option.some.injEq] at h; subst h; decide +kernel
  | n + 2, h =>
    have hl : gBars.length = 2 := by decide +kernel
    rw [List.getElem?_eq_none (by omega)] at h
    cases h

/-- all hypotheses of `extract_wholebars_bars` hold of the example, for the whole piece … -/
example : ∃ bars : List BarEv,
    extract 24 (gBars.map (fun bs => barsToSeq ((bs.drop 0).take (3 - 0)))) = layBars C03c.exCfg bars ∧ BarsOk C03c.exCfg 7 bars
      ∧ bars.map (fun b => (b.num, b.den)) = [(4, 4), (4, 4), (6, 8)] :=
  extract_wholebars_bars C03c.exCfg (by decide) [] [gTrack0, gTrack1] gBars gBars_eq (by decide +kernel) 0 3 7 (by omega)
    (by decide +kernel) gBars_good (by decide +kernel)

/-- … `SigsPos` holds of its tracks, so `extract_wholebars_partial` applies to every run of it, e.g. bars 1 and 2 (a
    4/4 bar followed by the change to 6/8) after a running bar length that is not 96 … -/
example : SigsPos C03c.exCfg [gTrack0, gTrack1] := by decide
example : ∃ bars : List BarEv,
    extract 24 (gBars.map (fun bs => barsToSeq ((bs.drop 1).take (3 - 1)))) = layBars C03c.exCfg bars ∧ BarsOk C03c.exCfg 72 bars
      ∧ bars.map (fun b => (b.num, b.den)) = [(4, 4), (6, 8)] :=
  extract_wholebars_partial C03c.exCfg (by decide) [] [gTrack0, gTrack1] gBars (by decide) gBars_eq (by decide +kernel) 1 3 72 (by omega)
    (by decide +kernel)
    (fun i bs h b hb => gBars_good i bs h b (by
      simp only [Nat.sub_zero, List.drop_zero]
      rw [List.take_drop] at hb
      exact (List.drop_sublist _ _).subset hb))

/-- … the run is a `RunOk` run (the hypothesis of `extract_run`) … -/
example : RunOk C03c.exCfg (sigsOf gBars 0 3) (segsOf gBars 0 3) :=
  splitBars_runOk C03c.exCfg [] [gTrack0, gTrack1] gBars gBars_eq (by decide +kernel) 0 3 (by omega) (by decide +kernel)
    gBars_good (by decide +kernel)

/-- … and `extract_wholebars_onebar` applies to its last bar (6/8) -/
example : ∃ bars : List BarEv,
    extract 24 (gBars.map (fun bs => barsToSeq ((bs.drop 2).take (2 + 1 - 2)))) = layBars C03c.exCfg bars ∧ BarsOk C03c.exCfg 96 bars
      ∧ SameNotes C03c.exCfg bars bars := by
  obtain ⟨bars, h1, h2, _, _, _, _, _⟩ := extract_wholebars_onebar C03c.exCfg (by decide) [] [gTrack0, gTrack1] gBars (by decide) gBars_eq
    (by decide +kernel) 2 96 (by decide +kernel)
    (fun i bs h b hb => gBars_good i bs h b (by
      simp only [Nat.sub_zero, List.drop_zero]
      rw [List.take_drop] at hb
      exact (List.drop_sublist _ _).subset hb))
  exact ⟨bars, h1, h2, sameNotes_refl _ bars⟩

/-! ## what is still open

  `C03c.extract_wholebars_statement` stays a `def` (it is false as stated).  Of its corrected form two things are
  not proved here:
  1. for runs of two or more bars, the last conjunct: bar by bar the cut bars have the same note events, up to the
     order of simultaneous events, as the one-bar runs (`SameNotes`).  The route: (a) the pair-level version of
     `ExtractL.extract_notes_perm` (the note events of `extract`, with both messages, are a permutation of
     `GlueL.trackPairs` of the tracks: `NotesL.pairingsSorted_sim`, `ExtractL.final_P_some` and a `pairsGo` version of
     `NotesL.notesGo_proj`); (b) `GlueL.trackPairs_append` (proved) along the run; (c) on a time-ordered list
     `takeWhile (before B) = filter (before B)`, so that the note events of the cut bar `j` are those whose onset lies in
     bar `j`.
  2. that the bar sequences `splitBars` builds from tracks that are well-formed, free of zero-length notes
     (`SplitL.NoZeroNotes`) and on one channel are good tracks (`TrackGood`): `SB.trackStep_notes` gives the piece of
     every bar (`WF`, `NonNegWaits`, `NoZeroNotes`), `BarL.barSeq_wf` / `barSeq_events` carry them through `mkBar`; what is
     missing is the bridge from `NoZeroNotes` (on relative lists) to `n.on < n.off` for `notesOf`, and that `split` keeps
     the channel. -/

end SCoda.C03e
