/-
  C11, layer 1 — no float reaches a tick.
  `Gen.taintFns` (regenerated from /repo on every run) lists, for every function of the modelled
  source files, its assignments, its *tick sinks* (stores into a `.time` field — and into any other attribute, since attribute reads are
  taken to be int-typed —, `time=` keyword
  arguments, the third positional argument of `Message`, every argument handed to a function defined in
  the modelled files (parameters are int-typed by the induction hypothesis, so arguments must be), the values returned by the duration / velocity-bin helpers, tick values formatted into
  tokens) and its return expressions — each as the variables read, whether a float-producing node
  (true division, `**` with an exponent not known to be non-negative, float literal, `float()`, `math.*`, `np.*`) occurs, and the functions called,
  all *outside* `int(…)`/`round(…)`.

  The typing rules: a variable is maybe-float if some assignment to it contains a float node, reads a
  maybe-float variable or calls a maybe-float-returning function; a function is maybe-float-returning
  if some return expression is.  The translator also emits a *certificate* — per function the set of
  maybe-float variables, and the set of maybe-float-returning functions.  It is not trusted: `cert_closed`
  kernel-checks that it is closed under every rule (so it contains the least solution, `least_le_cert`
  proves that for the iterative computation), and `no_float_reaches_a_tick` kernel-checks that under it
  no sink is maybe-float, for the current source.  (Computing the fixpoint inside the kernel took > 9
  minutes; checking a post-fixpoint is one linear pass.)

  Induction hypothesis built into the facts: attribute reads (`msg.time`, `msg.note`, settings) and
  parameters are int-typed — that is the property's own premise (integer-tick inputs, integer arguments).
  What is trusted: the typing rules of Python's numeric tower as encoded here (`+ - * // %` of ints are
  ints; `/` and `**` may produce floats; `int()`/`round()` return ints) and the translator's parse.
-/
import SCoda.Gen.TaintFacts
set_option maxRecDepth 100000
namespace SCoda.C11
open SCoda.Gen

def infoTainted (tv : List Nat) (ff : List Nat) (i : TaintInfo) : Bool :=
  i.2.1 || i.1.any (fun v => tv.contains v) || i.2.2.any (fun f => ff.contains f)

/-- the certificate is closed under the rules for this function -/
def closedFn (ff : List Nat) (fn : TaintFn) : Bool :=
  fn.assigns.all (fun a => !infoTainted fn.cert ff a.2 || fn.cert.contains a.1)
  && fn.returns.all (fun r => !infoTainted fn.cert ff r || ff.contains fn.name)

/-- no sink of this function is maybe-float under the certificate -/
def sinksClean (ff : List Nat) (fn : TaintFn) : Bool :=
  fn.sinks.all (fun s => !infoTainted fn.cert ff s.2)

/-- the certificate is a solution of the typing rules -/
theorem cert_closed : taintFns.all (closedFn taintFloatFns) = true := by decide +kernel

/-- **no float reaches a tick**, for the current source -/
theorem no_float_reaches_a_tick : taintFns.all (sinksClean taintFloatFns) = true := by decide +kernel

/-- the analysis is not vacuous: it sees the sinks, and the certificate must contain the float-returning helper -/
theorem sinks_seen : 40 ≤ (taintFns.map (fun f => f.sinks.length)).foldl (· + ·) 0 := by decide +kernel
theorem float_fn_found :
    taintFloatFns.contains (taintNames.idxOf "get_sequence_duration_relation") = true := by decide +kernel

/-! ### the least solution is below any closed certificate (general, no `decide`) -/

/-- one round of the iterative analysis: variables newly tainted by the assignments -/
def varStep (ff : List Nat) (assigns : List (Nat × TaintInfo)) (tv : List Nat) : List Nat :=
  assigns.foldl (fun acc a => if !acc.contains a.1 && infoTainted acc ff a.2 then a.1 :: acc else acc) tv

def iter {α} (f : α → α) : Nat → α → α
  | 0, x => x
  | n + 1, x => iter f n (f x)

theorem infoTainted_mono {tv tv' ff ff' : List Nat} (i : TaintInfo)
    (h1 : ∀ v ∈ tv, v ∈ tv') (h2 : ∀ f ∈ ff, f ∈ ff') (h : infoTainted tv ff i = true) :
    infoTainted tv' ff' i = true := by
  simp only [infoTainted, Bool.or_eq_true, List.any_eq_true, List.contains_iff_mem] at h ⊢
  rcases h with (h | ⟨v, hv, hv'⟩) | ⟨f, hf, hf'⟩
  · exact Or.inl (Or.inl h)
  · exact Or.inl (Or.inr ⟨v, hv, h1 v hv'⟩)
  · exact Or.inr ⟨f, hf, h2 f hf'⟩

theorem varStep_le (ff ff' cert : List Nat) (hff : ∀ f ∈ ff, f ∈ ff') :
    ∀ (assigns : List (Nat × TaintInfo)) (tv : List Nat),
      (∀ a ∈ assigns, infoTainted cert ff' a.2 = true → a.1 ∈ cert) →
      (∀ v ∈ tv, v ∈ cert) → ∀ v ∈ varStep ff assigns tv, v ∈ cert := by
  intro assigns
  induction assigns with
  | nil => intro tv _ h; simpa [varStep] using h
  | cons a rest ih =>
    intro tv hc htv
    have hrest : ∀ a ∈ rest, infoTainted cert ff' a.2 = true → a.1 ∈ cert :=
      fun b hb => hc b (List.mem_cons_of_mem _ hb)
    simp only [varStep, List.foldl_cons]
    split
    · rename_i hcond
      apply ih _ hrest
      intro v hv
      rcases List.mem_cons.mp hv with rfl | hv
      · simp only [Bool.and_eq_true] at hcond
        exact hc a (List.mem_cons_self ..) (infoTainted_mono a.2 htv hff hcond.2)
      · exact htv v hv
    · exact ih _ hrest htv

/-- every variable the iterative analysis taints (with any float-function set below the certificate's)
    is in a certificate closed for these assignments -/
theorem least_le_cert (ff ff' cert : List Nat) (hff : ∀ f ∈ ff, f ∈ ff') (assigns : List (Nat × TaintInfo))
    (hc : ∀ a ∈ assigns, infoTainted cert ff' a.2 = true → a.1 ∈ cert) (n : Nat) :
    ∀ v ∈ iter (varStep ff assigns) n [], v ∈ cert := by
  suffices h : ∀ tv, (∀ v ∈ tv, v ∈ cert) → ∀ v ∈ iter (varStep ff assigns) n tv, v ∈ cert from
    h [] (by simp)
  induction n with
  | zero => intro tv h; simpa [iter] using h
  | succ n ih => intro tv h; exact ih _ (varStep_le ff ff' cert hff assigns tv hc h)

end SCoda.C11
