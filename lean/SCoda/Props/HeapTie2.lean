/-
  The identity model of C16 tied to the source BY TRANSLATION, part 2: `RelativeSequence.split` ITSELF.

  `Props/HeapTie.lean` ties `Sequence.split` to `HeapOps.split` with `RelativeSequence.split` as a LINK (`HeapLib.relSplit` =
  `HeapOps.splitView` with an oracle plan).  Here `tools/py2lean_heap2.py` translates the method statement by statement
  (`Gen/HeapFns2.lean`: `relativeSequenceSplit`; values are translated exactly, there is no oracle) and this file proves what
  `Props/C16c.lean` uses of the link — by SIMULATION, not equality: the code allocates view objects it may discard (`next_sequence`
  of a capacity that is never reached) and allocates the new messages of a cut in an order (`NOTE_OFF₁, NOTE_ON₁, NOTE_OFF₂, …`,
  interleaved between two pieces) that `splitView`'s piece-by-piece plan cannot reproduce; identities agree up to renaming only.

  WHAT `RelativeSequence.split` DOES WITH IDENTITIES (all proved for every input heap, every receiver, every list of capacities):
  * `relativeSequenceSplit_ok`       it returns normally — the `IndexError` of `pop(0)` is excluded by the guard before it, and the
                                      loop bound `len(working_memory) + 1` given to the translator is never exhausted;
  * `relativeSequenceSplit_frame`    it writes NO cell that existed when it was called: not the receiver's list (the method works
                                      on `copy.copy(self._messages)`; the receiver is not consumed), not a message of the receiver
                                      (a wait that is cut is replaced by two NEW waits, it is not shortened), nothing else;
                                      it allocates messages and view objects only;
  * `relativeSequenceSplit_pieces`   every returned piece is a view object allocated by the call, and every message reference in
                                      it is a message OBJECT OF THE RECEIVER'S LIST or a message allocated by the call (with a channel);
  * `pieces_allFresh_statement_false` the pieces DO share message objects with the receiver (every message that is not cut is the
                                      receiver's own object): "every message of a piece is new" is false of `RelativeSequence.split`.
                                      The repair of D13 is in `Sequence.split` (`seq.copy()`), not here;
  * `relativeSequenceSplit_spec`     the region-calculus statement that `HeapL.splitView_spec` gives for the link, for the
                                      translated method: it preserves every good region that contains the receiver, and its pieces
                                      are in that region.  This is all `C16c.derive_fresh_split` / `op_frame` use of `splitView`.
  * `sequenceSplit2_eq_wrapCopies`, `sequenceSplit2_fresh`   `Sequence.split` with NO link (`Gen.HeapFns2.sequenceSplit2`): the pieces of the
                                      translated `RelativeSequence.split`, each COPIED (`HeapOps.wrapCopies`, tied in HeapTie), so:
                                      every cell reachable from a returned `Sequence` was allocated by the call and is not
                                      reachable from the source; and of the cells that existed, only the source's own wrapper
                                      cell can differ (the `rel` property regenerates a stale relative view) — the source's
                                      views, lists and messages are UNCHANGED (`derive_fresh_split` strengthened; the
                                      "source unchanged" clause of C08).
-/
import SCoda.Lemmas.HeapTie2L
import SCoda.Props.HeapTie
namespace SCoda.HeapTie2
open SCoda SCoda.HeapOps SCoda.HeapLib SCoda.HeapL SCoda.Gen.HeapFns SCoda.Gen.HeapFns2 SCoda.HeapTieL SCoda.HeapTie2L SCoda.C16c

/-! ## `RelativeSequence.split` -/

/-- the translated `RelativeSequence.split` returns normally on every heap, for every receiver and every list of capacities:
    `working_memory.pop(0)` is guarded, and the loop bound `len(working_memory) + 1` is sufficient (no `HErr.fuel`). (A2) -/
theorem relativeSequenceSplit_ok (g : GOrc) (tag l : Nat) (caps : List Int) (h : Heap) :
    ∃ ps, (relativeSequenceSplit g tag l caps h).1 = .ok ps := by
  have hs := split_sat_ok g tag l caps h
  unfold Sat at hs
  rcases hr : relativeSequenceSplit g tag l caps h with ⟨r, h'⟩
  rw [hr] at hs
  cases r with
  | ok ps => exact ⟨ps, rfl⟩
  | error e => exact absurd hs id

/-- the invariant, at the end of the call -/
theorem relativeSequenceSplit_inv (g : GOrc) (tag l : Nat) (caps : List Int) (h : Heap) :
    Inv h (h.lst l) (relativeSequenceSplit g tag l caps h).2
      ∧ ∀ ps, (relativeSequenceSplit g tag l caps h).1 = .ok ps → ∀ p ∈ ps, OkV h (relativeSequenceSplit g tag l caps h).2 p := by
  have hs := split_sat g tag l caps h
  unfold Sat at hs
  rcases hr : relativeSequenceSplit g tag l caps h with ⟨r, h'⟩
  rw [hr] at hs
  cases r with
  | ok ps => exact ⟨hs.1, fun ps' he => by cases he; exact hs.2⟩
  | error e => exact ⟨hs, fun ps' he => by cases he⟩

/-- FRAME: `RelativeSequence.split` writes no cell that existed when it was called — every allocated cell (the receiver's list
    object, every message, every wrapper) has the content it had — and allocates messages and view objects only.  Holds on
    both exits.  (A2; the "receiver is not consumed" and "a cut wait is not shortened in place" facts) -/
theorem relativeSequenceSplit_frame (g : GOrc) (tag l : Nat) (caps : List Int) (h : Heap) :
    let h' := (relativeSequenceSplit g tag l caps h).2
    (∀ k, h.next k ≤ h'.next k) ∧ (∀ c, h.alloc c → h'.get c = h.get c)
      ∧ h'.nSeq = h.nSeq ∧ h'.nBar = h.nBar ∧ h'.nTrk = h.nTrk ∧ h'.nCmp = h.nCmp := by
  have hi := (relativeSequenceSplit_inv g tag l caps h).1
  exact ⟨hi.ext.1, hi.ext.2, hi.kinds⟩

/-- the receiver after the call: the same list of the same message objects with the same field values -/
theorem relativeSequenceSplit_receiver (g : GOrc) (tag l : Nat) (caps : List Int) (h : Heap) (hl : l < h.nLst)
    (hm : ∀ i ∈ h.lst l, i < h.nMsg) :
    (relativeSequenceSplit g tag l caps h).2.lst l = h.lst l
      ∧ (relativeSequenceSplit g tag l caps h).2.viewVals l = h.viewVals l := by
  have he := (relativeSequenceSplit_inv g tag l caps h).1.ext
  have h1 := he.lst hl
  refine ⟨h1, ?_⟩
  simp only [Heap.viewVals, Heap.vals, h1]
  exact List.map_congr_left (fun i hi => he.msg (hm i hi))

/-- PIECES: every piece returned is a view object allocated by the call; the pieces' lists hold message objects of the
    receiver's list and messages allocated by the call, nothing else; the new messages have a channel. (A2) -/
theorem relativeSequenceSplit_pieces (g : GOrc) (tag l : Nat) (caps : List Int) (h : Heap) (ps : List Nat)
    (hok : (relativeSequenceSplit g tag l caps h).1 = .ok ps) :
    let h' := (relativeSequenceSplit g tag l caps h).2
    ∀ p ∈ ps, (h.nLst ≤ p ∧ p < h'.nLst)
      ∧ ∀ i ∈ h'.lst p, i ∈ h.lst l ∨ (h.nMsg ≤ i ∧ i < h'.nMsg ∧ (h'.msg i).ch ≠ pyNone) := by
  intro h' p hp
  obtain ⟨hi, hv⟩ := relativeSequenceSplit_inv g tag l caps h
  have hpv := hv ps hok p hp
  refine ⟨hpv, fun i hmem => ?_⟩
  rcases hi.views p hpv i hmem with h1 | h1
  · exact Or.inl h1
  · exact Or.inr ⟨h1.1, h1.2, hi.chan i h1.1 h1.2⟩

/-! ### the pieces share message objects with the receiver -/

/-- "every message of a returned piece was allocated by the call" — what `Sequence.split` guarantees (by copying), NOT what
    `RelativeSequence.split` does -/
def pieces_allFresh_statement : Prop :=
  ∀ (g : GOrc) (tag l : Nat) (caps : List Int) (h : Heap) (ps : List Nat),
    (relativeSequenceSplit g tag l caps h).1 = .ok ps →
    ∀ p ∈ ps, ∀ i ∈ (relativeSequenceSplit g tag l caps h).2.lst p, h.nMsg ≤ i

/-- NOTE_ON 60, WAIT 24, NOTE_OFF 60, WAIT 72 in message cells 0–3, the receiver's view in list cell 0 -/
def exSplitHeap : Heap :=
  ((newMsgs Heap.empty [{ ty := .noteOn, note := 60, vel := 64 }, { ty := .wait, time := 24 }, { ty := .noteOff, note := 60 },
    { ty := .wait, time := 72 }]).1.newLst [0, 1, 2, 3]).1

def exG : GOrc := ⟨C16c.exOrc, fun _ _ => false⟩

/-- `split([12])` of the example: the first piece is NOTE_ON (the receiver's object 0), a new WAIT 12, a new NOTE_OFF; the second a
    new NOTE_ON, a new WAIT 12, and the receiver's objects 2 and 3; the receiver's WAIT 24 (object 1) is in neither. -/
theorem exSplit_ok : (relativeSequenceSplit exG 0 0 [12] exSplitHeap).1 = .ok [1, 2] := by
  obtain ⟨ps, hps⟩ := relativeSequenceSplit_ok exG 0 0 [12] exSplitHeap
  have : (relativeSequenceSplit exG 0 0 [12] exSplitHeap).1.toOption = some [1, 2] := by decide +kernel
  rw [hps] at this ⊢
  simpa [Except.toOption] using this

example : (relativeSequenceSplit exG 0 0 [12] exSplitHeap).2.lst 1 = [0, 4, 5]
    ∧ (relativeSequenceSplit exG 0 0 [12] exSplitHeap).2.lst 1 = [0, 4, 5]
    ∧ (relativeSequenceSplit exG 0 0 [12] exSplitHeap).2.lst 2 = [6, 7, 2, 3]
    ∧ (relativeSequenceSplit exG 0 0 [12] exSplitHeap).2.lst 0 = [0, 1, 2, 3] := by decide +kernel

/-- the hypotheses of `relativeSequenceSplit_receiver` on the example -/
example : 0 < exSplitHeap.nLst ∧ ∀ i ∈ exSplitHeap.lst 0, i < exSplitHeap.nMsg := by decide

theorem pieces_allFresh_statement_false : ¬ pieces_allFresh_statement := by
  intro hst
  have := hst exG 0 0 [12] exSplitHeap [1, 2] exSplit_ok 1 (by simp) 0 (by decide +kernel)
  revert this
  decide +kernel

/-! ### region form: what `C16c` uses of the link `splitView` -/

/-- `HeapL.splitView_spec` for the TRANSLATED `RelativeSequence.split`: in every good region that contains the receiver's view
    object, the call writes nothing outside the region, leaves the region good, and its pieces are in the region.
    (With `X := ReachR h [source]` this is the step of `derive_fresh_split` / `op_frame`; `relativeSequenceSplit_frame` is
    stronger about writes.) (A2) -/
theorem relativeSequenceSplit_spec {X : Region} (g : GOrc) (tag : Nat) (caps : List Int) {h : Heap} (hg : Good X h) {l : Nat}
    (hl : In X h (.lst, l)) :
    Spec X h (relativeSequenceSplit g tag l caps h).2
      ∧ ∀ ps, (relativeSequenceSplit g tag l caps h).1 = .ok ps →
          ∀ p ∈ ps, In X (relativeSequenceSplit g tag l caps h).2 (.lst, p) := by
  obtain ⟨hi, hv⟩ := relativeSequenceSplit_inv g tag l caps h
  generalize (relativeSequenceSplit g tag l caps h).2 = h' at hi hv
  have hsrc := lst_in hg hl
  refine ⟨⟨?_, hi.ext.1, ?_⟩, ?_⟩
  · apply hg.step hi.ext.1
    rintro ⟨k, i⟩ hx ha
    by_cases hold : h.alloc (k, i)
    · exact Or.inl ⟨hold, hi.ext.2 _ hold⟩
    · right
      have hk := hi.kinds
      cases k
      case msg => intro p hp; simp [Heap.get, Val.ptrs] at hp
      case lst =>
        have hpv : OkV h h' i := by
          simp only [Heap.alloc, Heap.next] at hold ha
          exact ⟨by omega, ha⟩
        intro p hp
        simp only [Heap.get, Val.ptrs, List.mem_map] at hp
        obtain ⟨j, hj, rfl⟩ := hp
        rcases hi.views i hpv j hj with h1 | h1
        · exact ⟨(hsrc j h1).1, alloc_mono hi.ext.1 (hsrc j h1).2⟩
        · exact ⟨hg.up _ (by simp only [Heap.alloc, Heap.next]; omega), by simp only [Heap.alloc, Heap.next]; omega⟩
      all_goals (exfalso; simp only [Heap.alloc, Heap.next] at hold ha; omega)
  · intro c hc
    exact hi.ext.2 c (hg.alloc_of_not hc)
  · intro ps hok p hp
    have hpv := hv ps hok p hp
    exact ⟨hg.up _ (by simp only [Heap.alloc, Heap.next]; unfold OkV at hpv; omega),
      by simp only [Heap.alloc, Heap.next]; exact hpv.2⟩

/-! ## `Sequence.split` with no link -/

/-- the hypothesis of `Sequence.split`: `self.rel` can be read, and the relative view it returns exists and holds existing
    messages that have a channel (a decidable condition on the input heap and, when the relative view is stale, on the
    conversion oracle: the view `to_relative_sequence` builds) -/
def SrcOk (g : GOrc) (h : Heap) (s : Nat) : Prop :=
  match (getRel g.orc h s).2 with
  | some l => ViewOk (getRel g.orc h s).1 l
  | none => False

/-- the translated `Sequence.split` (no link: `Gen.HeapFns2.sequenceSplit2`) is: read `self.rel`, run the TRANSLATED
    `RelativeSequence.split` on it, and wrap a COPY of every piece (`HeapOps.wrapCopies`, the repaired D13). (A2) -/
theorem sequenceSplit2_eq_wrapCopies (g : GOrc) (tag s : Nat) (caps : List Int) (h : Heap) (hsrc : SrcOk g h s) :
    ∃ l ps, (getRel g.orc h s).2 = some l ∧ (relativeSequenceSplit g tag l caps (getRel g.orc h s).1).1 = .ok ps
      ∧ sequenceSplit2 g tag s caps h
        = (.ok (wrapCopies (relativeSequenceSplit g tag l caps (getRel g.orc h s).1).2 ps).2,
           (wrapCopies (relativeSequenceSplit g tag l caps (getRel g.orc h s).1).2 ps).1) := by
  unfold SrcOk at hsrc
  cases hv : (getRel g.orc h s).2 with
  | none => simp [hv] at hsrc
  | some l =>
    simp only [hv] at hsrc
    obtain ⟨ps, hps⟩ := relativeSequenceSplit_ok g tag l caps (getRel g.orc h s).1
    refine ⟨l, ps, rfl, hps, ?_⟩
    have hpieces := relativeSequenceSplit_pieces g tag l caps (getRel g.orc h s).1 ps hps
    have hinv := (relativeSequenceSplit_inv g tag l caps (getRel g.orc h s).1).1
    have hvok : ∀ p ∈ ps, ViewOk (relativeSequenceSplit g tag l caps (getRel g.orc h s).1).2 p := by
      intro p hp
      obtain ⟨hpv, hids⟩ := hpieces p hp
      refine ⟨hpv.2, fun i hi => ?_⟩
      rcases hids i hi with h1 | h1
      · have := hsrc.2 i h1
        exact ⟨Nat.lt_of_lt_of_le this.1 hinv.nMsg_le, by rw [hinv.ext.msg this.1]; exact this.2⟩
      · exact ⟨h1.2.1, h1.2.2⟩
    unfold sequenceSplit2
    simp only [run_bind]
    rw [sequenceRel_deref]
    simp only [hv, run_bind]
    rcases hr : relativeSequenceSplit g tag l caps (getRel g.orc h s).1 with ⟨r, h'⟩
    rw [hr] at hps hvok
    simp only at hps hvok
    subst hps
    simp only [bindRes_ok, run_bind, mapM_wrapCopies g tag ps h' hvok, run_pure]

/-- `derive_fresh_split` for the fully TRANSLATED `Sequence.split`, strengthened by the frame of `RelativeSequence.split`:
    the call returns normally; every cell reachable from a returned piece was allocated by the call and is not reachable from
    the source afterwards; and EVERY cell that existed keeps its content, except possibly the source's own wrapper cell (the
    `rel` property stores a regenerated relative view there when it was stale) — in particular the source's view objects,
    their lists and their messages are unchanged: `split` does not consume, shorten or re-time its receiver.
    Hypotheses: the source has no dangling identity; `SrcOk`. (A2; C08 "source unchanged") -/
theorem sequenceSplit2_fresh (g : GOrc) (tag s : Nat) (caps : List Int) (h : Heap) (hall : AllocAll h [(.seq, s)])
    (hsrc : SrcOk g h s) :
    ∃ ps h', sequenceSplit2 g tag s caps h = (.ok ps, h')
      ∧ (∀ p ∈ ps, ∀ c ∈ reach h' (.seq, p), ¬ h.alloc c ∧ h'.alloc c ∧ c ∉ reach h' (.seq, s))
      ∧ (∀ c, h.alloc c → c ≠ (.seq, s) → h'.get c = h.get c)
      ∧ ((h.seq s).relStale = false → ∀ c, h.alloc c → h'.get c = h.get c) := by
  obtain ⟨l, ps, hl, hps, heq⟩ := sequenceSplit2_eq_wrapCopies g tag s caps h hsrc
  refine ⟨_, _, heq, ?_, ?_, ?_⟩
  · -- freshness: as in `C16c.derive_fresh_split`, with the translated method in place of the link
    have hg := good_reachR h [(.seq, s)] hall
    have hs : In (ReachR h [(.seq, s)]) h (.seq, s) := in_reachR hall (by simp)
    obtain ⟨s1, i1⟩ := getRel_spec (o := g.orc) hg hs
    obtain ⟨s2, _⟩ := relativeSequenceSplit_spec g tag caps s1.good (i1 l hl)
    have s12 := s1.trans s2
    have hsrcR := reach_in s12.good (hs.mono s12.pres)
    obtain ⟨s3, i3⟩ := wrapCopies_spec (good_fresh (relativeSequenceSplit g tag l caps (getRel g.orc h s).1).2) ps
    have hsame : reach (wrapCopies (relativeSequenceSplit g tag l caps (getRel g.orc h s).1).2 ps).1 (.seq, s)
        = reach (relativeSequenceSplit g tag l caps (getRel g.orc h s).1).2 (.seq, s) := by
      apply reach_congr
      intro c hc
      exact s3.pres.same c (fun hn => hn (hsrcR c hc).2)
    intro p hp c hc
    have hfresh := reach_in s3.good (i3 p hp) c hc
    refine ⟨fun ha => hfresh.1 (alloc_mono s12.pres.le ha), hfresh.2, ?_⟩
    rw [hsame]
    intro hmem
    exact hfresh.1 (hsrcR c hmem).2
  · -- frame: `getRel` writes the wrapper cell of the source only; the two other steps write nothing that existed
    intro c hc hne
    have e1 : (getRel g.orc h s).1.get c = h.get c := getRel_get_other g.orc h s c hc hne
    have a1 : (getRel g.orc h s).1.alloc c := alloc_mono (getRel_le g.orc h s) hc
    have f2 := relativeSequenceSplit_frame g tag l caps (getRel g.orc h s).1
    have e2 := f2.2.1 c a1
    have a2 := alloc_mono f2.1 a1
    have e3 := (Ext.of_spec (wrapCopies_spec (good_fresh (relativeSequenceSplit g tag l caps (getRel g.orc h s).1).2) ps).1).2 c a2
    rw [e3, e2, e1]
  · intro hst c hc
    have e0 : getRel g.orc h s = (h, (h.seq s).rel) := by simp [getRel, hst]
    have f2 := relativeSequenceSplit_frame g tag l caps (getRel g.orc h s).1
    have a1 : (getRel g.orc h s).1.alloc c := by rw [e0]; exact hc
    have e2 := f2.2.1 c a1
    have a2 := alloc_mono f2.1 a1
    have e3 := (Ext.of_spec (wrapCopies_spec (good_fresh (relativeSequenceSplit g tag l caps (getRel g.orc h s).1).2) ps).1).2 c a2
    rw [e3, e2, e0]

/-- a `Sequence` (cell 0) on the example view, relative view live -/
def exSeqHeap : Heap := (exSplitHeap.newSeq { abs := none, rel := some 0, absStale := true, relStale := false }).1

example : AllocAll exSeqHeap [(.seq, 0)] := by decide
/-- the hypotheses of `relativeSequenceSplit_spec` with the region of `derive_fresh_split` -/
example : Good (ReachR exSeqHeap [(.seq, 0)]) exSeqHeap ∧ In (ReachR exSeqHeap [(.seq, 0)]) exSeqHeap (.lst, 0) :=
  ⟨good_reachR _ _ (by decide), ⟨Or.inl (by decide), by decide⟩⟩
example : SrcOk exG exSeqHeap 0 := by
  have hg : getRel exG.orc exSeqHeap 0 = (exSeqHeap, some 0) := getRel_of_live ⟨by decide, by decide⟩
  unfold SrcOk
  simp only [hg]
  exact ⟨by decide, by unfold IdsOk; decide⟩

/-- the example through the fully translated `Sequence.split([12])`: two new `Sequence`s (cells 1, 2) on new views (3, 4) whose
    messages are all new (cells 8–14); the source's list and messages are as before -/
example : (sequenceSplit2 exG 0 0 [12] exSeqHeap).1.toOption = some [1, 2]
    ∧ (sequenceSplit2 exG 0 0 [12] exSeqHeap).2.lst 3 = [8, 9, 10]
    ∧ (sequenceSplit2 exG 0 0 [12] exSeqHeap).2.lst 4 = [11, 12, 13, 14]
    ∧ (sequenceSplit2 exG 0 0 [12] exSeqHeap).2.lst 0 = [0, 1, 2, 3]
    ∧ ((sequenceSplit2 exG 0 0 [12] exSeqHeap).2.msg 1).time = 24 := by decide +kernel

end SCoda.HeapTie2
