/-
  C01, third part — closes audit items A4 and A5 (docs/audit_report_round1.md).

  The earlier C01 theorems speak about the event list `extract tracks` (the model of the glue
  set_channel + merge + normalise + interleaved pairings) and about an instrumented emission log.
  Here the statements are about the *tracks* and about the *returned sequences*, with the right-hand
  sides written from the independent semantics of `Model/Roll.lean` (`eventsRel`, `eventsAbs`,
  `notesOf`, `durRel`, `durAbs`):

  * `extract_notes`         the note events handed to the tokeniser are exactly the notes of the tracks;
  * `valid_tracks_evs`      the input-level `ValidCore` implies the hypothesis `EvsValid` of the success theorem;
  * `tokenise_succeeds_tracks`   hence tokenisation of every valid piece succeeds (from the initial state);
  * `roundtrip_notes`       sequence `i` of `detokenise` holds exactly the notes of track `i`, velocities binned
                            (`roundtrip_notes_single` for single-channel tracks, `roundtrip_piece` end to end);
  * `duration_no_tail`      the duration of every returned sequence is the end of the last bar, for
                            `ValidTracks` (= `ValidCore` + signatures on bar boundaries) outside the input-level
                            class `HasTail` of D15; `duration_statement_false` refutes the clause without it.

  All predicates on the input (`ValidTrack`, `ValidCore`, `SigPlacement`, `ValidTracks`, `Padded`, `HasTail`) are
  decidable and mention neither `extract` nor `specLog` nor the tokeniser; the specification-side definitions
  (`trackEvents`, `trackNotes`, `pieceNotes`, `binValue`, `sigChanges`, `barCeil`, `pieceEnd`, `lastOnset`) are in
  the first sections of `Lemmas/ExtractL.lean`.
-/
import SCoda.Props.C01b
import SCoda.Props.C01Glue
import SCoda.Lemmas.ExtractL
namespace SCoda.C01c
open SCoda SCoda.C01 SCoda.ExtractL

/-! ## the input class -/

/-- a time signature the tokeniser can express: positive, a whole number of eighths inside the
    configured range, and a bar of positive length on the grid `g` -/
def SigOk (c : Cfg) (g : Int) (num den : Int) : Prop :=
  0 < den ∧ 0 < num ∧ (num * c.defDen) % den = 0
    ∧ c.tsLo ≤ (num * c.defDen) / den ∧ (num * c.defDen) / den ≤ c.tsHi
    ∧ 0 < c.capacity num den ∧ c.capacity num den % g = 0

/-- one track (number `i`, relative message list `r`) meets the tokeniser's input constraints.
    Everything is said about the timed events / notes of the track on channel `i`
    (`trackEvents`, `trackNotes` — `Roll` semantics, no pairing code):
    well-formed, every note of positive length, onset on the grid, pitch in range, duration a note
    value, velocity not above the top bin; every time signature on the grid and expressible;
    the track's length on the grid. -/
def ValidTrack (c : Cfg) (g : Int) (i : Nat) (r : List Msg) : Prop :=
  OkRel r ∧ WF (trackEvents i r)
    ∧ (∀ n ∈ trackNotes i r, n.on < n.off ∧ n.on % g = 0 ∧ c.pitchLo ≤ n.pitch ∧ n.pitch ≤ c.pitchHi
          ∧ (n.off - n.on) ∈ c.values ∧ ∃ b ∈ c.bins, n.vel ≤ b)
    ∧ (∀ e ∈ eventsRel r, e.ty = .timeSignature → e.time % g = 0 ∧ SigOk c g e.num e.den)
    ∧ durRel r % g = 0

/-- all tracks are valid and there is one per configured track: what success and the note round trip
    need (signature *placement* is not needed for these: the tokeniser skips a mid-bar signature) -/
def ValidCore (c : Cfg) (g : Int) (tracks : List (List Msg)) : Prop :=
  tracks.length = c.numTracks ∧ ∀ x ∈ tracks.zipIdx, ValidTrack c g x.2 x.1

instance (c : Cfg) (g : Int) (num den : Int) : Decidable (SigOk c g num den) := by
  unfold SigOk; infer_instance
instance (r : List Msg) : Decidable (OkRel r) := by
  unfold OkRel NonNegWaits; infer_instance
instance (c : Cfg) (g : Int) (i : Nat) (r : List Msg) : Decidable (ValidTrack c g i r) := by
  unfold ValidTrack; infer_instance
instance (c : Cfg) (g : Int) (tracks : List (List Msg)) : Decidable (ValidCore c g tracks) := by
  unfold ValidCore; infer_instance

theorem ValidCore.track {c : Cfg} {g : Int} {tracks : List (List Msg)} (h : ValidCore c g tracks)
    {i : Nat} {r : List Msg} (hi : tracks[i]? = some r) : ValidTrack c g i r :=
  h.2 (r, i) (List.mem_zipIdx_iff_getElem?.2 hi)

theorem ValidCore.okRel {c : Cfg} {g : Int} {tracks : List (List Msg)} (h : ValidCore c g tracks) :
    ∀ t ∈ tracks, OkRel t := by
  intro t ht
  obtain ⟨i, hi⟩ := List.getElem?_of_mem ht
  exact (h.track hi).1

theorem ValidCore.good {c : Cfg} {g : Int} {tracks : List (List Msg)} (h : ValidCore c g tracks) :
    ∀ i r, tracks[i]? = some r → TrackGood i r := by
  intro i r hi
  obtain ⟨h1, h2, h3, _⟩ := h.track hi
  exact ⟨h1, h2, fun n hn => (h3 n hn).1⟩

/-! ## 1. the note events of `extract` are the notes of the tracks (A4a) -/

/-- **A4(a)**: for valid tracks, the note events that the glue `extract` hands to the tokeniser are —
    each exactly once — the notes of the tracks, track `i` on channel `i`, with pitch, onset, end and
    velocity as read off the tracks by the independent `notesOf ∘ eventsRel` (`pieceNotes`, `trackNotes`;
    for a single-channel track `trackNotes i r = (notesOf (eventsRel r)).map (ch := i)`,
    `ExtractL.trackNotes_single`); the events come in onset order; and, track for track, the note events
    on channel `i` are exactly the notes of track `i`.  (That every other event is a time signature or an
    INTERNAL message is `Glue.extract_shape`.)  Closes A4(a): a glue that dropped or mis-paired a note
    would violate this. -/
theorem extract_notes (c : Cfg) (g : Int) (tracks : List (List Msg)) (hv : ValidCore c g tracks) :
    ((extract c.ppqn tracks).filterMap evNote).Perm (pieceNotes tracks)
    ∧ (extract c.ppqn tracks).Pairwise (fun a b => ∀ x ∈ a.2.head?, ∀ y ∈ b.2.head?, x.time ≤ y.time)
    ∧ ∀ (i : Nat) (r : List Msg), tracks[i]? = some r →
        (((extract c.ppqn tracks).filterMap evNote).filter (fun n => n.ch == (i : Int))).Perm (trackNotes i r) := by
  have hok := hv.okRel
  have hP := extract_notes_perm c.ppqn tracks hok hv.good
  refine ⟨hP, Glue.extract_ordered c.ppqn tracks hok, ?_⟩
  intro i r hi
  refine (hP.filter _).trans ?_
  rw [pieceNotes_filter_ch tracks i r hi]

/-! ## 2. valid tracks give valid events; tokenisation succeeds (A4b) -/

/-- a note event of `extract` is a note of one of the tracks -/
theorem note_event_src (c : Cfg) (g : Int) (tracks : List (List Msg)) (hv : ValidCore c g tracks)
    (ev : Int × Pairing) (hev : ev ∈ extract c.ppqn tracks) (on off : Msg) (h : ev.2 = [on, off]) :
    ∃ i r, tracks[i]? = some r ∧
      ({ ch := on.ch, pitch := on.note, on := on.time, off := off.time, vel := on.vel } : Note) ∈ trackNotes i r := by
  have hP := (extract_notes c g tracks hv).1
  have hmem : ({ ch := on.ch, pitch := on.note, on := on.time, off := off.time, vel := on.vel } : Note)
      ∈ (extract c.ppqn tracks).filterMap evNote := by
    rw [List.mem_filterMap]
    exact ⟨ev, hev, by simp [evNote, h]⟩
  have := hP.mem_iff.1 hmem
  simp only [pieceNotes, List.mem_flatMap] at this
  obtain ⟨x, hx, hn⟩ := this
  exact ⟨x.2, x.1, List.mem_zipIdx_iff_getElem?.1 hx, hn⟩

/-- **A4(b), first half**: the events `extract` makes of valid tracks satisfy the hypothesis `EvsValid`
    of the success theorem `C01.tokenise_succeeds_partial` (so that hypothesis is now derived from the
    track-level constraints: grid, pitch range, note values, bins, expressible signatures) -/
theorem valid_tracks_evs (c : Cfg) (hc : CfgOk c) (g : Int) (tracks : List (List Msg)) (hv : ValidCore c g tracks) :
    EvsValid c g (extract c.ppqn tracks) := by
  have hok := hv.okRel
  have hshape := Glue.extract_shape c.ppqn (Int.le_of_lt hc.ppqn_pos) tracks hok
  have hsig : ∀ ev ∈ extract c.ppqn tracks, ∀ m ∈ ev.2.head?, m.ty = .timeSignature →
      m.time % g = 0 ∧ SigOk c g m.num m.den := by
    intro ev hev m hm hty
    have hmf := Glue.extract_head_mem c.ppqn tracks ev hev m hm
    obtain ⟨i, r, hi, hme⟩ := final_mem_events tracks hok m hmf (by rw [hty]; decide)
    simp only [trackEvents, List.mem_map] at hme
    obtain ⟨e, he, rfl⟩ := hme
    exact (hv.track hi).2.2.2.1 e he hty
  refine ⟨?_, ?_, ?_⟩
  · intro ev hev m hm
    rcases hshape ev hev with ⟨on, off, h1, _⟩ | ⟨m', h1, hty⟩
    · obtain ⟨i, r, hi, hn⟩ := note_event_src c g tracks hv ev hev on off h1
      have := ((hv.track hi).2.2.1 _ hn).2.1
      rw [h1] at hm; simp at hm; subst hm
      exact this
    · rw [h1] at hm; simp at hm; subst hm
      rcases hty with hty | hty
      · exact (hsig ev hev m' (by rw [h1]; simp) hty).1
      · have hmf := Glue.extract_head_mem c.ppqn tracks ev hev m' (by rw [h1]; simp)
        rcases final_internal_time tracks hok m' hmf hty with h0 | ⟨r, hr, he⟩
        · rw [h0]; rfl
        · obtain ⟨i, hi⟩ := List.getElem?_of_mem hr
          rw [he]; exact (hv.track hi).2.2.2.2
  · intro ev hev m hm hty
    rcases hshape ev hev with ⟨on, off, h1, _⟩ | ⟨m', h1, hty'⟩
    · obtain ⟨i, r, hi, hn⟩ := note_event_src c g tracks hv ev hev on off h1
      obtain ⟨_, _, h3, h4, h5, h6⟩ := (hv.track hi).2.2.1 _ hn
      rw [h1] at hm; simp at hm; subst hm
      exact ⟨off, h1, h3, h4, h5, binIndex_lt _ _ h6⟩
    · rw [h1] at hm; simp at hm; subst hm
      rcases hty' with h | h <;> rw [h] at hty <;> cases hty
  · intro ev hev m hm hty
    obtain ⟨_, _, _, h3, h4, h5, h6, h7⟩ := hsig ev hev m hm hty
    exact ⟨h3, h4, h5, h6, h7⟩

/-- the glue's events also satisfy `EvsOk` (channels, order, signatures positive) for valid tracks -/
theorem valid_tracks_evsOk (c : Cfg) (g : Int) (tracks : List (List Msg)) (hv : ValidCore c g tracks) :
    EvsOk c 0 0 (extract c.ppqn tracks) := by
  refine extract_evsOk c tracks hv.1 hv.okRel ?_
  intro t ht m hm hty
  obtain ⟨i, hi⟩ := List.getElem?_of_mem ht
  obtain ⟨e, he, h1, h2, h3⟩ := msg_event t 0 m hm (by rw [hty]; decide)
  obtain ⟨_, hs⟩ := (hv.track hi).2.2.2.1 e he (h1.trans hty)
  rw [← h2, ← h3]
  exact ⟨hs.1, hs.2.1⟩

/-- **A4(b)**: tokenisation of every valid piece succeeds from the initial state.
    Hypotheses: `CfgOk` (positive step sizes / ppqn, default signature n/n), the grid condition `GridOk`
    on the step sizes (sufficient for the greedy rest decomposition), the default bar on the grid, and
    the input-level `ValidCore` (implied by `ValidTracks`). -/
theorem tokenise_succeeds_tracks (c : Cfg) (hc : CfgOk c) (g : Int) (hg : GridOk c g)
    (hdef : c.capacity c.defNum c.defDen % g = 0) (tracks : List (List Msg)) (hv : ValidCore c g tracks) :
    ∃ toks st', tokeniseCore c (TokSt.init c) (extract c.ppqn tracks) = .ok (toks, st') := by
  have hpos : 0 < c.capacity c.defNum c.defDen := by
    unfold Cfg.capacity
    rw [hc.def_eq, Int.mul_ediv_cancel _ (by have := hc.def_pos; omega)]
    have := hc.ppqn_pos; omega
  have hshape := Glue.extract_shape c.ppqn (Int.le_of_lt hc.ppqn_pos) tracks hv.okRel
  refine tokenise_succeeds_partial c hc g hg (TokSt.init c) _ (valid_tracks_evsOk c g tracks hv)
    (valid_tracks_evs c hc g tracks hv) ?_ rfl hpos hdef (Int.le_refl 0) hpos hdef
  intro ev hev
  rcases hshape ev hev with ⟨on, off, h1, _⟩ | ⟨m', h1, _⟩ <;> rw [h1] <;> simp

/-! ## 3. track for track, the returned sequences hold the notes of the tracks (A4c, A4d) -/

/-- facts about the note events of `extract` for valid tracks, collected for the insertion argument -/
theorem extract_note_facts (c : Cfg) (g : Int) (tracks : List (List Msg)) (hv : ValidCore c g tracks) :
    (∀ n ∈ (extract c.ppqn tracks).filterMap evNote, n.on < n.off ∧ 0 ≤ n.ch ∧ ∃ b ∈ c.bins, n.vel ≤ b)
    ∧ ((extract c.ppqn tracks).filterMap evNote).Pairwise
        (fun a b => (a.ch, a.pitch) = (b.ch, b.pitch) → a.off ≤ b.on) := by
  obtain ⟨hP, hord, _⟩ := extract_notes c g tracks hv
  have hmem : ∀ n ∈ (extract c.ppqn tracks).filterMap evNote, n.on < n.off ∧ 0 ≤ n.ch ∧ ∃ b ∈ c.bins, n.vel ≤ b := by
    intro n hn
    have := hP.mem_iff.1 hn
    simp only [pieceNotes, List.mem_flatMap] at this
    obtain ⟨x, hx, hnx⟩ := this
    obtain ⟨h1, _, _, _, _, h6⟩ := (hv.2 x hx).2.2.1 n hnx
    refine ⟨h1, ?_, h6⟩
    rw [trackNotes_ch _ _ n hnx]
    omega
  refine ⟨hmem, ?_⟩
  have hap : ((extract c.ppqn tracks).filterMap evNote).Pairwise Apart :=
    (hP.pairwise_iff (fun h => apart_symm h)).2 (pieceNotes_apart tracks hv.okRel)
  have hon : ((extract c.ppqn tracks).filterMap evNote).Pairwise (fun a b => a.on ≤ b.on) := by
    refine List.Pairwise.filterMap evNote ?_ hord
    intro a a' hR b hb b' hb'
    obtain ⟨on, off, h1, rfl⟩ := evNote_some hb
    obtain ⟨on', off', h1', rfl⟩ := evNote_some hb'
    exact hR on (by rw [h1]; simp) on' (by rw [h1']; simp)
  refine (hap.and hon).imp_of_mem ?_
  intro a b _ hb hab hk
  rcases hab.1 hk with h | h
  · exact h
  · have := (hmem b hb).1
    have := hab.2
    omega

theorem valid_hts (c : Cfg) (g : Int) (tracks : List (List Msg)) (hv : ValidCore c g tracks) :
    ∀ t ∈ tracks, ∀ m ∈ t, m.ty = .timeSignature → 0 < m.den ∧ 0 < m.num := by
  intro t ht m hm hty
  obtain ⟨i, hi⟩ := List.getElem?_of_mem ht
  obtain ⟨e, he, h1, h2, h3⟩ := msg_event t 0 m hm (by rw [hty]; decide)
  obtain ⟨_, hs⟩ := (hv.track hi).2.2.2.1 e he (h1.trans hty)
  rw [← h2, ← h3]
  exact ⟨hs.1, hs.2.1⟩

theorem extract_shape' (c : Cfg) (hc : CfgOk c) (g : Int) (tracks : List (List Msg)) (hv : ValidCore c g tracks) :
    Shape (extract c.ppqn tracks) := by
  intro ev hev
  rcases Glue.extract_shape c.ppqn (Int.le_of_lt hc.ppqn_pos) tracks hv.okRel ev hev with ⟨on, off, h1, h2, _⟩ | ⟨m, h1, hty⟩
  · exact Or.inl ⟨on, off, h1, h2⟩
  · refine Or.inr ⟨m, h1, ?_⟩
    rcases hty with hty | hty <;> rw [hty] <;> decide

/-- the run of the detokeniser over the tokens of a valid piece, with everything the statements below need:
    the final sequences as the emissions applied in order, the emissions other than time signatures as the
    specification log, the notes of the log, their order being safe for the binary insertions, and the
    final clock -/
theorem run_log (c : Cfg) (hc : CfgOk c) (hn : 0 < c.numTracks) (g : Int) (tracks : List (List Msg))
    (hv : ValidCore c g tracks) (toks : List Tok) (st' : TokSt)
    (h : tokeniseCore c (TokSt.init c) (extract c.ppqn tracks) = .ok (toks, st')) :
    ∃ d log, dfold c (DetokSt.init c) toks = .ok (d, log) ∧ detokenise c toks = .ok d.seqs
      ∧ d.seqs = log.foldl applyEmit (List.replicate c.numTracks [])
      ∧ log.filter notTsig = (specLog c (TokSt.init c) (extract c.ppqn tracks)).2
      ∧ logNotes log = ((extract c.ppqn tracks).filterMap evNote).map (binShift c 0)
      ∧ LogOk log
      ∧ d.curTime = (specLog c (TokSt.init c) (extract c.ppqn tracks)).1.cur := by
  have hev := valid_tracks_evsOk c g tracks hv
  obtain ⟨E, a1, _, _, _, a5⟩ := core_sim c hc (TokSt.init c) st' _ toks (Int.le_refl 0) (Or.inr ⟨rfl, rfl⟩) hev h
  obtain ⟨d, log, hdf, hrel, hlogE⟩ := a5 (DetokSt.init c) (rel_init c hc hn).toRelD
  have hlog : log.filter notTsig = (specLog c (TokSt.init c) (extract c.ppqn tracks)).2 := by rw [a1]; exact hlogE
  have hcur : d.curTime = (specLog c (TokSt.init c) (extract c.ppqn tracks)).1.cur := by rw [a1, hrel.cur]; rfl
  obtain ⟨hdet, hseqs⟩ := dfold_detokenise c toks d log hdf
  have hvalid := valid_tracks_evs c hc g tracks hv
  -- the notes of the log are the note events with binned velocities
  have hNL : logNotes log = ((extract c.ppqn tracks).filterMap evNote).map (binShift c 0) := by
    rw [← logNotes_filter, hlog]
    exact specLog_notes c hc _ hev (fun ev hev m hm hty => (hvalid.sigOk ev hev m hm hty).2.2.2.1)
      (extract_shape' c hc g tracks hv)
  obtain ⟨hfacts, hchain⟩ := extract_note_facts c g tracks hv
  have hok : LogOk log := by
    constructor
    · rw [hNL, List.pairwise_map]
      refine hchain.imp_of_mem ?_
      intro a b ha hb hab h1 h2
      have ha0 := (hfacts a ha).2.1
      have hb0 := (hfacts b hb).2.1
      simp only [binShift] at h1 h2 ⊢
      have := hab (by rw [Prod.mk.injEq]; exact ⟨by omega, h2⟩)
      omega
    · intro n hn'
      rw [hNL, List.mem_map] at hn'
      obtain ⟨a, ha, rfl⟩ := hn'
      have := (hfacts a ha).1
      simp only [binShift]; omega
  exact ⟨d, log, hdf, hdet, hseqs, hlog, hNL, hok, hcur⟩

/-- **A4(c,d) — the note round trip, track for track**: whenever `tokenise` accepts the valid tracks (it
    does: `tokenise_succeeds_tracks`), `detokenise` of the tokens returns one sequence per track, and the
    notes of sequence `i` — read off its absolute messages by the independent `notesOf ∘ eventsAbs` — are
    exactly the notes of track `i` (pitch, onset, end) on channel 0 with each velocity replaced by the value
    of its bin, `binValue` = the smallest bin value not below the velocity (specified without `binIndex`).
    Extra hypothesis: the bin values are non-decreasing (true of `get_velocity_bins`). -/
theorem roundtrip_notes (c : Cfg) (hc : CfgOk c) (hn : 0 < c.numTracks) (hbins : c.bins.Pairwise (· ≤ ·))
    (g : Int) (tracks : List (List Msg)) (hv : ValidCore c g tracks) (toks : List Tok) (st' : TokSt)
    (h : tokeniseCore c (TokSt.init c) (extract c.ppqn tracks) = .ok (toks, st')) :
    ∃ seqs, detokenise c toks = .ok seqs ∧ seqs.length = c.numTracks ∧
      ∀ (i : Nat) (r s : List Msg), tracks[i]? = some r → seqs[i]? = some s →
        (notesOf (eventsAbs s)).Perm
          ((trackNotes i r).map (fun n => { n with ch := 0, vel := binValue c.bins n.vel })) := by
  obtain ⟨d, log, _, hdet, hseqs, _, hNL, hok, _⟩ := run_log c hc hn g tracks hv toks st' h
  obtain ⟨hfacts, _⟩ := extract_note_facts c g tracks hv
  refine ⟨d.seqs, hdet, ?_, ?_⟩
  · rw [hseqs]; exact (seqs_inv c.numTracks log hok).1
  · intro i r s hi hs
    rw [hseqs] at hs
    refine (seq_notes c.numTracks log hok i s hs).trans ?_
    rw [trkNotes_eq, hNL, List.filter_map, List.map_map]
    have hfil : ((extract c.ppqn tracks).filterMap evNote).filter ((fun n => n.ch.toNat == i) ∘ binShift c 0)
        = ((extract c.ppqn tracks).filterMap evNote).filter (fun n => n.ch == (i : Int)) := by
      apply List.filter_congr
      intro n hn'
      have h0 := (hfacts n hn').2.1
      show ((binShift c 0 n).ch.toNat == i) = (n.ch == (i : Int))
      have hch : (binShift c 0 n).ch = n.ch := rfl
      rw [hch, Bool.eq_iff_iff, beq_iff_eq, beq_iff_eq]
      omega
    rw [hfil]
    refine (((extract_notes c g tracks hv).2.2 i r hi).map _).trans ?_
    have hmap : (trackNotes i r).map ((fun n : Note => { n with ch := 0 }) ∘ binShift c 0)
        = (trackNotes i r).map (fun n => { n with ch := 0, vel := binValue c.bins n.vel }) := by
      apply List.map_congr_left
      intro n hn'
      obtain ⟨_, _, _, _, _, h6⟩ := (hv.track hi).2.2.1 n hn'
      show ({ (binShift c 0 n) with ch := 0 } : Note) = { n with ch := 0, vel := binValue c.bins n.vel }
      simp only [binShift, bins_lookup c.bins n.vel hbins h6, Note.mk.injEq, true_and, and_true]
      constructor <;> omega
    rw [hmap]

/-- `roundtrip_notes` for single-channel tracks (the property's "one single-channel sequence per track"):
    sequence `i` holds exactly the notes `notesOf (eventsRel track_i)` of the track's own relative list —
    pitch, onset, end — on channel 0 with each velocity replaced by the value of its bin (A4) -/
theorem roundtrip_notes_single (c : Cfg) (hc : CfgOk c) (hn : 0 < c.numTracks) (hbins : c.bins.Pairwise (· ≤ ·))
    (g : Int) (tracks : List (List Msg)) (hv : ValidCore c g tracks)
    (hone : ∀ r ∈ tracks, ∃ ch0, OneChannel ch0 r) (toks : List Tok) (st' : TokSt)
    (h : tokeniseCore c (TokSt.init c) (extract c.ppqn tracks) = .ok (toks, st')) :
    ∃ seqs, detokenise c toks = .ok seqs ∧ seqs.length = c.numTracks ∧
      ∀ (i : Nat) (r s : List Msg), tracks[i]? = some r → seqs[i]? = some s →
        (notesOf (eventsAbs s)).Perm
          ((notesOf (eventsRel r)).map (fun n => { n with ch := 0, vel := binValue c.bins n.vel })) := by
  obtain ⟨seqs, h1, h2, h3⟩ := roundtrip_notes c hc hn hbins g tracks hv toks st' h
  refine ⟨seqs, h1, h2, ?_⟩
  intro i r s hi hs
  obtain ⟨ch0, hch⟩ := hone r (List.mem_of_getElem? hi)
  have := h3 i r s hi hs
  rw [trackNotes_single i ch0 r hch, List.map_map] at this
  exact this

/-- **C01, notes, end to end**: every valid piece is tokenised, and detokenising returns, track for track,
    exactly its notes with each velocity replaced by the value of its bin (closes A4). -/
theorem roundtrip_piece (c : Cfg) (hc : CfgOk c) (hn : 0 < c.numTracks) (hbins : c.bins.Pairwise (· ≤ ·))
    (g : Int) (hg : GridOk c g) (hdef : c.capacity c.defNum c.defDen % g = 0)
    (tracks : List (List Msg)) (hv : ValidCore c g tracks) :
    ∃ toks st' seqs, tokeniseCore c (TokSt.init c) (extract c.ppqn tracks) = .ok (toks, st')
      ∧ detokenise c toks = .ok seqs ∧ seqs.length = c.numTracks ∧
      ∀ (i : Nat) (r s : List Msg), tracks[i]? = some r → seqs[i]? = some s →
        (notesOf (eventsAbs s)).Perm
          ((trackNotes i r).map (fun n => { n with ch := 0, vel := binValue c.bins n.vel })) := by
  obtain ⟨toks, st', h⟩ := tokenise_succeeds_tracks c hc g hg hdef tracks hv
  obtain ⟨seqs, h1, h2, h3⟩ := roundtrip_notes c hc hn hbins g tracks hv toks st' h
  exact ⟨toks, st', seqs, h, h1, h2, h3⟩

/-! ## 4. the duration: rounded up to the end of the last bar (A5) -/

/-- **signatures on bar boundaries**, at input level: within a track no two time signatures share a tick,
    signatures of different tracks on one tick agree, and every signature *change* of the piece
    (`sigChanges`: all time-signature events in tick order, repeats of the signature in force dropped)
    stands on a bar line of the grid induced by the earlier changes (`OnBars`, starting from the default
    signature at tick 0) -/
def SigPlacement (c : Cfg) (tracks : List (List Msg)) : Prop :=
  SigsStrict tracks ∧ SigsAgree tracks ∧ OnBars c (clock0 c) (sigChanges tracks)

/-- the input class of C01: valid tracks whose signatures are placed on bar boundaries -/
def ValidTracks (c : Cfg) (g : Int) (tracks : List (List Msg)) : Prop :=
  ValidCore c g tracks ∧ SigPlacement c tracks

instance (tracks : List (List Msg)) : Decidable (SigsStrict tracks) := by unfold SigsStrict; infer_instance
instance (tracks : List (List Msg)) : Decidable (SigsAgree tracks) := by unfold SigsAgree; infer_instance
instance (c : Cfg) (tracks : List (List Msg)) : Decidable (SigPlacement c tracks) := by
  unfold SigPlacement; infer_instance
instance (c : Cfg) (g : Int) (tracks : List (List Msg)) : Decidable (ValidTracks c g tracks) := by
  unfold ValidTracks; infer_instance
instance (tracks : List (List Msg)) : Decidable (Padded tracks) := by unfold Padded; infer_instance
instance (tracks : List (List Msg)) : Decidable (EndsInRest tracks) := by unfold EndsInRest; infer_instance

theorem ValidTracks.core {c : Cfg} {g : Int} {tracks : List (List Msg)} (h : ValidTracks c g tracks) :
    ValidCore c g tracks := h.1

/-- the end of the last bar, computed from the input alone: the first bar line at or after the end of the
    piece (`pieceEnd` = the longest track) on the grid induced by the signature changes -/
def lastBarEnd (c : Cfg) (tracks : List (List Msg)) : Int := barCeil c (sigChanges tracks) (pieceEnd tracks)

/-- **the input class of known finding D15**: the piece does not end in a rest (`EndsInRest`: every timed
    event lies strictly before the end of the piece — e.g. every track is padded, `ExtractL.padded_endsInRest`),
    and it extends beyond the first bar line at or after its last onset (`lastOnset`: the latest note onset or
    signature change) — some note is still sounding there.  Then the tokeniser's clock, which only advances
    to onsets and to the end of a final rest, stops short of the end of the piece. -/
def HasTail (c : Cfg) (tracks : List (List Msg)) : Prop :=
  ¬ EndsInRest tracks ∧ barCeil c (sigChanges tracks) (lastOnset tracks) < pieceEnd tracks

instance (c : Cfg) (tracks : List (List Msg)) : Decidable (HasTail c tracks) := by unfold HasTail; infer_instance

/-- the final clock of the specification log, for valid tracks outside D15, is the end of the last bar -/
theorem final_clock (c : Cfg) (hc : CfgOk c) (g : Int) (tracks : List (List Msg))
    (hv : ValidTracks c g tracks) (hnt : ¬ HasTail c tracks) :
    (specLog c (TokSt.init c) (extract c.ppqn tracks)).1.cur = lastBarEnd c tracks
    ∧ pieceEnd tracks ≤ lastBarEnd c tracks := by
  obtain ⟨hcore, hst, hag, hob⟩ := hv
  have hok := hcore.okRel
  have hg := hcore.good
  have hev := valid_tracks_evsOk c g tracks hcore
  have hvalid := valid_tracks_evs c hc g tracks hcore
  have hsh := extract_shape' c hc g tracks hcore
  have hts := extract_ts c.ppqn tracks hok hg hst hag
  have hcap : ∀ ev ∈ extract c.ppqn tracks, ∀ m ∈ ev.2.head?, m.ty = .timeSignature → 0 < c.capacity m.num m.den :=
    fun ev hev' m hm hty => (hvalid.sigOk ev hev' m hm hty).2.2.2.1
  have hne : ∀ ev ∈ extract c.ppqn tracks, ev.2 ≠ [] := by
    intro ev he
    rcases hsh ev he with ⟨on, off, h1, _⟩ | ⟨m, h1, _⟩ <;> rw [h1] <;> simp
  have hC := specLog_cur c hc _ hev hcap hsh (by rw [hts]; exact hob)
  rw [hts] at hC
  obtain ⟨hmax, hmem⟩ := lastHead_max (extract c.ppqn tracks) 0 hev.ordered hne
  have hT0 := pieceEnd_nonneg tracks
  -- the last onset is not after the end of the piece
  have hLle : lastHead (extract c.ppqn tracks) 0 ≤ pieceEnd tracks := by
    rcases hmem with h | ⟨ev, hev', m, hm, h⟩
    · rw [h]; exact hT0
    · rw [h]; exact final_time_le tracks hok m (Glue.extract_head_mem c.ppqn tracks ev hev' m hm)
  have hL0 : 0 ≤ lastHead (extract c.ppqn tracks) 0 := by
    rcases hmem with h | ⟨ev, hev', m, hm, h⟩
    · rw [h]; exact Int.le_refl 0
    · rw [h]; have := hev.notBefore ev hev' m hm; omega
  -- a signature change is the head of an event
  have hsigHead : ∀ m ∈ sigChanges tracks, ∃ ev ∈ extract c.ppqn tracks, m ∈ ev.2.head? ∧ m.ty = .timeSignature := by
    intro m hm
    rw [← hts, List.mem_filterMap] at hm
    obtain ⟨ev, hev', h⟩ := hm
    refine ⟨ev, hev', ?_⟩
    unfold tsOf at h
    split at h
    · rename_i x hx
      split at h
      · rename_i hty; cases h; exact ⟨by simp [hx], hty⟩
      · cases h
    · cases h
  -- the signature clock is sane and not after the last onset
  obtain ⟨hsane, hkL⟩ := sigfold_sane c (sigChanges tracks) (clock0 c) (lastHead (extract c.ppqn tracks) 0)
    (by
      have hpos : 0 < c.capacity c.defNum c.defDen := by
        unfold Cfg.capacity
        rw [hc.def_eq, Int.mul_ediv_cancel _ (by have := hc.def_pos; omega)]
        have := hc.ppqn_pos; omega
      exact ⟨hpos, Int.le_refl 0, hpos⟩)
    hL0
    (fun m hm => by
      obtain ⟨ev, hev', hmh, hty⟩ := hsigHead m hm
      exact ⟨hcap ev hev' m hmh hty, hmax ev hev' m hmh⟩)
    ((sigChanges_strict tracks hag).imp (fun h => Int.le_of_lt h))
    (fun m hm => by
      obtain ⟨ev, hev', hmh, _⟩ := hsigHead m hm
      have := hev.notBefore ev hev' m hmh
      simp only [clock0]; omega)
  have hfin : barCeil c (sigChanges tracks) (lastHead (extract c.ppqn tracks) 0) = lastBarEnd c tracks := by
    by_cases hint : ∃ m ∈ GlueAux.final tracks, m.ty = .internal
    · -- the piece is padded: the clock is taken to the end of the piece
      obtain ⟨m, hm, hty⟩ := hint
      obtain ⟨ev, hev', hev2⟩ := extract_internal c.ppqn tracks hok hg m hm hty
      have h1 := hmax ev hev' m (by rw [hev2]; simp)
      rw [final_internal_end tracks hok m hm hty] at h1
      have : lastHead (extract c.ppqn tracks) 0 = pieceEnd tracks := by omega
      rw [this]; rfl
    · -- no end marker: the last event is the last onset
      have hLon : lastHead (extract c.ppqn tracks) 0 = lastOnset tracks := by
        unfold lastOnset
        obtain ⟨s0, s1, s2⟩ := listMax_spec ((pieceNotes tracks).map (·.on) ++ (sigChanges tracks).map (·.time))
        have hP := (extract_notes c g tracks hcore).1
        apply Int.le_antisymm
        · rcases hmem with h | ⟨ev, hev', m, hm, h⟩
          · rw [h]; exact s0
          · rw [h]
            apply s1
            rw [List.mem_append]
            rcases hsh ev hev' with ⟨on, off, h1, _⟩ | ⟨m', h1, hty'⟩
            · left
              rw [h1] at hm; simp at hm; subst hm
              have : ({ ch := on.ch, pitch := on.note, on := on.time, off := off.time, vel := on.vel } : Note)
                  ∈ pieceNotes tracks := by
                apply hP.mem_iff.1
                rw [List.mem_filterMap]
                exact ⟨ev, hev', by simp [evNote, h1]⟩
              exact List.mem_map.2 ⟨_, this, rfl⟩
            · right
              rw [h1] at hm; simp at hm; subst hm
              have hmf := Glue.extract_head_mem c.ppqn tracks ev hev' m' (by rw [h1]; simp)
              have hty : m'.ty = .timeSignature := by
                rcases Glue.extract_shape c.ppqn (Int.le_of_lt hc.ppqn_pos) tracks hok ev hev' with ⟨on, off, h2, _⟩ | ⟨m2, h2, ht2⟩
                · rw [h1] at h2; cases h2
                · rw [h1] at h2; simp at h2; subst h2
                  rcases ht2 with ht2 | ht2
                  · exact ht2
                  · exact absurd ⟨m', hmf, ht2⟩ hint
              have : m' ∈ sigChanges tracks := by
                rw [← hts, List.mem_filterMap]
                exact ⟨ev, hev', by simp [tsOf, h1, hty]⟩
              exact List.mem_map.2 ⟨_, this, rfl⟩
        · rcases s2 with h | h
          · rw [h]; exact hL0
          · rcases List.mem_append.1 h with h | h
            · obtain ⟨n, hn', hne'⟩ := List.mem_map.1 h
              have hn2 := hP.mem_iff.2 hn'
              rw [List.mem_filterMap] at hn2
              obtain ⟨ev, hev', hevn⟩ := hn2
              obtain ⟨on, off, h1, rfl⟩ := evNote_some hevn
              rw [← hne']
              exact hmax ev hev' on (by rw [h1]; simp)
            · obtain ⟨m, hm', hme⟩ := List.mem_map.1 h
              obtain ⟨ev, hev', hmh, _⟩ := hsigHead m hm'
              rw [← hme]
              exact hmax ev hev' m hmh
      rw [hLon] at hkL hLle ⊢
      have hTle : pieceEnd tracks ≤ barCeil c (sigChanges tracks) (lastOnset tracks) := by
        have hle := le_barCeil c (sigChanges tracks) (lastOnset tracks) hsane hkL
        by_cases hp : EndsInRest tracks
        · by_cases hpos : 0 < pieceEnd tracks
          · exact absurd (padded_internal tracks hok hp hpos) hint
          · omega
        · apply Classical.byContradiction
          intro hlt
          exact hnt ⟨hp, by omega⟩
      exact (barCeil_idem c (sigChanges tracks) (lastOnset tracks) (pieceEnd tracks) hsane hkL hLle hTle).symm
  refine ⟨hC.trans hfin, ?_⟩
  have hkT : ((sigChanges tracks).foldl (sigStep c) (clock0 c)).cur ≤ pieceEnd tracks := by omega
  exact le_barCeil c (sigChanges tracks) (pieceEnd tracks) hsane hkT

/-- **A5 — the duration clause, input level**: for valid tracks (signatures on bar boundaries) outside the
    input class `HasTail` of known finding D15, every sequence returned by `detokenise` has as its duration
    (`durAbs`, the tick of its last message) exactly the end of the last bar `lastBarEnd`: the piece's length
    rounded up to the bar grid that is induced by the piece's signature changes.  Both `HasTail` and
    `lastBarEnd` are computed from the tracks alone (no `specLog`, no `extract`). -/
theorem duration_no_tail (c : Cfg) (hc : CfgOk c) (hn : 0 < c.numTracks) (g : Int) (tracks : List (List Msg))
    (hv : ValidTracks c g tracks) (hnt : ¬ HasTail c tracks) (toks : List Tok) (st' : TokSt)
    (h : tokeniseCore c (TokSt.init c) (extract c.ppqn tracks) = .ok (toks, st')) :
    ∃ seqs, detokenise c toks = .ok seqs ∧ seqs.length = c.numTracks ∧
      ∀ (i : Nat) (s : List Msg), seqs[i]? = some s → durAbs s = lastBarEnd c tracks := by
  have hcore := hv.core
  have hok := hcore.okRel
  obtain ⟨d, log, hdf, hdet, hseqs, hlog, hNL, hlok, hcur⟩ := run_log c hc hn g tracks hcore toks st' h
  obtain ⟨hC, hTC⟩ := final_clock c hc g tracks hv hnt
  have hev := valid_tracks_evsOk c g tracks hcore
  have hvalid := valid_tracks_evs c hc g tracks hcore
  have hpos : 0 < c.capacity c.defNum c.defDen := by
    unfold Cfg.capacity
    rw [hc.def_eq, Int.mul_ediv_cancel _ (by have := hc.def_pos; omega)]
    have := hc.ppqn_pos; omega
  obtain ⟨_, hbe, hlast⟩ := specLog_inv c (TokSt.init c) (extract c.ppqn tracks) hpos (Int.le_refl 0) hpos
    (fun ev hev' m hm hty => (hvalid.sigOk ev hev' m hm hty).2.2.2.1)
  rw [hC] at hbe hlast
  have hmono := InBar.core_mono c hc (TokSt.init c) st' _ toks (Int.le_refl 0) (Or.inr ⟨rfl, rfl⟩) hev h
    (DetokSt.init c) (rel_init c hc hn).toRelD
  obtain ⟨_, htsig⟩ := mono_tsig c toks (DetokSt.init c) d log hmono hdf
  rw [hcur, hC] at htsig
  have hP := (extract_notes c g tracks hcore).1
  refine ⟨d.seqs, hdet, by rw [hseqs]; exact (seqs_inv c.numTracks log hlok).1, ?_⟩
  intro i s hs
  rw [hseqs] at hs
  obtain ⟨hsorted, _⟩ := (seqs_inv c.numTracks log hlok).2 i s hs
  obtain ⟨hsrc, hbar⟩ := seq_mem c.numTracks log i s hs
  refine durAbs_bounds s _ hsorted ?_ ?_
  · intro m hm
    obtain ⟨e, he, hme⟩ := hsrc m hm
    cases e with
    | barEnd t =>
      have : Emit.barEnd t ∈ (specLog c (TokSt.init c) (extract c.ppqn tracks)).2 := by
        rw [← hlog]; exact List.mem_filter.2 ⟨he, rfl⟩
      have hb := hbe t this
      simp only [emitAll, List.mem_cons, List.not_mem_nil, or_false] at hme
      subst hme
      have h0 : (TokSt.init c).curTime = 0 := rfl
      rw [h0] at hb
      simp only [Msg.mkInternal]; omega
    | tsig t a b =>
      have hb := htsig t a b he
      simp only [emitAll, List.mem_cons, List.not_mem_nil, or_false] at hme
      subst hme
      have h0 : (DetokSt.init c).curTime = 0 := rfl
      rw [h0] at hb
      simp only [Msg.mkTimeSig]; exact hb
    | note trk p v on off =>
      have hn' : ({ ch := trk, pitch := p, on := on, off := off, vel := v } : Note) ∈ logNotes log := by
        simp only [logNotes, List.mem_filterMap]
        exact ⟨_, he, rfl⟩
      rw [hNL, List.mem_map] at hn'
      obtain ⟨a, ha, hab⟩ := hn'
      obtain ⟨hb1, hb2⟩ := pieceNotes_bounds tracks hok a (hP.mem_iff.1 ha)
      have hdur := ((extract_note_facts c g tracks hcore).1 a ha).1
      simp only [binShift, Note.mk.injEq] at hab
      obtain ⟨_, _, e3, e4, _⟩ := hab
      simp only [emitAll, List.mem_cons, List.not_mem_nil, or_false] at hme
      rcases hme with rfl | rfl
      · simp only [Msg.mkOn]; omega
      · simp only [Msg.mkOff]; omega
  · by_cases h0 : lastBarEnd c tracks = 0
    · exact Or.inl h0
    · right
      have hpos' : (TokSt.init c).curTime < lastBarEnd c tracks := by
        have h0' : (TokSt.init c).curTime = 0 := rfl
        have := pieceEnd_nonneg tracks
        rw [h0']; omega
      have hin := hlast hpos'
      rw [← hlog] at hin
      exact ⟨_, hbar _ (List.mem_filter.1 hin).1, rfl⟩

/-- **C01, duration, end to end**: every valid piece outside D15 is tokenised, and every detokenised sequence
    lasts exactly to the end of the last bar (closes A5) -/
theorem duration_piece (c : Cfg) (hc : CfgOk c) (hn : 0 < c.numTracks) (g : Int) (hg : GridOk c g)
    (hdef : c.capacity c.defNum c.defDen % g = 0) (tracks : List (List Msg))
    (hv : ValidTracks c g tracks) (hnt : ¬ HasTail c tracks) :
    ∃ toks st' seqs, tokeniseCore c (TokSt.init c) (extract c.ppqn tracks) = .ok (toks, st')
      ∧ detokenise c toks = .ok seqs ∧ seqs.length = c.numTracks
      ∧ ∀ (i : Nat) (s : List Msg), seqs[i]? = some s → durAbs s = lastBarEnd c tracks := by
  obtain ⟨toks, st', h⟩ := tokenise_succeeds_tracks c hc g hg hdef tracks hv.core
  obtain ⟨seqs, h1, h2, h3⟩ := duration_no_tail c hc hn g tracks hv hnt toks st' h
  exact ⟨toks, st', seqs, h, h1, h2, h3⟩

/-! ## non-vacuity: two tracks, a rest across the bar line at 96, a 4/4 → 6/8 change at 192 -/

/-- track 0 (channel 0): 4/4, note 60 [0,24), 6/8 at tick 192, note 62 [204,216), padded to 264;
    track 1 (on channel 5 in the input, re-tagged 1): note 48 [60,72), note 50 [120,156) — the rest from 72
    to 120 crosses the bar line at 96 —, padded to 264 -/
def exTracks : List (List Msg) :=
  [[Msg.mkTimeSig 0 4 4 pyNone, Msg.mkOn 0 60 64 pyNone, Msg.mkWait 0 24, Msg.mkOff 0 60 pyNone, Msg.mkWait 0 168,
    Msg.mkTimeSig 0 6 8 pyNone, Msg.mkWait 0 12, Msg.mkOn 0 62 100 pyNone, Msg.mkWait 0 12, Msg.mkOff 0 62 pyNone,
    Msg.mkWait 0 48],
   [Msg.mkWait 5 60, Msg.mkOn 5 48 30 pyNone, Msg.mkWait 5 12, Msg.mkOff 5 48 pyNone, Msg.mkWait 5 48,
    Msg.mkOn 5 50 127 pyNone, Msg.mkWait 5 36, Msg.mkOff 5 50 pyNone, Msg.mkWait 5 108]]

/-- the example satisfies every hypothesis of `roundtrip_piece` (configuration `C01.exCfg`: two tracks,
    bins 63 / 127, velocity not fused; grid unit 2) -/
example : CfgOk exCfg ∧ 0 < exCfg.numTracks ∧ exCfg.bins.Pairwise (· ≤ ·) ∧ GridOk exCfg 2
    ∧ exCfg.capacity exCfg.defNum exCfg.defDen % 2 = 0 ∧ ValidCore exCfg 2 exTracks := by
  refine ⟨by constructor <;> decide, by decide, by decide, by constructor <;> decide, by decide, by decide⟩

/-- the example's tracks are single-channel (channel 0 and channel 5), so `roundtrip_notes_single` applies -/
example : ∀ r ∈ exTracks, ∃ ch0, OneChannel ch0 r := by
  intro r hr
  simp only [exTracks, List.mem_cons, List.not_mem_nil, or_false] at hr
  rcases hr with rfl | rfl
  · exact ⟨0, by unfold OneChannel; decide⟩
  · exact ⟨5, by unfold OneChannel; decide⟩

/-- the independent reading of the example's tracks -/
example : pieceNotes exTracks =
    [{ ch := 0, pitch := 60, on := 0, off := 24, vel := 64 }, { ch := 0, pitch := 62, on := 204, off := 216, vel := 100 },
     { ch := 1, pitch := 48, on := 60, off := 72, vel := 30 }, { ch := 1, pitch := 50, on := 120, off := 156, vel := 127 }] := by
  decide

/-- … and what `extract` hands to the tokeniser (onset order) -/
example : (extract exCfg.ppqn exTracks).filterMap evNote =
    [{ ch := 0, pitch := 60, on := 0, off := 24, vel := 64 }, { ch := 1, pitch := 48, on := 60, off := 72, vel := 30 },
     { ch := 1, pitch := 50, on := 120, off := 156, vel := 127 }, { ch := 0, pitch := 62, on := 204, off := 216, vel := 100 }] := by
  decide

/-- … and the notes of the detokenised sequences: the same, velocities 64, 100 ↦ 127 and 30 ↦ 63 -/
example : (match tokeniseCore exCfg (TokSt.init exCfg) (extract exCfg.ppqn exTracks) with
      | .ok (toks, _) => (match detokenise exCfg toks with
          | .ok seqs => seqs.map (fun s => notesOf (eventsAbs s))
          | .error _ => [])
      | .error _ => []) =
    [[{ ch := 0, pitch := 60, on := 0, off := 24, vel := 127 }, { ch := 0, pitch := 62, on := 204, off := 216, vel := 127 }],
     [{ ch := 0, pitch := 48, on := 60, off := 72, vel := 63 }, { ch := 0, pitch := 50, on := 120, off := 156, vel := 127 }]] := by
  decide

example : binValue [63, 127] 30 = 63 ∧ binValue [63, 127] 63 = 63 ∧ binValue [63, 127] 64 = 127 := by decide

/-! ### the duration clause without `¬ HasTail` is false: known finding D15, at input level -/

/-- the duration clause as the property text states it (no tail exclusion): FALSE, see
    `duration_statement_false`; proved outside the D15 class as `duration_no_tail` -/
def duration_statement : Prop :=
  ∀ (c : Cfg) (_ : CfgOk c) (_ : 0 < c.numTracks) (g : Int) (tracks : List (List Msg)) (_ : ValidTracks c g tracks)
    (toks : List Tok) (st' : TokSt) (_ : tokeniseCore c (TokSt.init c) (extract c.ppqn tracks) = .ok (toks, st')),
    ∃ seqs, detokenise c toks = .ok seqs ∧
      ∀ (i : Nat) (s : List Msg), seqs[i]? = some s → durAbs s = lastBarEnd c tracks

/-- D15's example as a track: 2/4, one note [40, 76), no final rest -/
def d15Tracks : List (List Msg) :=
  [[Msg.mkTimeSig 0 2 4 pyNone, Msg.mkWait 0 40, Msg.mkOn 0 60 64 pyNone, Msg.mkWait 0 36, Msg.mkOff 0 60 pyNone]]

/-- the audit's example (A5): 4/4, one note [0, 24) starting on the bar line, no final rest -/
def a5Tracks : List (List Msg) :=
  [[Msg.mkTimeSig 0 4 4 pyNone, Msg.mkOn 0 60 64 pyNone, Msg.mkWait 0 24, Msg.mkOff 0 60 pyNone]]

/-- both are valid pieces inside the class `HasTail`; the end of the last bar is 96 in both -/
example : ValidTracks d15Cfg 2 d15Tracks ∧ HasTail d15Cfg d15Tracks ∧ lastBarEnd d15Cfg d15Tracks = 96
    ∧ ValidTracks d15Cfg 2 a5Tracks ∧ HasTail d15Cfg a5Tracks ∧ lastBarEnd d15Cfg a5Tracks = 96 := by decide

/-- **D15 refutes the unrestricted duration clause** (kernel-checked on the model; replayed on the real
    implementation: the detokenised duration is 76, the end of the last bar is 96) -/
theorem duration_statement_false : ¬ duration_statement := by
  intro h
  have hc : CfgOk d15Cfg := by constructor <;> decide
  have hv : ValidTracks d15Cfg 2 d15Tracks := by decide
  have hrun : tokeniseCore d15Cfg (TokSt.init d15Cfg) (extract d15Cfg.ppqn d15Tracks)
      = .ok ([Tok.tsig 4 8, .rest 24, .rest 16, .note (some 0) 60 (some 36) (some 127), .rest 8, .bar],
          { curTime := 48, curTimeBar := 0, tsNum := 2, tsDen := 4, capRem := 48, prvTrack := 0, prvValue := 36,
            prvVel := 127 }) := by rfl
  obtain ⟨seqs, h1, h2⟩ := h d15Cfg hc (by decide) 2 d15Tracks hv _ _ hrun
  have hd : detokenise d15Cfg [Tok.tsig 4 8, .rest 24, .rest 16, .note (some 0) 60 (some 36) (some 127), .rest 8, .bar]
      = .ok [[Msg.mkTimeSig 0 2 4 0, Msg.mkOn 0 60 127 40, Msg.mkInternal 0 48, Msg.mkOff 0 60 76]] := by rfl
  rw [hd] at h1
  cases h1
  have := h2 0 _ rfl
  revert this
  decide

/-- the non-vacuity example is a valid piece outside `HasTail` (it is padded); its last bar ends at 264 =
    96 + 96 + 72, and that is the duration of both detokenised sequences -/
example : ValidTracks exCfg 2 exTracks ∧ ¬ HasTail exCfg exTracks ∧ lastBarEnd exCfg exTracks = 264 := by decide

example : (match tokeniseCore exCfg (TokSt.init exCfg) (extract exCfg.ppqn exTracks) with
      | .ok (toks, _) => (match detokenise exCfg toks with
          | .ok seqs => seqs.map durAbs
          | .error _ => [])
      | .error _ => []) = [264, 264] := by
  decide

/-- an unpadded piece outside `HasTail`: 2/4, note [40, 48) ending on the bar line -/
example : ValidTracks d15Cfg 2 [[Msg.mkTimeSig 0 2 4 pyNone, Msg.mkWait 0 40, Msg.mkOn 0 60 64 pyNone, Msg.mkWait 0 8,
      Msg.mkOff 0 60 pyNone]]
    ∧ ¬ HasTail d15Cfg [[Msg.mkTimeSig 0 2 4 pyNone, Msg.mkWait 0 40, Msg.mkOn 0 60 64 pyNone, Msg.mkWait 0 8,
      Msg.mkOff 0 60 pyNone]] := by decide

end SCoda.C01c
