/-
  The identity model of C16 tied to the source BY TRANSLATION, part 3: the four view-level methods that `Model/HeapLib.lean` still had as
  LINKS — `RelativeSequence.to_absolute_sequence`, `AbsoluteSequence.to_relative_sequence`, `RelativeSequence.normalise_relative`,
  `RelativeSequence.pad` — translated statement by statement by `tools/py2lean_heap3.py` (`Gen/HeapFns3.lean`; values are translated
  exactly, there is no oracle).  This file proves, for every input heap and every receiver, what `HeapOps` ASSUMES of the links
  `convView`, `rebuildView`, `padView` — by SIMULATION, not equality (the code allocates the view object before its messages, the model
  after; values come from the code, not from an oracle).

  WHAT THE FOUR METHODS DO WITH IDENTITIES
  * the two conversions (`toAbs_*`, `toRel_*`): NO cell that existed is written — `message_to_add.time = …` is a store into the COPY
    (`msg.copy()`), never into the receiver's message; the sort and the `binary_insort` of `to_absolute_sequence` re-order the NEW view's
    list only.  The result is a view object allocated by the call and EVERY message reference in it is a message allocated by the call
    (`*_result`): no message object is shared with the receiver.  This is exactly `HeapOps.convView` ("a new view, all messages new").
  * `normalise_relative` (`normalise_*`): the ONLY cell that existed and is written is the receiver's list cell (`self._messages = …`);
    no message of the receiver is written (waits are consolidated into NEW `Message` objects, an existing wait is never lengthened), no other
    view; the new list holds message objects of the old list and messages allocated by the call.  This is exactly `HeapOps.rebuildView`.
  * `pad` (`pad_*`): the same frame; the list afterwards is the old list, or the old list with ONE new message appended
    (`pad_shape`: an existing trailing wait is never lengthened in place).  This is exactly `HeapOps.padView`.
  `link_frames_agree`: the three `HeapOps` links write within the same frames (for every oracle) — no disagreement between the identity model
  and the translated code was found.
  `*_spec`: the region-calculus statements `HeapL.convView_spec` / `rebuildView_spec` / `padView_spec` for the TRANSLATED methods (all that
  `Props/C16c.lean` uses of the links).  `*_ok`: the methods return normally under input-level conditions.
-/
import SCoda.Lemmas.HeapTie3L
import SCoda.Props.HeapTie2
namespace SCoda.HeapTie3
open SCoda SCoda.HeapOps SCoda.HeapLib SCoda.HeapL SCoda.Gen.HeapFns SCoda.Gen.HeapFns3 SCoda.HeapTieL SCoda.HeapTie2L SCoda.HeapTie3L SCoda.C16c

/-! ## generic consequences of the invariants -/

/-- what a conversion may have done to the heap `h`: allocated messages and views, written nothing that existed; `p` is a view allocated by
    the call and all its messages were allocated by the call (and have a channel) -/
structure ConvPost (h h' : Heap) (p : Nat) : Prop where
  le : ∀ k, h.next k ≤ h'.next k
  same : ∀ c, h.alloc c → h'.get c = h.get c
  kinds : h'.nSeq = h.nSeq ∧ h'.nBar = h.nBar ∧ h'.nTrk = h.nTrk ∧ h'.nCmp = h.nCmp
  view : h.nLst ≤ p ∧ p < h'.nLst
  fresh : ∀ i ∈ h'.lst p, h.nMsg ≤ i ∧ i < h'.nMsg ∧ (h'.msg i).ch ≠ pyNone

theorem convPost_of_inv {h h' : Heap} {p : Nat} (hi : Inv h [] h') (hp : OkV h h' p) : ConvPost h h' p :=
  ⟨hi.ext.1, hi.ext.2, hi.kinds, hp, fun i hm => by
    rcases hi.views p hp i hm with h1 | h1
    · simp at h1
    · exact ⟨h1.1, h1.2, hi.chan i h1.1 h1.2⟩⟩

/-- the region statement from the invariant of HeapTie2L (the proof of `HeapTie2.relativeSequenceSplit_spec`, for any source list) -/
theorem spec_of_inv {X : Region} {h h' : Heap} {src : List Nat} (hg : Good X h) (hsrc : ∀ i ∈ src, In X h (.msg, i)) (hi : Inv h src h') :
    Spec X h h' ∧ ∀ p, OkV h h' p → In X h' (.lst, p) := by
  refine ⟨⟨?_, hi.ext.1, ?_⟩, ?_⟩
  · apply hg.step hi.ext.1
    rintro ⟨k, i⟩ hx ha
    by_cases hold : h.alloc (k, i)
    · exact Or.inl ⟨hold, hi.ext.2 _ hold⟩
    · right
      have hk := hi.kinds
      cases k
      case msg => intro p hp; simp [Heap.get, Val.ptrs] at hp
      case lst =>
        have hpv : OkV h h' i := by
          simp only [Heap.alloc, Heap.next] at hold ha
          exact ⟨by omega, ha⟩
        intro p hp
        simp only [Heap.get, Val.ptrs, List.mem_map] at hp
        obtain ⟨j, hj, rfl⟩ := hp
        rcases hi.views i hpv j hj with h1 | h1
        · exact ⟨(hsrc j h1).1, alloc_mono hi.ext.1 (hsrc j h1).2⟩
        · exact ⟨hg.up _ (by simp only [Heap.alloc, Heap.next]; omega), by simp only [Heap.alloc, Heap.next]; omega⟩
      all_goals (exfalso; simp only [Heap.alloc, Heap.next] at hold ha; omega)
  · intro c hc
    exact hi.ext.2 c (hg.alloc_of_not hc)
  · intro p hpv
    exact ⟨hg.up _ (by simp only [Heap.alloc, Heap.next]; unfold OkV at hpv; omega),
      by simp only [Heap.alloc, Heap.next]; exact hpv.2⟩

/-- the region statement from `InvM`: a good region that contains the receiver's view object stays good, nothing outside it is written -/
theorem spec_of_invM {X : Region} {h h' : Heap} {l : Nat} (hg : Good X h) (hl : In X h (.lst, l)) (hi : InvM h l h') : Spec X h h' := by
  have hsrc := lst_in hg hl
  refine ⟨?_, hi.le, ?_⟩
  · apply hg.step hi.le
    rintro ⟨k, i⟩ hx ha
    by_cases hlc : (k, i) = (Kind.lst, l)
    · right
      cases hlc
      intro p hp
      simp only [Heap.get, Val.ptrs, List.mem_map] at hp
      obtain ⟨j, hj, rfl⟩ := hp
      rcases hi.lst j hj with h1 | h1
      · exact ⟨(hsrc j h1).1, alloc_mono hi.le (hsrc j h1).2⟩
      · exact ⟨hg.up _ (by simp only [Heap.alloc, Heap.next]; omega), by simp only [Heap.alloc, Heap.next]; omega⟩
    · by_cases hold : h.alloc (k, i)
      · exact Or.inl ⟨hold, hi.same _ hold hlc⟩
      · right
        have hk := hi.kinds
        cases k
        case msg => intro p hp; simp [Heap.get, Val.ptrs] at hp
        all_goals (exfalso; simp only [Heap.alloc, Heap.next] at hold ha; omega)
  · intro c hc
    exact hi.same c (hg.alloc_of_not hc) (fun he => hc (he ▸ hl.1))

/-- from a `Sat` statement to the two components of a run -/
theorem sat_run {α : Type} {m : HM α} {h : Heap} {Q : α → Heap → Prop} {E : Heap → Prop} (hs : Sat m h Q E) :
    (∀ a, (m h).1 = .ok a → Q a (m h).2) ∧ ((∀ a, (m h).1 ≠ .ok a) → E (m h).2) := by
  unfold Sat at hs
  rcases hr : m h with ⟨r, h'⟩
  rw [hr] at hs
  cases r with
  | ok a => exact ⟨fun b hb => (by cases hb; exact hs), fun hn => absurd rfl (hn a)⟩
  | error e => exact ⟨fun b hb => (by cases hb), fun _ => hs⟩

theorem sat_run_both {α : Type} {m : HM α} {h : Heap} {P : Heap → Prop} (hs : Sat m h (fun _ h' => P h') P) : P (m h).2 := by
  unfold Sat at hs
  rcases hr : m h with ⟨r, h'⟩
  rw [hr] at hs
  cases r <;> exact hs

/-! ## `AbsoluteSequence.to_relative_sequence` -/

/-- the invariant at the end of the call (both exits) -/
theorem toRel_inv (g : GOrc) (tag l : Nat) (h : Heap) : Inv h [] (absoluteSequenceToRelativeSequence g tag l h).2 :=
  sat_run_both ((toRel_sat g tag l h).mono (fun _ _ hq => hq.1) (fun _ he => he))

/-- FRAME of `to_relative_sequence`: NO cell that existed when it was called is written — every allocated cell (the receiver's list, every
    message of the receiver, every wrapper) has the content it had: `message_to_add.time = None` is a store into the copy.  Only messages
    and view objects are allocated.  Holds on both exits. (A2; link `absToRelativeSequence` / `convView`) -/
theorem toRel_frame (g : GOrc) (tag l : Nat) (h : Heap) :
    let h' := (absoluteSequenceToRelativeSequence g tag l h).2
    (∀ k, h.next k ≤ h'.next k) ∧ (∀ c, h.alloc c → h'.get c = h.get c)
      ∧ h'.nSeq = h.nSeq ∧ h'.nBar = h.nBar ∧ h'.nTrk = h.nTrk ∧ h'.nCmp = h.nCmp :=
  let hi := toRel_inv g tag l h
  ⟨hi.ext.1, hi.ext.2, hi.kinds⟩

/-- RESULT of `to_relative_sequence`: the returned view object was allocated by the call, and EVERY message reference in it is a message
    allocated by the call (with a channel): the new WAITs and the copies; no message object is shared with the receiver. (A2) -/
theorem toRel_result (g : GOrc) (tag l : Nat) (h : Heap) (p : Nat) (hok : (absoluteSequenceToRelativeSequence g tag l h).1 = .ok p) :
    ConvPost h (absoluteSequenceToRelativeSequence g tag l h).2 p :=
  let hq := (sat_run (toRel_sat g tag l h)).1 p hok
  convPost_of_inv hq.1 hq.2

/-- `HeapL.convView_spec` for the TRANSLATED `to_relative_sequence` (no hypothesis on the receiver): every good region stays good, nothing
    outside it is written, the result is in it.  With `X := Fresh h` this is freshness of the regenerated view. (A2) -/
theorem toRel_spec {X : Region} (g : GOrc) (tag l : Nat) {h : Heap} (hg : Good X h) :
    Spec X h (absoluteSequenceToRelativeSequence g tag l h).2
      ∧ ∀ p, (absoluteSequenceToRelativeSequence g tag l h).1 = .ok p → In X (absoluteSequenceToRelativeSequence g tag l h).2 (.lst, p) := by
  obtain ⟨sp, hin⟩ := spec_of_inv hg (src := []) (by simp) (toRel_inv g tag l h)
  exact ⟨sp, fun p hok => hin p ((sat_run (toRel_sat g tag l h)).1 p hok).2⟩

/-! ## `RelativeSequence.to_absolute_sequence` -/

theorem toAbs_inv (g : GOrc) (tag l : Nat) (h : Heap) : Inv h [] (relativeSequenceToAbsoluteSequence g tag l h).2 :=
  sat_run_both ((toAbs_sat g tag l h).mono (fun _ _ hq => hq.1) (fun _ he => he))

/-- FRAME of `to_absolute_sequence`: NO cell that existed is written: `message_to_add.time = current_point_in_time` is a store into the
    copy; `normalise_absolute` (the sort) and `add_message` (`binary_insort`) re-order / extend the list of the NEW view.  Both exits. (A2) -/
theorem toAbs_frame (g : GOrc) (tag l : Nat) (h : Heap) :
    let h' := (relativeSequenceToAbsoluteSequence g tag l h).2
    (∀ k, h.next k ≤ h'.next k) ∧ (∀ c, h.alloc c → h'.get c = h.get c)
      ∧ h'.nSeq = h.nSeq ∧ h'.nBar = h.nBar ∧ h'.nTrk = h.nTrk ∧ h'.nCmp = h.nCmp :=
  let hi := toAbs_inv g tag l h
  ⟨hi.ext.1, hi.ext.2, hi.kinds⟩

/-- RESULT of `to_absolute_sequence`: a view allocated by the call whose message references are ALL messages allocated by the call (the
    copies and the INTERNAL cap message). (A2) -/
theorem toAbs_result (g : GOrc) (tag l : Nat) (h : Heap) (p : Nat) (hok : (relativeSequenceToAbsoluteSequence g tag l h).1 = .ok p) :
    ConvPost h (relativeSequenceToAbsoluteSequence g tag l h).2 p :=
  let hq := (sat_run (toAbs_sat g tag l h)).1 p hok
  convPost_of_inv hq.1 hq.2

/-- `HeapL.convView_spec` for the TRANSLATED `to_absolute_sequence`. (A2) -/
theorem toAbs_spec {X : Region} (g : GOrc) (tag l : Nat) {h : Heap} (hg : Good X h) :
    Spec X h (relativeSequenceToAbsoluteSequence g tag l h).2
      ∧ ∀ p, (relativeSequenceToAbsoluteSequence g tag l h).1 = .ok p → In X (relativeSequenceToAbsoluteSequence g tag l h).2 (.lst, p) := by
  obtain ⟨sp, hin⟩ := spec_of_inv hg (src := []) (by simp) (toAbs_inv g tag l h)
  exact ⟨sp, fun p hok => hin p ((sat_run (toAbs_sat g tag l h)).1 p hok).2⟩

/-- the receiver of a conversion after the call: the same list of the same message objects with the same field values -/
theorem conv_receiver {h h' : Heap} {l : Nat} (hi : Inv h [] h') (hl : l < h.nLst) (hm : ∀ i ∈ h.lst l, i < h.nMsg) :
    h'.lst l = h.lst l ∧ h'.viewVals l = h.viewVals l := by
  have h1 := hi.ext.lst hl
  refine ⟨h1, ?_⟩
  simp only [Heap.viewVals, Heap.vals, h1]
  exact List.map_congr_left (fun i hi' => hi.ext.msg (hm i hi'))

/-! ## `RelativeSequence.normalise_relative` and `RelativeSequence.pad` -/

/-- FRAME and RESULT of `normalise_relative` (both exits): the only cell that existed and may be written is the receiver's LIST cell
    (`self._messages = messages_normalized`); every other allocated cell — every message of the receiver included: a wait is consolidated into
    a NEW message, never lengthened in place — keeps its content; only messages are allocated; the list afterwards holds message objects of
    the old list and messages allocated by the call (with a channel). (A2; link `relNormaliseRelative` / `rebuildView`) -/
theorem normalise_frame (g : GOrc) (tag l : Nat) (h : Heap) : InvM h l (relativeSequenceNormaliseRelative g tag l h).2 :=
  sat_run_both (normalise_sat g tag l h)

/-- `HeapL.rebuildView_spec` for the TRANSLATED `normalise_relative`. (A2) -/
theorem normalise_spec {X : Region} (g : GOrc) (tag : Nat) {h : Heap} (hg : Good X h) {l : Nat} (hl : In X h (.lst, l)) :
    Spec X h (relativeSequenceNormaliseRelative g tag l h).2 :=
  spec_of_invM hg hl (normalise_frame g tag l h)

/-- FRAME and RESULT of `pad` (both exits): as for `normalise_relative`. (A2; link `relPad` / `padView`) -/
theorem pad_frame (g : GOrc) (tag l : Nat) (n : Int) (h : Heap) : InvM h l (relativeSequencePad g tag l n h).2 :=
  sat_run_both (pad_sat g tag l n h)

/-- `HeapL.padView_spec` for the TRANSLATED `pad`. (A2) -/
theorem pad_spec {X : Region} (g : GOrc) (tag : Nat) (n : Int) {h : Heap} (hg : Good X h) {l : Nat} (hl : In X h (.lst, l)) :
    Spec X h (relativeSequencePad g tag l n h).2 :=
  spec_of_invM hg hl (pad_frame g tag l n h)

/-- the shape of the receiver's list after `pad`: unchanged (nothing allocated), or exactly ONE message allocated by the call — a WAIT —
    appended at the end; an existing trailing wait is never lengthened in place.  On an exception nothing at all has changed. (A2) -/
theorem pad_shape (g : GOrc) (tag l : Nat) (n : Int) (h : Heap) :
    let r := relativeSequencePad g tag l n h
    (r.1 = .ok () → (r.2.lst l = h.lst l ∧ r.2.nMsg = h.nMsg)
        ∨ (r.2.lst l = h.lst l ++ [h.nMsg] ∧ r.2.nMsg = h.nMsg + 1 ∧ (r.2.msg h.nMsg).ty = .wait))
      ∧ ((∀ a, r.1 ≠ .ok a) → r.2 = h) := by
  have := sat_run (pad_sat_shape g tag l n h)
  exact ⟨fun hok => this.1 () hok, this.2⟩

/-! ## (a) the methods return normally -/

theorem ok_of_sat {α : Type} {m : HM α} {h : Heap} (hs : Sat m h (fun _ _ => True) (fun _ => False)) : ∃ a, (m h).1 = .ok a := by
  unfold Sat at hs
  rcases hr : m h with ⟨r, h'⟩
  rw [hr] at hs
  cases r with
  | ok a => exact ⟨a, rfl⟩
  | error e => exact absurd hs id

/-- `to_relative_sequence` returns normally when every message of the receiver exists and has a `time`.
    (Excluded point: a message whose `time` is `None` — the real code raises `TypeError` at `time > current_point_in_time`; replayed.) (A2) -/
theorem toRel_ok (g : GOrc) (tag l : Nat) (h : Heap) (hin : ∀ i ∈ h.lst l, i < h.nMsg ∧ (h.msg i).time ≠ pyNone) :
    ∃ p, (absoluteSequenceToRelativeSequence g tag l h).1 = .ok p := ok_of_sat (toRel_sat_ok g tag l h hin)

/-- `pad` returns normally when every WAIT of the receiver has a `time` (excluded point: `TypeError` at `current_length += msg.time`). (A2) -/
theorem pad_ok (g : GOrc) (tag l : Nat) (n : Int) (h : Heap) (hin : ∀ i ∈ h.lst l, (h.msg i).ty = .wait → (h.msg i).time ≠ pyNone) :
    (relativeSequencePad g tag l n h).1 = .ok () := by
  obtain ⟨a, ha⟩ := ok_of_sat (pad_sat_ok g tag l n h hin)
  exact ha

/-- `normalise_relative` returns normally when every message of the receiver exists and every WAIT has a `time`: every
    `open_messages[msg.channel]` follows a `setdefault` (no `KeyError`), `note_list.pop(-1)` is guarded by `len(note_list) == 0` (no
    `IndexError`), `messages_normalized.remove(msg)` by `msg in messages_normalized`. (A2) -/
theorem normalise_ok (g : GOrc) (tag l : Nat) (h : Heap)
    (hin : ∀ i ∈ h.lst l, i < h.nMsg ∧ ((h.msg i).ty = .wait → (h.msg i).time ≠ pyNone)) :
    (relativeSequenceNormaliseRelative g tag l h).1 = .ok () := by
  obtain ⟨a, ha⟩ := ok_of_sat (normalise_sat_ok g tag l h hin)
  exact ha

/-- NOT PROVED (kept as a statement, Rule 9): `to_absolute_sequence` returns normally when every message of the receiver exists, every WAIT has a
    time ≥ 0 (so that `current_point_in_time` never is the encoding of `None`), and the keys of the copies are comparable (two non-WAIT messages of
    the same type both have a note or both have none: otherwise `AbsoluteSequence.sort` raises `TypeError`, `SortTie.sortOf_raises`; replayed on the
    real code).  What is missing is the value-level invariant of the loop (the copies' times are the running totals) that feeds `SortTie.SortDom`
    and the index / fuel invariant `0 ≤ lo ≤ hi ≤ len`, `hi - lo` halves, of the translated `binary_insort`.  TESTED, not proved: the kernel-checked
    example below and tools/diff_py2lean_heap3.py (467 calls of `to_absolute_sequence`, the exception cases included, 0 differences; `HErr.fuel`
    never occurs). -/
def toAbs_ok_statement : Prop :=
  ∀ (g : GOrc) (tag l : Nat) (h : Heap),
    (∀ i ∈ h.lst l, i < h.nMsg ∧ ((h.msg i).ty = .wait → 0 ≤ (h.msg i).time)) →
    (∀ i ∈ h.lst l, ∀ j ∈ h.lst l, (h.msg i).ty ≠ .wait → (h.msg i).ty = (h.msg j).ty → ((h.msg i).note = pyNone ↔ (h.msg j).note = pyNone)) →
    ∃ p, (relativeSequenceToAbsoluteSequence g tag l h).1 = .ok p

/-! ## (b) the links of `HeapOps` write within the same frames -/

theorem buildIds_heap (src : List Nat) (p : List Item) : ∀ h : Heap, (buildIds h src p).1 = (buildIds h [] p).1 := by
  induction p with
  | nil => intro h; rfl
  | cons it p ih =>
    intro h
    cases it with
    | keep k => simp only [buildIds]; exact ih h
    | fresh m => simp only [buildIds]; exact ih _

theorem buildIds_ext (src : List Nat) (p : List Item) (h : Heap) : Ext h (buildIds h src p).1 := by
  rw [buildIds_heap]
  exact Ext.of_spec (buildIds_spec (good_fresh h) [] (by simp) p).1

theorem buildIds_ids (src : List Nat) (p : List Item) : ∀ h : Heap,
    h.nMsg ≤ (buildIds h src p).1.nMsg ∧ ∀ i ∈ (buildIds h src p).2, i ∈ src ∨ (h.nMsg ≤ i ∧ i < (buildIds h src p).1.nMsg) := by
  induction p with
  | nil => intro h; simp [buildIds]
  | cons it p ih =>
    intro h
    cases it with
    | keep k =>
      simp only [buildIds]
      refine ⟨(ih h).1, fun i hi => ?_⟩
      cases hk : src[k]? with
      | none => rw [hk] at hi; exact (ih h).2 i hi
      | some j =>
        rw [hk] at hi
        rcases List.mem_cons.1 hi with rfl | hi
        · exact Or.inl (List.mem_of_getElem? hk)
        · exact (ih h).2 i hi
    | fresh m =>
      simp only [buildIds]
      have := ih (h.newMsg m).1
      simp only [nMsg_newMsg] at this
      refine ⟨by omega, fun i hi => ?_⟩
      rcases List.mem_cons.1 hi with rfl | hi
      · exact Or.inr ⟨Nat.le_refl _, by simp only [newMsg_snd]; omega⟩
      · rcases this.2 i hi with h1 | h1
        · exact Or.inl h1
        · exact Or.inr ⟨by omega, h1.2⟩

/-- THE LINKS AGREE WITH THE CODE ON THE FRAME (for every oracle): `convView` (both conversions) writes no cell that existed and returns a new
    view of new messages — `toAbs_frame` / `toRel_frame` / `*_result`; `rebuildView` (`normalise_relative`) and `padView` (`pad`) write, of the
    cells that existed, the receiver's list cell only, and put into it references of the old list and new messages — `normalise_frame` /
    `pad_frame`.  No disagreement between the identity model and the translated methods. (A2) -/
theorem link_frames_agree (h : Heap) (l : Nat) :
    (∀ f : List Msg → List Msg, Ext h (convView f h l).1 ∧ h.nLst ≤ (convView f h l).2
        ∧ ∀ i ∈ (convView f h l).1.lst (convView f h l).2, h.nMsg ≤ i)
    ∧ (∀ plan : List Msg → List Item, (∀ c, h.alloc c → c ≠ (.lst, l) → (rebuildView plan h l).get c = h.get c)
        ∧ ∀ i ∈ (rebuildView plan h l).lst l, i ∈ h.lst l ∨ (h.nMsg ≤ i ∧ i < (rebuildView plan h l).nMsg))
    ∧ (∀ w : List Msg → Option Msg, (∀ c, h.alloc c → c ≠ (.lst, l) → (padView w h l).get c = h.get c)
        ∧ ((padView w h l).lst l = h.lst l ∨ (padView w h l).lst l = h.lst l ++ [h.nMsg])) := by
  refine ⟨fun f => ?_, fun plan => ?_, fun w => ?_⟩
  · obtain ⟨sp, hin⟩ := convView_spec (good_fresh h) f l
    refine ⟨Ext.of_spec sp, by simp [convView, (newMsgs_frame _ h).2.2.2.2.2.1], fun i hi => ?_⟩
    have := (lst_in sp.good hin i hi).1
    simp only [Fresh, Heap.alloc, Heap.next] at this
    omega
  · have he := buildIds_ext (h.lst l) (plan (h.viewVals l)) h
    have hids := buildIds_ids (h.lst l) (plan (h.viewVals l)) h
    refine ⟨?_, fun i hi => ?_⟩
    · rintro ⟨k, i⟩ hc hne
      have := he.2 (k, i) hc
      cases k <;> simp_all [rebuildView, Heap.setLst, Heap.get]
    · simp only [rebuildView, lst_setLst, nMsg_setLst] at hi ⊢
      exact hids.2 i hi
  · unfold padView
    split
    · exact ⟨fun _ _ _ => rfl, Or.inl rfl⟩
    · rename_i m _
      refine ⟨?_, Or.inr (by simp)⟩
      rintro ⟨k, i⟩ hc hne
      cases k <;> simp_all [Heap.setLst, Heap.newMsg, Heap.get, Heap.alloc, Heap.next]
      omega

/-! ## the regeneration of a stale view with NO link: `Sequence.abs` / `Sequence.rel` on the translated conversions -/

theorem sat_deref {α : Type} (x : Option α) (h : Heap) (Q : α → Heap → Prop) (E : Heap → Prop) :
    Sat (HM.deref x) h Q E ↔ (∀ a, x = some a → Q a h) ∧ (x = none → E h) := by
  cases x <;> simp [HM.deref, Sat, HM.fail, pure]

/-- `HeapL.getAbs_spec` for the TRANSLATED `abs` property running the TRANSLATED `to_absolute_sequence` (`Gen.HeapFns3.sequenceAbs3`; no link): in
    every good region that contains the wrapper, reading `seq.abs` — regenerating the absolute view when it is stale — writes nothing outside
    the region, keeps it good, and the view it returns is in the region.  Holds on both exits. (A2) -/
theorem sequenceAbs3_spec {X : Region} (g : GOrc) (tag : Nat) {h : Heap} (hg : Good X h) {s : Nat} (hs : In X h (.seq, s)) :
    Sat (sequenceAbs3 g tag s) h (fun r h' => Spec X h h' ∧ ∀ l, r = some l → In X h' (.lst, l)) (fun h' => Spec X h h') := by
  unfold sequenceAbs3
  simp only [sat_bind, sat_get, sat_ite, sat_fail, sat_pure, sat_deref]
  refine ⟨fun _ => ⟨fun _ => Spec.refl hg, fun _ => ⟨fun r _ => ?_, fun _ => Spec.refl hg⟩⟩,
    fun _ => ⟨Spec.refl hg, fun l hl => seq_abs_in hg hs hl⟩⟩
  refine (toAbs_sat g tag r h).mono ?_ (fun h' hi => (spec_of_inv hg (src := []) (by simp) hi).1)
  rintro p h' ⟨hi, hp⟩
  obtain ⟨sp, hin⟩ := spec_of_inv hg (src := []) (by simp) hi
  have hp' := hin p hp
  have hs' := hs.mono sp.pres
  simp only [sat_modify, sat_bind, sat_get, sat_pure]
  have s1 : Spec X h' (h'.setSeq s { h'.seq s with abs := some p }) :=
    setSeq_spec sp.good s _ hs'.1 (fun l hl => by cases hl; exact hp') (fun l hl => seq_rel_in sp.good hs' hl)
  have s2 := setSeq_spec s1.good s { (h'.setSeq s { h'.seq s with abs := some p }).seq s with absStale := false } hs'.1
    (fun l hl => by simp only [seq_setSeq] at hl; cases hl; exact hp'.mono s1.pres)
    (fun l hl => by simp only [seq_setSeq] at hl; exact (seq_rel_in sp.good hs' hl).mono s1.pres)
  refine ⟨sp.trans (s1.trans s2), fun l hl => ?_⟩
  simp only [seq_setSeq] at hl
  cases hl
  exact (hp'.mono s1.pres).mono s2.pres

/-- `HeapL.getRel_spec` for the TRANSLATED `rel` property running the TRANSLATED `to_relative_sequence` (`sequenceRel3`; no link). (A2) -/
theorem sequenceRel3_spec {X : Region} (g : GOrc) (tag : Nat) {h : Heap} (hg : Good X h) {s : Nat} (hs : In X h (.seq, s)) :
    Sat (sequenceRel3 g tag s) h (fun r h' => Spec X h h' ∧ ∀ l, r = some l → In X h' (.lst, l)) (fun h' => Spec X h h') := by
  unfold sequenceRel3
  simp only [sat_bind, sat_get, sat_ite, sat_fail, sat_pure, sat_deref]
  refine ⟨fun _ => ⟨fun _ => Spec.refl hg, fun _ => ⟨fun r _ => ?_, fun _ => Spec.refl hg⟩⟩,
    fun _ => ⟨Spec.refl hg, fun l hl => seq_rel_in hg hs hl⟩⟩
  refine (toRel_sat g tag r h).mono ?_ (fun h' hi => (spec_of_inv hg (src := []) (by simp) hi).1)
  rintro p h' ⟨hi, hp⟩
  obtain ⟨sp, hin⟩ := spec_of_inv hg (src := []) (by simp) hi
  have hp' := hin p hp
  have hs' := hs.mono sp.pres
  simp only [sat_modify, sat_bind, sat_get, sat_pure]
  have s1 : Spec X h' (h'.setSeq s { h'.seq s with rel := some p }) :=
    setSeq_spec sp.good s _ hs'.1 (fun l hl => seq_abs_in sp.good hs' hl) (fun l hl => by cases hl; exact hp')
  have s2 := setSeq_spec s1.good s { (h'.setSeq s { h'.seq s with rel := some p }).seq s with relStale := false } hs'.1
    (fun l hl => by simp only [seq_setSeq] at hl; exact (seq_abs_in sp.good hs' hl).mono s1.pres)
    (fun l hl => by simp only [seq_setSeq] at hl; cases hl; exact hp'.mono s1.pres)
  refine ⟨sp.trans (s1.trans s2), fun l hl => ?_⟩
  simp only [seq_setSeq] at hl
  cases hl
  exact (hp'.mono s1.pres).mono s2.pres

/-! ## examples (kernel-checked evaluations of the translated methods; the same inputs are in tools/diff_py2lean_heap3.py) -/

/-- an absolute view: NOTE_ON 60 at 0, NOTE_OFF 60 at 24, INTERNAL at 96 in message cells 0–2, the view in list cell 0 -/
def exAbsHeap : Heap :=
  ((newMsgs Heap.empty [{ ty := .noteOn, note := 60, vel := 64, time := 0 }, { ty := .noteOff, note := 60, time := 24 },
    { ty := .internal, time := 96 }]).1.newLst [0, 1, 2]).1

/-- a relative view: WAIT 10, WAIT 14, NOTE_ON 60, WAIT 72, NOTE_OFF 60 in message cells 0–4, the view in list cell 0 -/
def exNormHeap : Heap :=
  ((newMsgs Heap.empty [{ ty := .wait, time := 10 }, { ty := .wait, time := 14 }, { ty := .noteOn, note := 60, vel := 64 },
    { ty := .wait, time := 72 }, { ty := .noteOff, note := 60 }]).1.newLst [0, 1, 2, 3, 4]).1

/-- `to_absolute_sequence` of `HeapTie2.exSplitHeap` (NOTE_ON 60, WAIT 24, NOTE_OFF 60, WAIT 72): a new view (cell 1) of three NEW messages —
    the copies 4, 5 (time 24 written into the copy) and the INTERNAL cap 6; the receiver's list and its NOTE_OFF (time still `None`) untouched -/
example : let r := relativeSequenceToAbsoluteSequence HeapTie2.exG 0 0 HeapTie2.exSplitHeap
    r.1.toOption = some 1 ∧ r.2.lst 1 = [4, 5, 6] ∧ r.2.lst 0 = [0, 1, 2, 3] ∧ (r.2.msg 5).time = 24 ∧ (r.2.msg 2).time = pyNone
      ∧ (r.2.msg 6).ty = .internal ∧ (r.2.msg 6).time = 96 := by decide +kernel

/-- `to_relative_sequence` of `exAbsHeap`: a new view (cell 1) of four NEW messages — the copy of NOTE_ON, a new WAIT 24, the copy of NOTE_OFF, a new
    WAIT 72; the receiver's NOTE_OFF keeps its time 24 (the `None` is written into the copy) -/
example : let r := absoluteSequenceToRelativeSequence HeapTie2.exG 0 0 exAbsHeap
    r.1.toOption = some 1 ∧ r.2.lst 1 = [3, 4, 5, 6] ∧ r.2.lst 0 = [0, 1, 2] ∧ (r.2.msg 4).ty = .wait ∧ (r.2.msg 4).time = 24
      ∧ (r.2.msg 5).time = pyNone ∧ (r.2.msg 1).time = 24 := by decide +kernel

/-- `normalise_relative` of `exNormHeap`: the two leading waits are consolidated into a NEW WAIT 24 (cell 5; the receiver's WAIT 10 keeps its time),
    the kept messages 2, 4 are the receiver's OWN objects, the inner wait is replaced by a new WAIT 72 (cell 6) -/
example : let r := relativeSequenceNormaliseRelative HeapTie2.exG 0 0 exNormHeap
    r.1.toOption = some () ∧ r.2.lst 0 = [5, 2, 6, 4] ∧ (r.2.msg 5).time = 24 ∧ (r.2.msg 0).time = 10 ∧ (r.2.msg 6).time = 72 := by decide +kernel

/-- `pad(200)` of `HeapTie2.exSplitHeap` (duration 96): ONE new WAIT 104 appended; the trailing WAIT 72 of the receiver keeps its time -/
example : let r := relativeSequencePad HeapTie2.exG 0 0 200 HeapTie2.exSplitHeap
    r.1.toOption = some () ∧ r.2.lst 0 = [0, 1, 2, 3, 4] ∧ (r.2.msg 4).time = 104 ∧ (r.2.msg 3).time = 72 := by decide +kernel

/-- the hypotheses of `toRel_ok`, `normalise_ok`, `pad_ok` on the examples -/
example : ∀ i ∈ exAbsHeap.lst 0, i < exAbsHeap.nMsg ∧ (exAbsHeap.msg i).time ≠ pyNone := by decide
example : ∀ i ∈ exNormHeap.lst 0, i < exNormHeap.nMsg ∧ ((exNormHeap.msg i).ty = .wait → (exNormHeap.msg i).time ≠ pyNone) := by decide
example : ∀ i ∈ HeapTie2.exSplitHeap.lst 0, (HeapTie2.exSplitHeap.msg i).ty = .wait → (HeapTie2.exSplitHeap.msg i).time ≠ pyNone := by decide
/-- the hypotheses of `normalise_spec` / `pad_spec` with the region of `C16c.op_frame` (`HeapTie2.exSeqHeap`: a `Sequence` on the example view) -/
example : Good (ReachR HeapTie2.exSeqHeap [(.seq, 0)]) HeapTie2.exSeqHeap ∧ In (ReachR HeapTie2.exSeqHeap [(.seq, 0)]) HeapTie2.exSeqHeap (.lst, 0) :=
  ⟨good_reachR _ _ (by decide), ⟨Or.inl (by decide), by decide⟩⟩
/-- the hypothesis of `toAbs_spec` / `toRel_spec` with the region of freshness -/
example : Good (Fresh exAbsHeap) exAbsHeap := good_fresh _

/-- "the result of a conversion may share a message object with the receiver" is what a conversion WITHOUT `.copy()` would do
    (tools/test_py2lean_heap3.sh b1, b4); of the translated methods it is refuted on every heap by `toAbs_result` / `toRel_result`: -/
theorem conv_shares_nothing (g : GOrc) (tag l : Nat) (h : Heap) (hm : ∀ i ∈ h.lst l, i < h.nMsg) :
    (∀ p, (relativeSequenceToAbsoluteSequence g tag l h).1 = .ok p → ∀ i ∈ (relativeSequenceToAbsoluteSequence g tag l h).2.lst p, i ∉ h.lst l)
    ∧ (∀ p, (absoluteSequenceToRelativeSequence g tag l h).1 = .ok p → ∀ i ∈ (absoluteSequenceToRelativeSequence g tag l h).2.lst p, i ∉ h.lst l) := by
  refine ⟨fun p hok i hi hmem => ?_, fun p hok i hi hmem => ?_⟩
  · have := ((toAbs_result g tag l h p hok).fresh i hi).1
    have := hm i hmem
    omega
  · have := ((toRel_result g tag l h p hok).fresh i hi).1
    have := hm i hmem
    omega

end SCoda.HeapTie3

