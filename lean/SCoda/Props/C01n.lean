/-
  C01 (tokeniser round trip), the duration clause with the D15 carve-out narrowed — closes audit round 2, item A4a / F5
  ("`HasTail` is wider than the failing class of D15 for the duration clause"), row C01 of its section D table.

  `C01c.HasTail` carves out every piece in which a note extends beyond the first bar line at or after the last onset.
  But when the latest note end lies exactly ON the end of the last bar (4/4, one note [0,96); notes [0,96),[96,192)) the
  detokenised duration is right (replayed on the library: durations 96 and 192): D15 only shortens the duration when the
  latest note end is not the end of the last bar.  Here:
  * `duration_le`: for ALL valid pieces no returned sequence lasts longer than the end of the last bar (no carve-out);
  * `duration_seq`: sequence `i` lasts exactly to the end of the last bar when the piece is outside `HasTail` OR a note of
    track `i` ends there;
  * `duration_no_tail'`: outside the narrowed class `HasTail'` = `HasTail` ∧ "the latest note end is not the end of the last
    bar" the duration of the piece — its longest returned sequence, which is what harness/props/C01.py checks — is the end
    of the last bar; for a one-track piece that is the duration of the returned sequence (`duration_no_tail_single`);
  * two sharper readings are FALSE, of the model and of the library (both replayed):
    `duration_each_statement_false` — "EVERY sequence lasts to the end of the last bar" outside `HasTail'` (two tracks, notes
    [0,96) and [0,24): the library returns durations 96 and 24);
    `duration_pieceEnd_statement_false` — narrowing by "the end of the PIECE is a bar end" instead of the latest NOTE end (one
    note [0,48), a rest, a key signature at tick 96: the piece ends on the bar line 96, the library returns duration 48).
-/
import SCoda.Props.C01c
import SCoda.Lemmas.C01NarrowL
namespace SCoda.C01n
open SCoda SCoda.C01 SCoda.ExtractL SCoda.C01c

/-- the latest note end of the piece (`0` for a piece without notes) -/
def noteEnd (tracks : List (List Msg)) : Int := listMax ((pieceNotes tracks).map (·.off))

/-- **the failing class of D15 for the duration clause**: the piece is in `HasTail` (it does not end in a rest and a note
    extends beyond the first bar line at or after the last onset) AND its latest note end is not the end of the last bar.
    Input-level and decidable. -/
def HasTail' (c : Cfg) (tracks : List (List Msg)) : Prop :=
  HasTail c tracks ∧ noteEnd tracks ≠ lastBarEnd c tracks

instance (c : Cfg) (tracks : List (List Msg)) : Decidable (HasTail' c tracks) := by unfold HasTail'; infer_instance

/-- the narrowed class is contained in the old one -/
theorem hasTail_of_hasTail' (c : Cfg) (tracks : List (List Msg)) (h : HasTail' c tracks) : HasTail c tracks := h.1

/-- **duration, upper bound, no carve-out** (audit round 2 A4a): for ALL valid pieces — D15's class included — no sequence
    returned by `detokenise` lasts longer than the end of the last bar -/
theorem duration_le (c : Cfg) (hc : CfgOk c) (hn : 0 < c.numTracks) (g : Int) (tracks : List (List Msg))
    (hv : ValidTracks c g tracks) (toks : List Tok) (st' : TokSt)
    (h : tokeniseCore c (TokSt.init c) (extract c.ppqn tracks) = .ok (toks, st')) :
    ∃ seqs, detokenise c toks = .ok seqs ∧ seqs.length = c.numTracks ∧
      ∀ (i : Nat) (s : List Msg), seqs[i]? = some s → durAbs s ≤ lastBarEnd c tracks := by
  obtain ⟨seqs, h1, h2, h3⟩ := C01NarrowL.seq_facts c hc hn g tracks hv toks st' h
  refine ⟨seqs, h1, h2, fun i s hs => ?_⟩
  obtain ⟨_, hle, _, _⟩ := h3 i s hs
  have h0 : 0 ≤ lastBarEnd c tracks := by
    have := (C01NarrowL.clock_le c hc g tracks hv).2
    have := pieceEnd_nonneg tracks
    omega
  exact C01NarrowL.durAbs_le s _ h0 (fun m hm => (hle m hm).2)

/-- **duration, sequence by sequence** (closes audit round 2 A4a): sequence `i` returned by `detokenise` lasts exactly to
    the end of the last bar whenever the piece is outside D15's class `HasTail` OR some note of track `i` ends at the end of
    the last bar.  (Otherwise it may stop short: `duration_each_statement_false`.) -/
theorem duration_seq (c : Cfg) (hc : CfgOk c) (hn : 0 < c.numTracks) (g : Int) (tracks : List (List Msg))
    (hv : ValidTracks c g tracks) (toks : List Tok) (st' : TokSt)
    (h : tokeniseCore c (TokSt.init c) (extract c.ppqn tracks) = .ok (toks, st')) :
    ∃ seqs, detokenise c toks = .ok seqs ∧ seqs.length = c.numTracks ∧
      ∀ (i : Nat) (r s : List Msg), tracks[i]? = some r → seqs[i]? = some s →
        (¬ HasTail c tracks ∨ ∃ n ∈ trackNotes i r, n.off = lastBarEnd c tracks) → durAbs s = lastBarEnd c tracks := by
  obtain ⟨seqs, h1, h2, h3⟩ := C01NarrowL.seq_facts c hc hn g tracks hv toks st' h
  refine ⟨seqs, h1, h2, fun i r s hi hs hcase => ?_⟩
  obtain ⟨hsorted, hle, hnt, hoff⟩ := h3 i s hs
  refine durAbs_bounds s _ hsorted hle ?_
  rcases hcase with hno | ⟨n, hn', hnoff⟩
  · exact hnt hno
  · obtain ⟨m, hm, hmt⟩ := hoff r hi n hn'
    exact Or.inr ⟨m, hm, hmt.trans hnoff⟩

/-- **A4a — the duration clause on the exact complement of D15's failing class**: for valid tracks outside `HasTail'` (so:
    outside `HasTail`, or with the latest note end exactly on the end of the last bar) the duration of the detokenised piece
    is the end of the last bar `lastBarEnd`: no returned sequence lasts longer and one lasts exactly that long.  Closes audit
    round 2 item A4a / F5 (row C01): the whole-bar final note or chord without a final rest is covered. -/
theorem duration_no_tail' (c : Cfg) (hc : CfgOk c) (hn : 0 < c.numTracks) (g : Int) (tracks : List (List Msg))
    (hv : ValidTracks c g tracks) (hnt : ¬ HasTail' c tracks) (toks : List Tok) (st' : TokSt)
    (h : tokeniseCore c (TokSt.init c) (extract c.ppqn tracks) = .ok (toks, st')) :
    ∃ seqs, detokenise c toks = .ok seqs ∧ seqs.length = c.numTracks ∧
      (∀ (i : Nat) (s : List Msg), seqs[i]? = some s → durAbs s ≤ lastBarEnd c tracks) ∧
      ∃ (i : Nat) (s : List Msg), seqs[i]? = some s ∧ durAbs s = lastBarEnd c tracks := by
  obtain ⟨seqs, h1, h2, h3⟩ := C01NarrowL.seq_facts c hc hn g tracks hv toks st' h
  have h0 : 0 ≤ lastBarEnd c tracks := by
    have := (C01NarrowL.clock_le c hc g tracks hv).2
    have := pieceEnd_nonneg tracks
    omega
  refine ⟨seqs, h1, h2, fun i s hs => C01NarrowL.durAbs_le s _ h0 (fun m hm => ((h3 i s hs).2.1 m hm).2), ?_⟩
  have hlen : tracks.length = c.numTracks := hv.core.1
  -- a sequence exists at every track index
  have hget : ∀ i, i < c.numTracks → ∃ s, seqs[i]? = some s := fun i hi =>
    ⟨seqs[i]'(by omega), List.getElem?_eq_getElem (by omega)⟩
  have hzero : lastBarEnd c tracks = 0 → ∃ (i : Nat) (s : List Msg), seqs[i]? = some s ∧ durAbs s = lastBarEnd c tracks := by
    intro hz
    obtain ⟨s, hs⟩ := hget 0 hn
    obtain ⟨hsorted, hle, _, _⟩ := h3 0 s hs
    exact ⟨0, s, hs, durAbs_bounds s _ hsorted hle (Or.inl hz)⟩
  by_cases hT : HasTail c tracks
  · -- inside `HasTail`: the latest note end is the end of the last bar
    have hne : noteEnd tracks = lastBarEnd c tracks := by
      apply Classical.byContradiction
      intro hne; exact hnt ⟨hT, hne⟩
    obtain ⟨_, _, hmax⟩ := listMax_spec ((pieceNotes tracks).map (·.off))
    rcases hmax with hz | hmem
    · exact hzero (by rw [← hne]; exact hz)
    · obtain ⟨n, hnp, hoff⟩ := List.mem_map.1 hmem
      simp only [pieceNotes, List.mem_flatMap] at hnp
      obtain ⟨x, hx, hnx⟩ := hnp
      have hi : tracks[x.2]? = some x.1 := mem_zipIdx_get hx
      have hlt : x.2 < tracks.length := by
        rcases Nat.lt_or_ge x.2 tracks.length with h | h
        · exact h
        · rw [List.getElem?_eq_none h] at hi; cases hi
      obtain ⟨s, hs⟩ := hget x.2 (by omega)
      obtain ⟨hsorted, hle, _, hoffs⟩ := h3 x.2 s hs
      obtain ⟨m, hm, hmt⟩ := hoffs x.1 hi n hnx
      refine ⟨x.2, s, hs, durAbs_bounds s _ hsorted hle (Or.inr ⟨m, hm, ?_⟩)⟩
      rw [hmt, hoff]; exact hne
  · obtain ⟨s, hs⟩ := hget 0 hn
    obtain ⟨hsorted, hle, hno, _⟩ := h3 0 s hs
    exact ⟨0, s, hs, durAbs_bounds s _ hsorted hle (hno hT)⟩

/-- the one-track case (the audit's examples): the returned sequence lasts exactly to the end of the last bar -/
theorem duration_no_tail_single (c : Cfg) (hc : CfgOk c) (hn : c.numTracks = 1) (g : Int) (tracks : List (List Msg))
    (hv : ValidTracks c g tracks) (hnt : ¬ HasTail' c tracks) (toks : List Tok) (st' : TokSt)
    (h : tokeniseCore c (TokSt.init c) (extract c.ppqn tracks) = .ok (toks, st')) :
    ∃ s, detokenise c toks = .ok [s] ∧ durAbs s = lastBarEnd c tracks := by
  obtain ⟨seqs, h1, h2, _, i, s, hs, hd⟩ := duration_no_tail' c hc (by omega) g tracks hv hnt toks st' h
  rw [hn] at h2
  match seqs, h2 with
  | [s0], _ =>
    have hi : i = 0 := by
      rcases Nat.lt_or_ge i 1 with h | h
      · omega
      · rw [List.getElem?_eq_none (by simpa using h)] at hs; cases hs
    subst hi
    simp only [List.getElem?_cons_zero, Option.some.injEq] at hs
    subst hs
    exact ⟨s0, h1, hd⟩

/-! ## non-vacuity: the audit's boundary cases -/

/-- one track / two tracks, note values up to a whole 4/4 bar (96 ticks at 24 per quarter), one velocity bin -/
def nCfg1 : Cfg := { steps := [2, 3, 4, 6, 8, 12, 16, 24], values := [4, 6, 8, 9, 12, 16, 18, 24, 36, 48, 96], bins := [127] }
def nCfg2 : Cfg := { nCfg1 with numTracks := 2 }

/-- the audit's first example: one note [0,96), a whole bar, no final rest -/
def whole1 : List (List Msg) := [[Msg.mkOn 0 60 64 pyNone, Msg.mkWait 0 96, Msg.mkOff 0 60 pyNone]]
/-- the audit's second example: notes [0,96) and [96,192) -/
def whole2 : List (List Msg) :=
  [[Msg.mkOn 0 60 64 pyNone, Msg.mkWait 0 96, Msg.mkOff 0 60 pyNone, Msg.mkOn 0 62 64 pyNone, Msg.mkWait 0 96,
    Msg.mkOff 0 62 pyNone]]
/-- two tracks: a whole-bar note [0,96) and a short note [0,24), no final rests -/
def twoTr : List (List Msg) :=
  [[Msg.mkOn 0 60 64 pyNone, Msg.mkWait 0 96, Msg.mkOff 0 60 pyNone],
   [Msg.mkOn 1 62 64 pyNone, Msg.mkWait 1 24, Msg.mkOff 1 62 pyNone]]
/-- one note [0,48), a rest, and a key signature on the bar line 96 (so the piece does not end in a rest) -/
def keyEnd : List (List Msg) :=
  [[Msg.mkOn 0 60 64 pyNone, Msg.mkWait 0 48, Msg.mkOff 0 60 pyNone, Msg.mkWait 0 48, { ty := .keySignature, key := 3 }]]

/-- the durations of the detokenised sequences, for kernel evaluation -/
def durs (c : Cfg) (tracks : List (List Msg)) : Option (List Int) :=
  match tokeniseCore c (TokSt.init c) (extract c.ppqn tracks) with
  | .ok (toks, _) => (match detokenise c toks with
      | .ok seqs => some (seqs.map durAbs)
      | .error _ => none)
  | .error _ => none

theorem nCfg1_ok : CfgOk nCfg1 := by constructor <;> decide
theorem nCfg2_ok : CfgOk nCfg2 := by constructor <;> decide

/-- both of the audit's examples are valid pieces INSIDE `HasTail` (so `C01c.duration_no_tail` is silent) and OUTSIDE
    `HasTail'` (so `duration_no_tail'` applies); the end of the last bar is 96 resp. 192 … -/
example : ValidTracks nCfg1 2 whole1 ∧ HasTail nCfg1 whole1 ∧ ¬ HasTail' nCfg1 whole1 ∧ lastBarEnd nCfg1 whole1 = 96
    ∧ ValidTracks nCfg1 2 whole2 ∧ HasTail nCfg1 whole2 ∧ ¬ HasTail' nCfg1 whole2 ∧ lastBarEnd nCfg1 whole2 = 192 := by
  decide
/-- … and these are the detokenised durations (replayed on the library: 96 and 192) -/
example : durs nCfg1 whole1 = some [96] ∧ durs nCfg1 whole2 = some [192] := by decide

/-- D15's own examples stay excluded -/
example : HasTail' d15Cfg d15Tracks ∧ HasTail' d15Cfg a5Tracks := by decide

/-- the two-track piece is outside `HasTail'` as well: its longest sequence lasts to the end of the last bar, the other
    one does not (replayed on the library: durations 96 and 24) -/
example : ValidTracks nCfg2 2 twoTr ∧ HasTail nCfg2 twoTr ∧ ¬ HasTail' nCfg2 twoTr ∧ lastBarEnd nCfg2 twoTr = 96
    ∧ durs nCfg2 twoTr = some [96, 24] := by decide

/-! ## two sharper readings are false -/

/-- "outside `HasTail'` EVERY returned sequence lasts to the end of the last bar" (the per-sequence form of
    `C01c.duration_no_tail` with the narrowed carve-out) — FALSE, see `duration_each_statement_false`; the true per-sequence
    statement is `duration_seq` -/
def duration_each_statement : Prop :=
  ∀ (c : Cfg) (_ : CfgOk c) (_ : 0 < c.numTracks) (g : Int) (tracks : List (List Msg)) (_ : ValidTracks c g tracks)
    (_ : ¬ HasTail' c tracks) (toks : List Tok) (st' : TokSt)
    (_ : tokeniseCore c (TokSt.init c) (extract c.ppqn tracks) = .ok (toks, st')),
    ∃ seqs, detokenise c toks = .ok seqs ∧
      ∀ (i : Nat) (s : List Msg), seqs[i]? = some s → durAbs s = lastBarEnd c tracks

/-- two tracks, notes [0,96) and [0,24): sequence 1 lasts 24 ticks, the last bar ends at 96 (kernel-checked on the model;
    replayed on the library: `detokenise` returns durations [96, 24]) -/
theorem duration_each_statement_false : ¬ duration_each_statement := by
  intro hst
  have hd : durs nCfg2 twoTr = some [96, 24] := by decide
  unfold durs at hd
  cases hr : tokeniseCore nCfg2 (TokSt.init nCfg2) (extract nCfg2.ppqn twoTr) with
  | error e => rw [hr] at hd; cases hd
  | ok p =>
    obtain ⟨toks, st'⟩ := p
    rw [hr] at hd
    simp only at hd
    obtain ⟨seqs, h1, h2⟩ := hst nCfg2 nCfg2_ok (by decide) 2 twoTr (by decide) (by decide) toks st' hr
    rw [h1] at hd
    simp only [Option.some.injEq] at hd
    have h24 : (seqs.map durAbs)[1]? = some 24 := by rw [hd]; rfl
    rw [List.getElem?_map, Option.map_eq_some_iff] at h24
    obtain ⟨s1, hs1, hd1⟩ := h24
    have := h2 1 s1 hs1
    have hl : lastBarEnd nCfg2 twoTr = 96 := by decide
    omega

/-- narrowing by the end of the PIECE instead of the latest NOTE end: "in `HasTail` but with the end of the piece on a bar
    end, the piece still lasts to the end of the last bar" — FALSE, see `duration_pieceEnd_statement_false` -/
def duration_pieceEnd_statement : Prop :=
  ∀ (c : Cfg) (_ : CfgOk c) (_ : 0 < c.numTracks) (g : Int) (tracks : List (List Msg)) (_ : ValidTracks c g tracks)
    (_ : ¬ (HasTail c tracks ∧ pieceEnd tracks ≠ lastBarEnd c tracks)) (toks : List Tok) (st' : TokSt)
    (_ : tokeniseCore c (TokSt.init c) (extract c.ppqn tracks) = .ok (toks, st')),
    ∃ seqs, detokenise c toks = .ok seqs ∧
      ∃ (i : Nat) (s : List Msg), seqs[i]? = some s ∧ durAbs s = lastBarEnd c tracks

/-- one note [0,48), a rest, a key signature at tick 96: the piece ends on the bar line 96 = the end of the last bar, but a
    key signature moves no tokeniser clock, so the detokenised sequence lasts 48 ticks (kernel-checked on the model; replayed
    on the library: duration 48).  The piece is inside `HasTail'` (latest note end 48 ≠ 96): D15's class, correctly. -/
theorem duration_pieceEnd_statement_false : ¬ duration_pieceEnd_statement := by
  intro hst
  have hd : durs nCfg1 keyEnd = some [48] := by decide
  unfold durs at hd
  cases hr : tokeniseCore nCfg1 (TokSt.init nCfg1) (extract nCfg1.ppqn keyEnd) with
  | error e => rw [hr] at hd; cases hd
  | ok p =>
    obtain ⟨toks, st'⟩ := p
    rw [hr] at hd
    simp only at hd
    obtain ⟨seqs, h1, i, s, hs, hds⟩ := hst nCfg1 nCfg1_ok (by decide) 2 keyEnd (by decide) (by decide) toks st' hr
    rw [h1] at hd
    simp only [Option.some.injEq] at hd
    have hi : (seqs.map durAbs)[i]? = some (durAbs s) := by rw [List.getElem?_map, hs]; rfl
    rw [hd] at hi
    have hl : lastBarEnd nCfg1 keyEnd = 96 := by decide
    cases i with
    | zero => simp at hi; omega
    | succ j => simp at hi

example : ValidTracks nCfg1 2 keyEnd ∧ HasTail' nCfg1 keyEnd ∧ pieceEnd keyEnd = lastBarEnd nCfg1 keyEnd := by decide

end SCoda.C01n
