/-
  C16 — copies and derived sequences are independent values, over the concrete heap of
  `Model/HeapOps.lean` (closes audit item A2).

  Every mutable object of the modelled files is a cell with an identity (messages, view objects with
  their `_messages` list, `Sequence` wrappers with both view pointers and both stale flags, bars,
  tracks, compositions).  The operations follow the Python source with respect to identity; value
  decisions come from an arbitrary oracle `o : Orc`, and every theorem holds for all oracles.

  * `derive_fresh_*`   what a derivation route returns reaches only cells the call allocated
                       (proved from the definitions of the operations)
  * `op_frame`         a public operation writes only cells reachable from the objects it is applied to
                       (receiver and object-valued arguments), for every operation of `HOp`
  * `independent`      for every history (a list over the concrete operation type `HOp`) run on roots
                       whose reachable cells are disjoint from those of `x`, every cell reachable from `x`
                       is unchanged: both views' message values and both flags of every sequence of `x`
  * `derived_independent`  the two combined, for every derivation route, in both directions
  * `copy_equal`       what is read through the copy's views equals what is read through the original's
  * `unrepaired_split_not_independent`  the negative control (D13)
-/
import SCoda.Lemmas.HeapL
namespace SCoda.C16c
open SCoda SCoda.HeapOps SCoda.HeapL

/-- every cell reachable from the roots is allocated: no dangling identity (a decidable condition on
    the input heap; it holds of every heap the operations build, `run_allocAll`) -/
def AllocAll (h : Heap) (roots : List Cell) : Prop := ∀ c ∈ reachAll h roots, h.alloc c

instance (h : Heap) (roots : List Cell) : Decidable (AllocAll h roots) := by unfold AllocAll; infer_instance

def Disjoint (xs ys : List Cell) : Prop := ∀ c ∈ xs, c ∉ ys

instance (xs ys : List Cell) : Decidable (Disjoint xs ys) := by unfold Disjoint; infer_instance

/-- the cells `cs` have the same content in `h'` as in `h` -/
def Unchanged (h h' : Heap) (cs : List Cell) : Prop := ∀ c ∈ cs, h'.get c = h.get c

/-- the cells `cs` were allocated between `h` and `h'` -/
def FreshCells (h h' : Heap) (cs : List Cell) : Prop := ∀ c ∈ cs, ¬ h.alloc c ∧ h'.alloc c

/-! ## (a) derivation routes return fresh cells -/

/-- an operation that respects every good region without any hypothesis on its arguments returns
    fresh cells only and writes no existing cell -/
theorem fresh_of_spec {h h' : Heap} {r : Cell}
    (hsp : Spec (Fresh h) h h' ∧ In (Fresh h) h' r) :
    FreshCells h h' (reach h' r) ∧ ∀ c, h.alloc c → h'.get c = h.get c := by
  obtain ⟨s1, i1⟩ := hsp
  refine ⟨?_, ?_⟩
  · intro c hc
    exact reach_in s1.good i1 c hc
  · intro c hc
    exact s1.pres.same c (fun hn => hn hc)

/-- `Message.copy()`: the result is a new message; nothing existing is written. (A2) -/
theorem derive_fresh_msgCopy (h : Heap) (i : Nat) :
    FreshCells h (msgCopy h i).1 (reach (msgCopy h i).1 (.msg, (msgCopy h i).2))
      ∧ ∀ c, h.alloc c → (msgCopy h i).1.get c = h.get c :=
  fresh_of_spec (msgCopy_spec (good_fresh h) i)

/-- `Sequence.copy()`: the wrapper, both view objects and every message reachable from the copy were
    allocated by the call; nothing existing is written. (A2) -/
theorem derive_fresh_seqCopy (h : Heap) (s : Nat) :
    FreshCells h (seqCopy h s).1 (reach (seqCopy h s).1 (.seq, (seqCopy h s).2))
      ∧ ∀ c, h.alloc c → (seqCopy h s).1.get c = h.get c :=
  fresh_of_spec (seqCopy_spec (good_fresh h) s)

/-! `Bar.copy()`, `Track.copy()`, `Composition.copy()`: since the second repair of D37 `Bar.copy` READS the relative view of the
    source bar's sequence (`self.sequence.rel`, bar.py:59), which regenerates a stale one — a write of the source's wrapper
    cell.  Their freshness statements (`derive_fresh_barCopy`, `derive_fresh_trkCopy`, `derive_fresh_cmpCopy`) therefore carry the
    allowance `derive_fresh_split` has, and are proved after the separation lemmas below. -/

/-- `Sequence.sequences_split_bars(inputs, meta, quantise_note_lengths)` with either re-quantisation
    setting: every bar returned reaches only cells the call allocated, and no existing cell — in
    particular no input sequence — is written. (A2) -/
theorem derive_fresh_splitBars (o : Orc) (tag : Nat) (qnl : Bool) (fuel : Nat) (h : Heap) (inputs : List Nat) (mti : Nat) :
    (∀ bs ∈ (splitBars o tag qnl fuel h inputs mti).2, ∀ b ∈ bs,
        FreshCells h (splitBars o tag qnl fuel h inputs mti).1 (reach (splitBars o tag qnl fuel h inputs mti).1 (.bar, b)))
      ∧ ∀ c, h.alloc c → (splitBars o tag qnl fuel h inputs mti).1.get c = h.get c := by
  obtain ⟨s1, i1⟩ := splitBars_spec (o := o) (good_fresh h) tag qnl fuel inputs mti
  refine ⟨?_, ?_⟩
  · intro bs hbs b hb c hc
    exact reach_in s1.good (i1 bs hbs b hb) c hc
  · intro c hc
    exact s1.pres.same c (fun hn => hn hc)

/-- `Composition.from_sequences(sequences, meta)`. (A2) -/
theorem derive_fresh_cmpFromSequences (o : Orc) (tag fuel : Nat) (h : Heap) (inputs : List Nat) (mti : Nat) :
    FreshCells h (cmpFromSequences o tag fuel h inputs mti).1
        (reach (cmpFromSequences o tag fuel h inputs mti).1 (.cmp, (cmpFromSequences o tag fuel h inputs mti).2))
      ∧ ∀ c, h.alloc c → (cmpFromSequences o tag fuel h inputs mti).1.get c = h.get c :=
  fresh_of_spec (cmpFromSequences_spec (good_fresh h) tag fuel inputs mti)

/-- `Sequence.split(capacities)` after the repair of D13: every piece reaches only cells the call
    allocated, none of them reachable from the source afterwards; the source itself may be written
    (its relative view is regenerated if stale) but only in cells reachable from it.
    Hypothesis: the source has no dangling identity. (A2) -/
theorem derive_fresh_split (o : Orc) (tag : Nat) (h : Heap) (s : Nat) (hall : AllocAll h [(.seq, s)]) :
    (∀ p ∈ (split o tag h s).2, ∀ c ∈ reach (split o tag h s).1 (.seq, p),
        ¬ h.alloc c ∧ (split o tag h s).1.alloc c ∧ c ∉ reach (split o tag h s).1 (.seq, s))
      ∧ ∀ c, h.alloc c → c ∉ reach h (.seq, s) → (split o tag h s).1.get c = h.get c := by
  have hg := good_reachR h [(.seq, s)] hall
  have hs : In (ReachR h [(.seq, s)]) h (.seq, s) := in_reachR hall (by simp)
  refine ⟨?_, ?_⟩
  · obtain ⟨s1, i1⟩ := getRel_spec (o := o) hg hs
    unfold split
    simp only
    split
    · simp
    · rename_i l hl
      obtain ⟨s2, _⟩ := splitView_spec s1.good (o.splitPlan tag) (i1 l hl)
      have s12 := s1.trans s2
      -- the source, in the heap before the pieces are copied
      have hsrc := reach_in s12.good (hs.mono s12.pres)
      obtain ⟨s3, i3⟩ := wrapCopies_spec (good_fresh (splitView (o.splitPlan tag) (getRel o h s).1 l).1)
        (splitView (o.splitPlan tag) (getRel o h s).1 l).2
      have hsame : reach (wrapCopies (splitView (o.splitPlan tag) (getRel o h s).1 l).1
            (splitView (o.splitPlan tag) (getRel o h s).1 l).2).1 (.seq, s)
          = reach (splitView (o.splitPlan tag) (getRel o h s).1 l).1 (.seq, s) := by
        apply reach_congr
        intro c hc
        exact s3.pres.same c (fun hn => hn (hsrc c hc).2)
      intro p hp c hc
      have hfresh := reach_in s3.good (i3 p hp) c hc
      refine ⟨fun ha => hfresh.1 (alloc_mono s12.pres.le ha), hfresh.2, ?_⟩
      rw [hsame]
      intro hmem
      exact hfresh.1 (hsrc c hmem).2
  · obtain ⟨s1, _⟩ := split_spec (o := o) hg tag hs
    intro c hc hn
    apply s1.pres.same c
    rintro (hx | hx)
    · simp only [reachAll, List.flatMap_cons, List.flatMap_nil, List.append_nil] at hx
      exact hn hx
    · exact hx hc

/-! ## (b) frame: an operation writes only what is reachable from the objects it is applied to -/

/-- **frame**, for every public operation of `HOp`: a cell that was allocated and is not reachable from
    the receiver or an object-valued argument keeps its content; and whatever the receiver, the
    arguments and the results reach afterwards was reachable from the receiver or the arguments before,
    or was allocated by the call.  (For the sharers `concatenate`, `merge`, `Bar.to_sequence` the
    arguments count: that is the documented sharing.) (A2) -/
theorem op_frame (o : Orc) (op : HOp) (h : Heap) (env : List Cell) (hall : AllocAll h (opRoots env op)) :
    (∀ c, h.alloc c → c ∉ reachAll h (opRoots env op) → (step o op (h, env)).1.get c = h.get c)
      ∧ (∀ r ∈ (step o op (h, env)).2, r ∈ env ∨
          ∀ c ∈ reach (step o op (h, env)).1 r, c ∈ reachAll h (opRoots env op) ∨ ¬ h.alloc c)
      ∧ (∀ r ∈ opRoots env op,
          ∀ c ∈ reach (step o op (h, env)).1 r, c ∈ reachAll h (opRoots env op) ∨ ¬ h.alloc c) := by
  have hg := good_reachR h _ hall
  obtain ⟨s1, e1⟩ := step_spec (o := o) (env := env) hg op (fun c hc => in_reachR hall hc)
  refine ⟨?_, ?_, ?_⟩
  · intro c hc hn
    apply s1.pres.same c
    rintro (hx | hx)
    · exact hn hx
    · exact hx hc
  · intro r hr
    rcases e1 r hr with hr | hr
    · exact Or.inl hr
    · right
      intro c hc
      exact (reach_in s1.good hr c hc).1
  · intro r hr c hc
    exact (reach_in s1.good ((in_reachR hall hr).mono s1.pres) c hc).1

/-! ## (c) independence under histories -/

/-- **independence**: let `x` be any object (sequence, bar, track, composition) and `W` the objects a
    caller holds, such that nothing reachable from `W` is reachable from `x`.  After ANY history of
    public operations run from `W` (every operation applied to objects of `W` or to results of
    earlier operations of the history): every cell reachable from `x` has the content it had, `x`
    reaches the same cells, every `Sequence` inside `x` shows the same message values through both of
    its views and the same two flags, and the two sides are still disjoint.  By symmetry of the
    statement the same holds with the roles exchanged. (A2) -/
theorem independent (o : Orc) (h : Heap) (W : List Cell) (x : Cell) (ops : List HOp)
    (hW : AllocAll h W) (hx : AllocAll h [x]) (hdis : Disjoint (reach h x) (reachAll h W)) :
    Unchanged h (run o ops (h, W)).1 (reach h x)
      ∧ reach (run o ops (h, W)).1 x = reach h x
      ∧ (∀ s, (Kind.seq, s) ∈ reach h x → snap (run o ops (h, W)).1 s = snap h s)
      ∧ Disjoint (reach (run o ops (h, W)).1 x) (reachAll (run o ops (h, W)).1 (run o ops (h, W)).2)
      ∧ AllocAll (run o ops (h, W)).1 (run o ops (h, W)).2
      ∧ AllocAll (run o ops (h, W)).1 [x] := by
  have hg := good_reachR h W hW
  have henv : EnvIn (ReachR h W) h W := fun c hc => in_reachR hW hc
  obtain ⟨s1, e1⟩ := run_spec (o := o) hg henv ops
  have hxa : ∀ c ∈ reach h x, h.alloc c := by
    intro c hc
    apply hx
    simpa [reachAll] using hc
  have hout : ∀ c ∈ reach h x, ¬ ReachR h W c := by
    rintro c hc (hw | hn)
    · exact hdis c hc hw
    · exact hn (hxa c hc)
  have hun : Unchanged h (run o ops (h, W)).1 (reach h x) := fun c hc => s1.pres.same c (hout c hc)
  have hreach : reach (run o ops (h, W)).1 x = reach h x := reach_congr x hun
  refine ⟨hun, hreach, ?_, ?_, ?_, ?_⟩
  · intro s hs
    apply snap_congr
    intro c hc
    exact hun c (reach_trans hs c hc)
  · intro c hc hw
    rw [hreach] at hc
    obtain ⟨r, hr, hcr⟩ := mem_reachAll.1 hw
    exact hout c hc (reach_in s1.good (e1 r hr) c hcr).1
  · intro c hc
    obtain ⟨r, hr, hcr⟩ := mem_reachAll.1 hc
    exact (reach_in s1.good (e1 r hr) c hcr).2
  · intro c hc
    simp only [reachAll, List.flatMap_cons, List.flatMap_nil, List.append_nil] at hc
    rw [hreach] at hc
    exact alloc_mono s1.pres.le (hxa c hc)

/-- `AllocAll` is an invariant of histories: what the caller holds after any history has no dangling
    identity if what it held before had none (in particular every state built from the empty heap) -/
theorem run_allocAll (o : Orc) (ops : List HOp) (h : Heap) (env : List Cell) (hall : AllocAll h env) :
    AllocAll (run o ops (h, env)).1 (run o ops (h, env)).2 := by
  obtain ⟨s1, e1⟩ := run_spec (o := o) (good_reachR h env hall) (fun c hc => in_reachR hall hc) ops
  intro c hc
  obtain ⟨r, hr, hcr⟩ := mem_reachAll.1 hc
  exact (reach_in s1.good (e1 r hr) c hcr).2

example (o : Orc) (ops : List HOp) : AllocAll (run o ops (Heap.empty, [])).1 (run o ops (Heap.empty, [])).2 :=
  run_allocAll o ops Heap.empty [] (by intro c hc; simp [reachAll] at hc)

/-! ## histories on BOTH sides, interleaved -/

/-- two callers whose objects share no cell and have no dangling identity -/
def Sep (h : Heap) (A B : List Cell) : Prop :=
  AllocAll h A ∧ AllocAll h B ∧ Disjoint (reachAll h A) (reachAll h B)

theorem Sep.symm {h : Heap} {A B : List Cell} (hs : Sep h A B) : Sep h B A :=
  ⟨hs.2.1, hs.1, fun c hc hca => hs.2.2 c hca hc⟩

theorem reachAll_sub {h : Heap} {A A' : List Cell} (hs : ∀ c ∈ A', c ∈ A) : ∀ c ∈ reachAll h A', c ∈ reachAll h A := by
  intro c hc
  obtain ⟨r, hr, hcr⟩ := mem_reachAll.1 hc
  exact mem_reachAll.2 ⟨r, hs r hr, hcr⟩

theorem Sep.mono {h : Heap} {A A' B B' : List Cell} (hA : ∀ c ∈ A', c ∈ A) (hB : ∀ c ∈ B', c ∈ B) (hs : Sep h A B) :
    Sep h A' B' :=
  ⟨fun c hc => hs.1 c (reachAll_sub hA c hc), fun c hc => hs.2.1 c (reachAll_sub hB c hc),
    fun c hc hcb => hs.2.2 c (reachAll_sub hA c hc) (reachAll_sub hB c hcb)⟩

/-- cells reachable from `A` may be held as roots of `A` as well -/
theorem Sep.add_roots {h : Heap} {A B more : List Cell} (hs : Sep h A B) (hm : ∀ c ∈ more, c ∈ reachAll h A) :
    Sep h (A ++ more) B := by
  have hsub : ∀ c ∈ reachAll h (A ++ more), c ∈ reachAll h A := by
    intro c hc
    obtain ⟨r, hr, hcr⟩ := mem_reachAll.1 hc
    rcases List.mem_append.1 hr with hr | hr
    · exact mem_reachAll.2 ⟨r, hr, hcr⟩
    · obtain ⟨x, hx, hrx⟩ := mem_reachAll.1 (hm r hr)
      exact mem_reachAll.2 ⟨x, hx, reach_trans hrx c hcr⟩
  exact ⟨fun c hc => hs.1 c (hsub c hc), hs.2.1, fun c hc hcb => hs.2.2 c (hsub c hc) hcb⟩

/-- the separation of a source side `E` and a result side `R`, the result side made of cells that did not exist in `h0` -/
def DSep (h0 h : Heap) (E R : List Cell) : Prop :=
  Sep h E R ∧ (∀ k, h0.next k ≤ h.next k) ∧ ∀ c ∈ reachAll h R, ¬ h0.alloc c

/-- a step that respects the region of side `A` (and may return new roots for it) keeps the separation and leaves every
    cell of `B` unchanged (the argument of `step_sep`, for any heap transformer) -/
theorem sep_step {h h' : Heap} {A B more : List Cell} (hsep : Sep h A B) (hsp : Spec (ReachR h A) h h')
    (hin : ∀ c ∈ more, In (ReachR h A) h' c) :
    Sep h' (A ++ more) B ∧ Unchanged h h' (reachAll h B) ∧ reachAll h' B = reachAll h B
      ∧ ∀ c ∈ reachAll h' (A ++ more), In (ReachR h A) h' c := by
  obtain ⟨hA, hB, hdis⟩ := hsep
  have e1 : ∀ c ∈ A ++ more, In (ReachR h A) h' c := by
    intro c hc
    rcases List.mem_append.1 hc with hc | hc
    · exact (in_reachR hA hc).mono hsp.pres
    · exact hin c hc
  have hout : ∀ c ∈ reachAll h B, ¬ ReachR h A c := by
    rintro c hc (hw | hn)
    · exact hdis c hw hc
    · exact hn (hB c hc)
  have hun : Unchanged h h' (reachAll h B) := fun c hc => hsp.pres.same c (hout c hc)
  have hsame := reachAll_congr (h' := h') B hun
  have hall : ∀ c ∈ reachAll h' (A ++ more), In (ReachR h A) h' c := by
    intro c hc
    obtain ⟨r, hr, hcr⟩ := mem_reachAll.1 hc
    exact reach_in hsp.good (e1 r hr) c hcr
  refine ⟨⟨?_, ?_, ?_⟩, hun, hsame, hall⟩
  · intro c hc
    exact (hall c hc).2
  · intro c hc
    rw [hsame] at hc
    exact alloc_mono hsp.pres.le (hB c hc)
  · intro c hc hcb
    rw [hsame] at hcb
    exact hout c hcb (hall c hc).1

/-- a step of the SOURCE side (no new roots): e.g. the read of a relative view -/
theorem dsep_step_src {h0 h h' : Heap} {E R : List Cell} (hd : DSep h0 h E R) (hsp : Spec (ReachR h E) h h') :
    DSep h0 h' E R := by
  obtain ⟨hsep, hle, hfr⟩ := hd
  obtain ⟨s1, _, hsame, _⟩ := sep_step (more := []) hsep hsp (by simp)
  rw [List.append_nil] at s1
  exact ⟨s1, fun k => Nat.le_trans (hle k) (hsp.pres.le k), fun c hc => hfr c (hsame ▸ hc)⟩

/-- a step of the RESULT side that returns the new roots `more`: e.g. `Track(bars)` on copied bars -/
theorem dsep_step_res {h0 h h' : Heap} {E R more : List Cell} (hd : DSep h0 h E R) (hsp : Spec (ReachR h R) h h')
    (hin : ∀ c ∈ more, In (ReachR h R) h' c) : DSep h0 h' E (R ++ more) := by
  obtain ⟨hsep, hle, hfr⟩ := hd
  obtain ⟨s1, _, _, hall⟩ := sep_step hsep.symm hsp hin
  refine ⟨s1.symm, fun k => Nat.le_trans (hle k) (hsp.pres.le k), ?_⟩
  intro c hc
  rcases (hall c hc).1 with hw | hn
  · exact hfr c hw
  · exact fun ha => hn (alloc_mono hle ha)

/-- a step that writes no cell that existed and returns a root made of new cells only: it joins the result side -/
theorem dsep_fresh {h0 h h' : Heap} {E R : List Cell} {r : Cell} (hd : DSep h0 h E R) (hsp : Spec (Fresh h) h h')
    (hr : In (Fresh h) h' r) : DSep h0 h' E (R ++ [r]) := by
  obtain ⟨⟨hE, hR, hdis⟩, hle, hfr⟩ := hd
  have hsE := reachAll_congr (h' := h') E (fun c hc => hsp.same_alloc c (hE c hc))
  have hsR := reachAll_congr (h' := h') R (fun c hc => hsp.same_alloc c (hR c hc))
  have hnew : ∀ c ∈ reach h' r, ¬ h.alloc c ∧ h'.alloc c := fun c hc => reach_in hsp.good hr c hc
  have hsplit : ∀ c ∈ reachAll h' (R ++ [r]), c ∈ reachAll h R ∨ c ∈ reach h' r := by
    intro c hc
    obtain ⟨x, hx, hcx⟩ := mem_reachAll.1 hc
    rcases List.mem_append.1 hx with hx | hx
    · exact Or.inl (hsR ▸ mem_reachAll.2 ⟨x, hx, hcx⟩)
    · simp only [List.mem_singleton] at hx
      subst hx
      exact Or.inr hcx
  refine ⟨⟨?_, ?_, ?_⟩, fun k => Nat.le_trans (hle k) (hsp.pres.le k), ?_⟩
  · intro c hc
    rw [hsE] at hc
    exact alloc_mono hsp.pres.le (hE c hc)
  · intro c hc
    rcases hsplit c hc with hc | hc
    · exact alloc_mono hsp.pres.le (hR c hc)
    · exact (hnew c hc).2
  · intro c hc hcr
    rw [hsE] at hc
    rcases hsplit c hcr with hcr | hcr
    · exact hdis c hc hcr
    · exact (hnew c hcr).1 (hE c hc)
  · intro c hc
    rcases hsplit c hc with hc | hc
    · exact hfr c hc
    · exact fun ha => (hnew c hc).1 (alloc_mono hle ha)

theorem DSep.mono {h0 h : Heap} {E E' R R' : List Cell} (hE : ∀ c ∈ E', c ∈ E) (hR : ∀ c ∈ R', c ∈ R) (hd : DSep h0 h E R) :
    DSep h0 h E' R' :=
  ⟨hd.1.mono hE hR, hd.2.1, fun c hc => hd.2.2 c (reachAll_sub hR c hc)⟩

theorem DSep.add_roots {h0 h : Heap} {E R more : List Cell} (hd : DSep h0 h E R) (hm : ∀ c ∈ more, c ∈ reachAll h E) :
    DSep h0 h (E ++ more) R :=
  ⟨hd.1.add_roots hm, hd.2.1, hd.2.2⟩

/-! ### the copies of bars, tracks and compositions: `Bar.copy()` first reads the relative view of the source bar's sequence
    (`self.sequence.rel`, bar.py:59 — a step of the SOURCE side: a stale view is regenerated), then copies the sequence and
    constructs the new bar (a step that writes nothing that existed) -/

theorem barCopy_dsep (o : Orc) (tag : Nat) {h0 h : Heap} {E R : List Cell} (b : Nat) (hd : DSep h0 h E R)
    (hb : (Kind.bar, b) ∈ E) :
    DSep h0 (barCopy o tag h b).1 E (R ++ [(.bar, (barCopy o tag h b).2)]) := by
  have hg := good_reachR h E hd.1.1
  have hs := bar_seq_in hg (in_reachR hd.1.1 hb)
  have s0 := readRel_spec (o := o) hg hs
  have d0 := dsep_step_src hd s0
  obtain ⟨s1, i1⟩ := barCopyFrom_spec (o := o) (good_fresh (readRel o h (h.bar b).seq)) tag (h.bar b).seq
    (h.bar b).num (h.bar b).den (h.bar b).key
  exact dsep_fresh d0 s1 i1

theorem barCopies_dsep (o : Orc) : ∀ (bs : List Nat) (tag : Nat) {h0 h : Heap} {E R : List Cell}, DSep h0 h E R →
    (∀ b ∈ bs, (Kind.bar, b) ∈ E) →
    DSep h0 (barCopies o tag h bs).1 E (R ++ cellsOf .bar (barCopies o tag h bs).2) := by
  intro bs
  induction bs with
  | nil => intro tag h0 h E R hd _; simpa [barCopies, cellsOf] using hd
  | cons b bs ih =>
    intro tag h0 h E R hd hb
    have d1 := barCopy_dsep o tag b hd (hb b (by simp))
    have d2 := ih (mix tag 3) d1 (fun b' hb' => hb b' (by simp [hb']))
    simpa [barCopies, cellsOf, List.append_assoc] using d2

theorem trkCopy_dsep (o : Orc) (tag : Nat) {h0 h : Heap} {E R : List Cell} (t : Nat) (hd : DSep h0 h E R)
    (ht : (Kind.trk, t) ∈ E) :
    ∃ extra, DSep h0 (trkCopy o tag h t).1 E (R ++ extra ++ [(.trk, (trkCopy o tag h t).2)]) := by
  have hg := good_reachR h E hd.1.1
  have hbars : ∀ c ∈ cellsOf .bar (h.trk t).bars, c ∈ reachAll h E := by
    intro c hc
    simp only [cellsOf, List.mem_map] at hc
    obtain ⟨b, hb, rfl⟩ := hc
    rcases (trk_bars_in hg (in_reachR hd.1.1 ht) b hb).1 with hw | hn
    · exact hw
    · exact absurd (trk_bars_in hg (in_reachR hd.1.1 ht) b hb).2 hn
  have d1 := barCopies_dsep o (h.trk t).bars tag (hd.add_roots hbars)
    (fun b hb => List.mem_append_right _ (by simp only [cellsOf, List.mem_map]; exact ⟨b, hb, rfl⟩))
  have d2 : DSep h0 (barCopies o tag h (h.trk t).bars).1 E (R ++ cellsOf .bar (barCopies o tag h (h.trk t).bars).2) :=
    d1.mono (fun c hc => List.mem_append_left _ hc) (fun _ hc => hc)
  -- `Track(copied bars, name)`: a step of the result side
  have hgR := good_reachR _ _ d2.1.2.1
  obtain ⟨s3, i3⟩ := trkInit_spec (o := o) hgR (mix tag 4) (barCopies o tag h (h.trk t).bars).2 (h.trk t).name
    (fun b hb => in_reachR d2.1.2.1 (List.mem_append_right _ (by simp only [cellsOf, List.mem_map]; exact ⟨b, hb, rfl⟩)))
  have d3 := dsep_step_res (more := [(.trk, (trkCopy o tag h t).2)]) d2 s3
    (by intro c hc; simp only [List.mem_singleton] at hc; subst hc; exact i3)
  exact ⟨_, d3⟩

theorem trkCopies_dsep (o : Orc) : ∀ (ts : List Nat) (tag : Nat) {h0 h : Heap} {E R : List Cell}, DSep h0 h E R →
    (∀ t ∈ ts, (Kind.trk, t) ∈ E) →
    ∃ R', DSep h0 (trkCopies o tag h ts).1 E R' ∧ (∀ c ∈ R, c ∈ R') ∧ ∀ c ∈ cellsOf .trk (trkCopies o tag h ts).2, c ∈ R' := by
  intro ts
  induction ts with
  | nil => intro tag h0 h E R hd _; exact ⟨R, by simpa [trkCopies] using hd, fun _ hc => hc, by simp [trkCopies, cellsOf]⟩
  | cons t ts ih =>
    intro tag h0 h E R hd ht
    obtain ⟨extra, d1⟩ := trkCopy_dsep o tag t hd (ht t (by simp))
    obtain ⟨R', d2, hsub, hnew⟩ := ih (mix tag 5) d1 (fun t' ht' => ht t' (by simp [ht']))
    refine ⟨R', by simpa [trkCopies] using d2, fun c hc => hsub c (by simp [hc]), ?_⟩
    intro c hc
    simp only [trkCopies, cellsOf, List.map_cons, List.mem_cons] at hc
    rcases hc with rfl | hc
    · exact hsub _ (by simp)
    · exact hnew c (by simpa [cellsOf] using hc)

theorem cmpCopy_dsep (o : Orc) (tag : Nat) {h0 h : Heap} {E R : List Cell} (c : Nat) (hd : DSep h0 h E R)
    (hc : (Kind.cmp, c) ∈ E) :
    ∃ R', DSep h0 (cmpCopy o tag h c).1 E R' ∧ (Kind.cmp, (cmpCopy o tag h c).2) ∈ R' := by
  have hg := good_reachR h E hd.1.1
  have htrks : ∀ x ∈ cellsOf .trk (h.cmp c), x ∈ reachAll h E := by
    intro x hx
    simp only [cellsOf, List.mem_map] at hx
    obtain ⟨t, ht, rfl⟩ := hx
    rcases (cmp_trks_in hg (in_reachR hd.1.1 hc) t ht).1 with hw | hn
    · exact hw
    · exact absurd (cmp_trks_in hg (in_reachR hd.1.1 hc) t ht).2 hn
  obtain ⟨R', d1, _, hnew⟩ := trkCopies_dsep o (h.cmp c) tag (hd.add_roots htrks)
    (fun t ht => List.mem_append_right _ (by simp only [cellsOf, List.mem_map]; exact ⟨t, ht, rfl⟩))
  have d2 : DSep h0 (trkCopies o tag h (h.cmp c)).1 E R' := d1.mono (fun c hc => List.mem_append_left _ hc) (fun _ hc => hc)
  have hgR := good_reachR _ _ d2.1.2.1
  obtain ⟨s3, i3, _⟩ := newCmp_spec hgR (trkCopies o tag h (h.cmp c)).2
    (fun t ht => in_reachR d2.1.2.1 (hnew _ (by simp only [cellsOf, List.mem_map]; exact ⟨t, ht, rfl⟩)))
  have d3 := dsep_step_res (more := [(.cmp, (cmpCopy o tag h c).2)]) d2 s3
    (by intro x hx; simp only [List.mem_singleton] at hx; subst hx; exact i3)
  exact ⟨_, d3, by simp⟩

/-- the start of a derivation: the caller's objects on the source side, nothing on the result side -/
theorem dsep_start {h : Heap} {env : List Cell} (hall : AllocAll h env) : DSep h h env [] :=
  ⟨⟨hall, by simp [AllocAll, reachAll], by simp [Disjoint, reachAll]⟩, fun _ => Nat.le_refl _, by simp [reachAll]⟩

theorem reachAll_single (h : Heap) (c : Cell) : reachAll h [c] = reach h c := by simp [reachAll]

/-- what a derivation that keeps `DSep` gives: the caller's objects and the new roots are without dangling identities, share no
    cell, and the new roots reach only cells that did not exist before -/
theorem derive_of_dsep {h h' : Heap} {env R new : List Cell} (hd : DSep h h' env R) (hnew : ∀ c ∈ new, c ∈ R) :
    AllocAll h' env ∧ AllocAll h' new ∧ Disjoint (reachAll h' new) (reachAll h' env)
      ∧ ∀ c ∈ reachAll h' new, ¬ h.alloc c := by
  have hs := hd.1.mono (fun _ hc => hc) hnew
  exact ⟨hs.1, hs.2.1, hs.symm.2.2, fun c hc => hd.2.2 c (reachAll_sub hnew c hc)⟩

/-- `Bar.copy()` (second repair of D37): the bar, its `Sequence`, the views and the messages of the copy were allocated by the
    call and none of them is reachable from the source bar afterwards; the source may be written — the relative view of its
    sequence is regenerated if stale (`self.sequence.rel`, bar.py:59) — but only in cells reachable from it.
    Hypothesis: the source has no dangling identity. (A2) -/
theorem derive_fresh_barCopy (o : Orc) (tag : Nat) (h : Heap) (b : Nat) (hall : AllocAll h [(.bar, b)]) :
    FreshCells h (barCopy o tag h b).1 (reach (barCopy o tag h b).1 (.bar, (barCopy o tag h b).2))
      ∧ Disjoint (reach (barCopy o tag h b).1 (.bar, (barCopy o tag h b).2)) (reach (barCopy o tag h b).1 (.bar, b))
      ∧ ∀ c, h.alloc c → c ∉ reach h (.bar, b) → (barCopy o tag h b).1.get c = h.get c := by
  have hd := barCopy_dsep o tag b (dsep_start hall) (by simp)
  obtain ⟨_, h2, h3, h4⟩ := derive_of_dsep (new := [(.bar, (barCopy o tag h b).2)]) hd (by simp)
  simp only [reachAll_single] at h2 h3 h4
  have hg := good_reachR h _ hall
  obtain ⟨s1, _⟩ := barCopy_spec (o := o) hg tag b (bar_seq_in hg (in_reachR hall (by simp)))
  refine ⟨fun c hc => ⟨h4 c hc, h2 c (by rw [reachAll_single]; exact hc)⟩, h3, ?_⟩
  intro c hc hnr
  refine s1.pres.same c ?_
  rintro (hw | hn)
  · rw [reachAll_single] at hw; exact hnr hw
  · exact hn hc

/-- `Track.copy()`: every bar, sequence, view and message of the copy is new and not reachable from the source track; the source
    may be written (stale relative views of its bars' sequences are regenerated) but only in cells reachable from it. (A2) -/
theorem derive_fresh_trkCopy (o : Orc) (tag : Nat) (h : Heap) (t : Nat) (hall : AllocAll h [(.trk, t)]) :
    FreshCells h (trkCopy o tag h t).1 (reach (trkCopy o tag h t).1 (.trk, (trkCopy o tag h t).2))
      ∧ Disjoint (reach (trkCopy o tag h t).1 (.trk, (trkCopy o tag h t).2)) (reach (trkCopy o tag h t).1 (.trk, t))
      ∧ ∀ c, h.alloc c → c ∉ reach h (.trk, t) → (trkCopy o tag h t).1.get c = h.get c := by
  obtain ⟨extra, hd⟩ := trkCopy_dsep o tag t (dsep_start hall) (by simp)
  obtain ⟨_, h2, h3, h4⟩ := derive_of_dsep (new := [(.trk, (trkCopy o tag h t).2)]) hd (by simp)
  simp only [reachAll_single] at h2 h3 h4
  have hg := good_reachR h _ hall
  obtain ⟨s1, _⟩ := trkCopy_spec (o := o) hg tag t (in_reachR hall (by simp))
  refine ⟨fun c hc => ⟨h4 c hc, h2 c (by rw [reachAll_single]; exact hc)⟩, h3, ?_⟩
  intro c hc hnr
  refine s1.pres.same c ?_
  rintro (hw | hn)
  · rw [reachAll_single] at hw; exact hnr hw
  · exact hn hc

/-- `Composition.copy()`. (A2) -/
theorem derive_fresh_cmpCopy (o : Orc) (tag : Nat) (h : Heap) (c : Nat) (hall : AllocAll h [(.cmp, c)]) :
    FreshCells h (cmpCopy o tag h c).1 (reach (cmpCopy o tag h c).1 (.cmp, (cmpCopy o tag h c).2))
      ∧ Disjoint (reach (cmpCopy o tag h c).1 (.cmp, (cmpCopy o tag h c).2)) (reach (cmpCopy o tag h c).1 (.cmp, c))
      ∧ ∀ c', h.alloc c' → c' ∉ reach h (.cmp, c) → (cmpCopy o tag h c).1.get c' = h.get c' := by
  obtain ⟨R', hd, hin⟩ := cmpCopy_dsep o tag c (dsep_start hall) (by simp)
  obtain ⟨_, h2, h3, h4⟩ := derive_of_dsep (new := [(.cmp, (cmpCopy o tag h c).2)]) hd
    (by intro x hx; simp only [List.mem_singleton] at hx; subst hx; exact hin)
  simp only [reachAll_single] at h2 h3 h4
  have hg := good_reachR h _ hall
  obtain ⟨s1, _⟩ := cmpCopy_spec (o := o) hg tag c (in_reachR hall (by simp))
  refine ⟨fun x hx => ⟨h4 x hx, h2 x (by rw [reachAll_single]; exact hx)⟩, h3, ?_⟩
  intro x hx hnr
  refine s1.pres.same x ?_
  rintro (hw | hn)
  · rw [reachAll_single] at hw; exact hnr hw
  · exact hn hx

/-- one operation of the caller holding `A` keeps the separation and leaves every cell of `B` unchanged -/
theorem step_sep (o : Orc) (op : HOp) (h : Heap) (A B : List Cell) (hsep : Sep h A B) :
    Sep (step o op (h, A)).1 (step o op (h, A)).2 B ∧ Unchanged h (step o op (h, A)).1 (reachAll h B) := by
  obtain ⟨hA, hB, hdis⟩ := hsep
  have hg := good_reachR h A hA
  have henv : EnvIn (ReachR h A) h A := fun c hc => in_reachR hA hc
  obtain ⟨s1, e1⟩ := step_spec_env (o := o) hg henv op
  have hout : ∀ c ∈ reachAll h B, ¬ ReachR h A c := by
    rintro c hc (hw | hn)
    · exact hdis c hw hc
    · exact hn (hB c hc)
  have hun : Unchanged h (step o op (h, A)).1 (reachAll h B) := fun c hc => s1.pres.same c (hout c hc)
  have hsame := reachAll_congr (h' := (step o op (h, A)).1) B hun
  refine ⟨⟨?_, ?_, ?_⟩, hun⟩
  · intro c hc
    obtain ⟨r, hr, hcr⟩ := mem_reachAll.1 hc
    exact (reach_in s1.good (e1 r hr) c hcr).2
  · intro c hc
    rw [hsame] at hc
    exact alloc_mono s1.pres.le (hB c hc)
  · intro c hc hcb
    rw [hsame] at hcb
    obtain ⟨r, hr, hcr⟩ := mem_reachAll.1 hc
    exact hout c hcb (reach_in s1.good (e1 r hr) c hcr).1

/-- an operation of side `false` (holding `st.2.1`) or of side `true` (holding `st.2.2`) -/
def step2 (o : Orc) (sop : Bool × HOp) (st : Heap × List Cell × List Cell) : Heap × List Cell × List Cell :=
  if sop.1 then ((step o sop.2 (st.1, st.2.2)).1, st.2.1, (step o sop.2 (st.1, st.2.2)).2)
  else ((step o sop.2 (st.1, st.2.1)).1, (step o sop.2 (st.1, st.2.1)).2, st.2.2)

def run2 (o : Orc) : List (Bool × HOp) → Heap × List Cell × List Cell → Heap × List Cell × List Cell
  | [], st => st
  | sop :: ops, st => run2 o ops (step2 o sop st)

/-- the objects of the side that does NOT perform `sop` -/
def otherSide (sop : Bool × HOp) (st : Heap × List Cell × List Cell) : List Cell :=
  if sop.1 then st.2.1 else st.2.2

theorem step2_sep (o : Orc) (sop : Bool × HOp) (st : Heap × List Cell × List Cell) (hsep : Sep st.1 st.2.1 st.2.2) :
    Sep (step2 o sop st).1 (step2 o sop st).2.1 (step2 o sop st).2.2
      ∧ Unchanged st.1 (step2 o sop st).1 (reachAll st.1 (otherSide sop st)) := by
  obtain ⟨b, op⟩ := sop
  cases b with
  | false =>
    obtain ⟨h1, h2⟩ := step_sep o op st.1 st.2.1 st.2.2 hsep
    exact ⟨by simpa [step2] using h1, by simpa [step2, otherSide] using h2⟩
  | true =>
    obtain ⟨h1, h2⟩ := step_sep o op st.1 st.2.2 st.2.1 hsep.symm
    exact ⟨by simpa [step2] using h1.symm, by simpa [step2, otherSide] using h2⟩

/-- **independence under interleaved histories on either side**: two callers hold objects `A` and `B`
    that share no cell (for instance an original and its copy, `derive_sep`).  In ANY interleaving of
    public operations of the two callers, every single operation leaves every cell reachable from the
    other caller's objects unchanged, and the two sides never come to share a cell. (A2) -/
theorem interleaved_independent (o : Orc) (ops : List (Bool × HOp)) (st : Heap × List Cell × List Cell)
    (hsep : Sep st.1 st.2.1 st.2.2) :
    Sep (run2 o ops st).1 (run2 o ops st).2.1 (run2 o ops st).2.2
      ∧ ∀ pre sop post, ops = pre ++ sop :: post →
          Unchanged (run2 o pre st).1 (step2 o sop (run2 o pre st)).1
            (reachAll (run2 o pre st).1 (otherSide sop (run2 o pre st))) := by
  induction ops generalizing st with
  | nil => exact ⟨hsep, by intro pre sop post h; simp at h⟩
  | cons sop0 ops ih =>
    obtain ⟨h1, h2⟩ := step2_sep o sop0 st hsep
    obtain ⟨i1, i2⟩ := ih (step2 o sop0 st) h1
    refine ⟨i1, ?_⟩
    intro pre sop post he
    cases pre with
    | nil =>
      simp only [List.nil_append, List.cons.injEq] at he
      obtain ⟨rfl, _⟩ := he
      exact h2
    | cons p pre =>
      simp only [List.cons_append, List.cons.injEq] at he
      obtain ⟨rfl, he⟩ := he
      exact i2 pre sop post he

/-! ## derivation, then histories on either side -/

/-- the derivation routes of the property: copy at every level, `split`, bar splitting with either
    re-quantisation setting (and `Composition.from_sequences`, which is bar splitting plus constructors) -/
def isDerive : HOp → Bool
  | .msgCopy _ | .seqCopy _ | .barCopy _ _ | .trkCopy _ _ | .cmpCopy _ _ | .split _ _
  | .splitBars _ _ _ _ _ | .cmpFromSequences _ _ _ _ => true
  | _ => false

/-- the objects the operation returned (appended to the caller's environment) -/
def newRoots (o : Orc) (op : HOp) (h : Heap) (env : List Cell) : List Cell :=
  (step o op (h, env)).2.drop env.length

/-- the copies that read their source first (`Bar.copy` reads `self.sequence.rel`; `Track.copy` / `Composition.copy` call it) -/
def isContainerCopy : HOp → Bool
  | .barCopy _ _ | .trkCopy _ _ | .cmpCopy _ _ => true
  | _ => false

/-- a copy-like route that does not touch its source respects every good region with no hypothesis on its arguments -/
theorem step_copyRoute {X : Region} (o : Orc) (op : HOp) (h : Heap) (env : List Cell) (hg : Good X h)
    (hd : isDerive op = true) (hns : ∀ i tag, op ≠ .split i tag) (hnc : isContainerCopy op = false) :
    ∃ more, (step o op (h, env)).2 = env ++ more ∧ Spec X h (step o op (h, env)).1
      ∧ ∀ c ∈ more, In X (step o op (h, env)).1 c := by
  cases op <;> simp only [isDerive, Bool.false_eq_true] at hd
  case msgCopy i =>
    simp only [step]
    split
    · rename_i x _
      obtain ⟨s1, i1⟩ := msgCopy_spec (X := X) hg x
      exact ⟨_, rfl, s1, by intro c hc; simp only [List.mem_singleton] at hc; subst hc; exact i1⟩
    · exact ⟨[], by simp, Spec.refl hg, by simp⟩
  case seqCopy i =>
    simp only [step]
    split
    · rename_i x _
      obtain ⟨s1, i1⟩ := seqCopy_spec (X := X) hg x
      exact ⟨_, rfl, s1, by intro c hc; simp only [List.mem_singleton] at hc; subst hc; exact i1⟩
    · exact ⟨[], by simp, Spec.refl hg, by simp⟩
  case barCopy i tag => simp [isContainerCopy] at hnc
  case trkCopy i tag => simp [isContainerCopy] at hnc
  case cmpCopy i tag => simp [isContainerCopy] at hnc
  case split i tag => exact absurd rfl (hns i tag)
  case splitBars is mti qnl tag fuel =>
    simp only [step]
    split
    · rename_i ss _
      obtain ⟨s1, i1⟩ := splitBars_spec (o := o) (X := X) hg tag qnl fuel ss mti
      refine ⟨_, rfl, s1, ?_⟩
      intro c hc
      simp only [cellsOf, List.mem_map, List.mem_flatten] at hc
      obtain ⟨b, ⟨bs, hbs, hb⟩, rfl⟩ := hc
      exact i1 bs hbs b hb
    · exact ⟨[], by simp, Spec.refl hg, by simp⟩
  case cmpFromSequences is mti tag fuel =>
    simp only [step]
    split
    · rename_i ss _
      obtain ⟨s1, i1⟩ := cmpFromSequences_spec (o := o) (X := X) hg tag fuel ss mti
      exact ⟨_, rfl, s1, by intro c hc; simp only [List.mem_singleton] at hc; subst hc; exact i1⟩
    · exact ⟨[], by simp, Spec.refl hg, by simp⟩

/-- after a derivation route: what the caller held before and what the route returned are both
    without dangling identities and share no cell -/
theorem derive_sep (o : Orc) (op : HOp) (h : Heap) (env : List Cell) (hd : isDerive op = true)
    (hall : AllocAll h env) :
    (step o op (h, env)).2 = env ++ newRoots o op h env
      ∧ AllocAll (step o op (h, env)).1 env
      ∧ AllocAll (step o op (h, env)).1 (newRoots o op h env)
      ∧ Disjoint (reachAll (step o op (h, env)).1 (newRoots o op h env)) (reachAll (step o op (h, env)).1 env) := by
  by_cases hsp : ∃ i tag, op = .split i tag
  · -- `split`: the source may be refreshed first; the pieces are copied afterwards
    obtain ⟨i, tag, rfl⟩ := hsp
    have hg := good_reachR h env hall
    have henv : EnvIn (ReachR h env) h env := fun c hc => in_reachR hall hc
    unfold newRoots
    simp only [step]
    split
    · rename_i s hs
      have hsin := henv _ (look_mem hs)
      obtain ⟨s1, i1⟩ := getRel_spec (o := o) hg hsin
      unfold split
      simp only
      split
      · -- raises: no piece
        refine ⟨by simp [cellsOf], ?_, ?_, ?_⟩
        · intro c hc
          obtain ⟨r, hr, hcr⟩ := mem_reachAll.1 hc
          exact (reach_in s1.good ((henv r hr).mono s1.pres) c hcr).2
        · simp [cellsOf, AllocAll, reachAll]
        · simp [cellsOf, Disjoint, reachAll]
      · rename_i l hl
        obtain ⟨s2, _⟩ := splitView_spec s1.good (o.splitPlan tag) (i1 l hl)
        have s12 := s1.trans s2
        have henv2 : ∀ c ∈ reachAll (splitView (o.splitPlan tag) (getRel o h s).1 l).1 env,
            (splitView (o.splitPlan tag) (getRel o h s).1 l).1.alloc c := by
          intro c hc
          obtain ⟨r, hr, hcr⟩ := mem_reachAll.1 hc
          exact (reach_in s12.good ((henv r hr).mono s12.pres) c hcr).2
        obtain ⟨s3, i3⟩ := wrapCopies_spec (good_fresh (splitView (o.splitPlan tag) (getRel o h s).1 l).1)
          (splitView (o.splitPlan tag) (getRel o h s).1 l).2
        have hsame := reachAll_congr (h' := (wrapCopies (splitView (o.splitPlan tag) (getRel o h s).1 l).1
            (splitView (o.splitPlan tag) (getRel o h s).1 l).2).1) env
          (fun c hc => s3.pres.same c (fun hn => hn (henv2 c hc)))
        have hnew : ∀ c ∈ reachAll (wrapCopies (splitView (o.splitPlan tag) (getRel o h s).1 l).1
              (splitView (o.splitPlan tag) (getRel o h s).1 l).2).1
            (cellsOf .seq (wrapCopies (splitView (o.splitPlan tag) (getRel o h s).1 l).1
              (splitView (o.splitPlan tag) (getRel o h s).1 l).2).2),
            In (Fresh (splitView (o.splitPlan tag) (getRel o h s).1 l).1)
              (wrapCopies (splitView (o.splitPlan tag) (getRel o h s).1 l).1
                (splitView (o.splitPlan tag) (getRel o h s).1 l).2).1 c := by
          intro c hc
          obtain ⟨r, hr, hcr⟩ := mem_reachAll.1 hc
          simp only [cellsOf, List.mem_map] at hr
          obtain ⟨p, hp, rfl⟩ := hr
          exact reach_in s3.good (i3 p hp) c hcr
        refine ⟨by simp, ?_, ?_, ?_⟩
        · intro c hc
          rw [hsame] at hc
          exact alloc_mono s3.pres.le (henv2 c hc)
        · intro c hc
          simp only [List.drop_left] at hc
          exact (hnew c hc).2
        · intro c hc hce
          simp only [List.drop_left] at hc
          rw [hsame] at hce
          exact (hnew c hc).1 (henv2 c hce)
    · refine ⟨by simp, hall, ?_, ?_⟩
      · simp [AllocAll, reachAll]
      · simp [Disjoint, reachAll]
  · by_cases hcc : isContainerCopy op = true
    · -- `Bar.copy` / `Track.copy` / `Composition.copy`: the source is read first (a stale relative view is regenerated), the copy
      -- is made of new cells
      have hnone : (step o op (h, env)).2 = env → (step o op (h, env)).1 = h →
          (step o op (h, env)).2 = env ++ newRoots o op h env ∧ AllocAll (step o op (h, env)).1 env
            ∧ AllocAll (step o op (h, env)).1 (newRoots o op h env)
            ∧ Disjoint (reachAll (step o op (h, env)).1 (newRoots o op h env)) (reachAll (step o op (h, env)).1 env) := by
        intro e1 e2
        unfold newRoots
        rw [e1, e2]
        refine ⟨by simp, hall, ?_, ?_⟩
        · simp [AllocAll, reachAll]
        · simp [Disjoint, reachAll]
      cases op <;> simp only [isContainerCopy, Bool.false_eq_true] at hcc
      case barCopy i tag =>
        cases hx : look env .bar i with
        | none => exact hnone (by simp [step, hx]) (by simp [step, hx])
        | some x =>
          have hd := barCopy_dsep o tag x (dsep_start hall) (look_mem hx)
          obtain ⟨h1, h2, h3, _⟩ := derive_of_dsep (new := [(.bar, (barCopy o tag h x).2)]) hd (by simp)
          have e : step o (.barCopy i tag) (h, env) = ((barCopy o tag h x).1, env ++ [(.bar, (barCopy o tag h x).2)]) := by
            simp [step, hx]
          unfold newRoots
          rw [e]
          simp only [List.drop_left]
          exact ⟨trivial, h1, h2, h3⟩
      case trkCopy i tag =>
        cases hx : look env .trk i with
        | none => exact hnone (by simp [step, hx]) (by simp [step, hx])
        | some x =>
          obtain ⟨extra, hd⟩ := trkCopy_dsep o tag x (dsep_start hall) (look_mem hx)
          obtain ⟨h1, h2, h3, _⟩ := derive_of_dsep (new := [(.trk, (trkCopy o tag h x).2)]) hd (by simp)
          have e : step o (.trkCopy i tag) (h, env) = ((trkCopy o tag h x).1, env ++ [(.trk, (trkCopy o tag h x).2)]) := by
            simp [step, hx]
          unfold newRoots
          rw [e]
          simp only [List.drop_left]
          exact ⟨trivial, h1, h2, h3⟩
      case cmpCopy i tag =>
        cases hx : look env .cmp i with
        | none => exact hnone (by simp [step, hx]) (by simp [step, hx])
        | some x =>
          obtain ⟨R', hd, hin⟩ := cmpCopy_dsep o tag x (dsep_start hall) (look_mem hx)
          obtain ⟨h1, h2, h3, _⟩ := derive_of_dsep (new := [(.cmp, (cmpCopy o tag h x).2)]) hd
            (by intro c hc; simp only [List.mem_singleton] at hc; subst hc; exact hin)
          have e : step o (.cmpCopy i tag) (h, env) = ((cmpCopy o tag h x).1, env ++ [(.cmp, (cmpCopy o tag h x).2)]) := by
            simp [step, hx]
          unfold newRoots
          rw [e]
          simp only [List.drop_left]
          exact ⟨trivial, h1, h2, h3⟩
    have hns : ∀ i tag, op ≠ .split i tag := fun i tag he => hsp ⟨i, tag, he⟩
    obtain ⟨more, hmore, s1, i1⟩ := step_copyRoute o op h env (good_fresh h) hd hns (by simpa using hcc)
    have hsame := reachAll_congr (h' := (step o op (h, env)).1) env
      (fun c hc => s1.pres.same c (fun hn => hn (hall c hc)))
    have hnr : newRoots o op h env = more := by simp [newRoots, hmore]
    have hnew : ∀ c ∈ reachAll (step o op (h, env)).1 more, In (Fresh h) (step o op (h, env)).1 c := by
      intro c hc
      obtain ⟨r, hr, hcr⟩ := mem_reachAll.1 hc
      exact reach_in s1.good (i1 r hr) c hcr
    rw [hnr]
    refine ⟨hmore, ?_, ?_, ?_⟩
    · intro c hc
      rw [hsame] at hc
      exact alloc_mono s1.pres.le (hall c hc)
    · intro c hc
      exact (hnew c hc).2
    · intro c hc hce
      rw [hsame] at hce
      exact (hnew c hc).1 (hall c hce)

/-- **copies and derived objects are independent values**: take any objects `env` without dangling
    identities, apply ANY derivation route (copy of a message / sequence / bar / track / composition,
    `split`, `sequences_split_bars` with either re-quantisation setting, `Composition.from_sequences`)
    and call `D` what it returned.  Then
    (1) every history of public operations run on `D` leaves every cell reachable from every original
        unchanged — both views' message values and both flags of every sequence of the original;
    (2) every history run on the originals leaves every cell reachable from every derived object unchanged.
    Histories are lists over the concrete operation type `HOp`; the only restriction is the one the
    property makes: an operation takes its arguments from its own side. (A2) -/
theorem derived_independent (o : Orc) (dop : HOp) (h : Heap) (env : List Cell) (hd : isDerive dop = true)
    (hall : AllocAll h env) (ops : List HOp) :
    let h1 := (step o dop (h, env)).1
    let D := newRoots o dop h env
    (∀ x ∈ env,
        Unchanged h1 (run o ops (h1, D)).1 (reach h1 x)
          ∧ reach (run o ops (h1, D)).1 x = reach h1 x
          ∧ ∀ s, (Kind.seq, s) ∈ reach h1 x → snap (run o ops (h1, D)).1 s = snap h1 s)
    ∧ (∀ d ∈ D,
        Unchanged h1 (run o ops (h1, env)).1 (reach h1 d)
          ∧ reach (run o ops (h1, env)).1 d = reach h1 d
          ∧ ∀ s, (Kind.seq, s) ∈ reach h1 d → snap (run o ops (h1, env)).1 s = snap h1 s) := by
  intro h1 D
  obtain ⟨_, he, hD, hdis⟩ := derive_sep o dop h env hd hall
  refine ⟨?_, ?_⟩
  · intro x hx
    have hxa : AllocAll h1 [x] := by
      intro c hc
      simp only [reachAll, List.flatMap_cons, List.flatMap_nil, List.append_nil] at hc
      exact he c (mem_reachAll.2 ⟨x, hx, hc⟩)
    have hdx : Disjoint (reach h1 x) (reachAll h1 D) := by
      intro c hc hcd
      exact hdis c hcd (mem_reachAll.2 ⟨x, hx, hc⟩)
    obtain ⟨a, b, c, _⟩ := independent o h1 D x ops hD hxa hdx
    exact ⟨a, b, c⟩
  · intro d hd'
    have hda : AllocAll h1 [d] := by
      intro c hc
      simp only [reachAll, List.flatMap_cons, List.flatMap_nil, List.append_nil] at hc
      exact hD c (mem_reachAll.2 ⟨d, hd', hc⟩)
    have hdd : Disjoint (reach h1 d) (reachAll h1 env) := by
      intro c hc hce
      exact hdis c (mem_reachAll.2 ⟨d, hd', hc⟩) hce
    obtain ⟨a, b, c, _⟩ := independent o h1 env d ops he hda hdd
    exact ⟨a, b, c⟩

/-! ## (d) a copy equals its original -/

/-- the flag protocol of the wrapper: a view that is not stale exists.  `Sequence.__init__`
    (sequence.py:35-59, `seqInit`) establishes it and every operation of the model that clears a flag sets
    the pointer in the same write; it is a hypothesis here (decidable, about the input sequence only), not
    a proved invariant.  At an excluded point (`_abs_stale = False`, `_abs = None`) the real `copy()`
    raises `AttributeError`; no public call builds such an object. -/
def SeqOk (h : Heap) (s : Nat) : Prop :=
  ((h.seq s).absStale = false → (h.seq s).abs.isSome = true) ∧ ((h.seq s).relStale = false → (h.seq s).rel.isSome = true)

instance (h : Heap) (s : Nat) : Decidable (SeqOk h s) := by unfold SeqOk; infer_instance

/-- what `Sequence.copy()` is on values (this is `Seq.copy` of `Model/Wrapper.lean`, see `toSeq_copy`):
    the non-stale views with the same message values, a stale view is empty and stays stale
    (both stale: a new empty sequence) -/
def snapCopy (p : Snap) : Snap :=
  { abs := if p.absStale then [] else p.abs, rel := if p.relStale then [] else p.rel,
    absStale := p.absStale && !p.relStale, relStale := p.relStale }

/-- **a copy equals its original**: what can be read from the copy — the message values of both view
    objects and both flags — is exactly what `Sequence.copy()` promises of the original's values:
    every non-stale view with equal message values, in the same order.
    Hypotheses: the original has no dangling identity and obeys the flag protocol. (A2) -/
theorem copy_equal (h : Heap) (s : Nat) (hall : AllocAll h [(.seq, s)]) (hok : SeqOk h s) :
    snap (seqCopy h s).1 (seqCopy h s).2 = snapCopy (snap h s) := by
  have hg := good_reachR h [(.seq, s)] hall
  have hs : In (ReachR h [(.seq, s)]) h (.seq, s) := in_reachR hall (by simp)
  -- the original's views are allocated, with allocated messages
  have hva : ∀ l, (h.seq s).abs = some l → h.alloc (.lst, l) ∧ ∀ i ∈ h.lst l, h.alloc (.msg, i) :=
    fun l hl => ⟨(seq_abs_in hg hs hl).2, fun i hi => (lst_in hg (seq_abs_in hg hs hl) i hi).2⟩
  have hvr : ∀ l, (h.seq s).rel = some l → h.alloc (.lst, l) ∧ ∀ i ∈ h.lst l, h.alloc (.msg, i) :=
    fun l hl => ⟨(seq_rel_in hg hs hl).2, fun i hi => (lst_in hg (seq_rel_in hg hs hl) i hi).2⟩
  -- first copy
  obtain ⟨sa, ia⟩ := copyOpt_spec (good_fresh h) (h.seq s).absStale (h.seq s).abs
  obtain ⟨va, fa⟩ := copyOpt_vals h (h.seq s).absStale (h.seq s).abs hok.1
  -- second copy, made in the heap after the first
  obtain ⟨sr, _⟩ := copyOpt_spec (good_fresh (copyOpt h (h.seq s).absStale (h.seq s).abs).1)
    (h.seq s).relStale (h.seq s).rel
  obtain ⟨vr, fr⟩ := copyOpt_vals (copyOpt h (h.seq s).absStale (h.seq s).abs).1 (h.seq s).relStale (h.seq s).rel hok.2
  -- the first copy is not disturbed by the second
  have hkeep : optVals (copyOpt (copyOpt h (h.seq s).absStale (h.seq s).abs).1 (h.seq s).relStale (h.seq s).rel).1
        (copyOpt h (h.seq s).absStale (h.seq s).abs).2
      = optVals (copyOpt h (h.seq s).absStale (h.seq s).abs).1 (copyOpt h (h.seq s).absStale (h.seq s).abs).2 :=
    optVals_same sr.same_alloc _ (fun l hl => ⟨(ia l hl).2, fun i hi => (lst_in sa.good (ia l hl) i hi).2⟩)
  -- the original's relative view is not disturbed by the first copy
  have horig : optVals (copyOpt h (h.seq s).absStale (h.seq s).abs).1 (h.seq s).rel = optVals h (h.seq s).rel :=
    optVals_same sa.same_alloc _ hvr
  have hfin : snap (seqCopy h s).1 (seqCopy h s).2 = _ :=
    seqInit_snap (copyOpt (copyOpt h (h.seq s).absStale (h.seq s).abs).1 (h.seq s).relStale (h.seq s).rel).1
      (copyOpt h (h.seq s).absStale (h.seq s).abs).2
      (copyOpt (copyOpt h (h.seq s).absStale (h.seq s).abs).1 (h.seq s).relStale (h.seq s).rel).2
  rw [hfin, hkeep, va, vr, horig]
  have fa' : (copyOpt h (h.seq s).absStale (h.seq s).abs).2.isNone = (h.seq s).absStale := by
    cases hx : (copyOpt h (h.seq s).absStale (h.seq s).abs).2 <;> simp [hx] at fa ⊢ <;> simp [fa]
  have fr' : (copyOpt (copyOpt h (h.seq s).absStale (h.seq s).abs).1 (h.seq s).relStale (h.seq s).rel).2.isNone
      = (h.seq s).relStale := by
    cases hx : (copyOpt (copyOpt h (h.seq s).absStale (h.seq s).abs).1 (h.seq s).relStale (h.seq s).rel).2 <;>
      simp [hx] at fr ⊢ <;> simp [fr]
  rw [fa', fr, fr']
  rfl

/-- **a copied bar**: same signature and key as the original, and its sequence is what the `Bar`
    constructor makes of a `Sequence.copy()` of the original's sequence, taken after the original's relative view has been
    read (`self.sequence.rel`, bar.py:59: regenerated if stale) (a value equal to it by `copy_equal`).  That the constructor leaves an already-constructed bar's content as it is
    (normalise / pad / re-insert the time signature are idempotent) is a statement about VALUES and not
    part of this identity model. (A2) -/
theorem copy_equal_bar (o : Orc) (tag : Nat) (h : Heap) (b : Nat) :
    ((barCopy o tag h b).1.bar (barCopy o tag h b).2).num = (h.bar b).num
      ∧ ((barCopy o tag h b).1.bar (barCopy o tag h b).2).den = (h.bar b).den
      ∧ ((barCopy o tag h b).1.bar (barCopy o tag h b).2).key = (h.bar b).key
      ∧ ((barCopy o tag h b).1.bar (barCopy o tag h b).2).seq = (seqCopy (readRel o h (h.bar b).seq) (h.bar b).seq).2
      ∧ barCopy o tag h b
          = barInit o tag (seqCopy (readRel o h (h.bar b).seq) (h.bar b).seq).1 (seqCopy (readRel o h (h.bar b).seq) (h.bar b).seq).2
              (h.bar b).num (h.bar b).den (h.bar b).key := by
  obtain ⟨s1, i1⟩ := seqCopy_spec (good_fresh (readRel o h (h.bar b).seq)) (h.bar b).seq
  have hall : ∀ c ∈ reach (seqCopy (readRel o h (h.bar b).seq) (h.bar b).seq).1 (.seq, (seqCopy (readRel o h (h.bar b).seq) (h.bar b).seq).2),
      (seqCopy (readRel o h (h.bar b).seq) (h.bar b).seq).1.alloc c := fun c hc => (reach_in s1.good i1 c hc).2
  have hb := barInit_bar (o := o) tag _ _ (h.bar b).num (h.bar b).den (h.bar b).key hall
  refine ⟨?_, ?_, ?_, ?_, rfl⟩ <;> (simp only [barCopy]; rw [hb])

/-- **a copied track**: same name, as many bars, each of them a `Bar.copy()` of the corresponding
    original bar (so `copy_equal_bar` applies bar by bar).  `hsrc`: the source track has no dangling identity. (A2) -/
theorem copy_equal_trk (o : Orc) (tag : Nat) (h : Heap) (t : Nat) (hsrc : AllocAll h [(.trk, t)]) :
    ((trkCopy o tag h t).1.trk (trkCopy o tag h t).2).name = (h.trk t).name
      ∧ ((trkCopy o tag h t).1.trk (trkCopy o tag h t).2).bars = (barCopies o tag h (h.trk t).bars).2
      ∧ ((trkCopy o tag h t).1.trk (trkCopy o tag h t).2).bars.length = (h.trk t).bars.length := by
  have hg := good_reachR h _ hsrc
  obtain ⟨s1, i1⟩ := barCopies_spec (o := o) hg tag (h.trk t).bars (trk_bars_in hg (in_reachR hsrc (by simp)))
  have hall : ∀ c ∈ reachAll (barCopies o tag h (h.trk t).bars).1
      ((barCopies o tag h (h.trk t).bars).2.map (fun b => (Kind.bar, b))), (barCopies o tag h (h.trk t).bars).1.alloc c := by
    intro c hc
    obtain ⟨r, hr, hcr⟩ := mem_reachAll.1 hc
    obtain ⟨b, hb, rfl⟩ := List.mem_map.1 hr
    exact (reach_in s1.good (i1 b hb) c hcr).2
  obtain ⟨hbars, hname⟩ := trkInit_trk (o := o) (mix tag 4) _ _ (h.trk t).name hall
  simp only [trkCopy]
  refine ⟨hname, hbars, ?_⟩
  rw [hbars, barCopies_length]

/-- **a copied composition**: as many tracks, each a `Track.copy()` of the corresponding original track. (A2) -/
theorem copy_equal_cmp (o : Orc) (tag : Nat) (h : Heap) (c : Nat) :
    (cmpCopy o tag h c).1.cmp (cmpCopy o tag h c).2 = (trkCopies o tag h (h.cmp c)).2
      ∧ ((cmpCopy o tag h c).1.cmp (cmpCopy o tag h c).2).length = (h.cmp c).length := by
  have h1 : (cmpCopy o tag h c).1.cmp (cmpCopy o tag h c).2 = (trkCopies o tag h (h.cmp c)).2 := by
    simp [cmpCopy, Heap.newCmp]
  exact ⟨h1, by rw [h1, trkCopies_length]⟩

/-! ## negative control: the unrepaired `split` (D13) -/

/-- what `derived_independent` says of `split`, as a statement about an arbitrary implementation
    `stepF` of the operations: no history on the pieces changes a cell reachable from the source -/
def SplitIndependent (stepF : Orc → HOp → Heap × List Cell → Heap × List Cell) : Prop :=
  ∀ (o : Orc) (h : Heap) (s tag : Nat) (ops : List HOp), AllocAll h [(.seq, s)] →
    Unchanged (stepF o (.split 0 tag) (h, [(.seq, s)])).1
      (run o ops ((stepF o (.split 0 tag) (h, [(.seq, s)])).1, (stepF o (.split 0 tag) (h, [(.seq, s)])).2.drop 1)).1
      (reach (stepF o (.split 0 tag) (h, [(.seq, s)])).1 (.seq, s))

/-- the repaired `split` (current source) has the property -/
theorem split_independent : SplitIndependent step := by
  intro o h s tag ops hall
  have := (derived_independent o (.split 0 tag) h [(.seq, s)] rfl hall ops).1 (.seq, s) (by simp)
  exact this.1

/-- an oracle for small examples: conversions keep the non-WAIT / all messages, rebuilders keep
    everything, `split` returns one piece holding all messages of the source -/
def exOrc : Orc where
  toAbs := fun ms => ms.filter (fun m => !m.isWait)
  toRel := fun ms => ms
  edit := fun _ ms => ms
  plan := fun _ ms => (List.range ms.length).map Item.keep
  perm := fun _ ms => List.range ms.length
  splitPlan := fun _ ms => [(List.range ms.length).map Item.keep]
  padMsg := fun _ _ => none
  barPadMsg := fun _ _ => none
  barSig := fun _ _ => (4, 4, pyNone)
  program := fun _ _ => pyNone
  tsMsg := fun n d => { ty := .timeSignature, num := n, den := d }

/-- a sequence built from its relative view: NOTE_ON 60, WAIT 24, NOTE_OFF 60 -/
def exHeap : Heap :=
  let a := newMsgs Heap.empty [Msg.mkOn 0 60 64 pyNone, Msg.mkWait 0 24, Msg.mkOff 0 60 pyNone]
  let l := a.1.newLst a.2
  (seqInit l.1 none (some l.2)).1

/-- **negative control (D13)**: with the unrepaired `split` (`Sequence(relative_sequence=seq)` without
    the copy) independence FAILS: `piece.set_channel(5)` rewrites the channel of the source's own
    NOTE_ON message.  So `derived_independent` is a theorem about the copy in `split`, not a
    consequence of the definitions of `reach` and `run`. -/
theorem unrepaired_split_not_independent : ¬ SplitIndependent stepU := by
  intro hst
  have h1 := hst exOrc exHeap 0 0 [.setChannel 0 5] (by decide)
  have h2 := h1 (.msg, 0) (by decide)
  revert h2
  decide

/-- the same input with the repaired `split`: the source's message keeps channel 0, the piece's copy gets 5 -/
example :
    let st := step exOrc (.split 0 0) (exHeap, [(.seq, 0)])
    let r := run exOrc [.setChannel 0 5] (st.1, st.2.drop 1)
    (r.1.msg 0).ch = 0 ∧ (r.1.msg 3).ch = 5 ∧ reach r.1 (.seq, 1) = [(.seq, 1), (.lst, 2), (.msg, 3), (.msg, 4), (.msg, 5)] := by
  decide

/-! ## non-vacuity: the hypotheses hold of concrete inputs, and the conclusions are evaluated there -/

/-- `exHeap` after `Sequence.copy()`, `sequences_split_bars([s], 0, True)` and `Bar.copy()` of the bar:
    environment `[seq 0 (original), seq 1 (copy), bar 0, bar 1 (copy of bar 0)]` -/
def exState : Heap × List Cell :=
  run exOrc [.seqCopy 0, .splitBars [0] 0 true 7 3, .barCopy 2 11] (exHeap, [(.seq, 0)])

example : exState.2 = [(.seq, 0), (.seq, 1), (.bar, 0), (.bar, 1)] := by decide

/-- `derive_fresh_seqCopy` evaluated: the copy reaches three new messages through one new view -/
example : reach (seqCopy exHeap 0).1 (.seq, (seqCopy exHeap 0).2) = [(.seq, 1), (.lst, 1), (.msg, 3), (.msg, 4), (.msg, 5)]
    ∧ reach exHeap (.seq, 0) = [(.seq, 0), (.lst, 0), (.msg, 0), (.msg, 1), (.msg, 2)] := by decide

/-- `derive_fresh_split`: its hypothesis holds of `exHeap`; a two-piece split of the three messages -/
example : AllocAll exHeap [(.seq, 0)] := by decide
example :
    let o : Orc := { exOrc with splitPlan := fun _ _ => [[.keep 0, .keep 1, .fresh (Msg.mkOff 0 60 pyNone)], [.keep 2]] }
    (split o 0 exHeap 0).2 = [1, 2]
      ∧ reach (split o 0 exHeap 0).1 (.seq, 1) = [(.seq, 1), (.lst, 3), (.msg, 4), (.msg, 5), (.msg, 6)]
      ∧ reach (split o 0 exHeap 0).1 (.seq, 2) = [(.seq, 2), (.lst, 4), (.msg, 7)] := by decide

/-- `op_frame`: hypothesis for `transpose` (with the shift branch: normalise + quantise_note_lengths) on
    the copy in `exState`, and for the sharer `concatenate` of the copy onto the original -/
example : AllocAll exState.1 (opRoots exState.2 (.transpose 1 5 true)) := by decide
example : AllocAll exState.1 (opRoots exState.2 (.concatenate 0 [1])) ∧
    opRoots exState.2 (.concatenate 0 [1]) = [(.seq, 0), (.seq, 1)] := by decide

/-- `independent`: the copy (W) against the original (x), and the copied bar against the first bar -/
example : AllocAll exState.1 [(.seq, 1)] ∧ AllocAll exState.1 [(.seq, 0)]
    ∧ Disjoint (reach exState.1 (.seq, 0)) (reachAll exState.1 [(.seq, 1)]) := by decide
example : AllocAll exState.1 [(.bar, 1)] ∧ AllocAll exState.1 [(.bar, 0)]
    ∧ Disjoint (reach exState.1 (.bar, 0)) (reachAll exState.1 [(.bar, 1)]) := by decide

/-- … and its conclusion evaluated on a history that transposes, re-channels, quantises and pads the
    copy, then concatenates the copy onto itself: the original's snapshot is what it was -/
example :
    snap (run exOrc [.transpose 0 1 true, .setChannel 0 5, .quantise 0 2, .pad 0 3, .concatenate 0 [0]]
      (exState.1, [(.seq, 1)])).1 0 = snap exState.1 0 := by decide

/-- the sharer is what the disjointness hypothesis excludes: after `original.concatenate([copy])` the
    two sides share the copy's messages, and a later `copy.set_channel(5)` shows through the original -/
example :
    let st := run exOrc [.concatenate 0 [1]] (exState.1, [(.seq, 0), (.seq, 1)])
    ¬ Disjoint (reach st.1 (.seq, 0)) (reachAll st.1 [(.seq, 1)])
      ∧ snap (run exOrc [.setChannel 1 5] st).1 0 ≠ snap st.1 0 := by decide

/-- `derived_independent`, `derive_sep`: hypotheses for bar splitting without re-quantisation from `exState` -/
example : isDerive (.splitBars [0, 1] 0 false 2 3) = true ∧ AllocAll exState.1 exState.2 := by decide

/-- `interleaved_independent`: original and copy are separated -/
example : Sep exState.1 [(.seq, 0), (.bar, 0)] [(.seq, 1), (.bar, 1)] := by
  refine ⟨?_, ?_, ?_⟩ <;> decide

/-- `copy_equal`: hypotheses and conclusion on `exHeap` (only the relative view is fresh) -/
example : AllocAll exHeap [(.seq, 0)] ∧ SeqOk exHeap 0 := by decide
example : snap (seqCopy exHeap 0).1 (seqCopy exHeap 0).2
    = { abs := [], rel := [Msg.mkOn 0 60 64 pyNone, Msg.mkWait 0 24, Msg.mkOff 0 60 pyNone],
        absStale := true, relStale := false } := by decide

end SCoda.C16c
