/-
  C10 — a Bar always lasts exactly its time signature, or its construction fails.
  `mkBar ppqn rel n d key` models `Bar.__init__` (after the repair of D9); `rel` is the relative view
  of the sequence handed to the constructor.  `barCapacity ppqn n d = (n * ppqn * 4) / d` is the bar
  length in ticks (numerator × 4 / denominator quarter notes; `Props/C11b` shows it is the int-typed
  value of the Python expression).
-/
import SCoda.Model.Bar
import SCoda.Model.Roll
import SCoda.Props.C07
import SCoda.Props.C18
import SCoda.Lemmas.Bar
namespace SCoda.C10
open SCoda SCoda.BarL

/-- an accepted bar lasts exactly its capacity -/
theorem bar_duration (ppqn : Int) (rel : List Msg) (n d key : Int) (b : Bar) (hw : NonNegWaits rel)
    (h : mkBar ppqn rel n d key = .ok b) : durRel b.seq = barCapacity ppqn n d := by
  have _ := hw
  obtain ⟨h1, _, _, hb⟩ := mkBar_ok h
  subst hb
  exact barSeq_dur ppqn rel n d h1

/-- an accepted bar starts with exactly one time-signature event equal to the bar's signature and
    contains no other; it records the signature and key it was given -/
theorem bar_leading_sig (ppqn : Int) (rel : List Msg) (n d key : Int) (b : Bar)
    (h : mkBar ppqn rel n d key = .ok b) :
    b.seq.head? = some (Msg.mkTimeSig 0 n d pyNone) ∧ (∀ m ∈ b.seq.tail, m.ty ≠ .timeSignature)
      ∧ b.num = n ∧ b.den = d ∧ b.key = key := by
  obtain ⟨_, _, _, hb⟩ := mkBar_ok h
  subst hb
  refine ⟨rfl, ?_, rfl, rfl, rfl⟩
  intro m hm
  simp only [barSeq, List.tail_cons, List.mem_filter, bne_iff_ne] at hm
  exact hm.2

/-- apart from that signature event, the bar holds exactly the normalised events of the sequence -/
theorem bar_events (ppqn : Int) (rel : List Msg) (n d key : Int) (b : Bar) (hw : NonNegWaits rel)
    (h : mkBar ppqn rel n d key = .ok b) :
    eventsRel b.seq = Msg.mkTimeSig 0 n d 0 :: (eventsRel (normalise rel)).filter (·.ty != .timeSignature) := by
  have _ := hw
  obtain ⟨_, _, _, hb⟩ := mkBar_ok h
  subst hb
  exact barSeq_events ppqn rel n d

/-- a sequence longer than the capacity is rejected -/
theorem bar_too_long (ppqn : Int) (rel : List Msg) (n d key : Int) (hw : NonNegWaits rel)
    (h : barCapacity ppqn n d < durRel rel) : mkBar ppqn rel n d key = .error .barError := by
  rcases mkBar_cases ppqn rel n d key with ⟨b, hb⟩ | he
  · have h1 := (mkBar_ok hb).1
    have := C07.duration_eq rel hw
    unfold durRel at this h
    omega
  · exact he

/-- a conflicting signature is rejected -/
theorem bar_conflict (ppqn : Int) (rel : List Msg) (n d key : Int)
    (h : ∃ m ∈ rel, m.ty = .timeSignature ∧ (m.num ≠ n ∨ m.den ≠ d))
    (h0 : ∀ m ∈ rel, m.ty = .timeSignature → (m.num, m.den) ≠ (pyNone, pyNone)) :
    mkBar ppqn rel n d key = .error .barError := by
  rcases mkBar_cases ppqn rel n d key with ⟨b, hb⟩ | he
  · exfalso
    obtain ⟨_, _, h3, _⟩ := mkBar_ok hb
    obtain ⟨m, hm, hty, hne⟩ := h
    have hmem : (m.num, m.den) ∈ tsVals rel := by
      simp only [tsVals, List.mem_map, List.mem_filter, beq_iff_eq]
      exact ⟨m, ⟨hm, hty⟩, rfl⟩
    have := mem_dedupD _ _ (pyNone, pyNone) hmem (h0 m hm hty)
    rw [← barSigs_vals ppqn rel n d, List.mem_map] at this
    obtain ⟨m', hm', e⟩ := this
    have := h3 m' hm'
    simp only [Prod.mk.injEq] at e
    rcases hne with hne | hne
    · exact hne (by rw [← e.1]; exact this.1)
    · exact hne (by rw [← e.2]; exact this.2)
  · exact he

/-- a second signature (one that survives normalisation, i.e. differs from the one before it) is rejected -/
theorem bar_two_sigs (ppqn : Int) (rel : List Msg) (n d key : Int)
    (h : 1 < (C07.timeSigs (normalise rel)).length) : mkBar ppqn rel n d key = .error .barError := by
  rcases mkBar_cases ppqn rel n d key with ⟨b, hb⟩ | he
  · have h2 := (mkBar_ok hb).2.1
    rw [barSigs_eq] at h2
    omega
  · exact he

/-- nothing else is rejected: a sequence that fits and whose signatures all equal the bar's is accepted -/
theorem bar_accepts (ppqn : Int) (rel : List Msg) (n d key : Int) (hw : NonNegWaits rel)
    (hfit : durRel rel ≤ barCapacity ppqn n d)
    (hsig : ∀ m ∈ rel, m.ty = .timeSignature → m.num = n ∧ m.den = d) (hn : (n, d) ≠ (pyNone, pyNone)) :
    ∃ b, mkBar ppqn rel n d key = .ok b := by
  have _ := hn
  refine ⟨_, mkBar_ok_of key ?_ ?_ ?_⟩
  · have := C07.duration_eq rel hw
    unfold durRel at this hfit
    omega
  · have hall : ∀ x ∈ tsVals rel, x = (n, d) := by
      intro x hx
      simp only [tsVals, List.mem_map, List.mem_filter, beq_iff_eq] at hx
      obtain ⟨m, ⟨hm, hty⟩, rfl⟩ := hx
      have := hsig m hm hty
      rw [this.1, this.2]
    have := dedupD_const_length (n, d) (tsVals rel) hall (pyNone, pyNone)
    rw [← barSigs_vals ppqn rel n d, List.length_map] at this
    exact this
  · intro m hm
    rw [barSigs_eq] at hm
    simp only [C07.timeSigs, List.mem_filter, beq_iff_eq] at hm
    rcases normalise_entries rel m hm.1 with h1 | h1
    · rw [hm.2] at h1; cases h1.1
    · exact hsig m h1.2 hm.2

/-- the constructor either raises a bar error or succeeds — nothing else -/
theorem bar_error_kind (ppqn : Int) (rel : List Msg) (n d key : Int) :
    (∃ b, mkBar ppqn rel n d key = .ok b) ∨ mkBar ppqn rel n d key = .error .barError := by
  exact mkBar_cases ppqn rel n d key

/-- copying a bar yields an equal bar: same signature, key, timed events and duration -/
theorem bar_copy (ppqn : Int) (rel : List Msg) (n d key : Int) (b : Bar) (hw : OkRel rel)
    (hn : (n, d) ≠ (pyNone, pyNone)) (hcap : 0 ≤ barCapacity ppqn n d)
    (h : mkBar ppqn rel n d key = .ok b) :
    ∃ b', b.copy ppqn = .ok b' ∧ b'.num = b.num ∧ b'.den = b.den ∧ b'.key = b.key
      ∧ eventsRel b'.seq = eventsRel b.seq ∧ durRel b'.seq = durRel b.seq := by
  have _ := hw
  have _ := hcap
  obtain ⟨h1, _, _, hb⟩ := mkBar_ok h
  subst hb
  have hS := barSeq_nonneg ppqn rel n d
  have hev : eventsRel (normalise (barSeq ppqn rel n d)) = eventsRel (barSeq ppqn rel n d) := by
    apply normalise_events_id _ hS (barSeq_wf ppqn rel n d)
    · rw [barSeq_tsVals]
      exact ⟨fun e => hn e.symm, trivial⟩
    · rw [barSeq_ksVals, normalise_ksVals]
      exact chainNe_dedupD _ _
  have hdur : totalWait (normalise (barSeq ppqn rel n d)) ≤ barCapacity ppqn n d := by
    rw [normalise_totalWait _ hS, barSeq_dur ppqn rel n d h1]
    exact Int.le_refl _
  have hvals := barSigs_vals ppqn (barSeq ppqn rel n d) n d
  rw [barSeq_tsVals] at hvals
  have hdd : dedupD (pyNone, pyNone) [(n, d)] = [(n, d)] :=
    dedupD_of_chainNe _ _ ⟨fun e => hn e.symm, trivial⟩
  rw [hdd] at hvals
  refine ⟨_, mkBar_ok_of key hdur ?_ ?_, rfl, rfl, rfl, ?_, ?_⟩
  · have := congrArg List.length hvals
    rw [List.length_map] at this
    rw [this]; simp
  · intro m hm
    have : (m.num, m.den) ∈ (barSigs ppqn (barSeq ppqn rel n d) n d).map (fun m => (m.num, m.den)) :=
      List.mem_map.2 ⟨m, hm, rfl⟩
    rw [hvals] at this
    simp only [List.mem_singleton, Prod.mk.injEq] at this
    exact this
  · show eventsRel (barSeq ppqn (barSeq ppqn rel n d) n d) = eventsRel (barSeq ppqn rel n d)
    rw [barSeq_events ppqn (barSeq ppqn rel n d), hev, barSeq_events ppqn rel n d]
    rw [List.filter_cons, if_neg (by simp [Msg.mkTimeSig]), List.filter_filter]
    simp
  · show durRel (barSeq ppqn (barSeq ppqn rel n d) n d) = durRel (barSeq ppqn rel n d)
    unfold durRel
    rw [barSeq_dur _ _ n d hdur, barSeq_dur ppqn rel n d h1]

/-! non-vacuity -/
def exRel : List Msg := [Msg.mkOn 0 60 64 pyNone, Msg.mkWait 0 24, Msg.mkOff 0 60 pyNone, Msg.mkWait 0 24]
example : (mkBar 24 exRel 3 4 pyNone).toOption.map (fun b => durRel b.seq) = some 72 := by
  decide
example : mkBar 24 exRel 1 4 pyNone = .error .barError := by
  rfl
example : mkBar 24 (Msg.mkTimeSig 0 4 4 pyNone :: exRel) 3 4 pyNone = .error .barError := by
  rfl

end SCoda.C10
