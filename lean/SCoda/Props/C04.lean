/-
  C04 — absolute and relative views of a Sequence never diverge under any history.

  Part 1: a generic two-view state machine, proved once for arbitrary view-local functions.
  Part 2: the conversion laws of the modelled `toRel` / `toAbs` (no event and no duration is lost).
  Part 3: instantiation with the modelled conversions.
-/
import SCoda.Model.Roll
import SCoda.Model.Wrapper
import SCoda.Lemmas.Conv
namespace SCoda.C04

/-! ## Part 1 — generic machine -/

/-- two representations with conversions, a content relation `E` between contents, and the
    side conditions `okA`/`okR` that the wrapper keeps true of a fresh view -/
structure Views (α ρ γ : Type) where
  toRel : α → ρ
  toAbs : ρ → α
  cA : α → γ
  cR : ρ → γ
  E : γ → γ → Prop
  okA : α → Prop
  okR : ρ → Prop
  E_refl : ∀ x, E x x
  E_symm : ∀ {x y}, E x y → E y x
  E_trans : ∀ {x y z}, E x y → E y z → E x z
  toRel_c : ∀ a, okA a → E (cR (toRel a)) (cA a)
  toAbs_c : ∀ r, okR r → E (cA (toAbs r)) (cR r)
  toRel_ok : ∀ a, okA a → okR (toRel a)
  toAbs_ok : ∀ r, okR r → okA (toAbs r)

structure St (α ρ : Type) where
  abs : α
  rel : ρ
  absStale : Bool
  relStale : Bool

variable {α ρ γ : Type} (V : Views α ρ γ)

/-- the public alphabet, abstractly: a mutator implemented on the absolute view (then the
    relative view is invalidated), one implemented on the relative view, the two overwrites,
    copy, refresh and the two reads (which regenerate a stale view) -/
inductive Op (V : Views α ρ γ)
  | absOp (f : α → α) (hf : ∀ a, V.okA a → V.okA (f a))
  | relOp (f : ρ → ρ) (hf : ∀ r, V.okR r → V.okR (f r))
  | setAbs (a : α) (h : V.okA a)
  | setRel (r : ρ) (h : V.okR r)
  | copy | refresh | readAbs | readRel

/-- regenerate the absolute view if stale (the `abs` property); `none` = "Sequence references stale" -/
def getAbs (s : St α ρ) : Option (St α ρ) :=
  if s.absStale then (if s.relStale then none else some { s with abs := V.toAbs s.rel, absStale := false })
  else some s

def getRel (s : St α ρ) : Option (St α ρ) :=
  if s.relStale then (if s.absStale then none else some { s with rel := V.toRel s.abs, relStale := false })
  else some s

/-- one public operation; `none` = the sequence became unreadable -/
def step (s : St α ρ) : Op V → Option (St α ρ)
  | .absOp f _ => (getAbs V s).map fun s => { s with abs := f s.abs, relStale := true }
  | .relOp f _ => (getRel V s).map fun s => { s with rel := f s.rel, absStale := true }
  | .setAbs a _ => some { s with abs := a, absStale := false, relStale := true }
  | .setRel r _ => some { s with rel := r, relStale := false, absStale := true }
  | .copy => some s          -- a copy holds exactly the fresh views: same state, new identity
  | .refresh => (getAbs V s).bind (getRel V)
  | .readAbs => getAbs V s
  | .readRel => getRel V s

/-- the wrapper invariant -/
def Inv (s : St α ρ) : Prop :=
  ¬(s.absStale = true ∧ s.relStale = true)
  ∧ (s.absStale = false → V.okA s.abs)
  ∧ (s.relStale = false → V.okR s.rel)
  ∧ (s.absStale = false → s.relStale = false → V.E (V.cA s.abs) (V.cR s.rel))

/-- run a history; `none` as soon as one operation fails -/
def run (s : St α ρ) : List (Op V) → Option (St α ρ)
  | [] => some s
  | op :: ops => (step V s op).bind (fun s' => run s' ops)

/-- the content of the sequence, read through whichever view is fresh -/
def content (s : St α ρ) : γ := if s.absStale then V.cR s.rel else V.cA s.abs

theorem step_inv (s : St α ρ) (h : Inv V s) (op : Op V) :
    ∃ s', step V s op = some s' ∧ Inv V s' := by
  obtain ⟨a, r, sa, sr⟩ := s
  have h1 := V.toRel_c
  have h2 := V.toAbs_c
  have h3 := V.toRel_ok
  have h4 := V.toAbs_ok
  have h5 := @Views.E_symm _ _ _ V
  cases op <;> cases sa <;> cases sr <;> simp_all [step, getAbs, getRel, Inv]

/-- no legal history leaves the sequence unreadable, and the invariant holds throughout -/
theorem run_inv (s : St α ρ) (h : Inv V s) (ops : List (Op V)) :
    ∃ s', run V s ops = some s' ∧ Inv V s' := by
  induction ops generalizing s with
  | nil => exact ⟨s, rfl, h⟩
  | cons op ops ih =>
    obtain ⟨s1, hs1, hi1⟩ := step_inv V s h op
    obtain ⟨s2, hs2, hi2⟩ := ih s1 hi1
    exact ⟨s2, by simp [run, hs1, hs2], hi2⟩

/-- after any history both views can be read and describe the same content -/
theorem views_agree (s : St α ρ) (h : Inv V s) (ops : List (Op V)) :
    ∃ s' sa sr, run V s ops = some s' ∧ getAbs V s' = some sa ∧ getRel V sa = some sr
      ∧ V.E (V.cA sr.abs) (V.cR sr.rel) := by
  obtain ⟨s', hr, hi⟩ := run_inv V s h ops
  refine ⟨s', ?_⟩
  obtain ⟨a, r, fa, fr⟩ := s'
  have h1 := V.toRel_c
  have h2 := V.toAbs_c
  have h3 := V.toRel_ok
  have h4 := V.toAbs_ok
  have h5 := @Views.E_symm _ _ _ V
  have h6 := V.E_refl
  cases fa <;> cases fr <;> simp_all [getAbs, getRel, Inv]

/-- the effect of a mutator on the absolute side is visible through the relative view -/
theorem absOp_visible (s : St α ρ) (h : Inv V s) (f : α → α) (hf) :
    ∃ s0 s1 s2, getAbs V s = some s0 ∧ step V s (.absOp f hf) = some s1 ∧ getRel V s1 = some s2
      ∧ V.E (V.cR s2.rel) (V.cA (f s0.abs)) := by
  obtain ⟨a, r, fa, fr⟩ := s
  have h1 := V.toRel_c
  have h2 := V.toAbs_c
  have h3 := V.toRel_ok
  have h4 := V.toAbs_ok
  have h5 := @Views.E_symm _ _ _ V
  have h6 := V.E_refl
  cases fa <;> cases fr <;> simp_all [step, getAbs, getRel, Inv]
  exact h1 _ (hf _ (h4 _ h))

/-- and symmetrically -/
theorem relOp_visible (s : St α ρ) (h : Inv V s) (f : ρ → ρ) (hf) :
    ∃ s0 s1 s2, getRel V s = some s0 ∧ step V s (.relOp f hf) = some s1 ∧ getAbs V s1 = some s2
      ∧ V.E (V.cA s2.abs) (V.cR (f s0.rel)) := by
  obtain ⟨a, r, fa, fr⟩ := s
  have h1 := V.toRel_c
  have h2 := V.toAbs_c
  have h3 := V.toRel_ok
  have h4 := V.toAbs_ok
  have h5 := @Views.E_symm _ _ _ V
  have h6 := V.E_refl
  cases fa <;> cases fr <;> simp_all [step, getAbs, getRel, Inv]
  exact h2 _ (hf _ (h3 _ h))

/-- reads never change the content -/
theorem read_content (s : St α ρ) (h : Inv V s) :
    ∃ s', step V s .readAbs = some s' ∧ V.E (content V s') (content V s) := by
  obtain ⟨a, r, fa, fr⟩ := s
  have h1 := V.toRel_c
  have h2 := V.toAbs_c
  have h3 := V.toRel_ok
  have h4 := V.toAbs_ok
  have h5 := @Views.E_symm _ _ _ V
  have h6 := V.E_refl
  cases fa <;> cases fr <;> simp_all [step, getAbs, Inv, content]

/-! ## Part 2 — the modelled conversions lose no event and no duration -/

open SCoda

/-- content of a view: timed events up to reordering, and the duration -/
def ContentEq (x y : List Msg × Int) : Prop := x.1.Perm y.1 ∧ x.2 = y.2

theorem toRel_events (a : List Msg) (h : OkAbs a) : eventsRel (toRel a) = eventsAbs a := by
  obtain ⟨hs, hn, hw⟩ := h
  exact eventsRelGo_toRelGo a 0 ((timeSorted_iff_pairwise a).1 hs) hn hw

theorem toRel_duration (a : List Msg) (h : OkAbs a) : durRel (toRel a) = durAbs a := by
  obtain ⟨hs, hn, hw⟩ := h
  have := totalWait_toRelGo a 0 ((timeSorted_iff_pairwise a).1 hs) hn hw
  rw [durAbs_eq_lastTimeD, ← this]
  simp [durRel, toRel]

theorem toRel_ok (a : List Msg) (h : OkAbs a) : OkRel (toRel a) := by
  obtain ⟨hs, hn, hw⟩ := h
  exact ⟨fun m hm => (toRelGo_ok a 0 hw m hm).1, fun m hm => (toRelGo_ok a 0 hw m hm).2⟩

theorem toAbs_events (r : List Msg) (h : OkRel r) : (eventsAbs (toAbs r)).Perm (eventsRel r) := by
  have hni := eventsRel_not_internal r h
  have hfilt : (eventsRel r).filter (fun m => m.ty != .internal) = eventsRel r := by
    rw [List.filter_eq_self]
    intro e he
    simpa using hni e he
  rw [toAbs_eq]
  split
  · have := (sortAbs_perm (eventsRel r)).filter (fun m => m.ty != .internal)
    rw [hfilt] at this
    exact this
  · have := (insort_perm (sortAbs (eventsRel r))
      (Msg.mkInternal ((r.foldl toAbsStep {}).defCh.getD 0) (totalWait r))).filter
      (fun m => m.ty != .internal)
    refine this.trans ?_
    have h2 := (sortAbs_perm (eventsRel r)).filter (fun m => m.ty != .internal)
    rw [hfilt] at h2
    simpa [Msg.mkInternal] using h2

theorem toAbs_duration (r : List Msg) (h : OkRel r) : durAbs (toAbs r) = durRel r := by
  obtain ⟨hp, hb, hex⟩ := toAbs_struct r h
  rcases hex with hex | ⟨hnil, h0⟩
  · exact durAbs_of_max _ _ hp (fun e he => (hb e he).2.1) hex
  · rw [hnil, durRel, h0]; rfl

theorem toAbs_ok (r : List Msg) (h : OkRel r) : OkAbs (toAbs r) := by
  obtain ⟨hp, hb, _⟩ := toAbs_struct r h
  exact ⟨(timeSorted_iff_pairwise _).2 hp, fun e he => (hb e he).1, fun e he => (hb e he).2.2⟩

/-! ## Part 3 — instantiation -/

def views : Views (List Msg) (List Msg) (List Msg × Int) where
  toRel := toRel
  toAbs := toAbs
  cA := fun a => (eventsAbs a, durAbs a)
  cR := fun r => (eventsRel r, durRel r)
  E := ContentEq
  okA := OkAbs
  okR := OkRel
  E_refl := fun _ => ⟨List.Perm.refl _, rfl⟩
  E_symm := fun h => ⟨h.1.symm, h.2.symm⟩
  E_trans := fun h1 h2 => ⟨h1.1.trans h2.1, h1.2.trans h2.2⟩
  toRel_c := fun a h => ⟨List.Perm.of_eq (toRel_events a h), toRel_duration a h⟩
  toAbs_c := fun r h => ⟨toAbs_events r h, toAbs_duration r h⟩
  toRel_ok := toRel_ok
  toAbs_ok := toAbs_ok

/-- the concrete wrapper states of `Model/Wrapper.lean` are states of the generic machine -/
def ofSeq (s : Seq) : St (List Msg) (List Msg) :=
  { abs := s.abs, rel := s.rel, absStale := s.absStale, relStale := s.relStale }

/-- the concrete reads are the generic reads -/
theorem readAbs_refines (s : Seq) :
    (s.readAbs.toOption.map (fun p => ofSeq p.1)) = getAbs views (ofSeq s) := by
  obtain ⟨a, r, fa, fr⟩ := s
  cases fa <;> cases fr <;> rfl

theorem readRel_refines (s : Seq) :
    (s.readRel.toOption.map (fun p => ofSeq p.1)) = getRel views (ofSeq s) := by
  obtain ⟨a, r, fa, fr⟩ := s
  cases fa <;> cases fr <;> rfl

/-- the three constructors of `Sequence` start in the invariant -/
theorem inv_new : Inv views (ofSeq Seq.new) := by
  simp [Inv, ofSeq, Seq.new, views, OkAbs, TimeSorted, NonNegTimes]

theorem inv_ofAbs (a : List Msg) (h : OkAbs a) : Inv views (ofSeq (Seq.ofAbs a)) := by
  simp [Inv, ofSeq, Seq.ofAbs, views, h]

theorem inv_ofRel (r : List Msg) (h : OkRel r) : Inv views (ofSeq (Seq.ofRel r)) := by
  simp [Inv, ofSeq, Seq.ofRel, views, h]

/-! non-vacuity: a concrete non-trivial sequence satisfies the hypotheses -/
example : OkAbs [Msg.mkOn 0 60 64 0, Msg.mkOff 0 60 24, Msg.mkInternal 0 48] := by
  refine ⟨?_, ?_, by decide⟩
  · simp [TimeSorted, Msg.mkOn, Msg.mkOff, Msg.mkInternal]
  · simp [NonNegTimes, Msg.mkOn, Msg.mkOff, Msg.mkInternal]
example : OkRel (toRel [Msg.mkOn 0 60 64 0, Msg.mkOff 0 60 24, Msg.mkInternal 0 48]) := by
  apply toRel_ok
  refine ⟨?_, ?_, by decide⟩
  · simp [TimeSorted, Msg.mkOn, Msg.mkOff, Msg.mkInternal]
  · simp [NonNegTimes, Msg.mkOn, Msg.mkOff, Msg.mkInternal]

end SCoda.C04
