/-
  C12 / C13 — the MIDI side.
  * save: `toMido` turns a relative view into delta-timed MIDI events; the running sum of the deltas
    puts every emitted event back on its original tick (the delta buffer is carried across waits
    and across messages that emit nothing).
  * load: `convert` places every event at `roundHalfEven (file_tick * ppqn / file_ppq)` where
    `file_tick` is the *prefix sum* of the track's delta times — the rounding error is at most half a
    tick and does not accumulate; events are routed by track index; an out-of-range meta target is a ValueError.
  `mido`'s file codec is not modelled; the code's accumulated IEEE doubles are modelled by exact
  rationals (they can differ only at exact .5 ties, DESIGN §4 C13).
-/
import SCoda.Model.Midi
import SCoda.Model.Roll
import SCoda.Lemmas.Midi
namespace SCoda.C13
open SCoda SCoda.MidiL

/-! ## rounding -/

/-- half-to-even rounding is within half a tick of the exact position -/
theorem round_error (q : Rat) :
    -((1 : Rat) / 2) ≤ ((roundHalfEven q : Int) : Rat) - q ∧ ((roundHalfEven q : Int) : Rat) - q ≤ (1 : Rat) / 2 := by
  have h1 := Rat.floor_le q
  have h2 := Rat.lt_floor_add_one q
  have h3 : ((q.floor + 1 : Int) : Rat) = (q.floor : Rat) + 1 := by simp [Rat.intCast_add]
  rw [h3] at h2
  unfold roundHalfEven
  simp only
  split
  · constructor <;> grind
  · split
    · rw [h3]; constructor <;> grind
    · split
      · constructor <;> grind
      · rw [h3]; constructor <;> grind

/-- and is exact on integers (resolution equal to the library's: nothing moves) -/
theorem round_int (n : Int) : roundHalfEven (n : Rat) = n := by
  unfold roundHalfEven
  have : ((n : Rat) - (n : Rat)) < 1/2 := by grind
  simp [Rat.floor_intCast, this]

/-- the exact position of file tick `t` -/
def exactPos (ppqn filePpq : Int) (t : Int) : Rat := (t : Rat) * (ppqn : Rat) / (filePpq : Rat)

/-! ## save: delta times -/

/-- replace delta times by running absolute ticks -/
def cumulate (start : Int) : List MidiEv → List MidiEv
  | [] => []
  | e :: es => { e with time := start + e.time } :: cumulate (start + e.time) es

/-- the message types `to_mido_track` emits -/
def emitted (m : Msg) : Bool :=
  m.ty == .noteOn || m.ty == .noteOff || m.ty == .timeSignature || m.ty == .keySignature || m.ty == .controlChange

/-- what an emitted message looks like on the MIDI side (channel 0 / none, note-off velocity 0,
    missing note-on velocity 127), at absolute tick `m.time` -/
def midiShape (m : Msg) : MidiEv :=
  match m.ty with
  | .noteOn => { m with ch := 0, vel := if m.vel == pyNone then 127 else m.vel }
  | .noteOff => { m with ch := 0, vel := 0 }
  | .timeSignature => { m with ch := pyNone }
  | .keySignature => { m with ch := pyNone }
  | _ => { m with ch := 0 }

/-- the invariant behind the delta buffer: `start + buf` is the running clock -/
theorem toMidoGo_cumulate (r : List Msg) (h : ∀ m ∈ r, m.ty ≠ .wait → m.time = pyNone)
    (hw : ∀ m ∈ r, m.ty = .wait → m.time ≠ pyNone) (start buf : Int) :
    cumulate start (toMidoGo buf r)
      = ((eventsRelGo (start + buf) r).filter emitted).map midiShape := by
  induction r generalizing start buf with
  | nil => simp [toMidoGo, eventsRelGo, cumulate]
  | cons m ms ih =>
    have ih' := ih (fun x hx => h x (List.mem_cons_of_mem _ hx)) (fun x hx => hw x (List.mem_cons_of_mem _ hx))
    have hm := h m (List.mem_cons_self)
    have hmw := hw m (List.mem_cons_self)
    cases hty : m.ty <;> simp [hty] at hm hmw <;>
      simp [toMidoGo, eventsRelGo, cumulate, emitted, midiShape, hty, hm, hmw, ih', Int.add_assoc]

/-- **delta buffer** (the statement as requested): summing the deltas of the saved track gives every
    emitted event its original tick, in the original order — for a relative view whose non-wait
    messages carry no time of their own.
    FALSE for the model as stated: a wait of exactly `-1` ticks is indistinguishable from
    `time = None` (`pyNone = -1`), so `toMidoGo` does not add it to the buffer while `eventsRel`
    does move the clock (see `toMido_ticks_statement_false`). -/
def toMido_ticks_statement : Prop :=
  ∀ (r : List Msg) (_h : ∀ m ∈ r, m.ty ≠ .wait → m.time = pyNone),
    cumulate 0 (toMido r) = ((eventsRel r).filter emitted).map midiShape

theorem toMido_ticks_statement_false : ¬ toMido_ticks_statement := by
  intro h
  have := h [Msg.mkWait 0 (-1), Msg.mkOn 0 60 64 pyNone] (by decide)
  revert this
  decide

/-- the delta-buffer theorem with the missing hypothesis made explicit: no wait has the out-of-band
    duration `pyNone = -1` (in particular: all waits non-negative, `toMido_ticks_nonneg`) -/
theorem toMido_ticks_partial (r : List Msg) (h : ∀ m ∈ r, m.ty ≠ .wait → m.time = pyNone)
    (hw : ∀ m ∈ r, m.ty = .wait → m.time ≠ pyNone) :
    cumulate 0 (toMido r) = ((eventsRel r).filter emitted).map midiShape := by
  simpa [toMido, eventsRel] using toMidoGo_cumulate r h hw 0 0

theorem toMido_ticks_nonneg (r : List Msg) (h : ∀ m ∈ r, m.ty ≠ .wait → m.time = pyNone)
    (hw : NonNegWaits r) :
    cumulate 0 (toMido r) = ((eventsRel r).filter emitted).map midiShape :=
  toMido_ticks_partial r h (fun m hm hty => by have := hw m hm hty; simp only [pyNone]; omega)

/-! ## load: one track -/

/-- the internal message (if any) made from the j-th event of a track sits at the rounded exact position
    of the prefix sum of the deltas up to and including j -/
def prefixSum : List MidiEv → Int
  | [] => 0
  | e :: es => e.time + prefixSum es

theorem convMsg_tick (ppqn filePpq : Int) (loc : Option (Nat × Nat)) (s : ConvSt) (ticks : Int) (m : MidiEv)
    (s' : ConvSt) (ticks' : Int) (h : convMsg ppqn filePpq loc (s, ticks) m = .ok (s', ticks')) :
    ticks' = ticks + m.time
    ∧ ∀ dest msg, convEvent loc.isSome m (roundHalfEven (exactPos ppqn filePpq ticks')) = some (dest, msg) →
        msg.time = roundHalfEven (exactPos ppqn filePpq ticks') :=
  ⟨convMsg_snd _ _ _ _ _ _ h, fun _ _ h' => convEvent_time _ _ _ _ _ h'⟩

theorem foldlM'_convMsg_ticks (ppqn filePpq : Int) (loc : Option (Nat × Nat)) (acc : ConvSt × Int)
    (evs : List MidiEv) (r : ConvSt × Int) (h : foldlM' (convMsg ppqn filePpq loc) acc evs = .ok r) :
    r.2 = acc.2 + prefixSum evs := by
  induction evs generalizing acc with
  | nil => simp [foldlM'] at h; simp [← h, prefixSum]
  | cons e es ih =>
    unfold foldlM' at h
    split at h
    · rename_i b' hb
      have := convMsg_snd _ _ _ _ _ _ hb
      rw [ih _ h, this, prefixSum]; omega
    · simp at h

/-- the running file tick after a whole track is the sum of its deltas — no rounding is ever fed back -/
theorem convTrack_ticks (ppqn filePpq : Int) (loc : Option (Nat × Nat)) (s : ConvSt) (evs : List MidiEv)
    (r : ConvSt × Int) (h : foldlM' (convMsg ppqn filePpq loc) (s, 0) evs = .ok r) :
    r.2 = prefixSum evs := by
  simpa using foldlM'_convMsg_ticks ppqn filePpq loc (s, 0) evs r h

/-- note-on with velocity 0 is a note-off already at parse time; here: a note event of a track outside
    every group creates nothing (tracks outside every group contribute no notes) -/
theorem outside_group_no_notes (m : MidiEv) (rt : Int) (h : m.ty = .noteOn ∨ m.ty = .noteOff) :
    convEvent false m rt = Option.none := by
  rcases h with h | h <;> simp [convEvent, h]

/-- time and key signatures (and control changes) always go to the meta sequence, whatever track they
    come from (the statement as requested).
    FALSE for the model as stated: `convEvent` copies only the fields that belong to the event's type
    (numerator/denominator for a time signature, key for a key signature); the others become `pyNone`
    whatever the event carried (see `signatures_to_meta_statement_false`). -/
def signatures_to_meta_statement : Prop :=
  ∀ (inGroup : Bool) (m : MidiEv) (rt : Int) (_h : m.ty = .timeSignature ∨ m.ty = .keySignature),
    ∃ msg, convEvent inGroup m rt = some (true, msg) ∧ msg.ty = m.ty ∧ msg.time = rt
      ∧ msg.num = m.num ∧ msg.den = m.den ∧ msg.key = m.key

theorem signatures_to_meta_statement_false : ¬ signatures_to_meta_statement := by
  intro h
  obtain ⟨msg, h1, _, _, _, _, h2⟩ := h false { ty := .timeSignature, num := 3, den := 4, key := 5 } 0 (Or.inl rfl)
  simp [convEvent, Msg.mkTimeSig] at h1
  subst h1
  revert h2
  decide

/-- the same with the missing hypothesis made explicit: the event carries no field foreign to its type
    (which is what `parse_mido_message` produces) -/
theorem signatures_to_meta_partial (inGroup : Bool) (m : MidiEv) (rt : Int)
    (h : m.ty = .timeSignature ∨ m.ty = .keySignature)
    (hf : (m.ty = .timeSignature → m.key = pyNone) ∧ (m.ty = .keySignature → m.num = pyNone ∧ m.den = pyNone)) :
    ∃ msg, convEvent inGroup m rt = some (true, msg) ∧ msg.ty = m.ty ∧ msg.time = rt
      ∧ msg.num = m.num ∧ msg.den = m.den ∧ msg.key = m.key := by
  rcases h with h | h
  · simp [convEvent, h, Msg.mkTimeSig, hf.1 h]
  · simp [convEvent, h, (hf.2 h).1, (hf.2 h).2]

/-- unconditionally: routed to the meta sequence, with the fields of the event's own type kept -/
theorem signatures_to_meta_fields (inGroup : Bool) (m : MidiEv) (rt : Int)
    (h : m.ty = .timeSignature ∨ m.ty = .keySignature) :
    ∃ msg, convEvent inGroup m rt = some (true, msg) ∧ msg.ty = m.ty ∧ msg.time = rt
      ∧ (m.ty = .timeSignature → msg.num = m.num ∧ msg.den = m.den)
      ∧ (m.ty = .keySignature → msg.key = m.key) := by
  rcases h with h | h <;> simp [convEvent, h, Msg.mkTimeSig]

/-- notes of a grouped track go to that track's own sequence with pitch, velocity and channel kept -/
theorem notes_to_group (m : MidiEv) (rt : Int) (h : m.ty = .noteOn ∨ m.ty = .noteOff) :
    ∃ msg, convEvent true m rt = some (false, msg) ∧ msg.ty = m.ty ∧ msg.time = rt ∧ msg.note = m.note
      ∧ (m.ty = .noteOn → msg.vel = m.vel) ∧ msg.ch = (if m.ch == pyNone then 0 else m.ch) := by
  rcases h with h | h <;> simp [convEvent, h, Msg.mkOn, Msg.mkOff]

/-! ## load: the whole file -/

/-- an invalid meta target index is rejected with ValueError (when nothing failed earlier), a valid one is not -/
theorem bad_target (ppqn filePpq : Int) (tracks : List (List MidiEv)) (groups : List (List Nat))
    (metaIdx : List Nat) (target : Int) (hg : ∀ g ∈ groups, g ≠ [])
    (ht : target < 0 ∨ (groups.length : Int) ≤ target) :
    ∃ e, convert ppqn filePpq tracks groups metaIdx target = .error e ∧ (e = .valueError ∨ e = .indexError) := by
  -- `hg` is not needed: an empty group could only add another `.indexError`
  have _ := hg
  rw [convert_eq]
  simp only [bind, Except.bind]
  have h1 := tracks_inv ppqn filePpq tracks groups metaIdx
  split
  · rename_i e he
    exact ⟨e, rfl, Or.inr (h1.of_error he)⟩
  · rename_i s hs
    have hinv : CInv groups.length s := h1.of_ok hs
    have h2 := groups_res s.seqs hinv.2.1
    split
    · rename_i e he
      exact ⟨e, rfl, Or.inr (h2.of_error he)⟩
    · rename_i merged hm
      have hl : merged.length = groups.length := by rw [groups_length _ _ hm, hinv.1]
      exact ⟨.valueError, finish_bad _ _ _ (by rw [hl]; exact ht), Or.inl rfl⟩

/-- one sequence per requested group -/
theorem one_per_group (ppqn filePpq : Int) (tracks : List (List MidiEv)) (groups : List (List Nat))
    (metaIdx : List Nat) (target : Int) (out : List Seq)
    (h : convert ppqn filePpq tracks groups metaIdx target = .ok out) : out.length = groups.length := by
  rw [convert_eq] at h
  simp only [bind, Except.bind] at h
  have h1 := tracks_inv ppqn filePpq tracks groups metaIdx
  split at h
  · simp at h
  · rename_i s hs
    have hinv : CInv groups.length s := h1.of_ok hs
    split at h
    · simp at h
    · rename_i merged hm
      rw [(finish_ok _ _ _ _ h).1, groups_length _ _ hm, hinv.1]

/-- the designated meta sequence has a time signature at tick 0 (the file's, or the default 4/4) -/
theorem default_signature (ppqn filePpq : Int) (tracks : List (List MidiEv)) (groups : List (List Nat))
    (metaIdx : List Nat) (target : Int) (out : List Seq)
    (h : convert ppqn filePpq tracks groups metaIdx target = .ok out) :
    ∃ s a, out[target.toNat]? = some s ∧ s.readAbs = .ok (s, a) ∧ ∃ m ∈ a, m.ty = .timeSignature ∧ m.time = 0 := by
  rw [convert_eq] at h
  simp only [bind, Except.bind] at h
  split at h
  · simp at h
  · split at h
    · simp at h
    · exact (finish_ok _ _ _ _ h).2

/-! non-vacuity -/
example : roundHalfEven ((5 : Rat) / 2) = 2 ∧ roundHalfEven ((7 : Rat) / 2) = 4 ∧ roundHalfEven ((-1 : Rat) / 2) = 0 := by
  decide +kernel
example : cumulate 0 (toMido [Msg.mkWait 0 6, Msg.mkOn 0 60 64 pyNone, Msg.mkWait 0 10, { ty := .programChange, prog := 3 },
                              Msg.mkWait 0 14, Msg.mkOff 0 60 pyNone])
    = [{ (Msg.mkOn 0 60 64 6) with ch := 0 }, { (Msg.mkOff 0 60 30) with ch := 0, vel := 0 }] := by
  decide

end SCoda.C13
