/-
  C19, second part — for streams produced by `tokenise`: each note's in-bar time equals its onset
  minus the start of its bar, and annotated times never decrease.
  The "start of its bar" is the last bar end (`INTERNAL` marker) the detokeniser has emitted so far
  (tick 0 before any).
-/
import SCoda.Props.C19
import SCoda.Props.C01
import SCoda.Lemmas.InBar
namespace SCoda.C19
open SCoda SCoda.C01

/-- the last bar end in an emission log (0 if there is none yet) -/
def lastBarEnd (log : List Emit) : Int :=
  match log.reverse.findSome? (fun e => match e with | .barEnd t => some t | _ => Option.none) with
  | some t => t
  | Option.none => 0

/-- `lastBarEnd` is the left fold `InBar.lbe` started at 0 -/
theorem lastBarEnd_eq_lbe (log : List Emit) : lastBarEnd log = InBar.lbe 0 log := by
  unfold lastBarEnd
  generalize (0 : Int) = L
  induction log generalizing L with
  | nil => rfl
  | cons e es ih =>
    rw [List.reverse_cons, List.findSome?_append]
    have h1 : InBar.lbe L (e :: es) = InBar.lbe (InBar.lbe L [e]) es := InBar.lbe_append L [e] es
    rw [h1, ← ih]
    cases hf : es.reverse.findSome? (fun e => match e with | .barEnd t => some t | _ => Option.none) with
    | some t => rfl
    | none => cases e <;> rfl

/-- `lastBarEnd` really is the last `barEnd` entry -/
theorem lastBarEnd_spec (pre : List Emit) (t : Int) (post : List Emit)
    (h : ∀ e ∈ post, ∀ u, e ≠ .barEnd u) : lastBarEnd (pre ++ Emit.barEnd t :: post) = t := by
  rw [lastBarEnd_eq_lbe, InBar.lbe_append, InBar.lbe_cons_barEnd, InBar.lbe_noBar t post h]

/-- **in-bar clock** (any stream the detokeniser accepts, from the initial state): after every prefix the
    in-bar time is the time elapsed since the last bar end emitted -/
theorem in_bar_clock (c : Cfg) (toks : List Tok) (d : DetokSt) (log : List Emit)
    (h : dfold c (DetokSt.init c) toks = .ok (d, log)) :
    d.curTimeBar = d.curTime - lastBarEnd log := by
  rw [lastBarEnd_eq_lbe]
  exact InBar.dfold_inbar c toks _ d log 0 h (by simp [DetokSt.init])

/-- hence the annotation of the token after `pre`: its in-bar time is its time minus the start of its bar -/
theorem in_bar_annotation (c : Cfg) (cof : Int → Int) (imp : Bool) (pre : List Tok) (t : Tok) (post : List Tok)
    (d : DetokSt) (log : List Emit) (h : dfold c (DetokSt.init c) pre = .ok (d, log)) :
    ∃ p q, (getInfo c cof imp (pre ++ t :: post))[pre.length]? =
      some ((pre.length : Int), d.curTime, d.curTime - lastBarEnd log, p, q) := by
  have hd : detokFold c pre = .ok d := (dfold_fold c pre _ d log h).1
  obtain ⟨h1, h2, -⟩ := clocks_agree c cof imp pre d hd
  obtain ⟨p, q, hr⟩ := row_at c cof imp pre t post
  refine ⟨p, q, ?_⟩
  rw [hr, h1, h2, in_bar_clock c pre d log h]

/-- `dfold` and the fold of C19 (`detokFold`) are the same run -/
theorem dfold_detokFold (c : Cfg) (toks : List Tok) (d : DetokSt) (log : List Emit)
    (h : dfold c (DetokSt.init c) toks = .ok (d, log)) : detokFold c toks = .ok d :=
  (dfold_fold c toks _ d log h).1

/-- the initial states are related (no track-count hypothesis needed for `RelD`) -/
theorem relD_init (c : Cfg) : RelD c (TokSt.init c) (DetokSt.init c) :=
  ⟨rfl, rfl, rfl, rfl, Or.inl (by simp [TokSt.init]), Or.inl (by simp [TokSt.init]), Or.inl (by simp [TokSt.init]),
    by simp [DetokSt.init]⟩

/-- **monotone** (streams produced by `tokenise` from the initial state): annotated times never decrease -/
theorem times_monotone (c : Cfg) (hc : CfgOk c) (evs : List (Int × Pairing)) (toks : List Tok) (st' : TokSt)
    (hev : EvsOk c 0 0 evs)
    (hcap0 : 0 < c.capacity c.defNum c.defDen)
    (hcapEv : ∀ ev ∈ evs, ∀ m ∈ ev.2.head?, m.ty = .timeSignature → 0 < c.capacity m.num m.den)
    (hok : tokeniseCore c (TokSt.init c) evs = .ok (toks, st')) (cof : Int → Int) (imp : Bool) :
    List.Pairwise (fun a b => a.2.1 ≤ b.2.1) (getInfo c cof imp toks) := by
  have _ := hcap0; have _ := hcapEv
  obtain ⟨E, _, _, _, _, a5⟩ := core_sim c hc (TokSt.init c) st' evs toks (Int.le_refl 0) (Or.inr ⟨rfl, rfl⟩) hev hok
  obtain ⟨d', log', b1, _, _⟩ := a5 (DetokSt.init c) (relD_init c)
  have hm := InBar.core_mono c hc (TokSt.init c) st' evs toks (Int.le_refl 0) (Or.inr ⟨rfl, rfl⟩) hev hok
    (DetokSt.init c) (relD_init c)
  have hclk : Clk { capTotal := c.capacity c.defNum c.defDen, capRem := c.capacity c.defNum c.defDen }
      (DetokSt.init c) := ⟨rfl, rfl, rfl, rfl⟩
  have hp := (InBar.times_pairwise c cof imp toks _ _ d' log' hclk hm b1).1
  have ho := InBar.out_times c cof imp toks
    { capTotal := c.capacity c.defNum c.defDen, capRem := c.capacity c.defNum c.defDen }
  simp only [List.reverse_nil, List.map_nil, List.nil_append] at ho
  rw [← ho] at hp
  exact List.pairwise_map.1 hp

/-- and in such streams the bar ends are emitted in increasing order, each exactly when the bar is full
    (so "the start of its bar" is unambiguous) -/
theorem barEnds_increasing (c : Cfg) (hc : CfgOk c) (evs : List (Int × Pairing)) (toks : List Tok) (st' : TokSt)
    (hev : EvsOk c 0 0 evs)
    (hcap0 : 0 < c.capacity c.defNum c.defDen)
    (hcapEv : ∀ ev ∈ evs, ∀ m ∈ ev.2.head?, m.ty = .timeSignature → 0 < c.capacity m.num m.den)
    (hok : tokeniseCore c (TokSt.init c) evs = .ok (toks, st')) (d : DetokSt) (log : List Emit)
    (h : dfold c (DetokSt.init c) toks = .ok (d, log)) :
    List.Pairwise (· < ·) (log.filterMap (fun e => match e with | .barEnd t => some t | _ => Option.none)) := by
  obtain ⟨E, a1, _, _, _, a5⟩ := core_sim c hc (TokSt.init c) st' evs toks (Int.le_refl 0) (Or.inr ⟨rfl, rfl⟩) hev hok
  obtain ⟨d', log', b1, _, b3⟩ := a5 (DetokSt.init c) (relD_init c)
  rw [h] at b1
  cases b1
  have hpw := InBar.specLog_pw c (TokSt.init c) evs hcap0 (Int.le_refl 0) hcap0 hcapEv
  rw [a1] at hpw
  simp only at hpw
  rw [← b3, InBar.bes_filter] at hpw
  exact hpw

/-! non-vacuity -/
example : lastBarEnd [.note 0 60 127 0 24, .barEnd 72, .note 0 62 127 80 90, .barEnd 144, .tsig 144 3 4] = 144 := by
  decide

end SCoda.C19
