/-
  C17 — equals distinguishes exactly the sequences that differ musically.
  `equalsAbs ppqn f a b` models `AbsoluteSequence.equals` (after the repair of D4): both lists are
  sorted, paired per channel, interleaved by onset, and compared pair by pair.
-/
import SCoda.Model.Pairing
import SCoda.Model.Roll
import SCoda.Lemmas.Equals
namespace SCoda.C17
open SCoda

/-- equality is reflexive (for every list, well-formed or not, and every flag set) -/
theorem refl (ppqn : Int) (f : EqFlags) (a : List Msg) : equalsAbs ppqn f a a = true := by
  simp only [equalsAbs, beq_self_eq_true, Bool.true_and]
  apply EQ.zipAll_refl
  intro x hx
  exact EQ.pairEq_refl f (EQ.inv_interleaved (fun _ => True) _ _ a (fun _ _ => trivial) x hx).2

/-- and symmetric -/
theorem symm (ppqn : Int) (f : EqFlags) (a b : List Msg) : equalsAbs ppqn f a b = equalsAbs ppqn f b a := by
  simp only [equalsAbs]
  rw [EQ.zipAll_symm _ (EQ.pairEq_symm f), BEq.comm]

/-- the sort key of a message -/
def sortKey (m : Msg) : Int × Int × Nat × Int := (m.time, m.ch, m.ty.rank, m.note)

/-- insertion order does not matter: two lists with the same messages, all with distinct sort keys,
    are interchangeable in either argument (sequences built from the same events through either
    representation or in any insertion order compare equal) -/
theorem perm_invariant (ppqn : Int) (f : EqFlags) (a a' b : List Msg) (hp : a.Perm a')
    (hk : (a.map sortKey).Nodup) :
    equalsAbs ppqn f a b = equalsAbs ppqn f a' b ∧ equalsAbs ppqn f b a = equalsAbs ppqn f b a' := by
  have h : sortAbs a = sortAbs a' := EQ.sortAbs_eq_of_perm hp hk
  simp only [equalsAbs, interleaved, pairings, h, and_self]

theorem equals_of_perm (ppqn : Int) (f : EqFlags) (a a' : List Msg) (hp : a.Perm a')
    (hk : (a.map sortKey).Nodup) : equalsAbs ppqn f a a' = true := by
  rw [← (perm_invariant ppqn f a a' a hp hk).2]
  exact refl ppqn f a

/-- it only looks at the sorted list -/
theorem sort_invariant (ppqn : Int) (f : EqFlags) (a b : List Msg) :
    equalsAbs ppqn f a b = equalsAbs ppqn f (sortAbs a) (sortAbs b) := by
  simp only [equalsAbs, interleaved, pairings, EQ.sortAbs_idem]

/-! ### each ignore flag relaxes only its own attribute -/

/-- ignoring velocity = comparing with all note-on velocities erased -/
def eraseVel (a : List Msg) : List Msg := a.map (fun m => if m.ty == .noteOn then { m with vel := 0 } else m)

theorem flag_velocity (ppqn : Int) (f : EqFlags) (a b : List Msg) :
    equalsAbs ppqn { f with ignoreVel := true } a b
      = equalsAbs ppqn { f with ignoreVel := false } (eraseVel a) (eraseVel b) := by
  have ha : eraseVel a = a.map EQ.gVel := rfl
  have hb : eraseVel b = b.map EQ.gVel := rfl
  have ht : EQ.typesOf { f with ignoreVel := true } = EQ.typesOf { f with ignoreVel := false } := rfl
  rw [ha, hb, EQ.equalsAbs_def, EQ.equalsAbs_def, ht,
    EQ.interleaved_map EQ.relab_gVel _ _ _ a (EQ.sortAbs_gVel a),
    EQ.interleaved_map EQ.relab_gVel _ _ _ b (EQ.sortAbs_gVel b),
    List.length_map, List.length_map,
    EQ.zipAll_map_map (pairEq { f with ignoreVel := true }) _ (EQ.mapOut EQ.gVel id)
      (fun x y => (EQ.pairEq_gVel f x y).symm)]

/-- ignoring time signatures = comparing with all time-signature events removed -/
theorem flag_time_signature (ppqn : Int) (f : EqFlags) (a b : List Msg) :
    equalsAbs ppqn { f with ignoreTs := true } a b
      = equalsAbs ppqn { f with ignoreTs := false } (a.filter (·.ty != .timeSignature)) (b.filter (·.ty != .timeSignature)) := by
  refine EQ.equalsAbs_congr ppqn _ _ a b _ _ ?_ ?_ ?_
  · intro x y; rfl
  all_goals
    apply EQ.interleaved_filter
    · intro m hm
      cases f.ignoreKs <;> cases hty : m.ty <;> simp_all [EQ.typesOf]
    · intro m hm
      cases f.ignoreKs <;> cases hty : m.ty <;> simp_all [EQ.typesOf]

/-- ignoring key signatures = comparing with all key-signature events removed -/
theorem flag_key_signature (ppqn : Int) (f : EqFlags) (a b : List Msg) :
    equalsAbs ppqn { f with ignoreKs := true } a b
      = equalsAbs ppqn { f with ignoreKs := false } (a.filter (·.ty != .keySignature)) (b.filter (·.ty != .keySignature)) := by
  refine EQ.equalsAbs_congr ppqn _ _ a b _ _ ?_ ?_ ?_
  · intro x y; rfl
  all_goals
    apply EQ.interleaved_filter
    · intro m hm
      cases f.ignoreTs <;> cases hty : m.ty <;> simp_all [EQ.typesOf]
    · intro m hm
      cases f.ignoreTs <;> cases hty : m.ty <;> simp_all [EQ.typesOf]

/-- the channel flag: a uniform relabelling of a single-channel sequence compares equal with the flag … -/
theorem flag_channel_relabel (ppqn : Int) (f : EqFlags) (a : List Msg) (c c' : Int)
    (h1 : ∀ m ∈ a, m.ty ∈ [.noteOn, .noteOff, .timeSignature, .keySignature] → m.ch = c) :
    equalsAbs ppqn { f with ignoreCh := true } a (a.map (fun m => { m with ch := c' })) = true := by
  rw [EQ.equalsAbs_def]
  generalize hT : EQ.typesOf { f with ignoreCh := true } = T
  have hT' : ∀ m : Msg, T.contains m.ty = true →
      m.ty ∈ [MType.noteOn, .noteOff, .timeSignature, .keySignature] := by
    intro m
    subst hT
    cases f.ignoreTs <;> cases f.ignoreKs <;> cases m.ty <;> simp [EQ.typesOf]
  have hfil : ∀ m ∈ a.filter (fun m => T.contains m.ty), m.ch = c := by
    intro m hm
    obtain ⟨h2, h3⟩ := List.mem_filter.1 hm
    exact h1 m h2 (hT' m h3)
  have hb : interleaved T ppqn true (a.map (fun m => { m with ch := c' }))
      = (interleaved T ppqn true (a.filter (fun m => T.contains m.ty))).map
          (EQ.mapOut (EQ.gCh c c') (EQ.swapCh c c')) := by
    rw [EQ.interleaved_restrict, List.filter_map]
    exact EQ.interleaved_setCh T ppqn c c' _ hfil
  rw [hb, EQ.interleaved_restrict T ppqn a, List.length_map, beq_self_eq_true, Bool.true_and]
  apply EQ.zipAll_map_right
  intro x hx
  exact EQ.pairEq_gCh_true _ rfl c c' x
    (EQ.inv_interleaved (fun _ => True) _ _ _ (fun _ _ => trivial) x hx).2

/-- … and unequal without it, as soon as the sequence has a compared event and the label changes -/
theorem flag_channel_strict (ppqn : Int) (f : EqFlags) (a : List Msg) (c c' : Int) (hc : c ≠ c')
    (h1 : ∀ m ∈ a, m.ch = c) (hne : ∃ m ∈ a, m.ty = .noteOn)
    (hf : f.ignoreCh = false) :
    equalsAbs ppqn f a (a.map (fun m => { m with ch := c' })) = false := by
  rw [EQ.equalsAbs_def, EQ.interleaved_setCh _ ppqn c c' a h1]
  have hne' := EQ.interleaved_ne (EQ.typesOf f) ppqn a
    (by cases f.ignoreTs <;> cases f.ignoreKs <;> rfl) hne
  obtain ⟨x, rest, hx⟩ := List.exists_cons_of_ne_nil hne'
  have hx1 : x.1 = c := (EQ.inv_interleaved (· = c) _ _ a h1 x (by rw [hx]; simp)).1
  rw [hx]
  simp [zipAll, EQ.pairEq_gCh_false f hf c c' hc x hx1]

/-! ### sensitivity on single attributes (no flags): a difference in one note's attribute is detected -/

/-- two sorted well-formed single-note sequences are equal iff all five attributes and the duration agree -/
theorem single_note (ppqn : Int) (c p t d v c' p' t' d' v' : Int) (hd : 0 < d) (hd' : 0 < d') :
    equalsAbs ppqn {} [Msg.mkOn c p v t, Msg.mkOff c p (t + d)] [Msg.mkOn c' p' v' t', Msg.mkOff c' p' (t' + d')] = true
      ↔ (c = c' ∧ p = p' ∧ t = t' ∧ d = d' ∧ v = v') := by
  rw [EQ.equalsAbs_def,
    EQ.interleaved_single_note ppqn c p t d v hd _ (by simp [EQ.typesOf]) (by simp [EQ.typesOf]),
    EQ.interleaved_single_note ppqn c' p' t' d' v' hd' _ (by simp [EQ.typesOf]) (by simp [EQ.typesOf])]
  simp [zipAll, pairEq, Msg.mkOn, Msg.mkOff]
  intro _
  constructor
  · rintro ⟨h2, ⟨h3, h4⟩, h5⟩
    exact ⟨h3, h2, by omega, h5⟩
  · rintro ⟨h3, h2, h4, h5⟩
    exact ⟨h2, ⟨h3, by omega⟩, h5⟩

/-- a time signature's value and tick both matter -/
theorem single_time_signature (ppqn : Int) (t n d t' n' d' : Int) :
    equalsAbs ppqn {} [Msg.mkTimeSig 0 n d t] [Msg.mkTimeSig 0 n' d' t'] = true ↔ (t = t' ∧ n = n' ∧ d = d') := by
  rw [EQ.equalsAbs_def, EQ.interleaved_single_ts ppqn n d t _ (by simp [EQ.typesOf]),
    EQ.interleaved_single_ts ppqn n' d' t' _ (by simp [EQ.typesOf])]
  simp [zipAll, pairEq, Msg.mkTimeSig]

/-! non-vacuity -/
example : equalsAbs 24 {} [Msg.mkOn 0 60 64 0, Msg.mkOff 0 60 24] [Msg.mkOn 0 60 64 24, Msg.mkOff 0 60 48] = false := by
  decide
example : equalsAbs 24 { ignoreVel := true } [Msg.mkOn 0 60 64 0, Msg.mkOff 0 60 24] [Msg.mkOff 0 60 24, Msg.mkOn 0 60 99 0] = true := by
  decide

end SCoda.C17
